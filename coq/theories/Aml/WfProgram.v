(** Well-formedness of the programs C11 quantifies over (decidable), and the statement of C11 itself.
    Definitions only.

    A sequence of tables is well formed when: every PkgLength width is admissible for its package, names are
    proper AML names (lead char / name chars, fewer than 64 segments), constants fit their width, strings are ASCII,
    opcodes are opcodes of the parser's table with the right number of arguments, every Scope directive and every
    method call resolves under the ACPI rules (tables may refer to objects of earlier tables), every call passes
    exactly the declared number of arguments, predicates / operands are expressions, and an operand in a Target / SuperName /
    SimpleName position of an operator is not the constant Zero: the byte 00 in such a position IS the NullName (spelled
    [ANull] in the AST, dropped from the namespace by [ns] and by the view) - [AConst Zero] there would be a second spelling
    of the same bytes that [ns] counts as an argument.  Conversely [ANull] is not an expression: it may only stand in such a
    position of an operator (anywhere else the byte 00 is the constant Zero, spelled [AConst Zero]). *)
From Coq Require Import NArith List Bool.
From FF Require Import Lib.Word Gen.Consts_device_acpi_aml Aml.Stream Aml.Lex Aml.Tree Aml.Parser Aml.Grammar Aml.View.
Import ListNotations.
Local Open Scope N_scope.

Definition k_ok (k bodylen : N) : bool :=
  let v := k + bodylen in
  ((k =? 1) && (v <? 64)) || ((k =? 2) && (v <? 4096)) || ((k =? 3) && (v <? 1048576)) || ((k =? 4) && (v <? 268435456)).
Definition kw_ok (k v : N) : bool :=      (* a PkgLength that encodes the value v itself (field widths) *)
  ((k =? 1) && (v <? 64)) || ((k =? 2) && (v <? 4096)) || ((k =? 3) && (v <? 1048576)) || ((k =? 4) && (v <? 268435456)).

Definition lead_charb (b : N) : bool := ((0x41 <=? b) && (b <=? 0x5a)) || (b =? 0x5f).
Definition name_charb (b : N) : bool := lead_charb b || ((0x30 <=? b) && (b <=? 0x39)).
Definition seg_ok (s : N) : bool :=
  match seg_bytes s with
  | [a; b; c; d] => (s <? 0x100000000) && lead_charb a && name_charb b && name_charb c && name_charb d
  | _ => false
  end.
Definition name_ok (n : namestr) : bool := (lenN (n_segs n) <? 64) && forallb seg_ok (n_segs n).

Definition bytes_ok (l : list N) : bool := forallb (fun b => b <? 256) l.
Definition ascii_ok (l : list N) : bool := forallb (fun b => (1 <=? b) && (b <=? 127)) l.

(** number of children an opcode of the parser's table takes (all args but PkgLen); None = not an opcode *)
Definition op_arity (op : N) : option N :=
  match opcodeTableIndex op false with
  | Some i => if i =? aml_badOpcode then None else
              match opInfo i with Some (_, _, af) => Some (lenN (argTypes_go 8 0 af)) | None => None end
  | None => None
  end.

(** the argument types of an opcode (all args but PkgLen), for the positions that hold a Target *)
Definition op_argtypes (op : N) : list N :=
  match opcodeTableIndex op false with
  | Some i => match opInfo i with Some (_, _, af) => argTypes_go 8 0 af | None => [] end
  | None => []
  end.
Definition is_target_ty (ty : N) : bool :=
  (ty =? aml_pArgTypeTarget) || (ty =? aml_pArgTypeSuperName) || (ty =? aml_pArgTypeSimpleName).
Definition is_zero_const (a : ast) : bool := match a with AConst op _ => op =? aml_pOpZero | _ => false end.
(** no constant Zero where the grammar has a Target / SuperName / SimpleName (the null target is [ANull]) *)
Fixpoint targets_ok (types : list N) (args : list ast) : bool :=
  match types, args with
  | ty :: tr, a :: ar => negb (is_target_ty ty && is_zero_const a) && targets_ok tr ar
  | _, _ => true
  end.

Definition felem_ok (e : felem) : bool :=
  match e with
  | FNamed s k w => seg_ok s && kw_ok k w
  | FReserved k w => kw_ok k w
  | FAccess ty attr => (ty <? 256) && (attr <? 256)
  | FExtAccess ty attr len => (ty <? 256) && (attr <? 256) && (len <? 256)
  | FConnName nm => name_ok nm
  | FConnBuf k szop bytes =>
      ((szop =? OP_BYTE) || (szop =? OP_WORD) || (szop =? OP_DWORD)) && bytes_ok bytes &&
      k_ok k (1 + N.of_nat (const_bytes szop) + lenN bytes) && (lenN bytes <? N.shiftl 1 (N.of_nat (const_bytes szop) * 8))
  end.

(** declared methods: absolute path -> number of arguments *)
Definition methods : Type := list (path * N).
Fixpoint method_argc (m : methods) (p : path) : option N :=
  match m with [] => None | (q, n) :: r => if path_eqb p q then Some n else method_argc r p end.

Fixpoint collect_methods (e : env) (scope : path) (a : ast) (out : methods) : methods :=
  let body := fix body (l : list ast) (sc : path) (out : methods) : methods :=
                match l with [] => out | x :: r => body r sc (collect_methods e sc x out) end in
  let decl (nm : namestr) (b : list ast) (out : methods) :=
      match decl_path scope nm with Some p => body b p out | None => out end in
  match a with
  | AScope _ nm b => match lookup e scope nm with Some p => body b p out | None => out end
  | ADevice _ nm b | AThermal _ nm b | AProcessor _ nm _ _ _ b | APowerRes _ nm _ _ b => decl nm b out
  | AMethod _ nm flags b =>
      match decl_path scope nm with Some p => body b p ((p, N.land flags 7) :: out) | None => out end
  | _ => out
  end.

Definition is_const_op (op : N) : bool :=
  (op =? aml_pOpZero) || (op =? aml_pOpOne) || (op =? aml_pOpOnes) || (op =? OP_BYTE) || (op =? OP_WORD) || (op =? OP_DWORD) || (op =? OP_QWORD).

Definition is_expr (a : ast) : bool :=
  match a with
  | AConst _ _ | AData _ _ | AStr _ | ABuffer _ _ _ | APackage _ _ _ | AOp _ _ | ARef _ | ACall _ _ => true
  | _ => false
  end.

Section Wf.
Variable e : env.
Variable ms : methods.

Fixpoint wf_ast (scope : path) (a : ast) : bool :=
  let all := fix all (l : list ast) (sc : path) : bool := match l with [] => true | x :: r => wf_ast sc x && all r sc end in
  let allexpr := fix allexpr (l : list ast) : bool := match l with [] => true | x :: r => is_expr x && wf_ast scope x && allexpr r end in
  (* the operands of an operator, position by position: [ANull] (the NullName) only where the opcode takes a Target / SuperName /
     SimpleName, everywhere else an expression *)
  let allargs := fix allargs (tys : list N) (l : list ast) : bool :=
                   match l with
                   | [] => true
                   | x :: r => (if is_null x then is_target_ty (hd 0 tys) else is_expr x && wf_ast scope x) && allargs (tl tys) r
                   end in
  let sumlen := fix sumlen (l : list ast) : N := match l with [] => 0 | x :: r => lenN (encode x) + sumlen r end in
  match a with
  | AConst op v => is_const_op op && (v <? N.shiftl 1 (N.of_nat (const_bytes op) * 8))
  | AData n v => ((n =? 1) || (n =? 2) || (n =? 4) || (n =? 8)) && (v <? N.shiftl 1 (n * 8))
  | AStr b => ascii_ok b
  | ABuffer k size bytes => is_expr size && wf_ast scope size && bytes_ok bytes && k_ok k (lenN (encode size) + lenN bytes)
  | APackage k n elems => (n <? 256) && allexpr elems && k_ok k (1 + sumlen elems)
  | AOp op args => match op_arity op with Some n => (n =? lenN args) | None => false end && targets_ok (op_argtypes op) args && allargs (op_argtypes op) args
  | ANull => true
  | ARef nm => name_ok nm
  | ACall nm args =>
      name_ok nm && allexpr args &&
      match lookup e scope nm with
      | Some p => match method_argc ms p with Some n => n =? lenN args | None => false end
      | None => false
      end
  | AIf k pred body => is_expr pred && wf_ast scope pred && all body scope && k_ok k (lenN (encode pred) + sumlen body)
  | AElse k body => all body scope && k_ok k (sumlen body)
  | AWhile k pred body => is_expr pred && wf_ast scope pred && all body scope && k_ok k (lenN (encode pred) + sumlen body)
  | AScope k nm body =>
      name_ok nm && k_ok k (lenN (enc_name nm) + sumlen body) &&
      match lookup e scope nm with Some p => all body p | None => false end
  | ADevice k nm body | AThermal k nm body =>
      name_ok nm && k_ok k (lenN (enc_name nm) + sumlen body) &&
      match decl_path scope nm with Some p => all body p | None => false end
  | AProcessor k nm id addr len body =>
      name_ok nm && (id <? 256) && (addr <? 0x100000000) && (len <? 256) && k_ok k (lenN (enc_name nm) + 6 + sumlen body) &&
      match decl_path scope nm with Some p => all body p | None => false end
  | APowerRes k nm level order body =>
      name_ok nm && (level <? 256) && (order <? 65536) && k_ok k (lenN (enc_name nm) + 3 + sumlen body) &&
      match decl_path scope nm with Some p => all body p | None => false end
  | AMethod k nm flags body =>
      name_ok nm && (flags <? 256) && k_ok k (lenN (enc_name nm) + 1 + sumlen body) &&
      match decl_path scope nm with Some p => all body p | None => false end
  | AName nm v => name_ok nm && is_expr v && wf_ast scope v && match decl_path scope nm with Some _ => true | None => false end
  | AOpRegion nm space off len =>
      name_ok nm && (space <? 256) && is_expr off && wf_ast scope off && is_expr len && wf_ast scope len &&
      match decl_path scope nm with Some _ => true | None => false end
  | AField k region flags elems =>
      name_ok region && (flags <? 256) && forallb felem_ok elems && k_ok k (lenN (enc_name region) + 1 + lenN (flat_map enc_felem elems))
  | AIndexField k idx data flags elems =>
      name_ok idx && name_ok data && (flags <? 256) && forallb felem_ok elems &&
      k_ok k (lenN (enc_name idx) + lenN (enc_name data) + 1 + lenN (flat_map enc_felem elems))
  | ABankField k region bank bankval flags elems =>
      name_ok region && name_ok bank && is_expr bankval && wf_ast scope bankval && (flags <? 256) && forallb felem_ok elems &&
      k_ok k (lenN (enc_name region) + lenN (enc_name bank) + lenN (encode bankval) + 1 + lenN (flat_map enc_felem elems))
  | AMutex nm sync => name_ok nm && (sync <? 256) && match decl_path scope nm with Some _ => true | None => false end
  | AEvent nm => name_ok nm && match decl_path scope nm with Some _ => true | None => false end
  end.
End Wf.

(** a sequence of tables: all of it well formed against the namespace of the whole sequence restricted to what is
    loaded so far (a table only sees the objects of the tables up to and including itself) *)
Fixpoint wf_tables (done todo : list (list ast)) : bool :=
  match todo with
  | [] => true
  | t :: rest =>
      let upto := done ++ [t] in
      let e := resolve_env upto in
      let ms := fold_left (fun m tb => fold_left (fun m' a => collect_methods e [] a m') tb m) upto [] in
      forallb (wf_ast e ms []) t && wf_tables upto rest
  end.

Definition wf_program (tables : list (list ast)) : bool := wf_tables [] tables.

(** the parser's result on the encoded program *)
Definition parse_program (tables : list (list ast)) : N * list (list N) :=
  let '(class, t, imgs) := load (map encode_table tables) in
  (class, if class =? 0 then sort (view t imgs) else []).

(** THE FULL STATEMENT OF C11 over the model: for every well-formed sequence of tables, parsing the encoding
    succeeds and the namespace view of the resulting tree is the namespace the specification assigns to the program *)
Definition parse_encode_statement (tables : list (list ast)) : Prop :=
  parse_program tables = (0, ns tables).
