(** C11 (fragment F0): [parse_encode] for flat lists of [Name(SEG, integer constant)] declarations.

    The fragment: ONE table whose items are all [AName nm (AConst op v)] with [nm] a single name segment without
    root / parent prefix and not written as a MultiNamePath, [op] one of Zero, One, Ones, BytePrefix, WordPrefix,
    DWordPrefix, QWordPrefix; any number of declarations (names need not be distinct); the encoded table is
    smaller than 256 MiB.  Productions inside the fragment: DefName, NameString = NameSeg, DataRefObject =
    ConstObj | ByteConst | WordConst | DWordConst | QWordConst. *)
From Coq Require Import NArith ZArith Arith List Bool Lia.
From Coq Require Import ZifyBool ZifyN ZifyNat.
From FF Require Import Lib.Word Gen.Consts_device_acpi_aml Gen.Consts_aml_tree Aml.Stream Aml.Lex Aml.LexProofs
  Aml.Tree Aml.TreeSpec Aml.Parser Aml.Grammar Aml.LexRoundtrip
  Aml.ParserFragBase Aml.ParserFragFirst Aml.ParserFragF0 Aml.ParserFragF0Shape Aml.ParserFragF0Conn
  Aml.ParserFragF0Top Aml.View Aml.ParserFragView Aml.ParserFragF0View Aml.WfProgram.
Import ListNotations.
Local Open Scope N_scope.

Ltac Zify.zify_post_hook ::= Z.div_mod_to_equations.

(** the declarations of the fragment *)
Definition f0_item (a : ast) : option decl :=
  match a with
  | AName nm (AConst op v) =>
      match n_segs nm with
      | [seg] => if negb (n_root nm) && (n_carets nm =? 0) && negb (n_multi nm) then Some (mkDecl seg op v) else None
      | _ => None
      end
  | _ => None
  end.

Definition is_f0_item (a : ast) : bool := match f0_item a with Some _ => true | None => false end.

Definition in_fragment_F0 (tables : list (list ast)) : bool :=
  match tables with
  | [p] => forallb is_f0_item p && (lenN (encode_table p) <? 0x10000000)
  | _ => false
  end.

Definition decl_ast (d : decl) : ast := AName (mkName false 0 false [d_seg d]) (AConst (d_op d) (d_v d)).

Lemma f0_item_ast a d : f0_item a = Some d -> a = decl_ast d.
Proof.
  destruct a as [ | | | | | | | | | | | | | | | | | | nm a | | | | | | ]; try discriminate. cbn [f0_item]. destruct a; try discriminate.
  destruct nm as [root carets multi segs]. cbn [n_segs n_root n_carets n_multi].
  destruct segs as [|seg [|s2 segs]]; try discriminate.
  destruct root; cbn [negb andb]; try discriminate.
  destruct (N.eqb_spec carets 0) as [->|]; cbn [andb]; try discriminate.
  destruct multi; cbn [negb]; try discriminate.
  intros E; inversion E. reflexivity.
Qed.

Lemma f0_items p : forallb is_f0_item p = true -> exists ds, p = map decl_ast ds.
Proof.
  induction p as [|a p IH]; intros Hf; [exists []; reflexivity|].
  cbn [forallb] in Hf. apply andb_prop in Hf. destruct Hf as [Ha Hp]. destruct (IH Hp) as (ds & ->).
  unfold is_f0_item in Ha. destruct (f0_item a) as [d|] eqn:E; [|discriminate].
  exists (d :: ds). cbn [map]. rewrite (f0_item_ast a d E). reflexivity.
Qed.

Lemma encode_decl d : encode (decl_ast d) = enc_decl d.
Proof.
  unfold decl_ast, enc_decl, enc_const. cbn [encode]. change (mkName false 0 false [d_seg d]) with (seg_name (d_seg d)).
  rewrite enc_seg_name. reflexivity.
Qed.

Lemma encode_decls ds : encode_table (map decl_ast ds) = enc_decls ds.
Proof.
  unfold encode_table, enc_decls. induction ds as [|d ds IH]; [reflexivity|]. cbn [map flat_map]. rewrite encode_decl, IH. reflexivity.
Qed.

(** well-formedness gives the bounds the proofs use *)
Lemma wf_decl e ms d : wf_ast e ms [] (decl_ast d) = true -> decl_okb d = true /\ d_seg d < 0x100000000.
Proof.
  unfold decl_ast. cbn [wf_ast]. intros Hw.
  apply andb_prop in Hw. destruct Hw as [Hw _]. apply andb_prop in Hw. destruct Hw as [Hw Hc].
  apply andb_prop in Hw. destruct Hw as [Hn _].
  unfold name_ok in Hn. cbn [n_segs forallb] in Hn. apply andb_prop in Hn. destruct Hn as [_ Hn].
  apply andb_prop in Hn. destruct Hn as [Hseg _].
  unfold seg_ok, seg_bytes in Hseg. repeat (apply andb_prop in Hseg; destruct Hseg as [Hseg ?]).
  apply andb_prop in Hc. destruct Hc as [Hc Hv].
  split.
  - unfold decl_okb. apply andb_true_intro. split; [apply andb_true_intro; split|].
    + assumption.
    + exact Hc.
    + rewrite N.shiftl_1_l in Hv. exact Hv.
  - apply N.ltb_lt. assumption.
Qed.

Lemma wf_decls e ms ds : forallb (wf_ast e ms []) (map decl_ast ds) = true ->
  forallb decl_okb ds = true /\ forall d, In d ds -> d_seg d < 0x100000000.
Proof.
  induction ds as [|d ds IH]; intros Hw; [split; [reflexivity|intros d []]|].
  cbn [map forallb] in Hw. apply andb_prop in Hw. destruct Hw as [Hd Hw].
  destruct (wf_decl e ms d Hd) as (A & B). destruct (IH Hw) as (C & D).
  split; [cbn [forallb]; rewrite A, C; reflexivity|]. intros d' [<-|Hin]; [exact B|apply D; exact Hin].
Qed.

(** the specification side *)
Lemma entries_decl e d : entries e [] (decl_ast d) = [f0_entry d].
Proof.
  unfold decl_ast, f0_entry. cbn [entries]. unfold decl_path, start_scope. cbn [n_root n_carets n_segs lenN length N.of_nat].
  change (0 <? 0) with false. cbv iota. cbn [N.to_nat Nat.sub firstn app]. cbn [r_expr].
  unfold const_tokens, const_val, tok_const. destruct (const_bytes (d_op d)); reflexivity.
Qed.

Lemma entries_decls e ds : flat_map (entries e []) (map decl_ast ds) = map f0_entry ds.
Proof. induction ds as [|d ds IH]; [reflexivity|]. cbn [map flat_map]. rewrite entries_decl, IH. reflexivity. Qed.

(** THE THEOREM for the fragment *)
Theorem parse_encode_F0 : forall tables,
  wf_program tables = true -> in_fragment_F0 tables = true -> parse_encode_statement tables.
Proof.
  intros tables Hwf Hfr. unfold in_fragment_F0 in Hfr.
  destruct tables as [|p [|p2 rest]]; try discriminate.
  apply andb_prop in Hfr. destruct Hfr as [Hitems Hsz]. apply N.ltb_lt in Hsz.
  destruct (f0_items p Hitems) as (ds & ->).
  unfold wf_program in Hwf. cbn [wf_tables app] in Hwf. apply andb_prop in Hwf. destruct Hwf as [Hwf _].
  destruct (wf_decls _ _ ds Hwf) as (Hok & Hseg).
  rewrite encode_decls in Hsz.
  unfold parse_encode_statement, parse_program, load. cbn [map].
  destruct default_rep as (t0 & Et0 & H0). rewrite Et0. cbn [load_tables]. rewrite encode_decls.
  destruct (parse_f0 ds t0 Hok Hsz H0) as (s' & gF & plF & Eparse & HF & SF & Etb).
  rewrite Eparse. cbn [load_tables app]. change (0 =? 0) with true. cbv iota.
  rewrite (view_f0 ds Hok Hseg (p_tree s') gF plF HF SF).
  unfold ns. cbn [flat_map]. rewrite app_nil_r, entries_decls. reflexivity.
Qed.
