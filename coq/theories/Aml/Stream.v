(** Layer 1 of the AML model: kernel/device/acpi/aml/stream_reader.go (amlStreamReader).
    Definitions only.

    The reader overlays a byte slice on the table memory.  [r_data] is that memory as a list of
    bytes (index 0 = first byte of the SDT header), [r_len] caches its length (the Go code asks
    [len(r.data)]), offsets are uint32.  Every slice index the Go code performs is an explicit
    bounds check here: an index outside the slice is [Panic] (Go: "index out of range"). *)
From Coq Require Import NArith List Bool.
From FF Require Import Lib.Word.
Import ListNotations.
Local Open Scope N_scope.

(** Outcome of a modelled Go call: a value, a Go run-time panic, or the model ran out of fuel.
    Go-level error returns are ordinary values ([option], [parseResult] codes ...). *)
Inductive outcome (A : Type) : Type :=
| Ok (a : A)
| Panic
| OutOfFuel.
Arguments Ok {A} a.
Arguments Panic {A}.
Arguments OutOfFuel {A}.

Definition bind {A B} (o : outcome A) (f : A -> outcome B) : outcome B :=
  match o with Ok a => f a | Panic => Panic | OutOfFuel => OutOfFuel end.

Notation "'do' x <- e ; k" := (bind e (fun x => k)) (at level 200, x name, e at level 100, k at level 200).
Notation "'do' ' p <- e ; k" := (bind e (fun x => match x with p => k end)) (at level 200, p pattern, e at level 100, k at level 200).

Record reader : Type := mkReader {
  r_data : list N;     (* the table bytes *)
  r_len : N;           (* len(r.data) *)
  r_offset : N;        (* uint32 *)
  r_pkgEnd : N         (* uint32 *)
}.

Definition byte_at (d : list N) (i : N) : option N := nth_error d (N.to_nat i).

Definition set_offset_raw (r : reader) (o : N) : reader := mkReader (r_data r) (r_len r) o (r_pkgEnd r).
Definition set_pkgEnd_raw (r : reader) (e : N) : reader := mkReader (r_data r) (r_len r) (r_offset r) e.

(** EOF: offset >= pkgEnd *)
Definition eof (r : reader) : bool := r_pkgEnd r <=? r_offset r.

(** SetPkgEnd: error (false) when pkgEnd > len(data) *)
Definition setPkgEnd (r : reader) (e : N) : reader * bool :=
  if r_len r <? e then (r, false) else (set_pkgEnd_raw r e, true).

(** SetOffset clamps to len(data) *)
Definition setOffset (r : reader) (o : N) : reader :=
  set_offset_raw r (if r_len r <? o then r_len r else o).

(** Init(dataAddr, dataLen, initialOffset) *)
Definition init_reader (d : list N) (initial : N) : reader :=
  let n := N.of_nat (length d) in
  let r0 := mkReader d n 0 0 in
  setOffset (fst (setPkgEnd r0 n)) initial.

(** ReadByte: [None] = errReadPastPkgEnd.  The Go code increments the offset and then indexes
    [r.data[r.offset-1]]. *)
Definition readByte (r : reader) : outcome (option N * reader) :=
  if eof r then Ok (None, r)
  else match byte_at (r_data r) (r_offset r) with
       | Some b => Ok (Some b, set_offset_raw r (w32 (r_offset r + 1)))
       | None => Panic
       end.

Definition peekByte (r : reader) : outcome (option N) :=
  if eof r then Ok None
  else match byte_at (r_data r) (r_offset r) with
       | Some b => Ok (Some b)
       | None => Panic
       end.

(** LastByte *)
Definition lastByte (r : reader) : outcome (option N) :=
  if r_offset r =? 0 then Ok None
  else match byte_at (r_data r) (r_offset r - 1) with
       | Some b => Ok (Some b)
       | None => Panic
       end.

(** UnreadByte: false = errInvalidUnreadByte *)
Definition unreadByte (r : reader) : reader * bool :=
  if r_offset r =? 0 then (r, false) else (set_offset_raw r (r_offset r - 1), true).

(** DataPtr: address of data[offset], or 0 at EOF.  Addresses are modelled relative to the start
    of the table: [Some off] = table base + off, [None] = the null address. The Go code indexes
    [&r.data[r.offset]], which panics when offset >= len. *)
Definition dataPtr (r : reader) : outcome (option N) :=
  if eof r then Ok None
  else if r_offset r <? r_len r then Ok (Some (r_offset r)) else Panic.

(** A Go []byte that aliases the table: start address (see [dataPtr]) and length. *)
Record slice : Type := mkSlice { s_ptr : option N; s_len : N }.

Definition nil_slice : slice := mkSlice None 0.

(** The slice lies inside a table of [n] bytes (an empty slice touches no memory). *)
Definition slice_inside (n : N) (s : slice) : Prop :=
  s_len s = 0 \/ exists p, s_ptr s = Some p /\ p + s_len s <= n.

Definition slice_insideb (n : N) (s : slice) : bool :=
  (s_len s =? 0) || match s_ptr s with Some p => p + s_len s <=? n | None => false end.

(** Reader invariant: the cached length is the length, the read window ends inside the data, the table is
    smaller than 4 GiB and its elements are bytes. *)
Definition reader_wf (r : reader) : Prop :=
  r_len r = N.of_nat (length (r_data r)) /\ r_pkgEnd r <= r_len r /\ r_len r < two32 /\
  Forall (fun b => b < 256) (r_data r).
