(** The stream-reader layer of the AML model (Aml/Stream.v, hand-written) IS the Gallina translation of
    kernel/device/acpi/aml/stream_reader.go that gen/gotrans regenerates from the source on every run
    (Gen/Trans_aml_reader.v): method by method, including the run-time panic of an out-of-range index
    and the uint32 wrap-around of the offset.  Init and DataPtr (unsafe.Pointer arithmetic) are outside
    the translator's subset and stay tied by differential testing and source pins. *)
From Coq Require Import NArith Lia List Bool String.
From Coq Require Import ZifyBool ZifyN ZifyNat.
From FF Require Import Lib.Word Lib.GoOps Gen.Trans_aml_reader Aml.Stream.
Import ListNotations.
Local Open Scope N_scope.

Definition to_go (r : reader) : go_aml_amlStreamReader :=
  mk_go_aml_amlStreamReader (r_offset r) (r_data r) (r_pkgEnd r).

(** what the translation relies on: the cached length is the length and fits the uint32 conversion *)
Definition len_ok (r : reader) : Prop := r_len r = N.of_nat (List.length (r_data r)) /\ r_len r < two32.

Definition err (ok : bool) (tag : string) : option string := if ok then None else Some tag.

Lemma gw32_small x : x < two32 -> gw 32 x = x.
Proof. intros H. unfold gw. apply N.mod_small. exact H. Qed.

Lemma gw32_w32 x : gw 32 x = w32 x.
Proof. reflexivity. Qed.

Lemma gsub32_pred o : 0 < o -> o < two32 -> gsub 32 o 1 = o - 1.
Proof.
  intros H0 H. unfold gsub, gw. change (2 ^ 32) with two32. rewrite (N.mod_small 1) by (unfold two32; lia).
  replace (o + two32 - 1) with ((o - 1) + 1 * two32) by lia.
  rewrite N.mod_add by (unfold two32; lia). apply N.mod_small. lia.
Qed.

Lemma gsub32_succ o : o < two32 -> gsub 32 (gw 32 (o + 1)) 1 = o.
Proof.
  intros H. unfold gsub, gw. change (2 ^ 32) with two32. rewrite (N.mod_small 1) by (unfold two32; lia).
  destruct (N.eq_dec (o + 1) two32) as [E|E].
  - rewrite E, N.mod_same by (unfold two32; lia). replace (0 + two32 - 1) with o by lia. apply N.mod_small. exact H.
  - rewrite (N.mod_small (o + 1)) by lia. replace (o + 1 + two32 - 1) with (o + 1 * two32) by lia.
    rewrite N.mod_add by (unfold two32; lia). apply N.mod_small. exact H.
Qed.

Lemma glen_len r : len_ok r -> gw 32 (glen (r_data r)) = r_len r.
Proof. intros [H1 H2]. unfold glen. rewrite <- H1. apply gw32_small. exact H2. Qed.

Theorem eof_is_translation r : go_aml_amlStreamReader_EOF (to_go r) = Some (to_go r, eof r).
Proof. reflexivity. Qed.

Theorem setPkgEnd_is_translation r e : len_ok r ->
  go_aml_amlStreamReader_SetPkgEnd (to_go r) e =
  Some (to_go (fst (setPkgEnd r e)), err (snd (setPkgEnd r e)) "errInvalidPkgEnd").
Proof.
  intros H. unfold go_aml_amlStreamReader_SetPkgEnd, setPkgEnd. cbn [to_go f_amlStreamReader_data f_amlStreamReader_offset f_amlStreamReader_pkgEnd].
  rewrite (glen_len r H). destruct (r_len r <? e); reflexivity.
Qed.

Theorem readByte_is_translation r : r_offset r < two32 ->
  match readByte r with
  | Ok (Some b, r') => go_aml_amlStreamReader_ReadByte (to_go r) = Some (to_go r', (b, None))
  | Ok (None, r') => go_aml_amlStreamReader_ReadByte (to_go r) = Some (to_go r', (0, Some "errReadPastPkgEnd"%string))
  | Panic => go_aml_amlStreamReader_ReadByte (to_go r) = None
  | OutOfFuel => False
  end.
Proof.
  intros Ho. unfold readByte, go_aml_amlStreamReader_ReadByte. rewrite eof_is_translation.
  destruct (eof r) eqn:E; [reflexivity|].
  cbn [to_go f_amlStreamReader_data f_amlStreamReader_offset f_amlStreamReader_pkgEnd].
  rewrite (gsub32_succ _ Ho). unfold gidx, byte_at.
  destruct (nth_error (r_data r) (N.to_nat (r_offset r))) as [b|]; reflexivity.
Qed.

Theorem peekByte_is_translation r :
  match peekByte r with
  | Ok (Some b) => go_aml_amlStreamReader_PeekByte (to_go r) = Some (to_go r, (b, None))
  | Ok None => go_aml_amlStreamReader_PeekByte (to_go r) = Some (to_go r, (0, Some "errReadPastPkgEnd"%string))
  | Panic => go_aml_amlStreamReader_PeekByte (to_go r) = None
  | OutOfFuel => False
  end.
Proof.
  unfold peekByte, go_aml_amlStreamReader_PeekByte. rewrite eof_is_translation.
  destruct (eof r) eqn:E; [reflexivity|].
  cbn [to_go f_amlStreamReader_data f_amlStreamReader_offset f_amlStreamReader_pkgEnd]. unfold gidx, byte_at.
  destruct (nth_error (r_data r) (N.to_nat (r_offset r))) as [b|]; reflexivity.
Qed.

Theorem lastByte_is_translation r : r_offset r < two32 ->
  match lastByte r with
  | Ok (Some b) => go_aml_amlStreamReader_LastByte (to_go r) = Some (to_go r, (b, None))
  | Ok None => go_aml_amlStreamReader_LastByte (to_go r) = Some (to_go r, (0, Some "errReadPastPkgEnd"%string))
  | Panic => go_aml_amlStreamReader_LastByte (to_go r) = None
  | OutOfFuel => False
  end.
Proof.
  intros Ho. unfold lastByte, go_aml_amlStreamReader_LastByte.
  cbn [to_go f_amlStreamReader_data f_amlStreamReader_offset f_amlStreamReader_pkgEnd].
  destruct (N.eqb_spec (r_offset r) 0) as [E|E]; [reflexivity|].
  rewrite gsub32_pred by lia. unfold gidx, byte_at.
  destruct (nth_error (r_data r) (N.to_nat (r_offset r - 1))) as [b|]; reflexivity.
Qed.

Theorem unreadByte_is_translation r : r_offset r < two32 ->
  go_aml_amlStreamReader_UnreadByte (to_go r) =
  Some (to_go (fst (unreadByte r)), err (snd (unreadByte r)) "errInvalidUnreadByte").
Proof.
  intros Ho. unfold unreadByte, go_aml_amlStreamReader_UnreadByte.
  cbn [to_go f_amlStreamReader_data f_amlStreamReader_offset f_amlStreamReader_pkgEnd].
  destruct (N.eqb_spec (r_offset r) 0) as [E|E]; [reflexivity|].
  rewrite gsub32_pred by lia. reflexivity.
Qed.

Theorem offset_is_translation r : go_aml_amlStreamReader_Offset (to_go r) = Some (to_go r, r_offset r).
Proof. reflexivity. Qed.

Theorem setOffset_is_translation r o : len_ok r ->
  go_aml_amlStreamReader_SetOffset (to_go r) o = Some (to_go (setOffset r o), tt).
Proof.
  intros H. unfold setOffset, go_aml_amlStreamReader_SetOffset.
  cbn [to_go f_amlStreamReader_data f_amlStreamReader_offset f_amlStreamReader_pkgEnd].
  rewrite (glen_len r H). destruct (r_len r <? o); reflexivity.
Qed.

(** the hypotheses are consequences of the reader invariant of the C12 theorems *)
Lemma reader_wf_len_ok r : reader_wf r -> len_ok r.
Proof. intros (H1 & _ & H3 & _). split; assumption. Qed.
