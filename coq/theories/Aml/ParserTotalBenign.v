(** C12 (stretch): in the first pass the functions below parseNextObject create no Method or Scope object and give no
    object a row with pOpFlagDeferParsing (partial correctness, by structural decomposition; mode parseModeSkipAmbiguousBlocks). *)
From Coq Require Import NArith Arith List Bool Lia.
From FF Require Import Lib.Word Gen.Consts_device_acpi_aml Aml.Stream Aml.Lex Aml.Tree Aml.Parser Aml.TreeSpec Aml.TreeProofs
  Aml.ParserTotalTree Aml.ParserTotalTree2 Aml.ParserTotalTable Aml.ParserTotalBase Aml.ParserTotalLeaf Aml.ParserTotalFrame Aml.ParserTotalDeferM.
Import ListNotations.
Local Open Scope N_scope.

Definition deferrow (o : Obj) : Prop :=
  exists op fl af, opInfo (o_infoIndex o) = Some (op, fl, af) /\ hasFlag fl aml_pOpFlagDeferParsing = true.
Definition msop (o : Obj) : Prop := o_opcode o = aml_pOpMethod \/ o_opcode o = aml_pOpScope.
Definition benign (o : Obj) : Prop := ~ msop o /\ ~ deferrow o.
Definition same2 (o o' : Obj) : Prop := o_opcode o' = o_opcode o /\ o_infoIndex o' = o_infoIndex o.

Lemma benign_same o o' : same2 o o' -> benign o -> benign o'.
Proof. intros (E1 & E2) (A & B). unfold benign, msop, deferrow. rewrite E1, E2. auto. Qed.

(** every object either was there with the same opcode and row, or is benign *)
Definition BN (s s' : pstate) : Prop :=
  forall i o', tget (p_tree s') i = Some o' -> (exists o, tget (p_tree s) i = Some o /\ same2 o o') \/ benign o'.

Lemma BN_tree s s' : p_tree s' = p_tree s -> BN s s'.
Proof. intros E i o Ho. rewrite E in Ho. left. exists o. split; [exact Ho|split; reflexivity]. Qed.
Lemma BN_trans s s1 s2 : BN s s1 -> BN s1 s2 -> BN s s2.
Proof.
  intros A B i o Ho. destruct (B i o Ho) as [(o1 & Ho1 & S1)|Hb]; [|right; exact Hb].
  destruct (A i o1 Ho1) as [(o0 & Ho0 & S0)|Hb]; [left; exists o0; split; [exact Ho0|]; destruct S0, S1; split; congruence|right; eapply benign_same; eauto].
Qed.

Definition bn {A} (m : M A) : Prop :=
  forall s a s', m s = Ok (a, s') -> p_allBlocks s = false -> p_allBlocks s' = false /\ BN s s'.

Lemma bn_bind {A B} (m : M A) (f : A -> M B) : bn m -> (forall a, bn (f a)) -> bn (bindM m f).
Proof.
  intros Hm Hf s b s' H Hmd. apply bindM_ok in H. destruct H as (a & s1 & E1 & E2).
  destruct (Hm _ _ _ E1 Hmd) as (M1 & A1). destruct (Hf a _ _ _ E2 M1) as (M2 & A2).
  split; [exact M2|exact (BN_trans _ _ _ A1 A2)].
Qed.
Lemma bn_if {A} (b : bool) (m1 m2 : M A) : (b = true -> bn m1) -> (b = false -> bn m2) -> bn (if b then m1 else m2).
Proof. destruct b; auto. Qed.
Lemma bn_getmode {B} (f : bool -> M B) : bn (f false) -> bn (bindM (Parser.get p_allBlocks) f).
Proof. intros Hf s b s' H Hmd. unfold bindM, Parser.get in H. rewrite Hmd in H. exact (Hf _ _ _ H Hmd). Qed.
Lemma bn_stay {A} (m : M A) : msame m -> notree m -> bn m.
Proof. intros Hm Ht s a s' H Hmd. split; [rewrite (Hm _ _ _ H); exact Hmd|apply BN_tree; exact (Ht _ _ _ H)]. Qed.
Lemma bn_fail {A} (m : M A) : (forall s, m s = Panic \/ m s = OutOfFuel) -> bn m.
Proof. intros H s a s' E. destruct (H s) as [F|F]; rewrite F in E; discriminate. Qed.

Lemma bn_wrf p f : (forall o, same2 o (f o)) -> bn (wrf p f).
Proof.
  intros H1 s a s' H Hmd. split; [rewrite (msame_tu _ _ _ _ H); exact Hmd|].
  unfold wrf, tu in H. destruct (wr (p_tree s) p f) as [t'| |] eqn:E; try discriminate.
  inversion H; subst. destruct (wr_inv _ _ _ _ E) as (-> & _). unfold BN. cbn [p_tree with_tree].
  intros i o Ho. rewrite get_tset in Ho. destruct (N.eqb_spec i p) as [->|_]; [|left; exists o; split; [exact Ho|split; reflexivity]].
  destruct (tget (p_tree s) p) as [o0|] eqn:E0; cbn [option_map] in Ho; [|discriminate]. inversion Ho; subst o. left. exists o0. split; [reflexivity|apply H1].
Qed.

Definition okop (opc : N) : Prop :=
  opc <> aml_pOpMethod /\ opc <> aml_pOpScope /\
  forall idx op fl af, opcodeTableIndex opc true = Some idx -> opInfo idx = Some (op, fl, af) -> hasFlag fl aml_pOpFlagDeferParsing = false.

Lemma okop_benign opc (po : Obj) : okop opc -> o_opcode po = opc -> opcodeTableIndex opc true = Some (o_infoIndex po) -> benign po.
Proof.
  intros (N1 & N2 & N3) Hop Hidx. split.
  - intros [E|E]; rewrite Hop in E; contradiction.
  - intros (op & fl & af & Hrow & Hf). rewrite (N3 _ op fl af Hidx Hrow) in Hf. discriminate.
Qed.

Lemma bn_newObj opc : okop opc -> bn (newObj opc).
Proof.
  intros Hok s a s' H Hmd. split; [rewrite (msame_newObj _ _ _ _ H); exact Hmd|].
  unfold newObj in H. destruct (newObject (p_tree s) opc (p_handle s)) as [[t' p]| |] eqn:E; try discriminate.
  inversion H; subst a s'. unfold BN. cbn [p_tree with_tree].
  destruct (newObject_shape _ _ _ _ _ E) as ((po & Hpo & Hpop & Hidx & _) & _ & Hbw & _).
  intros i o Ho. destruct (N.eq_dec i p) as [->|Hip]; [right|left; exists o; split; [apply (Hbw i o Hip Ho)|split; reflexivity]].
  assert (Epo : po = o) by congruence. subst po. rewrite pOpcodeTableIndex_eq in Hidx.
  destruct (opcodeTableIndex opc true) as [i0|] eqn:Ei; [|discriminate]. inversion Hidx as [Hii].
  apply (okop_benign opc o Hok Hpop). rewrite Ei, Hii. reflexivity.
Qed.

Lemma bn_tu_pframe (f : T -> outcome T) : (forall t t', f t = Ok t' -> pframe t t') -> bn (tu f).
Proof.
  intros Hf s a s' H Hmd. split; [rewrite (msame_tu _ _ _ _ H); exact Hmd|].
  unfold tu in H. destruct (f (p_tree s)) as [t'| |] eqn:E; try discriminate. inversion H; subst. unfold BN. cbn [p_tree with_tree].
  intros i o Ho. destruct (pframe_inv _ _ _ _ (Hf _ _ E) Ho) as (o0 & Ho0 & E1 & E2 & _). left. exists o0. split; [exact Ho0|split; assumption].
Qed.

Lemma bn_tableIndex {B} op b (k : N -> M B) : (forall idx, opcodeTableIndex op b = Some idx -> bn (k idx)) -> bn (bindM (tableIndex op b) k).
Proof.
  intros Hk s x s' H Hmd. unfold bindM, tableIndex in H. destruct (opcodeTableIndex op b) as [i|] eqn:E; [|discriminate].
  exact (Hk i eq_refl _ _ _ H Hmd).
Qed.

(** the operators parseTarget accepts *)
Definition okopb (opc : N) : bool :=
  negb (opc =? aml_pOpMethod) && negb (opc =? aml_pOpScope) &&
  match opcodeTableIndex opc true with
  | Some i => match opInfo i with Some (_, fl, _) => negb (hasFlag fl aml_pOpFlagDeferParsing) | None => true end
  | None => true
  end.

Lemma okopb_sound opc : okopb opc = true -> okop opc.
Proof.
  unfold okopb. intros H. apply andb_prop in H. destruct H as (H & H3). apply andb_prop in H. destruct H as (H1 & H2).
  apply negb_true_iff in H1. apply negb_true_iff in H2. apply N.eqb_neq in H1. apply N.eqb_neq in H2.
  split; [exact H1|]. split; [exact H2|]. intros idx op fl af Hi Hr. rewrite Hi, Hr in H3. apply negb_true_iff in H3. exact H3.
Qed.

Lemma target_okop_all : forallb (fun op => negb (target_cond op) || okopb op) ops511 = true.
Proof. vm_compute. reflexivity. Qed.

Lemma target_okop op : op <= 0x1fe -> target_cond op = true -> okop op.
Proof.
  intros Hop Hc. pose proof (proj1 (forallb_forall _ _) target_okop_all op (In_ops511 op Hop)) as H. cbv beta in H.
  rewrite Hc in H. cbn [negb orb] in H. apply okopb_sound. exact H.
Qed.

Lemma oti_bound op b i : opcodeTableIndex op b = Some i -> op <= 0x1fe.
Proof.
  unfold opcodeTableIndex. destruct (N.leb_spec op 0xff) as [H|H]; [intros _; lia|].
  destruct (nthN aml_extendedOpcodeMap (op - 0xff)) as [idx|] eqn:E; [|discriminate]. intros _.
  unfold nthN in E. assert (Hlt : (N.to_nat (op - 0xff) < length aml_extendedOpcodeMap)%nat) by (apply nth_error_Some; rewrite E; discriminate).
  assert (Hlen : length aml_extendedOpcodeMap = 256%nat) by (vm_compute; reflexivity). rewrite Hlen in Hlt. lia.
Qed.

Lemma nextOpcode_bound r op r' : nextOpcode r = Ok (op, true, r') -> op <= 0x1fe.
Proof.
  unfold nextOpcode. destruct (readByte r) as [[nx r1]| |]; cbn [bind]; try discriminate.
  destruct nx as [next|]; [|discriminate].
  assert (K : forall o l rr, match opcodeTableIndex o false with
                             | None => Panic
                             | Some idx => if idx =? aml_badOpcode then Ok (0xffff, false, setOffset rr (w32 (r_offset rr + two32 - l)))
                                           else Ok (o, true, rr) end = Ok (op, true, r') -> op <= 0x1fe).
  { intros o l rr H. destruct (opcodeTableIndex o false) as [idx|] eqn:E; [|discriminate].
    destruct (idx =? aml_badOpcode) eqn:Eb; [discriminate|]. inversion H; subst. eapply oti_bound; eauto. }
  destruct (next =? aml_extOpPrefix).
  - destruct (readByte r1) as [[nx2 r2]| |]; cbn [bind]; try discriminate. destruct nx2 as [next2|]; [|discriminate]. apply K.
  - apply K.
Qed.

Lemma bn_lex_next {B} (k : N * bool -> M B) :
  (forall op, op <= 0x1fe -> bn (k (op, true))) -> (forall op, bn (k (op, false))) -> bn (bindM (lex nextOpcode) k).
Proof.
  intros Ht Hn s b s' H Hmd. unfold bindM, lex in H. destruct (nextOpcode (p_r s)) as [[[op ok] r1]| |] eqn:E; try discriminate.
  assert (Hst : p_allBlocks (with_r s r1) = false) by exact Hmd.
  assert (A0 : BN s (with_r s r1)) by (apply BN_tree; reflexivity).
  destruct ok.
  - destruct (Ht op (nextOpcode_bound _ _ _ E) _ _ _ H Hst) as (M1 & A1). split; [exact M1|exact (BN_trans _ _ _ A0 A1)].
  - destruct (Hn op _ _ _ H Hst) as (M1 & A1). split; [exact M1|exact (BN_trans _ _ _ A0 A1)].
Qed.

(** ---- automation ---- *)
Ltac okop_const := apply okopb_sound; vm_compute; reflexivity.

Ltac bn_wrf_side := let o := fresh "o" in intros o; split; reflexivity.

Ltac bn_prim :=
  first [ (apply bn_stay; [msame_prim|notree_prim2])
        | (apply bn_wrf; bn_wrf_side)
        | (apply bn_newObj; first [okop_const | (apply target_okop; assumption)])
        | (apply bn_tu_pframe; let t := fresh in let t' := fresh in let E := fresh in intros t t' E;
           first [solve [eapply append_pframe; eauto] | solve [eapply appendAfter_pframe; eauto] | solve [eapply detach_pframe; eauto]]) ].

Ltac bn_unf :=
  unfold rq, offsetM, eofM, curTable, rdf, rdo, objectAt, objectAt', appendM, detachM,
         setOffsetM, pushPkgEnd, bytesOf, scopeCurrent, methodArgCountPanic, streamFuel, fieldByte.

Ltac bn_tac rec :=
  repeat first
    [ rec
    | match goal with
      | |- bn (bindM (Parser.get p_allBlocks) _) => apply bn_getmode; cbv beta; cbn [negb andb]
      | |- bn (bindM (tableIndex _ _) _) => apply bn_tableIndex; intros ? ?
      | |- bn (bindM (lex nextOpcode) (fun _ => let '(_, _) := _ in _)) =>
          apply bn_lex_next; [intros ? ?; cbv beta iota; cbn [negb]|intros ?; cbv beta iota; cbn [negb]]
      end
    | bn_prim | (apply bn_if; intros ?) | (apply bn_bind; [|intros ?])
    | match goal with |- bn (match ?x with _ => _ end) => destruct x end
    | match goal with |- bn (let '(_, _) := ?x in _) => destruct x end ].

(** ---- the object parseSimpleArg creates, field by field (partial correctness) ---- *)
Lemma newObject_init (t t' : T) opc th p : newObject t opc th = Ok (t', p) ->
  exists o info, tget t' p = Some (init_object opc info th o).
Proof.
  unfold newObject. intros H. apply bind_ok in H. destruct H as ([t1 p1] & _ & H).
  apply bind_ok in H. destruct H as (info & _ & H). apply bind_ok in H. destruct H as (t2 & Hw & H). inversion H; subst t2 p1. clear H.
  destruct (wr_inv _ _ _ _ Hw) as (-> & o & Ho). exists o, info. rewrite get_tset, N.eqb_refl, Ho. reflexivity.
Qed.

Lemma wrf_at p f s u s' o : wrf p f s = Ok (u, s') -> tget (p_tree s) p = Some o -> tget (p_tree s') p = Some (f o).
Proof.
  unfold wrf, tu. intros H Ho. destruct (wr (p_tree s) p f) as [t'| |] eqn:E; try discriminate. inversion H; subst.
  destruct (wr_inv _ _ _ _ E) as (-> & _). cbn [p_tree with_tree]. rewrite get_tset, N.eqb_refl, Ho. reflexivity.
Qed.

Lemma simple_num_obj obj op bytes s a r s' o0 : simple_num obj op bytes s = Ok ((a, r), s') -> tget (p_tree s) obj = Some o0 ->
  exists v idx, tget (p_tree s') obj = Some (set_infoIndex idx (set_value (Some (VNum v)) (set_opcode op o0))).
Proof.
  unfold simple_num. intros H Ho.
  apply bindM_ok in H. destruct H as (u1 & s1 & E1 & H). pose proof (wrf_at _ _ _ _ _ _ E1 Ho) as Ho1.
  apply bindM_ok in H. destruct H as ([v ok] & s2 & E2 & H). rewrite <- (notree_lex _ _ _ _ E2) in Ho1.
  apply bindM_ok in H. destruct H as (u3 & s3 & E3 & H). pose proof (wrf_at _ _ _ _ _ _ E3 Ho1) as Ho3.
  apply bindM_ok in H. destruct H as (idx & s4 & E4 & H). rewrite <- (notree_tableIndex _ _ _ _ _ E4) in Ho3.
  apply bindM_ok in H. destruct H as (u5 & s5 & E5 & H). pose proof (wrf_at _ _ _ _ _ _ E5 Ho3) as Ho5.
  inversion H; subst. exists v, idx. exact Ho5.
Qed.

Lemma simple_str_obj obj tbl op f s a r s' o0 : simple_str obj tbl op f s = Ok ((a, r), s') -> tget (p_tree s) obj = Some o0 ->
  exists v idx, tget (p_tree s') obj = Some (set_infoIndex idx (set_value (Some (bytesValue tbl v)) (set_opcode op o0))).
Proof.
  unfold simple_str. intros H Ho.
  apply bindM_ok in H. destruct H as (u1 & s1 & E1 & H). pose proof (wrf_at _ _ _ _ _ _ E1 Ho) as Ho1.
  apply bindM_ok in H. destruct H as ([v ok] & s2 & E2 & H). rewrite <- (notree_lex _ _ _ _ E2) in Ho1.
  apply bindM_ok in H. destruct H as (u3 & s3 & E3 & H). pose proof (wrf_at _ _ _ _ _ _ E3 Ho1) as Ho3.
  apply bindM_ok in H. destruct H as (idx & s4 & E4 & H). rewrite <- (notree_tableIndex _ _ _ _ _ E4) in Ho3.
  apply bindM_ok in H. destruct H as (u5 & s5 & E5 & H). pose proof (wrf_at _ _ _ _ _ _ E5 Ho3) as Ho5.
  inversion H; subst. exists v, idx. exact Ho5.
Qed.


Lemma wrf_inv2 p f s u s' : wrf p f s = Ok (u, s') -> exists o, tget (p_tree s) p = Some o.
Proof.
  unfold wrf, tu. intros H. destruct (wr (p_tree s) p f) as [t'| |] eqn:E; try discriminate. destruct (wr_inv _ _ _ _ E) as (_ & o & Ho). eauto.
Qed.

Lemma benign_const op idx (o : Obj) : okop op -> opcodeTableIndex op true = Some idx -> benign (set_infoIndex idx (set_opcode op o)).
Proof. intros Hok Hi. apply (okop_benign op _ Hok); [reflexivity|exact Hi]. Qed.

Lemma parseByteList_bn obj n : bn (parseByteList obj n).
Proof.
  intros s r s' H Hmd. split; [rewrite (parseByteList_msame obj n _ _ _ H); exact Hmd|].
  intros i o' Ho'. destruct (N.eq_dec i obj) as [->|Hne].
  2:{ left. exists o'. split; [rewrite <- (parseByteList_only obj n s r s' H i Hne); exact Ho'|split; reflexivity]. }
  unfold parseByteList in H. apply bindM_ok in H. destruct H as (rr & s1 & E1 & H). inversion E1; subst rr s1. clear E1.
  destruct ((r_pkgEnd (p_r s) <? r_offset (p_r s)) || (w32 (r_pkgEnd (p_r s) + two32 - r_offset (p_r s)) <? n)).
  { inversion H; subst. left. exists o'. split; [exact Ho'|split; reflexivity]. }
  apply bindM_ok in H. destruct H as (u1 & s1 & E1 & H). destruct (wrf_inv2 _ _ _ _ _ E1) as (o0 & Ho0). pose proof (wrf_at _ _ _ _ _ _ E1 Ho0) as Ho1.
  apply bindM_ok in H. destruct H as (idx & s2 & E2 & H). unfold tableIndex in E2.
  destruct (opcodeTableIndex aml_pOpIntByteList true) as [i0|] eqn:Ei; [|discriminate]. inversion E2; subst idx s2. clear E2.
  apply bindM_ok in H. destruct H as (u3 & s3 & E3 & H). pose proof (wrf_at _ _ _ _ _ _ E3 Ho1) as Ho3.
  apply bindM_ok in H. destruct H as (ptr & s4 & E4 & H). rewrite <- (notree_lift _ _ _ _ E4) in Ho3.
  apply bindM_ok in H. destruct H as (tbl & s5 & E5 & H). inversion E5; subst tbl s5. clear E5.
  apply bindM_ok in H. destruct H as (u6 & s6 & E6 & H). pose proof (wrf_at _ _ _ _ _ _ E6 Ho3) as Ho6.
  apply bindM_ok in H. destruct H as (u7 & s7 & E7 & H). unfold setOffsetM in E7. rewrite <- (notree_ru _ _ _ _ E7) in Ho6.
  inversion H; subst. rewrite Ho6 in Ho'. inversion Ho'; subst o'. right.
  apply (okop_benign aml_pOpIntByteList); [apply okopb_sound; vm_compute; reflexivity|reflexivity|exact Ei].
Qed.

Lemma parseSimpleArg_bn ty : bn (parseSimpleArg ty).
Proof.
  intros s [a r] s' H Hmd. split; [rewrite (parseSimpleArg_msame ty _ _ _ H); exact Hmd|].
  destruct (parseSimpleArg_pc _ _ _ _ _ H) as (t1 & p & En & Hfr & _).
  destruct (newObject_shape _ _ _ _ _ En) as (_ & _ & Hbw & _).
  intros i o' Ho'. destruct (N.eq_dec i p) as [->|Hne].
  2:{ left. exists o'. split; [apply (Hbw i o' Hne); rewrite <- (Hfr i Hne); exact Ho'|split; reflexivity]. }
  right. unfold parseSimpleArg in H.
  apply bindM_ok in H. destruct H as (q & s1 & E1 & H).
  unfold newObj in E1. rewrite En in E1. inversion E1; subst q s1. clear E1. destruct (newObject_init _ _ _ _ _ En) as (o & info & Hq).
  assert (Hinfo : opcodeTableIndex 0 true = Some info).
  { destruct (newObject_shape _ _ _ _ _ En) as ((po & Hpo & _ & Hidx & _) & _). rewrite Hq in Hpo. inversion Hpo; subst po.
    rewrite pOpcodeTableIndex_eq in Hidx. cbn [o_infoIndex init_object] in Hidx. destruct (opcodeTableIndex 0 true); [inversion Hidx; reflexivity|discriminate]. }
  apply bindM_ok in H. destruct H as (off & s2 & E2 & H). inversion E2; subst off s2. clear E2.
  apply bindM_ok in H. destruct H as (u3 & s3 & E3 & H). pose proof (wrf_at _ _ _ _ _ _ E3 Hq) as Hq3.
  apply bindM_ok in H. destruct H as (tbl & s4 & E4 & H). inversion E4; subst tbl s4. clear E4. cbv zeta in H.
  assert (Hnum : forall op bytes, okop op -> simple_num p op bytes s3 = Ok ((a, r), s') -> benign o').
  { intros op bytes Hok E. destruct (simple_num_obj _ _ _ _ _ _ _ _ E Hq3) as (v & idx & Hg). destruct (simple_num_info _ _ _ _ _ _ E) as (po & idx' & Hpo & Hidx' & Hii).
    rewrite Hg in Ho'. inversion Ho'; subst o'. rewrite Hg in Hpo. inversion Hpo; subst po. cbn [o_infoIndex set_infoIndex] in Hii. subst idx'.
    apply (okop_benign op); [exact Hok|reflexivity|exact Hidx']. }
  assert (Hstr : forall tb op f, okop op -> simple_str p tb op f s3 = Ok ((a, r), s') -> benign o').
  { intros tb op f Hok E. destruct (simple_str_obj _ _ _ _ _ _ _ _ _ E Hq3) as (v & idx & Hg). destruct (simple_str_info _ _ _ _ _ _ _ E) as (po & idx' & Hpo & Hidx' & Hii).
    rewrite Hg in Ho'. inversion Ho'; subst o'. rewrite Hg in Hpo. inversion Hpo; subst po. cbn [o_infoIndex set_infoIndex] in Hii. subst idx'.
    apply (okop_benign op); [exact Hok|reflexivity|exact Hidx']. }
  destruct (ty =? aml_pArgTypeByteData); [apply (Hnum aml_pOpBytePrefix 1); [okop_const|exact H]|].
  destruct (ty =? aml_pArgTypeWordData); [apply (Hnum aml_pOpWordPrefix 2); [okop_const|exact H]|].
  destruct (ty =? aml_pArgTypeDwordData); [apply (Hnum aml_pOpDwordPrefix 4); [okop_const|exact H]|].
  destruct (ty =? aml_pArgTypeQwordData); [apply (Hnum aml_pOpQwordPrefix 8); [okop_const|exact H]|].
  destruct (ty =? aml_pArgTypeString); [apply (Hstr (N.of_nat (length (p_tables s3)) - 1) aml_pOpStringPrefix parseString); [okop_const|exact H]|].
  destruct (ty =? aml_pArgTypeNameString); [apply (Hstr (N.of_nat (length (p_tables s3)) - 1) aml_pOpIntNamePath parseNameString); [okop_const|exact H]|].
  inversion H; subst. rewrite Hq3 in Ho'. inversion Ho'; subst o'.
  apply (okop_benign 0); [okop_const|reflexivity|exact Hinfo].
Qed.

Lemma readName_go_bn field cnt : forall i, bn (readName_go cnt i field).
Proof. induction cnt as [|cnt IH]; intros i; cbn [readName_go]; bn_unf; bn_tac ltac:(apply IH). Qed.

Lemma fieldElements_go_bn fuel : forall curObj f, bn (fieldElements_go fuel curObj f).
Proof.
  induction fuel as [|fuel IH]; intros curObj f; cbn [fieldElements_go]; [apply bn_fail; intros; right; reflexivity|].
  bn_unf. bn_tac ltac:(first [apply IH | apply readName_go_bn | apply parseByteList_bn]).
Qed.

Lemma parseFieldElements_bn curObj : bn (parseFieldElements curObj).
Proof. unfold parseFieldElements. bn_unf. bn_tac ltac:(apply fieldElements_go_bn). Qed.

(** the functions below parseNextObject, in the mode of the first pass *)
Definition bblock (fuel : nat) : Prop :=
  (forall c, bn (parseObjectArgs fuel c)) /\ (forall inf c i, bn (parseArgs fuel inf c i)) /\
  (forall inf c ty, bn (parseArg fuel inf c ty)) /\ bn (parseTarget fuel) /\ bn (parseNamePathOrMethodCall fuel).

Lemma bblock_all : forall fuel, bblock fuel.
Proof.
  induction fuel as [|fuel (H1 & H2 & H3 & H4 & H5)].
  - unfold bblock. repeat match goal with |- _ /\ _ => split end; intros; cbn; apply bn_fail; intros; right; reflexivity.
  - unfold bblock. repeat match goal with |- _ /\ _ => split end; intros.
    + cbn [parseObjectArgs]. bn_unf.
      bn_tac ltac:(first [apply H1 | apply H2 | apply H3 | apply H4 | apply H5 | apply parseSimpleArg_bn | apply parseByteList_bn | apply parseFieldElements_bn]).
    + cbn [parseArgs]. destruct inf as [[? ?] ?]. bn_unf.
      bn_tac ltac:(first [apply H1 | apply H2 | apply H3 | apply H4 | apply H5 | apply parseSimpleArg_bn | apply parseByteList_bn | apply parseFieldElements_bn]).
    + cbn [parseArg]. destruct inf as [[? ?] ?]. bn_unf.
      bn_tac ltac:(first [apply H1 | apply H2 | apply H3 | apply H4 | apply H5 | apply parseSimpleArg_bn | apply parseByteList_bn | apply parseFieldElements_bn]).
    + cbn [parseTarget]. bn_unf.
      bn_tac ltac:(first [apply H1 | apply H2 | apply H3 | apply H4 | apply H5 | apply parseSimpleArg_bn | apply parseByteList_bn | apply parseFieldElements_bn]).
    + cbn [parseNamePathOrMethodCall]. bn_unf.
      bn_tac ltac:(first [apply H1 | apply H2 | apply H3 | apply H4 | apply H5 | apply parseSimpleArg_bn | apply parseByteList_bn | apply parseFieldElements_bn]).
Qed.

Lemma parseObjectArgs_bn fuel c : bn (parseObjectArgs fuel c).
Proof. apply (bblock_all fuel). Qed.
Lemma parseNamePathOrMethodCall_bn fuel : bn (parseNamePathOrMethodCall fuel).
Proof. apply (bblock_all fuel). Qed.

(** ---- the first pass creates no free slot ---- *)
Definition NFt (t : T) : Prop := forall i o, tget t i = Some o -> o_opcode o <> opFreed.
Definition nfk {A} (m : M A) : Prop := forall s a s', m s = Ok (a, s') -> NFt (p_tree s) -> NFt (p_tree s').

Lemma nfk_notree {A} (m : M A) : notree m -> nfk m.
Proof. intros H s a s' E Hn. rewrite (H _ _ _ E). exact Hn. Qed.
Lemma nfk_bind {A B} (m : M A) (f : A -> M B) : nfk m -> (forall a, nfk (f a)) -> nfk (bindM m f).
Proof. intros Hm Hf s b s' H Hn. apply bindM_ok in H. destruct H as (a & s1 & E1 & E2). exact (Hf a _ _ _ E2 (Hm _ _ _ E1 Hn)). Qed.
Lemma nfk_if {A} (b : bool) (m1 m2 : M A) : nfk m1 -> nfk m2 -> nfk (if b then m1 else m2).
Proof. destruct b; auto. Qed.
Lemma nfk_fail {A} (m : M A) : (forall s, m s = Panic \/ m s = OutOfFuel) -> nfk m.
Proof. intros H s a s' E. destruct (H s) as [F|F]; rewrite F in E; discriminate. Qed.
Lemma nfk_wrf p f : (forall o, o_opcode (f o) = o_opcode o \/ o_opcode (f o) <> opFreed) -> nfk (wrf p f).
Proof.
  intros Hf s u s' H Hn. unfold wrf, tu in H. destruct (wr (p_tree s) p f) as [t'| |] eqn:E; try discriminate.
  inversion H; subst. destruct (wr_inv _ _ _ _ E) as (-> & _). cbn [p_tree with_tree]. intros i o Ho. rewrite get_tset in Ho.
  destruct (N.eqb_spec i p) as [->|_]; [|apply (Hn i o Ho)].
  destruct (tget (p_tree s) p) as [o0|] eqn:E0; cbn [option_map] in Ho; [|discriminate]. inversion Ho; subst o.
  destruct (Hf o0) as [E1|E1]; [rewrite E1; apply (Hn p o0 E0)|exact E1].
Qed.
Lemma nfk_newObj opc : opc <> opFreed -> nfk (newObj opc).
Proof.
  intros Hne s a s' H Hn. unfold newObj in H. destruct (newObject (p_tree s) opc (p_handle s)) as [[t' p]| |] eqn:E; try discriminate.
  inversion H; subst a s'. cbn [p_tree with_tree]. destruct (newObject_shape _ _ _ _ _ E) as ((po & Hpo & Hpop & _) & _ & Hbw & _).
  intros i o Ho. destruct (N.eq_dec i p) as [->|Hip]; [assert (Epo : po = o) by congruence; rewrite <- Epo, Hpop; exact Hne|apply (Hn i o (Hbw i o Hip Ho))].
Qed.
Lemma nfk_tu_pframe (f : T -> outcome T) : (forall t t', f t = Ok t' -> pframe t t') -> nfk (tu f).
Proof.
  intros Hf s a s' H Hn. unfold tu in H. destruct (f (p_tree s)) as [t'| |] eqn:E; try discriminate. inversion H; subst. cbn [p_tree with_tree].
  intros i o Ho. destruct (pframe_inv _ _ _ _ (Hf _ _ E) Ho) as (o0 & Ho0 & E1 & _). rewrite E1. apply (Hn i o0 Ho0).
Qed.

Lemma nextOpcode_not_freed r op r' : nextOpcode r = Ok (op, true, r') -> op <> opFreed.
Proof.
  unfold nextOpcode. destruct (readByte r) as [[nx r1]| |]; cbn [bind]; try discriminate.
  destruct nx as [next|]; [|discriminate].
  assert (K : forall o l rr, match opcodeTableIndex o false with
                             | None => Panic
                             | Some idx => if idx =? aml_badOpcode then Ok (0xffff, false, setOffset rr (w32 (r_offset rr + two32 - l)))
                                           else Ok (o, true, rr) end = Ok (op, true, r') -> op <> opFreed).
  { intros o l rr H. destruct (opcodeTableIndex o false) as [idx|] eqn:E; [|discriminate].
    destruct (idx =? aml_badOpcode) eqn:Eb; [discriminate|]. inversion H; subst. intros F. rewrite F in E. vm_compute in E.
    inversion E; subst idx. vm_compute in Eb. discriminate. }
  destruct (next =? aml_extOpPrefix).
  - destruct (readByte r1) as [[nx2 r2]| |]; cbn [bind]; try discriminate. destruct nx2 as [next2|]; [|discriminate]. apply K.
  - apply K.
Qed.
Lemma peekNextOpcode_not_freed r op r' : peekNextOpcode r = Ok (op, true, r') -> op <> opFreed.
Proof.
  unfold peekNextOpcode. destruct (nextOpcode r) as [[[op1 ok1] r1]| |] eqn:E; cbn [bind]; try discriminate.
  intros H. inversion H; subst. exact (nextOpcode_not_freed _ _ _ E).
Qed.

Lemma nfk_lex_op {B} (f : reader -> outcome (N * bool * reader)) (k : N * bool -> M B) :
  (forall r op r', f r = Ok (op, true, r') -> op <> opFreed) ->
  (forall op, op <> opFreed -> nfk (k (op, true))) -> (forall op, nfk (k (op, false))) -> nfk (bindM (lex f) k).
Proof.
  intros Hf Hk1 Hk2 s b s' H Hn. unfold bindM, lex in H. destruct (f (p_r s)) as [[[op ok] r1]| |] eqn:E; try discriminate.
  destruct ok; [exact (Hk1 op (Hf _ _ _ E) _ _ _ H Hn)|exact (Hk2 op _ _ _ H Hn)].
Qed.

Ltac nfk_prim :=
  first [ (apply nfk_notree; notree_prim2)
        | (apply nfk_wrf; let o := fresh "o" in intros o; first [left; reflexivity | right; discriminate])
        | (apply nfk_newObj; first [discriminate | assumption])
        | (apply nfk_tu_pframe; let t := fresh in let t' := fresh in let E := fresh in intros t t' E;
           first [solve [eapply append_pframe; eauto] | solve [eapply appendAfter_pframe; eauto] | solve [eapply detach_pframe; eauto]]) ].

Ltac nfk_tac rec :=
  repeat first
    [ rec
    | match goal with
      | |- nfk (bindM (lex nextOpcode) (fun _ => let '(_, _) := _ in _)) =>
          apply nfk_lex_op; [exact nextOpcode_not_freed|intros ? ?; cbv beta iota; cbn [negb]|intros ?; cbv beta iota; cbn [negb]]
      | |- nfk (bindM (lex peekNextOpcode) (fun _ => let '(_, _) := _ in _)) =>
          apply nfk_lex_op; [exact peekNextOpcode_not_freed|intros ? ?; cbv beta iota; cbn [negb]|intros ?; cbv beta iota; cbn [negb]]
      end
    | nfk_prim | apply nfk_if | (apply nfk_bind; [|intros ?])
    | match goal with |- nfk (match ?x with _ => _ end) => destruct x end
    | match goal with |- nfk (let '(_, _) := ?x in _) => destruct x end ].

Lemma parseByteList_nfk obj n : nfk (parseByteList obj n).
Proof. unfold parseByteList. bn_unf. nfk_tac fail. Qed.
Lemma parseSimpleArg_nfk ty : nfk (parseSimpleArg ty).
Proof. unfold parseSimpleArg. bn_unf. cbv zeta. nfk_tac fail. Qed.
Lemma readName_go_nfk field cnt : forall i, nfk (readName_go cnt i field).
Proof. induction cnt as [|cnt IH]; intros i; cbn [readName_go]; bn_unf; nfk_tac ltac:(apply IH). Qed.
Lemma fieldElements_go_nfk fuel : forall curObj f, nfk (fieldElements_go fuel curObj f).
Proof.
  induction fuel as [|fuel IH]; intros curObj f; cbn [fieldElements_go]; [apply nfk_fail; intros; right; reflexivity|].
  bn_unf. nfk_tac ltac:(first [apply IH | apply readName_go_nfk | apply parseByteList_nfk]).
Qed.
Lemma parseFieldElements_nfk curObj : nfk (parseFieldElements curObj).
Proof. unfold parseFieldElements. bn_unf. nfk_tac ltac:(apply fieldElements_go_nfk). Qed.

Definition fblock (fuel : nat) : Prop :=
  nfk (parseNextObject fuel) /\ (forall c, nfk (parseObjectArgs fuel c)) /\
  (forall inf c i, nfk (parseArgs fuel inf c i)) /\ (forall inf c ty, nfk (parseArg fuel inf c ty)) /\
  nfk (termList_go fuel) /\ nfk (parseNamePathOrMethodCall fuel) /\ (forall n, nfk (callArgs_go fuel n)) /\
  (forall c, nfk (parseStrictTermArg fuel c)) /\ nfk (parseTarget fuel).

Lemma fblock_all : forall fuel, fblock fuel.
Proof.
  induction fuel as [|fuel (H1 & H2 & H3 & H4 & H5 & H6 & H7 & H8 & H9)].
  - unfold fblock. repeat match goal with |- _ /\ _ => split end; intros; cbn; apply nfk_fail; intros; right; reflexivity.
  - unfold fblock. repeat match goal with |- _ /\ _ => split end; intros.
    + cbn [parseNextObject]. bn_unf. nfk_tac ltac:(first [apply H1 | apply H2 | apply H3 | apply H4 | apply H5 | apply H6 | apply H7 | apply H8 | apply H9 | apply parseSimpleArg_nfk | apply parseByteList_nfk | apply parseFieldElements_nfk]).
    + cbn [parseObjectArgs]. bn_unf. nfk_tac ltac:(first [apply H1 | apply H2 | apply H3 | apply H4 | apply H5 | apply H6 | apply H7 | apply H8 | apply H9 | apply parseSimpleArg_nfk | apply parseByteList_nfk | apply parseFieldElements_nfk]).
    + cbn [parseArgs]. destruct inf as [[? ?] ?]. bn_unf. nfk_tac ltac:(first [apply H1 | apply H2 | apply H3 | apply H4 | apply H5 | apply H6 | apply H7 | apply H8 | apply H9 | apply parseSimpleArg_nfk | apply parseByteList_nfk | apply parseFieldElements_nfk]).
    + cbn [parseArg]. destruct inf as [[? ?] ?]. bn_unf. nfk_tac ltac:(first [apply H1 | apply H2 | apply H3 | apply H4 | apply H5 | apply H6 | apply H7 | apply H8 | apply H9 | apply parseSimpleArg_nfk | apply parseByteList_nfk | apply parseFieldElements_nfk]).
    + cbn [termList_go]. bn_unf. nfk_tac ltac:(first [apply H1 | apply H2 | apply H3 | apply H4 | apply H5 | apply H6 | apply H7 | apply H8 | apply H9]).
    + cbn [parseNamePathOrMethodCall]. bn_unf. nfk_tac ltac:(first [apply H1 | apply H2 | apply H3 | apply H4 | apply H5 | apply H6 | apply H7 | apply H8 | apply H9]).
    + cbn [callArgs_go]. bn_unf. nfk_tac ltac:(first [apply H1 | apply H2 | apply H3 | apply H4 | apply H5 | apply H6 | apply H7 | apply H8 | apply H9]).
    + cbn [parseStrictTermArg]. bn_unf. nfk_tac ltac:(first [apply H1 | apply H2 | apply H3 | apply H4 | apply H5 | apply H6 | apply H7 | apply H8 | apply H9]).
    + cbn [parseTarget]. bn_unf. nfk_tac ltac:(first [apply H1 | apply H2 | apply H3 | apply H4 | apply H5 | apply H6 | apply H7 | apply H8 | apply H9]).
Qed.

Lemma parseNextObject_nfk fuel : nfk (parseNextObject fuel).
Proof. apply (fblock_all fuel). Qed.
