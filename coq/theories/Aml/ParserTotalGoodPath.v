(** C12 (stretch): every name-path object the first pass leaves in the pool carries a []byte that, when it is four bytes
    long, starts with a lead name character, a root character or a parent prefix (partial correctness, by structural
    decomposition with a small pre/post logic over the tree). *)
From Coq Require Import NArith Arith List Bool Lia.
From FF Require Import Lib.Word Gen.Consts_device_acpi_aml Aml.Stream Aml.Lex Aml.Tree Aml.Parser Aml.TreeSpec Aml.TreeProofs
  Aml.ParserTotalTree Aml.ParserTotalTree2 Aml.ParserTotalTable Aml.ParserTotalLex Aml.ParserTotalBase Aml.ParserTotalLeaf Aml.ParserTotalFrame
  Aml.ParserTotalDeferM Aml.ParserTotalMerge Aml.ParserTotalBenign Aml.ParserTotalNameLex.
Import ListNotations.
Local Open Scope N_scope.

Definition goodv (tbls : list (list N)) (tbl : N) (sl : slice) : Prop :=
  forall s0 bytes, p_tables s0 = tbls -> slice_bytes s0 tbl sl = Ok bytes -> good_path bytes.
Definition GPt (tbls : list (list N)) (X : N -> Prop) (t : T) : Prop :=
  forall n no tbl sl, tget t n = Some no -> ~ X n -> o_opcode no = aml_pOpIntNamePath -> o_value no = Some (VBytes tbl sl) -> goodv tbls tbl sl.

Lemma take_bytes_length d : forall len start l, take_bytes d start len = Some l -> length l = len.
Proof.
  induction len as [|len IH]; intros start l H; cbn [take_bytes] in H.
  - inversion H; reflexivity.
  - destruct (nth_error d start); [|discriminate]. destruct (take_bytes d (S start) len) as [l'|] eqn:E; [|discriminate].
    inversion H; subst. cbn. f_equal. eapply IH; eauto.
Qed.
Lemma take_bytes_first d len start b l : take_bytes d start len = Some (b :: l) -> nth_error d start = Some b.
Proof.
  destruct len; cbn [take_bytes]; [discriminate|]. destruct (nth_error d start) as [b'|]; [|discriminate].
  destruct (take_bytes d (S start) len); [|discriminate]. intros H; inversion H; reflexivity.
Qed.

Lemma goodsl_goodv tbls tbl d sl : nth_error tbls (N.to_nat tbl) = Some d -> goodsl d sl -> goodv tbls tbl sl.
Proof.
  intros Hd Hg s0 bytes Ht H. unfold slice_bytes in H. destruct (s_len sl =? 0) eqn:E0; [inversion H; exact I|].
  destruct (s_ptr sl) as [p|] eqn:Ep; [|discriminate]. rewrite Ht, Hd in H.
  destruct (take_bytes d (N.to_nat p) (N.to_nat (s_len sl))) as [l|] eqn:Et; [|discriminate]. inversion H; subst bytes.
  pose proof (take_bytes_length _ _ _ _ Et) as Hl.
  destruct l as [|b0 [|b1 [|b2 [|b3 [|b4 l]]]]]; try exact I. cbn [length] in Hl.
  assert (E4 : s_len sl = 4) by lia. destruct (Hg E4) as (p' & b0' & Hp' & Hb & Hc).
  assert (p' = p) by congruence. subst p'. pose proof (take_bytes_first _ _ _ _ _ Et) as Hn.
  unfold byte_at, nthN in Hb. assert (b0' = b0) by congruence. subst b0'. exact Hc.
Qed.

Lemma goodv_nil tbls tbl : goodv tbls tbl nil_slice.
Proof. intros s0 bytes _ H. unfold slice_bytes in H. cbn in H. inversion H; exact I. Qed.

Section GP.
Variable tbls : list (list N).
Variable d : list N.
(** the slots the invariant does not speak about (the objects that were live before the first pass) *)
Variable X : N -> Prop.
Let cur : N := N.of_nat (length tbls) - 1.
Hypothesis Hd : nth_error tbls (N.to_nat cur) = Some d.

(** what the lexer guarantees about the []byte it returns *)
Definition GVs (v : slice) : Prop := forall tbl sl, bytesValue cur v = VBytes tbl sl -> goodv tbls tbl sl.

Lemma goodsl_GVs v : goodsl d v -> GVs v.
Proof.
  intros Hg tbl sl E. unfold bytesValue in E. destruct (s_ptr v); inversion E; subst.
  - eapply goodsl_goodv; eauto.
  - apply goodv_nil.
Qed.

Definition W (s : pstate) : Prop := p_tables s = tbls /\ r_data (p_r s) = d /\ rok (p_r s).
Definition G (s : pstate) : Prop := W s /\ GPt tbls X (p_tree s).

Definition gk {A} (P : T -> Prop) (m : M A) (Q : A -> T -> Prop) : Prop :=
  forall s a s', G s -> P (p_tree s) -> m s = Ok (a, s') -> G s' /\ Q a (p_tree s').
Definition TT : T -> Prop := fun _ => True.
Definition gpk {A} (m : M A) : Prop := gk TT m (fun _ => TT).
Definition wk {A} (m : M A) : Prop := forall s a s', W s -> m s = Ok (a, s') -> W s'.

Lemma gk_bind {A B} P (m : M A) Q (f : A -> M B) R : gk P m Q -> (forall a, gk (Q a) (f a) R) -> gk P (bindM m f) R.
Proof. intros Hm Hf s b s' Hg Hp H. apply bindM_ok in H. destruct H as (a & s1 & E1 & E2). destruct (Hm _ _ _ Hg Hp E1) as (G1 & Q1). exact (Hf a _ _ _ G1 Q1 E2). Qed.
Lemma gk_conseq {A} (P P' : T -> Prop) (m : M A) (Q Q' : A -> T -> Prop) :
  (forall t, P' t -> P t) -> (forall a t, Q a t -> Q' a t) -> gk P m Q -> gk P' m Q'.
Proof. intros H1 H2 Hm s a s' Hg Hp H. destruct (Hm _ _ _ Hg (H1 _ Hp) H) as (G1 & Q1). split; [exact G1|exact (H2 _ _ Q1)]. Qed.
Lemma gk_weak {A} P (m : M A) : gpk m -> gk P m (fun _ => TT).
Proof. apply gk_conseq; intros; exact I. Qed.
Lemma gpk_bind {A B} (m : M A) (f : A -> M B) : gpk m -> (forall a, gpk (f a)) -> gpk (bindM m f).
Proof. intros Hm Hf. eapply gk_bind; [exact Hm|exact Hf]. Qed.
Lemma gk_if {A} P (b : bool) (m1 m2 : M A) Q : (b = true -> gk P m1 Q) -> (b = false -> gk P m2 Q) -> gk P (if b then m1 else m2) Q.
Proof. destruct b; auto. Qed.
Lemma gk_fail {A} P (m : M A) Q : (forall s, m s = Panic \/ m s = OutOfFuel) -> gk P m Q.
Proof. intros H s a s' _ _ E. destruct (H s) as [F|F]; rewrite F in E; discriminate. Qed.
Lemma gk_pure {A} P (m : M A) : wk m -> notree m -> gk P m (fun _ => P).
Proof.
  intros Hw Hn s a s' (Hw0 & Hg) Hp E. unfold G. rewrite (Hn _ _ _ E). split; [split; [exact (Hw _ _ _ Hw0 E)|exact Hg]|exact Hp].
Qed.
Lemma gpk_pure {A} (m : M A) : wk m -> notree m -> gpk m.
Proof. intros Hw Hn. apply (gk_pure TT m Hw Hn). Qed.

(** ---- W is kept ---- *)
Lemma wk_same {A} (m : M A) : (forall s a s', m s = Ok (a, s') -> p_tables s' = p_tables s /\ p_r s' = p_r s) -> wk m.
Proof. intros H s a s' (W1 & W2 & W3) E. destruct (H _ _ _ E) as (E1 & E2). unfold W. rewrite E1, E2. auto. Qed.
Lemma wk_ret {A} (a : A) : wk (ret a).
Proof. apply wk_same. intros s a' s' H. inversion H; auto. Qed.
Lemma wk_get {A} (f : pstate -> A) : wk (Parser.get f).
Proof. apply wk_same. intros s a' s' H. inversion H; auto. Qed.
Lemma wk_panic {A} : wk (@panic A).
Proof. intros s a s' _ H. discriminate. Qed.
Lemma wk_outOfFuel {A} : wk (@outOfFuel A).
Proof. intros s a s' _ H. discriminate. Qed.
Lemma wk_liftf {A} (f : pstate -> outcome A) : wk (fun s => lift (f s) s).
Proof. apply wk_same. intros s a s' H. unfold lift in H. destruct (f s); try discriminate. inversion H; auto. Qed.
Lemma wk_lift {A} (o : outcome A) : wk (lift o).
Proof. apply wk_same. intros s a s' H. unfold lift in H. destruct o; try discriminate. inversion H; auto. Qed.
Lemma wk_tq {A} (f : T -> outcome A) : wk (tq f).
Proof. unfold tq. apply wk_liftf. Qed.
Lemma wk_need o : wk (need o).
Proof. destruct o; [apply wk_ret|apply wk_panic]. Qed.
Lemma wk_info i : wk (info i).
Proof. unfold info. destruct (opInfo i); [apply wk_ret|apply wk_panic]. Qed.
Lemma wk_tableIndex op b : wk (tableIndex op b).
Proof. unfold tableIndex. destruct (opcodeTableIndex op b); [apply wk_ret|apply wk_panic]. Qed.
Lemma wk_tu f : wk (tu f).
Proof. apply wk_same. intros s a s' H. unfold tu in H. destruct (f (p_tree s)); try discriminate. inversion H; auto. Qed.
Lemma wk_newObj op : wk (newObj op).
Proof. apply wk_same. intros s a s' H. unfold newObj in H. destruct (newObject (p_tree s) op (p_handle s)) as [[? ?]| |]; try discriminate. inversion H; auto. Qed.
Lemma wk_scopeEnter i : wk (scopeEnter i).
Proof. apply wk_same. intros s a s' H. inversion H; auto. Qed.
Lemma wk_scopeExit : wk scopeExit.
Proof. apply wk_same. intros s a s' H. unfold scopeExit in H. destruct (p_scopeStack s); try discriminate. inversion H; auto. Qed.
Lemma wk_upd (f : pstate -> pstate) : (forall s, p_tables (f s) = p_tables s /\ p_r (f s) = p_r s) -> wk (fun s => Ok (tt, f s)).
Proof. intros Hf. apply wk_same. intros s a s' H. inversion H; subst. apply Hf. Qed.

Definition rkd (r r' : reader) : Prop := rok r' /\ r_data r' = r_data r.
Lemma wk_reader {A} (m : M A) :
  (forall s a s', rok (p_r s) -> m s = Ok (a, s') -> p_tables s' = p_tables s /\ rkd (p_r s) (p_r s')) -> wk m.
Proof. intros H s a s' (W1 & W2 & W3) E. destruct (H _ _ _ W3 E) as (E1 & R1 & R2). unfold W. rewrite E1, R2. auto. Qed.
Definition lexok {A} (f : reader -> outcome (A * bool * reader)) : Prop :=
  forall r v ok r1, rok r -> f r = Ok (v, ok, r1) -> rkd r r1.
Lemma wk_lex {A} (f : reader -> outcome (A * bool * reader)) : lexok f -> wk (lex f).
Proof.
  intros Hf. apply wk_reader. intros s a s' Hr H. unfold lex in H. destruct (f (p_r s)) as [[[v ok] r1]| |] eqn:E; try discriminate.
  inversion H; subst. split; [reflexivity|exact (Hf _ _ _ _ Hr E)].
Qed.
Lemma adv_rkd r r1 : rok r -> adv r r1 -> rkd r r1.
Proof. intros H A. split; [eapply rok_adv; eauto|apply adv_data; exact A]. Qed.
Lemma lexok_pkg : lexok parsePkgLength.
Proof. intros r v ok r1 H E. destruct (parsePkgLength_off r H) as (v' & ok' & r1' & E' & A & _). rewrite E in E'. inversion E'; subst. apply adv_rkd; auto. Qed.
Lemma lexok_num k : lexok (parseNumConstant k).
Proof. intros r v ok r1 H E. destruct (parseNumConstant_off k r H) as (v' & ok' & r1' & E' & A & _). rewrite E in E'. inversion E'; subst. apply adv_rkd; auto. Qed.
Lemma lexok_string : lexok parseString.
Proof. intros r v ok r1 H E. destruct (parseString_off r H) as (v' & ok' & r1' & E' & A & _). rewrite E in E'. inversion E'; subst. apply adv_rkd; auto. Qed.
Lemma lexok_name : lexok parseNameString.
Proof. intros r v ok r1 H E. destruct (parseNameString_off r H) as (v' & ok' & r1' & E' & A & _). rewrite E in E'. inversion E'; subst. apply adv_rkd; auto. Qed.
Lemma lexok_next : lexok nextOpcode.
Proof. intros r v ok r1 H E. destruct (nextOpcode_off r H) as (v' & ok' & r1' & E' & A & _). rewrite E in E'. inversion E'; subst. apply adv_rkd; auto. Qed.
Lemma setOffset_data r o : r_data (setOffset r o) = r_data r.
Proof. unfold setOffset. destruct (r_len r <? o); reflexivity. Qed.
Lemma lexok_peek : lexok peekNextOpcode.
Proof.
  intros r v ok r1 H E. unfold peekNextOpcode in E. destruct (nextOpcode r) as [[[op1 ok1] r2]| |] eqn:E1; cbn [bind] in E; try discriminate.
  inversion E; subst. destruct (lexok_next _ _ _ _ H E1) as (R1 & R2). split; [apply rok_setOffset; exact R1|rewrite setOffset_data; exact R2].
Qed.
Lemma wk_ru g : (forall r, rok r -> rkd r (g r)) -> wk (ru g).
Proof. intros Hg. apply wk_reader. intros s a s' Hr H. inversion H; subst. split; [reflexivity|apply Hg; exact Hr]. Qed.
Lemma rkd_setOffset o r : rok r -> rkd r (setOffset r o).
Proof. intros H. split; [apply rok_setOffset; exact H|apply setOffset_data]. Qed.
Lemma rkd_unread r : rok r -> rkd r (fst (unreadByte r)).
Proof.
  intros H. unfold unreadByte. destruct (r_offset r =? 0) eqn:E; cbn [fst]; [split; [exact H|reflexivity]|].
  split; [|reflexivity]. destruct H as ((W1 & W2 & W3 & W4) & S & O). apply N.eqb_neq in E.
  split; [repeat split; auto|]. split; [exact S|]. cbn. lia.
Qed.
Lemma setPkgEnd_data r e : r_data (fst (setPkgEnd r e)) = r_data r.
Proof. unfold setPkgEnd. destruct (r_len r <? e); reflexivity. Qed.
Lemma wk_setPkgEndM e : wk (setPkgEndM e).
Proof.
  apply wk_reader. intros s a s' Hr H. unfold setPkgEndM in H. destruct (setPkgEnd (p_r s) e) as [r ok] eqn:E. inversion H; subst.
  split; [reflexivity|]. replace r with (fst (setPkgEnd (p_r s) e)) by (rewrite E; reflexivity). split; [apply rok_setPkgEnd; exact Hr|apply setPkgEnd_data].
Qed.
Lemma wk_readByteM : wk readByteM.
Proof.
  apply wk_reader. intros s a s' Hr H. unfold readByteM in H. destruct (readByte (p_r s)) as [[b r1]| |] eqn:E; try discriminate. inversion H; subst.
  split; [reflexivity|]. destruct (rd1 _ Hr) as [(R & _)|(b' & R & _ & _ & A)]; rewrite R in E; inversion E; subst.
  - split; [exact Hr|reflexivity].
  - apply adv_rkd; auto.
Qed.
Lemma wk_popPkgEnd : wk popPkgEnd.
Proof.
  apply wk_reader. intros s a s' Hr H. unfold popPkgEnd in H.
  destruct (match p_pkgEndStack s with [] => [] | _ :: rest => rest end) as [|top rest]; inversion H; subst; cbn.
  - split; [reflexivity|split; [exact Hr|reflexivity]].
  - split; [reflexivity|split; [apply rok_setPkgEnd; exact Hr|apply setPkgEnd_data]].
Qed.

Ltac wk_prim :=
  first [ apply wk_ret | apply wk_get | apply wk_tq | apply wk_lift | apply wk_liftf | apply wk_need | apply wk_info | apply wk_tableIndex
        | apply wk_panic | apply wk_outOfFuel | apply wk_scopeEnter | apply wk_scopeExit | apply wk_popPkgEnd | apply wk_setPkgEndM | apply wk_readByteM
        | (apply wk_lex; first [apply lexok_pkg | apply lexok_num | apply lexok_string | apply lexok_name | apply lexok_next | apply lexok_peek])
        | (apply wk_ru; first [exact rkd_unread | exact (rkd_setOffset _)])
        | (apply wk_upd; intros; split; reflexivity) ].

(** ---- the tree primitives ---- *)
Definition has (p : N) (F : Obj -> Prop) : T -> Prop := fun t => forall o, tget t p = Some o -> F o.

Lemma gk_wrf p f (F F' : Obj -> Prop) :
  (forall o, F o -> F' (f o)) ->
  (forall o tbl sl, F o -> o_opcode (f o) = aml_pOpIntNamePath -> o_value (f o) = Some (VBytes tbl sl) ->
     (o_opcode o = aml_pOpIntNamePath /\ o_value o = Some (VBytes tbl sl)) \/ goodv tbls tbl sl) ->
  gk (has p F) (wrf p f) (fun _ => has p F').
Proof.
  intros H1 H2 s u s' (Hw & Hg) Hp H. pose proof (wk_tu _ _ _ _ Hw H) as Hw'.
  unfold wrf, tu in H. destruct (wr (p_tree s) p f) as [t'| |] eqn:E; try discriminate.
  inversion H; subst. destruct (wr_inv _ _ _ _ E) as (-> & o0 & Ho0). unfold G. cbn [p_tree with_tree].
  split; [split; [exact Hw'|]|].
  - intros n no tbl sl Hn HX Hop Hv. rewrite get_tset in Hn. destruct (N.eqb_spec n p) as [->|_]; [|exact (Hg _ _ _ _ Hn HX Hop Hv)].
    rewrite Ho0 in Hn. cbn [option_map] in Hn. inversion Hn; subst no.
    destruct (H2 o0 tbl sl (Hp _ Ho0) Hop Hv) as [(A & B)|A]; [exact (Hg _ _ _ _ Ho0 HX A B)|exact A].
  - intros o Ho. rewrite get_tset, N.eqb_refl, Ho0 in Ho. cbn [option_map] in Ho. inversion Ho; subst o. apply H1. apply Hp. exact Ho0.
Qed.

Lemma gpk_wrf p f :
  (forall o tbl sl, o_opcode (f o) = aml_pOpIntNamePath -> o_value (f o) = Some (VBytes tbl sl) ->
     (o_opcode o = aml_pOpIntNamePath /\ o_value o = Some (VBytes tbl sl)) \/ goodv tbls tbl sl) ->
  gpk (wrf p f).
Proof.
  intros H. eapply gk_conseq; [| |apply (gk_wrf p f (fun _ => True) (fun _ => True)); [auto|intros o tbl sl _; apply H]].
  - intros t _ o _. exact I.
  - intros; exact I.
Qed.

Lemma gk_newObj opc : gk TT (newObj opc) (fun p => has p (fun o => o_value o = None /\ o_opcode o = opc)).
Proof.
  intros s a s' (Hw & Hg) _ H. pose proof (wk_newObj _ _ _ _ Hw H) as Hw'.
  unfold newObj in H. destruct (newObject (p_tree s) opc (p_handle s)) as [[t' p]| |] eqn:E; try discriminate.
  inversion H; subst a s'. unfold G. cbn [p_tree with_tree]. destruct (newObject_init _ _ _ _ _ E) as (o & info & Hq).
  destruct (newObject_shape _ _ _ _ _ E) as (_ & _ & Hbw & _).
  split; [split; [exact Hw'|]|].
  - intros n no tbl sl Hn HX Hop Hv. destruct (N.eq_dec n p) as [->|Hne]; [rewrite Hq in Hn; inversion Hn; subst no; discriminate|].
    exact (Hg _ _ _ _ (Hbw n no Hne Hn) HX Hop Hv).
  - intros o' Ho'. rewrite Hq in Ho'. inversion Ho'; subst o'. split; reflexivity.
Qed.
Lemma gpk_newObj opc : gpk (newObj opc).
Proof. eapply gk_conseq; [| |apply gk_newObj]; intros; exact I. Qed.

Lemma gpk_tu_pframe (f : T -> outcome T) : (forall t t', f t = Ok t' -> pframe t t') -> gpk (tu f).
Proof.
  intros Hf s a s' (Hw & Hg) _ H. pose proof (wk_tu _ _ _ _ Hw H) as Hw'.
  unfold tu in H. destruct (f (p_tree s)) as [t'| |] eqn:E; try discriminate. inversion H; subst. unfold G. cbn [p_tree with_tree].
  split; [split; [exact Hw'|]|exact I].
  intros n no tbl sl Hn HX Hop Hv. destruct (pframe_inv _ _ _ _ (Hf _ _ E) Hn) as (o0 & Ho0 & E1 & _ & _ & _ & _ & _ & _ & E8).
  apply (Hg n o0 tbl sl Ho0 HX); congruence.
Qed.

Lemma gk_curTable {B} P (k : N -> M B) Q : gk P (k cur) Q -> gk P (bindM curTable k) Q.
Proof.
  intros Hk s b s' Hg Hp H. unfold bindM, curTable, Parser.get in H. destruct Hg as ((W1 & W2 & W3) & Hg).
  rewrite W1 in H. exact (Hk _ _ _ (conj (conj W1 (conj W2 W3)) Hg) Hp H).
Qed.

Lemma gk_lex_name {B} P (k : slice * bool -> M B) Q :
  (forall v ok, GVs v -> gk P (k (v, ok)) Q) -> gk P (bindM (lex parseNameString) k) Q.
Proof.
  intros Hk s b s' Hg Hp H. apply bindM_ok in H. destruct H as ([v ok] & s1 & E1 & E2).
  destruct Hg as (Hw & Hg). pose proof (wk_lex _ lexok_name _ _ _ Hw E1) as Hw1. pose proof (notree_lex _ _ _ _ E1) as Ht.
  assert (Hv : GVs v).
  { unfold lex in E1. destruct (parseNameString (p_r s)) as [[[v' ok'] r1]| |] eqn:E; try discriminate. inversion E1; subst.
    destruct Hw as (_ & W2 & W3). apply goodsl_GVs. rewrite <- W2. exact (parseNameString_good _ _ _ _ W3 E). }
  apply (Hk v ok Hv s1 b s'); [split; [exact Hw1|rewrite Ht; exact Hg]|rewrite Ht; exact Hp|exact E2].
Qed.

Lemma gk_rdf_opcode {B} p (k : N -> M B) Q :
  (forall op, gk (has p (fun o => o_opcode o = op)) (k op) Q) -> gk TT (bindM (rdf p o_opcode) k) Q.
Proof.
  intros Hk s b s' Hg _ H. unfold bindM, rdf, tq, lift in H. destruct (rd (p_tree s) p o_opcode) as [op| |] eqn:E; try discriminate.
  apply (Hk op s b s' Hg); [|exact H]. intros o Ho. destruct (rd_inv _ _ _ _ E) as (o' & Ho' & ->). congruence.
Qed.

Lemma gk_wrf0 p f (F' : Obj -> Prop) :
  (forall o, F' (f o)) ->
  (forall o tbl sl, o_opcode (f o) = aml_pOpIntNamePath -> o_value (f o) = Some (VBytes tbl sl) ->
     (o_opcode o = aml_pOpIntNamePath /\ o_value o = Some (VBytes tbl sl)) \/ goodv tbls tbl sl) ->
  gk TT (wrf p f) (fun _ => has p F').
Proof.
  intros H1 H2. eapply gk_conseq; [| |apply (gk_wrf p f (fun _ => True) F'); [intros o _; apply H1|intros o tbl sl _; apply H2]].
  - intros t _ o _. exact I.
  - intros a t H. exact H.
Qed.
Lemma gk_bind_weak {A B} P (m : M A) (f : A -> M B) : gk P m (fun _ => TT) -> (forall a, gpk (f a)) -> gk P (bindM m f) (fun _ => TT).
Proof. intros Hm Hf. eapply gk_bind; [exact Hm|exact Hf]. Qed.
Lemma gpk_curTable {B} (k : N -> M B) : gpk (k cur) -> gpk (bindM curTable k).
Proof. apply gk_curTable. Qed.
Lemma gpk_lex_name {B} (k : slice * bool -> M B) : (forall v ok, GVs v -> gpk (k (v, ok))) -> gpk (bindM (lex parseNameString) k).
Proof. apply gk_lex_name. Qed.
Lemma gpk_if {A} (b : bool) (m1 m2 : M A) : gpk m1 -> gpk m2 -> gpk (if b then m1 else m2).
Proof. destruct b; auto. Qed.
Lemma gpk_fail {A} (m : M A) : (forall s, m s = Panic \/ m s = OutOfFuel) -> gpk m.
Proof. apply gk_fail. Qed.

(** ---- automation ---- *)
Ltac gp_side :=
  let o := fresh "o" in let tbl := fresh "tbl" in let sl := fresh "sl" in let H1 := fresh "H1" in let H2 := fresh "H2" in
  intros o tbl sl H1 H2;
  cbn [o_opcode o_value set_opcode set_name set_amlOffset set_pkgEnd set_value set_infoIndex] in H1, H2;
  first [ (left; split; assumption) | discriminate
        | (right; match goal with HG : GVs _ |- _ => apply HG; congruence end) ].

Ltac gpk_prim :=
  first [ (apply gpk_pure; [wk_prim|notree_prim2])
        | (apply gpk_wrf; gp_side)
        | apply gpk_newObj
        | (apply gpk_tu_pframe; let t := fresh in let t' := fresh in let E := fresh in intros t t' E;
           first [solve [eapply append_pframe; eauto] | solve [eapply appendAfter_pframe; eauto] | solve [eapply detach_pframe; eauto]]) ].

Ltac gp_unf :=
  unfold rq, offsetM, eofM, rdf, rdo, objectAt, objectAt', appendM, detachM,
         setOffsetM, pushPkgEnd, bytesOf, scopeCurrent, methodArgCountPanic, streamFuel, fieldByte.

Ltac gpk_tac rec :=
  repeat first
    [ rec
    | match goal with
      | |- gpk (bindM curTable _) => apply gpk_curTable
      | |- gpk (bindM (lex parseNameString) _) => apply gpk_lex_name; intros ? ? ?; cbv beta iota
      end
    | gpk_prim | apply gpk_if | (apply gpk_bind; [|intros ?])
    | match goal with |- gpk (match ?x with _ => _ end) => destruct x end
    | match goal with |- gpk (let '(_, _) := ?x in _) => destruct x end ].

Ltac carry := eapply gk_bind; [apply gk_pure; [wk_prim|notree_prim2]|intros ?; cbv beta].

(** ---- the leaves ---- *)
Lemma parseByteList_gpk obj n : gpk (parseByteList obj n).
Proof.
  unfold parseByteList. gp_unf. apply gpk_bind; [gpk_prim|intros r]. apply gpk_if; [gpk_prim|].
  eapply gk_bind; [apply (gk_wrf0 obj _ (fun o => o_opcode o = aml_pOpIntByteList)); [intros o; reflexivity|gp_side]|intros ?; cbv beta].
  carry.
  eapply gk_bind; [apply (gk_wrf obj _ _ (fun o => o_opcode o = aml_pOpIntByteList)); [intros o Ho; exact Ho|gp_side]|intros ?; cbv beta].
  carry. apply gk_curTable.
  eapply gk_bind_weak; [|intros _; gpk_tac fail].
  eapply gk_conseq; [intros t Ht; exact Ht|intros; exact I|].
  apply (gk_wrf obj _ (fun o => o_opcode o = aml_pOpIntByteList) (fun _ => True)); [auto|].
  intros o tbl sl Ho H1 H2. cbn [o_opcode set_value] in H1. rewrite Ho in H1. discriminate.
Qed.

Lemma parseSimpleArg_gpk ty : gpk (parseSimpleArg ty).
Proof.
  unfold parseSimpleArg. gp_unf.
  eapply gk_bind; [apply gk_newObj|intros obj]. carry.
  eapply gk_bind; [apply (gk_wrf obj _ _ (fun o => o_value o = None)); [intros o (Ho & _); exact Ho|gp_side]|intros ?; cbv beta].
  apply gk_curTable. cbv zeta.
  apply gk_if; intros _; [apply gk_weak; gpk_tac fail|].
  apply gk_if; intros _; [apply gk_weak; gpk_tac fail|].
  apply gk_if; intros _; [apply gk_weak; gpk_tac fail|].
  apply gk_if; intros _; [apply gk_weak; gpk_tac fail|].
  apply gk_if; intros _.
  { eapply gk_bind; [apply (gk_wrf obj _ _ (fun o => o_opcode o = aml_pOpStringPrefix)); [intros o _; reflexivity|gp_side]|intros ?; cbv beta].
    carry. match goal with |- gk _ (let '(_, _) := ?x in _) _ => destruct x as [v ok] end.
    eapply gk_bind_weak; [|intros _; gpk_tac fail].
    eapply gk_conseq; [intros t Ht; exact Ht|intros; exact I|].
    apply (gk_wrf obj _ (fun o => o_opcode o = aml_pOpStringPrefix) (fun _ => True)); [auto|].
    intros o tbl sl Ho H1 H2. cbn [o_opcode set_value] in H1. rewrite Ho in H1. discriminate. }
  apply gk_if; intros _; [|apply gk_weak; gpk_tac fail].
  eapply gk_bind_weak; [|intros _; gpk_tac fail].
  eapply gk_conseq; [intros t Ht; exact Ht|intros; exact I|].
  apply (gk_wrf obj _ (fun o => o_value o = None) (fun _ => True)); [auto|].
  intros o tbl sl Ho H1 H2. cbn [o_value set_opcode] in H2. rewrite Ho in H2. discriminate.
Qed.

Lemma readName_go_gpk field cnt : forall i, gpk (readName_go cnt i field).
Proof. induction cnt as [|cnt IH]; intros i; cbn [readName_go]; gp_unf; gpk_tac ltac:(apply IH). Qed.
Lemma fieldElements_go_gpk fuel : forall curObj f, gpk (fieldElements_go fuel curObj f).
Proof.
  induction fuel as [|fuel IH]; intros curObj f; cbn [fieldElements_go]; [apply gpk_fail; intros; right; reflexivity|].
  gp_unf. gpk_tac ltac:(first [apply IH | apply readName_go_gpk | apply parseByteList_gpk]).
Qed.
Lemma parseFieldElements_gpk curObj : gpk (parseFieldElements curObj).
Proof. unfold parseFieldElements. gp_unf. gpk_tac ltac:(apply fieldElements_go_gpk). Qed.

(** ---- the nine mutually recursive functions ---- *)
Definition gblock (fuel : nat) : Prop :=
  gpk (parseNextObject fuel) /\ (forall c, gpk (parseObjectArgs fuel c)) /\
  (forall inf c i, gpk (parseArgs fuel inf c i)) /\ (forall inf c ty, gpk (parseArg fuel inf c ty)) /\
  gpk (termList_go fuel) /\ gpk (parseNamePathOrMethodCall fuel) /\ (forall n, gpk (callArgs_go fuel n)) /\
  (forall c, gpk (parseStrictTermArg fuel c)) /\ gpk (parseTarget fuel).

Ltac gp_rec H1 H2 H3 H4 H5 H6 H7 H8 H9 :=
  first [apply H1 | apply H2 | apply H3 | apply H4 | apply H5 | apply H6 | apply H7 | apply H8 | apply H9
        | apply parseSimpleArg_gpk | apply parseByteList_gpk | apply parseFieldElements_gpk].

Lemma gblock_all : forall fuel, gblock fuel.
Proof.
  induction fuel as [|fuel (H1 & H2 & H3 & H4 & H5 & H6 & H7 & H8 & H9)].
  - unfold gblock. repeat match goal with |- _ /\ _ => split end; intros; cbn; apply gpk_fail; intros; right; reflexivity.
  - unfold gblock. repeat match goal with |- _ /\ _ => split end; intros.
    + cbn [parseNextObject]. gp_unf. gpk_tac ltac:(gp_rec H1 H2 H3 H4 H5 H6 H7 H8 H9).
    + cbn [parseObjectArgs]. apply gk_rdf_opcode. intros op. apply gk_curTable.
      eapply gk_bind_weak; [|intros res; gpk_tac fail].
      apply gk_if; intros _; [apply gk_weak; gpk_tac fail|].
      apply gk_if; intros _; [apply gk_weak; gpk_tac fail|].
      apply gk_if; intros _; [apply gk_weak; gpk_tac fail|].
      apply gk_if; intros _; [apply gk_weak; gpk_tac fail|].
      apply gk_if; intros E5.
      { apply N.eqb_eq in E5. subst op. carry. match goal with |- gk _ (let '(_, _) := ?x in _) _ => destruct x as [v ok] end.
        eapply gk_bind_weak; [|intros ?; gpk_tac fail].
        eapply gk_conseq; [intros t Ht; exact Ht|intros; exact I|].
        apply (gk_wrf c _ (fun o => o_opcode o = aml_pOpStringPrefix) (fun _ => True)); [auto|].
        intros o tbl sl Ho G1 G2. cbn [o_opcode set_value] in G1. rewrite Ho in G1. discriminate. }
      apply gk_weak. gp_unf. gpk_tac ltac:(gp_rec H1 H2 H3 H4 H5 H6 H7 H8 H9).
    + cbn [parseArgs]. destruct inf as [[? ?] ?]. gp_unf. gpk_tac ltac:(gp_rec H1 H2 H3 H4 H5 H6 H7 H8 H9).
    + cbn [parseArg]. destruct inf as [[? ?] ?]. gp_unf. gpk_tac ltac:(gp_rec H1 H2 H3 H4 H5 H6 H7 H8 H9).
    + cbn [termList_go]. gp_unf. gpk_tac ltac:(gp_rec H1 H2 H3 H4 H5 H6 H7 H8 H9).
    + cbn [parseNamePathOrMethodCall]. gp_unf. gpk_tac ltac:(gp_rec H1 H2 H3 H4 H5 H6 H7 H8 H9).
    + cbn [callArgs_go]. gp_unf. gpk_tac ltac:(gp_rec H1 H2 H3 H4 H5 H6 H7 H8 H9).
    + cbn [parseStrictTermArg]. gp_unf. gpk_tac ltac:(gp_rec H1 H2 H3 H4 H5 H6 H7 H8 H9).
    + cbn [parseTarget]. gp_unf. gpk_tac ltac:(gp_rec H1 H2 H3 H4 H5 H6 H7 H8 H9).
Qed.

Lemma parseNextObject_gpk fuel : gpk (parseNextObject fuel).
Proof. apply (gblock_all fuel). Qed.

Lemma objectList_inner_gpk fuel : gpk (objectList_inner fuel).
Proof.
  induction fuel as [|fuel IH]; cbn [objectList_inner]; [apply gpk_fail; intros; right; reflexivity|].
  gp_unf. gpk_tac ltac:(first [apply IH | apply parseNextObject_gpk]).
Qed.
Lemma parseObjectList_gpk fuel : gpk (parseObjectList fuel).
Proof.
  induction fuel as [|fuel IH]; cbn [parseObjectList]; [apply gpk_fail; intros; right; reflexivity|].
  gp_unf. gpk_tac ltac:(first [apply IH | apply objectList_inner_gpk]).
Qed.

(** the first pass *)
Lemma first_pass_good fuel s a s' :
  W s -> GPt tbls X (p_tree s) -> (scopeEnter 0 ;;; parseObjectList fuel) s = Ok (a, s') -> p_tables s' = tbls /\ GPt tbls X (p_tree s').
Proof.
  intros Hw Hg H.
  assert (K : gpk (scopeEnter 0 ;;; parseObjectList fuel)) by (apply gpk_bind; [gpk_prim|intros _; apply parseObjectList_gpk]).
  destruct (K s a s' (conj Hw Hg) I H) as (((Ht & _) & Hg') & _). split; [exact Ht|exact Hg'].
Qed.
End GP.

Lemma last_table (earlier : list (list N)) data :
  nth_error (earlier ++ [data]) (N.to_nat (N.of_nat (length (earlier ++ [data])) - 1)) = Some data.
Proof.
  rewrite app_length. cbn [length]. replace (N.to_nat (N.of_nat (length earlier + 1) - 1)) with (length earlier) by lia.
  rewrite nth_error_app2, Nat.sub_diag; [reflexivity|lia].
Qed.
