(** C11 (fragment F8): [parse_encode] for the fragment F7 extended by nested packages.

    F8 = F7 + package elements that are themselves packages: Name(SEG, Package(n){e1, ..., em}) where every element is
    an integer constant, a string, or a Package(n'){...} of such elements, nested to any depth (tables such as _PSS).
    Production added to F7: PackageElement = DefPackage.  The parser reads a nested package with the same object-list
    loop as everything else (the package's ScopeBlock is pushed on the scope stack, its end on the pkgEnd stack);
    connectNamedObjArgs attaches the whole subtree to the Name; the view renders it recursively. *)
From Coq Require Import NArith ZArith Arith List Bool Lia Permutation.
From Coq Require Import ZifyBool ZifyN ZifyNat.
From FF Require Import Lib.Word Gen.Consts_device_acpi_aml Gen.Consts_aml_tree Aml.Stream Aml.Lex Aml.LexProofs
  Aml.Tree Aml.TreeSpec Aml.Parser Aml.Grammar Aml.LexRoundtrip
  Aml.ParserFragBase Aml.ParserFragFirst Aml.ParserFragF0 Aml.ParserFragF0Conn Aml.ParserFragF0Top
  Aml.ParserFragRose Aml.ParserFragDev Aml.ParserFragArgs Aml.ParserFragF1 Aml.ParserFragF1First Aml.ParserFragF1Conn Aml.ParserFragF1Top
  Aml.View Aml.ParserFragView Aml.ParserFragF0View Aml.ParserFragF0Final Aml.ParserFragSort Aml.ParserFragF1View Aml.WfProgram
  Aml.ParserFragF1Final Aml.ParserFragScope Aml.ParserFragScope3 Aml.ParserFragF3Top Aml.ParserFragF3View Aml.ParserFragF3Final.
Import ListNotations.
Local Open Scope N_scope.

Ltac Zify.zify_post_hook ::= Z.div_mod_to_equations.

Fixpoint pel_of (a : ast) : option pel :=
  match a with
  | AConst op v => Some (PLeaf (TInt (mkDecl 0 op v)))
  | AStr b => Some (PLeaf (TStr b))
  | APackage k n es =>
      match (fix go (l : list ast) : option (list pel) :=
               match l with
               | [] => Some []
               | x :: t => match pel_of x, go t with Some i, Some r => Some (i :: r) | _, _ => None end
               end) es with
      | Some l => Some (PSub k n l)
      | None => None
      end
  | _ => None
  end.
Fixpoint pels_of (l : list ast) : option (list pel) :=
  match l with
  | [] => Some []
  | x :: t => match pel_of x, pels_of t with Some i, Some r => Some (i :: r) | _, _ => None end
  end.

Lemma pel_of_ast : forall a x, pel_of a = Some x -> a = pel_ast x.
Proof.
  fix IH 1. intros a x.
  assert (HL : forall l r, (fix go (l : list ast) : option (list pel) :=
                              match l with
                              | [] => Some []
                              | x :: t => match pel_of x, go t with Some i, Some r => Some (i :: r) | _, _ => None end
                              end) l = Some r -> l = map pel_ast r).
  { induction l as [|y t IHt]; intros r Hr.
    - inversion Hr. reflexivity.
    - destruct (pel_of y) as [i|] eqn:Ei; [|discriminate].
      match type of Hr with match ?G with _ => _ end = _ => destruct G as [r'|] eqn:Er; [|discriminate] end.
      inversion Hr; subst r. cbn [map]. rewrite <- (IH y i Ei), <- (IHt r' eq_refl). reflexivity. }
  destruct a; try discriminate; cbn [pel_of].
  - intros E; inversion E. reflexivity.
  - intros E; inversion E. reflexivity.
  - match goal with |- match ?G with _ => _ end = _ -> _ => destruct G as [l|] eqn:El; [|discriminate] end.
    intros E; inversion E. cbn [pel_ast]. rewrite <- (HL _ _ El). reflexivity.
Qed.

Lemma pels_of_ast : forall l r, pels_of l = Some r -> l = map pel_ast r.
Proof.
  induction l as [|x t IH]; intros r H; cbn [pels_of] in H.
  - inversion H. reflexivity.
  - destruct (pel_of x) as [i|] eqn:Ei; [|discriminate]. destruct (pels_of t) as [r'|] eqn:Er; [|discriminate].
    inversion H; subst r. cbn [map]. rewrite <- (IH r' eq_refl), <- (pel_of_ast x i Ei). reflexivity.
Qed.

Fixpoint f8_item (a : ast) : option item :=
  let go := fix go (l : list ast) : option (list item) :=
              match l with
              | [] => Some []
              | x :: t => match f8_item x, go t with Some i, Some r => Some (i :: r) | _, _ => None end
              end in
  let blk (bk : bkind) (k : N) (nm : namestr) (fa : list N) (body : list ast) : option item :=
      match simple_name nm, go body with
      | Some seg, Some b => Some (IBlk bk k seg fa b)
      | _, _ => None
      end in
  match a with
  | AName nm (AConst op v) => match simple_name nm with Some seg => Some (IName (mkDecl seg op v)) | None => None end
  | AName nm (AStr b) => match simple_name nm with Some seg => Some (ILeaf LName seg [] [TStr b]) | None => None end
  | AName nm (APackage k n elems) =>
      match simple_name nm, pels_of elems with Some seg, Some l => Some (IPkg seg k n l) | _, _ => None end
  | ADevice k nm body => blk BDev k nm [] body
  | AThermal k nm body => blk BTZ k nm [] body
  | AProcessor k nm id addr len body => blk BProc k nm [id; addr; len] body
  | APowerRes k nm level order body => blk BPwr k nm [level; order] body
  | AMethod k nm fl body => blk BMeth k nm [fl] body
  | AMutex nm sync => match simple_name nm with Some seg => Some (ILeaf LMutex seg [sync] []) | None => None end
  | AEvent nm => match simple_name nm with Some seg => Some (ILeaf LEvent seg [] []) | None => None end
  | AOpRegion nm space (AConst op1 v1) (AConst op2 v2) =>
      match simple_name nm with Some seg => Some (ILeaf LOpReg seg [space] [TInt (mkDecl 0 op1 v1); TInt (mkDecl 0 op2 v2)]) | None => None end
  | _ => None
  end.

Fixpoint f8_items (l : list ast) : option (list item) :=
  match l with
  | [] => Some []
  | x :: t => match f8_item x, f8_items t with Some i, Some r => Some (i :: r) | _, _ => None end
  end.

Definition f8_titem (a : ast) : option titem :=
  match a with
  | AScope k nm body =>
      match scope_target nm, f8_items body with
      | Some (root, d), Some b => Some (TScope k root d b)
      | _, _ => None
      end
  | _ => match f8_item a with Some it => Some (TItem it) | None => None end
  end.

Fixpoint f8_titems (l : list ast) : option (list titem) :=
  match l with
  | [] => Some []
  | x :: t => match f8_titem x, f8_titems t with Some i, Some r => Some (i :: r) | _, _ => None end
  end.

Definition in_fragment_F8 (tables : list (list ast)) : bool :=
  match tables with
  | [p] => match f8_titems p with Some _ => lenN (encode_table p) <? 0x10000000 | None => false end
  | _ => false
  end.

Lemma f8_item_ast : forall a it, f8_item a = Some it -> a = item_ast it /\ shape_ok it = true.
Proof.
  fix IH 1. intros a it.
  assert (HL : forall l b, (fix go (l : list ast) : option (list item) :=
                              match l with
                              | [] => Some []
                              | x :: t => match f8_item x, go t with Some i, Some r => Some (i :: r) | _, _ => None end
                              end) l = Some b -> l = map item_ast b /\ forallb shape_ok b = true).
  { induction l as [|x t IHt]; intros b Hb.
    - inversion Hb. split; reflexivity.
    - destruct (f8_item x) as [i|] eqn:Ei; [|discriminate].
      match type of Hb with match ?G with _ => _ end = _ => destruct G as [r|] eqn:Er; [|discriminate] end.
      inversion Hb; subst b. cbn [map forallb]. destruct (IH x i Ei) as (-> & Hi). destruct (IHt r eq_refl) as (-> & Hr).
      rewrite Hi, Hr. split; reflexivity. }
  destruct a as [ | | | | | | | | | | | | | k nm body | k nm body | k nm id addr len body | k nm level order body | k nm fl body | nm v | nm space off len | | | | nm sync | nm ]; try discriminate;
    cbn [f8_item];
    try (destruct (simple_name nm) as [seg|] eqn:En; [|discriminate]; apply simple_name_eq in En; subst nm;
         match goal with |- match ?G with _ => _ end = _ -> _ => destruct G as [b|] eqn:Eb; [|discriminate] end;
         intros E; inversion E; subst it; destruct (HL body b Eb) as (-> & Hb); split; [reflexivity|];
         cbn [shape_ok bk_ws length Nat.eqb andb]; exact Hb).
  - destruct v; try discriminate; (destruct (simple_name nm) as [seg|] eqn:En; [|discriminate]); apply simple_name_eq in En; subst nm;
      try (destruct (pels_of elems) as [ta|] eqn:Eta; [apply pels_of_ast in Eta; subst elems|discriminate]);
      intros E; inversion E; split; reflexivity.
  - destruct off; try discriminate. destruct len; try discriminate. destruct (simple_name nm) as [seg|] eqn:En; [|discriminate]. apply simple_name_eq in En. subst nm.
    intros E; inversion E. split; reflexivity.
  - destruct (simple_name nm) as [seg|] eqn:En; [|discriminate]. apply simple_name_eq in En. subst nm.
    intros E; inversion E. split; reflexivity.
  - destruct (simple_name nm) as [seg|] eqn:En; [|discriminate]. apply simple_name_eq in En. subst nm.
    intros E; inversion E. split; reflexivity.
Qed.

Lemma f8_items_ast : forall p its, f8_items p = Some its -> p = map item_ast its /\ forallb shape_ok its = true.
Proof.
  induction p as [|x t IH]; intros its Hp; cbn [f8_items] in Hp.
  - inversion Hp. split; reflexivity.
  - destruct (f8_item x) as [i|] eqn:Ei; [|discriminate]. destruct (f8_items t) as [r|] eqn:Er; [|discriminate].
    inversion Hp; subst its. cbn [map forallb]. destruct (f8_item_ast x i Ei) as (-> & Hi). destruct (IH r eq_refl) as (-> & Hr).
    rewrite Hi, Hr. split; reflexivity.
Qed.

Lemma f8_titem_ast a x : f8_titem a = Some x -> a = titem_ast x /\ tscope_ok x /\ tshape x = true.
Proof.
  assert (Hgen : match f8_item a with Some it => Some (TItem it) | None => None end = Some x -> a = titem_ast x /\ tscope_ok x /\ tshape x = true).
  { destruct (f8_item a) as [it|] eqn:Ei; [|discriminate]. intros E; inversion E. destruct (f8_item_ast a it Ei) as (A & B). split; [exact A|split; [exact I|exact B]]. }
  destruct a; try exact Hgen. clear Hgen. cbn [f8_titem].
  destruct (scope_target nm) as [[root d]|] eqn:En; [|discriminate]. destruct (f8_items body) as [b|] eqn:Eb; [|discriminate].
  intros E; inversion E. destruct (scope_target_eq _ _ _ En) as (-> & Hd). cbn [titem_ast tscope_ok tshape].
  destruct (f8_items_ast _ _ Eb) as (-> & Hs). split; [reflexivity|split; [exact Hd|exact Hs]].
Qed.

Lemma f8_titems_ast : forall p ts, f8_titems p = Some ts -> p = map titem_ast ts /\ Forall tscope_ok ts /\ forallb tshape ts = true.
Proof.
  induction p as [|x t IH]; intros ts Hp; cbn [f8_titems] in Hp.
  - inversion Hp. split; [reflexivity|split; [constructor|reflexivity]].
  - destruct (f8_titem x) as [i|] eqn:Ei; [|discriminate]. destruct (f8_titems t) as [r|] eqn:Er; [|discriminate].
    inversion Hp; subst ts. cbn [map forallb]. destruct (f8_titem_ast x i Ei) as (-> & Hi & Hsi). destruct (IH r eq_refl) as (-> & Hr & Hsr).
    rewrite Hsi, Hsr. split; [reflexivity|split; [constructor; assumption|reflexivity]].
Qed.

(** THE THEOREM for the fragment F7 *)
Theorem parse_encode_F8 : forall tables,
  wf_program tables = true -> in_fragment_F8 tables = true -> parse_encode_statement tables.
Proof.
  intros tables Hwf Hfr. unfold in_fragment_F8 in Hfr.
  destruct tables as [|p [|p2 rest]]; try discriminate.
  destruct (f8_titems p) as [ts|] eqn:Ets; [|discriminate]. apply N.ltb_lt in Hfr.
  destruct (f8_titems_ast p ts Ets) as (-> & Hd & Hs).
  apply parse_encode_titems; assumption.
Qed.
