(** C12 (stretch): the first two passes of ParseAML together - parseObjectList, then connectNamedObjArgs from the
    root - never panic and leave a pool that satisfies C13's tree relation, with valid opcode-table indexes and
    every []byte inside its table. *)
From Coq Require Import NArith Arith List Bool Lia.
From Coq Require Import ZifyBool ZifyN ZifyNat.
From FF Require Import Lib.Word Gen.Consts_device_acpi_aml Gen.Consts_aml_tree Aml.Stream Aml.Lex Aml.LexProofs
  Aml.Tree Aml.Parser Aml.ParserProofs Aml.TreeSpec Aml.TreeProofs Aml.TreeProofsOps
  Aml.ParserTotalTree Aml.ParserTotalTree2 Aml.ParserTotalLex Aml.ParserTotalTable Aml.ParserTotalBase Aml.ParserTotalLeaf
  Aml.ParserTotalFirst Aml.ParserTotalConn.
Import ListNotations.
Local Open Scope N_scope.

(** the prefix of parseAML_body up to and including connectNamedObjArgs *)
Definition passes12 (fuel : nat) : M pres :=
  scopeEnter 0 ;;;
  mlet r1 <~ parseObjectList fuel ;;
  if pres_eqb r1 RFailed then ret RFailed else connectNamedObjArgs fuel 0.

Theorem passes12_never_panic : forall tree g earlier handle data fuel,
  R tree g -> info_valid tree -> glive g 0 -> pool_ok earlier tree ->
  Forall (fun b => b < 256) data -> N.of_nat (length data) + 0x10000400 <= two32 ->
  N.of_nat (length (t_pool tree)) + 4 * N.of_nat (length data) + 4 <= InvalidIndex ->
  match passes12 fuel (init_state tree earlier handle data) with
  | Ok (_, s') => exists g', R (p_tree s') g' /\ info_valid (p_tree s') /\ pool_ok (earlier ++ [data]) (p_tree s')
  | Panic => False
  | OutOfFuel => True
  end.
Proof.
  intros tree g earlier handle data fuel HR Hi H0 Hpool Hb Hl Hcap.
  destruct (init_FI tree g earlier handle data HR Hi H0 (conj Hb Hl) Hcap) as (HFI & Hroom & HJ & _).
  set (s0 := with_scopeStack (init_state tree earlier handle data) [0]) in *.
  assert (Hinv0 : Inv (earlier ++ [data]) s0).
  { assert (Him : image_ok data) by (split; [exact Hb|unfold two32 in *; lia]).
    destruct (init_state_Inv tree earlier handle data Him Hpool) as [A1 A2 A3 A4 A5]. constructor; auto. }
  pose proof (list_spec fuel s0 g HFI Hroom HJ) as W. unfold wp in W.
  unfold passes12, bindM, scopeEnter.
  change (with_scopeStack (init_state tree earlier handle data) (0 :: p_scopeStack (init_state tree earlier handle data))) with s0.
  destruct (parseObjectList fuel s0) as [[r1 s1]| |] eqn:E1; auto.
  destruct W as (g1 & F1 & G1).
  destruct (hoare_parseObjectList (earlier ++ [data]) fuel s0 r1 s1 Hinv0 E1) as ([B1 B2 B3 B4 B5] & _).
  destruct (pres_eqb r1 RFailed).
  - unfold ret. exists g1. split; [apply (fi_R _ _ F1)|]. split; [apply (fi_info _ _ F1)|exact B5].
  - pose proof (connectNamedObjArgs_never_panics fuel 0 s1 g1 (fi_R _ _ F1) (fi_info _ _ F1)) as C.
    rewrite B1 in C. specialize (C B5 (ge_live _ _ G1 _ H0)).
    destruct (connectNamedObjArgs fuel 0 s1) as [[r2 s2]| |] eqn:E2; auto.
    destruct C as (g2 & C1 & C2 & C3). exists g2. split; auto. split; auto.
    destruct (hoare_connectNamed (earlier ++ [data]) fuel) as (Hc & _).
    destruct (Hc 0 s1 r2 s2 (mkInv _ _ B1 B2 B3 B4 B5) E2) as ([D1 _ _ _ D5] & _). exact D5.
Qed.

(** the hypotheses are satisfiable: the pool that holds just a root scope *)
Lemma passes12_hyps_example :
  exists (tree : T) (g : ghost),
    R tree g /\ info_valid tree /\ glive g 0 /\ pool_ok [] tree /\ (length (t_pool tree) <= 1)%nat.
Proof.
  assert (Hnk : newok opScope) by (apply newokb_sound; reflexivity).
  destruct Hnk as (Hnf & Hmaps & i0 & Hi0 & Hinfo).
  destruct (newObject_R (@NewObjectTree value) ghost0 opScope 0 R_empty) as (t' & p & E & HR' & _ & Hp).
  { split; auto. split; auto. intros _. cbn. pose proof Inv_val. lia. }
  destruct (newObject_shape _ _ _ _ _ E) as ((po & Hpo & Hop & Hidx & _ & Hval) & _ & Hbw & Hl1 & _).
  destruct (new_slot_fresh (@NewObjectTree value) ghost0 opScope 0 R_empty) as (_ & F2 & _).
  cbn [g_free ghost0] in Hp. cbn [NewObjectTree t_pool length] in Hp, Hl1. change (N.of_nat 0) with 0 in Hp. subst p.
  assert (Hall : forall i o, tget t' i = Some o -> i = 0 /\ o = po).
  { intros i o Hg. destruct (N.eqb_spec i 0) as [->|Hne]; [split; congruence|].
    specialize (Hbw i o Hne Hg). unfold TreeSpec.get in Hbw. cbn [NewObjectTree t_pool] in Hbw. destruct (N.to_nat i); discriminate. }
  exists t', (astep ghost0 (OpNew opScope 0)). split; [exact HR'|]. split; [|split; [exact F2|split; [|exact Hl1]]].
  - intros i o Hg Hl. destruct (Hall i o Hg) as (-> & ->). rewrite pOpcodeTableIndex_eq, Hi0 in Hidx. inversion Hidx as [Hii].
    rewrite <- Hii. exact Hinfo.
  - unfold pool_ok. rewrite Forall_forall. intros o Hin. destruct (In_nth_error _ _ Hin) as (n & Hn).
    assert (Hg : tget t' (N.of_nat n) = Some o) by (unfold TreeSpec.get; rewrite Nat2N.id; exact Hn).
    destruct (Hall _ _ Hg) as (_ & ->). rewrite Hval. exact I.
Qed.
