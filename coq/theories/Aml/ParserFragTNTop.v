(** C11 (fragment TN, any number of tables): ParseAML on a table with handle [k + 1] loaded into the tree that [k] earlier
    tables without Scope directives have left.  Generalises ParserFragT2Top.v from the second table to the next table. *)
From Coq Require Import NArith ZArith Arith List Bool Lia.
From Coq Require Import ZifyBool ZifyN ZifyNat.
From FF Require Import Lib.Word Gen.Consts_device_acpi_aml Gen.Consts_aml_tree Aml.Stream Aml.Lex Aml.LexProofs
  Aml.Tree Aml.TreeSpec Aml.TreeProofs Aml.TreeProofsOps Aml.TreeProofsFind Aml.Parser Aml.Grammar Aml.LexRoundtrip
  Aml.ParserTotalTree Aml.ParserTotalBase
  Aml.ParserFragBase Aml.ParserFragFirst Aml.ParserFragF0 Aml.ParserFragF0Shape Aml.ParserFragConn Aml.ParserFragF0Conn Aml.ParserFragWalk
  Aml.ParserFragF0Top Aml.ParserFragRose Aml.ParserFragDev Aml.ParserFragArgs Aml.ParserFragF1 Aml.ParserFragF1First Aml.ParserFragF1Conn Aml.ParserFragF1Top
  Aml.ParserFragMerge Aml.ParserFragScope Aml.ParserFragScope2 Aml.ParserFragScope3 Aml.ParserFragF3Top Aml.ParserFragT2Top.
Import ListNotations.
Local Open Scope N_scope.

Ltac Zify.zify_post_hook ::= Z.div_mod_to_equations.

(** objects of the tables with handles up to [k] (the predefined scopes have handle 0) *)
Definition f1_okB (k : N) (r : rose) : Prop := exists h tbl, h <= k /\ f1_ok h tbl r.

Lemma f1_okB_E k r : f1_okB k r -> f1_okE r.
Proof. intros (h & tbl & _ & Hr). exists h, tbl. exact Hr. Qed.
Lemma f1_okB_mono k k' r : k <= k' -> f1_okB k r -> f1_okB k' r.
Proof. intros Hk (h & tbl & Hh & Hr). exists h, tbl. split; [lia|exact Hr]. Qed.

(** the pool after [k] tables without Scope directives: the predefined scopes are leaves, [KT] are the trees of the
    tables' items, slots 6 .. b-1, no freed slot *)
Record SInv (g : ghost) (pl : list pay) (KT : list rose) (b k : N) : Prop := mkSInv {
  si_root : kids g 0 = D0' ++ map ridx KT;
  si_pay : forall i, 0 <= i <= 5 -> pget pl i = Some (dpay i);
  si_leaf : forall d, 1 <= d <= 5 -> kids g d = [];
  si_KT : Forall (Desc g pl) KT;
  si_ok : Forall (rallr (f1_okB k)) KT;
  si_nodes : forall y, In y (rnodesl KT) <-> 6 <= y < b;
  si_b : 6 <= b;
  si_len : N.of_nat (length pl) = b;
  si_free : g_free g = [];
  si_size : (6 + rsizes KT)%nat = N.to_nat b
}.

Lemma length_le_rsizes (l : list rose) : (length l <= rsizes l)%nat.
Proof. induction l as [|x t IHl]; [cbn; lia|]. cbn [length rsizes fold_right]. fold (rsizes t). pose proof (rsize_pos x). lia. Qed.

Lemma dflt_leaves_okB k : Forall (rallr (f1_okB k)) dflt_leaves.
Proof.
  unfold dflt_leaves. repeat (constructor; [constructor; [exists 0, 0; split; [lia|cbn [f1_ok]; left; eexists; reflexivity]|constructor]|]). constructor.
Qed.

Lemma dflt_leaves_desc g pl : (forall i, 0 <= i <= 5 -> pget pl i = Some (dpay i)) -> (forall d, 1 <= d <= 5 -> kids g d = []) ->
  Forall (Desc g pl) dflt_leaves.
Proof.
  intros Hp Hk. unfold dflt_leaves. repeat (constructor; [apply leaf_desc; [apply Hp; lia|apply Hk; lia]|]). constructor.
Qed.

(** ---- connectNamedObjArgs on the whole tree ---- *)
Lemma pass2_tn ts fuel t1 g0 pl0 g1 pl1 hdr earlier KT0 b k :
  let data := hdr ++ enc_titems ts in
  forallb titem_okb ts = true -> lenN hdr = aml_sizeofSDTHeader -> lenN earlier = k ->
  SInv g0 pl0 KT0 b k ->
  Rep t1 g1 pl1 -> Post1 g0 pl0 g1 pl1 0 (tlay1 (k + 1) k b aml_sizeofSDTHeader ts) ->
  (tcfuel ts + 3 * N.to_nat b + 24 <= fuel)%nat ->
  wp False (connectNamedObjArgs fuel 0) (after_first t1 earlier (k + 1) data) (fun r s' => r = ROk /\ exists t2 g2 pl2,
    s' = with_tree (after_first t1 earlier (k + 1) data) t2 /\ Rep t2 g2 pl2 /\
    MInv (k + 1) k g2 pl2 KT0 (fun _ => []) b aml_sizeofSDTHeader ts).
Proof.
  intros data Hok Hhdr Hearlier [Hk00 Hpay0 Hleaf0 HDK0 HOK0 Hnodes0 Hb6 Hl0 Hfree0 Hsize0] H1 P1 Hfuel. destruct P1 as [A1 A2 A3 A4 A5 A6].
  pose proof (dflt_leaves_desc g0 pl0 Hpay0 Hleaf0) as HDL0.
  rewrite Hl0 in *.
  set (s1 := after_first t1 earlier (k + 1) data).
  assert (Hp0 : pget pl1 0 = Some (dpay 0)) by (rewrite A6 by lia; apply Hpay0; lia).
  assert (Hk0 : kids g1 0 = (D0' ++ map ridx KT0) ++ map ridx (tlay1 (k + 1) k b aml_sizeofSDTHeader ts) ++ []) by (rewrite A3, Hk00, app_nil_r; reflexivity).
  assert (Hnth : nth_error (earlier ++ [data]) (N.to_nat k) = Some data).
  { rewrite nth_error_app2 by (unfold lenN in Hearlier; lia). replace (N.to_nat k - length earlier)%nat with 0%nat by (unfold lenN in Hearlier; lia). reflexivity. }
  destruct fuel as [|F]; [lia|]. rewrite connectNamedObjArgs_S.
  apply wp_bind. eapply wp_objectAt_rep; [exact H1|exact Hp0|discriminate|].
  apply wp_bind. eapply wp_rdf_rep; [exact H1|exact Hp0|discriminate|]. intros o0 _ _ _ Hlast. rewrite Hlast, A3, Hk00.
  pose proof (tclen_le_tcfuel ts) as Hcl.
  eapply (tcspec_all (k + 1) k (earlier ++ [data]) data Hnth ts 0 (D0' ++ map ridx KT0) [] b aml_sizeofSDTHeader s1 g1 pl1 F _ (F - tcfuel ts)%nat hdr []);
    [exact H1|exact Hk0|exact A4|exact Hp0|discriminate|left; lia|reflexivity|reflexivity|unfold data; rewrite app_nil_r; reflexivity|symmetry; exact Hhdr|exact Hok|lia|lia|].
  intros t2 g2 pl2 H2 [Q1 Q2 Q3 Q4]. rewrite app_nil_r in Q1.
  (* the objects of the earlier tables and the predefined scopes are left alone *)
  set (F0 := dflt_leaves ++ KT0).
  assert (Hframe : forall y, In y (rnodesl F0) -> kids g2 y = kids g0 y /\ pget pl2 y = pget pl0 y).
  { intros y Hy. assert (Hylt : 1 <= y < b).
    { unfold F0 in Hy. rewrite rnodesl_app in Hy. apply in_app_or in Hy. destruct Hy as [Hy|Hy].
      - unfold dflt_leaves, rnodesl in Hy. cbn in Hy. lia.
      - apply Hnodes0 in Hy. lia. }
    split; [rewrite Q3 by lia; apply A5; lia|rewrite Q4 by lia; apply A6; lia]. }
  assert (HDF0 : Forall (Desc g0 pl0) F0) by (apply Forall_app; split; assumption).
  assert (HDF : Forall (Desc g2 pl2) F0).
  { apply (Desc_frame_l g0 pl0); [exact HDF0|]. intros y Hy. destruct (Hframe y Hy). auto. }
  assert (HOF : Forall (rallr (f1_okB k)) F0) by (apply Forall_app; split; [apply dflt_leaves_okB|exact HOK0]).
  assert (Hidx : map ridx F0 = D0' ++ map ridx KT0) by (unfold F0; rewrite map_app; reflexivity).
  rewrite <- Hidx. rewrite <- (rev_involutive (map ridx F0)), last_rev_hd.
  eapply wp_conseq.
  { refine (proj2 (connS_all g2 pl2 (k + 1) (fun y => In y (rnodesl F0)) _ _ (F - tclen ts)) 0 (rev (map ridx F0)) (map ridx (tlay2 (k + 1) k b aml_sizeofSDTHeader ts)) (with_tree s1 t2) H2 eq_refl _ _ _).
    - intros y c Hy Hc. apply (forest_kids_in g2 pl2 F0 HDF y c Hy Hc).
    - intros y a Hy Ha _. unfold rnodesl in Hy. apply in_flat_map in Hy. destruct Hy as (r & Hr & Hyr). rewrite Forall_forall in HDF, HOF.
      destruct (rallr_lookup g2 pl2 _ r (HDF r Hr) (HOF r Hr) y Hyr) as (a2 & ks2 & D2 & (h0 & tbl0 & Hh0 & O2)).
      destruct (Desc_inv _ _ _ _ _ D2) as (P2 & _ & _). assert (a2 = a) by congruence. subst a2.
      apply (conn_ok_f1 g2 h0 tbl0 (k + 1) y a ks2 O2); lia.
    - rewrite rev_involutive, Q1, Hidx. reflexivity.
    - intros c Hc. apply in_rev in Hc. apply in_map_iff in Hc. destruct Hc as (r & <- & Hr).
      unfold rnodesl. apply in_flat_map. exists r. split; [exact Hr|]. destruct r. rewrite rnodes_eq. left. reflexivity.
    - rewrite <- map_rev. apply (floopb_forest g2 pl2); [apply Forall_rev; exact HDF|].
      rewrite rsizes_rev'. unfold F0. rewrite rsizes_app. unfold dflt_leaves. cbn [rsizes fold_right]. rewrite !rsize_eq. cbn [rsizes fold_right].
      fold (rsizes KT0). pose proof (tclen_le_tcfuel ts). lia. }
  intros r s' (-> & ->). split; [reflexivity|]. exists t2, g2, pl2. split; [reflexivity|]. split; [exact H2|].
  assert (Hin0 : forall y, In y (rnodesl KT0) -> In y (rnodesl F0)) by (intros y Hy; unfold F0; rewrite rnodesl_app; apply in_or_app; right; exact Hy).
  constructor.
  - rewrite Q1, <- app_assoc. reflexivity.
  - intros i Hi. rewrite Q4 by lia. rewrite A6 by lia. apply Hpay0. exact Hi.
  - intros d Hd. rewrite Q3 by lia. rewrite A5 by lia. apply Hleaf0. exact Hd.
  - exact Q2.
  - apply Forall_app in HDF. apply HDF.
  - intros d Hd. constructor.
  - eapply Forall_impl; [|exact HOK0]. intros r. apply rallr_mono. intros r0. apply f1_okB_E.
  - intros d Hd. constructor.
  - intros y Hy. apply Hnodes0 in Hy. lia.
  - intros d y Hd [].
  - lia.
  - intros y a Hy Hpa Hla. left. apply Hnodes0. lia.
  - intros y Hy. rewrite Q4 by lia. apply pget_none. rewrite A2, tlay1_rsizes. lia.
Qed.

(** ---- ParseAML on the next table ---- *)
Theorem parse_tn ts t1 g0 pl0 KT0 b k earlier :
  forallb titem_okb ts = true -> b + lenN (enc_titems ts) < 0x10000000 ->
  Rep t1 g0 pl0 -> SInv g0 pl0 KT0 b k -> lenN earlier = k ->
  exists s' gF plF,
    parseAML t1 earlier (k + 1) (table_image (enc_titems ts)) = Ok (true, s') /\
    Rep (p_tree s') gF plF /\ p_tables s' = earlier ++ [table_image (enc_titems ts)] /\
    MInv (k + 1) k gF plF (KT0 ++ keep (k + 1) k b aml_sizeofSDTHeader ts) (moved (k + 1) k b aml_sizeofSDTHeader ts)
         (b + N.of_nat (tszs ts)) (aml_sizeofSDTHeader + lenN (enc_titems ts)) [].
Proof.
  intros Hok Hsz H0 S0 Hearlier.
  destruct (enc_titems_len ts) as (Hcf & Hsz' & Hcn & Hln).
  pose proof S0 as [Hk00 Hpay0 Hleaf0 HDK0 HOK0 Hnodes0 Hb6 Hl0 Hfree0 Hsize0].
  rewrite table_image_hdr. set (hdr := hdr_of (enc_titems ts)). set (data := hdr ++ enc_titems ts).
  assert (Hhdr : lenN hdr = aml_sizeofSDTHeader) by reflexivity.
  assert (HlenD : lenN data = aml_sizeofSDTHeader + lenN (enc_titems ts)) by (unfold data; rewrite lenN_app, Hhdr; reflexivity).
  assert (Hpool : length (t_pool t1) = N.to_nat b) by (rewrite <- (rep_len_pool _ _ _ H0); lia).
  unfold parseAML. rewrite Hpool.
  set (fuel := parse_fuel (length data + N.to_nat b)).
  assert (Hfuel : (352 + 8 * length (enc_titems ts) + 8 * N.to_nat b <= fuel)%nat).
  { unfold fuel, parse_fuel. unfold lenN in *. change aml_sizeofSDTHeader with 36 in HlenD. lia. }
  clearbody fuel.
  set (h := k + 1).
  set (MI := fun g pl => MInv h k g pl (KT0 ++ keep h k b aml_sizeofSDTHeader ts) (moved h k b aml_sizeofSDTHeader ts)
                              (b + N.of_nat (tszs ts)) (aml_sizeofSDTHeader + lenN (enc_titems ts)) []).
  assert (Hgoal : wp False (parseAML_body fuel) (init_state t1 earlier h data) (fun b0 s' => b0 = true /\
            exists gF plF, Rep (p_tree s') gF plF /\ MI gF plF /\ p_tables s' = earlier ++ [data])).
  2:{ destruct (wp_run _ _ _ Hgoal) as (b0 & s' & E & -> & gF & plF & A & B & C). exists s', gF, plF. auto. }
  unfold wp. rewrite parseAML_body_eq.
  match goal with |- match ?m ?s with _ => _ end => change (wp False m s (fun b0 s' => b0 = true /\
            exists gF plF, Rep (p_tree s') gF plF /\ MI gF plF /\ p_tables s' = earlier ++ [data])) end.
  (* the first pass *)
  apply wp_bind. eapply wp_conseq.
  { eapply (first_t ts fuel t1 g0 pl0 earlier h hdr (dpay 0)); [exact Hhdr| | |exact H0|exact Hfree0| |apply Hpay0; lia|discriminate|exact Hok|lia].
    - apply Forall_app. split; [apply hdr_bytes|apply enc_titems_bytes; exact Hok].
    - fold data. rewrite HlenD. unfold two32. change aml_sizeofSDTHeader with 36. lia.
    - rewrite Hl0. change InvalidIndex with 0xffffffff. unfold lenN in *. lia. }
  intros res s1 (-> & t1' & g1 & pl1 & -> & H1 & P1). fold data in H1, P1 |- *.
  change (pres_eqb ROk RFailed) with false. cbv iota. rewrite Hl0 in P1.
  replace (N.of_nat (length earlier)) with k in P1 by (unfold lenN in Hearlier; lia).
  (* connectNamedObjArgs *)
  apply wp_bind. eapply wp_conseq.
  { apply (pass2_tn ts fuel t1' g0 pl0 g1 pl1 hdr earlier KT0 b k Hok Hhdr Hearlier S0 H1 P1). lia. }
  intros r s2 (-> & t2 & g2 & pl2 & -> & H2 & I2).
  change (negb (pres_eqb ROk ROk)) with false. cbv iota.
  (* the remaining passes *)
  set (s2 := with_tree (after_first t1' earlier h data) t2).
  assert (Hnth : nth_error (earlier ++ [data]) (N.to_nat k) = Some data).
  { rewrite nth_error_app2 by (unfold lenN in Hearlier; lia). replace (N.to_nat k - length earlier)%nat with 0%nat by (unfold lenN in Hearlier; lia). reflexivity. }
  eapply wp_conseq.
  { apply (rest_generic2 fuel s2 h MI).
    - intros t g pl Hrep I. destruct (root_treeG_facts h k g pl _ _ _ _ I) as (D3 & O3 & C3).
      eexists; exists (dpay 0). split; [exact D3|]. split; [reflexivity|]. split; [apply (Desc_inv _ _ _ _ _ D3)|]. split; [discriminate|].
      split; [apply (f1_conds t g pl _ h Hrep D3 O3 C3)|].
      unfold root_treeG. rewrite rsize_eq, !rsizes_app. cbn [D0' map rsizes fold_right]. rewrite !rsize_eq.
      pose proof (keep_moved_size h k ts b aml_sizeofSDTHeader). unfold rsizes in *. lia.
    - eapply wp_conseq.
      { rewrite <- Hhdr in I2.
        apply (merge_rootG h k (earlier ++ [data]) data Hnth ts KT0 b hdr [] fuel (with_counters s2 1 (p_mergedScopes s2) (p_relocatedObjects s2)) g2 pl2 H2 I2 eq_refl eq_refl);
          [unfold data; rewrite app_nil_r; reflexivity|exact Hok|].
        pose proof (length_le_rsizes KT0). lia. }
      intros r s3 (-> & g3 & pl3 & H3 & Hh3 & Htb3 & Hr3 & I3). split; [reflexivity|]. exists g3, pl3.
      split; [exact H3|]. split; [unfold MI; rewrite <- Hhdr; exact I3|]. split; [exact Hh3|]. split; [exact Htb3|]. rewrite Hr3. reflexivity. }
  intros b0 s3 (-> & g3 & pl3 & H3 & I3 & Etb). split; [reflexivity|]. exists g3, pl3.
  split; [exact H3|]. split; [exact I3|exact Etb].
Qed.

(** ---- tables without Scope directives ---- *)
Definition noscope (ts : list titem) : bool := forallb (fun x => match x with TItem _ => true | TScope _ _ _ _ => false end) ts.

Lemma moved_noscope h tbl d : forall ts b off, noscope ts = true -> moved h tbl b off ts d = [].
Proof.
  induction ts as [|x t IH]; intros b off Hn; [reflexivity|]. cbn [noscope forallb] in Hn. apply andb_prop in Hn. destruct Hn as [Hx Ht].
  destruct x as [it|]; [|discriminate]. cbn [moved app]. apply IH. exact Ht.
Qed.

Lemma keep_okh h tbl : forall ts b off, forallb titem_okb ts = true -> Forall (rallr (f1_ok h tbl)) (keep h tbl b off ts).
Proof.
  induction ts as [|x t IH]; intros b off Hok; [constructor|]. cbn [forallb] in Hok. apply andb_prop in Hok. destruct Hok as [Hx Ht].
  cbn [keep]. apply Forall_app. split; [|apply IH; exact Ht].
  destruct x as [it|]; [|constructor]. rewrite <- lay2_single. apply lay2_okh. cbn [forallb titem_okb] in *. rewrite Hx. reflexivity.
Qed.

Lemma keep_nodes_all h tbl : forall ts b off y, noscope ts = true -> b <= y < b + N.of_nat (tszs ts) -> In y (rnodesl (keep h tbl b off ts)).
Proof.
  induction ts as [|x t IH]; intros b off y Hn Hy; [cbn in Hy; lia|]. cbn [noscope forallb] in Hn. apply andb_prop in Hn. destruct Hn as [Hx Ht].
  destruct x as [it|]; [|discriminate]. cbn [keep]. rewrite rnodesl_app. cbn [tszs fold_right tsz] in Hy. fold (tszs t) in Hy. apply in_or_app.
  destruct (N.ltb_spec y (b + N.of_nat (isz it))) as [Hlt|Hge].
  - left. rewrite <- lay2_single. apply lay2_nodes_all. cbn [iszs fold_right]. lia.
  - right. apply IH; [exact Ht|cbn [tsz]; lia].
Qed.

Lemma keep_rsizes h tbl : forall ts b off, noscope ts = true -> rsizes (keep h tbl b off ts) = tszs ts.
Proof.
  induction ts as [|x t IH]; intros b off Hn; [reflexivity|]. cbn [noscope forallb] in Hn. apply andb_prop in Hn. destruct Hn as [Hx Ht].
  destruct x as [it|]; [|discriminate]. cbn [keep]. rewrite rsizes_app, (IH _ _ Ht). cbn [tszs fold_right tsz]. fold (tszs t).
  rewrite <- lay2_single, lay2_rsizes. cbn [iszs fold_right]. lia.
Qed.

(** the state before the first table *)
Lemma sinv_init : SInv g0c pl0c [] 6 0.
Proof.
  constructor; try reflexivity.
  - intros i Hi. assert (Hc : i = 0 \/ i = 1 \/ i = 2 \/ i = 3 \/ i = 4 \/ i = 5) by lia.
    destruct Hc as [ -> | [ -> | [ -> | [ -> | [ -> | -> ] ] ] ] ]; reflexivity.
  - intros d Hd. apply kids_g0c. lia.
  - constructor.
  - constructor.
  - intros y. cbn [rnodesl flat_map In]. lia.
Qed.

(** after a table without Scope directives the pool is again of that shape *)
Lemma sinv_next (t : T) g pl KT0 b k ts B off :
  Rep t g pl -> noscope ts = true -> forallb titem_okb ts = true ->
  Forall (rallr (f1_okB k)) KT0 -> (forall y, 6 <= y < b -> In y (rnodesl KT0)) -> (6 + rsizes KT0)%nat = N.to_nat b ->
  MInv (k + 1) k g pl (KT0 ++ keep (k + 1) k b aml_sizeofSDTHeader ts) (moved (k + 1) k b aml_sizeofSDTHeader ts) (b + N.of_nat (tszs ts)) off [] ->
  B = b + N.of_nat (tszs ts) ->
  SInv g pl (KT0 ++ keep (k + 1) k b aml_sizeofSDTHeader ts) B (k + 1).
Proof.
  intros H Hn Hok HOK0 Hcov0 Hsize0 [I1 I2 I3 I4 I5 I6 I7 I8 I9 I10 I11 I12 I13] ->.
  set (KT := KT0 ++ keep (k + 1) k b aml_sizeofSDTHeader ts) in *.
  assert (Hall : forall y, 6 <= y < b + N.of_nat (tszs ts) -> In y (rnodesl KT)).
  { intros y Hy. unfold KT. rewrite rnodesl_app. apply in_or_app. destruct (N.ltb_spec y b) as [Hlt|Hge].
    - left. apply Hcov0. lia.
    - right. apply keep_nodes_all; [exact Hn|lia]. }
  assert (Hsome : forall y, y < b + N.of_nat (tszs ts) -> exists a, pget pl y = Some a /\ y_op a <> opFreed).
  { intros y Hy. destruct (N.ltb_spec y 6) as [Hlt|Hge].
    - exists (dpay y). split; [apply I2; lia|discriminate].
    - pose proof (Hall y ltac:(lia)) as Hin. unfold rnodesl in Hin. apply in_flat_map in Hin. destruct Hin as (r & Hr & Hyr).
      rewrite Forall_forall in I5, I7.
      destruct (rallr_lookup g pl _ r (I5 r Hr) (I7 r Hr) y Hyr) as (a & ks & Dy & Oy).
      destruct (Desc_inv _ _ _ _ _ Dy) as (Py & _ & _). exists a. split; [exact Py|]. apply (f1_okE_live y a ks Oy). }
  assert (Hlen : N.of_nat (length pl) = b + N.of_nat (tszs ts)).
  { apply N.le_antisymm.
    - destruct (N.leb_spec (N.of_nat (length pl)) (b + N.of_nat (tszs ts))) as [Hle|Hgt]; [exact Hle|].
      pose proof (I13 (b + N.of_nat (tszs ts)) ltac:(cbn [tszs fold_right]; lia)) as Hnone.
      unfold pget in Hnone. apply nth_error_None in Hnone. lia.
    - destruct (N.leb_spec (b + N.of_nat (tszs ts)) (N.of_nat (length pl))) as [Hle|Hgt]; [exact Hle|].
      destruct (Hsome (b + N.of_nat (tszs ts) - 1) ltac:(lia)) as (a & Pa & _). apply pget_lt in Pa. lia. }
  constructor.
  - cbn [tlay2 map] in I1. rewrite app_nil_r in I1. exact I1.
  - exact I2.
  - intros d Hd. rewrite (I3 d Hd), moved_noscope by exact Hn. reflexivity.
  - exact I5.
  - unfold KT. apply Forall_app. split.
    + eapply Forall_impl; [|exact HOK0]. intros r. apply rallr_mono. intros r0. apply f1_okB_mono. lia.
    + eapply Forall_impl; [|apply (keep_okh (k + 1) k ts b aml_sizeofSDTHeader Hok)]. intros r. apply rallr_mono. intros r0 Hr0.
      exists (k + 1), k. split; [lia|exact Hr0].
  - intros y. split; [apply I9|apply Hall].
  - lia.
  - exact Hlen.
  - apply (rep_free_nil _ _ _ H). intros i a Hi. pose proof (pget_lt _ _ _ Hi) as Hlt. rewrite Hlen in Hlt.
    destruct (Hsome i Hlt) as (a' & Pa & La). assert (a' = a) by congruence. subst a'. exact La.
  - unfold KT. rewrite rsizes_app, keep_rsizes by exact Hn. lia.
Qed.

(** ---- loading a sequence of tables ---- *)
Fixpoint KTn (k b : N) (tss : list (list titem)) : list rose :=
  match tss with
  | [] => []
  | ts :: r => keep (k + 1) k b aml_sizeofSDTHeader ts ++ KTn (k + 1) (b + N.of_nat (tszs ts)) r
  end.
Definition tszsn (tss : list (list titem)) : nat := fold_right (fun ts n => (tszs ts + n)%nat) O tss.
Definition front_ok (ts : list titem) : Prop := noscope ts = true /\ forallb titem_okb ts = true.
Definition images (tss : list (list titem)) : list (list N) := map (fun ts => table_image (enc_titems ts)) tss.

Lemma load_front : forall tss k b KT0 t g pl earlier rest,
  Rep t g pl -> SInv g pl KT0 b k -> lenN earlier = k -> Forall front_ok tss ->
  b + lenN (flat_map enc_titems tss) < 0x10000000 ->
  exists t' g' pl' h', h' = k + lenN tss + 1 /\
    load_tables t earlier (k + 1) (map enc_titems tss ++ rest) = load_tables t' (earlier ++ images tss) h' rest /\
    Rep t' g' pl' /\ SInv g' pl' (KT0 ++ KTn k b tss) (b + N.of_nat (tszsn tss)) (k + lenN tss).
Proof.
  induction tss as [|ts r IH]; intros k b KT0 t g pl earlier rest H S0 He Hfr Hsz.
  - exists t, g, pl, (k + 1). cbn [map app images KTn tszsn fold_right]. rewrite !app_nil_r. change (lenN []) with 0. rewrite !N.add_0_r.
    split; [reflexivity|]. split; [reflexivity|]. split; [exact H|exact S0].
  - pose proof (Forall_inv Hfr) as (Hn & Hok). pose proof (Forall_inv_tail Hfr) as Hfr'.
    cbn [flat_map] in Hsz. rewrite lenN_app in Hsz.
    destruct (enc_titems_len ts) as (_ & Hsz' & _).
    assert (Hsz1 : b + lenN (enc_titems ts) < 0x10000000) by lia.
    destruct (parse_tn ts t g pl KT0 b k earlier Hok Hsz1 H S0 He) as (s' & gF & plF & Ep & HF & Etb & IF).
    pose proof S0 as [_ _ _ _ HOK0 Hnodes0 _ _ _ Hsize0].
    pose proof (sinv_next (p_tree s') gF plF KT0 b k ts _ _ HF Hn Hok HOK0 (fun y Hy => proj2 (Hnodes0 y) Hy) Hsize0 IF eq_refl) as S1.
    assert (He1 : lenN (earlier ++ [table_image (enc_titems ts)]) = k + 1) by (rewrite lenN_app; change (lenN [table_image (enc_titems ts)]) with 1; lia).
    assert (Hsz2 : b + N.of_nat (tszs ts) + lenN (flat_map enc_titems r) < 0x10000000) by (unfold lenN in *; lia).
    destruct (IH (k + 1) (b + N.of_nat (tszs ts)) (KT0 ++ keep (k + 1) k b aml_sizeofSDTHeader ts) (p_tree s') gF plF (earlier ++ [table_image (enc_titems ts)]) rest HF S1 He1 Hfr' Hsz2)
      as (t' & g' & pl' & h' & Eh & El & H' & S').
    exists t', g', pl', h'. split; [rewrite Eh; unfold lenN; cbn [length]; lia|].
    split.
    + cbn [map app load_tables]. rewrite Ep. rewrite El. unfold images. cbn [map]. rewrite <- app_assoc. reflexivity.
    + split; [exact H'|]. cbn [KTn tszsn fold_right]. fold (tszsn r). rewrite app_assoc.
      replace (b + N.of_nat (tszs ts + tszsn r)) with (b + N.of_nat (tszs ts) + N.of_nat (tszsn r)) by lia.
      replace (k + lenN (ts :: r)) with (k + 1 + lenN r) by (unfold lenN; cbn [length]; lia). exact S'.
Qed.

(** the final tree of [tss ++ [ts]]: the tables [tss] have no Scope directives *)
Definition root_tree_tn (tss : list (list titem)) (ts : list titem) : rose :=
  let k := lenN tss in let b := 6 + N.of_nat (tszsn tss) in
  root_treeG (KTn 0 6 tss ++ keep (k + 1) k b aml_sizeofSDTHeader ts) (moved (k + 1) k b aml_sizeofSDTHeader ts).

Theorem load_tn tss ts t0 :
  Rep t0 g0c pl0c -> Forall front_ok tss -> forallb titem_okb ts = true ->
  6 + lenN (flat_map enc_titems tss) + lenN (enc_titems ts) < 0x10000000 ->
  exists tF gF plF,
    load_tables t0 [] 1 (map enc_titems (tss ++ [ts])) = (0, tF, images (tss ++ [ts])) /\
    Rep tF gF plF /\ Desc gF plF (root_tree_tn tss ts).
Proof.
  intros H0 Hfr Hok Hsz.
  assert (Hsz0 : 6 + lenN (flat_map enc_titems tss) < 0x10000000) by lia.
  destruct (load_front tss 0 6 [] t0 g0c pl0c [] [enc_titems ts] H0 sinv_init eq_refl Hfr Hsz0) as (t' & g' & pl' & h' & Eh & El & H' & S').
  cbn [app] in S', El. rewrite N.add_0_l in S', Eh.
  assert (Hb : N.of_nat (tszsn tss) <= lenN (flat_map enc_titems tss)).
  { clear. induction tss as [|x r IH]; [cbn; lia|]. cbn [tszsn fold_right flat_map]. fold (tszsn r). rewrite lenN_app.
    destruct (enc_titems_len x) as (_ & Hx & _). unfold lenN in *. lia. }
  assert (Hsz1 : 6 + N.of_nat (tszsn tss) + lenN (enc_titems ts) < 0x10000000) by lia.
  assert (He1 : lenN (images tss) = lenN tss) by (unfold images, lenN; rewrite map_length; reflexivity).
  destruct (parse_tn ts t' g' pl' _ _ _ (images tss) Hok Hsz1 H' S' He1)
    as (s' & gF & plF & Ep & HF & Etb & IF).
  exists (p_tree s'), gF, plF. split; [|split; [exact HF|apply (root_treeG_facts _ _ _ _ _ _ _ _ IF)]].
  rewrite map_app. cbn [map]. change 1 with (0 + 1) at 1. rewrite El, Eh. cbn [load_tables]. rewrite Ep. cbn [load_tables].
  unfold images. rewrite map_app. reflexivity.
Qed.
