(** C12 (stretch): a lexer fact - the []byte parseNameString returns, when it is four bytes long, starts with a lead name
    character, a root character or a parent prefix. *)
From Coq Require Import NArith ZArith Arith List Bool Lia.
From Coq Require Import ZifyBool ZifyN ZifyNat.
From FF Require Import Lib.Word Gen.Consts_device_acpi_aml Aml.Stream Aml.Lex Aml.LexProofs Aml.Tree Aml.TreeSpec Aml.ParserTotalLex.
Import ListNotations.
Local Open Scope N_scope.

Ltac Zify.zify_post_hook ::= Z.to_euclidean_division_equations.

Definition goodsl (d : list N) (sl : slice) : Prop :=
  s_len sl = 4 -> exists p b0, s_ptr sl = Some p /\ byte_at d p = Some b0 /\ (is_lead b0 = true \/ b0 = 0x5c \/ b0 = 0x5e).

Lemma goodsl_nil d : goodsl d nil_slice.
Proof. intros E. discriminate. Qed.

Lemma readByte_byte r b r1 : readByte r = Ok (Some b, r1) -> byte_at (r_data r) (r_offset r) = Some b.
Proof. unfold readByte. destruct (eof r); [discriminate|]. destruct (byte_at (r_data r) (r_offset r)); [|discriminate]. intros H; inversion H; reflexivity. Qed.

Lemma adv_data r r1 : adv r r1 -> r_data r1 = r_data r.
Proof. intros ((E & _) & _). exact E. Qed.

(** the prefixes that were skipped start at the first byte *)
Lemma skipPrefix_go_first fuel : forall r ok r1, rok r -> skipPrefix_go fuel r = Ok (ok, r1) ->
  r_offset r1 = r_offset r \/ (r_offset r < r_offset r1 /\ exists b, byte_at (r_data r) (r_offset r) = Some b /\ (b = 0x5c \/ b = 0x5e)).
Proof.
  induction fuel as [|fuel IH]; intros r ok r1 H E; cbn [skipPrefix_go] in E; [discriminate|].
  unfold peekByte in E. destruct (eof r) eqn:Ee; cbn [bind] in E.
  - inversion E; subst. left. reflexivity.
  - destruct (byte_at (r_data r) (r_offset r)) as [b|] eqn:Eb; cbn [bind] in E; [|discriminate].
    destruct ((b =? 0x5c) || (b =? 0x5e)) eqn:Ep.
    + destruct (rd1 r H) as [(R & Hge)|(b' & R & Lt & Hb & A)].
      * unfold eof in Ee. apply N.leb_gt in Ee. lia.
      * rewrite R in E. cbn [bind] in E. destruct (skipPrefix_go_adv _ _ _ _ (rok_adv _ _ H A) E) as (A1 & _).
        right. split.
        -- destruct A1 as (_ & L & _). cbn [r_offset set_offset_raw] in L. lia.
        -- exists b. split; [reflexivity|]. apply orb_prop in Ep. destruct Ep as [Ep|Ep]; apply N.eqb_eq in Ep; auto.
    + inversion E; subst. left. reflexivity.
Qed.

Lemma lead_of_guard b : ((b <? 0x41) || (0x5a <? b)) && negb (b =? 0x5f) = false -> is_lead b = true.
Proof.
  unfold is_lead. intros H. destruct (N.eqb_spec b 0x5f) as [E|E]; [reflexivity|]. cbn [negb] in H. rewrite andb_true_r in H.
  apply orb_false_elim in H. destruct H as (H1 & H2). apply N.ltb_ge in H1. apply N.ltb_ge in H2. cbn [orb].
  apply andb_true_intro. split; apply N.leb_le; lia.
Qed.

Lemma parseNameString_good r s ok r1 : rok r -> parseNameString r = Ok (s, ok, r1) -> goodsl (r_data r) s.
Proof.
  intros H E. pose proof H as (W & S & O). unfold parseNameString in E.
  destruct (dataPtr r) as [ptr| |] eqn:Eptr; cbn [bind] in E; try discriminate.
  destruct (skipPrefix_go (stream_fuel r) r) as [[ok1 r2]| |] eqn:ESK; try discriminate. cbn [bind] in E.
  destruct (skipPrefix_go_adv _ _ _ _ H ESK) as (A1 & Hok).
  pose proof (skipPrefix_go_first _ _ _ _ H ESK) as Hfirst.
  assert (H2 : rok r2) by (eapply rok_adv; eauto).
  destruct ok1; cbn [negb] in E.
  2:{ inversion E; subst. apply goodsl_nil. }
  specialize (Hok eq_refl).
  assert (L02 : r_offset r <= r_offset r2) by (destruct A1 as (_ & L & _); exact L).
  assert (Hptr : ptr = Some (r_offset r)).
  { unfold dataPtr in Eptr. destruct (eof r) eqn:Ee.
    - exfalso. unfold eof in Ee. apply N.leb_le in Ee. destruct A1 as ((_ & _ & Epk) & _ & _). rewrite Epk in Hok. lia.
    - destruct (r_offset r <? r_len r); [inversion Eptr; reflexivity|discriminate]. }
  destruct (rd1 r2 H2) as [(R & Hge)|(b & R & Lt & Hb & A2)]; rewrite R in E; cbn [bind] in E; [lia|].
  pose proof (readByte_byte _ _ _ R) as Hbyte. rewrite (adv_data _ _ A1) in Hbyte.
  set (r3 := set_offset_raw r2 (r_offset r2 + 1)) in *.
  assert (A03 : adv r r3) by (eapply adv_trans; eauto).
  assert (H3 : rok r3) by (eapply rok_adv; eauto).
  assert (O3 : r_offset r3 = r_offset r2 + 1) by reflexivity.
  assert (P3 : r_pkgEnd r3 <= r_len r3) by (destruct H3 as ((_ & P & _) & _); exact P).
  assert (B3 : r_len r3 + 0x10000400 <= two32) by (destruct H3 as (_ & P & _); exact P).
  assert (O3' : r_offset r3 <= r_len r3) by (destruct H3 as (_ & _ & P); exact P).
  (* the first byte when a prefix was skipped *)
  assert (Hpre : r_offset r < r_offset r2 -> exists b0, byte_at (r_data r) (r_offset r) = Some b0 /\ (is_lead b0 = true \/ b0 = 0x5c \/ b0 = 0x5e)).
  { intros Hlt. destruct Hfirst as [F|(_ & b0 & Hb0 & Hc)]; [lia|]. exists b0. split; [exact Hb0|right; exact Hc]. }
  destruct (b =? 0).
  { inversion E; subst. intros Hlen. cbn [s_len s_ptr] in *. exists (r_offset r).
    assert (Hlt : r_offset r < r_offset r2) by (unfold w32, two32 in *; lia).
    destruct (Hpre Hlt) as (b0 & Hb0 & Hc). exists b0. auto. }
  destruct (b =? 0x2e).
  { destruct (r_pkgEnd r3 <? w32 (r_offset r3 + w32 (aml_amlNameLen * 2))) eqn:EE.
    - inversion E; subst. apply goodsl_nil.
    - apply N.ltb_ge in EE.
      assert (Ew : w32 (r_offset r3 + w32 (aml_amlNameLen * 2)) = r_offset r3 + 8).
      { unfold w32, aml_amlNameLen, two32 in *. lia. }
      rewrite Ew in *. destruct (setOffset_adv r3 (r_offset r3 + 8) H3) as (A4 & E4); [lia|lia|].
      set (r5 := setOffset r3 (r_offset r3 + 8)) in *. clearbody r5.
      inversion E; subst. intros Hlen. cbn [s_len] in Hlen. exfalso. rewrite E4 in Hlen. unfold w32, two32 in *. lia. }
  destruct (b =? 0x2f).
  { destruct (rd1 r3 H3) as [(R' & Hge')|(sc & R' & Lt' & Hsc & A4)]; rewrite R' in E; cbn [bind] in E.
    { inversion E; subst. apply goodsl_nil. }
    set (r4 := set_offset_raw r3 (r_offset r3 + 1)) in *.
    assert (H4 : rok r4) by (eapply rok_adv; eauto).
    destruct (sc =? 0). { inversion E; subst. apply goodsl_nil. }
    assert (Hx : w8 (sc * aml_amlNameLen) < 256) by (unfold w8, two8; apply N.mod_lt; discriminate).
    assert (Hx4 : w8 (sc * aml_amlNameLen) mod 4 = 0) by (unfold w8, two8, aml_amlNameLen; lia).
    remember (w8 (sc * aml_amlNameLen)) as x eqn:Ex. clear Ex.
    assert (O4 : r_offset r4 <= r_len r4) by (destruct H4 as (_ & _ & P); exact P).
    assert (B4 : r_len r4 + 0x10000400 <= two32) by (destruct H4 as (_ & P & _); exact P).
    assert (Ew : w32 (r_offset r4 + x) = r_offset r4 + x) by (unfold w32, two32 in *; apply N.mod_small; lia).
    rewrite Ew in E.
    destruct (r_pkgEnd r4 <? r_offset r4 + x) eqn:EE.
    - inversion E; subst. apply goodsl_nil.
    - apply N.ltb_ge in EE. destruct (setOffset_adv r4 (r_offset r4 + x) H4) as (A5 & E5); [lia|lia|].
      assert (O4' : r_offset r4 = r_offset r3 + 1) by reflexivity.
      set (r5 := setOffset r4 (r_offset r4 + x)) in *. clearbody r5.
      inversion E; subst. intros Hlen. cbn [s_len s_ptr] in *. rewrite E5 in Hlen. exists (r_offset r).
      assert (Hlt : r_offset r < r_offset r2) by (unfold w32, two32 in *; lia).
      destruct (Hpre Hlt) as (b0 & Hb0 & Hc). exists b0. auto. }
  destruct (((b <? 0x41) || (0x5a <? b)) && negb (b =? 0x5f)) eqn:Eg. { inversion E; subst. apply goodsl_nil. }
  destruct (r_pkgEnd r3 <? w32 (r_offset r3 + w32 (aml_amlNameLen - 1))) eqn:EE.
  - inversion E; subst. apply goodsl_nil.
  - apply N.ltb_ge in EE.
    assert (Ew : w32 (r_offset r3 + w32 (aml_amlNameLen - 1)) = r_offset r3 + 3).
    { unfold w32, aml_amlNameLen, two32 in *. lia. }
    rewrite Ew in *. destruct (setOffset_adv r3 (r_offset r3 + 3) H3) as (A4 & E4); [lia|lia|].
    set (r5 := setOffset r3 (r_offset r3 + 3)) in *. clearbody r5.
    inversion E; subst. intros Hlen. cbn [s_len s_ptr] in *. rewrite E4 in Hlen. exists (r_offset r).
    assert (Heq : r_offset r2 = r_offset r) by (unfold w32, two32 in *; lia).
    rewrite Heq in Hbyte. exists b. split; [reflexivity|]. split; [exact Hbyte|left; apply lead_of_guard; exact Eg].
Qed.
