(** C13 proofs, part 2: every legal edit preserves [R] and performs the list operation. *)
From Coq Require Import NArith ZArith List Bool Lia.
From Coq Require Import ZifyBool ZifyN ZifyNat.
From FF Require Import Lib.Word Gen.Consts_aml_tree Aml.Stream Aml.Tree Aml.TreeSpec Aml.TreeProofs.
Import ListNotations.
Local Open Scope N_scope.

Ltac Zify.zify_post_hook ::= Z.div_mod_to_equations.

(** ---- tactics for running the monadic code on trees built from [tset] ---- *)
Ltac fld := cbn [o_opcode o_infoIndex o_tableHandle o_name o_index o_parent o_prev o_next o_first o_last
                 o_amlOffset o_pkgEnd o_value set_opcode set_name set_parent set_prev set_next set_first
                 set_last set_value init_object option_map] in *.

Ltac neq_solve := solve [assumption | apply not_eq_sym; assumption | congruence].

Ltac gsimp :=
  repeat rewrite get_tset;
  repeat match goal with
  | |- context [N.eqb ?x ?x] => rewrite (N.eqb_refl x)
  | |- context [N.eqb ?x ?y] =>
      let H := fresh in assert (H : x <> y) by neq_solve; rewrite (proj2 (N.eqb_neq x y) H); clear H
  end.

Ltac gsimp_in Hg :=
  repeat rewrite get_tset in Hg;
  repeat match type of Hg with
  | context [N.eqb ?x ?x] => rewrite (N.eqb_refl x) in Hg
  | context [N.eqb ?x ?y] =>
      let H := fresh in assert (H : x <> y) by neq_solve; rewrite (proj2 (N.eqb_neq x y) H) in Hg; clear H
  end.

Ltac getok :=
  gsimp; repeat match goal with H : get _ _ = Some _ |- _ => rewrite H end; cbn [option_map]; reflexivity.
Ltac xrd := erewrite rd_ok by getok; cbn [bind]; fld.
Ltac xwr := erewrite wr_ok by getok; cbn [bind]; fld.

(** ---- modifications that only touch link fields of live objects ---- *)
Definition link_only {V} (t T : ObjectTree V) : Prop :=
  length (t_pool T) = length (t_pool t) /\ t_free T = t_free t /\
  forall i o, get t i = Some o -> exists o', get T i = Some o' /\ o_index o' = o_index o /\
     o_opcode o' = o_opcode o /\ o_name o' = o_name o /\ (o_opcode o = opFreed -> o' = o).

Lemma link_only_refl {V} (t : ObjectTree V) : link_only t t.
Proof. repeat split; auto. intros i o H. exists o. auto. Qed.

Lemma link_only_trans {V} (t1 t2 t3 : ObjectTree V) : link_only t1 t2 -> link_only t2 t3 -> link_only t1 t3.
Proof.
  intros (L1 & F1 & H1) (L2 & F2 & H2). repeat split; try congruence.
  intros i o Hg. destruct (H1 _ _ Hg) as (o' & Hg' & E1 & E2 & E3 & E4).
  destruct (H2 _ _ Hg') as (o'' & Hg'' & E1' & E2' & E3' & E4').
  exists o''. repeat split; try congruence. intros Hf. rewrite E4' by congruence. auto.
Qed.

Definition link_setter {V} (f : Object V -> Object V) : Prop :=
  forall o, o_index (f o) = o_index o /\ o_opcode (f o) = o_opcode o /\ o_name (f o) = o_name o.

Lemma link_only_tset {V} (t : ObjectTree V) p f po :
  get t p = Some po -> o_opcode po <> opFreed -> link_setter f -> link_only t (tset t p f).
Proof.
  intros Hp Hl Hf. repeat split; [apply tset_len|].
  intros i o Hg. rewrite get_tset. destruct (N.eqb_spec i p) as [->|Hne].
  - rewrite Hg. cbn [option_map]. exists (f o). destruct (Hf o) as (E1 & E2 & E3).
    repeat split; auto. intros Hfr. congruence.
  - exists o. auto.
Qed.

Lemma ls_parent {V} v : @link_setter V (set_parent v). Proof. intros o; auto. Qed.
Lemma ls_prev {V} v : @link_setter V (set_prev v). Proof. intros o; auto. Qed.
Lemma ls_next {V} v : @link_setter V (set_next v). Proof. intros o; auto. Qed.
Lemma ls_first {V} v : @link_setter V (set_first v). Proof. intros o; auto. Qed.
Lemma ls_last {V} v : @link_setter V (set_last v). Proof. intros o; auto. Qed.
Global Hint Resolve ls_parent ls_prev ls_next ls_first ls_last : ls.

Lemma link_only_inv {V} (t T : ObjectTree V) i o' :
  link_only t T -> get T i = Some o' ->
  exists o, get t i = Some o /\ o_index o' = o_index o /\ o_opcode o' = o_opcode o /\ o_name o' = o_name o /\
            (o_opcode o = opFreed -> o' = o).
Proof.
  intros (L & F & H) Hg. pose proof (get_lt _ _ _ Hg) as Hlt. rewrite L in Hlt.
  destruct (get_some _ _ Hlt) as (o & Ho). destruct (H _ _ Ho) as (o2 & Hg2 & E).
  assert (o2 = o') by congruence. subst. eauto.
Qed.

(** the clauses of R that only depend on the shape *)
Lemma link_only_freed_same {V} (t T : ObjectTree V) x o :
  link_only t T -> get t x = Some o -> o_opcode o = opFreed -> get T x = get t x.
Proof.
  intros (L & F & H) Hg Hf. destruct (H _ _ Hg) as (o' & Hg' & _ & _ & _ & E). rewrite Hg', Hg, E; auto.
Qed.

Lemma link_only_flist {V} (t T : ObjectTree V) g :
  R t g -> link_only t T -> fchain T (t_free T) (g_free g) /\ NoDup (g_free g).
Proof.
  intros HR HL. destruct (R_flist _ _ HR) as [Hc Hn]. split; auto.
  pose proof HL as (L & F & H). rewrite F. apply fchain_frame with (t := t); [|exact Hc].
  intros x Hin. destruct (fchain_In _ _ _ _ Hc Hin) as (o & Hg & Hf).
  eapply link_only_freed_same; eauto.
Qed.

(** rebuilding R after a modification of link fields *)
Lemma R_surgery {V} (t T : ObjectTree V) g g' :
  R t g -> link_only t T ->
  g_free g' = g_free g -> length (g_kids g') = length (g_kids g) ->
  (forall i o, get t i = Some o -> o_opcode o = opFreed -> kids g' i = []) ->
  (forall i o, get T i = Some o -> o_opcode o <> opFreed ->
      o_first o = hd InvalidIndex (kids g' i) /\ o_last o = last (kids g' i) InvalidIndex /\
      chain T i InvalidIndex (kids g' i) InvalidIndex /\ NoDup (kids g' i)) ->
  (forall i o, get T i = Some o -> o_opcode o <> opFreed ->
      if o_parent o =? InvalidIndex then o_prev o = InvalidIndex /\ o_next o = InvalidIndex
      else In i (kids g' (o_parent o))) ->
  (forall i o, get T i = Some o -> o_opcode o <> opFreed -> exists k, Depth T i k) ->
  R T g'.
Proof.
  intros HR HL Hfree Hlen Hfk Hkids Hup Hacyc.
  pose proof HL as (L & F & H).
  constructor; auto.
  - rewrite Hlen, L. apply (R_len _ _ HR).
  - rewrite L. apply (R_bound _ _ HR).
  - intros i o' Hg. destruct (link_only_inv _ _ _ _ HL Hg) as (o & Ho & E1 & _).
    rewrite E1. eapply R_index; eauto.
  - intros i o' Hg Hf. destruct (link_only_inv _ _ _ _ HL Hg) as (o & Ho & E1 & E2 & _ & E3).
    rewrite E2 in Hf. split; [eapply Hfk; eauto|]. rewrite Hfree. eapply R_freed; eauto.
  - rewrite Hfree. eapply link_only_flist; eauto.
Qed.

(** parent links decide depth: if [T] has the same parents as [t] along the chain from [i] ... *)
Lemma Depth_transfer {V} (t T : ObjectTree V) (P : N -> Prop) :
  (forall j o, P j -> get t j = Some o -> o_opcode o <> opFreed ->
      (exists o', get T j = Some o' /\ o_opcode o' <> opFreed /\ o_parent o' = o_parent o) /\
      (o_parent o <> InvalidIndex -> P (o_parent o))) ->
  forall i k, Depth t i k -> P i -> Depth T i k.
Proof.
  intros H i k Hd. induction Hd as [i o Hg Hl Hp | i o k Hg Hl Hp Hd IH]; intros HP.
  - destruct (H _ _ HP Hg Hl) as ((o' & Hg' & Hl' & Hp') & _). eapply Depth_root; eauto. congruence.
  - destruct (H _ _ HP Hg Hl) as ((o' & Hg' & Hl' & Hp') & HPp). eapply Depth_step; eauto; rewrite Hp'; auto.
Qed.

(** ---- append ---- *)
Section Append.
Context {V : Type} (t : ObjectTree V) (g : ghost) (HR : R t g).
Variables (o a : N) (oo ao : Object V).
Hypotheses (Ho : get t o = Some oo) (Hol : o_opcode oo <> opFreed)
           (Ha : get t a = Some ao) (Hal : o_opcode ao <> opFreed)
           (Hap : o_parent ao = InvalidIndex) (Hnd : ~ desc g a o).

Let Hoa : o <> a.
Proof. intros ->. apply Hnd. constructor. Qed.

Lemma desc_parent_chain x xo : get t x = Some xo -> o_opcode xo <> opFreed -> o_parent xo <> InvalidIndex ->
  desc g a (o_parent xo) -> desc g a x.
Proof.
  intros Hx Hxl Hxp Hd. eapply desc_step; eauto. eapply R_parent_live; eauto.
Qed.

(** objects outside the subtree of [a] keep their depth when [a] gets a parent *)
Lemma Depth_outside (T : ObjectTree V) :
  (forall j oj, j <> a -> get t j = Some oj ->
     exists oj', get T j = Some oj' /\ o_opcode oj' = o_opcode oj /\ o_parent oj' = o_parent oj) ->
  forall i k, Depth t i k -> ~ desc g a i -> Depth T i k.
Proof.
  intros HT. apply Depth_transfer with (P := fun j => ~ desc g a j).
  intros j oj HP Hg Hl. split.
  - assert (j <> a) by (intros ->; apply HP; constructor).
    destruct (HT _ _ H Hg) as (oj' & Hg' & E1 & E2). exists oj'. repeat split; congruence.
  - intros Hp Hd. apply HP. eapply desc_parent_chain; eauto.
Qed.

(** every object has a depth again after [a] has been hung below [o] *)
Lemma Depth_after_attach (T : ObjectTree V) :
  (forall j oj, j <> a -> get t j = Some oj ->
     exists oj', get T j = Some oj' /\ o_opcode oj' = o_opcode oj /\ o_parent oj' = o_parent oj) ->
  (exists ao', get T a = Some ao' /\ o_opcode ao' <> opFreed /\ o_parent ao' = o) ->
  forall i k, Depth t i k -> exists k', Depth T i k'.
Proof.
  intros HT (ao' & Ha' & Hal' & Hap').
  destruct (R_acyc _ _ HR _ _ Ho Hol) as (ko & Hdo).
  pose proof (Depth_outside T HT _ _ Hdo Hnd) as Hdo'.
  induction 1 as [i oi Hg Hl Hp | i oi k Hg Hl Hp Hd IH].
  - destruct (N.eq_dec i a) as [->|Hne].
    + exists (S ko). eapply Depth_step with (o := ao');
        [exact Ha' | exact Hal' | rewrite Hap'; eapply (R_pos_not_Inv t g HR); eauto | rewrite Hap'; exact Hdo'].
    + destruct (HT _ _ Hne Hg) as (oi' & Hg' & E1 & E2). exists 0%nat. eapply Depth_root with (o := oi'); [exact Hg' | congruence | congruence].
  - assert (Hne : i <> a) by (intros ->; congruence).
    destruct IH as (k' & Hk'). destruct (HT _ _ Hne Hg) as (oi' & Hg' & E1 & E2).
    exists (S k'). eapply Depth_step with (o := oi'); [exact Hg' | congruence | congruence | rewrite E2; exact Hk'].
Qed.
End Append.

Lemma last_In {A} (l : list A) x d : In (last (x :: l) d) (x :: l).
Proof.
  revert x; induction l as [|y l IH]; intros x; [left; reflexivity|].
  right. change (In (last (y :: l) d) (y :: l)). apply IH.
Qed.

(** ---- relinking the ends of a chain ---- *)
Lemma chain_relink {V} (t T : ObjectTree V) p prev prev' l nxt nxt' :
  NoDup l -> chain t p prev l nxt ->
  (forall c oc, In c l -> get t c = Some oc ->
      exists oc', get T c = Some oc' /\ o_opcode oc' = o_opcode oc /\ o_parent oc' = o_parent oc /\
        o_prev oc' = (if hd InvalidIndex l =? c then prev' else o_prev oc) /\
        o_next oc' = (if last l InvalidIndex =? c then nxt' else o_next oc)) ->
  chain T p prev' l nxt'.
Proof.
  revert prev prev'. induction l as [|c l IH]; intros prev prev' Hnd Hc H; [exact I|].
  cbn [chain] in *. destruct Hc as [(oc & Hg & Hl & Hp & Hpv & Hn) Hc].
  inversion Hnd as [|? ? Hnin Hnd']; subst.
  destruct (H c oc (or_introl eq_refl) Hg) as (oc' & Hg' & E1 & E2 & E3 & E4).
  cbn [hd] in E3. rewrite N.eqb_refl in E3.
  split.
  - exists oc'. repeat split; try congruence.
    destruct l as [|c' l'].
    + cbn [hd last] in *. rewrite N.eqb_refl in E4. exact E4.
    + change (last (c :: c' :: l') InvalidIndex) with (last (c' :: l') InvalidIndex) in E4.
      assert (Hne : last (c' :: l') InvalidIndex <> c).
      { intros E. apply Hnin. rewrite <- E. apply last_In. }
      apply N.eqb_neq in Hne. rewrite Hne in E4. cbn [hd] in *. congruence.
  - destruct l as [|c' l']; [exact I|].
    apply (IH c c Hnd' Hc). intros x ox Hin Hgx.
    destruct (H x ox (or_intror Hin) Hgx) as (ox' & Hgx' & F1 & F2 & F3 & F4).
    exists ox'. split; [exact Hgx'|]. split; [exact F1|]. split; [exact F2|]. split; [|exact F4].
    cbn [hd] in *. assert (Hxc : c <> x) by (intros ->; contradiction).
    apply N.eqb_neq in Hxc. rewrite Hxc in F3.
    destruct (N.eqb_spec c' x) as [->|Hne]; [|exact F3].
    (* the head of the rest keeps its prev = c *)
    destruct Hc as [(oc2 & Hg2 & _ & _ & Hpv2 & _) _]. congruence.
Qed.

Lemma chain_relink_tail {V} (t T : ObjectTree V) p prev l nxt nxt' :
  NoDup l -> chain t p prev l nxt ->
  (forall c oc, In c l -> get t c = Some oc ->
      exists oc', get T c = Some oc' /\ o_opcode oc' = o_opcode oc /\ o_parent oc' = o_parent oc /\
        o_prev oc' = o_prev oc /\ o_next oc' = (if last l InvalidIndex =? c then nxt' else o_next oc)) ->
  chain T p prev l nxt'.
Proof.
  intros Hnd Hc H. eapply chain_relink with (prev' := prev); eauto.
  intros c oc Hin Hg. destruct (H c oc Hin Hg) as (oc' & Hg' & E1 & E2 & E3 & E4).
  exists oc'. repeat split; auto.
  destruct (N.eqb_spec (hd InvalidIndex l) c) as [E|]; auto.
  destruct l as [|c0 l0]; [contradiction|]. cbn [hd] in E. subst c0.
  destruct Hc as [(oc2 & Hg2 & _ & _ & Hpv & _) _]. congruence.
Qed.

Lemma chain_last_next {V} (t : ObjectTree V) p nxt l :
  forall prev, chain t p prev l nxt -> l <> [] ->
  exists oc, get t (last l InvalidIndex) = Some oc /\ o_next oc = nxt.
Proof.
  induction l as [|c l IH]; intros prev Hc Hne; [congruence|].
  destruct l as [|c' l'].
  - destruct Hc as [(oc & Hg & _ & _ & _ & Hn) _]. exists oc. split; auto.
  - destruct Hc as [_ Hc]. change (last (c :: c' :: l') InvalidIndex) with (last (c' :: l') InvalidIndex).
    eapply IH; eauto. discriminate.
Qed.

Lemma chain_relink_head {V} (t T : ObjectTree V) p prev prev' l nxt :
  NoDup l -> chain t p prev l nxt ->
  (forall c oc, In c l -> get t c = Some oc ->
      exists oc', get T c = Some oc' /\ o_opcode oc' = o_opcode oc /\ o_parent oc' = o_parent oc /\
        o_prev oc' = (if hd InvalidIndex l =? c then prev' else o_prev oc) /\ o_next oc' = o_next oc) ->
  chain T p prev' l nxt.
Proof.
  intros Hnd Hc H. eapply chain_relink with (nxt' := nxt); eauto.
  intros c oc Hin Hg. destruct (H c oc Hin Hg) as (oc' & Hg' & E1 & E2 & E3 & E4).
  exists oc'. repeat split; auto.
  destruct (N.eqb_spec (last l InvalidIndex) c) as [E|]; auto.
  rewrite E4. destruct (chain_last_next _ _ _ _ _ Hc) as (oc2 & Hg2 & Hn2).
  { intros ->. contradiction. }
  rewrite E in Hg2. congruence.
Qed.

(** ---- small list facts ---- *)
Lemma hd_app_cons {A} (l1 l2 : list A) x d : hd d (l1 ++ x :: l2) = hd x l1.
Proof. destruct l1; reflexivity. Qed.

Lemma last_cons_default {A} (l : list A) x d : last (x :: l) d = last l x.
Proof.
  revert x d; induction l as [|y l IH]; intros x d; [reflexivity|].
  change (last (x :: y :: l) d) with (last (y :: l) d). rewrite (IH y d), (IH y x). reflexivity.
Qed.

Lemma last_app_cons {A} (l1 l2 : list A) x d : last (l1 ++ x :: l2) d = last l2 x.
Proof.
  induction l1 as [|y l1 IH]; cbn [app]; [apply last_cons_default|].
  destruct l1; cbn [app] in *; exact IH.
Qed.

Lemma hd_neq (l : list N) c d : c <> d -> ~ In c l -> hd d l <> c.
Proof. destruct l; cbn; intuition congruence. Qed.

Lemma last_neq (l : list N) c d : c <> d -> ~ In c l -> last l d <> c.
Proof.
  intros Hd Hn E. destruct l as [|x l]; [cbn in E; congruence|].
  apply Hn. rewrite <- E. apply last_In.
Qed.

From Coq Require Import Permutation.
Lemma NoDup_insert (l1 l2 : list N) a : NoDup (l1 ++ l2) -> ~ In a (l1 ++ l2) -> NoDup (l1 ++ a :: l2).
Proof.
  intros H Hn. eapply Permutation_NoDup; [apply Permutation_middle|]. constructor; auto.
Qed.

Lemma NoDup_app_l (l1 l2 : list N) : NoDup (l1 ++ l2) -> NoDup l1.
Proof.
  induction l1 as [|x l1 IH]; cbn [app]; intros H; [constructor|].
  inversion H; subst. constructor; auto. intros Hin. apply H2. apply in_or_app; auto.
Qed.

Lemma NoDup_app_r (l1 l2 : list N) : NoDup (l1 ++ l2) -> NoDup l2.
Proof. induction l1 as [|x l1 IH]; cbn [app]; intros H; auto. inversion H; auto. Qed.

Lemma NoDup_app_disjoint (l1 l2 : list N) x : NoDup (l1 ++ l2) -> In x l1 -> In x l2 -> False.
Proof.
  induction l1 as [|y l1 IH]; cbn [app]; intros H H1 H2; [contradiction|].
  inversion H; subst. destruct H1 as [->|H1]; [apply H4; apply in_or_app; auto|eauto].
Qed.

(** ---- inserting a detached object into a child list ---- *)
Section Insert.
Context {V : Type} (t T : ObjectTree V) (g : ghost) (HR : R t g).
Variables (o a : N) (oo ao : Object V) (l1 l2 : list N).
Hypotheses (Ho : get t o = Some oo) (Hol : o_opcode oo <> opFreed)
           (Ha : get t a = Some ao) (Hal : o_opcode ao <> opFreed)
           (Hap : o_parent ao = InvalidIndex) (Hnd : ~ desc g a o)
           (Hl : kids g o = l1 ++ l2)
           (HL : link_only t T).
Hypothesis Ha' : exists ao', get T a = Some ao' /\ o_parent ao' = o /\ o_prev ao' = last l1 InvalidIndex /\
                   o_next ao' = hd InvalidIndex l2 /\ o_first ao' = o_first ao /\ o_last ao' = o_last ao.
Hypothesis Ho' : exists oo', get T o = Some oo' /\ o_parent oo' = o_parent oo /\ o_prev oo' = o_prev oo /\
                   o_next oo' = o_next oo /\ o_first oo' = hd a l1 /\ o_last oo' = last l2 a.
Hypothesis Hc' : forall c oc, c <> a -> c <> o -> get t c = Some oc ->
   exists oc', get T c = Some oc' /\ o_parent oc' = o_parent oc /\ o_first oc' = o_first oc /\ o_last oc' = o_last oc /\
     o_prev oc' = (if hd InvalidIndex l2 =? c then a else o_prev oc) /\
     o_next oc' = (if last l1 InvalidIndex =? c then a else o_next oc).

Let Hoa : o <> a.
Proof. intros E. apply Hnd. rewrite E. constructor. Qed.

Let Holt : o < N.of_nat (length (g_kids g)).
Proof. rewrite (R_len _ _ HR). eapply get_lt; eauto. Qed.

Let Hanin : forall p, ~ In a (kids g p).
Proof. intros p. eapply R_root_not_child; eauto. Qed.

Let Honin : ~ In o (l1 ++ l2).
Proof. rewrite <- Hl. intros Hin. eapply (R_child_neq_parent t g HR); eauto. Qed.

Let Hvalid : forall c oc, get t c = Some oc -> c <> InvalidIndex.
Proof. intros. eapply R_pos_not_Inv; eauto. Qed.

(** the unified view of every object other than [a] *)
Lemma ins_other c oc : c <> a -> get t c = Some oc ->
  exists oc', get T c = Some oc' /\ o_opcode oc' = o_opcode oc /\ o_parent oc' = o_parent oc /\
     o_prev oc' = (if hd InvalidIndex l2 =? c then a else o_prev oc) /\
     o_next oc' = (if last l1 InvalidIndex =? c then a else o_next oc).
Proof.
  intros Hca Hg. destruct HL as (_ & _ & HLg). destruct (HLg _ _ Hg) as (oc1 & Hg1 & _ & Eop & _).
  destruct (N.eq_dec c o) as [->|Hco].
  - destruct Ho' as (oo' & Hgo & E1 & E2 & E3 & _). assert (oc = oo) by congruence. subst oc.
    exists oo'. split; auto. split; [congruence|]. split; auto.
    assert (H1 : hd InvalidIndex l2 <> o).
    { apply hd_neq; [eapply Hvalid; eauto|]. intros Hin. apply Honin. apply in_or_app; auto. }
    assert (H2 : last l1 InvalidIndex <> o).
    { apply last_neq; [eapply Hvalid; eauto|]. intros Hin. apply Honin. apply in_or_app; auto. }
    apply N.eqb_neq in H1, H2. rewrite H1, H2. auto.
  - destruct (Hc' _ _ Hca Hco Hg) as (oc' & Hg' & E1 & E2 & E3 & E4 & E5).
    exists oc'. split; auto. split; [congruence|]. auto.
Qed.

(** objects that are not in the child list of [o] keep their sibling links *)
Lemma ins_frame c oc : c <> a -> ~ In c (l1 ++ l2) -> get t c = Some oc ->
  exists oc', get T c = Some oc' /\ same_links oc oc'.
Proof.
  intros Hca Hnin Hg. destruct (ins_other _ _ Hca Hg) as (oc' & Hg' & E1 & E2 & E3 & E4).
  exists oc'. split; auto.
  assert (H1 : hd InvalidIndex l2 <> c).
  { apply hd_neq; [eapply Hvalid; eauto|]. intros Hin. apply Hnin. apply in_or_app; auto. }
  assert (H2 : last l1 InvalidIndex <> c).
  { apply last_neq; [eapply Hvalid; eauto|]. intros Hin. apply Hnin. apply in_or_app; auto. }
  apply N.eqb_neq in H1, H2. rewrite H1 in E3. rewrite H2 in E4. repeat split; auto.
Qed.

Lemma insert_R : R T (set_kids g o (l1 ++ a :: l2)).
Proof.
  destruct (R_kids _ _ HR _ _ Ho Hol) as (Hfirst & Hlast & Hchain & Hnodup).
  rewrite Hl in Hfirst, Hlast, Hchain, Hnodup.
  apply R_surgery with (t := t) (g := g); auto.
  - apply set_kids_len.
  - intros i oi Hg Hf. rewrite kids_set_kids by auto.
    destruct (N.eqb_spec i o) as [->|Hne]; [congruence|]. eapply R_freed; eauto.
  - (* parent -> children *)
    intros i oi' Hg Hlv. rewrite kids_set_kids by auto.
    destruct (N.eqb_spec i o) as [->|Hne].
    + destruct Ho' as (oo' & Hgo & E1 & E2 & E3 & E4 & E5). assert (oi' = oo') by congruence. subst oi'.
      rewrite hd_app_cons, last_app_cons. split; auto. split; auto. split.
      * apply chain_app in Hchain. destruct Hchain as [Hc1 Hc2].
        apply chain_app. cbn [hd chain]. split; [|split].
        -- eapply chain_relink_tail with (nxt' := a); [| exact Hc1 |].
           { eapply NoDup_app_l; eauto. }
           intros c oc Hin Hgc.
           assert (Hca : c <> a) by (intros ->; apply (Hanin o); rewrite Hl; apply in_or_app; auto).
           destruct (ins_other _ _ Hca Hgc) as (oc' & Hg' & F1 & F2 & F3 & F4).
           exists oc'. repeat split; auto.
           assert (H1 : hd InvalidIndex l2 <> c).
           { apply hd_neq; [eapply Hvalid; eauto|]. intros Hin2.
             eapply NoDup_app_disjoint; eauto. }
           apply N.eqb_neq in H1. rewrite H1 in F3. exact F3.
        -- destruct Ha' as (ao' & Hga & G1 & G2 & G3 & _).
           destruct HL as (_ & _ & HLg). destruct (HLg _ _ Ha) as (ao2 & Hga2 & _ & Eop & _).
           exists ao'. repeat split; auto. congruence.
        -- eapply chain_relink_head with (prev' := a); [| exact Hc2 |].
           { eapply NoDup_app_r; eauto. }
           intros c oc Hin Hgc.
           assert (Hca : c <> a) by (intros ->; apply (Hanin o); rewrite Hl; apply in_or_app; auto).
           destruct (ins_other _ _ Hca Hgc) as (oc' & Hg' & F1 & F2 & F3 & F4).
           exists oc'. repeat split; auto.
           assert (H2 : last l1 InvalidIndex <> c).
           { apply last_neq; [eapply Hvalid; eauto|]. intros Hin1.
             eapply NoDup_app_disjoint; eauto. }
           apply N.eqb_neq in H2. rewrite H2 in F4. exact F4.
      * apply NoDup_insert; auto. rewrite <- Hl. apply Hanin.
    + destruct (link_only_inv _ _ _ _ HL Hg) as (oi & Hgi & _ & Eop & _).
      assert (Hlv0 : o_opcode oi <> opFreed) by congruence.
      destruct (R_kids _ _ HR _ _ Hgi Hlv0) as (Hf & Hla & Hch & Hnd').
      assert (Hfl : o_first oi' = o_first oi /\ o_last oi' = o_last oi).
      { destruct (N.eq_dec i a) as [->|Hia].
        - destruct Ha' as (ao' & Hga & _ & _ & _ & G4 & G5). assert (oi = ao) by congruence.
          assert (oi' = ao') by congruence. subst. auto.
        - destruct (Hc' _ _ Hia Hne Hgi) as (oc' & Hg' & _ & G2 & G3 & _). assert (oc' = oi') by congruence. subst. auto. }
      destruct Hfl as [-> ->]. split; auto. split; auto. split; auto.
      eapply chain_frame; [|exact Hch]. intros c oc Hin Hgc.
      apply ins_frame; auto.
      * intros ->. eapply Hanin; eauto.
      * rewrite <- Hl. intros Hin2. apply Hne. eapply (R_parent_unique t g HR); eauto.
  - (* child -> parent *)
    intros i oi' Hg Hlv.
    destruct (N.eq_dec i a) as [->|Hia].
    + destruct Ha' as (ao' & Hga & G1 & _). assert (oi' = ao') by congruence. subst oi'. rewrite G1.
      assert (Hoi : o <> InvalidIndex) by (eapply Hvalid; eauto).
      apply N.eqb_neq in Hoi. rewrite Hoi. rewrite kids_set_kids, N.eqb_refl by auto.
      apply in_or_app. right. left. reflexivity.
    + destruct (link_only_inv _ _ _ _ HL Hg) as (oi & Hgi & _ & Eop & _).
      assert (Hlv0 : o_opcode oi <> opFreed) by congruence.
      destruct (ins_other _ _ Hia Hgi) as (oc' & Hg' & F1 & F2 & F3 & F4).
      assert (oc' = oi') by congruence. subst oc'. rewrite F2.
      pose proof (R_up _ _ HR _ _ Hgi Hlv0) as Hup.
      destruct (N.eqb_spec (o_parent oi) InvalidIndex) as [Ep|Ep].
      * destruct Hup as [Hpv Hnx].
        assert (Hnin : ~ In i (l1 ++ l2)).
        { rewrite <- Hl. eapply R_root_not_child; eauto. }
        assert (H1 : hd InvalidIndex l2 <> i).
        { apply hd_neq; [eapply Hvalid; eauto|]. intros Hin. apply Hnin. apply in_or_app; auto. }
        assert (H2 : last l1 InvalidIndex <> i).
        { apply last_neq; [eapply Hvalid; eauto|]. intros Hin. apply Hnin. apply in_or_app; auto. }
        apply N.eqb_neq in H1, H2. rewrite H1 in F3. rewrite H2 in F4. split; congruence.
      * rewrite kids_set_kids by auto. destruct (N.eqb_spec (o_parent oi) o) as [Epo|Epo]; auto.
        rewrite Epo, Hl in Hup. apply in_app_or in Hup. apply in_or_app. destruct Hup; auto. right; right; auto.
  - (* acyclic *)
    intros i oi' Hg Hlv.
    destruct (link_only_inv _ _ _ _ HL Hg) as (oi & Hgi & _ & Eop & _).
    assert (Hlv0 : o_opcode oi <> opFreed) by congruence.
    destruct (R_acyc _ _ HR _ _ Hgi Hlv0) as (k & Hk).
    eapply (Depth_after_attach t g HR o a oo ao); eauto.
    + intros j oj Hja Hgj. destruct (ins_other _ _ Hja Hgj) as (oj' & Hgj' & F1 & F2 & _). eauto.
    + destruct Ha' as (ao' & Hga & G1 & _).
      destruct HL as (_ & _ & HLg). destruct (HLg _ _ Ha) as (ao2 & Hga2 & _ & Eop2 & _).
      exists ao'. repeat split; auto. congruence.
Qed.
End Insert.

Ltac lo :=
  repeat (eapply link_only_trans; [| eapply link_only_tset; [getok | fld; assumption | auto with ls]]);
  apply link_only_refl.

Ltac inv_false c Hv :=
  let H := fresh in assert (H : InvalidIndex <> c) by (apply not_eq_sym; eapply Hv; eauto);
  apply N.eqb_neq in H; rewrite H.

Lemma append_R {V} (t : ObjectTree V) g o a :
  R t g -> legal g (OpAppend o a) ->
  exists t', append t o a = Ok t' /\ R t' (astep g (OpAppend o a)).
Proof.
  intros HR (Hlo & Hla & Hroot & Hnd).
  apply (R_live_glive t g HR) in Hlo, Hla.
  destruct Hlo as (oo & Ho & Hol). destruct Hla as (ao & Ha & Hal).
  assert (Hoa : o <> a) by (intros ->; apply Hnd; constructor).
  pose proof (proj1 (R_groot t g HR a ao Ha Hal) Hroot) as Hap.
  pose proof (R_up _ _ HR _ _ Ha Hal) as Haup. rewrite Hap, N.eqb_refl in Haup. destruct Haup as [Hapv Hanx].
  pose proof (R_index _ _ HR _ _ Ho) as Hio. pose proof (R_index _ _ HR _ _ Ha) as Hia.
  destruct (R_kids _ _ HR _ _ Ho Hol) as (Hfirst & Hlast & Hchain & Hnodup).
  assert (Hvalid : forall c oc, get t c = Some oc -> c <> InvalidIndex) by (intros; eapply R_pos_not_Inv; eauto).
  cbn [astep].
  destruct (list_last_case (kids g o)) as [El | (l' & z & El)].
  - (* first child *)
    rewrite El in *. cbn [hd last] in *.
    unfold append. xrd. xwr. xrd. xrd. rewrite Hlast, N.eqb_refl. xwr. erewrite wr_ok by getok.
    rewrite Hio, Hia.
    eexists; split; [reflexivity|].
    change ([] ++ [a]) with ([] ++ a :: @nil N).
    eapply insert_R with (oo := oo) (ao := ao) (l1 := []) (l2 := []); eauto.
    + lo.
    + eexists. split; [getok|]. fld. cbn [hd last]. auto.
    + eexists. split; [getok|]. fld. cbn [hd last]. auto.
    + intros c oc Hca Hco Hg. exists oc. split; [getok|]. cbn [hd last].
      inv_false c Hvalid. auto.
  - (* after the last child z *)
    rewrite El in *. rewrite last_last in Hlast.
    assert (Hzin : In z (kids g o)) by (rewrite El; apply in_or_app; right; left; reflexivity).
    destruct (R_In_kids t g HR _ _ Hzin) as (_ & zo & Hz & Hzl & Hzp).
    assert (Hza : z <> a).
    { intros E. rewrite E in Hzin. exact (R_root_not_child t g HR a ao o Ha Hap Hzin). }
    assert (Hzo : z <> o) by (exact (R_child_neq_parent t g HR o z Hzin)).
    pose proof (R_index _ _ HR _ _ Hz) as Hiz.
    assert (Hzv : z <> InvalidIndex) by eauto.
    unfold append. xrd. xwr. xrd. xrd. rewrite Hlast.
    apply N.eqb_neq in Hzv. rewrite Hzv. apply N.eqb_neq in Hzv.
    erewrite ObjectAt_deref_live; [| rewrite !tset_len; apply (R_bound _ _ HR) | getok | fld; auto ].
    cbn [bind]. xwr. xrd. xwr. xwr. erewrite wr_ok by getok.
    rewrite Hio, Hia, Hiz.
    eexists; split; [reflexivity|].
    change (l' ++ [z]) with (l' ++ z :: nil) at 1.
    replace ((l' ++ [z]) ++ [a]) with ((l' ++ [z]) ++ a :: nil) by reflexivity.
    eapply insert_R with (oo := oo) (ao := ao) (l1 := l' ++ [z]) (l2 := []); eauto.
    + rewrite El, app_nil_r. reflexivity.
    + lo.
    + eexists. split; [getok|]. fld. cbn [hd]. rewrite last_last. auto.
    + eexists. split; [getok|]. fld. cbn [last]. rewrite Hfirst. split; auto. split; auto. split; auto.
      split; auto. destruct l'; reflexivity.
    + intros c oc Hca Hco Hg. rewrite last_last. cbn [hd]. inv_false c Hvalid.
      destruct (N.eqb_spec z c) as [<-|Hzc].
      * eexists. split; [getok|]. fld. auto.
      * exists oc. split; [getok|]. auto.
Qed.

Lemma insert_after_split n a l1 l2 : ~ In n l1 -> insert_after n a (l1 ++ n :: l2) = l1 ++ n :: a :: l2.
Proof.
  induction l1 as [|x l1 IH]; intros Hn; cbn [app insert_after].
  - rewrite N.eqb_refl. reflexivity.
  - destruct (N.eqb_spec x n) as [->|Hne]; [exfalso; apply Hn; left; reflexivity|].
    rewrite IH; auto. intros H; apply Hn; right; auto.
Qed.

Lemma chain_mid {V} (t : ObjectTree V) p l1 c l2 :
  chain t p InvalidIndex (l1 ++ c :: l2) InvalidIndex -> node t c p (last l1 InvalidIndex) (hd InvalidIndex l2).
Proof. intros H. apply chain_app in H. destruct H as [_ H]. destruct H as [H _]. exact H. Qed.

Lemma appendAfter_R {V} (t : ObjectTree V) g o a n :
  R t g -> legal g (OpAppendAfter o a n) ->
  exists t', appendAfter t o a n = Ok t' /\ R t' (astep g (OpAppendAfter o a n)).
Proof.
  intros HR (Hlo & Hla & Hroot & Hnd & Hnin).
  pose proof Hlo as Hlo'. pose proof Hla as Hla'.
  apply (R_live_glive t g HR) in Hlo, Hla.
  destruct Hlo as (oo & Ho & Hol). destruct Hla as (ao & Ha & Hal).
  assert (Hoa : o <> a) by (intros ->; apply Hnd; constructor).
  pose proof (proj1 (R_groot t g HR a ao Ha Hal) Hroot) as Hap.
  pose proof (R_up _ _ HR _ _ Ha Hal) as Haup. rewrite Hap, N.eqb_refl in Haup. destruct Haup as [Hapv Hanx].
  pose proof (R_index _ _ HR _ _ Ho) as Hio. pose proof (R_index _ _ HR _ _ Ha) as Hia.
  destruct (R_kids _ _ HR _ _ Ho Hol) as (Hfirst & Hlast & Hchain & Hnodup).
  assert (Hvalid : forall c oc, get t c = Some oc -> c <> InvalidIndex) by (intros; eapply R_pos_not_Inv; eauto).
  destruct (in_split _ _ Hnin) as (l1 & l2 & El).
  assert (Hn1 : ~ In n l1).
  { rewrite El in Hnodup. apply NoDup_remove_2 in Hnodup. intros H. apply Hnodup. apply in_or_app; auto. }
  destruct (R_In_kids t g HR _ _ Hnin) as (_ & no & Hn & Hnl & Hnp).
  assert (Hna : n <> a).
  { intros E. rewrite E in Hnin. exact (R_root_not_child t g HR a ao o Ha Hap Hnin). }
  assert (Hno : n <> o) by (exact (R_child_neq_parent t g HR o n Hnin)).
  pose proof (R_index _ _ HR _ _ Hn) as Hin.
  rewrite El in Hchain. pose proof (chain_mid _ _ _ _ _ Hchain) as (no' & Hn' & _ & _ & Hnpv & Hnnx).
  assert (no' = no) by congruence. subst no'.
  cbn [astep]. rewrite El, insert_after_split by auto.
  destruct l2 as [|m l2].
  - (* nextTo is the last child: plain append *)
    cbn [hd] in Hnnx. unfold appendAfter. xrd. rewrite Hnnx, N.eqb_refl.
    destruct (append_R t g o a HR) as (t' & Ht' & HR'); [cbn [legal]; auto|].
    exists t'. split; auto. cbn [astep] in HR'. rewrite El in HR'.
    rewrite <- app_assoc in HR'. exact HR'.
  - cbn [hd] in Hnnx.
    assert (Hmin : In m (kids g o)) by (rewrite El; apply in_or_app; right; right; left; reflexivity).
    destruct (R_In_kids t g HR _ _ Hmin) as (_ & mo & Hm & Hml & Hmp).
    assert (Hma : m <> a).
    { intros E. rewrite E in Hmin. exact (R_root_not_child t g HR a ao o Ha Hap Hmin). }
    assert (Hmo : m <> o) by (exact (R_child_neq_parent t g HR o m Hmin)).
    assert (Hmn : m <> n).
    { intros E. rewrite El in Hnodup. apply NoDup_remove_2 in Hnodup. apply Hnodup.
      apply in_or_app. right. left. auto. }
    assert (Hmv : m <> InvalidIndex) by eauto.
    unfold appendAfter. xrd. rewrite Hnnx.
    apply N.eqb_neq in Hmv. rewrite Hmv. apply N.eqb_neq in Hmv.
    xrd. xwr. xrd. xwr. xrd. xwr. xrd. xrd.
    rewrite Hnnx.
    erewrite ObjectAt_deref_live; [| rewrite !tset_len; apply (R_bound _ _ HR) | getok | fld; auto ].
    cbn [bind]. xwr. xrd. erewrite wr_ok by getok.
    rewrite Hio, Hia, Hin.
    eexists; split; [reflexivity|].
    replace (l1 ++ n :: a :: m :: l2) with ((l1 ++ [n]) ++ a :: (m :: l2)) by (rewrite <- app_assoc; reflexivity).
    eapply insert_R with (oo := oo) (ao := ao) (l1 := l1 ++ [n]) (l2 := m :: l2); eauto.
    + rewrite El, <- app_assoc. reflexivity.
    + lo.
    + eexists. split; [getok|]. fld. cbn [hd]. rewrite last_last. auto.
    + eexists. split; [getok|]. split; auto. split; auto. split; auto.
      rewrite Hfirst, Hlast, El. split.
      * destruct l1; reflexivity.
      * rewrite last_app_cons. change (last (m :: l2) n = last (m :: l2) a). apply last_cons_irrel.
    + intros c oc Hca Hco Hg. rewrite last_last. cbn [hd].
      destruct (N.eq_dec c m) as [->|Hcm]; [|destruct (N.eq_dec c n) as [->|Hcn]].
      * rewrite N.eqb_refl. assert (H1 : (n =? m) = false) by (apply N.eqb_neq; auto). rewrite H1.
        eexists. split; [getok|]. fld. auto.
      * rewrite N.eqb_refl. assert (H1 : (m =? n) = false) by (apply N.eqb_neq; auto). rewrite H1.
        eexists. split; [getok|]. fld. auto.
      * assert (H1 : m <> c) by auto. assert (H2 : n <> c) by auto.
        apply N.eqb_neq in H1, H2. rewrite H1, H2.
        exists oc. split; [getok|]. auto.
Qed.

(** ---- removing a child from its list ---- *)
Lemma Depth_after_detach {V} (t T : ObjectTree V) a :
  (forall j oj, j <> a -> get t j = Some oj ->
     exists oj', get T j = Some oj' /\ o_opcode oj' = o_opcode oj /\ o_parent oj' = o_parent oj) ->
  (forall ao, get t a = Some ao -> o_opcode ao <> opFreed ->
     exists ao', get T a = Some ao' /\ o_opcode ao' <> opFreed /\ o_parent ao' = InvalidIndex) ->
  forall i k, Depth t i k -> exists k', Depth T i k'.
Proof.
  intros HT HA. induction 1 as [i oi Hg Hl Hp | i oi k Hg Hl Hp Hd IH].
  - destruct (N.eq_dec i a) as [->|Hne].
    + destruct (HA _ Hg Hl) as (ao' & Hg' & Hl' & Hp'). exists 0%nat. eapply Depth_root; eauto.
    + destruct (HT _ _ Hne Hg) as (oi' & Hg' & E1 & E2). exists 0%nat.
      eapply Depth_root with (o := oi'); [exact Hg' | congruence | congruence].
  - destruct (N.eq_dec i a) as [->|Hne].
    + destruct (HA _ Hg Hl) as (ao' & Hg' & Hl' & Hp'). exists 0%nat. eapply Depth_root; eauto.
    + destruct IH as (k' & Hk'). destruct (HT _ _ Hne Hg) as (oi' & Hg' & E1 & E2).
      exists (S k'). eapply Depth_step with (o := oi'); [exact Hg' | congruence | congruence | rewrite E2; exact Hk'].
Qed.

Section Remove.
Context {V : Type} (t T : ObjectTree V) (g : ghost) (HR : R t g).
Variables (o a : N) (oo ao : Object V) (l1 l2 : list N).
Hypotheses (Ho : get t o = Some oo) (Hol : o_opcode oo <> opFreed)
           (Ha : get t a = Some ao) (Hal : o_opcode ao <> opFreed)
           (Hl : kids g o = l1 ++ a :: l2)
           (HL : link_only t T).
Hypothesis Ha' : exists ao', get T a = Some ao' /\ o_parent ao' = InvalidIndex /\ o_prev ao' = InvalidIndex /\
                   o_next ao' = InvalidIndex /\ o_first ao' = o_first ao /\ o_last ao' = o_last ao.
Hypothesis Ho' : exists oo', get T o = Some oo' /\ o_parent oo' = o_parent oo /\ o_prev oo' = o_prev oo /\
                   o_next oo' = o_next oo /\ o_first oo' = hd InvalidIndex (l1 ++ l2) /\
                   o_last oo' = last (l1 ++ l2) InvalidIndex.
Hypothesis Hc' : forall c oc, c <> a -> c <> o -> get t c = Some oc ->
   exists oc', get T c = Some oc' /\ o_parent oc' = o_parent oc /\ o_first oc' = o_first oc /\ o_last oc' = o_last oc /\
     o_prev oc' = (if hd InvalidIndex l2 =? c then last l1 InvalidIndex else o_prev oc) /\
     o_next oc' = (if last l1 InvalidIndex =? c then hd InvalidIndex l2 else o_next oc).

Let Hain : In a (kids g o).
Proof. rewrite Hl. apply in_or_app. right. left. reflexivity. Qed.

Let Hoa : o <> a.
Proof. apply not_eq_sym. eapply (R_child_neq_parent t g HR); eauto. Qed.

Let Holt : o < N.of_nat (length (g_kids g)).
Proof. rewrite (R_len _ _ HR). eapply get_lt; eauto. Qed.

Let Hnodup : NoDup (l1 ++ a :: l2).
Proof. rewrite <- Hl. eapply R_kids; eauto. Qed.

Let Honin : ~ In o (l1 ++ a :: l2).
Proof. rewrite <- Hl. intros Hin. eapply (R_child_neq_parent t g HR); eauto. Qed.

Let Hvalid : forall c oc, get t c = Some oc -> c <> InvalidIndex.
Proof. intros. eapply R_pos_not_Inv; eauto. Qed.

Let Hanin : ~ In a (l1 ++ l2).
Proof. apply NoDup_remove_2. exact Hnodup. Qed.

Lemma rem_other c oc : c <> a -> get t c = Some oc ->
  exists oc', get T c = Some oc' /\ o_opcode oc' = o_opcode oc /\ o_parent oc' = o_parent oc /\
     o_prev oc' = (if hd InvalidIndex l2 =? c then last l1 InvalidIndex else o_prev oc) /\
     o_next oc' = (if last l1 InvalidIndex =? c then hd InvalidIndex l2 else o_next oc).
Proof.
  intros Hca Hg. destruct HL as (_ & _ & HLg). destruct (HLg _ _ Hg) as (oc1 & Hg1 & _ & Eop & _).
  destruct (N.eq_dec c o) as [->|Hco].
  - destruct Ho' as (oo' & Hgo & E1 & E2 & E3 & _). assert (oc = oo) by congruence. subst oc.
    exists oo'. split; auto. split; [congruence|]. split; auto.
    assert (H1 : hd InvalidIndex l2 <> o).
    { apply hd_neq; [eapply Hvalid; eauto|]. intros Hin. apply Honin. apply in_or_app; right; right; auto. }
    assert (H2 : last l1 InvalidIndex <> o).
    { apply last_neq; [eapply Hvalid; eauto|]. intros Hin. apply Honin. apply in_or_app; auto. }
    apply N.eqb_neq in H1, H2. rewrite H1, H2. auto.
  - destruct (Hc' _ _ Hca Hco Hg) as (oc' & Hg' & E1 & E2 & E3 & E4 & E5).
    exists oc'. split; auto. split; [congruence|]. auto.
Qed.

Lemma rem_frame c oc : c <> a -> ~ In c (l1 ++ l2) -> get t c = Some oc ->
  exists oc', get T c = Some oc' /\ same_links oc oc'.
Proof.
  intros Hca Hnin Hg. destruct (rem_other _ _ Hca Hg) as (oc' & Hg' & E1 & E2 & E3 & E4).
  exists oc'. split; auto.
  assert (H1 : hd InvalidIndex l2 <> c).
  { apply hd_neq; [eapply Hvalid; eauto|]. intros Hin. apply Hnin. apply in_or_app; auto. }
  assert (H2 : last l1 InvalidIndex <> c).
  { apply last_neq; [eapply Hvalid; eauto|]. intros Hin. apply Hnin. apply in_or_app; auto. }
  apply N.eqb_neq in H1, H2. rewrite H1 in E3. rewrite H2 in E4. repeat split; auto.
Qed.

Lemma remove_R : R T (set_kids g o (l1 ++ l2)).
Proof.
  destruct (R_kids _ _ HR _ _ Ho Hol) as (Hfirst & Hlast & Hchain & _).
  rewrite Hl in Hfirst, Hlast, Hchain.
  assert (Hnd12 : NoDup (l1 ++ l2)) by (eapply NoDup_remove_1; eauto).
  apply R_surgery with (t := t) (g := g); auto.
  - apply set_kids_len.
  - intros i oi Hg Hf. rewrite kids_set_kids by auto.
    destruct (N.eqb_spec i o) as [->|Hne]; [congruence|]. eapply R_freed; eauto.
  - intros i oi' Hg Hlv. rewrite kids_set_kids by auto.
    destruct (N.eqb_spec i o) as [->|Hne].
    + destruct Ho' as (oo' & Hgo & E1 & E2 & E3 & E4 & E5). assert (oi' = oo') by congruence. subst oi'.
      split; auto. split; auto. split; auto.
      apply chain_app in Hchain. destruct Hchain as [Hc1 [_ Hc2]]. cbn [hd] in Hc1.
      apply chain_app. split.
      * eapply chain_relink_tail with (nxt' := hd InvalidIndex l2); [| exact Hc1 |].
        { eapply NoDup_app_l; eauto. }
        intros c oc Hin Hgc.
        assert (Hca : c <> a) by (intros ->; apply Hanin; apply in_or_app; auto).
        destruct (rem_other _ _ Hca Hgc) as (oc' & Hg' & F1 & F2 & F3 & F4).
        exists oc'. repeat split; auto.
        assert (H1 : hd InvalidIndex l2 <> c).
        { apply hd_neq; [eapply Hvalid; eauto|]. intros Hin2. eapply (NoDup_app_disjoint l1 l2); eauto. }
        apply N.eqb_neq in H1. rewrite H1 in F3. exact F3.
      * eapply chain_relink_head with (prev' := last l1 InvalidIndex); [| exact Hc2 |].
        { eapply NoDup_app_r; eauto. }
        intros c oc Hin Hgc.
        assert (Hca : c <> a) by (intros ->; apply Hanin; apply in_or_app; auto).
        destruct (rem_other _ _ Hca Hgc) as (oc' & Hg' & F1 & F2 & F3 & F4).
        exists oc'. repeat split; auto.
        assert (H2 : last l1 InvalidIndex <> c).
        { apply last_neq; [eapply Hvalid; eauto|]. intros Hin1. eapply (NoDup_app_disjoint l1 l2); eauto. }
        apply N.eqb_neq in H2. rewrite H2 in F4. exact F4.
    + destruct (link_only_inv _ _ _ _ HL Hg) as (oi & Hgi & _ & Eop & _).
      assert (Hlv0 : o_opcode oi <> opFreed) by congruence.
      destruct (R_kids _ _ HR _ _ Hgi Hlv0) as (Hf & Hla & Hch & Hnd').
      assert (Hfl : o_first oi' = o_first oi /\ o_last oi' = o_last oi).
      { destruct (N.eq_dec i a) as [->|Hia].
        - destruct Ha' as (ao' & Hga & _ & _ & _ & G4 & G5). assert (oi = ao) by congruence.
          assert (oi' = ao') by congruence. subst. auto.
        - destruct (Hc' _ _ Hia Hne Hgi) as (oc' & Hg' & _ & G2 & G3 & _). assert (oc' = oi') by congruence. subst. auto. }
      destruct Hfl as [-> ->]. split; auto. split; auto. split; auto.
      eapply chain_frame; [|exact Hch]. intros c oc Hin Hgc.
      assert (Hcko : ~ In c (kids g o)).
      { intros Hin2. apply Hne. eapply (R_parent_unique t g HR); eauto. }
      apply rem_frame; auto.
      * intros ->. apply Hcko. exact Hain.
      * intros Hin2. apply Hcko. rewrite Hl. apply in_app_or in Hin2. apply in_or_app.
        destruct Hin2; auto. right; right; auto.
  - intros i oi' Hg Hlv.
    destruct (N.eq_dec i a) as [->|Hia].
    + destruct Ha' as (ao' & Hga & G1 & G2 & G3 & _). assert (oi' = ao') by congruence. subst oi'.
      rewrite G1, N.eqb_refl. auto.
    + destruct (link_only_inv _ _ _ _ HL Hg) as (oi & Hgi & _ & Eop & _).
      assert (Hlv0 : o_opcode oi <> opFreed) by congruence.
      destruct (rem_other _ _ Hia Hgi) as (oc' & Hg' & F1 & F2 & F3 & F4).
      assert (oc' = oi') by congruence. subst oc'. rewrite F2.
      pose proof (R_up _ _ HR _ _ Hgi Hlv0) as Hup.
      destruct (N.eqb_spec (o_parent oi) InvalidIndex) as [Ep|Ep].
      * destruct Hup as [Hpv Hnx].
        assert (Hnin : ~ In i (l1 ++ a :: l2)).
        { rewrite <- Hl. eapply R_root_not_child; eauto. }
        assert (H1 : hd InvalidIndex l2 <> i).
        { apply hd_neq; [eapply Hvalid; eauto|]. intros Hin. apply Hnin. apply in_or_app; right; right; auto. }
        assert (H2 : last l1 InvalidIndex <> i).
        { apply last_neq; [eapply Hvalid; eauto|]. intros Hin. apply Hnin. apply in_or_app; auto. }
        apply N.eqb_neq in H1, H2. rewrite H1 in F3. rewrite H2 in F4. split; congruence.
      * rewrite kids_set_kids by auto. destruct (N.eqb_spec (o_parent oi) o) as [Epo|Epo]; auto.
        rewrite Epo, Hl in Hup. apply in_app_or in Hup. apply in_or_app.
        destruct Hup as [|[E|]]; auto. congruence.
  - intros i oi' Hg Hlv.
    destruct (link_only_inv _ _ _ _ HL Hg) as (oi & Hgi & _ & Eop & _).
    assert (Hlv0 : o_opcode oi <> opFreed) by congruence.
    destruct (R_acyc _ _ HR _ _ Hgi Hlv0) as (k & Hk).
    eapply (Depth_after_detach t T a); eauto.
    + intros j oj Hja Hgj. destruct (rem_other _ _ Hja Hgj) as (oj' & Hgj' & F1 & F2 & _). eauto.
    + intros ao0 Hga0 Hal0. destruct Ha' as (ao' & Hga & G1 & _).
      destruct HL as (_ & _ & HLg). destruct (HLg _ _ Ha) as (ao2 & Hga2 & _ & Eop2 & _).
      exists ao'. repeat split; auto. congruence.
Qed.
End Remove.

Lemma remove1_split a l1 l2 : ~ In a l1 -> remove1 a (l1 ++ a :: l2) = l1 ++ l2.
Proof.
  induction l1 as [|x l1 IH]; intros Hn; cbn [app remove1].
  - rewrite N.eqb_refl. reflexivity.
  - destruct (N.eqb_spec x a) as [->|Hne]; [exfalso; apply Hn; left; reflexivity|].
    rewrite IH; auto. intros H; apply Hn; right; auto.
Qed.

Ltac xobj HR :=
  erewrite ObjectAt_deref_live; [| rewrite ?tset_len; apply (R_bound _ _ HR) | getok | fld; auto ]; cbn [bind].

Lemma detach_R {V} (t : ObjectTree V) g o a :
  R t g -> legal g (OpDetach o a) ->
  exists t', detach t o a = Ok t' /\ R t' (astep g (OpDetach o a)).
Proof.
  intros HR Hain. cbn [legal] in Hain.
  destruct (R_In_kids t g HR _ _ Hain) as ((oo & Ho & Hol) & ao & Ha & Hal & Hap).
  assert (Hao : a <> o) by (exact (R_child_neq_parent t g HR o a Hain)).
  pose proof (R_index _ _ HR _ _ Ho) as Hio. pose proof (R_index _ _ HR _ _ Ha) as Hia.
  destruct (R_kids _ _ HR _ _ Ho Hol) as (Hfirst & Hlast & Hchain & Hnodup).
  assert (Hvalid : forall c oc, get t c = Some oc -> c <> InvalidIndex) by (intros; eapply R_pos_not_Inv; eauto).
  destruct (in_split _ _ Hain) as (l1 & l2 & El).
  assert (Ha1 : ~ In a l1).
  { rewrite El in Hnodup. apply NoDup_remove_2 in Hnodup. intros H. apply Hnodup. apply in_or_app; auto. }
  assert (Ha2 : ~ In a l2).
  { rewrite El in Hnodup. apply NoDup_remove_2 in Hnodup. intros H. apply Hnodup. apply in_or_app; auto. }
  rewrite El in Hchain, Hfirst, Hlast. pose proof (chain_mid _ _ _ _ _ Hchain) as (ao' & Ha' & _ & _ & Hapv & Hanx).
  assert (ao' = ao) by congruence. subst ao'. clear Ha'.
  rewrite hd_app_cons in Hfirst. rewrite last_app_cons in Hlast.
  cbn [astep]. rewrite El, remove1_split by auto.
  assert (Hav : a <> InvalidIndex) by eauto.
  destruct (list_last_case l1) as [E1 | (l1' & z & E1)]; destruct l2 as [|m l2']; subst l1;
    cbn [hd] in *; rewrite ?last_last in *;
    change (last [] a) with a in *; change (last (@nil N) InvalidIndex) with InvalidIndex in *.
  - (* only child *)
    unfold detach. xrd. xrd. rewrite Hfirst, Hia, N.eqb_refl. xrd. xwr. xrd. xrd. rewrite Hlast, Hia, N.eqb_refl.
    xrd. xwr. xrd. rewrite Hanx, N.eqb_refl. cbn [negb bind]. xrd. rewrite Hapv, N.eqb_refl. cbn [negb bind].
    xwr. xwr. erewrite wr_ok by getok.
    eexists; split; [reflexivity|].
    eapply remove_R with (oo := oo) (ao := ao) (l1 := []) (l2 := []); eauto.
    + lo.
    + eexists. split; [getok|]. fld. auto.
    + eexists. split; [getok|]. fld. cbn [hd last app]. rewrite ?Hanx, ?Hapv. auto 10.
    + intros c oc Hca Hco Hg. exists oc. split; [getok|]. cbn [hd last]. inv_false c Hvalid. auto.
  - (* first child, m follows *)
    assert (Hmin : In m (kids g o)) by (rewrite El; right; left; reflexivity).
    destruct (R_In_kids t g HR _ _ Hmin) as (_ & mo & Hm & Hml & Hmp).
    assert (Hma : m <> a) by (intros E; apply Ha2; left; auto).
    assert (Hmo : m <> o) by (exact (R_child_neq_parent t g HR o m Hmin)).
    assert (Hmv : m <> InvalidIndex) by eauto.
    assert (Hlm : last (m :: l2') a <> a).
    { rewrite (last_cons_irrel l2' m a InvalidIndex). apply last_neq; auto. }
    unfold detach. xrd. xrd. rewrite Hfirst, Hia, N.eqb_refl. xrd. xwr. xrd. xrd. rewrite Hlast, Hia.
    apply N.eqb_neq in Hlm. rewrite Hlm. cbn [bind].
    xrd. rewrite Hanx. apply N.eqb_neq in Hmv. rewrite Hmv. apply N.eqb_neq in Hmv. cbn [negb].
    xobj HR. xrd. xwr. xrd. rewrite Hapv, N.eqb_refl. cbn [negb bind].
    xwr. xwr. erewrite wr_ok by getok.
    eexists; split; [reflexivity|].
    eapply remove_R with (oo := oo) (ao := ao) (l1 := []) (l2 := m :: l2'); eauto.
    + lo.
    + eexists. split; [getok|]. fld. auto.
    + eexists. split; [getok|]. fld. cbn [hd last app]. rewrite ?Hanx, ?Hlast.
      split; auto. split; auto. split; auto. split; auto. apply last_cons_irrel.
    + intros c oc Hca Hco Hg. cbn [hd last]. inv_false c Hvalid.
      destruct (N.eq_dec c m) as [->|Hcm].
      * rewrite N.eqb_refl. eexists. split; [getok|]. fld. rewrite ?Hapv. auto.
      * assert (H1 : (m =? c) = false) by (apply N.eqb_neq; auto). rewrite H1.
        exists oc. split; [getok|]. auto.
  - (* last child, z precedes *)
    assert (Hzin : In z (kids g o)) by (rewrite El; apply in_or_app; left; apply in_or_app; right; left; reflexivity).
    destruct (R_In_kids t g HR _ _ Hzin) as (_ & zo & Hz & Hzl & Hzp).
    assert (Hza : z <> a) by (intros E; apply Ha1; apply in_or_app; right; left; auto).
    assert (Hzo : z <> o) by (exact (R_child_neq_parent t g HR o z Hzin)).
    assert (Hzv : z <> InvalidIndex) by eauto.
    assert (Hhz : hd a (l1' ++ [z]) <> a).
    { destruct l1' as [|y l1'']; cbn [app hd]; auto. intros E. apply Ha1. left. auto. }
    unfold detach. xrd. xrd. rewrite Hfirst, Hia.
    apply N.eqb_neq in Hhz. rewrite Hhz. cbn [bind].
    xrd. xrd. rewrite Hlast, Hia, N.eqb_refl. xrd. xwr.
    xrd. rewrite Hanx, N.eqb_refl. cbn [negb bind].
    xrd. rewrite Hapv. apply N.eqb_neq in Hzv. rewrite Hzv. apply N.eqb_neq in Hzv. cbn [negb].
    xobj HR. xrd. xwr. xwr. xwr. erewrite wr_ok by getok.
    eexists; split; [reflexivity|].
    eapply remove_R with (oo := oo) (ao := ao) (l1 := l1' ++ [z]) (l2 := []); eauto.
    + lo.
    + eexists. split; [getok|]. fld. auto.
    + eexists. split; [getok|]. fld. cbn [hd]. rewrite ?app_nil_r, ?last_last, ?Hapv, ?Hfirst.
      split; auto. split; auto. split; auto. split; auto. destruct l1'; reflexivity.
    + intros c oc Hca Hco Hg. rewrite last_last. cbn [hd]. inv_false c Hvalid.
      destruct (N.eq_dec c z) as [->|Hcz].
      * rewrite N.eqb_refl. eexists. split; [getok|]. fld. rewrite ?Hanx. auto.
      * assert (H1 : (z =? c) = false) by (apply N.eqb_neq; auto). rewrite H1.
        exists oc. split; [getok|]. auto.
  - (* in the middle *)
    assert (Hmin : In m (kids g o)) by (rewrite El; apply in_or_app; right; right; left; reflexivity).
    destruct (R_In_kids t g HR _ _ Hmin) as (_ & mo & Hm & Hml & Hmp).
    assert (Hma : m <> a) by (intros E; apply Ha2; left; auto).
    assert (Hmo : m <> o) by (exact (R_child_neq_parent t g HR o m Hmin)).
    assert (Hmv : m <> InvalidIndex) by eauto.
    assert (Hzin : In z (kids g o)) by (rewrite El; apply in_or_app; left; apply in_or_app; right; left; reflexivity).
    destruct (R_In_kids t g HR _ _ Hzin) as (_ & zo & Hz & Hzl & Hzp).
    assert (Hza : z <> a) by (intros E; apply Ha1; apply in_or_app; right; left; auto).
    assert (Hzo : z <> o) by (exact (R_child_neq_parent t g HR o z Hzin)).
    assert (Hzv : z <> InvalidIndex) by eauto.
    assert (Hzm : z <> m).
    { intros E. rewrite El in Hnodup. eapply (NoDup_app_disjoint (l1' ++ [z]) (a :: m :: l2')); eauto.
      - apply in_or_app. right. left. reflexivity.
      - right. left. auto. }
    assert (Hhz : hd a (l1' ++ [z]) <> a).
    { destruct l1' as [|y l1'']; cbn [app hd]; auto. intros E. apply Ha1. left. auto. }
    assert (Hlm : last (m :: l2') a <> a).
    { rewrite (last_cons_irrel l2' m a InvalidIndex). apply last_neq; auto. }
    unfold detach. xrd. xrd. rewrite Hfirst, Hia.
    apply N.eqb_neq in Hhz. rewrite Hhz. cbn [bind].
    xrd. xrd. rewrite Hlast, Hia. apply N.eqb_neq in Hlm. rewrite Hlm. cbn [bind].
    xrd. rewrite Hanx. apply N.eqb_neq in Hmv. rewrite Hmv. apply N.eqb_neq in Hmv. cbn [negb].
    xobj HR. xrd. xwr.
    xrd. rewrite Hapv. apply N.eqb_neq in Hzv. rewrite Hzv. apply N.eqb_neq in Hzv. cbn [negb].
    xobj HR. xrd. xwr. xwr. xwr. erewrite wr_ok by getok.
    eexists; split; [reflexivity|].
    eapply remove_R with (oo := oo) (ao := ao) (l1 := l1' ++ [z]) (l2 := m :: l2'); eauto.
    + lo.
    + eexists. split; [getok|]. fld. auto.
    + eexists. split; [getok|]. split; auto. split; auto. split; auto. rewrite Hfirst, Hlast. split.
      * destruct l1'; reflexivity.
      * rewrite last_app_cons, last_cons_default. reflexivity.
    + intros c oc Hca Hco Hg. rewrite last_last. cbn [hd].
      destruct (N.eq_dec c m) as [->|Hcm]; [|destruct (N.eq_dec c z) as [->|Hcz]].
      * rewrite N.eqb_refl. assert (H1 : (z =? m) = false) by (apply N.eqb_neq; auto). rewrite H1.
        eexists. split; [getok|]. fld. rewrite ?Hapv. auto.
      * rewrite N.eqb_refl. assert (H1 : (m =? z) = false) by (apply N.eqb_neq; auto). rewrite H1.
        eexists. split; [getok|]. fld. rewrite ?Hanx. auto.
      * assert (H1 : (m =? c) = false) by (apply N.eqb_neq; auto).
        assert (H2 : (z =? c) = false) by (apply N.eqb_neq; auto). rewrite H1, H2.
        exists oc. split; [getok|]. auto.
Qed.

(** ---- one object changes its status (freed <-> live, detached and childless), the others stay ---- *)
Lemma R_change_one {V} (t T : ObjectTree V) g g' x :
  R t g ->
  length (g_kids g') = length (t_pool T) -> N.of_nat (length (t_pool T)) <= InvalidIndex ->
  (forall i, i <> x -> get T i = get t i) ->
  (forall i, kids g' i = kids g i) ->
  kids g x = [] -> (forall p, ~ In x (kids g p)) ->
  (forall xo', get T x = Some xo' -> o_index xo' = x /\
       (o_opcode xo' <> opFreed -> o_parent xo' = InvalidIndex /\ o_prev xo' = InvalidIndex /\
            o_next xo' = InvalidIndex /\ o_first xo' = InvalidIndex /\ o_last xo' = InvalidIndex) /\
       (o_opcode xo' = opFreed -> In x (g_free g'))) ->
  fchain T (t_free T) (g_free g') -> NoDup (g_free g') ->
  (forall i, i <> x -> In i (g_free g) -> In i (g_free g')) ->
  R T g'.
Proof.
  intros HR Hlen Hbound Hsame Hkids Hkx Hxr Hx Hfc Hnd Hfin.
  assert (Hframe : forall c oc, c <> x -> get t c = Some oc -> exists oc', get T c = Some oc' /\ same_links oc oc').
  { intros c oc Hc Hg. exists oc. rewrite Hsame by auto. split; auto. repeat split; auto. }
  constructor.
  - exact Hlen.
  - exact Hbound.
  - intros i o Hg. destruct (N.eq_dec i x) as [->|Hne]; [apply (Hx _ Hg)|].
    rewrite Hsame in Hg by auto. eapply R_index; eauto.
  - intros i o Hg Hl. rewrite Hkids. destruct (N.eq_dec i x) as [->|Hne].
    + destruct (Hx _ Hg) as (_ & H1 & _). destruct (H1 Hl) as (_ & _ & _ & F & L).
      rewrite Hkx. cbn [hd last chain]. repeat split; auto. constructor.
    + rewrite Hsame in Hg by auto. destruct (R_kids _ _ HR _ _ Hg Hl) as (F & L & C & N0).
      repeat split; auto. eapply chain_frame; [|exact C]. intros c oc Hin Hgc.
      apply Hframe; auto. intros ->. eapply Hxr; eauto.
  - intros i o Hg Hl. destruct (N.eq_dec i x) as [->|Hne].
    + destruct (Hx _ Hg) as (_ & H1 & _). destruct (H1 Hl) as (P & PV & NX & _). rewrite P, N.eqb_refl. auto.
    + rewrite Hsame in Hg by auto. pose proof (R_up _ _ HR _ _ Hg Hl) as Hup.
      destruct (o_parent o =? InvalidIndex); auto. rewrite Hkids. auto.
  - intros i o Hg Hf. rewrite Hkids. destruct (N.eq_dec i x) as [->|Hne].
    + split; auto. destruct (Hx _ Hg) as (_ & _ & H2). auto.
    + rewrite Hsame in Hg by auto. destruct (R_freed _ _ HR _ _ Hg Hf). split; auto.
  - split; auto.
  - intros i o Hg Hl. destruct (N.eq_dec i x) as [->|Hne].
    + destruct (Hx _ Hg) as (_ & H1 & _). destruct (H1 Hl) as (P & _). exists 0%nat. eapply Depth_root; eauto.
    + rewrite Hsame in Hg by auto. destruct (R_acyc _ _ HR _ _ Hg Hl) as (k & Hd). exists k.
      eapply Depth_transfer with (P := fun j => j <> x); [|exact Hd|exact Hne].
      intros j oj Hj Hgj Hlj. split.
      * exists oj. rewrite Hsame by auto. auto.
      * intros Hp E. destruct (R_parent_live t g HR _ _ Hgj Hlj Hp) as [Hin _].
        rewrite E, Hkx in Hin. contradiction.
Qed.

(** ---- parent_of agrees with the parent link ---- *)
Lemma find_none_all {A} (f : A -> bool) l : (forall x, In x l -> f x = false) -> find f l = None.
Proof.
  induction l as [|y l IH]; intros H; [reflexivity|]. cbn [find]. rewrite (H y) by (left; auto).
  apply IH. intros x Hx. apply H. right; auto.
Qed.

Lemma find_unique {A} (f : A -> bool) l x0 :
  In x0 l -> f x0 = true -> (forall x, In x l -> f x = true -> x = x0) -> find f l = Some x0.
Proof.
  induction l as [|y l IH]; intros Hin Hf Hu; [contradiction|]. cbn [find].
  destruct (f y) eqn:E.
  - f_equal. apply Hu; auto. left; auto.
  - destruct Hin as [->|Hin]; [congruence|]. apply IH; auto. intros x Hx. apply Hu. right; auto.
Qed.

Lemma existsb_eqb_In c l : existsb (N.eqb c) l = true <-> In c l.
Proof.
  rewrite existsb_exists. split.
  - intros (x & Hin & E). apply N.eqb_eq in E. subst. auto.
  - intros H. exists c. split; auto. apply N.eqb_refl.
Qed.

Lemma In_slots g p : In p (slots g) <-> p < N.of_nat (length (g_kids g)).
Proof.
  unfold slots. rewrite in_map_iff. split.
  - intros (n & <- & Hin). apply in_seq in Hin. lia.
  - intros H. exists (N.to_nat p). split; [apply N2Nat.id|]. apply in_seq. lia.
Qed.

Lemma parent_of_spec {V} (t : ObjectTree V) g c co :
  R t g -> get t c = Some co -> o_opcode co <> opFreed ->
  parent_of g c = if o_parent co =? InvalidIndex then None else Some (o_parent co).
Proof.
  intros HR Hg Hl. unfold parent_of. pose proof (R_up _ _ HR _ _ Hg Hl) as Hup.
  destruct (N.eqb_spec (o_parent co) InvalidIndex) as [Ep|Ep].
  - apply find_none_all. intros p _. destruct (existsb (N.eqb c) (kids g p)) eqn:E; auto.
    apply existsb_eqb_In in E. exfalso. eapply (R_root_not_child t g HR); eauto.
  - apply find_unique.
    + apply In_slots. eapply In_kids_lt; eauto.
    + apply existsb_eqb_In. exact Hup.
    + intros p _ E. apply existsb_eqb_In in E. eapply (R_parent_unique t g HR); eauto.
Qed.

(** ---- free ---- *)
Lemma free_root_R {V} (t : ObjectTree V) g x xo :
  R t g -> get t x = Some xo -> o_opcode xo <> opFreed -> o_parent xo = InvalidIndex -> kids g x = [] ->
  exists t', free t x = Ok t' /\ R t' (mkGhost (g_kids g) (x :: g_free g)).
Proof.
  intros HR Hx Hxl Hxp Hkx.
  destruct (R_kids _ _ HR _ _ Hx Hxl) as (Hf & Hla & _ & _). rewrite Hkx in Hf, Hla. cbn [hd last] in Hf, Hla.
  pose proof (R_index _ _ HR _ _ Hx) as Hix.
  unfold free. xrd. rewrite Hxp, N.eqb_refl. cbn [negb bind]. xrd. xrd. rewrite Hf, Hla, N.eqb_refl. cbn [negb orb].
  xwr. xwr. xrd. rewrite Hix.
  eexists; split; [reflexivity|].
  match goal with |- R ?T _ => set (T' := T) end.
  assert (HgT : forall i, get T' i = get (tset (tset t x (set_opcode opFreed)) x (set_next (t_free t))) i) by reflexivity.
  assert (Hxnl : ~ In x (g_free g)).
  { intros Hin. destruct (fchain_In _ _ _ _ (proj1 (R_flist _ _ HR)) Hin) as (o' & Hg' & Hf'). congruence. }
  apply R_change_one with (t := t) (g := g) (x := x); auto.
  - unfold T'. cbn [t_pool g_kids]. rewrite !tset_len. apply (R_len _ _ HR).
  - unfold T'. cbn [t_pool]. rewrite !tset_len. apply (R_bound _ _ HR).
  - intros i Hne. rewrite HgT. gsimp. reflexivity.
  - intros p. eapply (R_root_not_child t g HR); eauto.
  - intros xo' Hg'. rewrite HgT in Hg'. gsimp_in Hg'. rewrite Hx in Hg'. cbn [option_map] in Hg'.
    inversion Hg'; subst xo'. fld. split; auto. split; [congruence|]. intros _. left. reflexivity.
  - cbn [g_free fchain]. split; [reflexivity|].
    eexists. split; [rewrite HgT; getok|]. fld. split; auto.
    eapply fchain_frame; [|exact (proj1 (R_flist _ _ HR))].
    intros y Hy. rewrite HgT. assert (y <> x) by (intros ->; contradiction). gsimp. reflexivity.
  - cbn [g_free]. constructor; auto. apply (R_flist _ _ HR).
  - intros i _ Hin. right. exact Hin.
Qed.

Lemma remove1_notin a l : NoDup l -> ~ In a (remove1 a l).
Proof.
  induction l as [|x l IH]; intros Hnd; cbn [remove1]; [tauto|].
  inversion Hnd; subst. destruct (N.eqb_spec x a) as [->|Hne]; auto.
  intros [E|Hin]; [congruence|]. apply IH; auto.
Qed.

Lemma free_R {V} (t : ObjectTree V) g x :
  R t g -> legal g (OpFree x) ->
  exists t', free t x = Ok t' /\ R t' (astep g (OpFree x)).
Proof.
  intros HR (Hlx & Hkx).
  pose proof Hlx as Hgl. apply (R_live_glive t g HR) in Hlx. destruct Hlx as (xo & Hx & Hxl).
  cbn [astep]. rewrite (parent_of_spec t g x xo HR Hx Hxl).
  destruct (N.eqb_spec (o_parent xo) InvalidIndex) as [Ep|Ep].
  - eapply free_root_R; eauto.
  - destruct (R_parent_live t g HR _ _ Hx Hxl Ep) as (Hin & po & Hp & Hpl).
    set (p := o_parent xo) in *.
    destruct (detach_R t g p x HR Hin) as (T1 & Hd & HR1). cbn [astep] in HR1.
    assert (Hplt : p < N.of_nat (length (g_kids g))) by (eapply In_kids_lt; eauto).
    assert (Hxp : x <> p) by (exact (R_child_neq_parent t g HR p x Hin)).
    set (g1 := set_kids g p (remove1 x (kids g p))) in *.
    assert (Hgl1 : glive g1 x).
    { destruct Hgl as [A B]. split; auto. unfold g1. rewrite set_kids_len. auto. }
    apply (R_live_glive T1 g1 HR1) in Hgl1. destruct Hgl1 as (xo1 & Hx1 & Hxl1).
    assert (Hroot1 : groot g1 x).
    { intros q Hq. unfold g1 in Hq. rewrite kids_set_kids in Hq by auto.
      destruct (N.eqb_spec q p) as [E|Hqp].
      - eapply remove1_notin; [|exact Hq]. eapply R_kids; eauto.
      - apply Hqp. eapply (R_parent_unique t g HR); eauto. }
    pose proof (proj1 (R_groot T1 g1 HR1 x xo1 Hx1 Hxl1) Hroot1) as Hxp1.
    assert (Hkx1 : kids g1 x = []).
    { unfold g1. rewrite kids_set_kids by auto. apply N.eqb_neq in Hxp. rewrite Hxp. exact Hkx. }
    destruct (free_root_R T1 g1 x xo1 HR1 Hx1 Hxl1 Hxp1 Hkx1) as (T2 & Hf2 & HR2).
    exists T2. split; [|exact HR2].
    (* the code: detach from the parent, then the rest of free, which is free on the detached object *)
    unfold free in *. rewrite (rd_ok _ _ _ _ Hx) in *. cbn [bind] in *.
    apply N.eqb_neq in Ep. fold p. rewrite Ep. cbn [negb].
    erewrite ObjectAt_deref_live; [| apply (R_bound _ _ HR) | exact Hp | exact Hpl]. cbn [bind].
    rewrite Hd. cbn [bind].
    rewrite (rd_ok _ _ _ _ Hx1) in Hf2. cbn [bind] in Hf2. rewrite Hxp1, N.eqb_refl in Hf2. cbn [negb bind] in Hf2.
    exact Hf2.
Qed.

(** ---- changes that leave opcode, index and links alone (names, values) ---- *)
Definition eq_links {V} (o o' : Object V) : Prop :=
  o_opcode o' = o_opcode o /\ o_index o' = o_index o /\ o_parent o' = o_parent o /\ o_prev o' = o_prev o /\
  o_next o' = o_next o /\ o_first o' = o_first o /\ o_last o' = o_last o.

Lemma fchain_frame2 {V} (t T : ObjectTree V) h l :
  (forall x o, In x l -> get t x = Some o -> exists o', get T x = Some o' /\ eq_links o o') ->
  fchain t h l -> fchain T h l.
Proof.
  revert h; induction l as [|y l IH]; intros h H; cbn [fchain]; auto.
  intros (-> & o & Hg & Hf & Hc). split; auto.
  destruct (H y o (or_introl eq_refl) Hg) as (o' & Hg' & E1 & _ & _ & _ & E5 & _).
  exists o'. split; auto. split; [congruence|]. rewrite E5. apply IH; auto.
  intros x ox Hx. apply H. right; auto.
Qed.

Lemma R_ext {V} (t T : ObjectTree V) g :
  R t g -> length (t_pool T) = length (t_pool t) -> t_free T = t_free t ->
  (forall i o, get t i = Some o -> exists o', get T i = Some o' /\ eq_links o o') ->
  R T g.
Proof.
  intros HR Hlen Hfree H.
  assert (Hinv : forall i o', get T i = Some o' -> exists o, get t i = Some o /\ eq_links o o').
  { intros i o' Hg. pose proof (get_lt _ _ _ Hg) as Hlt. rewrite Hlen in Hlt.
    destruct (get_some _ _ Hlt) as (o & Ho). destruct (H _ _ Ho) as (o2 & Hg2 & E).
    assert (o2 = o') by congruence. subst. eauto. }
  assert (Hframe : forall c oc, get t c = Some oc -> exists oc', get T c = Some oc' /\ same_links oc oc').
  { intros c oc Hg. destruct (H _ _ Hg) as (oc' & Hg' & E1 & E2 & E3 & E4 & E5 & _). exists oc'. repeat split; auto. }
  constructor.
  - rewrite Hlen. apply (R_len _ _ HR).
  - rewrite Hlen. apply (R_bound _ _ HR).
  - intros i o' Hg. destruct (Hinv _ _ Hg) as (o & Ho & _ & E & _). rewrite E. eapply R_index; eauto.
  - intros i o' Hg Hl. destruct (Hinv _ _ Hg) as (o & Ho & E1 & E2 & E3 & E4 & E5 & E6 & E7).
    rewrite E1 in Hl. destruct (R_kids _ _ HR _ _ Ho Hl) as (F & L & C & N0).
    rewrite E6, E7. repeat split; auto. eapply chain_frame; [|exact C]. intros c oc _ Hgc. auto.
  - intros i o' Hg Hl. destruct (Hinv _ _ Hg) as (o & Ho & E1 & E2 & E3 & E4 & E5 & E6 & E7).
    rewrite E1 in Hl. rewrite E3, E4, E5. eapply R_up; eauto.
  - intros i o' Hg Hf. destruct (Hinv _ _ Hg) as (o & Ho & E1 & _). rewrite E1 in Hf. eapply R_freed; eauto.
  - destruct (R_flist _ _ HR) as [Hc Hn]. split; auto. rewrite Hfree.
    eapply fchain_frame2; [|exact Hc]. intros x o _ Hg. auto.
  - intros i o' Hg Hl. destruct (Hinv _ _ Hg) as (o & Ho & E1 & _). rewrite E1 in Hl.
    destruct (R_acyc _ _ HR _ _ Ho Hl) as (k & Hd). exists k.
    eapply Depth_transfer with (P := fun _ => True); [|exact Hd|exact I].
    intros j oj _ Hgj Hlj. split; auto.
    destruct (H _ _ Hgj) as (oj' & Hgj' & F1 & _ & F3 & _). exists oj'. repeat split; auto. congruence.
Qed.

Lemma R_set_name {V} (t : ObjectTree V) g p nm : R t g -> R (tset t p (set_name nm)) g.
Proof.
  intros HR. apply R_ext with (t := t); auto; [apply tset_len|].
  intros i o Hg. rewrite get_tset, Hg. cbn [option_map].
  destruct (i =? p); eexists; split; eauto; repeat split; auto.
Qed.

(** ---- creation ---- *)
Lemma opcodeMap_len : length tree_opcodeMap = 256%nat.
Proof. reflexivity. Qed.

Lemma pOpcodeTableIndex_ok opc : opcode_in_maps opc -> exists info, pOpcodeTableIndex opc true = Ok info.
Proof.
  intros H. unfold pOpcodeTableIndex. destruct (N.leb_spec opc 0xff) as [Hle|Hgt].
  - destruct (nth_error tree_opcodeMap (N.to_nat opc)) eqn:E; eauto.
    apply nth_error_None in E. rewrite opcodeMap_len in E. lia.
  - destruct H as [H|H]; [lia|].
    destruct (nth_error tree_extendedOpcodeMap (N.to_nat (opc - 0xff))) eqn:E.
    + destruct ((n =? tree_badOpcode) && true); eauto.
    + apply nth_error_None in E. lia.
Qed.

Lemma kids_app_nil g i : kids (mkGhost (g_kids g ++ [[]]) []) i = kids g i.
Proof.
  unfold kids. cbn [g_kids].
  destruct (Nat.ltb_spec (N.to_nat i) (length (g_kids g))) as [H|H].
  - apply app_nth1. exact H.
  - rewrite (nth_overflow (g_kids g)) by lia.
    destruct (Nat.eq_dec (N.to_nat i) (length (g_kids g))) as [E|E].
    + rewrite app_nth2 by lia. rewrite E, Nat.sub_diag. reflexivity.
    + apply nth_overflow. rewrite app_length. cbn [length]. lia.
Qed.

Lemma newObject_R {V} (t : ObjectTree V) g opc th :
  R t g -> legal_new g opc ->
  exists t' p, newObject t opc th = Ok (t', p) /\ R t' (astep g (OpNew opc th)) /\
               (exists po, get t' p = Some po) /\
               p = match g_free g with [] => N.of_nat (length (t_pool t)) | x :: _ => x end.
Proof.
  intros HR (Hopc & Hmaps & Hroom).
  destruct (pOpcodeTableIndex_ok opc Hmaps) as (info & Hinfo).
  destruct (R_flist _ _ HR) as [Hfc Hfnd].
  unfold newObject. cbn [astep].
  destruct (g_free g) as [|x rest] eqn:Egf.
  - (* grow *)
    cbn [fchain] in Hfc. rewrite Hfc, N.eqb_refl. cbn [bind]. rewrite Hinfo. cbn [bind].
    set (n := length (t_pool t)).
    set (t1 := mkTree (t_pool t ++ [blank_object (pool_len t)]) InvalidIndex).
    assert (Hlen1 : length (t_pool t1) = S n) by (unfold t1; cbn [t_pool]; rewrite app_length; cbn [length]; lia).
    assert (Hget1 : get t1 (N.of_nat n) = Some (blank_object (pool_len t))).
    { unfold get, t1. cbn [t_pool]. rewrite Nat2N.id. rewrite nth_error_app2 by (unfold n; lia).
      unfold n. rewrite Nat.sub_diag. reflexivity. }
    rewrite (wr_ok _ _ _ _ Hget1). cbn [bind].
    eexists _, _. split; [reflexivity|].
    assert (Hold : forall i, i <> N.of_nat n -> get (tset t1 (N.of_nat n) (init_object opc info th)) i = get t i).
    { intros i Hne. rewrite get_tset. apply N.eqb_neq in Hne. rewrite Hne.
      unfold get, t1. cbn [t_pool].
      destruct (Nat.ltb_spec (N.to_nat i) n) as [Hlt|Hge].
      - apply nth_error_app1. exact Hlt.
      - assert (HN : nth_error (t_pool t) (N.to_nat i) = None) by (apply nth_error_None; unfold n in Hge; lia).
        rewrite HN. apply nth_error_None. rewrite app_length. cbn [length]. apply N.eqb_neq in Hne. fold n. lia. }
    pose proof (R_len _ _ HR) as HRlen. pose proof (R_bound _ _ HR) as HRb. fold n in HRlen, HRb.
    specialize (Hroom eq_refl). rewrite HRlen in Hroom.
    assert (Hkn : kids g (N.of_nat n) = []) by (apply kids_oob; lia).
    split; [|split].
    + apply R_change_one with (t := t) (g := g) (x := N.of_nat n); auto.
      * cbn [g_kids]. rewrite tset_len, Hlen1, app_length. cbn [length]. lia.
      * rewrite tset_len, Hlen1. lia.
      * apply kids_app_nil.
      * intros p Hin. destruct (R_In_kids t g HR _ _ Hin) as (_ & co & Hc & _). apply get_lt in Hc. fold n in Hc. lia.
      * intros xo' Hg'. rewrite get_tset, N.eqb_refl, Hget1 in Hg'. cbn [option_map] in Hg'. inversion Hg'; subst xo'.
        fld. unfold blank_object. fld. split.
        -- rewrite (pool_len_eq t HRb). reflexivity.
        -- split; auto; intros E; congruence.
      * cbn [g_free fchain]. reflexivity.
      * intros i _ Hin. rewrite Egf in Hin. contradiction.
    + rewrite get_tset, N.eqb_refl, Hget1. cbn [option_map]. eauto.
    + reflexivity.
  - (* reuse *)
    cbn [fchain] in Hfc. destruct Hfc as (Hhead & xo & Hx & Hxf & Hrest).
    assert (Hxv : x <> InvalidIndex) by (eapply (R_pos_not_Inv t g HR); eauto).
    rewrite Hhead. apply N.eqb_neq in Hxv. rewrite Hxv. rewrite deref_get, Hx. cbn [bind]. rewrite Hinfo. cbn [bind].
    set (t1 := mkTree (t_pool t) (o_next xo)).
    assert (Hget1 : get t1 x = Some xo) by exact Hx.
    rewrite (wr_ok _ _ _ _ Hget1). cbn [bind].
    eexists _, _. split; [reflexivity|].
    destruct (R_freed _ _ HR _ _ Hx Hxf) as [Hkx _].
    apply NoDup_cons_iff in Hfnd. destruct Hfnd as [Hxnin Hnd'].
    split; [|split].
    + apply R_change_one with (t := t) (g := g) (x := x); auto.
      * cbn [g_kids]. rewrite tset_len. apply (R_len _ _ HR).
      * rewrite tset_len. apply (R_bound _ _ HR).
      * intros i Hne. rewrite get_tset. apply N.eqb_neq in Hne. rewrite Hne. reflexivity.
      * intros p Hin. destruct (R_In_kids t g HR _ _ Hin) as (_ & co & Hc & Hcl & _). congruence.
      * intros xo' Hg'. rewrite get_tset, N.eqb_refl, Hget1 in Hg'. cbn [option_map] in Hg'. inversion Hg'; subst xo'.
        fld. split; [eapply R_index; eauto|]. split; auto; intros E; congruence.
      * cbn [g_free]. rewrite tset_free. cbn [t_free t1]. eapply fchain_frame; [|exact Hrest].
        intros y Hy. rewrite get_tset. assert (Hyx : y <> x) by (intros ->; contradiction).
        apply N.eqb_neq in Hyx. rewrite Hyx. reflexivity.
      * intros i Hne Hin. rewrite Egf in Hin. destruct Hin as [E|Hin]; [congruence|exact Hin].
    + rewrite get_tset, N.eqb_refl, Hget1. cbn [option_map]. eauto.
    + reflexivity.
Qed.

Lemma newNamedObject_R {V} (t : ObjectTree V) g opc th nm :
  R t g -> legal_new g opc ->
  exists t' p, newNamedObject t opc th nm = Ok (t', p) /\ R t' (astep g (OpNewNamed opc th nm)) /\
               p = match g_free g with [] => N.of_nat (length (t_pool t)) | x :: _ => x end.
Proof.
  intros HR HL. destruct (newObject_R t g opc th HR HL) as (t1 & p & Hn & HR1 & (po & Hp) & Ep).
  unfold newNamedObject. rewrite Hn. cbn [bind]. rewrite (wr_ok _ _ _ _ Hp). cbn [bind].
  eexists _, _. split; [reflexivity|]. split; auto.
  cbn [astep] in *. apply R_set_name. exact HR1.
Qed.

(** every legal edit preserves R and performs the list operation *)
Lemma step_R {V} (t : ObjectTree V) g o :
  R t g -> legal g o -> exists t', step t o = Ok t' /\ R t' (astep g o).
Proof.
  intros HR HL. destruct o as [opc th|opc th nm|a b|a b c|a b|a]; cbn [step].
  - destruct (newObject_R t g opc th HR HL) as (t' & p & Hn & HR' & _). rewrite Hn. cbn [bind fst]. eauto.
  - destruct (newNamedObject_R t g opc th nm HR HL) as (t' & p & Hn & HR' & _). rewrite Hn. cbn [bind fst]. eauto.
  - apply append_R; auto.
  - apply appendAfter_R; auto.
  - apply detach_R; auto.
  - apply free_R; auto.
Qed.

Lemma run_R {V} (ops : list op) : forall (t : ObjectTree V) g,
  R t g -> legal_seq g ops -> exists t', run t ops = Ok t' /\ R t' (arun g ops).
Proof.
  induction ops as [|o ops IH]; intros t g HR HL; cbn [run arun].
  - eauto.
  - destruct HL as [H1 H2]. destruct (step_R t g o HR H1) as (t1 & Hs & HR1).
    rewrite Hs. cbn [bind]. apply IH; auto.
Qed.

Lemma R_empty {V} : R (@NewObjectTree V) ghost0.
Proof.
  assert (Hn : forall i, get (@NewObjectTree V) i = None).
  { intros i. unfold get, NewObjectTree. cbn [t_pool]. destruct (N.to_nat i); reflexivity. }
  constructor; try (intros i o Hg; rewrite Hn in Hg; discriminate).
  - reflexivity.
  - cbn. rewrite Inv_val. lia.
  - split; [reflexivity|constructor].
Qed.

(** freed slots are reused before the pool grows *)
Lemma reuse_before_grow_lemma {V} (t t' : ObjectTree V) g opc th p :
  R t g -> newObject t opc th = Ok (t', p) ->
  ((exists i o, get t i = Some o /\ o_opcode o = opFreed) ->
      length (t_pool t') = length (t_pool t) /\
      (exists o, get t p = Some o /\ o_opcode o = opFreed) /\
      (exists o', get t' p = Some o' /\ o_opcode o' = opc)) /\
  ((forall i o, get t i = Some o -> o_opcode o <> opFreed) ->
      length (t_pool t') = S (length (t_pool t)) /\ p = N.of_nat (length (t_pool t))).
Proof.
  intros HR Hn. destruct (R_flist _ _ HR) as [Hfc _].
  unfold newObject in Hn.
  destruct (g_free g) as [|x rest] eqn:Egf; cbn [fchain] in Hfc.
  - rewrite Hfc, N.eqb_refl in Hn. cbn [bind] in Hn.
    destruct (pOpcodeTableIndex opc true) as [info| |]; cbn [bind] in Hn; try discriminate.
    unfold wr in Hn. destruct (deref _ _); cbn [bind] in Hn; try discriminate.
    inversion Hn; subst t' p. cbn [t_pool]. rewrite list_upd_length, app_length. cbn [length].
    split.
    + intros (i & o & Hg & Hf). destruct (R_freed _ _ HR _ _ Hg Hf) as [_ Hin]. rewrite Egf in Hin. contradiction.
    + intros _. split; [lia|reflexivity].
  - destruct Hfc as (Hhead & xo & Hx & Hxf & _).
    assert (Hxv : x <> InvalidIndex) by (eapply (R_pos_not_Inv t g HR); eauto).
    rewrite Hhead in Hn. apply N.eqb_neq in Hxv. rewrite Hxv in Hn. rewrite deref_get, Hx in Hn. cbn [bind] in Hn.
    destruct (pOpcodeTableIndex opc true) as [info| |]; cbn [bind] in Hn; try discriminate.
    set (t1 := mkTree (t_pool t) (o_next xo)) in *.
    assert (Hget1 : get t1 x = Some xo) by exact Hx.
    rewrite (wr_ok _ _ _ _ Hget1) in Hn. cbn [bind] in Hn. inversion Hn; subst t' p.
    split.
    + intros _. split; [rewrite tset_len; reflexivity|]. split; [eauto|].
      rewrite get_tset, N.eqb_refl, Hget1. cbn [option_map]. eexists. split; [reflexivity|]. reflexivity.
    + intros Hall. exfalso. eapply Hall; eauto.
Qed.

(** ---- a slot stays live as long as it is not freed (used for the root scope, slot 0) ---- *)
Lemma glive_astep g o i : glive g i -> o <> OpFree i -> glive (astep g o) i.
Proof.
  intros [Hlt Hnin] Hne.
  assert (Hsk : forall p l, glive (set_kids g p l) i).
  { intros p l. split; [rewrite set_kids_len; auto | exact Hnin]. }
  destruct o as [opc th|opc th nm|a b|a b c|a b|x]; cbn [astep]; auto.
  - destruct (g_free g) as [|y rest] eqn:E; split; cbn [g_kids g_free]; auto.
    + rewrite app_length. cbn [length]. lia.
    + intros Hin. apply Hnin. right. exact Hin.
  - destruct (g_free g) as [|y rest] eqn:E; split; cbn [g_kids g_free]; auto.
    + rewrite app_length. cbn [length]. lia.
    + intros Hin. apply Hnin. right. exact Hin.
  - assert (Hxi : x <> i) by (intros ->; apply Hne; reflexivity).
    destruct (parent_of g x) as [p|]; split; cbn [g_kids g_free]; try (rewrite set_kids_len); auto;
      intros [E|Hin]; auto.
Qed.

Lemma glive_arun ops : forall g i, glive g i -> ~ In (OpFree i) ops -> glive (arun g ops) i.
Proof.
  induction ops as [|o ops IH]; intros g i Hl Hn; cbn [arun]; auto.
  apply IH.
  - apply glive_astep; auto. intros ->. apply Hn. left. reflexivity.
  - intros Hin. apply Hn. right. exact Hin.
Qed.

(** From the empty tree: after any legal history that starts with a creation and never frees slot 0,
    the tree is well-formed and its root scope (slot 0) is live. *)
Lemma run_root_live {V} (o : op) (ops : list op) :
  legal_seq ghost0 (o :: ops) -> (exists opc th, o = OpNew opc th) \/ (exists opc th nm, o = OpNewNamed opc th nm) ->
  ~ In (OpFree 0) ops ->
  exists t', run (@NewObjectTree V) (o :: ops) = Ok t' /\ R t' (arun ghost0 (o :: ops)) /\ live t' 0.
Proof.
  intros HL Hnew Hnf.
  destruct (run_R (o :: ops) (@NewObjectTree V) ghost0 R_empty HL) as (t' & Hrun & HR').
  exists t'. split; auto. split; auto.
  apply (R_live_glive t' _ HR'). cbn [arun]. apply glive_arun; auto.
  destruct Hnew as [(opc & th & ->)|(opc & th & nm & ->)]; cbn [astep ghost0 g_free g_kids app]; split;
    cbn [g_kids g_free length In]; try lia; intros [].
Qed.
