(** C11 (fragment F3): ParseAML on top-level items with Scope directives over the predefined scopes. *)
From Coq Require Import NArith ZArith Arith List Bool Lia.
From Coq Require Import ZifyBool ZifyN ZifyNat.
From FF Require Import Lib.Word Gen.Consts_device_acpi_aml Gen.Consts_aml_tree Aml.Stream Aml.Lex Aml.LexProofs
  Aml.Tree Aml.TreeSpec Aml.TreeProofs Aml.TreeProofsOps Aml.TreeProofsFind Aml.Parser Aml.Grammar Aml.LexRoundtrip
  Aml.ParserTotalTree Aml.ParserTotalBase
  Aml.ParserFragBase Aml.ParserFragFirst Aml.ParserFragF0 Aml.ParserFragF0Shape Aml.ParserFragConn Aml.ParserFragF0Conn Aml.ParserFragWalk
  Aml.ParserFragF0Top Aml.ParserFragRose Aml.ParserFragDev Aml.ParserFragF1 Aml.ParserFragF1First Aml.ParserFragF1Conn Aml.ParserFragF1Top
  Aml.ParserFragMerge Aml.ParserFragScope Aml.ParserFragScope2 Aml.ParserFragScope3.
Import ListNotations.
Local Open Scope N_scope.

Ltac Zify.zify_post_hook ::= Z.div_mod_to_equations.

(** ---- sizes and bytes ---- *)
Lemma enc_titems_len l : (tcfuel l <= 3 * length (enc_titems l))%nat /\ (tszs l <= length (enc_titems l))%nat /\ (tcnts l <= length (enc_titems l))%nat /\
  (length l <= length (enc_titems l))%nat.
Proof.
  induction l as [|x t IHt]; [cbn; lia|]. destruct IHt as (A' & B' & C' & D').
  cbn [tcfuel tszs tcnts fold_right length]. fold (tcfuel t) (tszs t) (tcnts t). rewrite enc_titems_cons, app_length.
  destruct x as [it|k root d body]; cbn [tcfuel_item tsz tcnt enc_titem].
  - destruct (enc_item_len it) as (A & B & C). pose proof (isz_pos it). lia.
  - destruct (enc_items_len body) as (A & B & C). unfold sc_body. rewrite !app_length. change (length (enc_op OP_SCOPE)) with 1%nat.
    assert (Hn : (4 <= length (enc_name (sc_name root (dseg d))))%nat).
    { pose proof (lenN_sc_name root (dseg d)) as E. unfold lenN, sc_len in E. destruct root; lia. }
    assert (Hk : (1 <= length (enc_pkglen k (k + lenN (enc_name (sc_name root (dseg d)) ++ enc_items body))))%nat).
    { unfold enc_pkglen. destruct (k =? 1); cbn [length]; lia. }
    lia.
Qed.

Lemma enc_titems_bytes : forall l, forallb titem_okb l = true -> Forall (fun b => b < 256) (enc_titems l).
Proof.
  induction l as [|x t IH]; intros Hok; [constructor|]. cbn [forallb] in Hok. apply andb_prop in Hok. destruct Hok as [Hx Hok].
  rewrite enc_titems_cons. apply Forall_app. split; [|apply IH; exact Hok].
  destruct x as [it|k root d body]; cbn [titem_okb enc_titem] in *.
  - assert (E : enc_item it = enc_items [it]) by (cbn [enc_items flat_map]; rewrite app_nil_r; reflexivity). rewrite E.
    apply enc_items_bytes. cbn [forallb]. rewrite Hx. reflexivity.
  - apply andb_prop in Hx. destruct Hx as [Hx Hbody]. apply andb_prop in Hx. destruct Hx as [Hx Hpk]. apply pkglen_okb_adm in Hpk.
    apply Forall_app. split; [repeat constructor|]. apply Forall_app. split; [apply enc_pkglen_bytes; exact Hpk|].
    unfold sc_body. apply Forall_app. split; [|apply enc_items_bytes; exact Hbody].
    rewrite enc_sc_name. apply Forall_app. split; [destruct root; repeat constructor|apply seg_bytes_lt].
Qed.

(** ---- the first pass ---- *)
Theorem first_f3 ts fuel tree g pl h hdr a0 :
  let data := hdr ++ enc_titems ts in
  lenN hdr = aml_sizeofSDTHeader -> Forall (fun b => b < 256) data -> lenN data < two32 ->
  Rep tree g pl -> g_free g = [] -> N.of_nat (length pl) + N.of_nat (tszs ts) < InvalidIndex ->
  pget pl 0 = Some a0 -> y_op a0 <> opFreed -> forallb titem_okb ts = true -> (tcnts ts + 12 <= fuel)%nat ->
  wp False (first_pass fuel) (init_state tree [] h data) (fun res s' => res = ROk /\ exists t1 g1 pl1,
    s' = after_first t1 [] h data /\ Rep t1 g1 pl1 /\
    Post1 g pl g1 pl1 0 (tlay1 h 0 (N.of_nat (length pl)) aml_sizeofSDTHeader ts)).
Proof.
  intros data Hhdr Hbytes Hsmall H Hfree Hroom H0 Hl0 Hok Hfuel.
  assert (Hlen : lenN data = aml_sizeofSDTHeader + lenN (enc_titems ts)) by (unfold data; rewrite lenN_app, Hhdr; reflexivity).
  rewrite init_state_eq by lia.
  destruct fuel as [|f1]; [lia|].
  unfold first_pass. apply wp_bind. apply wp_scopeEnter. scbn.
  apply wp_parseObjectList_cont; [scbn; discriminate|].
  change (mkP (mkReader data (lenN data) aml_sizeofSDTHeader (lenN data)) tree [0] [lenN data] (lenN data) 0 0 0 false h ([] ++ [data]))
    with (st1 h data (lenN data) (lenN data) [data] aml_sizeofSDTHeader (lenN data) tree [0] [lenN data]).
  eapply (tispec_all h data (lenN data) (lenN data) [data] eq_refl Hsmall Hbytes ts f1 f1 aml_sizeofSDTHeader (lenN data) tree 0 [] [] g pl hdr [] a0 9%nat);
    [exact H|exact Hfree|exact Hroom|unfold data; rewrite app_nil_r; reflexivity|symmetry; exact Hhdr|rewrite Hhdr, Hlen; lia|lia|exact Hok|reflexivity|exact H0|exact Hl0|lia|lia|lia|].
  intros t1 g1 pl1 fo fi H1 P1 Hfi Hfo.
  destruct fi as [|fi']; [lia|]. apply wp_list_cont_S. unfold eofM, rq. apply wp_bind, wp_get.
  assert (Eeof : eof (p_r (st1 h data (lenN data) (lenN data) [data] (aml_sizeofSDTHeader + lenN (enc_titems ts)) (lenN data) t1 [0] [lenN data])) = true).
  { unfold eof. cbn [st1 p_r r_pkgEnd r_offset]. apply N.leb_le. lia. }
  rewrite Eeof. unfold list_end.
  apply wp_bind, wp_get. apply wp_bind, wp_get. scbn. cbn [length Nat.eqb].
  apply wp_bind. unfold wp at 1, scopeExit. scbn.
  apply wp_bind. unfold wp at 1, popPkgEnd. scbn. cbv zeta iota beta.
  destruct fo as [|fo']; [lia|]. rewrite parseObjectList_S. apply wp_bind, wp_get. scbn. apply wp_ret.
  split; [reflexivity|]. exists t1, g1, pl1. split; [|split; [exact H1|exact P1]].
  unfold after_first, st1. rewrite <- Hlen. reflexivity.
Qed.

Lemma pl0c_dpay i : 0 <= i <= 5 -> pget pl0c i = Some (dpay i).
Proof.
  intros Hi. assert (Hc : i = 0 \/ i = 1 \/ i = 2 \/ i = 3 \/ i = 4 \/ i = 5) by lia.
  destruct Hc as [ -> | [ -> | [ -> | [ -> | [ -> | -> ] ] ] ] ]; reflexivity.
Qed.

(** ---- connectNamedObjArgs on the whole tree ---- *)
Lemma pass2_f3 ts fuel t1 g1 pl1 hdr :
  let data := hdr ++ enc_titems ts in
  forallb titem_okb ts = true -> lenN hdr = aml_sizeofSDTHeader ->
  Rep t1 g1 pl1 -> Post1 g0c pl0c g1 pl1 0 (tlay1 1 0 6 aml_sizeofSDTHeader ts) ->
  (tcfuel ts + 24 <= fuel)%nat ->
  wp False (connectNamedObjArgs fuel 0) (after_first t1 [] 1 data) (fun r s' => r = ROk /\ exists t2 g2 pl2,
    s' = with_tree (after_first t1 [] 1 data) t2 /\ Rep t2 g2 pl2 /\
    MInv 1 0 g2 pl2 [] (fun _ => []) 6 aml_sizeofSDTHeader ts).
Proof.
  intros data Hok Hhdr H1 P1 Hfuel. destruct P1 as [A1 A2 A3 A4 A5 A6]. change (N.of_nat (length pl0c)) with 6 in *.
  set (s1 := after_first t1 [] 1 data).
  assert (Hp0 : pget pl1 0 = Some (scope_pay 0 [92; 0; 0; 0])) by (rewrite A6 by lia; reflexivity).
  assert (Hk0 : kids g1 0 = D0 ++ map ridx (tlay1 1 0 6 aml_sizeofSDTHeader ts) ++ []) by (rewrite A3, app_nil_r; reflexivity).
  destruct fuel as [|F]; [lia|]. rewrite connectNamedObjArgs_S.
  apply wp_bind. eapply wp_objectAt_rep; [exact H1|exact Hp0|discriminate|].
  apply wp_bind. eapply wp_rdf_rep; [exact H1|exact Hp0|discriminate|]. intros o0 _ _ _ Hlast. rewrite Hlast, A3.
  change (kids g0c 0) with D0.
  pose proof (tclen_le_tcfuel ts) as Hcl.
  eapply (tcspec_all 1 0 [data] data eq_refl ts 0 D0 [] 6 aml_sizeofSDTHeader s1 g1 pl1 F _ (F - tcfuel ts)%nat hdr []);
    [exact H1|exact Hk0|exact A4|exact Hp0|discriminate|left; lia|reflexivity|reflexivity|unfold data; rewrite app_nil_r; reflexivity|symmetry; exact Hhdr|exact Hok|lia|lia|].
  intros t2 g2 pl2 H2 [Q1 Q2 Q3 Q4]. rewrite app_nil_r in Q1.
  replace (F - tclen ts)%nat with (length D0 + S (S (F - tclen ts - 7)))%nat by (cbn [D0 length]; lia).
  assert (HD0 : forall d, In d D0 -> kids g2 d = [] /\ pget pl2 d = pget pl0c d).
  { intros d Hd. destruct (D0_facts d Hd) as (Hlt & Hne & _). change (N.of_nat 6) with 6 in Hlt.
    split; [rewrite Q3 by lia; rewrite A5 by lia; apply kids_g0c; exact Hne|rewrite Q4 by lia; apply A6; exact Hlt]. }
  eapply (conn_leaves D0 _ 0 (map ridx (tlay2 1 0 6 aml_sizeofSDTHeader ts)) _ g2 pl2); [exact H2|exact Q1| |].
  { intros d Hd. destruct (HD0 d Hd) as (E1 & E2). split; [exact E1|]. destruct (D0_facts d Hd) as (_ & _ & a & row & Ha & Hl & Hrow).
    exists a, row. rewrite E2. auto. }
  split; [reflexivity|]. exists t2, g2, pl2. split; [reflexivity|]. split; [exact H2|]. constructor.
  - rewrite Q1. reflexivity.
  - intros i Hi. rewrite Q4 by lia. rewrite A6 by lia. apply pl0c_dpay. exact Hi.
  - intros d Hd. apply HD0. unfold D0. cbn [In]. lia.
  - exact Q2.
  - constructor.
  - intros d Hd. constructor.
  - constructor.
  - intros d Hd. constructor.
  - intros y [].
  - intros d y Hd [].
  - lia.
  - intros y a Hy. lia.
  - intros y Hy. rewrite Q4 by lia. apply pget_none. rewrite A2, tlay1_rsizes. cbn [pl0c map length tree_defaultScopeNames]. lia.
Qed.

(** ---- mergeScopeDirectives on the whole tree ---- *)
Lemma dpay_merge_ok H0 d : merge_ok H0 (dpay d).
Proof. do 3 eexists. split; [reflexivity|right; reflexivity]. Qed.

(** the trees of earlier tables hold no Scope directive of this table *)
Lemma merge_forest g pl h (KT : list rose) : Forall (Desc g pl) KT -> Forall (rallr f1_okE) KT -> (forall y, In y (rnodesl KT) -> y <> 0) ->
  forall K1 K2 l1 l2 f s res (Q : pres -> pstate -> Prop), KT = K1 ++ K2 ->
  Rep (p_tree s) g pl -> p_handle s = h -> kids g 0 = l1 ++ map ridx K2 ++ l2 -> (3 * rsizes KT + length K2 <= f)%nat ->
  wp False (mergeScope_loop (f - length K2) (hd InvalidIndex l2) res) s Q ->
  wp False (mergeScope_loop f (hd InvalidIndex (map ridx K2 ++ l2)) res) s Q.
Proof.
  intros HD HO Hnz K1 K2. revert K1. induction K2 as [|c r IH]; intros K1 l1 l2 f s res Q EK H Hh Hk Hf K.
  - cbn [map app length] in *. rewrite Nat.sub_0_r in K. exact K.
  - cbn [map app length hd] in *. destruct f as [|f1]; [lia|].
    assert (Hc : In c KT) by (rewrite EK; apply in_or_app; right; left; reflexivity).
    assert (Dc : Desc g pl c) by (rewrite Forall_forall in HD; apply HD; exact Hc).
    assert (Hsz : (rsize c <= rsizes KT)%nat).
    { rewrite EK, rsizes_app. cbn [rsizes fold_right]. lia. }
    eapply (merge_step g pl h (fun y => In y (rnodesl KT)) f1 0 l1 (ridx c) (map ridx r ++ l2) res s).
    + refine (proj1 (mergeS_all g pl h (fun y => In y (rnodesl KT)) _ _ _ f1)).
      * intros y c' Hy Hc'. apply (forest_kids_in g pl KT HD y c' Hy Hc').
      * exact Hnz.
      * intros y a Hy Ha _. destruct (forest_lookup g pl KT HD HO y Hy) as (a2 & ks2 & D2 & O2).
        destruct (Desc_inv _ _ _ _ _ D2) as (P2 & _ & _). assert (a2 = a) by congruence. subst a2. exact (merge_ok_f1 h _ _ _ O2).
    + exact H.
    + exact Hh.
    + exact Hk.
    + unfold rnodesl. apply in_flat_map. exists c. split; [exact Hc|]. destruct c. rewrite rnodes_eq. left. reflexivity.
    + apply (fwalk_size g pl c Dc). lia.
    + apply (IH (K1 ++ [c]) (l1 ++ [ridx c]) l2 f1 s res Q); [rewrite EK, <- app_assoc; reflexivity|exact H|exact Hh|rewrite Hk, <- app_assoc; reflexivity|lia|].
      replace (f1 - length r)%nat with (S f1 - S (length r))%nat by lia. exact K.
Qed.

Lemma merge_rootG h tbl tbls data (Hnth : nth_error tbls (N.to_nat tbl) = Some data) ts KT0 b dpre dpost f s g pl :
  Rep (p_tree s) g pl -> MInv h tbl g pl KT0 (fun _ => []) b (lenN dpre) ts ->
  p_handle s = h -> p_tables s = tbls -> data = dpre ++ enc_titems ts ++ dpost -> forallb titem_okb ts = true ->
  (3 * rsizes KT0 + length KT0 + 3 * tszs ts + length ts + 40 <= f)%nat ->
  wp False (mergeScopeDirectives f 0) s (fun r s' => r = ROk /\ exists g' pl',
     Rep (p_tree s') g' pl' /\ p_handle s' = h /\ p_tables s' = tbls /\ p_relocatedObjects s' = p_relocatedObjects s /\
     MInv h tbl g' pl' (KT0 ++ keep h tbl b (lenN dpre) ts) (moved h tbl b (lenN dpre) ts) (b + N.of_nat (tszs ts)) (lenN dpre + lenN (enc_titems ts)) []).
Proof.
  intros H I Hh Htb Hdata Hok Hf.
  pose proof I as [I1 I2 I3 I4 I5 I6 I7 I8 I9 I10 I11 I12 I13].
  assert (Hp0 : pget pl 0 = Some (dpay 0)) by (apply I2; lia).
  destruct f as [|f0]; [lia|]. rewrite mergeScopeDirectives_S.
  apply wp_bind. eapply wp_objectAt_rep; [exact H|exact Hp0|discriminate|].
  apply wp_bind. eapply wp_rdf_rep; [exact H|exact Hp0|discriminate|]. intros o _ _ Hfirst _. rewrite Hfirst, I1. cbn [D0' app hd].
  apply wp_bind. change (0 =? 0) with true. cbv iota. unfold wp at 1.
  set (s0 := with_counters s (p_resolvePasses s) 0 (p_relocatedObjects s)).
  assert (H0 : Rep (p_tree s0) g pl) by exact H.
  apply wp_bind. eapply wp_rdo_rep; [exact H0|exact Hp0|discriminate|]. intros oo Hpay _ _ _.
  rewrite (pay_info _ _ Hpay). apply wp_bind. eapply (wp_info False 113); [reflexivity|]. cbv beta iota.
  change (hasFlag 0 aml_pOpFlagExecutable) with false. cbv iota.
  apply wp_bind, wp_get. rewrite (pay_op _ _ Hpay). change (y_op (dpay 0) =? aml_pOpScope) with false. cbn [andb].
  apply wp_bind, wp_ret. cbv iota.
  (* the five predefined scopes *)
  assert (HMW : forall n, MWs g pl h (fun y => 1 <= y <= 5) n).
  { intros n. refine (proj1 (mergeS_all g pl h (fun y => 1 <= y <= 5) _ _ _ n)).
    - intros y c Hy Hc. rewrite (I3 y Hy) in Hc. destruct Hc.
    - intros y Hy. lia.
    - intros y a Hy Ha _. rewrite (I2 y) in Ha by lia. inversion Ha. apply dpay_merge_ok. }
  assert (Hfw : forall d n, 1 <= d <= 5 -> (3 <= n)%nat -> fwalk g n d).
  { intros d n Hd Hn. apply (fwalk_size g pl (RN d (dpay d) [])); [apply leaf_desc; [apply I2; lia|apply (I3 d Hd)]|cbn; lia]. }
  set (rest0 := map ridx KT0 ++ map ridx (tlay2 h tbl b (lenN dpre) ts)) in *.
  destruct f0 as [|f1]; [lia|]. eapply (merge_step g pl h (fun y => 1 <= y <= 5) f1 0 [] 1 _ ROk s0); [apply HMW|exact H0|exact Hh|rewrite I1; reflexivity|cbv beta; lia|apply Hfw; lia|]. cbn [hd].
  destruct f1 as [|f2]; [lia|]. eapply (merge_step g pl h (fun y => 1 <= y <= 5) f2 0 [1] 2 _ ROk s0); [apply HMW|exact H0|exact Hh|rewrite I1; reflexivity|cbv beta; lia|apply Hfw; lia|]. cbn [hd].
  destruct f2 as [|f3]; [lia|]. eapply (merge_step g pl h (fun y => 1 <= y <= 5) f3 0 [1; 2] 3 _ ROk s0); [apply HMW|exact H0|exact Hh|rewrite I1; reflexivity|cbv beta; lia|apply Hfw; lia|]. cbn [hd].
  destruct f3 as [|f4]; [lia|]. eapply (merge_step g pl h (fun y => 1 <= y <= 5) f4 0 [1; 2; 3] 4 _ ROk s0); [apply HMW|exact H0|exact Hh|rewrite I1; reflexivity|cbv beta; lia|apply Hfw; lia|]. cbn [hd].
  destruct f4 as [|f5]; [lia|]. eapply (merge_step g pl h (fun y => 1 <= y <= 5) f5 0 [1; 2; 3; 4] 5 _ ROk s0); [apply HMW|exact H0|exact Hh|rewrite I1; reflexivity|cbv beta; lia|apply Hfw; lia|]. cbn [hd].
  (* the trees of the earlier tables *)
  unfold rest0.
  eapply (merge_forest g pl h KT0 I5 I7 (fun y Hy => ltac:(pose proof (I9 y Hy); lia)) [] KT0 D0' _ f5 s0 ROk);
    [reflexivity|exact H0|exact Hh|rewrite I1; reflexivity|lia|].
  eapply (mspec_all h tbl tbls data Hnth ts KT0 (fun _ => []) b (lenN dpre) s0 g pl _ 4%nat dpre dpost);
    [exact H0|exact I|exact Hh|exact Htb|exact Hdata|reflexivity|exact Hok|lia|lia|].
  intros t' g' pl' m' H' I'.
  destruct (f5 - length KT0 - length ts)%nat as [|f6] eqn:Ef; [lia|]. rewrite mergeScope_loop_S. rewrite N.eqb_refl. apply wp_ret.
  split; [reflexivity|]. exists g', pl'. split; [exact H'|]. split; [exact Hh|]. split; [exact Htb|]. split; [reflexivity|]. exact I'.
Qed.

Lemma merge_root ts hdr f s g pl :
  let data := hdr ++ enc_titems ts in
  Rep (p_tree s) g pl -> MInv 1 0 g pl [] (fun _ => []) 6 aml_sizeofSDTHeader ts ->
  p_handle s = 1 -> p_tables s = [data] -> lenN hdr = aml_sizeofSDTHeader -> forallb titem_okb ts = true ->
  (3 * tszs ts + length ts + 40 <= f)%nat ->
  wp False (mergeScopeDirectives f 0) s (fun r s' => r = ROk /\ exists g' pl',
     Rep (p_tree s') g' pl' /\ p_handle s' = 1 /\ p_tables s' = [data] /\ p_relocatedObjects s' = p_relocatedObjects s /\
     MInv 1 0 g' pl' (keep 1 0 6 aml_sizeofSDTHeader ts) (moved 1 0 6 aml_sizeofSDTHeader ts) (6 + N.of_nat (tszs ts)) (aml_sizeofSDTHeader + lenN (enc_titems ts)) []).
Proof.
  intros data H I Hh Htb Hhdr Hok Hf. rewrite <- Hhdr in I |- *.
  apply (merge_rootG 1 0 [data] data eq_refl ts [] 6 hdr [] f s g pl H I Hh Htb); [unfold data; rewrite app_nil_r; reflexivity|exact Hok|cbn [rsizes fold_right length]; lia].
Qed.

(** ---- the final tree ---- *)
Definition root_tree3 (ts : list titem) : rose :=
  RN 0 (dpay 0) (map (fun d => RN d (dpay d) (moved 1 0 6 aml_sizeofSDTHeader ts d)) D0' ++ keep 1 0 6 aml_sizeofSDTHeader ts).

Lemma keep_moved_size h tbl : forall ts b off,
  (rsizes (keep h tbl b off ts) + (rsizes (moved h tbl b off ts 1) + rsizes (moved h tbl b off ts 2) + rsizes (moved h tbl b off ts 3) + rsizes (moved h tbl b off ts 4) + rsizes (moved h tbl b off ts 5)) <= tszs ts)%nat.
Proof.
  induction ts as [|x t IH]; intros b off; [cbn; lia|].
  specialize (IH (b + N.of_nat (tsz x)) (off + lenN (enc_titem x))).
  cbn [keep moved]. rewrite !rsizes_app, tszs_cons. destruct x as [it|k root d body]; cbn [tsz].
  - assert (E : rsizes (lay2_item h tbl b off it) = isz it).
    { pose proof (lay2_rsizes h tbl [it] b off) as E. rewrite lay2_single in E. cbn [iszs fold_right] in E. lia. }
    rewrite E. cbn [rsizes fold_right tsz] in *. lia.
  - pose proof (lay2_rsizes h tbl body (b + 3) (off + 1 + k + sc_len root)) as E.
    destruct (N.eqb_spec d 1); destruct (N.eqb_spec d 2); destruct (N.eqb_spec d 3); destruct (N.eqb_spec d 4); destruct (N.eqb_spec d 5);
      try lia; cbn [rsizes fold_right tsz] in *; lia.
Qed.

Lemma root_tree3_size ts : (rsize (root_tree3 ts) <= 6 + tszs ts)%nat.
Proof.
  unfold root_tree3. rewrite rsize_eq, rsizes_app. cbn [D0' map rsizes fold_right]. rewrite !rsize_eq.
  pose proof (keep_moved_size 1 0 ts 6 aml_sizeofSDTHeader). unfold rsizes in *. lia.
Qed.

Definition root_treeG (KT : list rose) (M : N -> list rose) : rose :=
  RN 0 (dpay 0) (map (fun d => RN d (dpay d) (M d)) D0' ++ KT).

Lemma root_treeG_facts h tbl g pl KT M B off :
  MInv h tbl g pl KT M B off [] ->
  Desc g pl (root_treeG KT M) /\ rallr f1_okE (root_treeG KT M) /\
  (forall y a, pget pl y = Some a -> y_op a <> opFreed -> In y (rnodes (root_treeG KT M))).
Proof.
  intros [I1 I2 I3 I4 I5 I6 I7 I8 I9 I10 I11 I12 I13]. cbn [tlay2 map] in I1. rewrite app_nil_r in I1.
  assert (HD5 : forall d, 1 <= d <= 5 -> Desc g pl (RN d (dpay d) (M d))).
  { intros d Hd. constructor; [apply I2; lia|apply I3; exact Hd|apply I6; exact Hd]. }
  assert (HO5 : forall d, 1 <= d <= 5 -> rallr f1_okE (RN d (dpay d) (M d))).
  { intros d Hd. constructor; [apply dflt_okE|apply I8; exact Hd]. }
  split; [|split].
  - unfold root_treeG. constructor; [apply I2; lia|rewrite I1, map_app; reflexivity|].
    apply Forall_app. split; [|exact I5]. cbn [D0' map]. repeat (constructor; [apply HD5; lia|]). constructor.
  - unfold root_treeG. constructor; [apply dflt_okE|].
    apply Forall_app. split; [|exact I7]. cbn [D0' map]. repeat (constructor; [apply HO5; lia|]). constructor.
  - intros y a Hy Hl. unfold root_treeG. rewrite rnodes_eq, rnodesl_app.
    assert (Hleaf : forall d, 1 <= d <= 5 -> In y (rnodesl (M d)) ->
              In y (rnodesl (map (fun d => RN d (dpay d) (M d)) D0'))).
    { intros d Hd Hin. unfold rnodesl at 1. apply in_flat_map. exists (RN d (dpay d) (M d)). split.
      - apply in_map_iff. exists d. split; [reflexivity|]. unfold D0'. cbn [In]. lia.
      - rewrite rnodes_eq. right. exact Hin. }
    destruct (N.ltb_spec y 6) as [Hlt|Hge].
    + destruct (N.eqb_spec y 0) as [->|Hy0]; [left; reflexivity|]. right. apply in_or_app. left.
      unfold rnodesl. apply in_flat_map. exists (RN y (dpay y) (M y)). split.
      * apply in_map_iff. exists y. split; [reflexivity|]. unfold D0'. cbn [In]. lia.
      * rewrite rnodes_eq. left. reflexivity.
    + destruct (N.ltb_spec y B) as [HltB|HgeB].
      * destruct (I12 y a ltac:(lia) Hy Hl) as [A|(d & Hd & A)]; right; apply in_or_app; [right; exact A|left; apply (Hleaf d Hd A)].
      * rewrite I13 in Hy by (cbn [tszs fold_right]; lia). discriminate.
Qed.

Lemma root_tree3_facts g pl ts B off :
  MInv 1 0 g pl (keep 1 0 6 aml_sizeofSDTHeader ts) (moved 1 0 6 aml_sizeofSDTHeader ts) B off [] ->
  Desc g pl (root_tree3 ts) /\ rallr f1_okE (root_tree3 ts) /\
  (forall y a, pget pl y = Some a -> y_op a <> opFreed -> In y (rnodes (root_tree3 ts))).
Proof. apply root_treeG_facts. Qed.

(** ---- passes 3 to 6, the merge being given ---- *)
Lemma rest_generic2 fuel s (H0 : N) (P : ghost -> list pay -> Prop) :
  (forall t g pl, Rep t g pl -> P g pl -> exists R0 a0, Desc g pl R0 /\ ridx R0 = 0 /\ pget pl 0 = Some a0 /\ y_op a0 <> opFreed /\
     (forall y a, pget pl y = Some a -> y_op a <> opFreed ->
        merge_ok H0 a /\ defer_ok H0 a /\ reloc_ok g pl H0 y a /\ nonnamed_ok g H0 y a /\ calls_ok g H0 y a) /\
     (3 * rsize R0 + 1 <= fuel)%nat) ->
  wp False (mergeScopeDirectives fuel 0) (with_counters s 1 (p_mergedScopes s) (p_relocatedObjects s)) (fun r s' => r = ROk /\
     exists g pl, Rep (p_tree s') g pl /\ P g pl /\ p_handle s' = H0 /\ p_tables s' = p_tables s /\ p_relocatedObjects s' = 0) ->
  wp False (rest_passes fuel) s (fun b s' => b = true /\ exists g pl, Rep (p_tree s') g pl /\ P g pl /\ p_tables s' = p_tables s).
Proof.
  intros HP Hmerge. unfold rest_passes.
  apply wp_bind. unfold wp at 1.
  destruct fuel as [|F]. { unfold wp in Hmerge. cbn in Hmerge. contradiction. }
  apply wp_bind. rewrite resolve_loop_S.
  apply wp_bind. eapply wp_conseq; [exact Hmerge|].
  intros r s3 (-> & g & pl & H3 & HPg & Hh & Htb & Hr3). change (pres_eqb ROk RFailed) with false. cbv iota.
  destruct (HP _ g pl H3 HPg) as (R0 & a0 & HD & Hr0 & Hp0' & Hl0 & Hc & Hfuel).
  assert (Hfw : fwalk g (S F) 0) by (rewrite <- Hr0; apply (fwalk_size g pl R0 HD); lia).
  assert (Hfwb : fwalkb g (S F) 0) by (rewrite <- Hr0; apply (fwalkb_size g pl R0 HD); lia).
  apply wp_bind. eapply wp_conseq.
  { apply (proj1 (reloc_all g pl H0 (fun y a A B => proj1 (proj2 (proj2 (Hc y a A B)))) (S F)) 0 _ s3 H3 Hh Hr3 Hp0' Hl0 Hfw). }
  intros r s' (-> & ->). change (pres_eqb ROk RFailed) with false. change (pres_eqb ROk ROk && pres_eqb ROk ROk) with true. cbv iota.
  apply wp_ret. change (negb (pres_eqb ROk ROk)) with false. cbv iota.
  apply wp_bind. eapply wp_conseq.
  { apply (proj1 (defer_all g pl H0 (fun y a A B => proj1 (proj2 (Hc y a A B))) (S F)) (S F) 0 _ s3 H3 Hh Hp0' Hl0 Hfw). }
  intros r s' (-> & ->). change (negb (pres_eqb ROk ROk)) with false. cbv iota.
  apply wp_bind. eapply wp_conseq.
  { apply (proj1 (calls_all g pl H0 (fun y a A B => proj2 (proj2 (proj2 (proj2 (Hc y a A B))))) (S F)) 0 _ s3 H3 Hh Hp0' Hl0 Hfwb). }
  intros r s' (-> & ->). change (negb (pres_eqb ROk ROk)) with false. cbv iota.
  apply wp_bind. eapply wp_conseq.
  { apply (proj1 (nonnamed_all g pl H0 (fun y a A B => proj1 (proj2 (proj2 (proj2 (Hc y a A B))))) (S F)) 0 _ s3 H3 Hh Hp0' Hl0 Hfwb). }
  intros r s' (-> & ->). change (negb (pres_eqb ROk ROk)) with false. cbv iota.
  apply wp_ret. split; [reflexivity|]. exists g, pl. split; [exact H3|]. split; [exact HPg|exact Htb].
Qed.

(** ---- ParseAML ---- *)
Theorem parse_f3 ts t0 :
  forallb titem_okb ts = true -> lenN (enc_titems ts) < 0x10000000 -> Rep t0 g0c pl0c ->
  exists s' gF plF,
    parseAML t0 [] 1 (table_image (enc_titems ts)) = Ok (true, s') /\
    Rep (p_tree s') gF plF /\ Desc gF plF (root_tree3 ts) /\ p_tables s' = [table_image (enc_titems ts)].
Proof.
  intros Hok Hsz H0.
  destruct (enc_titems_len ts) as (Hcf & Hsz' & Hcn & Hln).
  rewrite table_image_hdr. set (hdr := hdr_of (enc_titems ts)). set (data := hdr ++ enc_titems ts).
  assert (Hhdr : lenN hdr = aml_sizeofSDTHeader) by reflexivity.
  assert (HlenD : lenN data = aml_sizeofSDTHeader + lenN (enc_titems ts)) by (unfold data; rewrite lenN_app, Hhdr; reflexivity).
  assert (Hpool : length (t_pool t0) = 6%nat) by (rewrite <- (rep_len_pool _ _ _ H0); reflexivity).
  unfold parseAML. rewrite Hpool.
  set (fuel := parse_fuel (length data + 6)).
  assert (Hfuel : (400 + 8 * length (enc_titems ts) <= fuel)%nat).
  { unfold fuel, parse_fuel. unfold lenN in *. change aml_sizeofSDTHeader with 36 in HlenD. lia. }
  clearbody fuel.
  assert (Hgoal : wp False (parseAML_body fuel) (init_state t0 [] 1 data) (fun b s' => b = true /\
            exists gF plF, Rep (p_tree s') gF plF /\ Desc gF plF (root_tree3 ts) /\ p_tables s' = [data])).
  2:{ destruct (wp_run _ _ _ Hgoal) as (b & s' & E & -> & gF & plF & A & B & C). exists s', gF, plF. auto. }
  unfold wp. rewrite parseAML_body_eq.
  match goal with |- match ?m ?s with _ => _ end => change (wp False m s (fun b s' => b = true /\
            exists gF plF, Rep (p_tree s') gF plF /\ Desc gF plF (root_tree3 ts) /\ p_tables s' = [data])) end.
  (* the first pass *)
  apply wp_bind. eapply wp_conseq.
  { eapply (first_f3 ts fuel t0 g0c pl0c 1 hdr (scope_pay 0 [92; 0; 0; 0])); [exact Hhdr| | |exact H0|reflexivity| |reflexivity|discriminate|exact Hok|lia].
    - apply Forall_app. split; [apply hdr_bytes|apply enc_titems_bytes; exact Hok].
    - fold data. rewrite HlenD. unfold two32. change aml_sizeofSDTHeader with 36. lia.
    - cbn [pl0c map length tree_defaultScopeNames]. change InvalidIndex with 0xffffffff. unfold lenN in *. lia. }
  intros res s1 (-> & t1 & g1 & pl1 & -> & H1 & P1). fold data in H1, P1 |- *.
  change (pres_eqb ROk RFailed) with false. cbv iota. change (N.of_nat (length pl0c)) with 6 in P1.
  (* connectNamedObjArgs *)
  apply wp_bind. eapply wp_conseq.
  { apply (pass2_f3 ts fuel t1 g1 pl1 hdr Hok Hhdr H1 P1). lia. }
  intros r s2 (-> & t2 & g2 & pl2 & -> & H2 & I2).
  change (negb (pres_eqb ROk ROk)) with false. cbv iota.
  (* the remaining passes *)
  set (s2 := with_tree (after_first t1 [] 1 data) t2).
  eapply wp_conseq.
  { apply (rest_generic2 fuel s2 1 (fun g pl => exists B off, MInv 1 0 g pl (keep 1 0 6 aml_sizeofSDTHeader ts) (moved 1 0 6 aml_sizeofSDTHeader ts) B off [])).
    - intros t g pl Hrep (B & off & I). destruct (root_tree3_facts g pl ts B off I) as (D3 & O3 & C3).
      exists (root_tree3 ts), (dpay 0). split; [exact D3|]. split; [reflexivity|]. split; [apply (Desc_inv _ _ _ _ _ D3)|]. split; [discriminate|].
      split; [|pose proof (root_tree3_size ts); lia].
      apply (f1_conds t g pl (root_tree3 ts) 1 Hrep D3 O3 C3).
    - eapply wp_conseq.
      { apply (merge_root ts hdr fuel (with_counters s2 1 (p_mergedScopes s2) (p_relocatedObjects s2)) g2 pl2); [exact H2|exact I2|reflexivity|reflexivity|exact Hhdr|exact Hok|lia]. }
      intros r s3 (-> & g3 & pl3 & H3 & Hh3 & Htb3 & Hr3 & I3). split; [reflexivity|]. exists g3, pl3.
      split; [exact H3|]. split; [do 2 eexists; exact I3|]. split; [exact Hh3|]. split; [exact Htb3|]. rewrite Hr3. reflexivity. }
  intros b s3 (-> & g3 & pl3 & H3 & (B & off & I3) & Etb). split; [reflexivity|]. exists g3, pl3.
  split; [exact H3|]. split; [apply (root_tree3_facts g3 pl3 ts B off I3)|exact Etb].
Qed.
