(** C12 (stretch): parseDeferredBlocks - the deferred blocks are parsed in parseModeAllBlocks, where every argument is parsed,
    term lists in line, names are resolved while parsing and a resolved Method makes the parser read its argument count from the
    Method object.  Never a panic; the tree relation and the invariants hold again. *)
From Coq Require Import NArith Arith List Bool Lia.
From Coq Require Import ZifyBool ZifyN ZifyNat.
From FF Require Import Lib.Word Gen.Consts_device_acpi_aml Gen.Consts_aml_tree Aml.Stream Aml.Lex Aml.LexProofs
  Aml.Tree Aml.Parser Aml.ParserProofs Aml.TreeSpec Aml.TreeProofs Aml.TreeProofsOps Aml.TreeProofsFind Aml.TreeProofsAnc
  Aml.ParserTotalTree Aml.ParserTotalTree2 Aml.ParserTotalLex Aml.ParserTotalTable Aml.ParserTotalBase Aml.ParserTotalLeaf
  Aml.ParserTotalFrame Aml.ParserTotalLeaf2 Aml.ParserTotalFirst Aml.ParserTotalConn.
Import ListNotations.
Local Open Scope N_scope.

(** ---- facts about the opcode table ---- *)
Definition unpaid (ty : N) : bool := (ty =? aml_pArgTypeTermList) || (ty =? aml_pArgTypeByteList).

Definition row_unpaid_check (row : list N) : bool :=
  match row with
  | [op; fl; af] => forallb (fun j => negb (unpaid (argType af j)) || (argCount af <=? j + 1)) idx8
  | _ => true
  end.
Lemma rows_unpaid_ok : forallb row_unpaid_check aml_opcodeTable = true.
Proof. vm_compute. reflexivity. Qed.

(** a TermList / ByteList argument is the last argument of its row *)
Lemma unpaid_last ii op fl af j : opInfo ii = Some (op, fl, af) -> j < 8 -> unpaid (argType af j) = true -> argCount af <= j + 1.
Proof.
  intros Hi Hj Hu. pose proof (proj1 (forallb_forall _ _) rows_unpaid_ok _ (opInfo_In _ _ _ _ Hi)) as H.
  cbn [row_unpaid_check] in H. pose proof (proj1 (forallb_forall _ _) H j (In_idx8 j Hj)) as H'. cbv beta in H'.
  rewrite Hu in H'. cbn [negb orb] in H'. apply N.leb_le in H'. exact H'.
Qed.

Definition strict_cond (op : N) : bool := isType2 op || isDataObject op || isArg op.
Definition strict_check (op : N) : bool :=
  negb (strict_cond op) ||
  (negb (op =? aml_pOpMethod) &&
   match opcodeTableIndex op true with
   | Some i => match opInfo i with Some (_, _, af) => no_fieldlist af | None => false end
   | None => false
   end).
Lemma strict_ok : forallb strict_check ops511 = true.
Proof. vm_compute. reflexivity. Qed.

(** the operators a strict term argument may start with take no FieldList and are not Method *)
Lemma strict_facts op i o fl af :
  op <= 0x1fe -> strict_cond op = true -> opcodeTableIndex op true = Some i -> opInfo i = Some (o, fl, af) ->
  op <> aml_pOpMethod /\ forall k, k < 8 -> argType af k <> aml_pArgTypeFieldList.
Proof.
  intros Hop Hc Hi Hr. pose proof (proj1 (forallb_forall _ _) strict_ok op (In_ops511 op Hop)) as H.
  unfold strict_check in H. rewrite Hc, Hi, Hr in H. cbn [negb orb] in H. apply andb_prop in H. destruct H as (H1 & H2).
  split; [apply negb_true_iff in H1; apply N.eqb_neq in H1; exact H1|].
  intros k Hk E. pose proof (proj1 (forallb_forall _ _) H2 k (In_idx8 k Hk)) as H'. cbv beta in H'.
  rewrite E, N.eqb_refl in H'. discriminate.
Qed.

Definition methodIdx : N := 13.
Definition methodAF : N := 17107215.
Lemma method_row : opcodeTableIndex aml_pOpMethod true = Some methodIdx /\ opInfo methodIdx = Some (aml_pOpMethod, 33, methodAF) /\
  argCount methodAF = 4 /\ argType methodAF 0 = aml_pArgTypePkgLen /\ argType methodAF 1 = aml_pArgTypeNameString /\
  argType methodAF 2 = aml_pArgTypeByteData /\ argType methodAF 3 = aml_pArgTypeTermList.
Proof. vm_compute. repeat split; reflexivity. Qed.

Lemma byteprefix_row : exists i fl af, opcodeTableIndex aml_pOpBytePrefix true = Some i /\ opInfo i = Some (aml_pOpBytePrefix, fl, af) /\
  hasFlag fl aml_pOpFlagDeferParsing = false /\ no_fieldlist af = true.
Proof. exists 4, 2, 5. vm_compute. repeat split; reflexivity. Qed.

Lemma no_fieldlist_sound af : no_fieldlist af = true -> forall k, k < 8 -> argType af k <> aml_pArgTypeFieldList.
Proof.
  intros H k Hk E. pose proof (proj1 (forallb_forall _ _) H k (In_idx8 k Hk)) as H'. cbv beta in H'. rewrite E, N.eqb_refl in H'. discriminate.
Qed.

(** ---- the whole-parser invariant of ParserProofs rides along: a bind rule that regenerates it ---- *)
Section Defer.
Variable tbls : list (list N).
Notation IV := (Inv tbls).
Notation hoareT m := (hoare tbls m (fun _ => True)).

Lemma wp_bind_hoare {A B} P (m : M A) (f : A -> M B) s (Q : B -> pstate -> Prop) (Q2 : A -> Prop) :
  IV s -> hoare tbls m Q2 ->
  wp P m s (fun a s1 => IV s1 -> Q2 a -> wp P (f a) s1 Q) -> wp P (bindM m f) s Q.
Proof.
  intros I Hh H. unfold wp, bindM in *. destruct (m s) as [[a s1]| |] eqn:E; auto.
  destruct (Hh s a s1 I E) as (I1 & Q2a). apply H; auto.
Qed.

Lemma wp_bind_inv {A B} P (m : M A) (f : A -> M B) s (Q : B -> pstate -> Prop) :
  IV s -> hoareT m -> wp P m s (fun a s1 => IV s1 -> wp P (f a) s1 Q) -> wp P (bindM m f) s Q.
Proof.
  intros I Hh H. apply (wp_bind_hoare P m f s Q (fun _ => True) I Hh).
  eapply wp_weaken; [exact H|auto|]. intros a s1 K I1 _. apply K. exact I1.
Qed.

Lemma hoare_block fuel :
  hoareT (parseNextObject fuel) /\ (forall c, hoareT (parseObjectArgs fuel c)) /\
  (forall inf c i, hoareT (parseArgs fuel inf c i)) /\ (forall inf c ty, hoareT (parseArg fuel inf c ty)) /\
  hoareT (termList_go fuel) /\ hoareT (parseNamePathOrMethodCall fuel) /\ (forall n, hoareT (callArgs_go fuel n)) /\
  (forall c, hoareT (parseStrictTermArg fuel c)) /\ hoareT (parseTarget fuel).
Proof. exact (block1_all tbls fuel). Qed.


(** ---- measures, frame, invariants of the mode ---- *)
Notation FD := (FIm true).

(** a generous potential: eight objects per byte that is left *)
Definition Psi (s : pstate) : N := lp s + 8 * rem s.
Definition roomD (k : N) (s : pstate) : Prop := Psi s + 6 + k <= InvalidIndex.

Record ExtD (s0 : pstate) (g0 : ghost) (s : pstate) (g : ghost) : Prop := mkExtD {
  xd_g : gext g0 g;
  xd_len : r_len (p_r s) = r_len (p_r s0);
  xd_off : r_offset (p_r s0) <= r_offset (p_r s);
  xd_scopes : exists extra, p_scopeStack s = extra ++ p_scopeStack s0
}.

Lemma ExtD_refl s g : ExtD s g s g.
Proof. constructor; [apply gext_refl|reflexivity|lia|exists []; reflexivity]. Qed.

Lemma ExtD_trans s0 g0 s1 g1 s2 g2 : ExtD s0 g0 s1 g1 -> ExtD s1 g1 s2 g2 -> ExtD s0 g0 s2 g2.
Proof.
  intros [A1 A2 A3 (e1 & A4)] [B1 B2 B3 (e2 & B4)]. constructor; [eapply gext_trans; eauto|congruence|lia|].
  exists (e2 ++ e1). rewrite B4, A4. apply app_assoc.
Qed.

Lemma Ext_ExtD s0 g0 s g : Ext s0 g0 s g -> ExtD s0 g0 s g.
Proof. intros [A1 A2 A3 A4 _ _]. constructor; auto. Qed.

Lemma at_ExtD s s' k c g g' : at_ s s' k c -> gext g g' -> ExtD s g s' g'.
Proof. intros A G. apply Ext_ExtD. eapply at_Ext; eauto. Qed.

Lemma at_Psi s s' k c : at_ s s' k c -> Psi s' + 8 * k <= Psi s + c.
Proof. intros (A1 & A2 & A3 & A4 & A5 & A6). unfold Psi, rem. lia. Qed.

(** Method objects: the second argument is the number that methodArgCountPanic reads; neither of the first two arguments is an
    object whose arguments are parsed later (no Defer flag), so nothing is ever inserted in front of the second *)
Definition nodefer (o : Obj) : Prop :=
  forall op fl af, opInfo (o_infoIndex o) = Some (op, fl, af) ->
    hasFlag fl aml_pOpFlagDeferParsing = false /\ forall k, k < 8 -> argType af k <> aml_pArgTypeFieldList.

(** [mx]: the concrete typing - the first argument is a CHILDLESS pOpIntNamePath object with the name-path row, the second a
    pOpBytePrefix object with its row (so that the last two passes of ParseAML never take the second argument away) *)
Definition mx (g : ghost) (a0 : N) (a0o a1o : Obj) : Prop :=
  o_opcode a0o = aml_pOpIntNamePath /\ o_infoIndex a0o = npIdx /\ kids g a0 = [] /\
  o_opcode a1o = aml_pOpBytePrefix /\ o_infoIndex a1o = bpIdx.

Definition mtyped (s : pstate) (g : ghost) (m : N) : Prop :=
  exists a0 a1 rest a0o a1o v, kids g m = a0 :: a1 :: rest /\
    tget (p_tree s) a0 = Some a0o /\ nodefer a0o /\
    tget (p_tree s) a1 = Some a1o /\ o_value a1o = Some (VNum v) /\ nodefer a1o /\ mx g a0 a0o a1o.

(** [c] does not carry the name-path row (so it is not the first argument of a typed Method) *)
Definition nnp (s : pstate) (c : N) : Prop := forall co, tget (p_tree s) c = Some co -> o_infoIndex co <> npIdx.

Lemma mx_pnv g g' a0 (a0o a0o' a1o a1o' : Obj) : pnv a0o a0o' -> pnv a1o a1o' -> kids g' a0 = kids g a0 -> mx g a0 a0o a1o -> mx g' a0 a0o' a1o'.
Proof.
  intros (A1 & A2 & _) (B1 & B2 & _) Ek (C1 & C2 & C3 & C4 & C5). unfold mx. rewrite A1, A2, B1, B2, Ek. auto.
Qed.

Definition TM (X : N -> Prop) (s : pstate) (g : ghost) : Prop :=
  forall m mo, tget (p_tree s) m = Some mo -> o_opcode mo = aml_pOpMethod -> ~ X m -> mtyped s g m.

Definition NoX : N -> Prop := fun _ => False.

Lemma TM_weaken (X X' : N -> Prop) s g :
  (forall m mo, tget (p_tree s) m = Some mo -> o_opcode mo = aml_pOpMethod -> X m -> X' m) -> TM X s g -> TM X' s g.
Proof. intros Hs H m mo Hm Hop Hx. apply (H m mo Hm Hop). intros F. apply Hx. eapply Hs; eauto. Qed.

Lemma TM_tree_eq X s g s' : TM X s g -> p_tree s' = p_tree s -> TM X s' g.
Proof. intros H E m mo Hm Hop Hx. rewrite E in Hm. destruct (H m mo Hm Hop Hx) as (a0 & a1 & rest & a0o & a1o & v & K).
  exists a0, a1, rest, a0o, a1o, v. rewrite E. exact K. Qed.

Lemma nnp_keep P s g s' c : keep P s g s' -> R (p_tree s) g -> glive g c -> nnp s c -> nnp s' c.
Proof.
  intros K HR Hl Hn co' Hco'. destruct (R_live_glive _ _ HR c) as (_ & Hlv). destruct (Hlv Hl) as (co & Hco & _).
  destruct (K c co Hl Hco) as (co2 & Hco2 & (_ & E2 & _) & _). assert (co2 = co') by congruence. subst. rewrite E2. apply (Hn co Hco).
Qed.

Lemma nodefer_pnv (o o' : Obj) : pnv o o' -> nodefer o -> nodefer o'.
Proof. intros (_ & E & _) H op fl af Hr. rewrite E in Hr. eapply H; eauto. Qed.

Lemma glive_dec g x : glive g x \/ ~ glive g x.
Proof.
  unfold glive. destruct (N.ltb_spec x (N.of_nat (length (g_kids g)))) as [H|H]; [|right; intros (A & _); lia].
  destruct (in_dec N.eq_dec x (g_free g)) as [Hi|Hi]; [right; intros (_ & B); contradiction|left; split; auto].
Qed.

(** one typed Method survives a frame in which its child list keeps its first two elements and these keep their values *)
Lemma mtyped_frame (P XX E : N -> Prop) s g s' g' m :
  gwf g -> Fr P XX E s g s' g' -> glive g m ->
  (E m -> forall a0 a1 rest, kids g m = a0 :: a1 :: rest -> exists rest', kids g' m = a0 :: a1 :: rest') ->
  (E m \/ ~ E m) ->
  (forall i o, P i -> tget (p_tree s) i = Some o -> ~ nodefer o) ->
  (forall i, XX i -> nnp s i) -> (forall y, E y -> kids g y <> []) ->
  mtyped s g m -> mtyped s' g' m.
Proof.
  intros Hwf [K G] Hl HE Hdec HP HXn HEk (a0 & a1 & rest & a0o & a1o & v & Hk & Ha0 & Hn0 & Ha1 & Hv & Hn1 & Hmx).
  assert (Hk' : exists rest', kids g' m = a0 :: a1 :: rest').
  { destruct Hdec as [Em|Em]; [apply (HE Em a0 a1 rest Hk)|].
    destruct (G m Hl Em) as ((extra & Ek) & _). exists (rest ++ extra). rewrite Ek, Hk. reflexivity. }
  destruct Hk' as (rest' & Ek).
  assert (Hl0 : glive g a0) by (apply (Hwf m a0); rewrite Hk; left; reflexivity).
  assert (Hl1 : glive g a1) by (apply (Hwf m a1); rewrite Hk; right; left; reflexivity).
  destruct (K a0 a0o Hl0 Ha0) as (a0o' & Ha0' & E0 & _).
  destruct (K a1 a1o Hl1 Ha1) as (a1o' & Ha1' & E1 & V1).
  exists a0, a1, rest', a0o', a1o', v. split; [exact Ek|].
  split; [exact Ha0'|]. split; [eapply nodefer_pnv; eauto|]. split; [exact Ha1'|].
  split; [rewrite V1; [exact Hv|]; intros F; apply (HP a1 a1o F Ha1); exact Hn1|]. split; [eapply nodefer_pnv; eauto|].
  apply (mx_pnv g g' a0 a0o a0o' a1o a1o' E0 E1); [|exact Hmx].
  destruct Hmx as (_ & M2 & M3 & _).
  destruct (G a0 Hl0) as (_ & Hex); [intros F; apply (HEk a0 F); exact M3|]. apply Hex. intros F. apply (HXn a0 F a0o Ha0). exact M2.
Qed.

(** the Methods that were there stay typed; a Method among the excluded nodes must keep its first two arguments *)
Definition Eok (E : N -> Prop) (s : pstate) (g g' : ghost) : Prop :=
  (forall m, E m \/ ~ E m) /\
  forall m mo, E m -> tget (p_tree s) m = Some mo -> o_opcode mo = aml_pOpMethod ->
    forall a0 a1 rest, kids g m = a0 :: a1 :: rest -> exists rest', kids g' m = a0 :: a1 :: rest'.

Lemma Eok_NoP s g g' : Eok NoP s g g'.
Proof. split; [intros m; right; intros []|intros m mo []]. Qed.

Lemma TM_frame (X P XX E : N -> Prop) s g s' g' :
  gwf g -> R (p_tree s) g -> TM X s g -> Fr P XX E s g s' g' ->
  (forall i o, P i -> tget (p_tree s) i = Some o -> ~ nodefer o) ->
  Eok E s g g' ->
  (forall i, XX i -> nnp s i) -> (forall y, E y -> kids g y <> []) ->
  TM (fun m => X m \/ ~ glive g m) s' g'.
Proof.
  intros Hwf HR H F HP (Hdec & HE) HXn HEk m mo' Hm' Hop Hx.
  assert (Hl : glive g m).
  { destruct (glive_dec g m) as [Hl|Hl]; [exact Hl|]. exfalso. apply Hx. right. exact Hl. }
  destruct (R_live_glive _ _ HR m) as (_ & Hlv). destruct (Hlv Hl) as (mo & Hm & Hlm).
  destruct (fr_keep _ _ _ _ _ _ _ F m mo Hl Hm) as (mo2 & Hm2 & E2 & _).
  assert (mo2 = mo') by congruence. subst mo2. destruct E2 as (E2 & _).
  assert (Hop0 : o_opcode mo = aml_pOpMethod) by congruence.
  eapply mtyped_frame; [exact Hwf|exact F|exact Hl| |apply Hdec|exact HP|exact HXn|exact HEk|].
  - intros F'. exact (HE m mo F' Hm Hop0).
  - apply (H m mo Hm Hop0). intros F'. apply Hx. left. exact F'.
Qed.

(** the general step: old Methods by the frame, new ones by hand *)
Lemma TM_frame2 (X X' P XX E : N -> Prop) s g s' g' :
  gwf g -> R (p_tree s) g -> TM X s g -> Fr P XX E s g s' g' ->
  (forall i o, P i -> tget (p_tree s) i = Some o -> ~ nodefer o) ->
  Eok E s g g' ->
  (forall i, XX i -> nnp s i) -> (forall y, E y -> kids g y <> []) ->
  (forall m mo, tget (p_tree s') m = Some mo -> o_opcode mo = aml_pOpMethod -> glive g m -> X m -> X' m) ->
  (forall m mo, tget (p_tree s') m = Some mo -> o_opcode mo = aml_pOpMethod -> ~ glive g m -> X' m \/ mtyped s' g' m) ->
  TM X' s' g'.
Proof.
  intros Hwf HR H F HP HE HXn HEk Hold Hnew m mo' Hm' Hop Hx'.
  destruct (glive_dec g m) as [Hl|Hl].
  - pose proof (TM_frame X P XX E s g s' g' Hwf HR H F HP HE HXn HEk) as H'.
    apply (H' m mo' Hm' Hop). intros [Fx|Fx]; [apply Hx'; eapply Hold; eauto|contradiction].
  - destruct (Hnew m mo' Hm' Hop Hl) as [Fx|Ht]; [contradiction|exact Ht].
Qed.

(** ---- the specifications of the nine functions in parseModeAllBlocks ---- *)
Definition hasfl (s : pstate) (c : N) : Prop :=
  exists co op fl af, tget (p_tree s) c = Some co /\ opInfo (o_infoIndex co) = Some (op, fl, af) /\ has_fl af.

(** the argument types whose parsing looks no name up *)
Definition nolook (ty : N) : bool :=
  (ty =? aml_pArgTypeByteData) || (ty =? aml_pArgTypeWordData) || (ty =? aml_pArgTypeDwordData) || (ty =? aml_pArgTypeQwordData) ||
  (ty =? aml_pArgTypeString) || (ty =? aml_pArgTypeNameString) || (ty =? aml_pArgTypeByteList) || (ty =? aml_pArgTypePkgLen) ||
  (ty =? aml_pArgTypeFieldList).

Definition cntu (af i : N) : N := if existsb (fun j => (i <=? j) && unpaid (argType af j)) idx8 then 1 else 0.
Definition ucost (ty : N) : N := if unpaid ty then 1 else 0.

(** a Method object whose arguments are being parsed: before its second argument is there its row is the Method row *)
Definition bstate (s : pstate) (g : ghost) (c : N) (i : N) : Prop :=
  (i <= 1 /\ kids g c = []) \/
  (i = 2 /\ exists a0 a0o, kids g c = [a0] /\ tget (p_tree s) a0 = Some a0o /\ nodefer a0o /\
            o_opcode a0o = aml_pOpIntNamePath /\ o_infoIndex a0o = npIdx /\ kids g a0 = []).
Definition mbA (s : pstate) (g : ghost) (c : N) (af i : N) : Prop :=
  forall co, tget (p_tree s) c = Some co -> o_opcode co = aml_pOpMethod -> mtyped s g c \/ (af = methodAF /\ bstate s g c i).
Definition mbO (s : pstate) (g : ghost) (c : N) : Prop :=
  forall co, tget (p_tree s) c = Some co -> o_opcode co = aml_pOpMethod -> mtyped s g c \/ (o_infoIndex co = methodIdx /\ kids g c = []).

(** where the NamedFields of a field list go: right after the object, in its parent's list *)
Definition finsert (s' : pstate) (g g' : ghost) (c : N) : Prop :=
  forall par l1 tl, kids g par = l1 ++ c :: tl -> exists new, kids g' par = l1 ++ c :: new ++ tl /\ sibs g s' g' new.

Definition okres (res : pres) : Prop := res = ROk \/ res = RShort.

Definition D_name (fuel : nat) : Prop := forall s g top rest,
  FD s g -> IV s -> glive g 0 -> p_scopeStack s = top :: rest -> roomD 0 s -> TM NoX s g -> nnp s top ->
  wp True (parseNamePathOrMethodCall fuel) s (fun res s' => exists g',
    FD s' g' /\ ExtD s g s' g' /\ Fr NoP (eq top) NoP s g s' g' /\ Psi s' <= Psi s + 1 /\ res <> RShort /\
    (res = ROk -> Psi s' + 4 <= Psi s /\ TM NoX s' g' /\ p_scopeStack s' = p_scopeStack s /\
                  exists x, kids g' top = kids g top ++ [x] /\ ~ glive g x)).

Definition D_next (fuel : nat) : Prop := forall s g top rest,
  FD s g -> IV s -> glive g 0 -> p_scopeStack s = top :: rest -> roomD 0 s -> TM NoX s g -> nnp s top ->
  wp True (parseNextObject fuel) s (fun res s' => exists g',
    FD s' g' /\ ExtD s g s' g' /\ Fr NoP (eq top) NoP s g s' g' /\ Psi s' <= Psi s + 1 /\
    (res = ROk -> Psi s' + 4 <= Psi s /\ TM NoX s' g' /\ p_scopeStack s' = p_scopeStack s)).

(** [c] is not the flags argument of a Method (its value may be rewritten) *)
Definition nota1 (s : pstate) (g : ghost) (c : N) : Prop :=
  forall m mo a0 a1 rest, tget (p_tree s) m = Some mo -> o_opcode mo = aml_pOpMethod -> kids g m = a0 :: a1 :: rest -> a1 <> c.

Definition D_objargs (fuel : nat) : Prop := forall curObj s g,
  FD s g -> IV s -> glive g 0 -> glive g curObj -> roomD 1 s -> TM (eq curObj) s g -> mbO s g curObj ->
  (hasfl s curObj -> has_parent g curObj) -> nota1 s g curObj ->
  wp True (parseObjectArgs fuel curObj) s (fun res s' => exists g',
    FD s' g' /\ ExtD s g s' g' /\
    Fr (eq curObj) (eq curObj) (fun y => hasfl s curObj /\ In curObj (kids g y)) s g s' g' /\
    finsert s' g g' curObj /\
    Psi s' <= Psi s + 3 /\ res <> RShort /\
    (res = ROk -> Psi s' <= Psi s + 1 /\ TM NoX s' g' /\ p_scopeStack s' = p_scopeStack s)).

Definition D_args (fuel : nat) : Prop := forall ii op fl af curObj argIndex s g,
  FD s g -> IV s -> glive g 0 -> glive g curObj -> opInfo ii = Some (op, fl, af) -> argIndex <= 8 -> roomD (cntu af argIndex) s ->
  (has_fl af -> has_parent g curObj) ->
  (forall co, tget (p_tree s) curObj = Some co -> o_infoIndex co = ii) ->
  (argIndex < 8 -> argType af argIndex = aml_pArgTypeFieldList -> LastNum s curObj) ->
  TM (eq curObj) s g -> mbA s g curObj af argIndex ->
  wp True (parseArgs fuel (op, fl, af) curObj argIndex) s (fun res s' => exists g',
    FD s' g' /\ ExtD s g s' g' /\
    Fr NoP (eq curObj) (fun y => has_fl af /\ In curObj (kids g y)) s g s' g' /\
    finsert s' g g' curObj /\
    Psi s' <= Psi s + 3 /\
    (okres res -> Psi s' <= Psi s + cntu af argIndex /\ TM NoX s' g' /\ p_scopeStack s' = p_scopeStack s)).

Definition D_arg (fuel : nat) : Prop := forall op fl af curObj argTy s g,
  FD s g -> IV s -> glive g 0 -> glive g curObj -> roomD (ucost argTy) s ->
  (argTy = aml_pArgTypeFieldList -> has_parent g curObj /\ LastNum s curObj /\ hasfl s curObj) ->
  TM (fun m => m = curObj /\ nolook argTy = true) s g -> nnp s curObj ->
  wp True (parseArg fuel (op, fl, af) curObj argTy) s (fun '(a, res) s' => exists g',
    FD s' g' /\ ExtD s g s' g' /\
    Fr NoP (eq curObj) (fun y => argTy = aml_pArgTypeFieldList /\ In curObj (kids g y)) s g s' g' /\
    (okres res -> argTy <> aml_pArgTypeFieldList -> kids g' curObj = kids g curObj) /\
    (argTy = aml_pArgTypeFieldList -> finsert s' g g' curObj) /\
    fresh_root g g' a /\ Psi s' <= Psi s + 2 /\
    (okres res -> Psi s' <= Psi s + ucost argTy /\ p_scopeStack s' = p_scopeStack s /\
                  TM (fun m => m = curObj /\ nolook argTy = true) s' g') /\
    (res = RShort -> argTy = aml_pArgTypeFieldList) /\
    (res = ROk -> argTy = aml_pArgTypeByteData ->
       exists obj po v, a = Some obj /\ tget (p_tree s') obj = Some po /\ o_value po = Some (VNum v) /\ nodefer po /\
                        o_opcode po = aml_pOpBytePrefix /\ o_infoIndex po = bpIdx) /\
    (res = ROk -> argTy = aml_pArgTypeNameString ->
       exists obj po, a = Some obj /\ tget (p_tree s') obj = Some po /\ nodefer po /\
                      o_opcode po = aml_pOpIntNamePath /\ o_infoIndex po = npIdx /\ kids g' obj = []) /\
    (res = ROk -> argTy = aml_pArgTypePkgLen -> a = None) /\
    (res = ROk -> argTy <> aml_pArgTypeFieldList)).

Definition D_strict (fuel : nat) : Prop := forall curObj s g,
  FD s g -> IV s -> glive g 0 -> glive g curObj -> roomD 0 s -> TM NoX s g -> nnp s curObj ->
  wp True (parseStrictTermArg fuel curObj) s (fun '(a, res) s' => exists g',
    FD s' g' /\ ExtD s g s' g' /\ Fr NoP (eq curObj) NoP s g s' g' /\ fresh_root g g' a /\ Psi s' <= Psi s + 1 /\ res <> RShort /\
    (res = ROk -> Psi s' + 4 <= Psi s /\ TM NoX s' g' /\ p_scopeStack s' = p_scopeStack s /\ kids g' curObj = kids g curObj)).

Definition D_target (fuel : nat) : Prop := forall s g,
  FD s g -> IV s -> glive g 0 -> roomD 0 s -> TM NoX s g ->
  wp True (parseTarget fuel) s (fun '(a, res) s' => exists g',
    FD s' g' /\ ExtD s g s' g' /\ Fr NoP NoP NoP s g s' g' /\ fresh_root g g' a /\ Psi s' <= Psi s + 1 /\ res <> RShort /\
    (res = ROk -> Psi s' <= Psi s /\ TM NoX s' g' /\ p_scopeStack s' = p_scopeStack s)).

Definition D_termlist (fuel : nat) : Prop := forall s g top rest,
  FD s g -> IV s -> glive g 0 -> p_scopeStack s = top :: rest -> roomD 0 s -> TM NoX s g -> nnp s top ->
  wp True (termList_go fuel) s (fun ok s' => exists g',
    FD s' g' /\ ExtD s g s' g' /\ Fr NoP (eq top) NoP s g s' g' /\ Psi s' <= Psi s + 1 /\
    (ok = true -> Psi s' <= Psi s /\ TM NoX s' g' /\ p_scopeStack s' = p_scopeStack s)).

Definition D_callargs (fuel : nat) : Prop := forall cnt s g top rest,
  FD s g -> IV s -> glive g 0 -> p_scopeStack s = top :: rest -> roomD 0 s -> TM NoX s g -> nnp s top ->
  wp True (callArgs_go fuel cnt) s (fun ok s' => exists g',
    FD s' g' /\ ExtD s g s' g' /\ Fr NoP (eq top) NoP s g s' g' /\ Psi s' <= Psi s + 1 /\
    (ok = true -> Psi s' <= Psi s /\ TM NoX s' g' /\ p_scopeStack s' = p_scopeStack s)).

(** ---- helpers for the step proofs ---- *)
Lemma Fr_unE (P X E : N -> Prop) s g s' g' :
  Fr P X E s g s' g' -> (forall y, E y \/ ~ E y) ->
  (forall y, glive g y -> E y -> X y /\ exists extra, kids g' y = kids g y ++ extra) ->
  Fr P X NoP s g s' g'.
Proof.
  intros [K G] Hdec HE. constructor; [exact K|]. intros y Hy _.
  destruct (Hdec y) as [Ey|Ey].
  - destruct (HE y Hy Ey) as (Xy & Hex). split; [exact Hex|]. intros F. contradiction.
  - apply (G y Hy Ey).
Qed.

(** an object that has just been appended to [c] is not the flags argument of a Method *)
Lemma nota1_appended s g s4 g4 c p :
  gwf g -> R (p_tree s) g -> R (p_tree s4) g4 -> TM NoX s g -> keep NoP s g s4 -> glive g c -> ~ glive g p ->
  kids g4 c = kids g c ++ [p] -> nota1 s4 g4 p.
Proof.
  intros Hwf HR HR4 HTM K Hlc Hnp Hk4 m mo a0 a1 rest Hm Hmop Hk E. subst a1.
  assert (m = c).
  { eapply (R_parent_unique _ _ HR4); [rewrite Hk; right; left; reflexivity|rewrite Hk4; apply in_or_app; right; left; reflexivity]. }
  subst m. rewrite Hk4 in Hk.
  destruct (R_live_glive _ _ HR c) as (_ & Hlv). destruct (Hlv Hlc) as (co & Hco & _).
  destruct (K c co Hlc Hco) as (co4 & Hco4 & (Eop & _) & _). assert (co4 = mo) by congruence. subst co4.
  assert (Hop0 : o_opcode co = aml_pOpMethod) by congruence.
  destruct (HTM c co Hco Hop0 (fun F => F)) as (b0 & b1 & r & _ & _ & _ & Hkc & _).
  rewrite Hkc in Hk. cbn [app] in Hk. injection Hk as _ E1 _. subst b1.
  apply Hnp. apply (Hwf c p). rewrite Hkc. right. left. reflexivity.
Qed.

Lemma scope_topD s g top rest : FD s g -> p_scopeStack s = top :: rest -> glive g top.
Proof. intros H E. pose proof (fi_scopes _ _ H) as F. rewrite E in F. inversion F; auto. Qed.

Lemma roomD_lp k s : roomD k s -> lp s + 5 < InvalidIndex.
Proof. unfold roomD, Psi. lia. Qed.

Lemma TM_NoX_any (X : N -> Prop) s g : TM NoX s g -> TM X s g.
Proof. apply TM_weaken. intros m mo _ _ []. Qed.

End Defer.

(** discharge [hoare tbls m (fun _ => True)] for the primitives and the functions with a lemma *)
Ltac hsolve tbls :=
  first [ hprim tbls
        | apply hoare_info | apply hoare_tableIndex | apply hoare_objectAt' | apply hoare_appendM | apply hoare_detachM
        | apply hoare_scopeCurrent | apply hoare_parseSimpleArg | apply hoare_parseByteList | apply hoare_parseFieldElements
        | apply hoare_methodArgCountPanic | apply hoare_parseNextObject | apply hoare_parseObjectArgs
        | apply (proj1 (proj2 (proj2 (hoare_block tbls _))))
        | apply (proj1 (proj2 (proj2 (proj2 (hoare_block tbls _)))))
        | apply (proj1 (proj2 (proj2 (proj2 (proj2 (hoare_block tbls _))))))
        | apply (proj1 (proj2 (proj2 (proj2 (proj2 (proj2 (hoare_block tbls _)))))))
        | apply (proj1 (proj2 (proj2 (proj2 (proj2 (proj2 (proj2 (hoare_block tbls _))))))))
        | apply (proj1 (proj2 (proj2 (proj2 (proj2 (proj2 (proj2 (proj2 (hoare_block tbls _)))))))))
        | apply (proj2 (proj2 (proj2 (proj2 (proj2 (proj2 (proj2 (proj2 (hoare_block tbls _))))))))) ].

(** [apply wp_bind], keeping the whole-parser invariant [I] *)
Ltac wbi tbls I := apply (wp_bind_inv tbls _ _ _ _ _ I); [hsolve tbls|].
