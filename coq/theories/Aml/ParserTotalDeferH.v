(** C12 (stretch): no parser function changes the table handle (a partial-correctness fact, by structural decomposition). *)
From Coq Require Import NArith Arith List Bool Lia.
From FF Require Import Lib.Word Gen.Consts_device_acpi_aml Aml.Stream Aml.Lex Aml.Tree Aml.Parser.
Import ListNotations.
Local Open Scope N_scope.

Definition hsame {A} (m : M A) : Prop := forall s a s', m s = Ok (a, s') -> p_handle s' = p_handle s.

Lemma hsame_ret {A} (a : A) : hsame (ret a).
Proof. intros s a' s' H. inversion H; subst. reflexivity. Qed.
Lemma hsame_bind {A B} (m : M A) (f : A -> M B) : hsame m -> (forall a, hsame (f a)) -> hsame (bindM m f).
Proof.
  intros Hm Hf s b s' H. unfold bindM in H. destruct (m s) as [[a s1]| |] eqn:E; try discriminate.
  rewrite (Hf a _ _ _ H). apply (Hm _ _ _ E).
Qed.
Lemma hsame_fail {A} (m : M A) : (forall s, m s = Panic \/ m s = OutOfFuel) -> hsame m.
Proof. intros H s a s' E. destruct (H s) as [F|F]; rewrite F in E; discriminate. Qed.
Lemma hsame_panic {A} : hsame (@panic A).
Proof. apply hsame_fail. intros s. left. reflexivity. Qed.
Lemma hsame_outOfFuel {A} : hsame (@outOfFuel A).
Proof. apply hsame_fail. intros s. right. reflexivity. Qed.
Lemma hsame_get {A} (f : pstate -> A) : hsame (get f).
Proof. intros s a s' H. inversion H; subst. reflexivity. Qed.
Lemma hsame_lex {A} (f : reader -> outcome (A * bool * reader)) : hsame (lex f).
Proof. intros s a s' H. unfold lex in H. destruct (f (p_r s)) as [[[x ok] r]| |]; try discriminate. inversion H; subst. reflexivity. Qed.
Lemma hsame_ru f : hsame (ru f).
Proof. intros s a s' H. inversion H; subst. reflexivity. Qed.
Lemma hsame_setPkgEndM e : hsame (setPkgEndM e).
Proof. intros s a s' H. unfold setPkgEndM in H. destruct (setPkgEnd (p_r s) e). inversion H; subst. reflexivity. Qed.
Lemma hsame_readByteM : hsame readByteM.
Proof. intros s a s' H. unfold readByteM in H. destruct (readByte (p_r s)) as [[b r]| |]; try discriminate. inversion H; subst. reflexivity. Qed.
Lemma hsame_tq {A} (f : T -> outcome A) : hsame (tq f).
Proof. intros s a s' H. unfold tq in H. destruct (f (p_tree s)); try discriminate. inversion H; subst. reflexivity. Qed.
Lemma hsame_tu (f : T -> outcome T) : hsame (tu f).
Proof. intros s a s' H. unfold tu in H. destruct (f (p_tree s)); try discriminate. inversion H; subst. reflexivity. Qed.
Lemma hsame_lift {A} (o : outcome A) : hsame (lift o).
Proof. intros s a s' H. unfold lift in H. destruct o; try discriminate. inversion H; subst. reflexivity. Qed.
Lemma hsame_newObj op : hsame (newObj op).
Proof. intros s a s' H. unfold newObj in H. destruct (newObject (p_tree s) op (p_handle s)) as [[t p]| |]; try discriminate. inversion H; subst. reflexivity. Qed.
Lemma hsame_scopeEnter i : hsame (scopeEnter i).
Proof. intros s a s' H. inversion H; subst. reflexivity. Qed.
Lemma hsame_scopeExit : hsame scopeExit.
Proof. intros s a s' H. unfold scopeExit in H. destruct (p_scopeStack s); try discriminate. inversion H; subst. reflexivity. Qed.
Lemma hsame_popPkgEnd : hsame popPkgEnd.
Proof.
  intros s a s' H. unfold popPkgEnd in H. destruct (match p_pkgEndStack s with [] => [] | _ :: rest => rest end); inversion H; subst; reflexivity.
Qed.
Lemma hsame_upd (f : pstate -> pstate) : (forall s, p_handle (f s) = p_handle s) -> hsame (fun s => Ok (tt, f s)).
Proof. intros Hf s a s' H. inversion H; subst. apply Hf. Qed.
Lemma hsame_if {A} (b : bool) (m1 m2 : M A) : hsame m1 -> hsame m2 -> hsame (if b then m1 else m2).
Proof. destruct b; auto. Qed.

Lemma hsame_liftf {A} (f : pstate -> outcome A) : hsame (fun s => lift (f s) s).
Proof. intros s a s' H. unfold lift in H. destruct (f s); try discriminate. inversion H; subst. reflexivity. Qed.
Lemma hsame_need (o : option N) : hsame (need o).
Proof. destruct o; [apply hsame_ret|apply hsame_panic]. Qed.
Lemma hsame_info i : hsame (info i).
Proof. unfold info. destruct (opInfo i); [apply hsame_ret|apply hsame_panic]. Qed.
Lemma hsame_tableIndex op b : hsame (tableIndex op b).
Proof. unfold tableIndex. destruct (opcodeTableIndex op b); [apply hsame_ret|apply hsame_panic]. Qed.

Ltac hsame_prim :=
  first [ apply hsame_ret | apply hsame_panic | apply hsame_outOfFuel | apply hsame_get | apply hsame_lex | apply hsame_ru
        | apply hsame_setPkgEndM | apply hsame_readByteM | apply hsame_tq | apply hsame_tu | apply hsame_lift | apply hsame_newObj
        | apply hsame_scopeEnter | apply hsame_scopeExit | apply hsame_popPkgEnd | apply hsame_liftf | apply hsame_need | apply hsame_info | apply hsame_tableIndex
        | (apply hsame_upd; intros; reflexivity) ].

Ltac hsame_unf :=
  unfold rq, offsetM, eofM, curTable, rdf, rdo, wrf, objectAt, objectAt', appendM, detachM,
         setOffsetM, pushPkgEnd, bytesOf, scopeCurrent, methodArgCountPanic, streamFuel, fieldByte.

Ltac hsame_tac :=
  repeat first
    [ hsame_prim | apply hsame_if | (apply hsame_bind; [|intros ?])
    | match goal with |- hsame (match ?x with _ => _ end) => destruct x end
    | match goal with |- hsame (let '(_, _) := ?x in _) => destruct x end ].

Lemma parseByteList_hsame obj n : hsame (parseByteList obj n).
Proof. unfold parseByteList. hsame_unf. hsame_tac. Qed.

Lemma parseSimpleArg_hsame ty : hsame (parseSimpleArg ty).
Proof. unfold parseSimpleArg. hsame_unf. cbv zeta. hsame_tac. Qed.

Lemma readName_go_hsame field cnt : forall i, hsame (readName_go cnt i field).
Proof. induction cnt as [|cnt IH]; intros i; cbn [readName_go]; hsame_unf; hsame_tac; apply IH. Qed.

Lemma fieldElements_go_hsame fuel : forall curObj f, hsame (fieldElements_go fuel curObj f).
Proof.
  induction fuel as [|fuel IH]; intros curObj f; cbn [fieldElements_go]; [apply hsame_outOfFuel|].
  hsame_unf. hsame_tac; first [apply IH | apply readName_go_hsame | apply parseByteList_hsame | idtac].
Qed.

Lemma parseFieldElements_hsame curObj : hsame (parseFieldElements curObj).
Proof. unfold parseFieldElements. hsame_unf. hsame_tac; apply fieldElements_go_hsame. Qed.

(** the nine mutually recursive functions *)
Definition hblock (fuel : nat) : Prop :=
  hsame (parseNextObject fuel) /\ (forall c, hsame (parseObjectArgs fuel c)) /\
  (forall inf c i, hsame (parseArgs fuel inf c i)) /\ (forall inf c ty, hsame (parseArg fuel inf c ty)) /\
  hsame (termList_go fuel) /\ hsame (parseNamePathOrMethodCall fuel) /\ (forall n, hsame (callArgs_go fuel n)) /\
  (forall c, hsame (parseStrictTermArg fuel c)) /\ hsame (parseTarget fuel).

Lemma hblock_all : forall fuel, hblock fuel.
Proof.
  induction fuel as [|fuel (H1 & H2 & H3 & H4 & H5 & H6 & H7 & H8 & H9)].
  - unfold hblock. repeat match goal with |- _ /\ _ => split end; intros; cbn; apply hsame_outOfFuel.
  - Ltac hrec H1 H2 H3 H4 H5 H6 H7 H8 H9 :=
      first [ apply H1 | apply H2 | apply H3 | apply H4 | apply H5 | apply H6 | apply H7 | apply H8 | apply H9
            | apply parseSimpleArg_hsame | apply parseByteList_hsame | apply parseFieldElements_hsame | apply fieldElements_go_hsame ].
    unfold hblock. repeat match goal with |- _ /\ _ => split end; intros.
    + cbn [parseNextObject]. hsame_unf. repeat (first [hrec H1 H2 H3 H4 H5 H6 H7 H8 H9 | progress hsame_tac]).
    + cbn [parseObjectArgs]. hsame_unf. repeat (first [hrec H1 H2 H3 H4 H5 H6 H7 H8 H9 | progress hsame_tac]).
    + cbn [parseArgs]. destruct inf as [[? ?] ?]. hsame_unf. repeat (first [hrec H1 H2 H3 H4 H5 H6 H7 H8 H9 | progress hsame_tac]).
    + cbn [parseArg]. destruct inf as [[? ?] ?]. hsame_unf. repeat (first [hrec H1 H2 H3 H4 H5 H6 H7 H8 H9 | progress hsame_tac]).
    + cbn [termList_go]. hsame_unf. repeat (first [hrec H1 H2 H3 H4 H5 H6 H7 H8 H9 | progress hsame_tac]).
    + cbn [parseNamePathOrMethodCall]. hsame_unf. repeat (first [hrec H1 H2 H3 H4 H5 H6 H7 H8 H9 | progress hsame_tac]).
    + cbn [callArgs_go]. hsame_unf. repeat (first [hrec H1 H2 H3 H4 H5 H6 H7 H8 H9 | progress hsame_tac]).
    + cbn [parseStrictTermArg]. hsame_unf. repeat (first [hrec H1 H2 H3 H4 H5 H6 H7 H8 H9 | progress hsame_tac]).
    + cbn [parseTarget]. hsame_unf. repeat (first [hrec H1 H2 H3 H4 H5 H6 H7 H8 H9 | progress hsame_tac]).
Qed.

Lemma parseObjectArgs_hsame fuel c : hsame (parseObjectArgs fuel c).
Proof. apply (hblock_all fuel). Qed.

Lemma popAll_go_hsame fuel : hsame (popAll_go fuel).
Proof. induction fuel as [|fuel IH]; cbn [popAll_go]; [apply hsame_outOfFuel|]. hsame_tac. apply IH. Qed.
