(** C11 (fragment F1): the namespace view of the tree [root_tree] lists, for every Device, the entries of its body
    and then the Device itself; Name declarations as in F0. *)
From Coq Require Import NArith ZArith Arith List Bool Lia Permutation.
From Coq Require Import ZifyBool ZifyN ZifyNat.
From FF Require Import Lib.Word Gen.Consts_device_acpi_aml Gen.Consts_aml_tree Aml.Stream Aml.Lex
  Aml.Tree Aml.TreeSpec Aml.TreeProofs Aml.Parser Aml.Grammar
  Aml.ParserTotalBase Aml.ParserFragBase Aml.ParserFragFirst Aml.ParserFragF0 Aml.ParserFragF0Conn Aml.ParserFragF0Top
  Aml.ParserFragRose Aml.ParserFragF1 Aml.ParserFragF1First Aml.ParserFragF1Conn Aml.ParserFragF1Top
  Aml.View Aml.ParserFragView Aml.ParserFragF0View.
Import ListNotations.
Local Open Scope N_scope.

Ltac Zify.zify_post_hook ::= Z.div_mod_to_equations.

Definition name_entry (p : path) (d : decl) : list N :=
  [1] ++ tok_path (p ++ [d_seg d]) ++ [aml_pOpName] ++ const_tokens (d_op d) (const_val (d_op d) (d_v d)).
Definition dev_entry (p : path) : list N := [1] ++ tok_path p ++ [aml_pOpDevice].
Definition meth_entry (p : path) (fl : N) : list N := [1] ++ tok_path p ++ [aml_pOpMethod] ++ tok_const OP_BYTE fl.

(** the view lists the body of a Device before the Device *)
Fixpoint ventry (p : path) (it : item) : list (list N) :=
  match it with
  | IName d => [name_entry p d]
  | IDev _ seg body => flat_map (ventry (p ++ [seg])) body ++ [dev_entry (p ++ [seg])]
  | IMeth _ seg fl body => flat_map (ventry (p ++ [seg])) body ++ [meth_entry (p ++ [seg]) fl]
  end.
Definition ventries (p : path) (l : list item) : list (list N) := flat_map (ventry p) l.

(** the specification lists the Device first *)
Fixpoint sentry (p : path) (it : item) : list (list N) :=
  match it with
  | IName d => [name_entry p d]
  | IDev _ seg body => dev_entry (p ++ [seg]) :: flat_map (sentry (p ++ [seg])) body
  | IMeth _ seg fl body => meth_entry (p ++ [seg]) fl :: flat_map (sentry (p ++ [seg])) body
  end.
Definition sentries (p : path) (l : list item) : list (list N) := flat_map (sentry p) l.

Lemma ventries_perm : forall l p, Permutation (ventries p l) (sentries p l).
Proof.
  induction l as [|d rest IH|k seg body rest IHb IH|k seg fl body rest IHb IH] using items_ind; intros p; [constructor| | |].
  - cbn [ventries sentries flat_map ventry sentry]. apply Permutation_app_head. apply IH.
  - cbn [ventries sentries flat_map ventry sentry]. apply Permutation_app; [|apply IH].
    fold (ventries (p ++ [seg]) body). fold (sentries (p ++ [seg]) body).
    eapply Permutation_trans; [apply Permutation_app_comm|]. cbn [app]. constructor. apply IHb.
  - cbn [ventries sentries flat_map ventry sentry]. apply Permutation_app; [|apply IH].
    fold (ventries (p ++ [seg]) body). fold (sentries (p ++ [seg]) body).
    eapply Permutation_trans; [apply Permutation_app_comm|]. cbn [app]. constructor. apply IHb.
Qed.

(** ---- a Device node ---- *)
Lemma walkF_block (t : T) tables f known p es stmts c co pth sb ko es' :
  obj t c = Some co -> o_opcode co = aml_pOpDevice -> View.kids t co = [pth; sb] ->
  obj t sb = Some ko -> o_opcode ko = aml_pOpIntScopeBlock ->
  walk t tables f known sb (p ++ [name_num (o_name co)]) = (es', []) ->
  walkF t tables f known p (es, stmts) c = (es ++ es' ++ [dev_entry (p ++ [name_num (o_name co)])], stmts).
Proof.
  intros Ho Hop Hk Hko Hopk Hw. unfold walkF. rewrite Ho. cbv zeta. rewrite Hop.
  change ((aml_pOpDevice =? aml_pOpIntScopeBlock) && negb (is_zero_scopeblock co)) with false. cbv iota.
  change (aml_pOpDevice =? aml_pOpIntNamedField) with false. change (is_declop aml_pOpDevice) with true. cbv iota.
  rewrite Hk. cbn [fold_left]. rewrite Hko, Hopk. change (aml_pOpIntScopeBlock =? aml_pOpIntScopeBlock) with true. cbv iota.
  rewrite Hw. change (aml_pOpDevice =? aml_pOpMethod) with false. cbv iota.
  cbn [anon map app]. rewrite !app_nil_r. unfold dev_entry. reflexivity.
Qed.

(** ---- a Method node ---- *)
Lemma walkF_meth (t : T) tables f known p es stmts c co pth byt kb sb ko es' :
  obj t c = Some co -> o_opcode co = aml_pOpMethod -> View.kids t co = [pth; byt; sb] ->
  obj t byt = Some kb -> o_opcode kb = aml_pOpBytePrefix -> View.kids t kb = [] ->
  match o_value kb with Some (VNum _) => True | _ => False end ->
  obj t sb = Some ko -> o_opcode ko = aml_pOpIntScopeBlock ->
  walk t tables f known sb (p ++ [name_num (o_name co)]) = (es', []) ->
  walkF t tables f known p (es, stmts) c =
  (es ++ es' ++ [[1] ++ tok_path (p ++ [name_num (o_name co)]) ++ [aml_pOpMethod] ++ const_tokens aml_pOpBytePrefix (o_value kb)], stmts).
Proof.
  intros Ho Hop Hk Hkb Hopb Hkkb Hvb Hko Hopk Hw. unfold walkF. rewrite Ho. cbv zeta. rewrite Hop.
  change ((aml_pOpMethod =? aml_pOpIntScopeBlock) && negb (is_zero_scopeblock co)) with false. cbv iota.
  change (aml_pOpMethod =? aml_pOpIntNamedField) with false. change (is_declop aml_pOpMethod) with true. cbv iota.
  rewrite Hk. cbn [fold_left]. rewrite Hkb, Hopb. change (aml_pOpBytePrefix =? aml_pOpIntScopeBlock) with false. cbv iota.
  rewrite Hko, Hopk. change (aml_pOpIntScopeBlock =? aml_pOpIntScopeBlock) with true. cbv iota.
  rewrite Hw. change (aml_pOpMethod =? aml_pOpMethod) with true. cbv iota.
  unfold pool_fuel.
  rewrite (render_const t tables _ known _ byt kb Hkb Hkkb); rewrite ?Hopb; try reflexivity.
  2:{ destruct (o_value kb) as [[x|tb sl|i|fe]|]; try contradiction; exact I. }
  cbn [concat app]. rewrite !app_nil_r. reflexivity.
Qed.

Section ViewF1.
Variable t : T.
Variable g : ghost.
Variable pl : list pay.
Hypothesis H : Rep t g pl.
Variable tables : list (list N).

Lemma fold_leaves f known p : forall l acc,
  (forall c, In c l -> exists co, obj t c = Some co /\ o_opcode co = aml_pOpIntScopeBlock /\
                                  name_eqb (o_name co) (0, 0, 0, 0) = false /\ View.kids t co = []) ->
  fold_left (walkF t tables (S f) known p) l acc = acc.
Proof.
  induction l as [|c l IH]; intros acc Hall; cbn [fold_left]; [reflexivity|].
  destruct (Hall c (or_introl eq_refl)) as (co & Ho & Hop & Hnm & Hk).
  rewrite (walkF_empty_scope t tables f known p acc c co Ho Hop Hnm Hk). apply IH. intros c' Hc'. apply Hall. right. exact Hc'.
Qed.

Definition VSpec (its : list item) : Prop := forall f known p es st b off,
  Forall (Desc g pl) (lay2 1 0 b off its) -> forallb item_okb its = true -> (iszs its < f)%nat ->
  fold_left (walkF t tables f known p) (map ridx (lay2 1 0 b off its)) (es, st) = (es ++ ventries p its, st).

Lemma const_ops d : is_constb (d_op d) = true ->
  (d_op d =? aml_pOpIntScopeBlock) = false /\ (d_op d =? aml_pOpIntResolvedNamePath) = false /\ (d_op d =? aml_pOpIntNamePath) = false /\
  (d_op d =? aml_pOpIntNamePathOrMethodCall) = false /\ (d_op d =? aml_pOpIntMethodCall) = false /\ d_op d <> opFreed.
Proof.
  intros Hc. destruct (is_constb_cases _ Hc) as [E|[E|[E|[E|[E|[E|E]]]]]]; rewrite E; repeat split; discriminate.
Qed.

Lemma vspec_all : forall its, VSpec its.
Proof.
  induction its as [|d rest IH|k seg body rest IHb IH|k seg fl body rest IHb IH] using items_ind; intros f known p es st b off HD Hok Hf.
  - cbn [lay2 map fold_left ventries flat_map]. rewrite app_nil_r. reflexivity.
  - apply forallb_item_cons in Hok. destruct Hok as [Hd Hok]. cbn [item_okb] in Hd. apply andb_prop in Hd. destruct Hd as [Hd Hseg].
    apply N.ltb_lt in Hseg. unfold decl_okb in Hd. apply andb_prop in Hd. destruct Hd as [Hd _]. apply andb_prop in Hd. destruct Hd as [_ Hc].
    rewrite lay2_cons in HD |- *. rewrite map_app, fold_left_app. apply Forall_app in HD. destruct HD as [HDit HDrest].
    cbn [lay2_item map ridx fold_left] in HDit |- *.
    pose proof (Forall_inv HDit) as DN. destruct (Desc_inv _ _ _ _ _ DN) as (PN & KN & HDk). cbn [map ridx] in KN.
    pose proof (Forall_inv (Forall_inv_tail HDk)) as DC. destruct (Desc_inv _ _ _ _ _ DC) as (PC & KC & _). cbn [map] in KC.
    destruct (const_ops d Hc) as (E0 & E1 & E2 & E3 & E4 & Hlc).
    destruct (view_obj t g pl b _ H PN ltac:(discriminate)) as (co & Hco & Epco & Hkco).
    destruct (view_obj t g pl (b + 2) _ H PC Hlc) as (ko & Hko & Epko & Hkko).
    rewrite KN in Hkco. rewrite KC in Hkko.
    assert (Hopk : o_opcode ko = d_op d) by (rewrite (pay_op _ _ Epko); reflexivity).
    assert (Hvk : o_value ko = const_val (d_op d) (d_v d)) by (rewrite (pay_val _ _ Epko); reflexivity).
    rewrite (walkF_name t tables f known p es st b co (b + 1) (b + 2) ko Hco ltac:(rewrite (pay_op _ _ Epco); reflexivity) Hkco Hko Hkko);
      try (rewrite Hopk; assumption).
    2:{ rewrite Hvk. unfold const_val. destruct (const_bytes (d_op d)); exact I. }
    rewrite iszs_cons in Hf. rewrite (IH f known p _ st _ _ HDrest Hok ltac:(lia)).
    cbn [ventries flat_map ventry]. rewrite <- app_assoc. cbn [app]. f_equal. f_equal. f_equal.
    unfold name_entry. rewrite Hopk, Hvk, (pay_name _ _ Epco). cbn [nam_pay y_name]. rewrite (name_num_seg _ Hseg). reflexivity.
  - apply forallb_item_cons in Hok. destruct Hok as [Hd Hok]. cbn [item_okb] in Hd. apply andb_prop in Hd. destruct Hd as [Hx Hbody].
    apply andb_prop in Hx. destruct Hx as [Hx _]. apply andb_prop in Hx. destruct Hx as [_ Hseg]. apply N.ltb_lt in Hseg.
    rewrite lay2_cons in HD |- *. rewrite map_app, fold_left_app. apply Forall_app in HD. destruct HD as [HDit HDrest].
    rewrite lay2_dev in HDit |- *. cbn [map ridx fold_left].
    pose proof (Forall_inv HDit) as DD. destruct (Desc_inv _ _ _ _ _ DD) as (PD & KD & HDk). cbn [map ridx] in KD.
    pose proof (Forall_inv (Forall_inv_tail HDk)) as DS. destruct (Desc_inv _ _ _ _ _ DS) as (PS & KS & HDbody).
    destruct (view_obj t g pl b _ H PD ltac:(discriminate)) as (co & Hco & Epco & Hkco).
    destruct (view_obj t g pl (b + 2) _ H PS ltac:(discriminate)) as (ko & Hko & Epko & Hkko).
    rewrite KD in Hkco. rewrite KS in Hkko.
    rewrite iszs_cons, isz_dev in Hf. destruct f as [|f']; [lia|].
    assert (Hnm : name_num (o_name co) = seg) by (rewrite (pay_name _ _ Epco); cbn [dev_pay y_name]; apply name_num_seg; exact Hseg).
    assert (Hw : walk t tables (S f') known (b + 2) (p ++ [name_num (o_name co)]) = (ventries (p ++ [seg]) body, [])).
    { rewrite walk_S, Hko, Hkko, Hnm. rewrite (IHb f' known (p ++ [seg]) [] [] _ _ HDbody Hbody ltac:(lia)). reflexivity. }
    rewrite (walkF_block t tables (S f') known p es st b co (b + 1) (b + 2) ko _ Hco ltac:(rewrite (pay_op _ _ Epco); reflexivity) Hkco Hko
               ltac:(rewrite (pay_op _ _ Epko); reflexivity) Hw).
    rewrite (IH (S f') known p _ st _ _ HDrest Hok ltac:(lia)).
    cbn [ventries flat_map ventry]. fold (ventries (p ++ [seg]) body). rewrite Hnm, <- !app_assoc. reflexivity.
  - apply forallb_item_cons in Hok. destruct Hok as [Hd Hok]. cbn [item_okb] in Hd. apply andb_prop in Hd. destruct Hd as [Hx Hbody].
    apply andb_prop in Hx. destruct Hx as [Hx _]. apply andb_prop in Hx. destruct Hx as [Hx _]. apply andb_prop in Hx. destruct Hx as [_ Hseg]. apply N.ltb_lt in Hseg.
    rewrite lay2_cons in HD |- *. rewrite map_app, fold_left_app. apply Forall_app in HD. destruct HD as [HDit HDrest].
    rewrite lay2_meth in HDit |- *. cbn [map ridx fold_left].
    pose proof (Forall_inv HDit) as DD. destruct (Desc_inv _ _ _ _ _ DD) as (PD & KD & HDk). cbn [map ridx] in KD.
    pose proof (Forall_inv (Forall_inv_tail HDk)) as DB. destruct (Desc_inv _ _ _ _ _ DB) as (PB & KB & _). cbn [map] in KB.
    pose proof (Forall_inv (Forall_inv_tail (Forall_inv_tail HDk))) as DS. destruct (Desc_inv _ _ _ _ _ DS) as (PS & KS & HDbody).
    destruct (view_obj t g pl b _ H PD ltac:(discriminate)) as (co & Hco & Epco & Hkco).
    destruct (view_obj t g pl (b + 2) _ H PB ltac:(discriminate)) as (kb & Hkb & Epkb & Hkkb).
    destruct (view_obj t g pl (b + 3) _ H PS ltac:(discriminate)) as (ko & Hko & Epko & Hkko).
    rewrite KD in Hkco. rewrite KB in Hkkb. rewrite KS in Hkko.
    rewrite iszs_cons, isz_meth in Hf. destruct f as [|f']; [lia|].
    assert (Hnm : name_num (o_name co) = seg) by (rewrite (pay_name _ _ Epco); cbn [mth_pay y_name]; apply name_num_seg; exact Hseg).
    assert (Hw : walk t tables (S f') known (b + 3) (p ++ [name_num (o_name co)]) = (ventries (p ++ [seg]) body, [])).
    { rewrite walk_S, Hko, Hkko, Hnm. rewrite (IHb f' known (p ++ [seg]) [] [] _ _ HDbody Hbody ltac:(lia)). reflexivity. }
    assert (Hvb : o_value kb = Some (VNum fl)) by (rewrite (pay_val _ _ Epkb); reflexivity).
    rewrite (walkF_meth t tables (S f') known p es st b co (b + 1) (b + 2) kb (b + 3) ko _ Hco ltac:(rewrite (pay_op _ _ Epco); reflexivity) Hkco Hkb
               ltac:(rewrite (pay_op _ _ Epkb); reflexivity) Hkkb ltac:(rewrite Hvb; exact I) Hko ltac:(rewrite (pay_op _ _ Epko); reflexivity) Hw).
    rewrite (IH (S f') known p _ st _ _ HDrest Hok ltac:(lia)).
    cbn [ventries flat_map ventry]. fold (ventries (p ++ [seg]) body). rewrite Hnm, Hvb, <- !app_assoc. reflexivity.
Qed.

(** ---- the whole view ---- *)
Theorem view_f1 its : Desc g pl (root_tree its) -> forallb item_okb its = true -> (6 + iszs its <= length pl)%nat ->
  view t tables = ventries [] its.
Proof.
  intros HD Hok Hlen. unfold view. set (known := [] :: collect_known t (pool_fuel t) 0 []).
  unfold pool_fuel at 1. rewrite walk_S.
  destruct (Desc_inv _ _ _ _ _ HD) as (P0 & K0 & HDk). apply Forall_app in HDk. destruct HDk as [HDl HD2].
  destruct (view_obj t g pl 0 _ H P0 ltac:(discriminate)) as (so & Hso & _ & Hkso).
  rewrite Hso, Hkso, K0, map_app, fold_left_app.
  rewrite (fold_leaves (length (t_pool t)) known [] (map ridx dflt_leaves)).
  2:{ intros c Hc. apply in_map_iff in Hc. destruct Hc as (r & <- & Hr). rewrite Forall_forall in HDl. pose proof (HDl r Hr) as Dr.
      unfold dflt_leaves in Hr. cbn [In] in Hr.
      destruct Hr as [ <- | [ <- | [ <- | [ <- | [ <- | [] ] ] ] ] ];
        (destruct (Desc_inv _ _ _ _ _ Dr) as (Pc & Kc & _); destruct (view_obj t g pl _ _ H Pc ltac:(discriminate)) as (co & Hco & Epco & Hkco);
         exists co; split; [exact Hco|]; split; [rewrite (pay_op _ _ Epco); reflexivity|];
         split; [rewrite (pay_name _ _ Epco); reflexivity|]; rewrite Hkco; exact Kc). }
  rewrite (vspec_all its (S (length (t_pool t))) known [] [] [] _ _ HD2 Hok).
  2:{ rewrite <- (rep_len_pool _ _ _ H). lia. }
  cbn [app anon map]. rewrite app_nil_r. reflexivity.
Qed.
End ViewF1.
