From Coq Require Import NArith Arith List Bool Lia.
From Coq Require Import ZifyBool ZifyN ZifyNat.
From FF Require Import Lib.Word Gen.Consts_device_acpi_aml Gen.Consts_aml_tree Aml.Stream Aml.Lex Aml.LexProofs
  Aml.Tree Aml.Parser Aml.ParserProofs Aml.TreeSpec Aml.TreeProofs Aml.TreeProofsOps Aml.TreeProofsFind Aml.TreeProofsAnc
  Aml.ParserTotalTree Aml.ParserTotalTree2 Aml.ParserTotalLex Aml.ParserTotalTable Aml.ParserTotalBase Aml.ParserTotalLeaf
  Aml.ParserTotalFrame Aml.ParserTotalLeaf2 Aml.ParserTotalFirst Aml.ParserTotalConn Aml.ParserTotalReloc Aml.ParserTotalDefer
  Aml.ParserTotalMerge Aml.ParserTotalDeferS Aml.ParserTotalDeferB.
Import ListNotations.
Local Open Scope N_scope.

(** the invariant of the walk does not care about the mode *)
Definition WI (s : pstate) (g : ghost) : Prop := FIm (p_allBlocks s) s g.

Lemma WI_FD s g : WI s g -> FIm true (with_allBlocks s true) g.
Proof. intros [A B C D E]. constructor; auto. Qed.

Lemma FD_WI s g : FIm true s g -> WI s g.
Proof. intros H. unfold WI. rewrite (fi_skip _ _ H). exact H. Qed.

Lemma popAll_spec {md} fuel : forall s g, FIm md s g ->
  wp True (popAll_go fuel) s (fun _ s' => FIm md s' g /\ p_tree s' = p_tree s /\ p_scopeStack s' = p_scopeStack s /\
                                          r_offset (p_r s') = r_offset (p_r s) /\ r_len (p_r s') = r_len (p_r s)).
Proof.
  induction fuel as [|fuel IH]; intros s g H; cbn [popAll_go]; [apply wp_outOfFuel; exact I|].
  apply wp_bind, wp_get. destruct (p_pkgEndStack s) eqn:E; [apply wp_ret; auto|].
  apply wp_bind. eapply wp_popPkgEnd; [exact H|]. intros s1 H1 E1 E2 E3 E4.
  eapply wp_weaken; [apply (IH s1 g H1)|auto|]. intros u s' (A & B & C & D & F). split; [exact A|]. repeat split; congruence.
Qed.

Lemma finsert_tree_eq s1 s2 g g' c : finsert s1 g g' c -> p_tree s2 = p_tree s1 -> finsert s2 g g' c.
Proof.
  intros F E par l1 tl Hk. destruct (F par l1 tl Hk) as (new & Hn & Hs). exists new. split; [exact Hn|].
  unfold sibs, nfrow in *. rewrite E. exact Hs.
Qed.

Definition flagged (s : pstate) (x : N) : Prop :=
  exists o op fl af, tget (p_tree s) x = Some o /\ opInfo (o_infoIndex o) = Some (op, fl, af) /\
    hasFlag fl aml_pOpFlagDeferParsing = true.

Section Walk.
Variable tbls : list (list N).
Notation IV := (Inv tbls).
Notation FD := (FIm true).

(** the work on one deferred object *)
Definition block_body (parseFuel : nat) (obj : N) (oo : Obj) : M pres :=
  (fun s => Ok (tt, with_allBlocks s true)) ;;;
  mlet se <~ Parser.get p_streamEnd ;;
  setPkgEndM se ;;;
  setOffsetM (w32 (o_amlOffset oo + 1)) ;;;
  (if 0xff <? o_opcode oo then readByteM ;;; ret tt else ret tt) ;;;
  mlet res <~ parseObjectArgs parseFuel obj ;;
  if negb (pres_eqb res ROk) then ret RFailed else
  mlet n <~ Parser.get (fun s => S (length (p_pkgEndStack s))) ;;
  popAll_go n ;;;
  ret ROk.

Definition Cblock (s : pstate) : N := 8 * r_len (p_r s) + 3.

Lemma block_spec parseFuel obj oo s g :
  WI s g -> IV s -> glive g 0 -> glive g obj -> tget (p_tree s) obj = Some oo -> flagged s obj ->
  (hasfl s obj -> has_parent g obj) -> TM NoX s g ->
  lp s + 8 * r_len (p_r s) + 7 <= InvalidIndex ->
  wp True (block_body parseFuel obj oo) s (fun res s' => exists g',
    WI s' g' /\ gext g g' /\ r_len (p_r s') = r_len (p_r s) /\
    lp s' <= lp s + Cblock s /\ keep (eq obj) s g s' /\ (res = ROk -> TM NoX s' g') /\
    Fk (eq obj) (fun y => hasfl s obj /\ In obj (kids g y)) g g' /\ finsert s' g g' obj).
Proof.
  intros H I0 H0 Hl Hoo Hfl Hflp HTM Hcap. unfold block_body.
  pose proof (WI_FD _ _ H) as H1.
  wbi tbls I0. apply wp_counters. intros I1.
  set (s1 := with_allBlocks s true) in *.
  wbi tbls I1. apply wp_get. intros _.
  wbi tbls I1. apply wp_setPkgEnd. intros I2.
  set (s2 := with_r s1 (fst (setPkgEnd (p_r s1) (p_streamEnd s1)))) in *.
  assert (H2 : FD s2 g) by (apply FI_with_r; [exact H1|apply rok_setPkgEnd; apply (fi_rok _ _ H1)]).
  destruct (setPkgEnd_off (p_r s1) (p_streamEnd s1)) as (Eo2 & El2).
  wbi tbls I2. apply wp_ru. intros I3.
  set (s3 := with_r s2 (setOffset (p_r s2) (w32 (o_amlOffset oo + 1)))) in *.
  destruct (rok_setOffset (p_r s2) (w32 (o_amlOffset oo + 1)) (fi_rok _ _ H2)) as (Hrok3 & El3).
  assert (H3 : FD s3 g) by (apply FI_with_r; auto).
  assert (Hmid : forall s4, FD s4 g -> IV s4 -> p_tree s4 = p_tree s -> r_len (p_r s4) = r_len (p_r s) ->
            wp True (mlet res <~ parseObjectArgs parseFuel obj ;;
                     if negb (pres_eqb res ROk) then ret RFailed else
                     mlet n <~ Parser.get (fun s => S (length (p_pkgEndStack s))) ;; popAll_go n ;;; ret ROk) s4
              (fun res s' => exists g', WI s' g' /\ gext g g' /\ r_len (p_r s') = r_len (p_r s) /\
                 lp s' <= lp s + Cblock s /\ keep (eq obj) s g s' /\ (res = ROk -> TM NoX s' g') /\
                 Fk (eq obj) (fun y => hasfl s obj /\ In obj (kids g y)) g g' /\ finsert s' g g' obj)).
  { intros s4 H4 I4 Et4 El4.
    assert (HTM4 : TM NoX s4 g) by (eapply TM_tree_eq; eauto).
    assert (Hoo4 : tget (p_tree s4) obj = Some oo) by (rewrite Et4; exact Hoo).
    destruct Hfl as (o' & op & fl & af & Ho' & Hrow & Hdf). assert (o' = oo) by congruence. subst o'.
    wbi tbls I4. eapply wp_weaken; [apply (D_objargs_all tbls parseFuel obj s4 g H4 I4 H0 Hl)| |].
    - pose proof (fi_rok _ _ H4) as (_ & _ & O4). unfold roomD, Psi, lp, rem in *. rewrite Et4, El4. lia.
    - apply TM_NoX_any. exact HTM4.
    - intros co Hco Hop. left. apply (HTM4 obj co Hco Hop). intros [].
    - intros (co & op' & fl' & af' & Hco & Hr' & Hf). eapply Hflp. exists co, op', fl', af'. rewrite <- Et4. auto.
    - intros m mo a0 a1 rest Hm Hmop Hk E. subst a1.
      destruct (HTM4 m mo Hm Hmop (fun F => F)) as (b0 & b1 & r & b0o & b1o & v & Hk' & _ & _ & Hb1 & _ & Hn1 & _).
      rewrite Hk in Hk'. inversion Hk'; subst b0 b1 r. assert (b1o = oo) by congruence. subst b1o.
      destruct (Hn1 _ _ _ Hrow) as (F & _). rewrite Hdf in F. discriminate.
    - auto.
    - intros res s5 (g5 & H5 & X5 & F5 & Hfi5 & P5 & _ & Hok5) I5.
      assert (Hlp5 : lp s5 <= lp s + Cblock s).
      { pose proof (fi_rok _ _ H4) as (_ & _ & O4). unfold Cblock. unfold Psi, rem, lp in *. rewrite Et4, El4 in *. lia. }
      assert (Hkeep5 : keep (eq obj) s g s5).
      { intros i o Hi Ho. rewrite <- Et4 in Ho. apply (fr_keep _ _ _ _ _ _ _ F5 i o Hi Ho). }
      assert (Hfk5 : Fk (eq obj) (fun y => hasfl s obj /\ In obj (kids g y)) g g5).
      { intros y Hy HE. apply (fr_kids _ _ _ _ _ _ _ F5 y Hy).
        intros (F & Hin). apply HE. split; [|exact Hin]. unfold hasfl in *. rewrite <- Et4. exact F. }
      destruct (pres_eqb res ROk) eqn:Er; cbn [negb].
      2:{ apply wp_ret. exists g5. split; [apply FD_WI; exact H5|]. split; [apply (xd_g _ _ _ _ X5)|].
          split; [rewrite (xd_len _ _ _ _ X5); exact El4|]. split; [exact Hlp5|]. split; [exact Hkeep5|]. split; [intros E; discriminate|]. split; [exact Hfk5|exact Hfi5]. }
      assert (res = ROk) by (destruct res; try discriminate; reflexivity). subst res.
      destruct (Hok5 eq_refl) as (_ & K2 & _).
      wbi tbls I5. apply wp_get. intros _.
      apply wp_bind. eapply wp_weaken; [apply (popAll_spec _ s5 g5 H5)|auto|].
      intros u s6 (H6 & Et6 & _ & _ & El6). apply wp_ret. exists g5.
      split; [apply FD_WI; exact H6|]. split; [apply (xd_g _ _ _ _ X5)|].
      split; [rewrite El6, (xd_len _ _ _ _ X5); exact El4|].
      split; [unfold lp in *; rewrite Et6; exact Hlp5|].
      split; [intros i o Hi Ho; rewrite Et6; apply (Hkeep5 i o Hi Ho)|].
      split; [intros _; eapply TM_tree_eq; [exact K2|exact Et6]|]. split; [exact Hfk5|].
      eapply finsert_tree_eq; [exact Hfi5|exact Et6]. }
  assert (Et3 : p_tree s3 = p_tree s) by reflexivity.
  assert (El3' : r_len (p_r s3) = r_len (p_r s)).
  { unfold s3. pcbn. rewrite El3. unfold s2. pcbn. pcbn_in El2. rewrite El2. reflexivity. }
  destruct (0xff <? o_opcode oo).
  - apply (wp_bind_inv tbls _ _ _ _ _ I3); [hauto tbls|].
    apply wp_bind. apply wp_readByte; [apply (fi_rok _ _ H3)|].
    intros b r4 Hadv _ _. apply wp_ret. intros I4.
    assert (H4 : FD (with_r s3 r4) g) by (apply FI_adv; auto).
    apply (Hmid (with_r s3 r4) H4 I4); [exact Et3|].
    destruct Hadv as ((_ & E & _) & _). pcbn. rewrite E. exact El3'.
  - wbi tbls I3. apply wp_ret. intros _. apply (Hmid s3 H3 I3 Et3 El3').
Qed.
(** parseDeferredBlocks on an object whose arguments are parsed in the deferred pass *)
Theorem deferred_block_never_panics : forall fuel parseFuel obj oo op fl af s g,
  R (p_tree s) g -> info_valid (p_tree s) -> rok (p_r s) -> Forall (glive g) (p_scopeStack s) -> IV s ->
  glive g 0 -> glive g obj ->
  tget (p_tree s) obj = Some oo -> opInfo (o_infoIndex oo) = Some (op, fl, af) ->
  hasFlag fl aml_pOpFlagDeferParsing = true -> o_tableHandle oo = p_handle s ->
  (has_fl af -> has_parent g obj) -> TM NoX s g ->
  lp s + 8 * r_len (p_r s) + 7 <= InvalidIndex ->
  match parseDeferredBlocks (S fuel) parseFuel obj s with
  | Ok (res, s') => exists g', R (p_tree s') g' /\ info_valid (p_tree s') /\ rok (p_r s') /\ Forall (glive g') (p_scopeStack s') /\
      gext g g' /\ glive g' 0 /\ lp s' <= lp s + 8 * r_len (p_r s) + 3 /\ (res = ROk -> TM NoX s' g')
  | Panic => False
  | OutOfFuel => True
  end.
Proof.
  intros fuel parseFuel obj oo op fl af s g HR Hi Hrk Hsc I0 H0 Hl Hoo Hrow Hdf Hh Hflp HTM Hcap.
  assert (H : WI s g) by (constructor; auto).
  assert (W : wp True (parseDeferredBlocks (S fuel) parseFuel obj) s (fun res s' => exists g',
     WI s' g' /\ gext g g' /\ r_len (p_r s') = r_len (p_r s) /\ lp s' <= lp s + Cblock s /\ keep (eq obj) s g s' /\ (res = ROk -> TM NoX s' g') /\
     Fk (eq obj) (fun y => hasfl s obj /\ In obj (kids g y)) g g' /\ finsert s' g g' obj)).
  { cbn [parseDeferredBlocks].
    apply wp_bind. apply wp_objectAt'; [apply (FI_ObjectAt _ _ _ H Hl)|].
    apply wp_bind. apply wp_rdo. exists oo. split; [exact Hoo|].
    apply wp_bind. eapply wp_info; [exact Hrow|]. cbv beta iota.
    apply wp_bind, wp_get. rewrite Hdf, Hh, N.eqb_refl. cbn [andb].
    apply (block_spec parseFuel obj oo s g H I0 H0 Hl Hoo); auto.
    - exists oo, op, fl, af. auto.
    - intros (co & op' & fl' & af' & Hco & Hr' & Hf). apply Hflp. assert (co = oo) by congruence. subst. rewrite Hrow in Hr'. inversion Hr'; subst. exact Hf. }
  unfold wp in W. destruct (parseDeferredBlocks (S fuel) parseFuel obj s) as [[res s']| |]; auto.
  destruct W as (g' & [A B C D E] & G & L & P & _ & T & _ & _). exists g'. repeat (split; [assumption|]).
  split; [apply (ge_live _ _ G); exact H0|]. split; [unfold Cblock in P; lia|exact T].
Qed.
End Walk.

(** ---- the hypotheses are satisfiable: the root and a While object whose block While (Zero) { } has not been parsed yet ---- *)
Definition dex_ops : list op :=
  [ OpNewNamed opScopeBlock 0 (0x5c, 0, 0, 0); OpNew aml_pOpWhile 1; OpAppend 0 1 ].
Definition dex_image : list N := table_image [0xa2; 0x02; 0x00].
Definition dex_tree : T :=
  match run (@NewObjectTree value) dex_ops with
  | Ok t => tset t 1 (set_amlOffset aml_sizeofSDTHeader)
  | _ => NewObjectTree
  end.
Definition dex_ghost : ghost := arun ghost0 dex_ops.
Definition dex_state : pstate := with_scopeStack (init_state dex_tree [] 1 dex_image) [0].

Lemma dex_legal : legal_seq ghost0 dex_ops.
Proof.
  unfold dex_ops. cbn [legal_seq].
  repeat match goal with |- _ /\ _ => split end; cbn [legal]; try exact I;
  try (split; [vm_compute; discriminate | split; [first [left; vm_compute; discriminate | right; vm_compute; reflexivity] | intros _; vm_compute; reflexivity]]).
  split; [split; [vm_compute; reflexivity | vm_compute; intuition discriminate]|].
  split; [split; [vm_compute; reflexivity | vm_compute; intuition discriminate]|].
  split; [apply groot_chk; vm_compute; reflexivity|apply (not_desc_chk _ _ _ [1]); vm_compute; reflexivity].
Qed.

Lemma dex_R : R dex_tree dex_ghost.
Proof.
  destruct (run_R dex_ops (@NewObjectTree value) ghost0 R_empty dex_legal) as (t' & Hrun & HR').
  unfold dex_tree, dex_ghost. rewrite Hrun. apply R_tset_lk; [exact HR'|].
  intros o _. unfold lk_eq, set_amlOffset. cbn. tauto.
Qed.

Lemma dex_hyps :
  let s := dex_state in let g := dex_ghost in let obj := 1 in
  exists (oo : Obj) (op fl af : N),
    R (p_tree s) g /\ info_valid (p_tree s) /\ rok (p_r s) /\ Forall (glive g) (p_scopeStack s) /\ Inv (p_tables s) s /\
    glive g 0 /\ glive g obj /\
    tget (p_tree s) obj = Some oo /\ opInfo (o_infoIndex oo) = Some (op, fl, af) /\
    hasFlag fl aml_pOpFlagDeferParsing = true /\ o_tableHandle oo = p_handle s /\
    (has_fl af -> has_parent g obj) /\ TM NoX s g /\
    lp s + 8 * r_len (p_r s) + 7 <= InvalidIndex /\
    match parseDeferredBlocks 5 400 obj s with Ok (res, s') => res = ROk /\ lp s' = 4 | _ => False end.
Proof.
  cbv zeta.
  assert (Hi : info_valid dex_tree).
  { unfold info_valid. apply (pool_cases dex_tree (fun i o => o_opcode o <> opFreed -> opInfo (o_infoIndex o) <> None)). intros n o Hn.
    do 2 (destruct n as [|n]; [vm_compute in Hn; inversion Hn; subst o; intros _; vm_compute; discriminate|]).
    vm_compute in Hn. destruct n; discriminate. }
  assert (H0 : glive dex_ghost 0) by (split; [vm_compute; reflexivity|vm_compute; intuition discriminate]).
  assert (Him : image_small dex_image) by (split; [repeat constructor; vm_compute; reflexivity|vm_compute; discriminate]).
  assert (Hcap : N.of_nat (length (t_pool dex_tree)) + 4 * N.of_nat (length dex_image) + 4 <= InvalidIndex) by (vm_compute; discriminate).
  destruct (init_FI dex_tree dex_ghost [] 1 dex_image dex_R Hi H0 Him Hcap) as ([A B C D E] & _).
  fold dex_state in A, B, C, D, E.
  eexists _, _, _, _.
  split; [exact A|]. split; [exact B|]. split; [exact C|]. split; [exact E|].
  split.
  { destruct C as (W & Sm & O). constructor; [reflexivity|exact W| |reflexivity|].
    - unfold no_wrap. unfold small_table in Sm. unfold two32 in *. lia.
    - unfold pool_ok. rewrite Forall_forall. intros o Hin. destruct (In_nth_error _ _ Hin) as (n & Hn).
      do 2 (destruct n as [|n]; [vm_compute in Hn; inversion Hn; subst o; exact I|]). vm_compute in Hn. destruct n; discriminate. }
  split; [exact H0|]. split; [split; [vm_compute; reflexivity|vm_compute; intuition discriminate]|].
  split; [vm_compute; reflexivity|]. split; [vm_compute; reflexivity|]. split; [vm_compute; reflexivity|]. split; [reflexivity|].
  split; [intros (k & Hk & Hf); exfalso; revert Hf; assert (Hc : k = 0 \/ k = 1 \/ k = 2 \/ k = 3 \/ k = 4 \/ k = 5 \/ k = 6 \/ k = 7) by lia;
          destruct Hc as [->|[->|[->|[->|[->|[->|[->| ->]]]]]]]; vm_compute; discriminate|].
  split.
  { unfold TM. change (p_tree dex_state) with dex_tree.
    apply (pool_cases dex_tree (fun m mo => o_opcode mo = aml_pOpMethod -> ~ NoX m -> mtyped dex_state dex_ghost m)). intros n o Hn Hop.
    do 2 (destruct n as [|n]; [vm_compute in Hn; inversion Hn; subst o; vm_compute in Hop; discriminate|]).
    vm_compute in Hn. destruct n; discriminate. }
  split; [vm_compute; discriminate|].
  vm_compute. split; reflexivity.
Qed.

Lemma deferred_hyps_example :
  exists (s : pstate) (g : ghost) (obj : N) (oo : Obj) (op fl af : N),
    R (p_tree s) g /\ info_valid (p_tree s) /\ rok (p_r s) /\ Forall (glive g) (p_scopeStack s) /\ Inv (p_tables s) s /\
    glive g 0 /\ glive g obj /\
    tget (p_tree s) obj = Some oo /\ opInfo (o_infoIndex oo) = Some (op, fl, af) /\
    hasFlag fl aml_pOpFlagDeferParsing = true /\ o_tableHandle oo = p_handle s /\
    (has_fl af -> has_parent g obj) /\ TM NoX s g /\
    lp s + 8 * r_len (p_r s) + 7 <= InvalidIndex /\
    match parseDeferredBlocks 5 400 obj s with Ok (res, s') => res = ROk /\ lp s' = 4 | _ => False end.
Proof. destruct dex_hyps as (oo & op & fl & af & H). exists dex_state, dex_ghost, 1, oo, op, fl, af. exact H. Qed.
