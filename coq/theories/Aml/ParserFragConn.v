(** C11 (fragment proofs): exact steps of connectNamedObjArgs (the pass after the first pass).

    [CN_leaf] / [CNloop_leaf]: childless objects are stepped over.
    [CNloop_name]: a Name object followed by its value: the name is copied out of the name path and the value
    is moved below the Name object (attachSiblingsAsArgs = detach + append). *)
From Coq Require Import NArith ZArith Arith List Bool Lia.
From Coq Require Import ZifyBool ZifyN ZifyNat.
From FF Require Import Lib.Word Gen.Consts_device_acpi_aml Gen.Consts_aml_tree Aml.Stream Aml.Lex Aml.LexProofs
  Aml.Tree Aml.TreeSpec Aml.TreeProofs Aml.TreeProofsOps Aml.TreeProofsFind Aml.Parser
  Aml.ParserTotalTree Aml.ParserTotalTree2 Aml.ParserTotalLex Aml.ParserTotalTable Aml.ParserTotalBase
  Aml.ParserFragBase Aml.ParserFragFirst.
Import ListNotations.
Local Open Scope N_scope.

Ltac Zify.zify_post_hook ::= Z.div_mod_to_equations.

(** ---- unfolding equations ---- *)
Lemma connectNamedObjArgs_S f objIndex : connectNamedObjArgs (S f) objIndex =
  (mlet obj <~ objectAt' objIndex ;; mlet argIndex <~ rdf obj o_last ;; connectNamed_loop f obj argIndex).
Proof. reflexivity. Qed.

Lemma connectNamed_loop_S fuel' obj argIndex : connectNamed_loop (S fuel') obj argIndex =
  (if argIndex =? InvalidIndex then ret ROk else
  mlet argObj <~ objectAt' argIndex ;;
  mlet ai <~ rdf argObj o_index ;;
  mlet res <~ connectNamedObjArgs fuel' ai ;;
  if negb (pres_eqb res ROk) then ret RFailed else
  let continue := mlet prev <~ rdf argObj o_prev ;; connectNamed_loop fuel' obj prev in
  mlet ao <~ rdo argObj ;;
  mlet '(_, flags, argFlags) <~ info (o_infoIndex ao) ;;
  mlet h <~ get p_handle ;;
  if negb (hasFlag flags aml_pOpFlagNamed) || negb (o_tableHandle ao =? h) || (o_first ao =? InvalidIndex) || (o_opcode ao =? aml_pOpIntScopeBlock)
  then continue else
  mlet nameObj <~ objectAt' (o_first ao) ;;
  mlet no <~ rdo nameObj ;;
  match valueBytes no with
  | None => ret RFailed
  | Some (tbl, sl) =>
    if s_len sl <? aml_amlNameLen then ret RFailed else
    mlet bytes <~ bytesOf tbl sl ;;
    setNameFrom argObj bytes ;;;
    let argCnt := argCount argFlags in
    let tai := termArgIndex argFlags in
    mlet na <~ tq (fun t => NumArgs t (Some argObj)) ;;
    if (na =? argCnt) || (argCnt <=? tai) then continue else
    mlet r <~ attachSiblingsAsArgs fuel' obj argObj (w8 (argCnt + 0x100 - tai)) false ;;
    if negb (pres_eqb r ROk) then ret RFailed else continue
  end).
Proof. reflexivity. Qed.

Lemma attachSiblings_go_S fuel parentObj targetObj siblingIndex numArgs useParent :
  attachSiblings_go (S fuel) parentObj targetObj siblingIndex numArgs useParent =
  (if numArgs =? 0 then ret ROk else
  mlet siblingIndex <~ (if (siblingIndex =? InvalidIndex) && useParent then rdf parentObj o_next else ret siblingIndex) ;;
  if siblingIndex =? InvalidIndex then ret RFailed else
  mlet sib <~ objectAt siblingIndex ;;
  mlet sibp <~ need sib ;;
  mlet nextIdx <~ rdf sibp o_next ;;
  mlet parIdx <~ rdf sibp o_parent ;;
  mlet par <~ objectAt parIdx ;;
  detachM par (Some sibp) ;;;
  appendM (Some targetObj) sibp ;;;
  attachSiblings_go fuel parentObj targetObj nextIdx (numArgs - 1) useParent).
Proof. reflexivity. Qed.

Lemma rep_not_Inv (t : T) g pl i a : Rep t g pl -> pget pl i = Some a -> (i =? InvalidIndex) = false.
Proof.
  intros H Hg. apply N.eqb_neq. pose proof (pget_lt _ _ _ Hg) as Hlt. rewrite (rep_len_pool _ _ _ H) in Hlt.
  pose proof (R_bound _ _ (rep_R _ _ _ H)). lia.
Qed.

(** ---- childless objects ---- *)
Lemma CN_leaf f x a s g pl (Q : pres -> pstate -> Prop) :
  Rep (p_tree s) g pl -> pget pl x = Some a -> y_op a <> opFreed -> kids g x = [] -> Q ROk s ->
  wp False (connectNamedObjArgs (S (S f)) x) s Q.
Proof.
  intros H Ha Hl Hk K. rewrite connectNamedObjArgs_S.
  apply wp_bind. eapply wp_objectAt_rep; [exact H|exact Ha|exact Hl|].
  apply wp_bind. eapply wp_rdf_rep; [exact H|exact Ha|exact Hl|]. intros o _ _ _ Hlast. rewrite Hlast, Hk. cbn [last].
  rewrite connectNamed_loop_S, N.eqb_refl. apply wp_ret. exact K.
Qed.

Lemma CNloop_leaf f obj c l1 l2 a row s g pl (Q : pres -> pstate -> Prop) :
  Rep (p_tree s) g pl -> kids g obj = l1 ++ c :: l2 -> pget pl c = Some a -> y_op a <> opFreed -> kids g c = [] ->
  opInfo (y_info a) = Some row ->
  wp False (connectNamed_loop (S (S f)) obj (last l1 InvalidIndex)) s Q ->
  wp False (connectNamed_loop (S (S (S f))) obj c) s Q.
Proof.
  intros H Hk Ha Hl Hkc Hrow K. rewrite connectNamed_loop_S. rewrite (rep_not_Inv _ _ _ _ _ H Ha).
  apply wp_bind. eapply wp_objectAt_rep; [exact H|exact Ha|exact Hl|].
  apply wp_bind. eapply wp_rdf_rep; [exact H|exact Ha|exact Hl|]. intros o _ Hidx _ _. rewrite Hidx.
  apply wp_bind. eapply CN_leaf; [exact H|exact Ha|exact Hl|exact Hkc|].
  change (negb (pres_eqb ROk ROk)) with false. cbv iota zeta.
  apply wp_bind. eapply wp_rdo_rep; [exact H|exact Ha|exact Hl|]. intros ao Hpay _ Hfirst _.
  rewrite (pay_info _ _ Hpay). destruct row as [[op' flags] argFlags].
  apply wp_bind. eapply wp_info; [exact Hrow|]. cbv beta iota.
  apply wp_bind, wp_get. rewrite Hfirst, Hkc. cbn [hd]. rewrite N.eqb_refl, orb_true_r. cbn [orb].
  apply wp_bind. eapply wp_rdf_sib; [exact H|exact Hk|]. intros o' _ _ Hprev _ _. rewrite Hprev. exact K.
Qed.

(** an object whose only child is childless and is stepped over *)
Lemma CN_single f x p a ap row s g pl (Q : pres -> pstate -> Prop) :
  Rep (p_tree s) g pl -> pget pl x = Some a -> y_op a <> opFreed -> kids g x = [p] ->
  pget pl p = Some ap -> y_op ap <> opFreed -> kids g p = [] -> opInfo (y_info ap) = Some row -> Q ROk s ->
  wp False (connectNamedObjArgs (S (S (S (S f)))) x) s Q.
Proof.
  intros H Ha Hl Hk Hap Hlp Hkp Hrow K. rewrite connectNamedObjArgs_S.
  apply wp_bind. eapply wp_objectAt_rep; [exact H|exact Ha|exact Hl|].
  apply wp_bind. eapply wp_rdf_rep; [exact H|exact Ha|exact Hl|]. intros o _ _ _ Hlast. rewrite Hlast, Hk. cbn [last].
  eapply (CNloop_leaf f x p [] [] ap row); [exact H|exact Hk|exact Hap|exact Hlp|exact Hkp|exact Hrow|].
  cbn [last]. rewrite connectNamed_loop_S, N.eqb_refl. apply wp_ret. exact K.
Qed.

(** ---- moving one sibling below the target ---- *)
Lemma NoDup_mid_notin (l1 l2 : list N) c : NoDup (l1 ++ c :: l2) -> ~ In c (l1 ++ l2).
Proof. intros H. apply NoDup_remove_2 in H. exact H. Qed.

Lemma attach_one f obj tg c l1 l2 ao atg ac s g pl (Q : pres -> pstate -> Prop) :
  Rep (p_tree s) g pl -> kids g obj = l1 ++ tg :: c :: l2 -> kids g c = [] ->
  pget pl obj = Some ao -> y_op ao <> opFreed -> pget pl tg = Some atg -> y_op atg <> opFreed ->
  pget pl c = Some ac -> y_op ac <> opFreed ->
  (forall t', Rep t' (set_kids (set_kids g obj (l1 ++ tg :: l2)) tg (kids g tg ++ [c])) pl -> Q ROk (with_tree s t')) ->
  wp False (attachSiblingsAsArgs (S (S f)) obj tg 1 false) s Q.
Proof.
  intros H Hk Hkc Hao Hlo Hatg Hltg Hac Hlc K. pose proof (rep_R _ _ _ H) as HR.
  unfold attachSiblingsAsArgs.
  apply wp_bind. eapply (wp_rdf_sib False obj l1 tg (c :: l2)); [exact H|exact Hk|]. intros o _ _ _ Hnext _. rewrite Hnext. cbn [hd].
  rewrite attachSiblings_go_S. change (1 =? 0) with false. cbv iota. rewrite andb_false_r.
  apply wp_bind. apply wp_ret. rewrite (rep_not_Inv _ _ _ _ _ H Hac).
  apply wp_bind. unfold objectAt. apply wp_get. rewrite (rep_ObjectAt _ _ _ H _ _ Hac Hlc).
  apply wp_bind. apply wp_need.
  assert (Hk2 : kids g obj = (l1 ++ [tg]) ++ c :: l2) by (rewrite <- app_assoc; exact Hk).
  apply wp_bind. eapply (wp_rdf_sib False obj (l1 ++ [tg]) c l2); [exact H|exact Hk2|]. intros o1 _ _ _ _ _.
  apply wp_bind. eapply (wp_rdf_sib False obj (l1 ++ [tg]) c l2); [exact H|exact Hk2|]. intros o2 _ Hpar _ _ _. rewrite Hpar.
  apply wp_bind. unfold objectAt. apply wp_get. rewrite (rep_ObjectAt _ _ _ H _ _ Hao Hlo).
  assert (Hin_c : In c (kids g obj)) by (rewrite Hk2; apply in_or_app; right; left; reflexivity).
  assert (Hin_t : In tg (kids g obj)) by (rewrite Hk; apply in_or_app; right; left; reflexivity).
  assert (Hlive_o : glive g obj) by (eapply rep_live; eauto).
  assert (Hlive_t : glive g tg) by (eapply rep_live; eauto).
  assert (Hlive_c : glive g c) by (eapply rep_live; eauto).
  assert (Hnd : NoDup (kids g obj)).
  { destruct (rep_obj _ _ _ H _ _ Hao Hlo) as (oo & Hoo & Epay & _).
    assert (Hloo : o_opcode oo <> opFreed) by (rewrite (pay_op _ _ Epay); exact Hlo).
    destruct (R_kids _ _ HR _ _ Hoo Hloo) as (_ & _ & _ & Hnd). exact Hnd. }
  assert (Hnotin : ~ In c ((l1 ++ [tg]) ++ l2)) by (apply NoDup_mid_notin; rewrite <- Hk2; exact Hnd).
  assert (Hrem : remove1 c (kids g obj) = l1 ++ tg :: l2).
  { rewrite Hk2, remove1_split; [rewrite <- app_assoc; reflexivity|]. intros Hi. apply Hnotin. apply in_or_app. left. exact Hi. }
  apply wp_bind. eapply wp_detach_rep; [exact H|exact Hin_c|]. intros t1 H1. rewrite Hrem in H1.
  set (g1 := set_kids g obj (l1 ++ tg :: l2)) in *.
  assert (Holt : obj < N.of_nat (length (g_kids g))) by (apply glive_lt; exact Hlive_o).
  assert (Hne_to : tg <> obj) by (eapply (R_child_neq_parent _ _ HR); eauto).
  assert (Hne_co : c <> obj) by (eapply (R_child_neq_parent _ _ HR); eauto).
  assert (Hne_ct : c <> tg).
  { intros E. apply Hnotin. rewrite E. apply in_or_app. left. apply in_or_app. right. left. reflexivity. }
  assert (Hk1 : forall q, kids g1 q = if q =? obj then l1 ++ tg :: l2 else kids g q).
  { intros q. unfold g1. apply kids_set_kids. exact Holt. }
  assert (Hroot1 : groot g1 c).
  { intros q Hq. rewrite Hk1 in Hq. destruct (N.eqb_spec q obj) as [E|Hne].
    - apply Hnotin. rewrite <- app_assoc. exact Hq.
    - apply Hne. eapply (R_parent_unique _ _ HR); eauto. }
  assert (Hnd1 : ~ desc g1 c tg).
  { intros Hd. apply desc_leaf in Hd; [congruence|]. rewrite Hk1. apply N.eqb_neq in Hne_co. rewrite Hne_co. exact Hkc. }
  apply wp_bind. eapply (wp_append_rep False tg c _ g1 pl); [exact H1|apply glive_set_kids; exact Hlive_t|apply glive_set_kids; exact Hlive_c|exact Hroot1|exact Hnd1|].
  intros t2 H2. rewrite Hk1 in H2. apply N.eqb_neq in Hne_to. rewrite Hne_to in H2.
  rewrite attachSiblings_go_S. change (1 - 1 =? 0) with true. cbv iota. apply wp_ret.
  exact (K t2 H2).
Qed.

Lemma wp_bytesOf' P tbl sl l s (Q : list N -> pstate -> Prop) :
  slice_bytes s tbl sl = Ok l -> Q l s -> wp P (bytesOf tbl sl) s Q.
Proof. intros E H. unfold wp, bytesOf. rewrite E. exact H. Qed.

Lemma slice_bytes_tree s t' tbl sl : slice_bytes (with_tree s t') tbl sl = slice_bytes s tbl sl.
Proof. reflexivity. Qed.

(** ---- a Name object followed by its value ---- *)
Lemma CNloop_name f obj nmi p c l1 l2 ao an ap ac rowp tbl sl b0 b1 b2 b3 s g pl (Q : pres -> pstate -> Prop) :
  Rep (p_tree s) g pl -> kids g obj = l1 ++ nmi :: c :: l2 -> kids g nmi = [p] -> kids g p = [] -> kids g c = [] ->
  pget pl obj = Some ao -> y_op ao <> opFreed ->
  pget pl nmi = Some an -> y_op an = aml_pOpName -> y_info an = 3 -> y_th an = p_handle s ->
  pget pl p = Some ap -> y_op ap <> opFreed -> opInfo (y_info ap) = Some rowp -> y_val ap = Some (VBytes tbl sl) -> s_len sl = 4 ->
  slice_bytes s tbl sl = Ok [b0; b1; b2; b3] ->
  pget pl c = Some ac -> y_op ac <> opFreed ->
  (forall t', Rep t' (set_kids (set_kids g obj (l1 ++ nmi :: l2)) nmi [p; c]) (pupd pl nmi (ys_name (b0, b1, b2, b3))) ->
     wp False (connectNamed_loop (S (S (S (S f)))) obj (last l1 InvalidIndex)) (with_tree s t') Q) ->
  wp False (connectNamed_loop (S (S (S (S (S f))))) obj nmi) s Q.
Proof.
  intros H Hk Hkn Hkp Hkc Hao Hlo Han Hop Hinfo Hth Hap Hlp Hrowp Hval Hlen Hbytes Hac Hlc K.
  pose proof (rep_R _ _ _ H) as HR.
  assert (Hln : y_op an <> opFreed) by (rewrite Hop; discriminate).
  assert (Hin_n : In nmi (kids g obj)) by (rewrite Hk; apply in_or_app; right; left; reflexivity).
  assert (Hin_c : In c (kids g obj)) by (rewrite Hk; apply in_or_app; right; right; left; reflexivity).
  assert (Hne_no : nmi <> obj) by (eapply (R_child_neq_parent _ _ HR); eauto).
  assert (Hne_co : c <> obj) by (eapply (R_child_neq_parent _ _ HR); eauto).
  assert (Hne_cn : c <> nmi).
  { intros E. subst c. rewrite Hkn in Hkc. discriminate. }
  rewrite connectNamed_loop_S. rewrite (rep_not_Inv _ _ _ _ _ H Han).
  apply wp_bind. eapply wp_objectAt_rep; [exact H|exact Han|exact Hln|].
  apply wp_bind. eapply wp_rdf_rep; [exact H|exact Han|exact Hln|]. intros o _ Hidx _ _. rewrite Hidx.
  apply wp_bind. eapply (CN_single _ nmi p an ap rowp); [exact H|exact Han|exact Hln|exact Hkn|exact Hap|exact Hlp|exact Hkp|exact Hrowp|].
  change (negb (pres_eqb ROk ROk)) with false. cbv iota zeta.
  apply wp_bind. eapply wp_rdo_rep; [exact H|exact Han|exact Hln|]. intros aon Hpay _ Hfirst _.
  rewrite (pay_info _ _ Hpay), Hinfo.
  apply wp_bind. eapply wp_info; [exact name_info|]. unfold name_inf. cbv beta iota.
  apply wp_bind, wp_get.
  rewrite (pay_th _ _ Hpay), Hth, N.eqb_refl, Hfirst, Hkn, (pay_op _ _ Hpay), Hop. cbn [hd].
  rewrite (rep_not_Inv _ _ _ _ _ H Hap).
  change (negb (hasFlag 1 aml_pOpFlagNamed) || negb true || false || (aml_pOpName =? aml_pOpIntScopeBlock)) with false. cbv iota.
  apply wp_bind. eapply wp_objectAt_rep; [exact H|exact Hap|exact Hlp|].
  apply wp_bind. eapply wp_rdo_rep; [exact H|exact Hap|exact Hlp|]. intros nop Hpayp _ _ _.
  unfold valueBytes. rewrite (pay_val _ _ Hpayp), Hval, Hlen. change (4 <? aml_amlNameLen) with false. cbv iota.
  apply wp_bind. eapply wp_bytesOf'; [exact Hbytes|].
  apply wp_bind. unfold setNameFrom. cbn [rev app].
  eapply (wp_wrf_rep False _ _ (ys_name (b0, b1, b2, b3))); [exact H|exact Han|exact Hln|apply st_name|].
  intros t2 H2. set (pl2 := pupd pl nmi (ys_name (b0, b1, b2, b3))) in *.
  assert (Han2 : pget pl2 nmi = Some (ys_name (b0, b1, b2, b3) an)).
  { unfold pl2. rewrite pget_pupd, N.eqb_refl, Han. reflexivity. }
  assert (Hao2 : pget pl2 obj = Some ao).
  { unfold pl2. rewrite pget_pupd. destruct (N.eqb_spec obj nmi); [congruence|exact Hao]. }
  assert (Hac2 : pget pl2 c = Some ac).
  { unfold pl2. rewrite pget_pupd. destruct (N.eqb_spec c nmi); [congruence|exact Hac]. }
  assert (Hlive_n : live t2 nmi).
  { apply (R_live_glive _ _ (rep_R _ _ _ H2)). eapply rep_live; [exact H|exact Han|exact Hln]. }
  apply wp_bind. eapply wp_tq; [apply (NumArgs_spec _ _ (rep_R _ _ _ H2) nmi Hlive_n)|].
  rewrite Hkn. cbn [length]. change (N.of_nat 1) with 1.
  change ((1 =? argCount 3081) || (argCount 3081 <=? termArgIndex 3081)) with false. cbv iota.
  change (w8 (argCount 3081 + 256 - termArgIndex 3081)) with 1.
  apply wp_bind.
  eapply (attach_one _ obj nmi c l1 l2 ao _ ac _ g pl2); [exact H2|exact Hk|exact Hkc|exact Hao2|exact Hlo|exact Han2|exact Hln|exact Hac2|exact Hlc|].
  intros t3 H3. rewrite Hkn in H3. cbn [app] in H3.
  change (negb (pres_eqb ROk ROk)) with false. cbv iota.
  set (g3 := set_kids (set_kids g obj (l1 ++ nmi :: l2)) nmi [p; c]) in *.
  assert (Holt : obj < N.of_nat (length (g_kids g))) by (apply glive_lt; eapply rep_live; eauto).
  assert (Hnlt : nmi < N.of_nat (length (g_kids g))) by (apply glive_lt; eapply rep_live; eauto).
  assert (Hk3 : kids g3 obj = l1 ++ nmi :: l2).
  { unfold g3. rewrite kids_set_kids by (rewrite len_set_kids; exact Hnlt).
    destruct (N.eqb_spec obj nmi); [congruence|]. rewrite kids_set_kids by exact Holt. rewrite N.eqb_refl. reflexivity. }
  apply wp_bind. eapply (wp_rdf_sib False obj l1 nmi l2); [exact H3|exact Hk3|]. intros o3 _ _ Hprev _ _. rewrite Hprev.
  exact (K t3 H3).
Qed.
