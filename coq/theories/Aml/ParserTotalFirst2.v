(** C12 (stretch): the first pass once more, with frames (mode parseModeSkipAmbiguousBlocks): what one parseNextObject leaves
    alone, and the shape of the object it finishes. *)
From Coq Require Import NArith Arith List Bool Lia.
From Coq Require Import ZifyBool ZifyN ZifyNat.
From FF Require Import Lib.Word Gen.Consts_device_acpi_aml Gen.Consts_aml_tree Aml.Stream Aml.Lex Aml.LexProofs
  Aml.Tree Aml.TreeSpec Aml.TreeProofs Aml.TreeProofsOps Aml.Parser
  Aml.ParserTotalTree Aml.ParserTotalTree2 Aml.ParserTotalLex Aml.ParserTotalTable Aml.ParserTotalBase Aml.ParserTotalLeaf
  Aml.ParserTotalFrame Aml.ParserTotalLeaf2 Aml.ParserTotalFirst Aml.ParserTotalConn Aml.ParserTotalReloc Aml.ParserTotalDefer Aml.ParserTotalDeferH Aml.ParserTotalDeferM Aml.ParserTotalBenign.
Import ListNotations.
Local Open Scope N_scope.

(** ---- a frame that ignores amlOffset / pkgEnd / index ---- *)
Definition pnw (o o' : Obj) : Prop :=
  o_opcode o' = o_opcode o /\ o_infoIndex o' = o_infoIndex o /\ o_tableHandle o' = o_tableHandle o /\ o_name o' = o_name o.

Lemma pnw_refl o : pnw o o. Proof. unfold pnw. tauto. Qed.
Lemma pnw_trans a b c : pnw a b -> pnw b c -> pnw a c. Proof. unfold pnw. intuition congruence. Qed.
Lemma pnv_pnw (o o' : Obj) : pnv o o' -> pnw o o'. Proof. unfold pnv, pnw. tauto. Qed.

Definition keepw (P : N -> Prop) (s : pstate) (g : ghost) (s' : pstate) : Prop :=
  forall i o, glive g i -> tget (p_tree s) i = Some o ->
    exists o', tget (p_tree s') i = Some o' /\ pnw o o' /\ (~ P i -> o_value o' = o_value o).

Record Fw (P X : N -> Prop) (s : pstate) (g : ghost) (s' : pstate) (g' : ghost) : Prop := mkFw {
  fw_keep : keepw P s g s';
  fw_kids : Fk X NoP g g'
}.

Lemma Fw_refl P X s g : Fw P X s g s g.
Proof. constructor; [intros i o _ Ho; exists o; split; auto; split; [apply pnw_refl|auto]|apply Fk_refl]. Qed.

Lemma Fw_of_Fr (P X : N -> Prop) s g s' g' : Fr P X NoP s g s' g' -> Fw P X s g s' g'.
Proof.
  intros [K G]. constructor; [|exact G]. intros i o Hi Ho. destruct (K i o Hi Ho) as (o' & Ho' & E & V).
  exists o'. split; [exact Ho'|]. split; [apply pnv_pnw; exact E|exact V].
Qed.

Lemma Fw_trans (P P1 X X1 : N -> Prop) s g s1 g1 s2 g2 :
  Fw P X s g s1 g1 -> Fw P1 X1 s1 g1 s2 g2 -> (forall x, glive g x -> glive g1 x) ->
  (forall i, glive g i -> P1 i -> P i) -> (forall y, glive g y -> X1 y -> X y) -> Fw P X s g s2 g2.
Proof.
  intros [K1 G1] [K2 G2] Hl Hp Hx. constructor.
  - intros i o Hi Ho. destruct (K1 i o Hi Ho) as (o1 & Ho1 & E1 & V1). destruct (K2 i o1 (Hl _ Hi) Ho1) as (o2 & Ho2 & E2 & V2).
    exists o2. split; [exact Ho2|]. split; [eapply pnw_trans; eauto|]. intros Hn. rewrite V2; [apply V1; exact Hn|].
    intros F. apply Hn. apply Hp; auto.
  - eapply Fk_trans; eauto.
Qed.

Lemma Fw_weaken (P P' X X' : N -> Prop) s g s' g' :
  (forall i, glive g i -> P i -> P' i) -> (forall y, glive g y -> X y -> X' y) -> Fw P X s g s' g' -> Fw P' X' s g s' g'.
Proof.
  intros Hp Hx [K G]. constructor.
  - intros i o Hi Ho. destruct (K i o Hi Ho) as (o' & Ho' & E1 & V1). exists o'. split; [exact Ho'|]. split; [exact E1|].
    intros Hn. apply V1. intros F. apply Hn. apply Hp; auto.
  - intros y Hy HE. destruct (G y Hy HE) as (A & B). split; [exact A|]. intros HX'. apply B. intros H1. apply HX'. apply Hx; auto.
Qed.

(** a write to one object that keeps opcode, row, handle and name *)
Lemma Fw_tset (P X : N -> Prop) s0 g0 s1 g1 p f :
  Fw P X s0 g0 s1 g1 -> (forall o, pnw o (f o)) -> (glive g0 p -> P p \/ forall o, o_value (f o) = o_value o) ->
  Fw P X s0 g0 (with_tree s1 (tset (p_tree s1) p f)) g1.
Proof.
  intros [K G] Hf Hp. constructor; [|exact G]. intros i o Hi Ho. destruct (K i o Hi Ho) as (o1 & Ho1 & E1 & V1).
  cbn [p_tree with_tree]. rewrite get_tset, Ho1. cbn [option_map]. destruct (N.eqb_spec i p) as [->|Hne].
  - exists (f o1). split; [reflexivity|]. split; [eapply pnw_trans; [exact E1|apply Hf]|]. intros Hn.
    destruct (Hp Hi) as [F|F]; [contradiction|]. rewrite F. apply V1. exact Hn.
  - exists o1. auto.
Qed.

Lemma Fw_tree_eq P X s0 g0 s1 g1 s2 : Fw P X s0 g0 s1 g1 -> p_tree s2 = p_tree s1 -> Fw P X s0 g0 s2 g1.
Proof. intros [K G] E. constructor; [|exact G]. intros i o Hi Ho. rewrite E. apply (K i o Hi Ho). Qed.

Lemma Fw_new (P X : N -> Prop) s0 g0 s1 g1 (t2 : T) g2 p :
  Fw P X s0 g0 s1 g1 -> (forall x, glive g0 x -> glive g1 x) -> ~ glive g1 p ->
  (forall i o, i <> p -> tget (p_tree s1) i = Some o -> tget t2 i = Some o) ->
  (forall y, kids g2 y = kids g1 y) ->
  Fw P X s0 g0 (with_tree s1 t2) g2.
Proof.
  intros [K G] Hl Hp Hfw Hk. constructor.
  - intros i o Hi Ho. destruct (K i o Hi Ho) as (o1 & Ho1 & E1). exists o1. split; [|exact E1].
    cbn [p_tree with_tree]. apply Hfw; [|exact Ho1]. intros ->. apply Hp. apply Hl. exact Hi.
  - intros y Hy HE. rewrite Hk. apply (G y Hy HE).
Qed.

Lemma Fw_append (P X : N -> Prop) s0 g0 s1 g1 (t2 : T) g2 o a :
  Fw P X s0 g0 s1 g1 -> pframe (p_tree s1) t2 ->
  kids g2 o = kids g1 o ++ [a] -> (forall q, q <> o -> kids g2 q = kids g1 q) ->
  (glive g0 o -> X o) ->
  Fw P X s0 g0 (with_tree s1 t2) g2.
Proof.
  intros [K G] Hpf Ko Kq Hx. constructor.
  - intros i o0 Hi Ho. destruct (K i o0 Hi Ho) as (o1 & Ho1 & E1 & V1). destruct (proj2 Hpf _ _ Ho1) as (o2 & Ho2 & E2).
    destruct (pay_eq_pnv _ _ E2) as (E2' & V2). exists o2. split; [exact Ho2|]. split; [eapply pnw_trans; [exact E1|apply pnv_pnw; exact E2']|].
    intros Hn. rewrite V2. apply V1. exact Hn.
  - intros y Hy HE. destruct (G y Hy HE) as ((e & A) & B). destruct (N.eq_dec y o) as [->|Hne].
    + split; [exists (e ++ [a]); rewrite Ko, A, app_assoc; reflexivity|]. intros HX. exfalso. apply HX. apply Hx. exact Hy.
    + rewrite (Kq y Hne). split; [exists e; exact A|exact B].
Qed.

(** the stack entries that were pushed are ScopeBlocks *)
Definition SSBx (s s' : pstate) : Prop := forall y, In y (p_scopeStack s') -> In y (p_scopeStack s) \/ is_sb s' y.

Lemma is_sb_pf s (t' : T) y : is_sb s y -> pframe (p_tree s) t' -> is_sb (with_tree s t') y.
Proof. intros (o & Ho & E) Hpf. destruct (proj2 Hpf _ _ Ho) as (o' & Ho' & E1 & _). exists o'. split; [exact Ho'|congruence]. Qed.

Lemma SSBx_same s s' : p_scopeStack s' = p_scopeStack s -> SSBx s s'.
Proof. intros E y Hy. left. rewrite <- E. exact Hy. Qed.

(** ---- the kinds of argument objects the shape facts are about ---- *)
Definition rowis (op : N) (o : Obj) : Prop := opcodeTableIndex op true = Some (o_infoIndex o).

Definition akind (ty : N) (s : pstate) (g : ghost) (a : N) : Prop :=
  exists o, tget (p_tree s) a = Some o /\
    (ty = aml_pArgTypeNameString -> kids g a = [] /\ o_opcode o = aml_pOpIntNamePath /\ rowis aml_pOpIntNamePath o /\
                                    exists tbl sl, o_value o = Some (VBytes tbl sl)) /\
    (ty = aml_pArgTypeByteData -> kids g a = [] /\ o_opcode o = aml_pOpBytePrefix /\ rowis aml_pOpBytePrefix o /\ exists v, o_value o = Some (VNum v)) /\
    (ty = aml_pArgTypeTermList -> kids g a = [] /\ o_opcode o = aml_pOpIntScopeBlock).

(** an argument object that is live, not written and not appended to keeps its kind *)
Lemma akind_keep ty (P X : N -> Prop) s g s' g' a :
  Fw P X s g s' g' -> glive g a -> ~ P a -> ~ X a -> akind ty s g a -> akind ty s' g' a.
Proof.
  intros [K G] Hl HP HX (o & Ho & A & B & C). destruct (K a o Hl Ho) as (o' & Ho' & (E1 & E2 & E3 & E4) & V).
  specialize (V HP). exists o'. split; [exact Ho'|].
  assert (Ek : kids g' a = kids g a) by (destruct (G a Hl (fun F => F)) as (_ & Hex); apply Hex; auto).
  unfold rowis in *. rewrite E1, E2, V, Ek. auto.
Qed.

Ltac pnw_tac := let o := fresh "o" in intros o; unfold pnw; cbn; tauto.

(** ---- the specifications ---- *)
Definition T_name (fuel : nat) : Prop := forall s g top rest,
  FI s g -> p_scopeStack s = top :: rest -> room s ->
  spec True (parseNamePathOrMethodCall fuel) s g (fun res s' g' =>
    Phi s' <= Phi s + 2 /\ (res = ROk -> Phi s' <= Phi s /\ r_offset (p_r s) < r_offset (p_r s')) /\
    Fw NoP (eq top) s g s' g' /\ p_scopeStack s' = p_scopeStack s /\ p_handle s' = p_handle s).

Lemma tstep_name fuel : T_name (S fuel).
Proof.
  intros s g top rest H Est Hroom. unfold spec. cbn [parseNamePathOrMethodCall].
  pose proof (fi_rok _ _ H) as Hrok. pose proof (room_lp _ Hroom) as Hlp.
  assert (Htop : glive g top) by (pose proof (fi_scopes _ _ H) as F; rewrite Est in F; inversion F; auto).
  assert (F0 : Fw NoP (eq top) s g s g) by apply Fw_refl.
  apply wp_bind, wp_get. apply wp_bind, wp_get.
  apply wp_bind. apply wp_namestring; auto. intros v ok r1 Hadv Hok.
  assert (H1 : FI (with_r s r1) g) by (apply FI_adv; auto).
  assert (A1 : at_ s (with_r s r1) 0 0) by (apply at_adv0; [apply at_refl; auto|exact Hadv]).
  assert (F1 : Fw NoP (eq top) s g (with_r s r1) g) by (eapply Fw_tree_eq; [exact F0|reflexivity]).
  destruct ok; cbn [negb].
  2:{ apply wp_ret. exists g. destruct (fin_at s g _ g 0 0 H1 A1 (gext_refl g)) as (G1 & G2 & G3).
      split; auto. split; auto. split; [lia|]. split; [discriminate|]. split; [exact F1|]. split; reflexivity. }
  specialize (Hok eq_refl).
  assert (A1' : at_ s (with_r s r1) 1 0).
  { eapply at_r; [apply at_refl; auto|destruct Hadv as ((_ & E & _) & _); exact E|lia|destruct Hadv as (_ & _ & L); exact L]. }
  apply wp_bind, wp_get. rewrite (fi_skip _ _ H1). cbn [negb].
  apply wp_bind. eapply new_step2; [exact H1|apply (newokb_sound aml_pOpIntNamePathOrMethodCall eq_refl)| |].
  { unfold lp in *. pcbn. lia. }
  intros p t2 g2 po H2 Hext2 Hfresh2 Hlive2 Hroot2 Hkids2 Hpo _ _ _ Hl2 Hfw2 Hks2 _.
  set (s2 := with_tree (with_r s r1) t2) in *.
  assert (A2 : at_ s s2 1 1) by (eapply at_new'; [exact A1'|exact Hl2|reflexivity]).
  assert (F2 : Fw NoP (eq top) s g s2 g2) by (apply (Fw_new NoP (eq top) s g (with_r s r1) g t2 g2 p F1 (fun x Hx => Hx) Hfresh2 Hfw2 Hks2)).
  wwrf H2 Hlive2. intros o3 Hg3 Hlo3 H3.
  match type of H3 with FI ?st _ => assert (F3 : Fw NoP (eq top) s g st g2) by (apply Fw_tset; [exact F2|pnw_tac|intros h; contradiction]) end.
  wwrf H3 Hlive2. intros o4 Hg4 Hlo4 H4.
  match type of H4 with FI ?st _ => set (s4 := st) in * end.
  assert (F4 : Fw NoP (eq top) s g s4 g2) by (apply Fw_tset; [exact F3|pnw_tac|intros h; contradiction]).
  assert (A4 : at_ s s4 1 1) by (apply at_tset; apply at_tset; exact A2).
  assert (Est4 : p_scopeStack s4 = top :: rest) by exact Est.
  apply wp_bind. eapply wp_scopeCurrent; [exact Est4|].
  rewrite (FI_ObjectAt _ _ _ H4 (ge_live _ _ Hext2 _ Htop)).
  apply wp_bind. eapply (append_step _ top p s4 g2 g);
    [exact H4|apply (R_gwf _ _ (fi_R _ _ H))|exact Hext2|exact Htop|exact Hfresh2|exact Hlive2|exact Hroot2|].
  intros t5 H5 Hext5 Hpf5 Hk5 Hk5'.
  assert (F5 : Fw NoP (eq top) s g (with_tree s4 t5) (astep g2 (OpAppend top p))).
  { apply (Fw_append NoP (eq top) s g s4 g2 t5 _ top p F4 Hpf5 Hk5 Hk5'). intros _. reflexivity. }
  apply wp_ret. exists (astep g2 (OpAppend top p)).
  destruct (fin_at s g _ _ 1 1 H5 (at_pframe _ _ _ _ _ A4 Hpf5) Hext5) as (G1 & G2 & G3).
  split; auto. split; auto. split; [lia|]. split; [intros _; split; [lia|exact Hok]|]. split; [exact F5|]. split; reflexivity.
Qed.

Lemma bytesValue_bytes tbl sl : exists tbl' sl', bytesValue tbl sl = VBytes tbl' sl'.
Proof. unfold bytesValue. destruct (s_ptr sl); eauto. Qed.

Lemma parseSimpleArg_obj argTy s p r s' : parseSimpleArg argTy s = Ok ((Some p, r), s') ->
  exists po, tget (p_tree s') p = Some po /\ o_first po = InvalidIndex /\ o_tableHandle po = p_handle s /\
    (argTy = aml_pArgTypeByteData -> o_opcode po = aml_pOpBytePrefix /\ exists v, o_value po = Some (VNum v)) /\
    (argTy = aml_pArgTypeNameString -> o_opcode po = aml_pOpIntNamePath /\ exists tbl sl, o_value po = Some (VBytes tbl sl)).
Proof.
  unfold parseSimpleArg. intros H.
  apply bindM_ok in H. destruct H as (q & s1 & E1 & H).
  unfold newObj in E1. destruct (newObject (p_tree s) 0 (p_handle s)) as [[t1 p1]| |] eqn:En; try discriminate.
  inversion E1; subst p1 s1. clear E1. destruct (newObject_init _ _ _ _ _ En) as (o & info & Hq).
  apply bindM_ok in H. destruct H as (off & s2 & E2 & H). inversion E2; subst off s2. clear E2.
  apply bindM_ok in H. destruct H as (u3 & s3 & E3 & H). pose proof (wrf_at _ _ _ _ _ _ E3 Hq) as Hq3.
  apply bindM_ok in H. destruct H as (tbl & s4 & E4 & H). inversion E4; subst tbl s4. clear E4. cbv zeta in H.
  fold (simple_num q) in H. fold (simple_str q (N.of_nat (length (p_tables s3)) - 1)) in H.
  assert (Hnum : forall op bytes, simple_num q op bytes s3 = Ok ((Some p, r), s') ->
            p = q /\ exists v idx, tget (p_tree s') q = Some (set_infoIndex idx (set_value (Some (VNum v)) (set_opcode op (set_amlOffset (r_offset (p_r (with_tree s t1))) (init_object 0 info (p_handle s) o)))))).
  { intros op bytes E. destruct (simple_num_res _ _ _ _ _ _ _ E) as (Ea & _). inversion Ea. split; [reflexivity|]. exact (simple_num_obj _ _ _ _ _ _ _ _ E Hq3). }
  assert (Hstr : forall tb op f, simple_str q tb op f s3 = Ok ((Some p, r), s') ->
            p = q /\ exists v idx, tget (p_tree s') q = Some (set_infoIndex idx (set_value (Some (bytesValue tb v)) (set_opcode op (set_amlOffset (r_offset (p_r (with_tree s t1))) (init_object 0 info (p_handle s) o)))))).
  { intros tb op f E. destruct (simple_str_res _ _ _ _ _ _ _ _ E) as (Ea & _). inversion Ea. split; [reflexivity|]. exact (simple_str_obj _ _ _ _ _ _ _ _ _ E Hq3). }
  destruct (N.eqb_spec argTy aml_pArgTypeByteData) as [Eb|Eb].
  { destruct (Hnum aml_pOpBytePrefix 1 H) as (-> & v & idx & Hg). eexists. split; [exact Hg|]. cbn. split; [reflexivity|]. split; [reflexivity|].
    split; [intros _; split; [reflexivity|eauto]|intros E; rewrite Eb in E; discriminate]. }
  destruct (N.eqb_spec argTy aml_pArgTypeWordData) as [Ew|Ew].
  { destruct (Hnum aml_pOpWordPrefix 2 H) as (-> & v & idx & Hg). eexists. split; [exact Hg|]. cbn. split; [reflexivity|]. split; [reflexivity|].
    split; [intros E; contradiction|intros E; rewrite Ew in E; discriminate]. }
  destruct (N.eqb_spec argTy aml_pArgTypeDwordData) as [Ed|Ed].
  { destruct (Hnum aml_pOpDwordPrefix 4 H) as (-> & v & idx & Hg). eexists. split; [exact Hg|]. cbn. split; [reflexivity|]. split; [reflexivity|].
    split; [intros E; contradiction|intros E; rewrite Ed in E; discriminate]. }
  destruct (N.eqb_spec argTy aml_pArgTypeQwordData) as [Eq|Eq].
  { destruct (Hnum aml_pOpQwordPrefix 8 H) as (-> & v & idx & Hg). eexists. split; [exact Hg|]. cbn. split; [reflexivity|]. split; [reflexivity|].
    split; [intros E; contradiction|intros E; rewrite Eq in E; discriminate]. }
  destruct (N.eqb_spec argTy aml_pArgTypeString) as [Es|Es].
  { destruct (Hstr _ aml_pOpStringPrefix parseString H) as (-> & v & idx & Hg). eexists. split; [exact Hg|]. cbn. split; [reflexivity|]. split; [reflexivity|].
    split; [intros E; contradiction|intros E; rewrite Es in E; discriminate]. }
  destruct (N.eqb_spec argTy aml_pArgTypeNameString) as [Ens|Ens].
  { destruct (Hstr _ aml_pOpIntNamePath parseNameString H) as (-> & v & idx & Hg). eexists. split; [exact Hg|]. cbn. split; [reflexivity|]. split; [reflexivity|].
    split; [intros E; contradiction|intros _; split; [reflexivity|]].
    destruct (bytesValue_bytes (N.of_nat (length (p_tables s3)) - 1) v) as (tb' & sl' & Ebv). rewrite Ebv. eauto. }
  inversion H.
Qed.

(** ---- the argument objects a row promises ---- *)
Fixpoint otys_go (af : N) (i : N) (n : nat) : list N :=
  match n with
  | O => []
  | S n' => (if argType af i =? aml_pArgTypePkgLen then [] else [argType af i]) ++ otys_go af (i + 1) n'
  end.
Definition otys (af i : N) : list N := otys_go af i (N.to_nat (argCount af - i)).

Lemma otys_done af i : argCount af <= i -> otys af i = [].
Proof. intros H. unfold otys. replace (argCount af - i) with 0 by lia. reflexivity. Qed.

Lemma otys_step af i : i < argCount af ->
  otys af i = (if argType af i =? aml_pArgTypePkgLen then [] else [argType af i]) ++ otys af (i + 1).
Proof.
  intros H. unfold otys. replace (N.to_nat (argCount af - i)) with (S (N.to_nat (argCount af - (i + 1)))) by lia. reflexivity.
Qed.

Definition simple_ty (ty : N) : Prop :=
  ty = aml_pArgTypePkgLen \/ ty = aml_pArgTypeNameString \/ ty = aml_pArgTypeByteData \/ ty = aml_pArgTypeTermList.
Definition simple_from (af i : N) : Prop := forall k, i <= k -> k < argCount af -> simple_ty (argType af k).

Definition XO (g : ghost) (c : N) : N -> Prop := fun y => y = c \/ In c (kids g y).
Definition lastchild (g : ghost) (c : N) : Prop := exists par l1, kids g par = l1 ++ [c].

Definition shape (af i : N) (c : N) (s' : pstate) (g g' : ghost) : Prop :=
  exists objs, kids g' c = kids g c ++ objs /\ Forall2 (fun ty a => akind ty s' g' a) (otys af i) objs /\
    Forall (fun a => ~ glive g a) objs.

Definition okr (res : pres) : Prop := res = ROk \/ res = RShort.

Definition T_target (fuel : nat) : Prop := forall s g,
  FI s g -> room s ->
  spec True (parseTarget fuel) s g (fun '(a, res) s' g' =>
    Phi s' <= Phi s + 2 /\ (res = ROk -> Phi s' <= Phi s /\ r_offset (p_r s) < r_offset (p_r s')) /\
    fresh_root g g' a /\ res <> RShort /\
    Fw NoP NoP s g s' g' /\ SSBx s s' /\ p_handle s' = p_handle s).

Definition T_objargs (fuel : nat) : Prop := forall curObj s g,
  FI s g -> glive g curObj -> room s ->
  (forall co op fl af, tget (p_tree s) curObj = Some co -> opInfo (o_infoIndex co) = Some (op, fl, af) ->
                       has_fl af -> lastchild g curObj) ->
  (forall co, tget (p_tree s) curObj = Some co -> ext_idx (o_infoIndex co)) ->
  spec True (parseObjectArgs fuel curObj) s g (fun res s' g' =>
    Phi s' <= Phi s + 2 /\ (res = ROk -> Phi s' <= Phi s + 1) /\ res <> RShort /\
    Fw (eq curObj) (XO g curObj) s g s' g' /\ SSBx s s' /\ p_handle s' = p_handle s /\
    (res = ROk -> forall co op fl af, tget (p_tree s) curObj = Some co -> opInfo (o_infoIndex co) = Some (op, fl, af) ->
       (o_opcode co = aml_pOpMethod \/ o_opcode co = aml_pOpScope) ->
       simple_from af 0 -> hasFlag fl aml_pOpFlagDeferParsing = false -> shape af 0 curObj s' g g')).

Definition T_args (fuel : nat) : Prop := forall ii op fl af curObj argIndex s g,
  FI s g -> glive g curObj -> room s -> opInfo ii = Some (op, fl, af) -> argIndex <= 8 ->
  (has_fl af -> lastchild g curObj) ->
  (argIndex < 8 -> argType af argIndex = aml_pArgTypeFieldList -> LastNum s curObj) ->
  shielded af argIndex ->
  spec True (parseArgs fuel (op, fl, af) curObj argIndex) s g (fun res s' g' =>
    Phi s' <= Phi s + 2 /\ (res = ROk -> Phi s' <= Phi s) /\ (res = RShort -> Phi s' <= Phi s + 1) /\
    Fw (eq curObj) (XO g curObj) s g s' g' /\ SSBx s s' /\ p_handle s' = p_handle s /\
    (okr res -> simple_from af argIndex -> hasFlag fl aml_pOpFlagDeferParsing = false -> shape af argIndex curObj s' g g')).

Definition T_arg (fuel : nat) : Prop := forall op fl af curObj argTy s g,
  FI s g -> glive g curObj -> room s -> argTy <> aml_pArgTypeByteList ->
  (argTy = aml_pArgTypeFieldList -> lastchild g curObj /\ LastNum s curObj) ->
  spec True (parseArg fuel (op, fl, af) curObj argTy) s g (fun '(a, res) s' g' =>
    Phi s' <= Phi s + 2 /\ (res = ROk -> Phi s' <= Phi s /\ r_offset (p_r s) < r_offset (p_r s')) /\
    (res = RShort -> Phi s' <= Phi s + 1) /\
    fresh_root g g' a /\
    (res_short argTy -> res = RShort) /\
    (argTy = aml_pArgTypeByteData ->
       exists obj po v, a = Some obj /\ tget (p_tree s') obj = Some po /\ o_value po = Some (VNum v)) /\
    Fw (eq curObj) (fun y => argTy = aml_pArgTypeFieldList /\ XO g curObj y) s g s' g' /\ SSBx s s' /\ p_handle s' = p_handle s /\
    (forall obj, a = Some obj -> okr res -> akind argTy s' g' obj) /\
    (argTy = aml_pArgTypePkgLen -> a = None) /\
    (argTy = aml_pArgTypeTermList -> okr res -> a <> None) /\
    ((argTy = aml_pArgTypeNameString \/ argTy = aml_pArgTypeByteData) -> res = ROk -> a <> None) /\
    (argTy = aml_pArgTypePkgLen -> res = RShort -> hasFlag fl aml_pOpFlagDeferParsing = true) /\
    (argTy = aml_pArgTypeFieldList -> res <> ROk) /\
    ((argTy = aml_pArgTypeNameString \/ argTy = aml_pArgTypeByteData) -> res <> RShort)).


Lemma wp_run2 {A} P (m : M A) s (Q : A -> pstate -> Prop) :
  wp P m s (fun a s' => m s = Ok (a, s') -> Q a s') -> wp P m s Q.
Proof. unfold wp. destruct (m s) as [[a s']| |]; auto. Qed.

Lemma kids_nil_of_first s g p po : FI s g -> glive g p -> tget (p_tree s) p = Some po -> o_first po = InvalidIndex -> kids g p = [].
Proof.
  intros H Hl Hp Hf. pose proof (fi_R _ _ H) as HR. destruct (FI_live_get _ _ _ H Hl) as (o & Ho & Hlo). assert (o = po) by congruence. subst o.
  destruct (R_kids _ _ HR _ _ Hp Hlo) as (Hfirst & _). destruct (kids g p) as [|c l] eqn:Ek; [reflexivity|exfalso].
  cbn [hd] in Hfirst. assert (Hin : In c (kids g p)) by (rewrite Ek; left; reflexivity).
  destruct ((R_gwf _ _ HR) _ _ Hin) as (_ & Hlc). destruct (FI_live_get _ _ _ H Hlc) as (co & Hco & _).
  apply (R_pos_not_Inv _ _ HR _ _ Hco). congruence.
Qed.

Ltac ty_ne := let E := fresh in intros E; first [discriminate E | (rewrite E in *; discriminate) | (subst; discriminate)].

Lemma tstep_arg fuel : T_target fuel -> T_arg (S fuel).
Proof.
  intros IHt op fl af curObj argTy s g H Hl Hroom Hnbl Hfl. unfold spec. cbn [parseArg].
  pose proof (fi_rok _ _ H) as Hrok. pose proof (room_lp _ Hroom) as Hlp.
  assert (F0 : Fw (eq curObj) (fun y => argTy = aml_pArgTypeFieldList /\ XO g curObj y) s g s g) by apply Fw_refl.
  destruct ((argTy =? aml_pArgTypeByteData) || (argTy =? aml_pArgTypeWordData) || (argTy =? aml_pArgTypeDwordData) ||
            (argTy =? aml_pArgTypeQwordData) || (argTy =? aml_pArgTypeString) || (argTy =? aml_pArgTypeNameString)) eqn:Esimple.
  { apply wp_run2. eapply wp_weaken; [apply (parseSimpleArg_spec2 True argTy s g H)|auto|]. { lia. }
    intros [a res] s' (g' & F1 & F2 & F3 & F4 & F5 & F6 & F7 & F8) Erun. exists g'. split; auto. split; auto.
    pose proof (at_Ext_FI s g s' g' 0 1 F2 F1 F3) as PA. pose proof (ex_off _ _ _ _ F2) as Eoff.
    assert (Hh : p_handle s' = p_handle s) by (apply (parseSimpleArg_hsame argTy s _ s' Erun)).
    split; [lia|]. split. { intros Hr. specialize (F5 Hr). pose proof (at_Ext_FI s g s' g' 1 1 F2 F1 F3). split; [lia|exact F5]. }
    split; [intros; lia|].
    split. { destruct a as [obj|]; [destruct F6 as (A & B & C & D); cbn; auto|exact I]. }
    split. { kill_ty. }
    split.
    { intros E. destruct a as [obj|].
      - destruct F6 as (_ & _ & _ & D & _). destruct (D E) as (po & v & idx & Hpo & Hv & _). exists obj, po, v. auto.
      - destruct F6 as (_ & D). contradiction. }
    split. { apply Fw_of_Fr. eapply Fr_weaken; [| | |exact F7]; [intros i _ []|intros y _ []|auto]. }
    split; [apply SSBx_same; exact F4|]. split; [exact Hh|].
    split.
    { intros obj Ea _. subst a. destruct F6 as (A & B & C & D1 & D2).
      destruct (parseSimpleArg_obj argTy s obj res s' Erun) as (po & Hpo & Hfirst & Hhd & K1 & K2).
      assert (Hkn : kids g' obj = []) by (eapply kids_nil_of_first; eauto).
      exists po. split; [exact Hpo|].
      split.
      { intros E. destruct (K2 E) as (Eop & Ev). split; [exact Hkn|]. split; [exact Eop|]. split; [|exact Ev].
        destruct (D2 E) as (po' & idx & Hpo' & Hidx & Hii). assert (po' = po) by congruence. subst po'. unfold rowis. rewrite Hidx, Hii. reflexivity. }
      split.
      { intros E. destruct (K1 E) as (Eop & Ev). split; [exact Hkn|]. split; [exact Eop|]. split; [|exact Ev].
        destruct (D1 E) as (po' & v & idx & Hpo' & _ & Hidx & Hii). assert (po' = po) by congruence. subst po'. unfold rowis. rewrite Hidx, Hii. reflexivity. }
      intros E. exfalso. subst argTy. vm_compute in Esimple. discriminate. }
    split. { intros E. exfalso. subst argTy. vm_compute in Esimple. discriminate. }
    split. { intros E. exfalso. subst argTy. vm_compute in Esimple. discriminate. }
    split.
    { intros _ Hr Ea. subst a. destruct F6 as (Hrf & _). rewrite Hrf in Hr. discriminate. }
    split. { intros E. exfalso. subst argTy. vm_compute in Esimple. discriminate. }
    split. { intros E. exfalso. subst argTy. vm_compute in Esimple. discriminate. }
    intros _. exact F8. }
  apply N.eqb_neq in Hnbl. rewrite Hnbl.
  (* the tail of the postcondition for the results without an object *)
  assert (Fin0 : forall (res : pres) s' g', argTy <> aml_pArgTypeByteData -> argTy <> aml_pArgTypeNameString ->
            (argTy = aml_pArgTypeTermList -> ~ okr res) ->
            (argTy = aml_pArgTypePkgLen -> res = RShort -> hasFlag fl aml_pOpFlagDeferParsing = true) ->
            (argTy = aml_pArgTypeFieldList -> res <> ROk) ->
            Fw (eq curObj) (fun y => argTy = aml_pArgTypeFieldList /\ XO g curObj y) s g s' g' -> SSBx s s' -> p_handle s' = p_handle s ->
            (argTy = aml_pArgTypeByteData -> exists obj po v, (None : option N) = Some obj /\ tget (p_tree s') obj = Some po /\ o_value po = Some (VNum v)) /\
            Fw (eq curObj) (fun y => argTy = aml_pArgTypeFieldList /\ XO g curObj y) s g s' g' /\ SSBx s s' /\ p_handle s' = p_handle s /\
            (forall obj, (None : option N) = Some obj -> okr res -> akind argTy s' g' obj) /\
            (argTy = aml_pArgTypePkgLen -> (None : option N) = None) /\
            (argTy = aml_pArgTypeTermList -> okr res -> (None : option N) <> None) /\
            ((argTy = aml_pArgTypeNameString \/ argTy = aml_pArgTypeByteData) -> res = ROk -> (None : option N) <> None) /\
            (argTy = aml_pArgTypePkgLen -> res = RShort -> hasFlag fl aml_pOpFlagDeferParsing = true) /\
            (argTy = aml_pArgTypeFieldList -> res <> ROk) /\
            ((argTy = aml_pArgTypeNameString \/ argTy = aml_pArgTypeByteData) -> res <> RShort)).
  { intros res s' g' N1 N2 N3 N4 N5 Ffw Hss Hh. split; [intros E; contradiction|]. split; [exact Ffw|]. split; [exact Hss|]. split; [exact Hh|].
    split; [intros obj E; discriminate|]. split; [reflexivity|]. split; [intros E Hr; exfalso; apply (N3 E Hr)|].
    split; [intros [E|E]; contradiction|]. split; [exact N4|]. split; [exact N5|intros [E|E]; contradiction]. }
  destruct (argTy =? aml_pArgTypePkgLen) eqn:Epl.
  { apply N.eqb_eq in Epl.
    assert (Nb : argTy <> aml_pArgTypeByteData) by ty_ne. assert (Nn : argTy <> aml_pArgTypeNameString) by ty_ne.
    assert (Nt : argTy = aml_pArgTypeTermList -> forall r : pres, ~ okr r) by (intros E; exfalso; rewrite Epl in E; discriminate).
    apply wp_bind, wp_get.
    apply wp_bind. apply wp_pkglen; auto. intros pkgLen ok r1 Hadv Hok Hnok.
    assert (H1 : FI (with_r s r1) g) by (apply FI_adv; auto).
    assert (A1 : at_ s (with_r s r1) 0 0) by (apply at_adv0; [apply at_refl; auto|exact Hadv]).
    assert (F1 : Fw (eq curObj) (fun y => argTy = aml_pArgTypeFieldList /\ XO g curObj y) s g (with_r s r1) g) by (eapply Fw_tree_eq; [exact F0|reflexivity]).
    destruct ok; cbn [negb].
    2:{ apply wp_ret. exists g. destruct (fin_at s g _ g 0 0 H1 A1 (gext_refl g)) as (G1 & G2 & G3).
        split; auto. split; auto. split; [lia|]. split; [discriminate|]. split; [discriminate|]. split; [exact I|].
        split; [kill_ty|]. apply (Fin0 RFailed (with_r s r1) g Nb Nn (fun E => Nt E _)); [intros _ E; discriminate|intros _; discriminate|exact F1|apply SSBx_same; reflexivity|reflexivity]. }
    destruct (Hok eq_refl) as (Hlt1 & Hpl).
    apply wp_bind, wp_get. rewrite (fi_skip _ _ H1). cbn [negb andb].
    destruct (hasFlag fl aml_pOpFlagDeferParsing) eqn:Edf.
    - wwrf H1 Hl. intros o2 Hg2 Hlo2 H2.
      apply wp_bind. apply wp_ru.
      match type of H2 with FI ?st _ => set (s2 := st) in * end.
      assert (F2 : Fw (eq curObj) (fun y => argTy = aml_pArgTypeFieldList /\ XO g curObj y) s g s2 g).
      { apply Fw_tset; [exact F1|pnw_tac|intros _; right; intros o; reflexivity]. }
      assert (A2 : at_ s s2 0 0) by (apply at_tset; exact A1).
      set (o3 := w32 (r_offset (p_r s) + pkgLen)).
      destruct (rok_setOffset (p_r s2) o3 (fi_rok _ _ H2)) as (Hrok3 & Hlen3).
      assert (H3 : FI (with_r s2 (setOffset (p_r s2) o3)) g) by (apply FI_with_r; auto).
      assert (A3 : at_ s (with_r s2 (setOffset (p_r s2) o3)) 0 0).
      { eapply at_r; [exact A2|exact Hlen3| |destruct Hrok3 as (_ & _ & O); exact O].
        assert (Eo : o3 = r_offset (p_r s) + pkgLen).
        { unfold o3, w32. apply N.mod_small. destruct Hrok as (_ & Sm & O). unfold small_table, two32 in *. lia. }
        unfold setOffset. cbn [r_offset set_offset_raw].
        assert (El : r_len (p_r s2) = r_len (p_r s)) by (destruct A2 as (L & _); exact L).
        destruct Hrok as (_ & _ & O). rewrite El. destruct (r_len (p_r s) <? o3) eqn:Ec; lia. }
      apply wp_ret. exists g. destruct (fin_at s g _ g 0 0 H3 A3 (gext_refl g)) as (G1 & G2 & G3).
      split; auto. split; auto. split; [lia|]. split; [discriminate|]. split; [intros _; lia|]. split; [exact I|].
      split; [kill_ty|]. apply (Fin0 RShort _ g Nb Nn (fun E => Nt E _)); [intros _ _; reflexivity|intros _; discriminate|eapply Fw_tree_eq; [exact F2|reflexivity]|apply SSBx_same; reflexivity|reflexivity].
    - apply wp_bind. apply wp_pushPkgEnd.
      set (e := w32 (r_offset (p_r s) + pkgLen)).
      set (s2 := with_r (with_pkgEndStack (with_r s r1) (e :: p_pkgEndStack (with_r s r1))) (fst (setPkgEnd (p_r (with_r s r1)) e))).
      assert (H2 : FI s2 g).
      { apply FI_with_r; [apply FI_with_pkgEnd; exact H1|]. apply rok_setPkgEnd. apply (fi_rok _ _ H1). }
      destruct (setPkgEnd_off (p_r (with_r s r1)) e) as (Eo & El).
      destruct A1 as (B1 & B2 & B3 & B4 & B5 & B6).
      assert (E2 : Ext s g s2 g).
      { constructor; [apply gext_refl| | |exists []| |]; unfold s2; pcbn; pcbn_in Eo; pcbn_in El; pcbn_in B1; pcbn_in B2.
        - rewrite El. exact B1.
        - rewrite Eo. lia.
        - reflexivity.
        - cbn [length]. lia.
        - cbn [length]. rewrite Eo. lia. }
      assert (P2 : Phi s2 + 4 <= Phi s).
      { unfold Phi, lp, rem, s2. pcbn. pcbn_in Eo. pcbn_in El. pcbn_in B1. pcbn_in B3. rewrite Eo, El. unfold lp in B4. pcbn_in B4. lia. }
      apply wp_ret. exists g. split; auto. split; auto. split; [lia|].
      split. { intros _. split; [lia|]. unfold s2. pcbn. pcbn_in Eo. rewrite Eo. exact Hlt1. }
      split; [intros _; lia|]. split; [exact I|]. split; [kill_ty|].
      apply (Fin0 _ s2 g Nb Nn (fun E => Nt E _)); [intros _ E; destruct (snd (setPkgEnd (p_r (with_r s r1)) e)); discriminate
                        |intros E; rewrite Epl in E; discriminate|eapply Fw_tree_eq; [exact F1|reflexivity]|apply SSBx_same; reflexivity|reflexivity]. }
  destruct (argTy =? aml_pArgTypeFieldList) eqn:Efl.
  { apply N.eqb_eq in Efl. destruct (Hfl Efl) as ((par & l1 & Hpar) & (co & lo & v & HLN)).
    assert (Hpar' : kids g par = l1 ++ curObj :: []) by exact Hpar.
    assert (Nb : argTy <> aml_pArgTypeByteData) by ty_ne. assert (Nn : argTy <> aml_pArgTypeNameString) by ty_ne.
    apply wp_bind. apply wp_run2. eapply wp_weaken; [apply (parseFieldElements_spec2 curObj par l1 [] s g H Hpar' Hroom)|intros []|].
    { exists co, lo, v. exact HLN. }
    intros res s' (g' & F1 & F2 & (F3 & F4 & F5 & F6 & F7) & Ffr & (new & Hnew & _)) Erun. apply wp_ret. exists g'. split; auto. split; auto.
    split; [exact F3|]. split; [intros Hr; contradiction|]. split; [intros Hr; specialize (F4 Hr); lia|]. split; [exact I|].
    split; [kill_ty|].
    assert (Hin : In curObj (kids g par)) by (rewrite Hpar; apply in_or_app; right; left; reflexivity).
    apply (Fin0 res s' g' Nb Nn).
    - intros E. exfalso. rewrite Efl in E. discriminate.
    - intros E. exfalso. rewrite Efl in E. discriminate.
    - intros _. exact F5.
    - apply Fw_of_Fr. apply (Fr_unE (eq curObj) (fun y => argTy = aml_pArgTypeFieldList /\ XO g curObj y) (EP par) s g s' g').
      + eapply Fr_weaken; [| | |exact Ffr]; [intros i _ []|intros y _ E; unfold XC in E; split; [exact Efl|left; exact E]|auto].
      + intros y. unfold EP. destruct (N.eq_dec y par); [left|right]; auto.
      + intros y Hy E. unfold EP in E. subst y. split; [split; [exact Efl|right; exact Hin]|].
        exists new. rewrite Hnew, Hpar, app_nil_r, <- app_assoc. reflexivity.
    - apply SSBx_same. exact F6.
    - exact (parseFieldElements_hsame curObj s res s' Erun). }
  destruct ((argTy =? aml_pArgTypeTermArg) || (argTy =? aml_pArgTypeDataRefObj)) eqn:Eta.
  { assert (Nb : argTy <> aml_pArgTypeByteData) by ty_ne. assert (Nn : argTy <> aml_pArgTypeNameString) by ty_ne.
    apply wp_bind, wp_get. rewrite (fi_skip _ _ H). apply wp_ret. exists g. split; auto. split; [apply Ext_refl|].
    split; [lia|]. split; [discriminate|]. split; [intros _; lia|]. split; [exact I|]. split; [reflexivity|].
    apply (Fin0 RShort s g Nb Nn).
    - intros E. exfalso. subst argTy. vm_compute in Eta. discriminate.
    - intros E. exfalso. rewrite E in Epl. discriminate.
    - intros E. exfalso. rewrite E in Efl. discriminate.
    - exact F0.
    - apply SSBx_same. reflexivity.
    - reflexivity. }
  destruct (argTy =? aml_pArgTypeTermList) eqn:Etl.
  { apply N.eqb_eq in Etl.
    apply wp_bind. eapply new_step2; [exact H|apply (newokb_sound aml_pOpIntScopeBlock eq_refl)|lia|].
    intros p t2 g2 po H2 Hext2 Hfresh2 Hlive2 Hroot2 Hkids2 Hpo Hpop _ _ Hl2 Hfw2 Hks2 _.
    set (s2 := with_tree s t2) in *.
    assert (A2 : at_ s s2 0 1) by (eapply at_new'; [apply at_refl; auto|exact Hl2|reflexivity]).
    assert (F2 : Fw (eq curObj) (fun y => argTy = aml_pArgTypeFieldList /\ XO g curObj y) s g s2 g2).
    { apply (Fw_new _ _ s g s g t2 g2 p F0 (fun x Hx => Hx) Hfresh2 Hfw2 Hks2). }
    apply wp_bind, wp_get.
    wwrf H2 Hlive2. intros o3 Hg3 Hlo3 H3.
    match type of H3 with FI ?st _ => set (s3 := st) in * end.
    assert (F3 : Fw (eq curObj) (fun y => argTy = aml_pArgTypeFieldList /\ XO g curObj y) s g s3 g2).
    { apply Fw_tset; [exact F2|pnw_tac|intros h; contradiction]. }
    assert (A3 : at_ s s3 0 1) by (apply at_tset; exact A2).
    destruct (FI_live_get _ _ _ H3 Hlive2) as (o4 & Hg4 & Hlo4).
    apply wp_bind. apply wp_rdf. exists o4. split; [exact Hg4|].
    rewrite (R_index _ _ (fi_R _ _ H3) _ _ Hg4).
    apply wp_bind. apply wp_scopeEnter.
    set (s5 := with_scopeStack s3 (p :: p_scopeStack s3)).
    assert (H5 : FI s5 g2).
    { apply FI_with_scope; [exact H3|]. constructor; [exact Hlive2|apply (fi_scopes _ _ H3)]. }
    apply wp_bind, wp_get. rewrite (fi_skip _ _ H5). cbn [negb].
    destruct (at_Phi _ _ _ _ A3) as (P3 & _).
    destruct A3 as (B1 & B2 & B3 & B4 & B5 & B6).
    assert (Eop4 : o_opcode o4 = aml_pOpIntScopeBlock).
    { unfold s3, s2 in Hg4. pcbn_in Hg4. rewrite get_tset, N.eqb_refl in Hg4. assert (Hg3' : tget t2 p = Some o3) by exact Hg3.
      rewrite Hg3' in Hg4. cbn [option_map] in Hg4. inversion Hg4; subst o4. cbn. assert (o3 = po) by congruence. subst. exact Hpop. }
    apply wp_ret. exists g2. split; [exact H5|]. split.
    { constructor; [exact Hext2|exact B1|unfold s5; pcbn; lia|exists [p]; unfold s5; pcbn; rewrite B5; reflexivity
                   |unfold s5; pcbn; rewrite B6; lia|unfold s5; pcbn; rewrite B6; lia]. }
    assert (EP5 : Phi s5 = Phi s3) by reflexivity.
    split; [lia|]. split; [discriminate|]. split; [intros _; lia|].
    split; [cbn [fresh_root]; auto|]. split; [reflexivity|]. split; [intros E; exfalso; rewrite Etl in E; discriminate|].
    split; [eapply Fw_tree_eq; [exact F3|reflexivity]|].
    split.
    { intros y Hy. unfold s5 in Hy. cbn [p_scopeStack with_scopeStack] in Hy. destruct Hy as [<-|Hy].
      - right. exists o4. split; [exact Hg4|exact Eop4].
      - left. rewrite <- B5. exact Hy. }
    split; [reflexivity|].
    split.
    { intros obj Ea _. inversion Ea; subst obj. exists o4. split; [exact Hg4|].
      split; [intros E; exfalso; rewrite Etl in E; discriminate|]. split; [intros E; exfalso; rewrite Etl in E; discriminate|intros _; split; [exact Hkids2|exact Eop4]]. }
    split; [intros E; exfalso; rewrite Etl in E; discriminate|]. split; [intros _ _; discriminate|].
    split; [intros [E|E]; exfalso; rewrite Etl in E; discriminate|]. split; [intros E; exfalso; rewrite Etl in E; discriminate|].
    split; [intros E; exfalso; rewrite Etl in E; discriminate|intros [E|E]; exfalso; rewrite Etl in E; discriminate]. }
  (* a target *)
  apply wp_run2. eapply wp_weaken; [apply (IHt s g H Hroom)|auto|].
  intros [a res] s' (g' & F1 & F2 & F3 & F4 & F5 & F6 & F7 & F8 & F9) Erun. exists g'. split; auto. split; auto.
  split; [exact F3|]. split; [exact F4|]. split; [intros Hr; contradiction|]. split; [exact F5|].
  split; [kill_ty|]. split; [kill_ty|].
  split; [eapply Fw_weaken; [| |exact F7]; [intros i _ []|intros y _ []]|].
  split; [exact F8|]. split; [exact F9|].
  split.
  { intros obj Ea _. subst a. destruct F5 as (_ & Hlo & _). destruct (FI_live_get _ _ _ F1 Hlo) as (oo & Hoo & _).
    exists oo. split; [exact Hoo|]. split; [kill_ty|]. split; [kill_ty|intros E; rewrite E in Etl; discriminate]. }
  split; [intros E; rewrite E in Epl; discriminate|]. split; [intros E; rewrite E in Etl; discriminate|].
  split; [kill_ty|]. split; [intros E; rewrite E in Epl; discriminate|]. split; [intros E; rewrite E in Efl; discriminate|kill_ty].
Qed.

Lemma akind_pframe ty s g (t2 : T) g2 a : akind ty s g a -> pframe (p_tree s) t2 -> kids g2 a = kids g a -> akind ty (with_tree s t2) g2 a.
Proof.
  intros (o & Ho & A & B & C) Hpf Ek. destruct (proj2 Hpf _ _ Ho) as (o2 & Ho2 & (E1 & E2 & _ & _ & _ & _ & _ & E8)).
  exists o2. split; [exact Ho2|]. unfold rowis in *. rewrite E1, E2, E8, Ek. auto.
Qed.

Lemma shape_nil af i c s g : argCount af <= i -> shape af i c s g g.
Proof. intros H. exists []. rewrite app_nil_r, (otys_done _ _ H). split; [reflexivity|split; constructor]. Qed.

Lemma tstep_args fuel : T_arg fuel -> T_args fuel -> T_args (S fuel).
Proof.
  intros IHarg IHargs ii op fl af curObj argIndex s g H Hl Hroom Hrow Hi9 Hfl HLI Hsh. unfold spec. cbn [parseArgs].
  pose proof (argCount_le8 af) as Hcnt.
  assert (Hdone : argCount af <= argIndex ->
    exists g', FI s g' /\ Ext s g s g' /\ Phi s <= Phi s + 2 /\ (ROk = ROk -> Phi s <= Phi s) /\ (ROk = RShort -> Phi s <= Phi s + 1) /\
      Fw (eq curObj) (XO g curObj) s g s g' /\ SSBx s s /\ p_handle s = p_handle s /\
      (okr ROk -> simple_from af argIndex -> hasFlag fl aml_pOpFlagDeferParsing = false -> shape af argIndex curObj s g g')).
  { intros Hc. exists g. split; auto. split; [apply Ext_refl|]. split; [lia|]. split; [intros; lia|]. split; [intros; lia|].
    split; [apply Fw_refl|]. split; [apply SSBx_same; reflexivity|]. split; [reflexivity|]. intros _ _ _. apply shape_nil. exact Hc. }
  destruct (N.eqb_spec (argCount af) 0) as [Ez|Ez].
  { apply wp_ret. apply Hdone. lia. }
  destruct (argCount af <=? argIndex) eqn:Ele.
  { apply wp_ret. apply Hdone. apply N.leb_le. exact Ele. }
  clear Hdone. apply N.leb_gt in Ele. assert (Hi8 : argIndex < 8) by lia.
  set (argTy := argType af argIndex) in *.
  assert (Hnbl : argTy <> aml_pArgTypeByteList).
  { intros E. destruct (Hsh argIndex (N.le_refl _) Hi8 E) as (j' & Hj1 & Hj2 & _). lia. }
  apply wp_bind. eapply wp_weaken; [apply (IHarg op fl af curObj argTy s g H Hl Hroom Hnbl)|auto|].
  { intros E. split; [apply Hfl; exists argIndex; split; auto|apply HLI; auto]. }
  intros [a res] s1 (g1 & H1 & E1 & P1 & P2 & P3 & Hfr & Hta & Hbd & Ffw & Hss & Hh & Hak & Hpn & Htl & Hnb & Hpd & Hflr & Hnsr).
  pose proof (R_gwf _ _ (fi_R _ _ H)) as Hwf.
  pose proof (ex_g _ _ _ _ E1) as G1.
  assert (Ffw1 : Fw (eq curObj) (XO g curObj) s g s1 g1).
  { eapply Fw_weaken; [| |exact Ffw]; [auto|intros y _ (_ & F); exact F]. }
  assert (Hk1x : argTy <> aml_pArgTypeFieldList -> forall y, glive g y -> kids g1 y = kids g y).
  { intros Hne y Hy. destruct (fw_kids _ _ _ _ _ _ Ffw y Hy (fun F => F)) as (_ & Hex). apply Hex. intros (F & _). contradiction. }
  (* the state after the optional append *)
  set (alist := match a with Some x => [x] | None => [] end).
  assert (Happ : forall (Q : unit -> pstate -> Prop),
    (forall s2 g2, FI s2 g2 -> Ext s g s2 g2 -> Phi s2 = Phi s1 -> rem s2 = rem s1 ->
       (argTy = aml_pArgTypeByteData -> LastNum s2 curObj) ->
       Fw (eq curObj) (XO g curObj) s g s2 g2 -> SSBx s s2 -> p_handle s2 = p_handle s ->
       kids g2 curObj = kids g1 curObj ++ alist -> (forall q, q <> curObj -> kids g2 q = kids g1 q) ->
       (forall obj, a = Some obj -> okr res -> akind argTy s2 g2 obj /\ glive g2 obj /\ ~ glive g obj) ->
       (forall x, glive g1 x -> glive g2 x) -> Q tt s2) ->
    wp True (match a with Some a0 => appendM (Some curObj) a0 | None => ret tt end) s1 Q).
  { intros Q K. unfold alist. destruct a as [obj|].
    - destruct Hfr as (Hfresh & Hlive & Hroot).
      eapply (append_step _ curObj obj s1 g1 g); [exact H1|exact Hwf|exact G1|exact Hl|exact Hfresh|exact Hlive|exact Hroot|].
      intros t2 H2 G2 Hpf Hk Hk'.
      assert (Hoc : obj <> curObj) by (intros ->; contradiction).
      apply K with (g2 := astep g1 (OpAppend curObj obj)); auto.
      + destruct E1 as [_ L O (e & St) Pk Pd]. constructor; auto. exists e. exact St.
      + unfold Phi, lp, rem. pcbn. destruct Hpf as (L & _). rewrite L. reflexivity.
      + intros Ebd. destruct (Hbd Ebd) as (obj' & po & v & Ea & Hpo & Hv). inversion Ea; subst obj'.
        assert (Hl2 : glive (astep g1 (OpAppend curObj obj)) curObj) by (apply glive_set_kids; apply (ge_live _ _ G1); exact Hl).
        destruct (FI_live_get _ _ _ H2 Hl2) as (co2 & Hco2 & Hlco2).
        destruct (R_kids _ _ (fi_R _ _ H2) _ _ Hco2 Hlco2) as (_ & Hlast & _).
        rewrite Hk, last_app_one in Hlast.
        destruct (pframe_get _ _ _ _ Hpf Hpo) as (po' & Hpo' & Eop & _ & Eval).
        assert (Hlo2 : glive (astep g1 (OpAppend curObj obj)) obj) by (apply glive_set_kids; exact Hlive).
        destruct (FI_live_get _ _ _ H2 Hlo2) as (po2 & Hpo2 & Hlpo2).
        pcbn_in Hpo2. assert (po2 = po') by congruence. subst po2.
        exists co2, po', v. split; [exact Hco2|]. rewrite Hlast. split; [exact Hpo'|]. split; [exact Hlpo2|]. congruence.
      + apply (Fw_append _ _ s g s1 g1 t2 _ curObj obj Ffw1 Hpf Hk Hk'). intros _. left. reflexivity.
      + intros y Hy. destruct (Hss y Hy) as [A|A]; [left; exact A|right; apply is_sb_pf; auto].
      + intros obj' Ea Hr. inversion Ea; subst obj'. split; [|split; [apply glive_set_kids; exact Hlive|exact Hfresh]].
        apply (akind_pframe argTy s1 g1 t2 _ obj (Hak obj eq_refl Hr) Hpf). apply Hk'. exact Hoc.
      + intros x Hx. apply glive_set_kids. exact Hx.
    - apply wp_ret. apply K with (g2 := g1); auto.
      + intros Ebd. destruct (Hbd Ebd) as (obj' & _ & _ & Ea & _). discriminate.
      + rewrite app_nil_r. reflexivity.
      + intros obj Ea. discriminate. }
  apply wp_bind. apply Happ. intros s2 g2 H2 E2 EPhi Erem HLN Ffw2 Hss2 Hh2 Hkc2 Hko2 Hak2 Hlv2.
  assert (Hkc1 : argTy <> aml_pArgTypeFieldList -> kids g1 curObj = kids g curObj) by (intros Hne; apply (Hk1x Hne); exact Hl).
  destruct (pres_eqb res ROk) eqn:Eres.
  - assert (res = ROk) by (destruct res; try discriminate; reflexivity). subst res. destruct (P2 eq_refl) as (P2a & P2b).
    assert (Hnfl : argTy <> aml_pArgTypeFieldList) by (intros E; apply (Hflr E); reflexivity).
    assert (Ew : w8 (argIndex + 1) = argIndex + 1) by (unfold w8, two8; apply N.mod_small; lia). rewrite Ew.
    pose proof (ex_g _ _ _ _ E2) as G2.
    assert (Hl2 : glive g2 curObj) by (apply (ge_live _ _ G2); exact Hl).
    eapply wp_weaken; [apply (IHargs ii op fl af curObj (argIndex + 1) s2 g2 H2 Hl2)|auto|].
    + unfold room in *. lia.
    + exact Hrow.
    + lia.
    + intros Hf. destruct (Hfl Hf) as (par & l1 & Hpar). exists par, l1.
      assert (Hpc : par <> curObj).
      { intros ->. eapply (R_child_neq_parent _ _ (fi_R _ _ H)); [rewrite Hpar; apply in_or_app; right; left; reflexivity|reflexivity]. }
      assert (Hlpar : glive g par) by (apply (Hwf par curObj); rewrite Hpar; apply in_or_app; right; left; reflexivity).
      rewrite (Hko2 par Hpc), (Hk1x Hnfl par Hlpar). exact Hpar.
    + intros Hi9' Hfl1. apply HLN.
      destruct (fieldlist_after_bytedata _ _ _ _ _ Hrow Hi9' Hfl1) as (_ & Hb). replace (argIndex + 1 - 1) with argIndex in Hb by lia. exact Hb.
    + intros j Hj1 Hj8 Hbl. destruct (Hsh j) as (j' & Hj'1 & Hj'2 & Hty); [lia|exact Hj8|exact Hbl|].
      exists j'. split; [|split; auto]. destruct (N.eq_dec j' argIndex) as [->|Hne]; [|lia].
      exfalso. fold argTy in Hty. assert (Hs : res_short argTy) by (destruct Hty; [left|right; left]; assumption).
      specialize (Hta Hs). discriminate.
    + intros res s' (g' & F1 & F2 & F3 & F4 & F5 & F6 & F7 & F8 & F9). exists g'. split; auto.
      split; [eapply Ext_trans; eauto|]. split; [lia|]. split; [intros Hr; specialize (F4 Hr); lia|].
      split; [intros Hr; specialize (F5 Hr); lia|].
      split.
      { eapply Fw_trans; [exact Ffw2|exact F6|apply (ge_live _ _ G2)|auto|].
        intros y Hy [->|Hin]; [left; reflexivity|].
        destruct (N.eq_dec y curObj) as [->|Hyc]; [left; reflexivity|right].
        rewrite (Hko2 y Hyc), (Hk1x Hnfl y Hy) in Hin. exact Hin. }
      split.
      { intros y Hy. destruct (F7 y Hy) as [A|A]; [|right; exact A]. destruct (Hss2 y A) as [B|B]; [left; exact B|right].
        destruct B as (o & Ho & Eo). pose proof (ex_g _ _ _ _ F2) as G3.
        assert (Hly : glive g2 y) by (pose proof (fi_scopes _ _ H2) as Fs; rewrite Forall_forall in Fs; apply Fs; exact A).
        destruct (fw_keep _ _ _ _ _ _ F6 y o Hly Ho) as (o' & Ho' & (E1' & _) & _). exists o'. split; [exact Ho'|congruence]. }
      split; [congruence|].
      intros Hr Hsim Hdf. destruct (F9 Hr) as (objs' & Hk' & Hf2 & Hn2).
      { intros k Hk1 Hk2. apply Hsim; lia. }
      { exact Hdf. }
      assert (Hsty : simple_ty argTy) by (apply Hsim; lia).
      unfold shape. rewrite (otys_step af argIndex Ele). fold argTy.
      exists (alist ++ objs'). split; [rewrite Hk', Hkc2, (Hkc1 Hnfl), app_assoc; reflexivity|].
      split.
      2:{ apply Forall_app. split.
          - unfold alist. destruct a as [obj|]; [|constructor]. constructor; [|constructor].
            destruct (Hak2 obj eq_refl (or_introl eq_refl)) as (_ & _ & K3). exact K3.
          - eapply Forall_impl; [|exact Hn2]. intros a0 Hn0 Hl0. apply Hn0. apply (ge_live _ _ G2). exact Hl0. }
      apply Forall2_app; [|exact Hf2].
      destruct (N.eqb_spec argTy aml_pArgTypePkgLen) as [Epl|Epl].
      * unfold alist. rewrite (Hpn Epl). constructor.
      * destruct Hsty as [E|[E|[E|E]]]; [contradiction| | |exfalso; assert (Hs : res_short argTy) by (right; right; exact E); specialize (Hta Hs); discriminate].
        -- destruct a as [obj|]; [|exfalso; apply (Hnb (or_introl E) eq_refl); reflexivity].
           unfold alist. constructor; [|constructor]. destruct (Hak2 obj eq_refl (or_introl eq_refl)) as (K1 & K2 & K3).
           apply (akind_keep argTy (eq curObj) (XO g2 curObj) s2 g2 s' g' obj F6 K2); [intros E0; apply K3; rewrite <- E0; exact Hl| |exact K1].
           intros [E0|Hin]; [apply K3; rewrite E0; exact Hl|]. destruct K1 as (o & _ & A & _). destruct (A E) as (Kn & _). rewrite Kn in Hin. exact Hin.
        -- destruct a as [obj|]; [|exfalso; apply (Hnb (or_intror E) eq_refl); reflexivity].
           unfold alist. constructor; [|constructor]. destruct (Hak2 obj eq_refl (or_introl eq_refl)) as (K1 & K2 & K3).
           apply (akind_keep argTy (eq curObj) (XO g2 curObj) s2 g2 s' g' obj F6 K2); [intros E0; apply K3; rewrite <- E0; exact Hl| |exact K1].
           intros [E0|Hin]; [apply K3; rewrite E0; exact Hl|]. destruct K1 as (o & _ & _ & B & _). destruct (B E) as (Kn & _). rewrite Kn in Hin. exact Hin.
  - apply wp_ret. exists g2. split; auto. split; auto. split; [lia|].
    split; [intros Hr; subst res; discriminate|]. split; [intros Hr; specialize (P3 Hr); lia|].
    split; [exact Ffw2|]. split; [exact Hss2|]. split; [exact Hh2|].
    intros [Hr|Hr] Hsim Hdf; [subst res; discriminate|]. subst res.
    assert (Hsty : simple_ty argTy) by (apply Hsim; lia).
    assert (Hnfl : argTy <> aml_pArgTypeFieldList) by (destruct Hsty as [E|[E|[E|E]]]; rewrite E; discriminate).
    unfold shape. rewrite (otys_step af argIndex Ele). fold argTy.
    destruct Hsty as [E|[E|[E|E]]].
    + exfalso. rewrite (Hpd E eq_refl) in Hdf. discriminate.
    + exfalso. apply (Hnsr (or_introl E)). reflexivity.
    + exfalso. apply (Hnsr (or_intror E)). reflexivity.
    + assert (Hlast : argCount af <= argIndex + 1).
      { apply (unpaid_last ii op fl af argIndex Hrow Hi8). fold argTy. rewrite E. reflexivity. }
      rewrite (otys_done af (argIndex + 1) Hlast), app_nil_r.
      destruct a as [obj|]; [|exfalso; apply (Htl E (or_intror eq_refl)); reflexivity].
      exists [obj]. split; [rewrite Hkc2, (Hkc1 Hnfl); reflexivity|].
      destruct (Hak2 obj eq_refl (or_intror eq_refl)) as (K1 & _ & K3).
      split; [|constructor; [exact K3|constructor]].
      rewrite E. change (aml_pArgTypeTermList =? aml_pArgTypePkgLen) with false. cbv iota.
      constructor; [|constructor]. rewrite <- E. exact K1.
Qed.

Lemma objargs_num2 (P : Prop) curObj k s g :
  FI s g -> glive g curObj ->
  wp P (mlet '(v, ok) <~ lex (parseNumConstant k) ;; wrf curObj (set_value (Some (VNum v))) ;;; ret (pres_of_bool ok)) s
     (fun _ s' => FI s' g /\ at_ s s' 0 0 /\ Fw (eq curObj) (XO g curObj) s g s' g /\ p_scopeStack s' = p_scopeStack s /\ p_handle s' = p_handle s).
Proof.
  intros H Hl. apply wp_bind. apply wp_num; [apply (fi_rok _ _ H)|]. intros v ok r1 Hadv _.
  assert (H1 : FI (with_r s r1) g) by (apply FI_adv; auto).
  assert (F1 : Fw (eq curObj) (XO g curObj) s g (with_r s r1) g) by (eapply Fw_tree_eq; [apply Fw_refl|reflexivity]).
  wwrf H1 Hl. intros o2 Hg2 Hlo2 H2. apply wp_ret. split; [exact H2|].
  split; [apply at_tset; apply at_adv0; [apply at_refl, (fi_rok _ _ H)|exact Hadv]|].
  split; [apply Fw_tset; [exact F1|pnw_tac|intros _; left; reflexivity]|]. split; reflexivity.
Qed.

Lemma tstep_objargs fuel : T_args fuel -> T_objargs (S fuel).
Proof.
  intros IHa curObj s g H Hl Hroom Hfl Hex. unfold spec. cbn [parseObjectArgs].
  destruct (FI_live_get _ _ _ H Hl) as (co & Hco & Hlco).
  apply wp_bind. apply wp_rdf. exists co. split; [exact Hco|].
  apply wp_bind, wp_get.
  assert (Fin : forall (res : pres) s', FI s' g /\ at_ s s' 0 0 /\ Fw (eq curObj) (XO g curObj) s g s' g /\ p_scopeStack s' = p_scopeStack s /\ p_handle s' = p_handle s ->
     (o_opcode co <> aml_pOpMethod /\ o_opcode co <> aml_pOpScope) ->
     wp True (ret match res with RShort => ROk | r => r end) s'
       (fun res s'0 => exists g', FI s'0 g' /\ Ext s g s'0 g' /\ Phi s'0 <= Phi s + 2 /\ (res = ROk -> Phi s'0 <= Phi s + 1) /\ res <> RShort /\
          Fw (eq curObj) (XO g curObj) s g s'0 g' /\ SSBx s s'0 /\ p_handle s'0 = p_handle s /\
          (res = ROk -> forall co op fl af, tget (p_tree s) curObj = Some co -> opInfo (o_infoIndex co) = Some (op, fl, af) ->
             (o_opcode co = aml_pOpMethod \/ o_opcode co = aml_pOpScope) ->
             simple_from af 0 -> hasFlag fl aml_pOpFlagDeferParsing = false -> shape af 0 curObj s'0 g g'))).
  { intros res s' (F1 & F2 & F3 & F4 & F5) (N1 & N2). apply wp_ret. exists g. destruct (fin_at s g _ g 0 0 F1 F2 (gext_refl g)) as (G1 & G2 & G3).
    split; auto. split; auto. split; [lia|]. split; [intros _; lia|]. split; [destruct res; discriminate|]. split; [exact F3|].
    split; [apply SSBx_same; exact F4|]. split; [exact F5|].
    intros _ co' op fl af Hco' _ [E|E]; exfalso; assert (co' = co) by congruence; subst; contradiction. }
  apply wp_bind.
  destruct (N.eqb_spec (o_opcode co) aml_pOpBytePrefix) as [E1|E1].
  { eapply wp_weaken; [apply (objargs_num2 False curObj 1 s g H Hl)|intros []|]. intros res s' HQ. apply Fin; [exact HQ|rewrite E1; split; discriminate]. }
  destruct (N.eqb_spec (o_opcode co) aml_pOpWordPrefix) as [E2|E2].
  { eapply wp_weaken; [apply (objargs_num2 False curObj 2 s g H Hl)|intros []|]. intros res s' HQ. apply Fin; [exact HQ|rewrite E2; split; discriminate]. }
  destruct (N.eqb_spec (o_opcode co) aml_pOpDwordPrefix) as [E3|E3].
  { eapply wp_weaken; [apply (objargs_num2 False curObj 4 s g H Hl)|intros []|]. intros res s' HQ. apply Fin; [exact HQ|rewrite E3; split; discriminate]. }
  destruct (N.eqb_spec (o_opcode co) aml_pOpQwordPrefix) as [E4|E4].
  { eapply wp_weaken; [apply (objargs_num2 False curObj 8 s g H Hl)|intros []|]. intros res s' HQ. apply Fin; [exact HQ|rewrite E4; split; discriminate]. }
  destruct (N.eqb_spec (o_opcode co) aml_pOpStringPrefix) as [E5|E5].
  { apply wp_bind. apply wp_string; [apply (fi_rok _ _ H)|]. intros v ok r1 Hadv _.
    assert (H1 : FI (with_r s r1) g) by (apply FI_adv; auto).
    assert (F1 : Fw (eq curObj) (XO g curObj) s g (with_r s r1) g) by (eapply Fw_tree_eq; [apply Fw_refl|reflexivity]).
    wwrf H1 Hl. intros o2 Hg2 Hlo2 H2. apply wp_ret. apply Fin; [|rewrite E5; split; discriminate]. split; [exact H2|].
    split; [apply at_tset; apply at_adv0; [apply at_refl, (fi_rok _ _ H)|exact Hadv]|].
    split; [apply Fw_tset; [exact F1|pnw_tac|intros _; left; reflexivity]|]. split; reflexivity. }
  apply wp_bind. apply wp_rdf. exists co. split; [exact Hco|].
  pose proof (fi_info _ _ H _ _ Hco Hlco) as Hinfo.
  destruct (opInfo (o_infoIndex co)) as [[[op fl] af]|] eqn:Erow; [|contradiction].
  apply wp_bind. eapply wp_info; [exact Erow|].
  eapply wp_weaken; [apply (IHa (o_infoIndex co) op fl af curObj 0 s g H Hl Hroom Erow)|auto|].
  - lia.
  - intros Hf. eapply Hfl; eauto.
  - intros _ Hfl0. exfalso. destruct (fieldlist_after_bytedata _ _ _ _ 0 Erow) as (Hc & _); [lia|exact Hfl0|lia].
  - intros j _ Hj Hbl. destruct (bytelist_shielded _ _ _ _ j Erow Hj Hbl) as (j' & Hj' & Hty). exists j'. split; [lia|]. split; auto.
  - intros res s' (g' & F1 & F2 & F3 & F4 & F5 & F6 & F7 & F8 & F9). apply wp_ret. exists g'. split; auto. split; auto. split; [exact F3|].
    split; [|split; [destruct res; discriminate|]].
    + destruct res; try discriminate.
      * intros _. specialize (F4 eq_refl). lia.
      * intros _. apply F5. reflexivity.
    + split; [exact F6|]. split; [exact F7|]. split; [exact F8|].
      intros Hr co' op' fl' af' Hco' Hrow' _ Hsim Hdf. assert (co' = co) by congruence. subst co'. rewrite Erow in Hrow'. inversion Hrow'; subst op' fl' af'.
      apply F9; auto. destruct res; try discriminate; [left|right]; reflexivity.
Qed.

Lemma tstep_target fuel : T_objargs fuel -> T_target (S fuel).
Proof.
  intros IHo s g H Hroom. unfold spec. cbn [parseTarget].
  pose proof (fi_rok _ _ H) as Hrok. pose proof (room_lp _ Hroom) as Hlp.
  assert (F0 : Fw NoP NoP s g s g) by apply Fw_refl.
  apply wp_bind, wp_get.
  apply wp_bind. apply wp_nextop; auto. intros nextOp ok r1 Hadv Hok Hnok.
  assert (H1 : FI (with_r s r1) g) by (apply FI_adv; auto).
  assert (F1 : Fw NoP NoP s g (with_r s r1) g) by (eapply Fw_tree_eq; [exact F0|reflexivity]).
  destruct ok.
  - destruct (Hok eq_refl) as (Hlt & Hop & idx & Hidx & Hbad). clear Hok Hnok.
    assert (A1 : at_ s (with_r s r1) 1 0).
    { eapply at_r; [apply at_refl; auto|destruct Hadv as ((_ & E & _) & _); exact E|lia|destruct Hadv as (_ & _ & L); exact L]. }
    destruct (nextOp =? aml_pOpZero).
    { apply wp_ret. exists g. destruct (fin_at s g _ g 1 0 H1 A1 (gext_refl g)) as (G1 & G2 & G3).
      split; auto. split; auto. split; [lia|]. split; [intros _; split; [lia|exact Hlt]|]. split; [exact I|].
      split; [discriminate|]. split; [exact F1|]. split; [apply SSBx_same; reflexivity|reflexivity]. }
    change (isArg nextOp || (nextOp =? aml_pOpRefOf) || (nextOp =? aml_pOpDerefOf) || (nextOp =? aml_pOpIndex) || (nextOp =? aml_pOpDebug))
      with (target_cond nextOp).
    destruct (target_cond nextOp) eqn:Etc.
    2:{ apply wp_ret. exists g. destruct (fin_at s g _ g 1 0 H1 A1 (gext_refl g)) as (G1 & G2 & G3).
        split; auto. split; auto. split; [lia|]. split; [discriminate|]. split; [exact I|].
        split; [discriminate|]. split; [exact F1|]. split; [apply SSBx_same; reflexivity|reflexivity]. }
    destruct (valid_op _ _ Hop Hidx Hbad) as (Hnk & Hidx').
    apply wp_bind. eapply new_step2; [exact H1|exact Hnk| |].
    { unfold lp in *. pcbn. lia. }
    intros p t2 g2 po H2 Hext2 Hfresh2 Hlive2 Hroot2 Hkids2 Hpo Hpop Hpval Hpidx Hl2 Hfw2 Hks2 _.
    set (s2 := with_tree (with_r s r1) t2) in *.
    assert (A2 : at_ s s2 1 1) by (eapply at_new'; [exact A1|exact Hl2|reflexivity]).
    assert (F2 : Fw NoP NoP s g s2 g2) by (apply (Fw_new NoP NoP s g (with_r s r1) g t2 g2 p F1 (fun x Hx => Hx) Hfresh2 Hfw2 Hks2)).
    wwrf H2 Hlive2. intros o3 Hg3 Hlo3 H3.
    match type of H3 with FI ?st _ => set (s3 := st) in * end.
    assert (F3 : Fw NoP NoP s g s3 g2) by (apply Fw_tset; [exact F2|pnw_tac|intros h; contradiction]).
    assert (A3 : at_ s s3 1 1) by (apply at_tset; exact A2).
    destruct (at_Phi _ _ _ _ A3) as (P3 & R3).
    assert (Hco3 : forall co, tget (p_tree s3) p = Some co -> o_infoIndex co = idx).
    { intros co Hco. unfold s3, s2 in Hco. pcbn_in Hco. rewrite get_tset, N.eqb_refl in Hco.
      assert (Hg3' : tget t2 p = Some o3) by exact Hg3. rewrite Hg3' in Hco. cbn [option_map] in Hco.
      inversion Hco; subst co. cbn [o_infoIndex set_amlOffset]. assert (o3 = po) by congruence. subst o3.
      rewrite Hidx' in Hpidx. inversion Hpidx. reflexivity. }
    apply wp_bind. eapply wp_weaken; [apply (IHo p s3 g2 H3 Hlive2)|auto|].
    + unfold room in *. lia.
    + intros co op' fl af Hco Hinfo (k & Hk & Hfl). exfalso.
      rewrite (Hco3 co Hco) in Hinfo. eapply (target_no_fieldlist nextOp idx op' fl af k); eauto.
    + intros co Hco. rewrite (Hco3 co Hco). exists nextOp. auto.
    + intros res s' (g' & G1 & G2 & G3 & G4 & G5 & G6 & G7 & G8 & _).
      apply wp_ret. exists g'. split; auto. split; [eapply Ext_trans; [eapply at_Ext; [exact A3|exact Hext2]|exact G2]|].
      split; [lia|]. split.
      { intros Hr; specialize (G4 Hr). split; [lia|]. pose proof (ex_off _ _ _ _ G2) as Ho. destruct A3 as (_ & Ao & _). lia. }
      split.
      { cbn [fresh_root]. split; [exact Hfresh2|]. split; [apply (ge_live _ _ (ex_g _ _ _ _ G2)); exact Hlive2|].
        eapply groot_ext; [apply (ex_g _ _ _ _ G2)|exact Hlive2|exact Hroot2]. }
      split; [exact G5|].
      split.
      { eapply Fw_trans; [exact F3|exact G6|apply (ge_live _ _ Hext2)| |].
        - intros i Hi E. subst i. contradiction.
        - intros y Hy [E|Hin]; [subst y; contradiction|exfalso; apply (Hroot2 y Hin)]. }
      split; [|exact G8].
      intros y Hy. destruct (G7 y Hy) as [A|A]; [left; exact A|right; exact A].
  - destruct (Hnok eq_refl) as (Ho1 & _). clear Hok Hnok.
    apply wp_bind. apply wp_ru.
    destruct (rok_setOffset r1 (r_offset (p_r s)) (fi_rok _ _ H1)) as (Hrok2 & Hlen2).
    set (r2 := setOffset (p_r (with_r s r1)) (r_offset (p_r s))) in *.
    assert (Eo2 : r_offset r2 = r_offset (p_r s)).
    { unfold r2. apply setOffset_noclamp. pcbn. destruct Hadv as ((_ & E & _) & _). rewrite E. destruct Hrok as (_ & _ & O). exact O. }
    assert (H2 : FI (with_r (with_r s r1) r2) g) by (apply FI_with_r; auto).
    assert (A2 : at_ s (with_r (with_r s r1) r2) 0 0).
    { eapply at_r; [apply at_adv0; [apply at_refl; auto|exact Hadv]|exact Hlen2|lia|destruct Hrok2 as (_ & _ & O); exact O]. }
    assert (F2 : Fw NoP NoP s g (with_r (with_r s r1) r2) g) by (eapply Fw_tree_eq; [exact F0|reflexivity]).
    apply wp_bind. eapply new_step2; [exact H2|apply (newokb_sound aml_pOpIntNamePath eq_refl)| |].
    { unfold lp in *. pcbn. lia. }
    intros p t3 g3 po H3 Hext3 Hfresh3 Hlive3 Hroot3 Hkids3 Hpo _ _ _ Hl3 Hfw3 Hks3 _.
    set (s3 := with_tree (with_r (with_r s r1) r2) t3) in *.
    assert (A3 : at_ s s3 0 1) by (eapply at_new'; [exact A2|exact Hl3|reflexivity]).
    assert (F3 : Fw NoP NoP s g s3 g3) by (apply (Fw_new NoP NoP s g _ g t3 g3 p F2 (fun x Hx => Hx) Hfresh3 Hfw3 Hks3)).
    wwrf H3 Hlive3. intros o4 Hg4 Hlo4 H4.
    match type of H4 with FI ?st _ => set (s4 := st) in * end.
    assert (F4 : Fw NoP NoP s g s4 g3) by (apply Fw_tset; [exact F3|pnw_tac|intros h; contradiction]).
    assert (A4 : at_ s s4 0 1) by (apply at_tset; exact A3).
    apply wp_bind, wp_get.
    apply wp_bind. apply wp_namestring; [apply (fi_rok _ _ H4)|]. intros v ok2 r5 Hadv5 Hok5.
    assert (H5 : FI (with_r s4 r5) g3) by (apply FI_adv; auto).
    assert (F5 : Fw NoP NoP s g (with_r s4 r5) g3) by (eapply Fw_tree_eq; [exact F4|reflexivity]).
    wwrf H5 Hlive3. intros o6 Hg6 Hlo6 H6.
    match type of H6 with FI ?st _ => set (s6 := st) in * end.
    assert (F6 : Fw NoP NoP s g s6 g3) by (apply Fw_tset; [exact F5|pnw_tac|intros h; contradiction]).
    apply wp_ret. exists g3.
    destruct ok2.
    + specialize (Hok5 eq_refl).
      assert (A6 : at_ s s6 1 1).
      { apply at_tset. replace 1 with (0 + 1) at 1 by reflexivity. apply at_adv; [exact A4|exact Hadv5|lia]. }
      destruct (fin_at s g _ g3 1 1 H6 A6 Hext3) as (G1 & G2 & G3).
      split; auto. split; auto. split; [lia|]. split; [intros _; split; [lia|]|].
      { destruct A6 as (_ & Ao & _). lia. }
      cbn [fresh_root]. split; [auto|]. split; [discriminate|]. split; [exact F6|]. split; [apply SSBx_same; reflexivity|reflexivity].
    + assert (A6 : at_ s s6 0 1) by (apply at_tset; apply at_adv0; [exact A4|exact Hadv5]).
      destruct (fin_at s g _ g3 0 1 H6 A6 Hext3) as (G1 & G2 & G3).
      split; auto. split; auto. split; [lia|]. split; [discriminate|]. cbn [fresh_root]. split; [auto|].
      split; [discriminate|]. split; [exact F6|]. split; [apply SSBx_same; reflexivity|reflexivity].
Qed.

Definition tblock2 (fuel : nat) : Prop := T_target fuel /\ T_arg fuel /\ T_args fuel /\ T_objargs fuel.

Lemma tblock2_all : forall fuel, tblock2 fuel.
Proof.
  induction fuel as [|fuel (Ht & Ha & Hs & Ho)].
  - unfold tblock2. repeat split; intro; intros; unfold spec; cbn; apply wp_outOfFuel; exact I.
  - assert (Ha' : T_arg (S fuel)) by (apply tstep_arg; exact Ht).
    assert (Hs' : T_args (S fuel)) by (apply tstep_args; assumption).
    assert (Ho' : T_objargs (S fuel)) by (apply tstep_objargs; exact Hs).
    assert (Ht' : T_target (S fuel)) by (apply tstep_target; exact Ho).
    unfold tblock2. auto.
Qed.

Lemma newObject_name (t t' : T) opc th p : newObject t opc th = Ok (t', p) -> tget t p = None ->
  exists po, tget t' p = Some po /\ o_name po = name_zero.
Proof.
  unfold newObject. intros H Hn. destruct (t_free t =? InvalidIndex) eqn:Ef; cbn [bind] in H.
  - apply bind_ok in H. destruct H as (info & _ & H). apply bind_ok in H. destruct H as (t2 & Hw & H). inversion H; subst t2 p. clear H.
    destruct (wr_inv _ _ _ _ Hw) as (-> & o & Ho). rewrite get_tset, N.eqb_refl, Ho. cbn [option_map]. eexists. split; [reflexivity|].
    unfold TreeSpec.get in Ho. cbn [t_pool] in Ho. rewrite Nnat.Nat2N.id, nth_error_app2 in Ho by lia. rewrite Nat.sub_diag in Ho. cbn in Ho.
    inversion Ho; subst o. reflexivity.
  - apply bind_ok in H. destruct H as ([t1 p1] & Htp & H). apply bind_ok in Htp. destruct Htp as (o & Ho & Htp). inversion Htp; subst t1 p1. clear Htp.
    apply bind_ok in H. destruct H as (info & _ & H). apply bind_ok in H. destruct H as (t2 & Hw & H). inversion H; subst t2 p. clear H.
    rewrite deref_get in Ho. rewrite Hn in Ho. discriminate.
Qed.

Lemma newObject_name_old (t t' : T) opc th p o0 : newObject t opc th = Ok (t', p) -> tget t p = Some o0 ->
  exists po, tget t' p = Some po /\ o_name po = name_zero.
Proof.
  unfold newObject. intros H Hn. destruct (t_free t =? InvalidIndex) eqn:Ef; cbn [bind] in H.
  - apply bind_ok in H. destruct H as (info & _ & H). apply bind_ok in H. destruct H as (t2 & Hw & H). inversion H; subst t2 p. clear H.
    exfalso. pose proof (get_lt _ _ _ Hn) as Hlt. lia.
  - apply bind_ok in H. destruct H as ([t1 p1] & Htp & H). apply bind_ok in Htp. destruct Htp as (o & Ho & Htp). inversion Htp; subst t1 p1. clear Htp.
    apply bind_ok in H. destruct H as (info & _ & H). apply bind_ok in H. destruct H as (t2 & Hw & H). inversion H; subst t2 p. clear H.
    rewrite deref_get in Ho. rewrite Hn in Ho. inversion Ho; subst o.
    destruct (wr_inv _ _ _ _ Hw) as (-> & o1 & Ho1). rewrite get_tset, N.eqb_refl, Ho1. cbn [option_map]. eexists. split; [reflexivity|].
    reflexivity.
Qed.

Lemma new_step3 P opc s g (Q : N -> pstate -> Prop) :
  FI s g -> newok opc -> lp s + 1 < InvalidIndex ->
  (forall p t' g' po,
     FI (with_tree s t') g' -> gext g g' -> ~ glive g p -> glive g' p -> groot g' p -> kids g' p = [] ->
     tget t' p = Some po -> o_opcode po = opc -> o_value po = None ->
     opcodeTableIndex opc true = Some (o_infoIndex po) ->
     (length (t_pool t') <= S (length (t_pool (p_tree s))))%nat ->
     (forall i o, i <> p -> tget (p_tree s) i = Some o -> tget t' i = Some o) ->
     (forall y, kids g' y = kids g y) ->
     (forall x, glive g' x -> glive g x \/ x = p) ->
     (tget (p_tree s) p = None -> o_name po = name_zero) ->
     (forall o0, tget (p_tree s) p = Some o0 -> o_name po = name_zero) ->
     Q p (with_tree s t')) ->
  wp P (newObj opc) s Q.
Proof.
  intros H Hnk Hroom K. apply wp_run2. eapply new_step2; [exact H|exact Hnk|exact Hroom|].
  intros p t' g' po A1 A2 A3 A4 A5 A6 A7 A8 A9 A10 A11 A12 A13 A14 Erun.
  unfold newObj in Erun. destruct (newObject (p_tree s) opc (p_handle s)) as [[t2 p2]| |] eqn:E; try discriminate.
  inversion Erun; subst p2. assert (t2 = t') by (destruct s; cbn in *; congruence). subst t2.
  apply (K p t' g' po); auto.
  - intros Hn. destruct (newObject_name _ _ _ _ _ E Hn) as (po' & Hpo' & Hnm). assert (po' = po) by congruence. subst. exact Hnm.
  - intros o0 Hn. destruct (newObject_name_old _ _ _ _ _ _ E Hn) as (po' & Hpo' & Hnm). assert (po' = po) by congruence. subst. exact Hnm.
Qed.

Lemma glive_append2 g o a x : glive (astep g (OpAppend o a)) x -> glive g x.
Proof. cbn [astep]. unfold glive. rewrite set_kids_len, set_kids_free. tauto. Qed.

(** ---- parseNextObject ---- *)
Definition xdesc (s : pstate) (g : ghost) (s' : pstate) (g' : ghost) (top x : N) : Prop :=
  exists xo, tget (p_tree s') x = Some xo /\ In x (kids g' top) /\ rowis (o_opcode xo) xo /\
    (tget (p_tree s) x = None -> o_name xo = name_zero) /\
    (forall o0, tget (p_tree s) x = Some o0 -> o_name xo = name_zero) /\
    (msop xo -> forall op fl af, opInfo (o_infoIndex xo) = Some (op, fl, af) -> simple_from af 0 ->
       hasFlag fl aml_pOpFlagDeferParsing = false ->
       exists objs, kids g' x = objs /\ Forall2 (fun ty a => akind ty s' g' a) (otys af 0) objs /\ Forall (fun a => ~ glive g a) objs).

Definition newobjs (g : ghost) (s' : pstate) (xs : option N) : Prop :=
  forall i o', tget (p_tree s') i = Some o' -> o_opcode o' <> opFreed -> ~ glive g i -> xs = Some i \/ benign o'.

Definition T_next (fuel : nat) : Prop := forall s g top rest,
  FI s g -> p_scopeStack s = top :: rest -> room s ->
  spec True (parseNextObject fuel) s g (fun res s' g' =>
    Phi s' <= Phi s + 2 /\ (res = ROk -> Phi s' <= Phi s /\ r_offset (p_r s) < r_offset (p_r s')) /\
    Fw NoP (eq top) s g s' g' /\ SSBx s s' /\ p_handle s' = p_handle s /\
    (res = ROk -> exists xs, newobjs g s' xs /\ forall x, xs = Some x -> ~ glive g x /\ xdesc s g s' g' top x)).

Lemma newobjs_none s g s' : FI s g -> p_tree s' = p_tree s -> newobjs g s' None.
Proof.
  intros H E i o' Ho' Hl Hn. exfalso. apply Hn. apply (R_live_glive _ _ (fi_R _ _ H)). rewrite E in Ho'. exists o'. auto.
Qed.

Lemma tstep_next fuel : T_objargs fuel -> T_name fuel -> T_next (S fuel).
Proof.
  intros IHo IHn s g top rest H Est Hroom. unfold spec. cbn [parseNextObject].
  pose proof (fi_rok _ _ H) as Hrok. pose proof (room_lp _ Hroom) as Hlp.
  assert (Htop : glive g top) by (pose proof (fi_scopes _ _ H) as F; rewrite Est in F; inversion F; auto).
  assert (F0 : Fw NoP (eq top) s g s g) by apply Fw_refl.
  apply wp_bind, wp_get.
  apply wp_bind. apply wp_nextop; auto. intros nextOp ok r1 Hadv Hok Hnok.
  assert (H1 : FI (with_r s r1) g) by (apply FI_adv; auto).
  assert (F1 : Fw NoP (eq top) s g (with_r s r1) g) by (eapply Fw_tree_eq; [exact F0|reflexivity]).
  destruct ok.
  - destruct (Hok eq_refl) as (Hlt & Hop & idx & Hidx & Hbad). clear Hok Hnok.
    assert (A1 : at_ s (with_r s r1) 1 0).
    { eapply at_r; [apply at_refl; auto|destruct Hadv as ((_ & E & _) & _); exact E|lia|destruct Hadv as (_ & _ & L); exact L]. }
    destruct (nextOp =? aml_pOpNoop).
    { apply wp_ret. exists g. destruct (fin_at s g _ g 1 0 H1 A1 (gext_refl g)) as (G1 & G2 & G3).
      split; auto. split; auto. split; [lia|]. split; [intros _; split; [lia|exact Hlt]|]. split; [exact F1|].
      split; [apply SSBx_same; reflexivity|]. split; [reflexivity|]. intros _. exists None.
      split; [apply (newobjs_none s g _ H); reflexivity|intros x E; discriminate]. }
    cbn [negb].
    destruct (valid_op _ _ Hop Hidx Hbad) as (Hnk & Hidx').
    apply wp_bind. eapply new_step3; [exact H1|exact Hnk| |].
    { unfold lp in *. pcbn. lia. }
    intros p t2 g2 po H2 Hext2 Hfresh2 Hlive2 Hroot2 Hkids2 Hpo Hpop Hpval Hpidx Hl2 Hfw2 Hks2 Hnew2 Hname2 Hname2o.
    set (s2 := with_tree (with_r s r1) t2) in *.
    assert (A2 : at_ s s2 1 1) by (eapply at_new'; [exact A1|exact Hl2|reflexivity]).
    assert (F2 : Fw NoP (eq top) s g s2 g2) by (apply (Fw_new NoP (eq top) s g (with_r s r1) g t2 g2 p F1 (fun x Hx => Hx) Hfresh2 Hfw2 Hks2)).
    wwrf H2 Hlive2. intros o3 Hg3 Hlo3 H3.
    match type of H3 with FI ?st _ => set (s3 := st) in * end.
    assert (F3 : Fw NoP (eq top) s g s3 g2) by (apply Fw_tset; [exact F2|pnw_tac|intros h; contradiction]).
    assert (A3 : at_ s s3 1 1) by (apply at_tset; exact A2).
    assert (Est3 : p_scopeStack s3 = top :: rest) by exact Est.
    apply wp_bind. eapply wp_scopeCurrent; [exact Est3|].
    rewrite (FI_ObjectAt _ _ _ H3 (ge_live _ _ Hext2 _ Htop)).
    apply wp_bind. eapply (append_step _ top p s3 g2 g);
      [exact H3|apply (R_gwf _ _ (fi_R _ _ H))|exact Hext2|exact Htop|exact Hfresh2|exact Hlive2|exact Hroot2|].
    intros t4 H4 Hext4 Hpf4 Hk4 Hk4'.
    set (g4 := astep g2 (OpAppend top p)) in *.
    set (s4 := with_tree s3 t4) in *.
    assert (F4 : Fw NoP (eq top) s g s4 g4).
    { apply (Fw_append NoP (eq top) s g s3 g2 t4 g4 top p F3 Hpf4 Hk4 Hk4'). intros _. reflexivity. }
    assert (A4 : at_ s s4 1 1) by (apply at_pframe; auto).
    destruct (at_Phi _ _ _ _ A4) as (P4 & R4).
    assert (Hlive4 : glive g4 p) by (apply glive_set_kids; exact Hlive2).
    assert (Hptop : p <> top) by (intros ->; contradiction).
    assert (Ho4 : exists o4, tget (p_tree s4) p = Some o4 /\ o_opcode o4 = nextOp /\ o_infoIndex o4 = idx /\ o_name o4 = o_name po).
    { assert (Hg3' : tget t2 p = Some o3) by exact Hg3.
      assert (E3 : tget (p_tree s3) p = Some (set_amlOffset (r_offset (p_r s)) o3)).
      { unfold s3, s2. pcbn. rewrite get_tset, N.eqb_refl. rewrite Hg3'. reflexivity. }
      destruct (proj2 Hpf4 _ _ E3) as (o4 & Ho4 & (E1 & E2 & _ & E4 & _)). exists o4. split; [exact Ho4|]. cbn [o_opcode o_infoIndex o_name set_amlOffset] in E1, E2, E4.
      assert (o3 = po) by congruence. subst o3. rewrite Hidx' in Hpidx. inversion Hpidx. split; [congruence|]. split; congruence. }
    destruct Ho4 as (o4 & Ho4 & Eop4 & Eii4 & Enm4).
    assert (Hk4p : kids g4 p = []) by (rewrite (Hk4' p Hptop); exact Hkids2).
    apply wp_run2. eapply wp_weaken; [apply (IHo p s4 g4 H4 Hlive4)|auto|].
    + unfold room in *. lia.
    + intros _ _ _ _ _ _ _. exists top, (kids g2 top). exact Hk4.
    + intros co Hco. assert (co = o4) by congruence. subst co. rewrite Eii4. exists nextOp. auto.
    + intros res s' (g' & G1 & G2 & G3 & G4 & G5 & G6 & G7 & G8 & G9) Erun. exists g'. split; auto.
      split; [eapply Ext_trans; [eapply at_Ext; [exact A4|exact Hext4]|exact G2]|].
      split; [lia|]. split.
      { intros Hr. specialize (G4 Hr). split; [lia|].
        pose proof (ex_off _ _ _ _ G2) as Ho. destruct A4 as (_ & Ao & _). lia. }
      assert (Hg4g : forall y, glive g y -> y <> top -> kids g4 y = kids g y).
      { intros y Hy Hne. rewrite (Hk4' y Hne). apply Hks2. }
      split.
      { eapply Fw_trans; [exact F4|exact G6|apply (ge_live _ _ Hext4)| |].
        - intros i Hi E. subst i. contradiction.
        - intros y Hy [E|Hin]; [subst y; contradiction|].
          destruct (N.eq_dec top y) as [E|E]; [exact E|exfalso]. rewrite (Hg4g y Hy (fun F => E (eq_sym F))) in Hin.
          apply Hfresh2. apply ((R_gwf _ _ (fi_R _ _ H)) y p Hin). }
      split; [exact G7|]. split; [exact G8|].
      intros Hr. exists (Some p). split.
      { intros i o' Ho' Hlo' Hni. destruct (N.eq_dec i p) as [->|Hip]; [left; reflexivity|right].
        destruct (parseObjectArgs_bn fuel p s4 res s' Erun (fi_skip _ _ H4)) as (_ & HBN).
        destruct (HBN i o' Ho') as [(o & Ho & (E1 & E2))|Hb]; [exfalso|exact Hb].
        assert (Hlo : o_opcode o <> opFreed) by congruence.
        assert (Hli4 : glive g4 i) by (apply (R_live_glive _ _ (fi_R _ _ H4)); exists o; auto).
        assert (Hli2 : glive g2 i) by (apply (glive_append2 g2 top p i); exact Hli4).
        destruct (Hnew2 i Hli2) as [F|F]; contradiction. }
      intros x Ex. inversion Ex; subst x. split; [exact Hfresh2|].
      destruct (fw_keep _ _ _ _ _ _ G6 p o4 Hlive4 Ho4) as (xo & Hxo & (E1 & E2 & _ & E4) & _).
      exists xo. split; [exact Hxo|]. split.
      { destruct (fw_kids _ _ _ _ _ _ G6 top (ge_live _ _ Hext4 _ Htop) (fun F => F)) as ((e & Ee) & _).
        rewrite Ee, Hk4. apply in_or_app. left. apply in_or_app. right. left. reflexivity. }
      split; [unfold rowis; rewrite E1, E2, Eop4, Eii4; exact Hidx'|].
      split; [intros Hn; rewrite E4, Enm4; apply Hname2; exact Hn|].
      split; [intros o0 Hn; rewrite E4, Enm4; apply (Hname2o o0); exact Hn|].
      intros Hms op fl af Hrow Hsim Hdf.
      destruct (G9 Hr o4 op fl af Ho4) as (objs & Hko & Hf2 & Hn2); auto.
      { rewrite <- E2. exact Hrow. }
      { unfold msop in Hms. rewrite E1 in Hms. exact Hms. }
      exists objs. split; [rewrite Hko, Hk4p; reflexivity|]. split; [exact Hf2|].
      eapply Forall_impl; [|exact Hn2]. intros a0 Hn0 Hl0. apply Hn0. apply (ge_live _ _ Hext4). exact Hl0.
  - destruct (Hnok eq_refl) as (Ho1 & Hop). clear Hok Hnok. subst nextOp.
    change (0xffff =? aml_pOpNoop) with false. cbn [negb].
    assert (A1 : at_ s (with_r s r1) 0 0) by (apply at_adv0; [apply at_refl; auto|exact Hadv]).
    destruct (at_Phi _ _ _ _ A1) as (P1 & R1).
    apply wp_run2. eapply wp_weaken; [apply (IHn (with_r s r1) g top rest H1)|auto|].
    + exact Est.
    + unfold room in *. lia.
    + intros res s' (g' & G1 & G2 & G3 & G4 & G5 & G6 & G7) Erun. exists g'. split; auto.
      split; [eapply Ext_trans; [eapply at_Ext; [exact A1|apply gext_refl]|exact G2]|].
      split; [lia|]. split.
      { intros Hr. destruct (G4 Hr) as (K5 & K6). split; [lia|]. pcbn_in K6. lia. }
      split; [eapply Fw_trans; [exact F1|exact G5|auto|auto|auto]|].
      split; [apply SSBx_same; exact G6|]. split; [exact G7|].
      intros _. exists None. split; [|intros x E; discriminate].
      intros i o' Ho' Hlo' Hni. right.
      destruct (parseNamePathOrMethodCall_bn fuel (with_r s r1) res s' Erun (fi_skip _ _ H1)) as (_ & HBN).
      destruct (HBN i o' Ho') as [(o & Ho & (E1 & E2))|Hb]; [exfalso|exact Hb].
      apply Hni. apply (R_live_glive _ _ (fi_R _ _ H)). exists o. split; [exact Ho|congruence].
Qed.

Definition tnblock (fuel : nat) : Prop := T_name fuel /\ T_next fuel.
Lemma T_next_all fuel : T_next fuel.
Proof.
  destruct fuel as [|fuel].
  - intros s g top rest _ _ _. exact I.
  - apply tstep_next; [apply (tblock2_all fuel)|].
    destruct fuel as [|fuel]; [intros s g top rest _ _ _; exact I|apply tstep_name].
Qed.

(** ---- the loops of parseObjectList, carrying an invariant [LI] of the object boundaries ---- *)
Section Loops.
Variable LI : pstate -> ghost -> Prop.
Hypothesis LI_next : forall s g top rest s' g',
  FI s g -> LI s g -> p_scopeStack s = top :: rest -> FI s' g' -> gext g g' ->
  Fw NoP (eq top) s g s' g' -> SSBx s s' -> p_handle s' = p_handle s ->
  (exists xs, newobjs g s' xs /\ forall x, xs = Some x -> ~ glive g x /\ xdesc s g s' g' top x) ->
  LI s' g'.
Hypothesis LI_stable : forall s s' g, LI s g -> p_tree s' = p_tree s -> p_handle s' = p_handle s ->
  (forall y, In y (p_scopeStack s') -> In y (p_scopeStack s)) -> LI s' g.

Lemma inner_spec2 : forall fuel s g, FI s g -> p_scopeStack s <> [] -> room s -> LI s g ->
  spec True (objectList_inner fuel) s g (fun ok s' g' =>
    Phi s' <= Phi s + 2 /\ (ok = true -> Phi s' <= Phi s) /\ p_scopeStack s' <> [] /\ (ok = true -> LI s' g')).
Proof.
  induction fuel as [|fuel IH]; intros s g H Hst Hroom HL; unfold spec; cbn [objectList_inner].
  { apply wp_outOfFuel. exact I. }
  apply wp_bind, wp_get. destruct (eof (p_r s)).
  { apply wp_ret. exists g. split; auto. split; [apply Ext_refl|]. split; [lia|]. split; [intros _; lia|]. split; [exact Hst|intros _; exact HL]. }
  destruct (p_scopeStack s) as [|top rest] eqn:Est; [contradiction|].
  apply wp_bind. eapply wp_weaken; [apply (T_next_all fuel s g top rest H Est Hroom)|auto|].
  intros res s1 (g1 & H1 & E1 & P1 & P2 & F1 & S1 & Hh1 & N1).
  assert (Hst1 : p_scopeStack s1 <> []).
  { destruct (ex_scopes _ _ _ _ E1) as (e & Es). rewrite Es, Est. intros E. apply app_eq_nil in E. destruct E as (_ & E). discriminate. }
  destruct (pres_eqb res ROk) eqn:Eres.
  - assert (res = ROk) by (destruct res; try discriminate; reflexivity). subst res. destruct (P2 eq_refl) as (P3 & P4).
    assert (HL1 : LI s1 g1) by (apply (LI_next s g top rest s1 g1 H HL Est H1 (ex_g _ _ _ _ E1) F1 S1 Hh1 (N1 eq_refl))).
    eapply wp_weaken; [apply (IH s1 g1 H1 Hst1)|auto|].
    + unfold room in *. lia.
    + exact HL1.
    + intros ok s' (g' & G1 & G2 & G3 & G4 & G5 & G6). exists g'. split; auto. split; [eapply Ext_trans; eauto|].
      split; [lia|]. split; [intros Hr; specialize (G4 Hr); lia|]. split; [exact G5|exact G6].
  - apply wp_ret. exists g1. split; auto. split; auto. split; [lia|]. split; [discriminate|]. split; [exact Hst1|discriminate].
Qed.

Lemma popPkgEnd_len s u s' : popPkgEnd s = Ok (u, s') -> r_len (p_r s') = r_len (p_r s).
Proof.
  unfold popPkgEnd. destruct (match p_pkgEndStack s with [] => [] | _ :: rest => rest end) as [|top rest'].
  - intros H. inversion H; subst. reflexivity.
  - intros H. inversion H; subst. cbn [p_r with_r with_pkgEndStack]. apply (proj2 (setPkgEnd_off _ top)).
Qed.

Definition LPost (s : pstate) (g : ghost) (res : pres) (s' : pstate) : Prop :=
  exists g', FI s' g' /\ gext g g' /\ Phi s' <= Phi s + 2 /\ r_len (p_r s') = r_len (p_r s) /\ (res = ROk \/ res = RFailed) /\
    (res = ROk -> LI s' g' /\ p_scopeStack s' = []).

Lemma list_spec2 : forall fuel s g, FI s g -> room s -> LI s g -> wp True (parseObjectList fuel) s (LPost s g).
Proof.
  induction fuel as [|fuel IH]; intros s g H Hroom HL; cbn [parseObjectList].
  { apply wp_outOfFuel. exact I. }
  apply wp_bind, wp_get. destruct (p_scopeStack s) as [|x rest] eqn:Est.
  { apply wp_ret. exists g. split; [exact H|]. split; [apply gext_refl|]. split; [lia|]. split; [reflexivity|]. split; [left; reflexivity|]. intros _. split; [exact HL|exact Est]. }
  apply wp_bind. eapply wp_weaken; [apply (inner_spec2 fuel s g H)|auto|].
  { rewrite Est. discriminate. } { exact Hroom. } { exact HL. }
  intros ok s1 (g1 & H1 & E1 & P1 & P2 & Hst1 & HL1).
  pose proof (ex_g _ _ _ _ E1) as G1. pose proof (ex_len _ _ _ _ E1) as L1.
  destruct ok; cbn [negb]; [|apply wp_ret; exists g1; split; [exact H1|]; split; [exact G1|]; split; [exact P1|]; split; [exact L1|]; split; [right; reflexivity|discriminate]].
  specialize (P2 eq_refl). specialize (HL1 eq_refl).
  apply wp_bind, wp_get. apply wp_bind, wp_get.
  destruct (p_scopeStack s1) as [|y rest1] eqn:Est1; [contradiction|].
  assert (Hcont : forall s2, FI s2 g1 -> Phi s2 = Phi s1 -> r_len (p_r s2) = r_len (p_r s1) -> LI s2 g1 ->
     wp True (popPkgEnd ;;; parseObjectList fuel) s2 (LPost s g)).
  { intros s2 H2 EP EL HL2. apply wp_bind. eapply wp_weaken; [apply (wp_and_pc _ _ _ _ (fun _ s3 => p_tree s3 = p_tree s2 /\ p_handle s3 = p_handle s2 /\ r_len (p_r s3) = r_len (p_r s2))
                                                                    (popPkgEnd_spec False s2 g1 H2))|intros []|].
    - intros a s3 E. split; [apply (notree_popPkgEnd _ _ _ E)|]. split; [apply (hsame_popPkgEnd _ _ _ E)|apply (popPkgEnd_len _ _ _ E)].
    - intros _ s3 ((H3 & EP3 & ER3 & ESc3 & EPk3) & Et3 & Eh3 & El3).
      eapply wp_weaken; [apply (IH s3 g1 H3)|auto|].
      + unfold room in *. lia.
      + apply (LI_stable s2 s3 g1 HL2 Et3 Eh3). intros y1 Hy1. rewrite ESc3 in Hy1. exact Hy1.
      + intros r s' (g' & F1 & F2 & F3 & F4 & F5 & F6). exists g'. split; [exact F1|]. split; [eapply gext_trans; eauto|].
        split; [lia|]. split; [congruence|]. split; [exact F5|exact F6]. }
  apply wp_bind.
  destruct (Nat.eqb (length (p_pkgEndStack s1)) (length (y :: rest1))).
  - eapply wp_scopeExit; [exact Est1|]. apply Hcont; [|reflexivity|reflexivity|].
    + apply FI_with_scope; [exact H1|]. pose proof (fi_scopes _ _ H1) as F. rewrite Est1 in F. inversion F; auto.
    + apply (LI_stable s1 _ g1 HL1); [reflexivity|reflexivity|]. intros y0 Hy0. cbn [p_scopeStack with_scopeStack] in Hy0. rewrite Est1. right. exact Hy0.
  - apply wp_ret. apply Hcont; [exact H1|reflexivity|reflexivity|exact HL1].
Qed.
End Loops.
