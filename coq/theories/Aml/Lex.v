(** Layer 2 of the AML model: the token-level functions of kernel/device/acpi/aml/parser.go
    (parsePkgLength, parseNumConstant, parseString, parseNameString, nextOpcode, peekNextOpcode)
    and pOpcodeTableIndex / argCount / arg of parser_opcode_table.go.   Definitions only.

    The opcode tables are the generated ones (Gen.Consts_device_acpi_aml). Values that alias the
    table memory are [slice]s (start, len).  Results carry the Go parseResult as a [bool]
    (true = parseResultOk, false = parseResultFailed) at this layer. *)
From Coq Require Import NArith List Bool.
From FF Require Import Lib.Word Gen.Consts_device_acpi_aml Aml.Stream.
Import ListNotations.
Local Open Scope N_scope.

(** ---- parser_opcode_table.go ---- *)

Definition nthN (l : list N) (i : N) : option N := nth_error l (N.to_nat i).

(** pOpcodeTableIndex(opcode, allowInternalOp); [None] = Go index-out-of-range panic
    (extendedOpcodeMap[opcode-0xff] with opcode > 0x1fe). *)
Definition opcodeTableIndex (op : N) (allowInternal : bool) : option N :=
  if op <=? 0xff then nthN aml_opcodeMap op
  else match nthN aml_extendedOpcodeMap (op - 0xff) with
       | None => None
       | Some idx =>
           if (idx =? aml_badOpcode) && allowInternal
           then Some (w8 (aml_opcodeTableLen + op + 0x200 - 0x1fe))   (* uint8(len + int(op) - 0x1fe) *)
           else Some idx
       end.

(** argCount: number of low bytes whose low nibble is non-zero (at most 8 bytes in a uint64) *)
Fixpoint argCount_go (fuel : nat) (fl : N) : N :=
  match fuel with
  | O => 0
  | S f => if N.land fl 0xf =? 0 then 0 else 1 + argCount_go f (N.shiftr fl 8)
  end.
Definition argCount (fl : N) : N := argCount_go 8 fl.

(** arg(num) = (fl >> (num*8)) & 0xf ; num*8 is uint8 arithmetic *)
Definition argType (fl : N) (num : N) : N := N.land (N.shiftr fl (w8 (num * 8))) 0xf.

(** row of pOpcodeTable: (op, flags, argFlags); [None] = index out of range *)
Definition opInfo (infoIndex : N) : option (N * N * N) :=
  match nth_error aml_opcodeTable (N.to_nat infoIndex) with
  | Some [op; fl; af] => Some (op, fl, af)
  | _ => None
  end.

Definition ttab (table : list N) (op : N) : bool :=
  match nthN table op with Some 1 => true | _ => false end.
Definition isArg (op : N) : bool := ttab aml_isArg op.
Definition isType2 (op : N) : bool := ttab aml_isType2 op.
Definition isDataObject (op : N) : bool := ttab aml_isDataObject op.

(** ---- parsePkgLength ---- *)

(** (pkgLen, ok); on failure the offset is restored *)
Definition parsePkgLength (r : reader) : outcome (N * bool * reader) :=
  let orig := r_offset r in
  let fail (r' : reader) := Ok (0, false, setOffset r' orig) in
  do '(lead, r1) <- readByte r;
  match lead with
  | None => fail r1
  | Some lead =>
    let n := N.shiftr lead 6 in
    if n =? 0 then Ok (lead, true, r1)
    else
      do '(b1, r2) <- readByte r1;
      match b1 with
      | None => fail r2
      | Some b1 =>
        if n =? 1 then Ok (N.lor (N.shiftl b1 4) (N.land lead 0xf), true, r2)
        else
          do '(b2, r3) <- readByte r2;
          match b2 with
          | None => fail r3
          | Some b2 =>
            if n =? 2 then Ok (N.lor (N.lor (N.shiftl b2 12) (N.shiftl b1 4)) (N.land lead 0xf), true, r3)
            else
              do '(b3, r4) <- readByte r3;
              match b3 with
              | None => fail r4
              | Some b3 =>
                Ok (N.lor (N.lor (N.lor (N.shiftl b3 20) (N.shiftl b2 12)) (N.shiftl b1 4)) (N.land lead 0xf), true, r4)
              end
          end
      end
  end.

(** ---- parseNumConstant(numBytes) : little endian; on failure the bytes read stay consumed ---- *)
Fixpoint parseNum_go (cnt : nat) (c : N) (acc : N) (r : reader) : outcome (N * bool * reader) :=
  match cnt with
  | O => Ok (acc, true, r)
  | S cnt' =>
      do '(b, r1) <- readByte r;
      match b with
      | None => Ok (0, false, r1)
      | Some b => parseNum_go cnt' (c + 1) (N.lor acc (w64 (N.shiftl b (w8 (c * 8))))) r1
      end
  end.
Definition parseNumConstant (numBytes : N) (r : reader) : outcome (N * bool * reader) :=
  parseNum_go (N.to_nat numBytes) 0 0 r.

(** ---- parseString: ASCII chars up to a NUL; returns the slice even on failure ---- *)
Fixpoint parseString_go (fuel : nat) (ptr : option N) (len : N) (r : reader) : outcome (slice * bool * reader) :=
  match fuel with
  | O => OutOfFuel
  | S f =>
      do '(b, r1) <- readByte r;
      match b with
      | None => Ok (mkSlice ptr len, false, r1)
      | Some b =>
          if b =? 0 then Ok (mkSlice ptr len, true, r1)
          else if (1 <=? b) && (b <=? 0x7f) then parseString_go f ptr (len + 1) r1
          else Ok (mkSlice ptr len, false, r1)
      end
  end.

(** enough fuel for any loop that consumes one byte per iteration *)
Definition stream_fuel (r : reader) : nat := S (length (r_data r)).

Definition parseString (r : reader) : outcome (slice * bool * reader) :=
  do ptr <- dataPtr r;
  parseString_go (stream_fuel r) ptr 0 r.

(** ---- parseNameString ---- *)

(** skip '\' and '^' prefixes; [false] = end of stream *)
Fixpoint skipPrefix_go (fuel : nat) (r : reader) : outcome (bool * reader) :=
  match fuel with
  | O => OutOfFuel
  | S f =>
      do b <- peekByte r;
      match b with
      | None => Ok (false, r)
      | Some b =>
          if (b =? 0x5c) || (b =? 0x5e)
          then do '(_, r1) <- readByte r; skipPrefix_go f r1
          else Ok (true, r)
      end
  end.

Definition parseNameString (r : reader) : outcome (slice * bool * reader) :=
  do ptr <- dataPtr r;
  let startOffset := r_offset r in
  do '(ok, r1) <- skipPrefix_go (stream_fuel r) r;
  if negb ok then Ok (nil_slice, false, r1) else
  do '(nx, r2) <- readByte r1;
  let next := match nx with Some b => b | None => 0 end in  (* "this call to read will never error" *)
  let finish (start : N) (r' : reader) := Ok (mkSlice ptr (w32 (r_offset r' + two32 - start)), true, r') in
  if next =? 0 then
    (* the terminator is dropped, root / parent prefixes are kept (commit 74af16c) *)
    Ok (mkSlice ptr (w32 (r_offset r2 + two32 - 1 - startOffset)), true, r2)
  else if next =? 0x2e then
    let endOffset := w32 (r_offset r2 + w32 (aml_amlNameLen * 2)) in
    if r_pkgEnd r2 <? endOffset then Ok (nil_slice, false, r2)
    else finish startOffset (setOffset r2 endOffset)
  else if next =? 0x2f then
    do '(sc, r3) <- readByte r2;
    match sc with
    | None => Ok (nil_slice, false, r3)
    | Some segCount =>
        if segCount =? 0 then Ok (nil_slice, false, r3) else
        (* uint32(amlNameLen*segCount): the product is computed in uint8 *)
        let endOffset := w32 (r_offset r3 + w8 (segCount * aml_amlNameLen)) in
        if r_pkgEnd r3 <? endOffset then Ok (nil_slice, false, r3)
        else finish startOffset (setOffset r3 endOffset)
    end
  else
    if ((next <? 0x41) || (0x5a <? next)) && negb (next =? 0x5f) then Ok (nil_slice, false, r2)
    else
      let endOffset := w32 (r_offset r2 + w32 (aml_amlNameLen - 1)) in
      if r_pkgEnd r2 <? endOffset then Ok (nil_slice, false, r2)
      else finish startOffset (setOffset r2 endOffset).

(** ---- nextOpcode / peekNextOpcode : (op, ok) ; op = 0xffff on failure ---- *)
Definition nextOpcode (r : reader) : outcome (N * bool * reader) :=
  do '(nx, r1) <- readByte r;
  match nx with
  | None => Ok (0xffff, false, r1)
  | Some next =>
      let check (op opLen : N) (r' : reader) :=
        match opcodeTableIndex op false with
        | None => Panic
        | Some idx =>
            if idx =? aml_badOpcode
            then Ok (0xffff, false, setOffset r' (w32 (r_offset r' + two32 - opLen)))
            else Ok (op, true, r')
        end in
      if next =? aml_extOpPrefix then
        do '(nx2, r2) <- readByte r1;
        match nx2 with
        | None => Ok (0xffff, false, fst (unreadByte r2))
        | Some next2 => check (w16 (0xff + next2)) 2 r2
        end
      else check next 1 r1
  end.

Definition peekNextOpcode (r : reader) : outcome (N * bool * reader) :=
  do '(op, ok, r1) <- nextOpcode r;
  Ok (op, ok, setOffset r1 (r_offset r)).

(** ---- flat interface for lexer-level correspondence cases ----
    lex case = [fn; pkgEnd; offset; arg] ++ table bytes (header included);
    observation = [class; ok; value...; offset after; pkgEnd after]
    class: 0 = returned, 2 = Go panic, 3 = out of fuel *)
Definition enc_slice (s : slice) : list N :=
  match s_ptr s with
  | Some p => [1; p; s_len s]
  | None => [0; 0; s_len s]
  end.

Definition enc_out {A} (f : A -> list N) (o : outcome (A * bool * reader)) : list N :=
  match o with
  | Ok (a, ok, r) => [0; if ok then 1 else 0] ++ f a ++ [r_offset r; r_pkgEnd r]
  | Panic => [2]
  | OutOfFuel => [3]
  end.

Definition run_lex (fn pkgEnd offset arg : N) (data : list N) : list N :=
  let r0 := init_reader data 0 in
  let r1 := fst (setPkgEnd r0 pkgEnd) in
  let r := setOffset r1 offset in
  match fn with
  | 0 => enc_out (fun v => [v]) (parsePkgLength r)
  | 1 => enc_out (fun v => [v]) (parseNumConstant (N.land arg 0xf) r)
  | 2 => enc_out enc_slice (parseString r)
  | 3 => enc_out enc_slice (parseNameString r)
  | 4 => enc_out (fun v => [v]) (nextOpcode r)
  | 5 => enc_out (fun v => [v]) (peekNextOpcode r)
  | 6 => match readByte r with
         | Ok (b, r') => [0; match b with Some _ => 1 | None => 0 end; match b with Some b => b | None => 0 end; r_offset r'; r_pkgEnd r']
         | Panic => [2] | OutOfFuel => [3] end
  | 7 => let '(r', ok) := unreadByte r in [0; if ok then 1 else 0; 0; r_offset r'; r_pkgEnd r']
  | 8 => match dataPtr r with
         | Ok p => [0; 1] ++ enc_slice (mkSlice p 0) ++ [r_offset r; r_pkgEnd r]
         | Panic => [2] | OutOfFuel => [3] end
  | 9 => match lastByte r with
         | Ok b => [0; match b with Some _ => 1 | None => 0 end; match b with Some b => b | None => 0 end; r_offset r; r_pkgEnd r]
         | Panic => [2] | OutOfFuel => [3] end
  | _ => []
  end.
