(** C11 (fragment F0): the first pass on a flat list of [Name(SEG, integer constant)] declarations.

    [inner_decls]: parseObjectList's inner loop in front of the encoded declarations consumes exactly their bytes and
    appends, per declaration, a Name object with its name path child and - as the next sibling - the constant. *)
From Coq Require Import NArith ZArith Arith List Bool Lia.
From Coq Require Import ZifyBool ZifyN ZifyNat.
From FF Require Import Lib.Word Gen.Consts_device_acpi_aml Gen.Consts_aml_tree Aml.Stream Aml.Lex Aml.LexProofs
  Aml.Tree Aml.TreeSpec Aml.TreeProofs Aml.TreeProofsOps Aml.TreeProofsFind Aml.Parser Aml.Grammar Aml.LexRoundtrip
  Aml.ParserTotalTree Aml.ParserTotalTree2 Aml.ParserTotalLex Aml.ParserTotalTable Aml.ParserTotalBase
  Aml.ParserFragBase Aml.ParserFragFirst.
Import ListNotations.
Local Open Scope N_scope.

Ltac Zify.zify_post_hook ::= Z.div_mod_to_equations.

Record decl : Type := mkDecl { d_seg : N; d_op : N; d_v : N }.

Definition enc_const (d : decl) : list N := enc_op (d_op d) ++ Grammar.le_bytes (const_bytes (d_op d)) (d_v d).
Definition enc_decl (d : decl) : list N := OP_NAME :: seg_bytes (d_seg d) ++ enc_const d.
Definition enc_decls (ds : list decl) : list N := flat_map enc_decl ds.

Definition decl_okb (d : decl) : bool :=
  lead_okb (seg_lead (d_seg d)) && is_constb (d_op d) && (d_v d <? 2 ^ (N.of_nat (const_bytes (d_op d)) * 8)).

Fixpoint g_decls (g : ghost) (sc : N) (ds : list decl) : ghost :=
  match ds with [] => g | _ :: r => g_decls (g_head (g_name g sc) sc) sc r end.

Definition decl_pays (h tbl off : N) (d : decl) : list pay :=
  [mkPay aml_pOpName 3 h name_zero off 0 None;
   mkPay aml_pOpIntNamePath 118 h name_zero (off + 1) 0 (Some (VBytes tbl (mkSlice (Some (off + 1)) 4)));
   mkPay (d_op d) (const_info (d_op d)) h name_zero (off + 5) 0 (const_val (d_op d) (d_v d))].

Fixpoint pl_decls (h tbl off : N) (ds : list decl) : list pay :=
  match ds with [] => [] | d :: r => decl_pays h tbl off d ++ pl_decls h tbl (off + lenN (enc_decl d)) r end.

Lemma lenN_le_bytes k v : lenN (Grammar.le_bytes k v) = N.of_nat k.
Proof. revert v. induction k as [|k IH]; intros v; [reflexivity|]. cbn [Grammar.le_bytes]. rewrite lenN_cons, IH. lia. Qed.

Lemma lenN_enc_decl d : lenN (enc_decl d) = 5 + lenN (enc_const d).
Proof. unfold enc_decl. rewrite lenN_cons, lenN_app. change (lenN (seg_bytes (d_seg d))) with 4. lia. Qed.

Lemma lenN_enc_const d : lenN (enc_const d) = lenN (enc_op (d_op d)) + N.of_nat (const_bytes (d_op d)).
Proof. unfold enc_const. rewrite lenN_app, lenN_le_bytes. reflexivity. Qed.

Lemma length_pl_decls h tbl ds : forall off, length (pl_decls h tbl off ds) = (3 * length ds)%nat.
Proof. induction ds as [|d ds IH]; intros off; [reflexivity|]. cbn [pl_decls]. rewrite app_length, IH. cbn [decl_pays length]. lia. Qed.

Lemma state_eta s : with_tree (with_r s (set_offset_raw (p_r s) (r_offset (p_r s)))) (p_tree s) = s.
Proof. destruct s as [r t a b c d e f0 g0 h i]. destruct r. reflexivity. Qed.

Lemma objectList_inner_S f : objectList_inner (S f) =
  (mlet e <~ eofM ;; if e then ret true else
   mlet res <~ parseNextObject f ;; if pres_eqb res ROk then objectList_inner f else ret false).
Proof. reflexivity. Qed.

Lemma inner_decls : forall ds f s g pl pre sc scs a,
  Rep (p_tree s) g pl -> g_free g = [] -> N.of_nat (length pl) + 3 * lenN ds < InvalidIndex ->
  at_token (p_r s) pre (enc_decls ds) [] -> r_pkgEnd (p_r s) = lenN pre + lenN (enc_decls ds) ->
  forallb decl_okb ds = true -> p_scopeStack s = sc :: scs -> pget pl sc = Some a -> y_op a <> opFreed ->
  p_allBlocks s = false -> (2 * length ds + 6 <= f)%nat ->
  wp False (objectList_inner f) s (fun ok s' => ok = true /\ exists t',
    s' = with_tree (with_r s (set_offset_raw (p_r s) (lenN pre + lenN (enc_decls ds)))) t' /\
    Rep t' (g_decls g sc ds) (pl ++ pl_decls (p_handle s) (cur_tbl s) (lenN pre) ds)).
Proof.
  induction ds as [|d ds IH]; intros f s g pl pre sc scs a H Hfree Hroom Hat Hend Hok Est Hsc Hlsc Hab Hf.
  - destruct f as [|f]; [lia|]. cbn [objectList_inner]. unfold eofM, rq. apply wp_bind, wp_get.
    cbn [enc_decls flat_map] in *. change (lenN (@nil N)) with 0 in *. rewrite N.add_0_r in *.
    rewrite (at_eof _ _ _ Hat Hend). apply wp_ret. split; [reflexivity|]. exists (p_tree s). split.
    + rewrite <- (at_off _ _ _ _ Hat). symmetry. apply state_eta.
    + cbn [g_decls pl_decls]. rewrite app_nil_r. exact H.
  - cbn [forallb] in Hok. apply andb_prop in Hok. destruct Hok as [Hd Hok].
    unfold decl_okb in Hd. apply andb_prop in Hd. destruct Hd as [Hd Hv]. apply andb_prop in Hd. destruct Hd as [Hlead Hc].
    apply N.ltb_lt in Hv.
    rewrite lenN_cons in Hroom. cbn [length] in Hf.
    assert (Ef : exists f', f = S (S (S (S (S (S (S f'))))))) by (exists (f - 7)%nat; lia).
    destruct Ef as (f' & ->).
    cbn [enc_decls flat_map] in Hat, Hend |- *. fold (enc_decls ds) in Hat, Hend |- *.
    assert (Hat0 : at_token (p_r s) pre (OP_NAME :: seg_bytes (d_seg d) ++ enc_const d ++ enc_decls ds) []).
    { unfold enc_decl in Hat. cbn [app] in Hat. rewrite <- app_assoc in Hat. exact Hat. }
    (* the Name object *)
    rewrite objectList_inner_S. unfold eofM, rq. apply wp_bind, wp_get. rewrite (at_not_eof _ _ _ _ _ Hat0).
    apply wp_bind. eapply wp_conseq.
    { eapply (next_name _ s g pl pre (d_seg d) _ [] sc scs a); [exact H|exact Hfree|lia|exact Hat0|exact Hlead|exact Est|exact Hsc|exact Hlsc|exact Hab]. }
    intros res s1 (-> & t1 & -> & H1). change (pres_eqb ROk ROk) with true. cbv iota.
    set (r1 := set_offset_raw (p_r s) (lenN pre + 5)). set (s1 := with_tree (with_r s r1) t1).
    set (pl1 := pl ++ [mkPay aml_pOpName 3 (p_handle s) name_zero (lenN pre) 0 None; path_pay s (lenN pre + 1) 4]) in *.
    assert (Hl1 : length pl1 = S (S (length pl))) by (unfold pl1; rewrite app_length; cbn [length]; lia).
    pose proof (rep_len_g _ _ _ H) as Hlg.
    assert (Hsclt : sc < N.of_nat (length pl)) by (eapply pget_lt; eauto).
    assert (Hsc1 : pget pl1 sc = Some a).
    { unfold pl1, pget. rewrite nth_error_app1 by lia. exact Hsc. }
    set (pre1 := pre ++ OP_NAME :: seg_bytes (d_seg d)).
    assert (Hlp1 : lenN pre1 = lenN pre + 5).
    { unfold pre1. rewrite lenN_app, lenN_cons. change (lenN (seg_bytes (d_seg d))) with 4. lia. }
    assert (Hat1 : at_token (p_r s1) pre1 (enc_op (d_op d) ++ Grammar.le_bytes (const_bytes (d_op d)) (d_v d) ++ enc_decls ds) []).
    { pose proof (at_adv (p_r s) pre (OP_NAME :: seg_bytes (d_seg d)) (enc_const d ++ enc_decls ds) [] Hat0) as A.
      rewrite lenN_cons in A. change (lenN (seg_bytes (d_seg d))) with 4 in A. replace (lenN pre + (1 + 4)) with (lenN pre + 5) in A by lia.
      unfold enc_const in A. rewrite <- app_assoc in A. exact A. }
    (* the constant *)
    rewrite objectList_inner_S. unfold eofM, rq. apply wp_bind, wp_get.
    assert (Hne : eof (p_r s1) = false).
    { destruct (enc_op (d_op d)) as [|x l] eqn:Eop; [unfold enc_op in Eop; destruct (d_op d <=? 255); discriminate|].
      cbn [app] in Hat1. apply (at_not_eof _ _ _ _ _ Hat1). }
    rewrite Hne.
    apply wp_bind. eapply wp_conseq.
    { eapply (next_const _ s1 _ pl1 pre1 (d_op d) (d_v d) (enc_decls ds) [] sc scs a);
        [exact H1|apply free_g_name|lia|exact Hat1|exact Hc|exact Hv|exact Est|exact Hsc1|exact Hlsc]. }
    intros res s2 (-> & t2 & -> & H2). change (pres_eqb ROk ROk) with true. cbv iota.
    set (r2 := set_offset_raw (p_r s1) (lenN pre1 + lenN (enc_op (d_op d)) + N.of_nat (const_bytes (d_op d)))).
    set (s2 := with_tree (with_r s1 r2) t2).
    set (pl2 := pl1 ++ [const_pay s1 (lenN pre1) (d_op d) (d_v d)]) in *.
    assert (Hl2 : length pl2 = S (S (S (length pl)))) by (unfold pl2; rewrite app_length; cbn [length]; lia).
    assert (Hsc2 : pget pl2 sc = Some a).
    { unfold pl2, pget. rewrite nth_error_app1 by lia. exact Hsc1. }
    set (pre2 := pre1 ++ enc_const d).
    assert (Hlp2 : lenN pre2 = lenN pre + lenN (enc_decl d)).
    { unfold pre2. rewrite lenN_app, Hlp1, lenN_enc_decl. lia. }
    assert (Hat2 : at_token (p_r s2) pre2 (enc_decls ds) []).
    { pose proof (at_adv (p_r s1) pre1 (enc_const d) (enc_decls ds) []) as A.
      unfold enc_const in A at 1. rewrite <- app_assoc in A. specialize (A Hat1).
      rewrite lenN_enc_const, N.add_assoc in A. exact A. }
    eapply wp_conseq.
    { eapply (IH _ s2 _ pl2 pre2 sc scs a); [exact H2|reflexivity|lia|exact Hat2| |exact Hok|exact Est|exact Hsc2|exact Hlsc|exact Hab|lia].
      change (r_pkgEnd (p_r s2)) with (r_pkgEnd (p_r s)). rewrite Hend, Hlp2, lenN_app. lia. }
    intros ok s3 (-> & t3 & -> & H3). split; [reflexivity|]. exists t3. split.
    + unfold s2, s1, r2, r1. rewrite Hlp2, lenN_app.
      replace (lenN pre + lenN (enc_decl d) + lenN (enc_decls ds)) with (lenN pre + (lenN (enc_decl d) + lenN (enc_decls ds))) by lia.
      reflexivity.
    + cbn [g_decls pl_decls]. unfold pl2, pl1 in H3. rewrite <- !app_assoc in H3. cbn [app] in H3.
      rewrite Hlp1, Hlp2 in H3. exact H3.
Qed.

(** ---- the whole first pass ---- *)
Lemma init_state_eq tree earlier h data : aml_sizeofSDTHeader <= lenN data ->
  init_state tree earlier h data =
  mkP (mkReader data (lenN data) aml_sizeofSDTHeader (lenN data)) tree [] [lenN data] (lenN data) 0 0 0 false h (earlier ++ [data]).
Proof.
  intros Hn. unfold init_state, init_reader. fold (lenN data).
  assert (E1 : setPkgEnd (mkReader data (lenN data) 0 0) (lenN data) = (mkReader data (lenN data) 0 (lenN data), true)).
  { unfold setPkgEnd. cbn [r_len]. rewrite N.ltb_irrefl. reflexivity. }
  rewrite E1. cbn [fst]. unfold setOffset. cbn [r_len].
  assert (E2 : lenN data <? aml_sizeofSDTHeader = false) by (apply N.ltb_ge; exact Hn). rewrite E2.
  unfold set_offset_raw. cbn [r_data r_len r_pkgEnd r_offset].
  unfold setPkgEnd. cbn [r_len]. rewrite N.ltb_irrefl. reflexivity.
Qed.

Lemma parseObjectList_S f : parseObjectList (S f) =
  (mlet st <~ get p_scopeStack ;;
   match st with
   | [] => ret ROk
   | _ => mlet ok <~ objectList_inner f ;;
          if negb ok then ret RFailed else
          mlet n1 <~ get (fun s => length (p_pkgEndStack s)) ;;
          mlet n2 <~ get (fun s => length (p_scopeStack s)) ;;
          (if Nat.eqb n1 n2 then scopeExit else ret tt) ;;;
          popPkgEnd ;;;
          parseObjectList f
   end).
Proof. reflexivity. Qed.

Definition first_pass (fuel : nat) : M pres := scopeEnter 0 ;;; parseObjectList fuel.

Definition after_first (tree : T) (earlier : list (list N)) (h : N) (data : list N) : pstate :=
  mkP (mkReader data (lenN data) (lenN data) (lenN data)) tree [] [] (lenN data) 0 0 0 false h (earlier ++ [data]).

Lemma first_f0 ds fuel tree g pl earlier h hdr a0 :
  let data := hdr ++ enc_decls ds in
  lenN hdr = aml_sizeofSDTHeader -> Forall (fun b => b < 256) data -> lenN data < two32 ->
  Rep tree g pl -> g_free g = [] -> N.of_nat (length pl) + 3 * lenN ds < InvalidIndex ->
  pget pl 0 = Some a0 -> y_op a0 <> opFreed -> forallb decl_okb ds = true -> (2 * length ds + 8 <= fuel)%nat ->
  wp False (first_pass fuel) (init_state tree earlier h data) (fun res s' => res = ROk /\ exists t1,
    s' = after_first t1 earlier h data /\
    Rep t1 (g_decls g 0 ds) (pl ++ pl_decls h (N.of_nat (length (earlier ++ [data])) - 1) aml_sizeofSDTHeader ds)).
Proof.
  intros data Hhdr Hbytes Hsmall H Hfree Hroom H0 Hl0 Hok Hfuel.
  assert (Hlen : lenN data = aml_sizeofSDTHeader + lenN (enc_decls ds)) by (unfold data; rewrite lenN_app, Hhdr; reflexivity).
  rewrite init_state_eq by lia.
  destruct fuel as [|f1]; [lia|]. destruct f1 as [|f2]; [lia|].
  unfold first_pass. apply wp_bind. apply wp_scopeEnter. scbn.
  rewrite parseObjectList_S. apply wp_bind, wp_get. scbn.
  set (s0 := mkP (mkReader data (lenN data) aml_sizeofSDTHeader (lenN data)) tree [0] [lenN data] (lenN data) 0 0 0 false h (earlier ++ [data])).
  assert (Hat : at_token (p_r s0) hdr (enc_decls ds) []).
  { constructor; cbn [p_r s0 r_data r_offset r_pkgEnd].
    - unfold data. rewrite app_nil_r. reflexivity.
    - symmetry. exact Hhdr.
    - rewrite Hlen, Hhdr. lia.
    - unfold reader_wf. cbn [r_len r_data r_pkgEnd]. repeat split; auto. lia. }
  apply wp_bind. eapply wp_conseq.
  { eapply (inner_decls ds (S f2) s0 g pl hdr 0 [] a0); [exact H|exact Hfree|exact Hroom|exact Hat| |exact Hok|reflexivity|exact H0|exact Hl0|reflexivity|lia].
    cbn [p_r s0 r_pkgEnd]. rewrite Hlen, Hhdr. reflexivity. }
  intros ok s1 (-> & t1 & -> & H1). cbn [negb]. cbv iota.
  apply wp_bind, wp_get. apply wp_bind, wp_get. scbn. cbn [length Nat.eqb].
  apply wp_bind. unfold scopeExit at 1. unfold wp at 1. scbn. cbv iota beta.
  apply wp_bind. unfold popPkgEnd at 1. unfold wp at 1. scbn. cbv iota beta zeta.
  rewrite parseObjectList_S. apply wp_bind, wp_get. scbn. apply wp_ret.
  split; [reflexivity|]. exists t1. split.
  - unfold after_first, s0. scbn. unfold set_offset_raw. cbn [r_data r_len r_pkgEnd p_r].
    rewrite Hhdr, <- Hlen. reflexivity.
  - rewrite Hhdr in H1. exact H1.
Qed.
