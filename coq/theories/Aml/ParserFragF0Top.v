(** C11 (fragment F0): ParseAML on the encoding of a flat list of Name declarations over the default scopes:
    it succeeds and the resulting pool has the shape [Shape 0] (every Name object below the root with its name
    set and the children [name path; constant]). *)
From Coq Require Import NArith ZArith Arith List Bool Lia.
From Coq Require Import ZifyBool ZifyN ZifyNat.
From FF Require Import Lib.Word Gen.Consts_device_acpi_aml Gen.Consts_aml_tree Aml.Stream Aml.Lex Aml.LexProofs
  Aml.Tree Aml.TreeSpec Aml.TreeProofs Aml.TreeProofsOps Aml.TreeProofsFind Aml.Parser Aml.Grammar Aml.LexRoundtrip
  Aml.ParserTotalTree Aml.ParserTotalTree2 Aml.ParserTotalLex Aml.ParserTotalTable Aml.ParserTotalBase
  Aml.ParserFragBase Aml.ParserFragFirst Aml.ParserFragF0 Aml.ParserFragF0Shape Aml.ParserFragConn Aml.ParserFragF0Conn
  Aml.ParserFragWalk.
Import ListNotations.
Local Open Scope N_scope.

Ltac Zify.zify_post_hook ::= Z.div_mod_to_equations.

(** ---- the default scopes ---- *)
Fixpoint g_scopes (g : ghost) (root : N) (k : nat) : ghost :=
  match k with O => g | S k' => g_scopes (g_head g root) root k' end.

Definition scope_pay (th : N) (nm : list N) : pay := mkPay opScopeBlock 113 th (name_of_list nm) 0 0 None.

Lemma newNamed_rep (t : T) g pl th nm :
  Rep t g pl -> g_free g = [] -> N.of_nat (length pl) < InvalidIndex ->
  exists t', newNamedObject t opScopeBlock th nm = Ok (t', N.of_nat (length pl)) /\
             Rep t' (gnew g) (pl ++ [mkPay opScopeBlock 113 th nm 0 0 None]).
Proof.
  intros H Hf Hroom.
  destruct (rep_new t g pl opScopeBlock th 113 H Hf Hroom) as (t1 & E1 & H1); [discriminate|right; cbv; reflexivity|reflexivity|].
  unfold newNamedObject. rewrite E1. cbn [bind].
  assert (Hg : pget (pl ++ [mkPay opScopeBlock 113 th name_zero 0 0 None]) (N.of_nat (length pl)) = Some (mkPay opScopeBlock 113 th name_zero 0 0 None))
    by apply pget_app_last.
  destruct (rep_get _ _ _ H1 _ _ Hg) as (o & Ho & _).
  rewrite (wr_ok _ _ _ _ Ho). cbn [bind]. eexists. split; [reflexivity|].
  pose proof (rep_tset t1 _ _ _ _ (set_name nm) (ys_name nm) H1 Hg ltac:(discriminate) (proj1 (st_name nm)) (proj2 (st_name nm))) as H2.
  rewrite pupd_app_last in H2. exact H2.
Qed.

Lemma append_scopes_rep th names : forall (t : T) g pl root ar,
  Rep t g pl -> g_free g = [] -> pget pl root = Some ar -> y_op ar <> opFreed ->
  N.of_nat (length pl) + N.of_nat (length names) < InvalidIndex ->
  exists t', append_scopes t root th names = Ok t' /\
             Rep t' (g_scopes g root (length names)) (pl ++ map (scope_pay th) names).
Proof.
  induction names as [|nm names IH]; intros t g pl root ar H Hf Hr Hlr Hroom; cbn [append_scopes length g_scopes map].
  - exists t. rewrite app_nil_r. auto.
  - destruct (newNamed_rep t g pl th (name_of_list nm) H Hf ltac:(cbn [length] in Hroom; lia)) as (t1 & E1 & H1).
    rewrite E1. cbn [bind].
    pose proof (rep_len_g _ _ _ H) as Hlg.
    assert (Hrlt : root < N.of_nat (length pl)) by (eapply pget_lt; eauto).
    assert (Hlive_r : glive g root) by (eapply rep_live; eauto).
    destruct (rep_append t1 (gnew g) _ root (N.of_nat (length pl)) H1) as (t2 & E2 & H2).
    { apply glive_gnew; assumption. }
    { rewrite <- Hlg. apply glive_gnew_new. }
    { rewrite <- Hlg. eapply groot_fresh. apply (rep_R _ _ _ H). }
    { intros Hd. apply desc_leaf in Hd; [lia|]. rewrite kids_gnew. apply kids_oob. lia. }
    rewrite E2. cbn [bind]. rewrite kids_gnew in H2.
    assert (H2' : Rep t2 (g_head g root) (pl ++ [scope_pay th nm])).
    { unfold g_head. rewrite Hlg. exact H2. }
    destruct (IH t2 (g_head g root) (pl ++ [scope_pay th nm]) root ar H2' eq_refl) as (t3 & E3 & H3).
    { rewrite pget_app_l by exact Hrlt. exact Hr. }
    { exact Hlr. }
    { rewrite app_length. cbn [length] in *. lia. }
    exists t3. split; [exact E3|]. rewrite <- app_assoc in H3. exact H3.
Qed.

Definition g0c : ghost := mkGhost [[1; 2; 3; 4; 5]; []; []; []; []; []] [].
Definition pl0c : list pay := map (scope_pay 0) tree_defaultScopeNames.

Lemma default_rep : exists t0, CreateDefaultScopes (@NewObjectTree value) 0 = Ok t0 /\ Rep t0 g0c pl0c.
Proof.
  unfold CreateDefaultScopes. change tree_defaultScopeNames with ([92; 0; 0; 0] :: tl tree_defaultScopeNames).
  assert (H0 : Rep (@NewObjectTree value) ghost0 []) by (split; [apply R_empty|reflexivity]).
  destruct (newNamed_rep _ _ _ 0 (name_of_list [92; 0; 0; 0]) H0 eq_refl ltac:(cbv; reflexivity)) as (t1 & E1 & H1).
  cbv iota. rewrite E1. cbn [bind].
  destruct (append_scopes_rep 0 (tl tree_defaultScopeNames) t1 _ _ 0 _ H1 eq_refl eq_refl ltac:(discriminate) ltac:(cbv; reflexivity)) as (t2 & E2 & H2).
  exists t2. split; [exact E2|]. exact H2.
Qed.

(** ---- the table image ---- *)
Definition hdr_of (payload : list N) : list N :=
  [0x44; 0x53; 0x44; 0x54] ++ Parser.le_bytes 4 (aml_sizeofSDTHeader + N.of_nat (length payload)) ++ [2] ++ repeat 0 (N.to_nat aml_sizeofSDTHeader - 9).

Lemma table_image_hdr payload : table_image payload = hdr_of payload ++ payload.
Proof. unfold table_image, hdr_of. rewrite <- !app_assoc. reflexivity. Qed.

Lemma lenN_hdr_of payload : lenN (hdr_of payload) = aml_sizeofSDTHeader.
Proof. reflexivity. Qed.

Lemma land255_lt x : N.land x 0xff < 256.
Proof. rewrite land_255. apply N.mod_lt. discriminate. Qed.

Lemma hdr_bytes payload : Forall (fun b => b < 256) (hdr_of payload).
Proof.
  unfold hdr_of. cbn [Parser.le_bytes]. change (N.to_nat aml_sizeofSDTHeader - 9)%nat with 27%nat. cbn [repeat app].
  repeat (constructor; [first [apply land255_lt|reflexivity]|]). constructor.
Qed.

Lemma gle_bytes_lt k : forall v, Forall (fun b => b < 256) (Grammar.le_bytes k v).
Proof. induction k as [|k IH]; intros v; cbn [Grammar.le_bytes]; constructor; [apply land255_lt|apply IH]. Qed.

Lemma enc_decl_bytes d : decl_okb d = true -> Forall (fun b => b < 256) (enc_decl d).
Proof.
  intros Hd. unfold decl_okb in Hd. apply andb_prop in Hd. destruct Hd as [Hd _]. apply andb_prop in Hd. destruct Hd as [_ Hc].
  unfold enc_decl, enc_const. constructor; [reflexivity|]. apply Forall_app. split.
  - unfold seg_bytes. repeat (constructor; [apply land255_lt|]). constructor.
  - apply Forall_app. split; [|apply gle_bytes_lt].
    destruct (is_constb_cases _ Hc) as [E|[E|[E|[E|[E|[E|E]]]]]]; rewrite E; repeat constructor.
Qed.

Lemma enc_decls_bytes ds : forallb decl_okb ds = true -> Forall (fun b => b < 256) (enc_decls ds).
Proof.
  induction ds as [|d ds IH]; intros H; cbn [enc_decls flat_map]; [constructor|].
  cbn [forallb] in H. apply andb_prop in H. destruct H as [H1 H2]. apply Forall_app. split; [apply enc_decl_bytes; exact H1|apply IH; exact H2].
Qed.

Lemma enc_decls_len ds : 6 * lenN ds <= lenN (enc_decls ds).
Proof.
  induction ds as [|d ds IH]; [cbn; lia|]. cbn [enc_decls flat_map]. fold (enc_decls ds). rewrite lenN_app, lenN_cons, lenN_enc_decl, lenN_enc_const.
  assert (1 <= lenN (enc_op (d_op d))) by (unfold enc_op; destruct (d_op d <=? 255); cbn; lia). lia.
Qed.

(** ---- the bytes of the name paths ---- *)
Lemma take_bytes_app a b c : take_bytes (a ++ b ++ c) (length a) (length b) = Some b.
Proof.
  revert a. induction b as [|x b IH]; intros a; cbn [take_bytes length]; [reflexivity|].
  rewrite nth_error_app2 by lia. rewrite Nat.sub_diag. cbn [app nth_error].
  specialize (IH (a ++ [x])). rewrite <- app_assoc in IH. cbn [app] in IH.
  rewrite app_length in IH. cbn [length] in IH. replace (length a + 1)%nat with (S (length a)) in IH by lia. rewrite IH. reflexivity.
Qed.

Lemma enc_decls_split ds i d : nth_error ds i = Some d ->
  enc_decls ds = enc_decls (firstn i ds) ++ enc_decl d ++ enc_decls (skipn (S i) ds).
Proof.
  revert i. induction ds as [|d0 ds IH]; intros i Hn; [destruct i; discriminate|].
  destruct i as [|i]; cbn [nth_error] in Hn.
  - inversion Hn; subst. reflexivity.
  - cbn [firstn skipn enc_decls flat_map]. fold (enc_decls ds). fold (enc_decls (firstn i ds)). rewrite (IH i Hn) at 1.
    rewrite <- app_assoc. reflexivity.
Qed.

Lemma slice_seg s hdr ds i d : p_tables s = [hdr ++ enc_decls ds] -> nth_error ds i = Some d ->
  slice_bytes s 0 (mkSlice (Some (decl_off (lenN hdr) ds i + 1)) 4) = Ok (seg_bytes (d_seg d)).
Proof.
  intros Ht Hn. unfold slice_bytes. cbn [s_len s_ptr]. change (4 =? 0) with false. cbv iota. rewrite Ht. cbn [nth_error N.to_nat].
  rewrite (enc_decls_split ds i d Hn). unfold enc_decl.
  set (pre := hdr ++ enc_decls (firstn i ds) ++ [OP_NAME]).
  replace (hdr ++ enc_decls (firstn i ds) ++ (OP_NAME :: seg_bytes (d_seg d) ++ enc_const d) ++ enc_decls (skipn (S i) ds))
    with (pre ++ seg_bytes (d_seg d) ++ (enc_const d ++ enc_decls (skipn (S i) ds))).
  2:{ unfold pre. rewrite <- !app_assoc. cbn [app]. rewrite <- !app_assoc. reflexivity. }
  replace (N.to_nat (decl_off (lenN hdr) ds i + 1)) with (length pre).
  2:{ unfold pre, decl_off, lenN. rewrite !app_length. cbn [length]. lia. }
  change (N.to_nat 4) with (length (seg_bytes (d_seg d))). rewrite take_bytes_app. reflexivity.
Qed.

Lemma nth_ex' {A} (l : list A) i : (i < length l)%nat -> exists d, nth_error l i = Some d.
Proof. intros H. destruct (nth_error l i) eqn:E; [eauto|]. apply nth_error_None in E. lia. Qed.

(** ---- the nodes of the final tree ---- *)
Section Final.
Variable ds : list decl.
Hypothesis Hok : forallb decl_okb ds = true.
Let n := length ds.
Definition D0 : list N := [1; 2; 3; 4; 5].
Definition Sh := Shape 6 D0 pl0c ds 1 0 aml_sizeofSDTHeader.

Lemma D0_facts : forall d, In d D0 -> d < N.of_nat 6 /\ d <> 0 /\
  exists a row, pget pl0c d = Some a /\ y_op a <> opFreed /\ opInfo (y_info a) = Some row.
Proof.
  intros d Hd. unfold D0 in Hd. cbn [In] in Hd.
  destruct Hd as [ <- | [ <- | [ <- | [ <- | [ <- | [] ] ] ] ] ]; (split; [reflexivity|split; [discriminate|eexists; eexists; split; [reflexivity|split; [discriminate|reflexivity]]]]).
Qed.

Inductive node_kind (g : ghost) (y : N) (a : pay) : Prop :=
| nk_root : y = 0 -> a = mkPay opScopeBlock 113 0 (92, 0, 0, 0) 0 0 None -> kids g y = D0 ++ names_from 6 0 n -> node_kind g y a
| nk_dflt nm : In y D0 -> a = mkPay opScopeBlock 113 0 nm 0 0 None -> kids g y = [] -> node_kind g y a
| nk_name i d : nth_error ds i = Some d -> y = Nn 6 i -> a = name_pay ds 1 aml_sizeofSDTHeader i d true -> kids g y = [Pn 6 i; Cn 6 i] -> node_kind g y a
| nk_path i d : nth_error ds i = Some d -> y = Pn 6 i -> a = path_pay' ds 1 0 aml_sizeofSDTHeader i -> kids g y = [] -> node_kind g y a
| nk_const i d : nth_error ds i = Some d -> y = Cn 6 i -> a = const_pay' ds 1 aml_sizeofSDTHeader i d -> kids g y = [] -> node_kind g y a.

Lemma shape_len_pl (t : T) g pl : Rep t g pl -> Sh 0 g pl -> length pl = (6 + 3 * n)%nat.
Proof. intros H S0. rewrite <- (rep_len_g _ _ _ H). apply (sh_len _ _ _ _ _ _ _ _ _ _ S0). Qed.

Lemma f0_nodes (t : T) g pl : Rep t g pl -> Sh 0 g pl -> forall y a, pget pl y = Some a -> node_kind g y a.
Proof.
  intros H S0 y a Hy. pose proof (shape_len_pl _ _ _ H S0) as Hlen. pose proof (pget_lt _ _ _ Hy) as Hlt. rewrite Hlen in Hlt.
  destruct S0 as [A1 A2 A3 A4 A5 A6 A7 A8 A9]. change (N.of_nat 6) with 6 in *.
  destruct (N.ltb_spec y 6) as [Hold|Hnew].
  - rewrite (A6 y Hold) in Hy.
    assert (Hc : y = 0 \/ y = 1 \/ y = 2 \/ y = 3 \/ y = 4 \/ y = 5) by lia.
    destruct Hc as [ -> | [ -> | [ -> | [ -> | [ -> | -> ] ] ] ] ]; cbv in Hy; inversion Hy; subst a.
    + apply nk_root; [reflexivity|reflexivity|]. rewrite A2. unfold inter_rng. cbn [seq flat_map app]. rewrite Nat.sub_0_r. reflexivity.
    + eapply nk_dflt; [cbn; tauto|reflexivity|apply A5; cbn; tauto].
    + eapply nk_dflt; [cbn; tauto|reflexivity|apply A5; cbn; tauto].
    + eapply nk_dflt; [cbn; tauto|reflexivity|apply A5; cbn; tauto].
    + eapply nk_dflt; [cbn; tauto|reflexivity|apply A5; cbn; tauto].
    + eapply nk_dflt; [cbn; tauto|reflexivity|apply A5; cbn; tauto].
  - set (i := N.to_nat ((y - 6) / 3)).
    assert (Hi : (i < n)%nat) by (unfold i, n in *; lia).
    destruct (nth_ex' ds i Hi) as (d & Hd).
    assert (Hc : y = Nn 6 i \/ y = Pn 6 i \/ y = Cn 6 i) by (unfold Pn, Cn, Nn, i; lia).
    destruct Hc as [E|[E|E]].
    + eapply nk_name; [exact Hd|exact E| |].
      * rewrite E, (A7 i d Hd) in Hy. inversion Hy. reflexivity.
      * rewrite E. apply (A3 i Hi).
    + eapply nk_path; [exact Hd|exact E| |].
      * rewrite E, (A8 i d Hd) in Hy. inversion Hy. reflexivity.
      * rewrite E. apply (A4 i Hi).
    + eapply nk_const; [exact Hd|exact E| |].
      * rewrite E, (A9 i d Hd) in Hy. inversion Hy. reflexivity.
      * rewrite E. apply (A4 i Hi).
Qed.

Lemma decl_const d : In d ds -> is_constb (d_op d) = true.
Proof.
  intros Hin. rewrite forallb_forall in Hok. specialize (Hok d Hin). unfold decl_okb in Hok.
  apply andb_prop in Hok. destruct Hok as [Hd _]. apply andb_prop in Hd. destruct Hd as [_ Hc]. exact Hc.
Qed.

(** the local conditions of the five walks *)
Lemma f0_merge_ok (t : T) g pl : Rep t g pl -> Sh 0 g pl -> forall y a, pget pl y = Some a -> y_op a <> opFreed -> merge_ok 1 a.
Proof.
  intros H S0 y a Hy _. destruct (f0_nodes _ _ _ H S0 y a Hy) as [E1 E2 E3|nm E1 E2 E3|i d Hd E1 E2 E3|i d Hd E1 E2 E3|i d Hd E1 E2 E3]; subst a.
  - do 3 eexists. split; [reflexivity|right; reflexivity].
  - do 3 eexists. split; [reflexivity|right; reflexivity].
  - do 3 eexists. split; [reflexivity|right; reflexivity].
  - do 3 eexists. split; [reflexivity|right; reflexivity].
  - pose proof (decl_const d (nth_error_In _ _ Hd)) as Hc. unfold const_pay', merge_ok. cbn [y_info y_op y_th].
    destruct (is_constb_cases _ Hc) as [E|[E|[E|[E|[E|[E|E]]]]]]; rewrite E; (do 3 eexists; split; [reflexivity|right; reflexivity]).
Qed.

Lemma f0_defer_ok (t : T) g pl : Rep t g pl -> Sh 0 g pl -> forall y a, pget pl y = Some a -> y_op a <> opFreed -> defer_ok 1 a.
Proof.
  intros H S0 y a Hy _. destruct (f0_nodes _ _ _ H S0 y a Hy) as [E1 E2 E3|nm E1 E2 E3|i d Hd E1 E2 E3|i d Hd E1 E2 E3|i d Hd E1 E2 E3]; subst a.
  - do 3 eexists. split; [reflexivity|reflexivity].
  - do 3 eexists. split; [reflexivity|reflexivity].
  - do 3 eexists. split; [reflexivity|reflexivity].
  - do 3 eexists. split; [reflexivity|reflexivity].
  - pose proof (decl_const d (nth_error_In _ _ Hd)) as Hc. unfold const_pay', defer_ok. cbn [y_info y_op y_th].
    destruct (is_constb_cases _ Hc) as [E|[E|[E|[E|[E|[E|E]]]]]]; rewrite E; (do 3 eexists; split; [reflexivity|reflexivity]).
Qed.

Lemma Nn_not_Inv (t : T) g pl y a : Rep t g pl -> pget pl y = Some a -> (y =? InvalidIndex) = false.
Proof. apply rep_not_Inv. Qed.

Lemma f0_reloc_ok (t : T) g pl : Rep t g pl -> Sh 0 g pl -> forall y a, pget pl y = Some a -> y_op a <> opFreed -> reloc_ok g pl 1 y a.
Proof.
  intros H S0 y a Hy _. destruct (f0_nodes _ _ _ H S0 y a Hy) as [E1 E2 E3|nm E1 E2 E3|i d Hd E1 E2 E3|i d Hd E1 E2 E3|i d Hd E1 E2 E3]; subst a.
  - do 3 eexists. split; [reflexivity|]. right; left. cbn [y_th y_op]. change (0 =? 1) with false. rewrite andb_false_r. reflexivity.
  - do 3 eexists. split; [reflexivity|]. right; left. rewrite E3. cbn [hd]. rewrite N.eqb_refl. cbn [negb]. rewrite andb_false_r. reflexivity.
  - do 3 eexists. split; [reflexivity|]. right; right.
    destruct S0 as [A1 A2 A3 A4 A5 A6 A7 A8 A9].
    exists (Pn 6 i), (path_pay' ds 1 0 aml_sizeofSDTHeader i), 0, (mkSlice (Some (off ds aml_sizeofSDTHeader i + 1)) 4).
    rewrite E3. cbn [hd]. split; [reflexivity|]. split; [apply (A8 i d Hd)|]. split; [discriminate|]. split; [reflexivity|]. cbn [s_len]. cbv. discriminate.
  - do 3 eexists. split; [reflexivity|]. right; left. reflexivity.
  - pose proof (decl_const d (nth_error_In _ _ Hd)) as Hc. unfold const_pay', reloc_ok. cbn [y_info y_op y_th].
    destruct (is_constb_cases _ Hc) as [E|[E|[E|[E|[E|[E|E]]]]]]; rewrite E; (do 3 eexists; split; [reflexivity|right; left; reflexivity]).
Qed.

Lemma f0_nonnamed_ok (t : T) g pl : Rep t g pl -> Sh 0 g pl -> forall y a, pget pl y = Some a -> y_op a <> opFreed -> nonnamed_ok g 1 y a.
Proof.
  intros H S0 y a Hy _. destruct (f0_nodes _ _ _ H S0 y a Hy) as [E1 E2 E3|nm E1 E2 E3|i d Hd E1 E2 E3|i d Hd E1 E2 E3|i d Hd E1 E2 E3]; subst a.
  - do 3 eexists. split; [reflexivity|left; reflexivity].
  - do 3 eexists. split; [reflexivity|left; reflexivity].
  - do 3 eexists. split; [reflexivity|left; reflexivity].
  - do 3 eexists. split; [reflexivity|right; reflexivity].
  - pose proof (decl_const d (nth_error_In _ _ Hd)) as Hc. unfold const_pay', nonnamed_ok. cbn [y_info y_op y_th].
    destruct (is_constb_cases _ Hc) as [E|[E|[E|[E|[E|[E|E]]]]]]; rewrite E; (do 3 eexists; split; [reflexivity|right; reflexivity]).
Qed.

Lemma f0_calls_ok (t : T) g pl : Rep t g pl -> Sh 0 g pl -> forall y a, pget pl y = Some a -> y_op a <> opFreed -> calls_ok g 1 y a.
Proof.
  intros H S0 y a Hy Hl. split; [|eapply f0_nonnamed_ok; eauto].
  destruct (f0_nodes _ _ _ H S0 y a Hy) as [E1 E2 E3|nm E1 E2 E3|i d Hd E1 E2 E3|i d Hd E1 E2 E3|i d Hd E1 E2 E3]; subst a; try reflexivity.
  pose proof (decl_const d (nth_error_In _ _ Hd)) as Hc. unfold const_pay'. cbn [y_info y_op y_th].
  destruct (is_constb_cases _ Hc) as [E|[E|[E|[E|[E|[E|E]]]]]]; rewrite E; reflexivity.
Qed.

(** fuel for the walks *)
Lemma f0_kids_bound (t : T) g pl : Rep t g pl -> Sh 0 g pl -> forall y, (length (kids g y) <= 5 + n)%nat.
Proof.
  intros H S0 y. destruct (pget pl y) as [a|] eqn:Hy.
  - destruct (f0_nodes _ _ _ H S0 y a Hy) as [E1 E2 E3|nm E1 E2 E3|i d Hd E1 E2 E3|i d Hd E1 E2 E3|i d Hd E1 E2 E3]; rewrite E3; cbn [length]; try lia.
    rewrite app_length. unfold names_from. rewrite map_length, seq_length. cbn [D0 length]. lia.
  - rewrite kids_oob; [cbn; lia|]. rewrite (rep_len_g _ _ _ H). unfold pget in Hy. apply nth_error_None in Hy. lia.
Qed.

Lemma f0_deep (t : T) g pl : Rep t g pl -> Sh 0 g pl -> deep g 3 0.
Proof.
  intros H S0. pose proof S0 as S0'. destruct S0' as [A1 A2 A3 A4 A5 A6 A7 A8 A9].
  cbn [deep]. intros c Hc c' Hc'. rewrite A2 in Hc. unfold inter_rng in Hc. cbn [seq flat_map app] in Hc.
  apply in_app_or in Hc. destruct Hc as [Hc|Hc].
  - rewrite (A5 c Hc) in Hc'. contradiction.
  - unfold names_from in Hc. apply in_map_iff in Hc. destruct Hc as (i & <- & Hi). apply in_seq in Hi.
    rewrite (A3 i ltac:(fold n; lia)) in Hc'. cbn [Nat.ltb Nat.leb] in Hc'.
    destruct (A4 i ltac:(fold n; lia)) as (B1 & B2).
    intros c'' Hc''. destruct Hc' as [ <- | [ <- | [] ] ]; [rewrite B1 in Hc''|rewrite B2 in Hc'']; contradiction.
Qed.
End Final.

(** ---- connectNamedObjArgs: the children that were there before ---- *)
Lemma conn_leaves : forall D1 f obj D2 s g pl (Q : pres -> pstate -> Prop),
  Rep (p_tree s) g pl -> kids g obj = D1 ++ D2 ->
  (forall d, In d D1 -> kids g d = [] /\ exists a row, pget pl d = Some a /\ y_op a <> opFreed /\ opInfo (y_info a) = Some row) ->
  Q ROk s ->
  wp False (connectNamed_loop (length D1 + S (S f)) obj (last D1 InvalidIndex)) s Q.
Proof.
  induction D1 as [|x D1 IH] using rev_ind; intros f obj D2 s g pl Q H Hk Hall K.
  - cbn [length last Nat.add]. rewrite connectNamed_loop_S, N.eqb_refl. apply wp_ret. exact K.
  - rewrite app_length. cbn [length]. replace (length D1 + 1 + S (S f))%nat with (S (S (S (length D1 + f))))%nat by lia.
    rewrite last_app_one. destruct (Hall x) as (Hkx & a & row & Ha & Hl & Hrow); [apply in_or_app; right; left; reflexivity|].
    rewrite <- app_assoc in Hk. cbn [app] in Hk.
    eapply (CNloop_leaf _ obj x D1 D2 a row); [exact H|exact Hk|exact Ha|exact Hl|exact Hkx|exact Hrow|].
    replace (S (S (length D1 + f)))%nat with (length D1 + S (S f))%nat by lia.
    eapply IH; [exact H|exact Hk| |exact K]. intros d Hd. apply Hall. apply in_or_app. left. exact Hd.
Qed.

Lemma bindM_assoc {A B C} (m : M A) (f : A -> M B) (k : B -> M C) s :
  bindM (bindM m f) k s = bindM m (fun a => bindM (f a) k) s.
Proof. unfold bindM. destruct (m s) as [[a s1]| |]; reflexivity. Qed.

Lemma wp_assoc {A B C} P (m : M A) (f : A -> M B) (k : B -> M C) s Q :
  wp P (bindM (bindM m f) k) s Q -> wp P (bindM m (fun a => bindM (f a) k)) s Q.
Proof. unfold wp. rewrite bindM_assoc. auto. Qed.

Lemma resolve_loop_S f wf : resolve_loop (S f) wf =
  (mlet mergeRes <~ mergeScopeDirectives wf 0 ;;
   if pres_eqb mergeRes RFailed then ret RFailed else
   mlet relocateRes <~ relocateNamedObjects wf 0 ;;
   if pres_eqb relocateRes RFailed then ret RFailed else
   if pres_eqb mergeRes ROk && pres_eqb relocateRes ROk then ret ROk else
   (fun s => Ok (tt, with_counters s (w32 (p_resolvePasses s + 1)) (p_mergedScopes s) (p_relocatedObjects s))) ;;;
   resolve_loop f wf).
Proof. reflexivity. Qed.

Lemma kids_g0c i : i <> 0 -> kids g0c i = [].
Proof.
  intros Hi. unfold kids, g0c. cbn [g_kids]. destruct (N.to_nat i) as [|[|[|[|[|[|k]]]]]] eqn:E; try reflexivity; [lia|].
  destruct k; reflexivity.
Qed.

(** ---- connectNamedObjArgs on the whole tree ---- *)
Lemma pass2_f0 ds fuel s g pl : forallb decl_okb ds = true ->
  Rep (p_tree s) g pl -> Sh ds (length ds) g pl -> p_handle s = 1 -> TB ds 0 aml_sizeofSDTHeader s ->
  (2 * length ds + 13 <= fuel)%nat ->
  wp False (connectNamedObjArgs fuel 0) s (fun r s' => r = ROk /\ exists t' g' pl',
    s' = with_tree s t' /\ Rep t' g' pl' /\ Sh ds 0 g' pl').
Proof.
  intros Hok H1 S1 Hh Htb Hfuel. set (n := length ds) in *.
  destruct fuel as [|F]; [lia|]. rewrite connectNamedObjArgs_S.
  assert (Hp0 : pget pl 0 = Some (scope_pay 0 [92; 0; 0; 0])).
  { rewrite (sh_old _ _ _ _ _ _ _ _ _ _ S1 0 ltac:(reflexivity)). reflexivity. }
  apply wp_bind. eapply wp_objectAt_rep; [exact H1|exact Hp0|discriminate|].
  apply wp_bind. eapply wp_rdf_rep; [exact H1|exact Hp0|discriminate|]. intros o0 _ _ _ Hlast. rewrite Hlast.
  rewrite (sh_root _ _ _ _ _ _ _ _ _ _ S1). fold n. rewrite Nat.sub_diag. unfold names_from at 1. cbn [seq map]. rewrite app_nil_r.
  replace F with (2 * n + S (S (S (S (F - 2 * n - 4)))))%nat by lia.
  eapply (conn_names 6 D0 pl0c ds 1 0 aml_sizeofSDTHeader ltac:(reflexivity) ltac:(reflexivity) _ ltac:(reflexivity) ltac:(discriminate) D0_facts Hok n);
    [unfold n; lia|exact H1|exact S1|exact Hh|exact Htb|].
  intros t2 g2 pl2 H2 S2.
  replace (S (S (S (S (F - 2 * n - 4)))))%nat with (length D0 + S (S (F - 2 * n - 7)))%nat by (cbn [D0 length]; lia).
  pose proof S2 as S2'. destruct S2' as [A1 A2 A3 A4 A5 A6 A7 A8 A9].
  eapply (conn_leaves D0 _ 0 (names_from 6 0 n) _ g2 pl2); [exact H2| | |].
  { rewrite A2. unfold inter_rng. cbn [seq flat_map app]. rewrite Nat.sub_0_r. reflexivity. }
  { intros d Hd. split; [apply A5; exact Hd|]. destruct (D0_facts d Hd) as (Hlt & _ & a & row & Ha & Hl & Hrow).
    exists a, row. split; [rewrite (A6 d Hlt); exact Ha|auto]. }
  split; [reflexivity|]. exists t2, g2, pl2. auto.
Qed.

(** ---- the remaining passes leave the tree alone ---- *)
Definition rest_passes (fuel : nat) : M bool :=
  (fun s => Ok (tt, with_counters s 1 (p_mergedScopes s) (p_relocatedObjects s))) ;;;
  mlet r3 <~ resolve_loop fuel fuel ;;
  if negb (pres_eqb r3 ROk) then ret false else
  mlet r4 <~ parseDeferredBlocks fuel fuel 0 ;;
  if negb (pres_eqb r4 ROk) then ret false else
  mlet r5 <~ resolveMethodCalls fuel 0 ;;
  if negb (pres_eqb r5 ROk) then ret false else
  mlet r6 <~ connectNonNamedObjArgs fuel 0 ;;
  if negb (pres_eqb r6 ROk) then ret false else
  ret true.

Lemma rest_f0 ds fuel s g pl : forallb decl_okb ds = true ->
  Rep (p_tree s) g pl -> Sh ds 0 g pl -> p_handle s = 1 -> p_mergedScopes s = 0 -> p_relocatedObjects s = 0 ->
  (3 * (7 + length ds) + 1 <= fuel)%nat ->
  wp False (rest_passes fuel) s (fun b s' => b = true /\ p_tree s' = p_tree s /\ p_tables s' = p_tables s).
Proof.
  intros Hok H2 S2 Hh Hm Hr Hfuel. set (n := length ds) in *. unfold rest_passes.
  apply wp_bind. unfold wp at 1.
  set (s3 := with_counters s 1 (p_mergedScopes s) (p_relocatedObjects s)).
  assert (H3 : Rep (p_tree s3) g pl) by exact H2.
  assert (Hp0' : pget pl 0 = Some (scope_pay 0 [92; 0; 0; 0])).
  { rewrite (sh_old _ _ _ _ _ _ _ _ _ _ S2 0 ltac:(reflexivity)). reflexivity. }
  assert (HB : forall y, (length (kids g y) <= 5 + n)%nat) by (apply (f0_kids_bound ds (p_tree s) g pl H2 S2)).
  assert (Hdeep : deep g 3 0) by (apply (f0_deep ds (p_tree s) g pl H2 S2)).
  assert (Hfw : fwalk g fuel 0) by (apply (fwalk_deep g (5 + n) HB 3 0 fuel Hdeep); lia).
  assert (Hfwb : fwalkb g fuel 0) by (apply (fwalkb_deep g (5 + n) HB 3 0 fuel Hdeep); lia).
  destruct fuel as [|F]; [lia|].
  apply wp_bind. rewrite resolve_loop_S.
  apply wp_bind. eapply wp_conseq.
  { apply (proj1 (merge_all g pl 1 (f0_merge_ok ds Hok (p_tree s) g pl H2 S2) (S F)) 0 _ s3 H3 Hh Hm Hp0' ltac:(discriminate) Hfw). }
  intros r s' (-> & ->). change (pres_eqb ROk RFailed) with false. cbv iota.
  apply wp_bind. eapply wp_conseq.
  { apply (proj1 (reloc_all g pl 1 (f0_reloc_ok ds Hok (p_tree s) g pl H2 S2) (S F)) 0 _ s3 H3 Hh Hr Hp0' ltac:(discriminate) Hfw). }
  intros r s' (-> & ->). change (pres_eqb ROk RFailed) with false. change (pres_eqb ROk ROk && pres_eqb ROk ROk) with true. cbv iota.
  apply wp_ret. change (negb (pres_eqb ROk ROk)) with false. cbv iota.
  apply wp_bind. eapply wp_conseq.
  { apply (proj1 (defer_all g pl 1 (f0_defer_ok ds Hok (p_tree s) g pl H2 S2) (S F)) (S F) 0 _ s3 H3 Hh Hp0' ltac:(discriminate) Hfw). }
  intros r s' (-> & ->). change (negb (pres_eqb ROk ROk)) with false. cbv iota.
  apply wp_bind. eapply wp_conseq.
  { apply (proj1 (calls_all g pl 1 (f0_calls_ok ds Hok (p_tree s) g pl H2 S2) (S F)) 0 _ s3 H3 Hh Hp0' ltac:(discriminate) Hfwb). }
  intros r s' (-> & ->). change (negb (pres_eqb ROk ROk)) with false. cbv iota.
  apply wp_bind. eapply wp_conseq.
  { apply (proj1 (nonnamed_all g pl 1 (f0_nonnamed_ok ds Hok (p_tree s) g pl H2 S2) (S F)) 0 _ s3 H3 Hh Hp0' ltac:(discriminate) Hfwb). }
  intros r s' (-> & ->). change (negb (pres_eqb ROk ROk)) with false. cbv iota.
  apply wp_ret. split; [reflexivity|]. split; reflexivity.
Qed.

(** ---- ParseAML ---- *)
Lemma parseAML_body_eq fuel s : parseAML_body fuel s =
  (mlet r1 <~ first_pass fuel ;;
   if pres_eqb r1 RFailed then ret false else
   mlet r2 <~ connectNamedObjArgs fuel 0 ;;
   if negb (pres_eqb r2 ROk) then ret false else rest_passes fuel) s.
Proof. unfold parseAML_body, first_pass. rewrite bindM_assoc. reflexivity. Qed.

Theorem parse_f0 ds t0 :
  forallb decl_okb ds = true -> lenN (enc_decls ds) < 0x10000000 -> Rep t0 g0c pl0c ->
  exists s' gF plF,
    parseAML t0 [] 1 (table_image (enc_decls ds)) = Ok (true, s') /\
    Rep (p_tree s') gF plF /\ Sh ds 0 gF plF /\ p_tables s' = [table_image (enc_decls ds)].
Proof.
  intros Hok Hsz H0.
  set (n := length ds).
  pose proof (enc_decls_len ds) as Hlen6.
  rewrite table_image_hdr. set (hdr := hdr_of (enc_decls ds)). set (data := hdr ++ enc_decls ds).
  assert (Hhdr : lenN hdr = aml_sizeofSDTHeader) by reflexivity.
  assert (HlenD : lenN data = aml_sizeofSDTHeader + lenN (enc_decls ds)) by (unfold data; rewrite lenN_app, Hhdr; reflexivity).
  assert (Hpool : length (t_pool t0) = 6%nat) by (rewrite <- (rep_len_pool _ _ _ H0); reflexivity).
  unfold parseAML. rewrite Hpool.
  set (fuel := parse_fuel (length data + 6)).
  assert (Hfuel : (400 + 48 * n <= fuel)%nat).
  { unfold fuel, parse_fuel. unfold lenN in *. change aml_sizeofSDTHeader with 36 in HlenD. fold n in Hlen6. lia. }
  clearbody fuel.
  assert (Hgoal : wp False (parseAML_body fuel) (init_state t0 [] 1 data) (fun b s' => b = true /\
            exists gF plF, Rep (p_tree s') gF plF /\ Sh ds 0 gF plF /\ p_tables s' = [data])).
  2:{ destruct (wp_run _ _ _ Hgoal) as (b & s' & E & -> & gF & plF & A & B & C). exists s', gF, plF. auto. }
  unfold wp. rewrite parseAML_body_eq.
  match goal with |- match ?m ?s with _ => _ end => change (wp False m s (fun b s' => b = true /\
            exists gF plF, Rep (p_tree s') gF plF /\ Sh ds 0 gF plF /\ p_tables s' = [data])) end.
  (* the first pass *)
  apply wp_bind. eapply wp_conseq.
  { eapply (first_f0 ds fuel t0 g0c pl0c [] 1 hdr (scope_pay 0 [92; 0; 0; 0])); [exact Hhdr| | |exact H0|reflexivity| |reflexivity|discriminate|exact Hok|lia].
    - apply Forall_app. split; [apply hdr_bytes|apply enc_decls_bytes; exact Hok].
    - fold data. rewrite HlenD. unfold two32. change aml_sizeofSDTHeader with 36. lia.
    - cbn [pl0c map length tree_defaultScopeNames]. change InvalidIndex with 0xffffffff. fold n in Hlen6. unfold lenN in *. lia. }
  intros res s1 (-> & t1 & -> & H1). fold data in H1 |- *.
  change (pres_eqb ROk RFailed) with false. cbv iota.
  change (N.of_nat (length ([] ++ [data])) - 1) with 0 in H1.
  set (g1 := g_decls g0c 0 ds) in *. set (pl1 := pl0c ++ pl_decls 1 0 aml_sizeofSDTHeader ds) in *.
  assert (S1 : Sh ds n g1 pl1).
  { unfold Sh, g1, pl1, n.
    apply (shape_first 6 D0 pl0c ds 1 0 aml_sizeofSDTHeader ltac:(reflexivity) ltac:(reflexivity) (scope_pay 0 [92; 0; 0; 0]) ltac:(discriminate) D0_facts g0c);
      [reflexivity|reflexivity| |reflexivity].
    intros i Hi. apply kids_g0c. exact Hi. }
  set (s1 := after_first t1 [] 1 data).
  assert (Htb : TB ds 0 aml_sizeofSDTHeader s1).
  { intros i d Hd. unfold off. rewrite <- Hhdr. apply (slice_seg s1 hdr ds i d); [reflexivity|exact Hd]. }
  (* connectNamedObjArgs *)
  apply wp_bind. eapply wp_conseq.
  { apply (pass2_f0 ds fuel s1 g1 pl1 Hok H1 S1 eq_refl Htb). fold n. lia. }
  intros r s2 (-> & t2 & g2 & pl2 & -> & H2 & S2).
  change (negb (pres_eqb ROk ROk)) with false. cbv iota.
  (* the remaining passes *)
  eapply wp_conseq.
  { apply (rest_f0 ds fuel (with_tree s1 t2) g2 pl2 Hok H2 S2 eq_refl eq_refl eq_refl). fold n. lia. }
  intros b s3 (-> & Et & Etb). split; [reflexivity|]. exists g2, pl2. rewrite Et, Etb. split; [exact H2|]. split; [exact S2|reflexivity].
Qed.
