(** The top-level statement of the whole-parser invariant (split off Aml/ParserProofs.v). *)
From Coq Require Import NArith ZArith List Bool Lia.
From FF Require Import Lib.Word Gen.Consts_device_acpi_aml Aml.Stream Aml.Lex Aml.LexProofs Aml.Tree Aml.Parser Aml.ParserProofs.
Import ListNotations.
Local Open Scope N_scope.

Definition payload_ok (p : list N) : Prop := Forall (fun b => b < 256) p /\ N.of_nat (length p) + 2048 <= two32.

(** [load] with the default-scope tree abstracted: no evaluation of the closed term *)
Lemma load_with (o : outcome (ObjectTree value)) payloads class t imgs :
  (forall t0, o = Ok t0 -> pool_ok [] t0) ->
  Forall payload_ok payloads ->
  match o with
  | Ok t0 => load_tables t0 [] 1 payloads
  | Panic => (2, NewObjectTree, [])
  | OutOfFuel => (3, NewObjectTree, [])
  end = (class, t, imgs) ->
  class = 0 \/ class = 1 -> pool_ok imgs t.
Proof.
  intros Hd Hall E Hc. destruct o as [t0| |].
  - eapply load_tables_ok; eauto.
  - inversion E; subst. destruct Hc; discriminate.
  - inversion E; subst. destruct Hc; discriminate.
Qed.

Local Opaque CreateDefaultScopes.

(** C12, the stray-pointer part of parse_total for ALL passes: whatever byte strings are loaded, if the parser
    returns (success or its parse error), every []byte in the pool lies inside the image of its table *)
Theorem parse_slices_inside : forall payloads class t imgs,
  Forall payload_ok payloads ->
  load payloads = (class, t, imgs) -> class = 0 \/ class = 1 -> pool_ok imgs t.
Proof.
  intros payloads class t imgs Hall E Hc.
  exact (load_with (CreateDefaultScopes (@NewObjectTree value) 0) payloads class t imgs
                   (fun t0 H => CreateDefaultScopes_ok [] 0 t0 H) Hall E Hc).
Qed.
