(** C12 (stretch): the first pass of ParseAML (parseObjectList and everything below it, in
    parseModeSkipAmbiguousBlocks) never panics, keeps C13's tree relation, and does not run out of fuel
    that is linear in the number of bytes left. *)
From Coq Require Import NArith Arith List Bool Lia.
From Coq Require Import ZifyBool ZifyN ZifyNat.
From FF Require Import Lib.Word Gen.Consts_device_acpi_aml Gen.Consts_aml_tree Aml.Stream Aml.Lex Aml.LexProofs
  Aml.Tree Aml.TreeSpec Aml.TreeProofs Aml.TreeProofsOps Aml.Parser
  Aml.ParserTotalTree Aml.ParserTotalLex Aml.ParserTotalTable Aml.ParserTotalBase Aml.ParserTotalLeaf.
Import ListNotations.
Local Open Scope N_scope.

Definition has_parent (g : ghost) (x : N) : Prop := exists par, In x (kids g par).

Definition LastNum (s : pstate) (curObj : N) : Prop :=
  exists co lo v, tget (p_tree s) curObj = Some co /\ tget (p_tree s) (o_last co) = Some lo /\
                  o_opcode lo <> opFreed /\ o_value lo = Some (VNum v).

Definition fresh_root (g g' : ghost) (a : option N) : Prop :=
  match a with Some obj => ~ glive g obj /\ glive g' obj /\ groot g' obj | None => True end.

Definition room (s : pstate) : Prop := Phi s + 4 <= InvalidIndex.

Definition has_fl (af : N) : Prop := exists k, k < 8 /\ argType af k = aml_pArgTypeFieldList.

(** ---- the specifications ---- *)

(** the scope stack grew by at most [o] more entries than the pkgEnd stack *)
Definition slack (s s' : pstate) (o : nat) : Prop :=
  (length (p_scopeStack s') + length (p_pkgEndStack s) <= length (p_scopeStack s) + length (p_pkgEndStack s') + o)%nat.

(** the opcode-table row [ii] belongs to an opcode that nextOpcode accepts *)
Definition ext_idx (ii : N) : Prop :=
  exists op, op <= 0x1fe /\ opcodeTableIndex op false = Some ii /\ ii <> aml_badOpcode.

Definition S_name (fuel : nat) : Prop := forall s g,
  FI s g -> p_scopeStack s <> [] -> room s ->
  spec (N.of_nat fuel < 1) (parseNamePathOrMethodCall fuel) s g (fun res s' _ =>
    Phi s' <= Phi s + 2 /\ (res = ROk -> Phi s' <= Phi s /\ r_offset (p_r s) < r_offset (p_r s')) /\ slack s s' 0).

Definition S_next (fuel : nat) : Prop := forall s g,
  FI s g -> p_scopeStack s <> [] -> room s ->
  spec (N.of_nat fuel < 8 * rem s + 2) (parseNextObject fuel) s g (fun res s' _ =>
    Phi s' <= Phi s + 2 /\ (res = ROk -> Phi s' <= Phi s /\ r_offset (p_r s) < r_offset (p_r s')) /\ slack s s' 0).

Definition S_objargs (fuel : nat) : Prop := forall curObj s g,
  FI s g -> glive g curObj -> room s ->
  (forall co op fl af, tget (p_tree s) curObj = Some co -> opInfo (o_infoIndex co) = Some (op, fl, af) ->
                       has_fl af -> has_parent g curObj) ->
  (forall co, tget (p_tree s) curObj = Some co -> ext_idx (o_infoIndex co)) ->
  spec (N.of_nat fuel < 8 * rem s + 4) (parseObjectArgs fuel curObj) s g (fun res s' _ =>
    Phi s' <= Phi s + 2 /\ (res = ROk -> Phi s' <= Phi s + 1) /\ res <> RShort /\ slack s s' 0).

Definition shielded (af argIndex : N) : Prop :=
  forall j, argIndex <= j -> j < 8 -> argType af j = aml_pArgTypeByteList ->
    exists j', argIndex <= j' /\ j' < j /\ (argType af j' = aml_pArgTypeTermArg \/ argType af j' = aml_pArgTypeDataRefObj).

Definition S_args (fuel : nat) : Prop := forall ii op fl af curObj argIndex s g,
  FI s g -> glive g curObj -> room s -> opInfo ii = Some (op, fl, af) -> argIndex <= 8 ->
  (has_fl af -> has_parent g curObj) ->
  (argIndex < 8 -> argType af argIndex = aml_pArgTypeFieldList -> LastNum s curObj) ->
  shielded af argIndex ->
  spec (N.of_nat fuel < 8 * rem s + 3) (parseArgs fuel (op, fl, af) curObj argIndex) s g (fun res s' _ =>
    Phi s' <= Phi s + 2 /\ (res = ROk -> Phi s' <= Phi s) /\ (res = RShort -> Phi s' <= Phi s + 1) /\
    slack s s' (if oweb af argIndex then 1 else 0)).

(** the argument types at which the first pass stops reading the arguments of an object *)
Definition res_short (argTy : N) : Prop :=
  argTy = aml_pArgTypeTermArg \/ argTy = aml_pArgTypeDataRefObj \/ argTy = aml_pArgTypeTermList.

Definition S_arg (fuel : nat) : Prop := forall op fl af curObj argTy s g,
  FI s g -> glive g curObj -> room s -> argTy <> aml_pArgTypeByteList ->
  (argTy = aml_pArgTypeFieldList -> has_parent g curObj /\ LastNum s curObj) ->
  spec (N.of_nat fuel < 8 * rem s + 2) (parseArg fuel (op, fl, af) curObj argTy) s g (fun '(a, res) s' g' =>
    Phi s' <= Phi s + 2 /\ (res = ROk -> Phi s' <= Phi s /\ r_offset (p_r s) < r_offset (p_r s')) /\
    (res = RShort -> Phi s' <= Phi s + 1) /\
    fresh_root g g' a /\
    (res_short argTy -> res = RShort) /\
    (argTy = aml_pArgTypeByteData ->
       exists obj po v, a = Some obj /\ tget (p_tree s') obj = Some po /\ o_value po = Some (VNum v)) /\
    slack s s' (if argTy =? aml_pArgTypeTermList then 1 else 0) /\
    (argTy = aml_pArgTypePkgLen -> res = ROk ->
       (length (p_scopeStack s') + length (p_pkgEndStack s) + 1 <= length (p_scopeStack s) + length (p_pkgEndStack s'))%nat)).

Definition S_target (fuel : nat) : Prop := forall s g,
  FI s g -> room s ->
  spec (N.of_nat fuel < 8 * rem s + 1) (parseTarget fuel) s g (fun '(a, res) s' g' =>
    Phi s' <= Phi s + 2 /\ (res = ROk -> Phi s' <= Phi s /\ r_offset (p_r s) < r_offset (p_r s')) /\
    fresh_root g g' a /\ res <> RShort /\ slack s s' 0).

(** ---- helpers ---- *)
Lemma at_Ext_FI s g s' g' k c :
  Ext s g s' g' -> FI s' g' -> lp s' <= lp s + c -> r_offset (p_r s) + k <= r_offset (p_r s') ->
  Phi s' + 4 * k <= Phi s + c.
Proof.
  intros [_ L O _] H Hlp Hk. pose proof (fi_rok _ _ H) as (_ & _ & O'). unfold Phi, rem. lia.
Qed.

Lemma Ext_rem s g s' g' : Ext s g s' g' -> FI s' g' -> rem s' <= rem s.
Proof. intros [_ L O _] H. unfold rem. lia. Qed.

Lemma room_lp s : room s -> lp s + 3 < InvalidIndex.
Proof. unfold room, Phi. lia. Qed.

(** the final step of most proofs: from an [at_] fact to the postcondition shape *)
Lemma fin_at s g s' g' k c : FI s' g' -> at_ s s' k c -> gext g g' ->
  FI s' g' /\ Ext s g s' g' /\ Phi s' + 4 * k <= Phi s + c.
Proof.
  intros H A G. split; auto. split; [eapply at_Ext; eauto|]. apply (at_Phi _ _ _ _ A).
Qed.

Lemma slack_at s s' k c : at_ s s' k c -> slack s s' 0.
Proof. intros (_ & _ & _ & _ & A5 & A6). unfold slack. rewrite A5, A6. lia. Qed.

Lemma slack_refl s : slack s s 0.
Proof. unfold slack. lia. Qed.

Lemma slack_trans a b c o1 o2 : slack a b o1 -> slack b c o2 -> slack a c (o1 + o2).
Proof. unfold slack. lia. Qed.

Lemma slack_weaken a b o o' : slack a b o -> (o <= o')%nat -> slack a b o'.
Proof. unfold slack. lia. Qed.

Lemma scope_top s g : FI s g -> p_scopeStack s <> [] ->
  exists top rest, p_scopeStack s = top :: rest /\ glive g top.
Proof.
  intros H Hne. destruct (p_scopeStack s) as [|top rest] eqn:E; [contradiction|].
  exists top, rest. split; auto. pose proof (fi_scopes _ _ H) as F. rewrite E in F. inversion F; auto.
Qed.

(** ---- parseNamePathOrMethodCall (skip mode) ---- *)
Lemma step_name fuel : S_name (S fuel).
Proof.
  intros s g H Hst Hroom. unfold spec. cbn [parseNamePathOrMethodCall].
  pose proof (fi_rok _ _ H) as Hrok. pose proof (room_lp _ Hroom) as Hlp.
  destruct (scope_top _ _ H Hst) as (top & rest & Est & Htop).
  apply wp_bind, wp_get. apply wp_bind, wp_get.
  apply wp_bind. apply wp_namestring; auto. intros v ok r1 Hadv Hok.
  assert (H1 : FI (with_r s r1) g) by (apply FI_adv; auto).
  assert (A1 : at_ s (with_r s r1) 0 0) by (apply at_adv0; [apply at_refl; auto|exact Hadv]).
  destruct ok; cbn [negb].
  2:{ apply wp_ret. exists g. destruct (fin_at s g _ g 0 0 H1 A1 (gext_refl g)) as (F1 & F2 & F3).
      split; auto. split; auto. split; [lia|]. split; [discriminate|apply (slack_at _ _ _ _ A1)]. }
  specialize (Hok eq_refl).
  assert (A1' : at_ s (with_r s r1) 1 0).
  { eapply at_r; [apply at_refl; auto|destruct Hadv as ((_ & E & _) & _); exact E|lia|destruct Hadv as (_ & _ & L); exact L]. }
  apply wp_bind, wp_get. rewrite (fi_skip _ _ H1). cbn [negb].
  apply wp_bind. eapply new_step; [exact H1|apply (newokb_sound aml_pOpIntNamePathOrMethodCall eq_refl)| |].
  { unfold lp in *. pcbn. lia. }
  intros p t2 g2 po H2 Hext2 Hfresh2 Hlive2 Hroot2 Hkids2 Hpo _ _ _ Hl2 _.
  set (s2 := with_tree (with_r s r1) t2) in *.
  assert (A2 : at_ s s2 1 1) by (eapply at_new'; [exact A1'|exact Hl2|reflexivity]).
  wwrf H2 Hlive2. intros o3 Hg3 Hlo3 H3.
  wwrf H3 Hlive2. intros o4 Hg4 Hlo4 H4.
  match type of H4 with FI ?st _ => set (s4 := st) in * end.
  assert (A4 : at_ s s4 1 1) by (apply at_tset; apply at_tset; exact A2).
  assert (Est4 : p_scopeStack s4 = top :: rest) by exact Est.
  apply wp_bind. eapply wp_scopeCurrent; [exact Est4|].
  rewrite (FI_ObjectAt _ _ _ H4 (ge_live _ _ Hext2 _ Htop)).
  apply wp_bind. eapply (append_step _ top p s4 g2 g);
    [exact H4|apply (R_gwf _ _ (fi_R _ _ H))|exact Hext2|exact Htop|exact Hfresh2|exact Hlive2|exact Hroot2|].
  intros t5 H5 Hext5 Hpf5 _ _.
  apply wp_ret. exists (astep g2 (OpAppend top p)).
  destruct (fin_at s g _ _ 1 1 H5 (at_pframe _ _ _ _ _ A4 Hpf5) Hext5) as (F1 & F2 & F3).
  split; auto. split; auto. split; [lia|]. split; [intros _; split; [lia|exact Hok]|].
  apply (slack_at _ _ _ _ (at_pframe _ _ _ _ _ A4 Hpf5)).
Qed.

(** ---- parseTarget ---- *)
Lemma step_target fuel : S_objargs fuel -> S_target (S fuel).
Proof.
  intros IHo s g H Hroom. unfold spec. cbn [parseTarget].
  pose proof (fi_rok _ _ H) as Hrok. pose proof (room_lp _ Hroom) as Hlp.
  apply wp_bind, wp_get.
  apply wp_bind. apply wp_nextop; auto. intros nextOp ok r1 Hadv Hok Hnok.
  assert (H1 : FI (with_r s r1) g) by (apply FI_adv; auto).
  destruct ok.
  - destruct (Hok eq_refl) as (Hlt & Hop & idx & Hidx & Hbad). clear Hok Hnok.
    assert (A1 : at_ s (with_r s r1) 1 0).
    { eapply at_r; [apply at_refl; auto|destruct Hadv as ((_ & E & _) & _); exact E|lia|destruct Hadv as (_ & _ & L); exact L]. }
    destruct (nextOp =? aml_pOpZero).
    { apply wp_ret. exists g. destruct (fin_at s g _ g 1 0 H1 A1 (gext_refl g)) as (F1 & F2 & F3).
      split; auto. split; auto. split; [lia|]. split; [intros _; split; [lia|exact Hlt]|]. split; [exact I|].
      split; [discriminate|apply (slack_at _ _ _ _ A1)]. }
    change (isArg nextOp || (nextOp =? aml_pOpRefOf) || (nextOp =? aml_pOpDerefOf) || (nextOp =? aml_pOpIndex) || (nextOp =? aml_pOpDebug))
      with (target_cond nextOp).
    destruct (target_cond nextOp) eqn:Etc.
    2:{ apply wp_ret. exists g. destruct (fin_at s g _ g 1 0 H1 A1 (gext_refl g)) as (F1 & F2 & F3).
        split; auto. split; auto. split; [lia|]. split; [discriminate|]. split; [exact I|].
        split; [discriminate|apply (slack_at _ _ _ _ A1)]. }
    destruct (valid_op _ _ Hop Hidx Hbad) as (Hnk & Hidx').
    apply wp_bind. eapply new_step; [exact H1|exact Hnk| |].
    { unfold lp in *. pcbn. lia. }
    intros p t2 g2 po H2 Hext2 Hfresh2 Hlive2 Hroot2 Hkids2 Hpo Hpop Hpval Hpidx Hl2 _.
    set (s2 := with_tree (with_r s r1) t2) in *.
    assert (A2 : at_ s s2 1 1) by (eapply at_new'; [exact A1|exact Hl2|reflexivity]).
    wwrf H2 Hlive2. intros o3 Hg3 Hlo3 H3.
    match type of H3 with FI ?st _ => set (s3 := st) in * end.
    assert (A3 : at_ s s3 1 1) by (apply at_tset; exact A2).
    destruct (at_Phi _ _ _ _ A3) as (P3 & R3).
    apply wp_bind. eapply wp_weaken; [apply (IHo p s3 g2 H3 Hlive2)| |].
    + unfold room in *. lia.
    + intros co op' fl af Hco Hinfo (k & Hk & Hfl). exfalso.
      unfold s3, s2 in Hco. pcbn_in Hco. rewrite get_tset, N.eqb_refl in Hco.
      assert (Hg3' : tget t2 p = Some o3) by exact Hg3. rewrite Hg3' in Hco. cbn [option_map] in Hco.
      inversion Hco; subst co. cbn [o_infoIndex set_amlOffset] in Hinfo.
      assert (o3 = po) by congruence. subst o3.
      rewrite Hidx' in Hpidx. inversion Hpidx as [Hii].
      eapply (target_no_fieldlist nextOp idx op' fl af k); eauto. rewrite Hii. exact Hinfo.
    + intros co Hco. unfold s3, s2 in Hco. pcbn_in Hco. rewrite get_tset, N.eqb_refl in Hco.
      assert (Hg3' : tget t2 p = Some o3) by exact Hg3. rewrite Hg3' in Hco. cbn [option_map] in Hco.
      inversion Hco; subst co. cbn [o_infoIndex set_amlOffset].
      assert (o3 = po) by congruence. subst o3.
      rewrite Hidx' in Hpidx. inversion Hpidx as [Hii]. rewrite <- Hii. exists nextOp. auto.
    + intros Hf. lia.
    + intros res s' (g' & F1 & F2 & F3 & F4 & F5 & F6).
      apply wp_ret. exists g'. split; auto. split; [eapply Ext_trans; [eapply at_Ext; [exact A3|exact Hext2]|exact F2]|].
      split; [lia|]. split.
      { intros Hr; specialize (F4 Hr). split; [lia|]. pose proof (ex_off _ _ _ _ F2) as Ho. destruct A3 as (_ & Ao & _). lia. }
      split; [|split; [exact F5|]].
      * cbn [fresh_root]. split; [exact Hfresh2|]. split; [apply (ge_live _ _ (ex_g _ _ _ _ F2)); exact Hlive2|].
        eapply groot_ext; [apply (ex_g _ _ _ _ F2)|exact Hlive2|exact Hroot2].
      * pose proof (slack_trans _ _ _ _ _ (slack_at _ _ _ _ A3) F6) as SL. exact SL.
  - destruct (Hnok eq_refl) as (Ho1 & _). clear Hok Hnok.
    apply wp_bind. apply wp_ru.
    destruct (rok_setOffset r1 (r_offset (p_r s)) (fi_rok _ _ H1)) as (Hrok2 & Hlen2).
    set (r2 := setOffset (p_r (with_r s r1)) (r_offset (p_r s))) in *.
    assert (Eo2 : r_offset r2 = r_offset (p_r s)).
    { unfold r2. apply setOffset_noclamp. pcbn. destruct Hadv as ((_ & E & _) & _). rewrite E. destruct Hrok as (_ & _ & O). exact O. }
    assert (H2 : FI (with_r (with_r s r1) r2) g) by (apply FI_with_r; auto).
    assert (A2 : at_ s (with_r (with_r s r1) r2) 0 0).
    { eapply at_r; [apply at_adv0; [apply at_refl; auto|exact Hadv]|exact Hlen2|lia|destruct Hrok2 as (_ & _ & O); exact O]. }
    apply wp_bind. eapply new_step; [exact H2|apply (newokb_sound aml_pOpIntNamePath eq_refl)| |].
    { unfold lp in *. pcbn. lia. }
    intros p t3 g3 po H3 Hext3 Hfresh3 Hlive3 Hroot3 Hkids3 Hpo _ _ _ Hl3 _.
    set (s3 := with_tree (with_r (with_r s r1) r2) t3) in *.
    assert (A3 : at_ s s3 0 1) by (eapply at_new'; [exact A2|exact Hl3|reflexivity]).
    wwrf H3 Hlive3. intros o4 Hg4 Hlo4 H4.
    match type of H4 with FI ?st _ => set (s4 := st) in * end.
    assert (A4 : at_ s s4 0 1) by (apply at_tset; exact A3).
    apply wp_bind, wp_get.
    apply wp_bind. apply wp_namestring; [apply (fi_rok _ _ H4)|]. intros v ok2 r5 Hadv5 Hok5.
    assert (H5 : FI (with_r s4 r5) g3) by (apply FI_adv; auto).
    wwrf H5 Hlive3. intros o6 Hg6 Hlo6 H6.
    match type of H6 with FI ?st _ => set (s6 := st) in * end.
    apply wp_ret. exists g3.
    destruct ok2.
    + specialize (Hok5 eq_refl).
      assert (A6 : at_ s s6 1 1).
      { apply at_tset. replace 1 with (0 + 1) at 1 by reflexivity. apply at_adv; [exact A4|exact Hadv5|lia]. }
      destruct (fin_at s g _ g3 1 1 H6 A6 Hext3) as (F1 & F2 & F3).
      split; auto. split; auto. split; [lia|]. split; [intros _; split; [lia|]|].
      { destruct A6 as (_ & Ao & _). lia. }
      cbn [fresh_root]. split; [auto|]. split; [discriminate|apply (slack_at _ _ _ _ A6)].
    + assert (A6 : at_ s s6 0 1) by (apply at_tset; apply at_adv0; [exact A4|exact Hadv5]).
      destruct (fin_at s g _ g3 0 1 H6 A6 Hext3) as (F1 & F2 & F3).
      split; auto. split; auto. split; [lia|]. split; [discriminate|]. cbn [fresh_root]. split; [auto|].
      split; [discriminate|apply (slack_at _ _ _ _ A6)].
Qed.

(** ---- parseNextObject ---- *)
Lemma step_next fuel : S_objargs fuel -> S_name fuel -> S_next (S fuel).
Proof.
  intros IHo IHn s g H Hst Hroom. unfold spec. cbn [parseNextObject].
  pose proof (fi_rok _ _ H) as Hrok. pose proof (room_lp _ Hroom) as Hlp.
  destruct (scope_top _ _ H Hst) as (top & rest & Est & Htop).
  apply wp_bind, wp_get.
  apply wp_bind. apply wp_nextop; auto. intros nextOp ok r1 Hadv Hok Hnok.
  assert (H1 : FI (with_r s r1) g) by (apply FI_adv; auto).
  destruct ok.
  - destruct (Hok eq_refl) as (Hlt & Hop & idx & Hidx & Hbad). clear Hok Hnok.
    assert (A1 : at_ s (with_r s r1) 1 0).
    { eapply at_r; [apply at_refl; auto|destruct Hadv as ((_ & E & _) & _); exact E|lia|destruct Hadv as (_ & _ & L); exact L]. }
    destruct (nextOp =? aml_pOpNoop).
    { apply wp_ret. exists g. destruct (fin_at s g _ g 1 0 H1 A1 (gext_refl g)) as (F1 & F2 & F3).
      split; auto. split; auto. split; [lia|]. split; [intros _; split; [lia|exact Hlt]|apply (slack_at _ _ _ _ A1)]. }
    cbn [negb].
    destruct (valid_op _ _ Hop Hidx Hbad) as (Hnk & Hidx').
    apply wp_bind. eapply new_step; [exact H1|exact Hnk| |].
    { unfold lp in *. pcbn. lia. }
    intros p t2 g2 po H2 Hext2 Hfresh2 Hlive2 Hroot2 Hkids2 Hpo Hpop Hpval Hpidx Hl2 _.
    set (s2 := with_tree (with_r s r1) t2) in *.
    assert (A2 : at_ s s2 1 1) by (eapply at_new'; [exact A1|exact Hl2|reflexivity]).
    wwrf H2 Hlive2. intros o3 Hg3 Hlo3 H3.
    match type of H3 with FI ?st _ => set (s3 := st) in * end.
    assert (A3 : at_ s s3 1 1) by (apply at_tset; exact A2).
    assert (Est3 : p_scopeStack s3 = top :: rest) by exact Est.
    apply wp_bind. eapply wp_scopeCurrent; [exact Est3|].
    rewrite (FI_ObjectAt _ _ _ H3 (ge_live _ _ Hext2 _ Htop)).
    apply wp_bind. eapply (append_step _ top p s3 g2 g);
      [exact H3|apply (R_gwf _ _ (fi_R _ _ H))|exact Hext2|exact Htop|exact Hfresh2|exact Hlive2|exact Hroot2|].
    intros t4 H4 Hext4 Hpf4 Hk4 _.
    set (g4 := astep g2 (OpAppend top p)) in *.
    set (s4 := with_tree s3 t4) in *.
    assert (A4 : at_ s s4 1 1) by (apply at_pframe; auto).
    destruct (at_Phi _ _ _ _ A4) as (P4 & R4).
    assert (Hlive4 : glive g4 p) by (apply glive_set_kids; exact Hlive2).
    eapply wp_weaken; [apply (IHo p s4 g4 H4 Hlive4)| |].
    + unfold room in *. lia.
    + intros _ _ _ _ _ _ _. exists top. rewrite Hk4. apply in_or_app. right. left. reflexivity.
    + intros co Hco. destruct (pframe_inv _ _ _ _ Hpf4 Hco) as (co3 & Hco3 & _ & Eii & _).
      unfold s3, s2 in Hco3. pcbn_in Hco3. rewrite get_tset, N.eqb_refl in Hco3.
      assert (Hg3' : tget t2 p = Some o3) by exact Hg3. rewrite Hg3' in Hco3. cbn [option_map] in Hco3.
      inversion Hco3; subst co3. cbn [o_infoIndex set_amlOffset] in Eii.
      assert (o3 = po) by congruence. subst o3.
      rewrite Hidx' in Hpidx. inversion Hpidx as [Hii]. rewrite Eii, <- Hii. exists nextOp. auto.
    + intros Hf. lia.
    + intros res s' (g' & F1 & F2 & F3 & F4 & _ & F6). exists g'. split; auto.
      split; [eapply Ext_trans; [eapply at_Ext; [exact A4|exact Hext4]|exact F2]|].
      split; [lia|]. split.
      * intros Hr. specialize (F4 Hr). split; [lia|].
        pose proof (ex_off _ _ _ _ F2) as Ho. destruct A4 as (_ & Ao & _). lia.
      * exact (slack_trans _ _ _ _ _ (slack_at _ _ _ _ A4) F6).
  - destruct (Hnok eq_refl) as (Ho1 & Hop). clear Hok Hnok. subst nextOp.
    change (0xffff =? aml_pOpNoop) with false. cbn [negb].
    assert (A1 : at_ s (with_r s r1) 0 0) by (apply at_adv0; [apply at_refl; auto|exact Hadv]).
    destruct (at_Phi _ _ _ _ A1) as (P1 & R1).
    eapply wp_weaken; [apply (IHn (with_r s r1) g H1)| |].
    + exact Hst.
    + unfold room in *. lia.
    + intros Hf. lia.
    + intros res s' (g' & F1 & F2 & F3 & F4 & F7). exists g'. split; auto.
      split; [eapply Ext_trans; [eapply at_Ext; [exact A1|apply gext_refl]|exact F2]|].
      split; [lia|]. split.
      * intros Hr. destruct (F4 Hr) as (F5 & F6). split; [lia|]. pcbn_in F6. lia.
      * exact (slack_trans _ _ _ _ _ (slack_at _ _ _ _ A1) F7).
Qed.

(** ---- parseObjectArgs ---- *)
Lemma objargs_num (P : Prop) curObj k s g :
  FI s g -> glive g curObj ->
  wp P (mlet '(v, ok) <~ lex (parseNumConstant k) ;; wrf curObj (set_value (Some (VNum v))) ;;; ret (pres_of_bool ok)) s
     (fun _ s' => FI s' g /\ at_ s s' 0 0).
Proof.
  intros H Hl. apply wp_bind. apply wp_num; [apply (fi_rok _ _ H)|]. intros v ok r1 Hadv _.
  assert (H1 : FI (with_r s r1) g) by (apply FI_adv; auto).
  wwrf H1 Hl. intros o2 Hg2 Hlo2 H2. apply wp_ret. split; [exact H2|].
  apply at_tset. apply at_adv0; [apply at_refl, (fi_rok _ _ H)|exact Hadv].
Qed.

Lemma step_objargs fuel : S_args fuel -> S_objargs (S fuel).
Proof.
  intros IHa curObj s g H Hl Hroom Hfl Hex. unfold spec. cbn [parseObjectArgs].
  destruct (FI_live_get _ _ _ H Hl) as (co & Hco & Hlco).
  apply wp_bind. apply wp_rdf. exists co. split; [exact Hco|].
  apply wp_bind, wp_get.
  assert (Fin : forall (res : pres) s', FI s' g /\ at_ s s' 0 0 ->
     wp (N.of_nat (S fuel) < 8 * rem s + 4) (ret match res with RShort => ROk | r => r end) s'
       (fun res s'0 => exists g', FI s'0 g' /\ Ext s g s'0 g' /\ Phi s'0 <= Phi s + 2 /\ (res = ROk -> Phi s'0 <= Phi s + 1) /\
                                  res <> RShort /\ slack s s'0 0)).
  { intros res s' (F1 & F2). apply wp_ret. exists g. destruct (fin_at s g _ g 0 0 F1 F2 (gext_refl g)) as (G1 & G2 & G3).
    split; auto. split; auto. split; [lia|]. split; [intros _; lia|]. split; [destruct res; discriminate|apply (slack_at _ _ _ _ F2)]. }
  apply wp_bind.
  destruct (o_opcode co =? aml_pOpBytePrefix).
  { eapply wp_weaken; [apply (objargs_num False curObj 1 s g H Hl)|intros []|]. intros res s' HQ. apply Fin. exact HQ. }
  destruct (o_opcode co =? aml_pOpWordPrefix).
  { eapply wp_weaken; [apply (objargs_num False curObj 2 s g H Hl)|intros []|]. intros res s' HQ. apply Fin. exact HQ. }
  destruct (o_opcode co =? aml_pOpDwordPrefix).
  { eapply wp_weaken; [apply (objargs_num False curObj 4 s g H Hl)|intros []|]. intros res s' HQ. apply Fin. exact HQ. }
  destruct (o_opcode co =? aml_pOpQwordPrefix).
  { eapply wp_weaken; [apply (objargs_num False curObj 8 s g H Hl)|intros []|]. intros res s' HQ. apply Fin. exact HQ. }
  destruct (o_opcode co =? aml_pOpStringPrefix).
  { apply wp_bind. apply wp_string; [apply (fi_rok _ _ H)|]. intros v ok r1 Hadv _.
    assert (H1 : FI (with_r s r1) g) by (apply FI_adv; auto).
    wwrf H1 Hl. intros o2 Hg2 Hlo2 H2. apply wp_ret. apply Fin. split; [exact H2|].
    apply at_tset. apply at_adv0; [apply at_refl, (fi_rok _ _ H)|exact Hadv]. }
  apply wp_bind. apply wp_rdf. exists co. split; [exact Hco|].
  pose proof (fi_info _ _ H _ _ Hco Hlco) as Hinfo.
  destruct (opInfo (o_infoIndex co)) as [[[op fl] af]|] eqn:Erow; [|contradiction].
  apply wp_bind. eapply wp_info; [exact Erow|].
  eapply wp_weaken; [apply (IHa (o_infoIndex co) op fl af curObj 0 s g H Hl Hroom Erow)| |].
  - lia.
  - intros Hf. eapply Hfl; eauto.
  - intros _ Hfl0. exfalso. destruct (fieldlist_after_bytedata _ _ _ _ 0 Erow) as (Hc & _); [lia|exact Hfl0|lia].
  - intros j _ Hj Hbl. destruct (bytelist_shielded _ _ _ _ j Erow Hj Hbl) as (j' & Hj' & Hty). exists j'. split; [lia|]. split; auto.
  - intros Hf. lia.
  - intros res s' (g' & F1 & F2 & F3 & F4 & F5 & F6). apply wp_ret. exists g'. split; auto. split; auto. split; [exact F3|].
    split; [|split; [destruct res; discriminate|]].
    + destruct res; try discriminate.
      * intros _. specialize (F4 eq_refl). lia.
      * intros _. apply F5. reflexivity.
    + destruct (Hex co Hco) as (op0 & Hop0 & Hi0 & Hb0).
      rewrite (termlist_after_pkglen op0 _ _ _ _ Hop0 Hi0 Hb0 Erow) in F6. exact F6.
Qed.

(** ---- parseArgs ---- *)
Lemma has_parent_ext g g' x : gext g g' -> has_parent g x -> has_parent g' x.
Proof. intros G (par & Hin). exists par. apply (ge_kids _ _ G). exact Hin. Qed.

Lemma step_args fuel : S_arg fuel -> S_args fuel -> S_args (S fuel).
Proof.
  intros IHarg IHargs ii op fl af curObj argIndex s g H Hl Hroom Hrow Hi9 Hfl HLI Hsh. unfold spec. cbn [parseArgs].
  pose proof (argCount_le8 af) as Hcnt.
  assert (Hsl0 : forall o, slack s s o) by (intros o; unfold slack; lia).
  destruct (argCount af =? 0).
  { apply wp_ret. exists g. split; auto. split; [apply Ext_refl|]. split; [lia|]. split; [intros; lia|]. split; [intros; lia|apply Hsl0]. }
  destruct (argCount af <=? argIndex) eqn:Ele.
  { apply wp_ret. exists g. split; auto. split; [apply Ext_refl|]. split; [lia|]. split; [intros; lia|]. split; [intros; lia|apply Hsl0]. }
  apply N.leb_gt in Ele. assert (Hi8 : argIndex < 8) by lia.
  set (argTy := argType af argIndex) in *.
  assert (Hnbl : argTy <> aml_pArgTypeByteList).
  { intros E. destruct (Hsh argIndex (N.le_refl _) Hi8 E) as (j' & Hj1 & Hj2 & _). lia. }
  apply wp_bind. eapply wp_weaken; [apply (IHarg op fl af curObj argTy s g H Hl Hroom Hnbl)| |].
  { intros E. split; [apply Hfl; exists argIndex; split; auto|apply HLI; auto]. }
  { intros Hf. lia. }
  intros [a res] s1 (g1 & H1 & E1 & P1 & P2 & P3 & Hfr & Hta & Hbd & Hsl & Hgain).
  pose proof (R_gwf _ _ (fi_R _ _ H)) as Hwf.
  pose proof (ex_g _ _ _ _ E1) as G1.
  (* the state after the optional append *)
  assert (Happ : forall (Q : unit -> pstate -> Prop),
    (forall s2 g2, FI s2 g2 -> Ext s g s2 g2 -> Phi s2 = Phi s1 -> rem s2 = rem s1 ->
       p_scopeStack s2 = p_scopeStack s1 -> p_pkgEndStack s2 = p_pkgEndStack s1 ->
       (argTy = aml_pArgTypeByteData -> LastNum s2 curObj) -> Q tt s2) ->
    wp (N.of_nat (S fuel) < 8 * rem s + 3)
       (match a with Some a0 => appendM (Some curObj) a0 | None => ret tt end) s1 Q).
  { intros Q K. destruct a as [obj|].
    - destruct Hfr as (Hfresh & Hlive & Hroot).
      eapply (append_step _ curObj obj s1 g1 g); [exact H1|exact Hwf|exact G1|exact Hl|exact Hfresh|exact Hlive|exact Hroot|].
      intros t2 H2 G2 Hpf Hk _.
      apply K with (g2 := astep g1 (OpAppend curObj obj)); auto.
      + destruct E1 as [_ L O (e & St) Pk Pd]. constructor; auto. exists e. exact St.
      + unfold Phi, lp, rem. pcbn. destruct Hpf as (L & _). rewrite L. reflexivity.
      + intros Ebd. destruct (Hbd Ebd) as (obj' & po & v & Ea & Hpo & Hv). inversion Ea; subst obj'.
        assert (Hl2 : glive (astep g1 (OpAppend curObj obj)) curObj) by (apply glive_set_kids; apply (ge_live _ _ G1); exact Hl).
        destruct (FI_live_get _ _ _ H2 Hl2) as (co2 & Hco2 & Hlco2).
        destruct (R_kids _ _ (fi_R _ _ H2) _ _ Hco2 Hlco2) as (_ & Hlast & _).
        rewrite Hk, last_app_one in Hlast.
        destruct (pframe_get _ _ _ _ Hpf Hpo) as (po' & Hpo' & Eop & _ & Eval).
        assert (Hlo2 : glive (astep g1 (OpAppend curObj obj)) obj) by (apply glive_set_kids; exact Hlive).
        destruct (FI_live_get _ _ _ H2 Hlo2) as (po2 & Hpo2 & Hlpo2).
        pcbn_in Hpo2. assert (po2 = po') by congruence. subst po2.
        exists co2, po', v. split; [exact Hco2|]. rewrite Hlast. split; [exact Hpo'|]. split; [exact Hlpo2|]. congruence.
    - apply wp_ret. apply K with (g2 := g1); auto.
      intros Ebd. destruct (Hbd Ebd) as (obj' & _ & _ & Ea & _). discriminate. }
  apply wp_bind. apply Happ. intros s2 g2 H2 E2 EPhi Erem Esc Epk HLN.
  assert (Hsl2 : slack s s2 (if argTy =? aml_pArgTypeTermList then 1 else 0)) by (unfold slack in *; rewrite Esc, Epk; exact Hsl).
  pose proof (oweb_step af argIndex Hi8) as Howe. fold argTy in Howe.
  destruct (pres_eqb res ROk) eqn:Eres.
  - assert (res = ROk) by (destruct res; try discriminate; reflexivity). subst res. destruct (P2 eq_refl) as (P2a & P2b).
    assert (Ew : w8 (argIndex + 1) = argIndex + 1) by (unfold w8, two8; apply N.mod_small; lia). rewrite Ew.
    pose proof (ex_g _ _ _ _ E2) as G2.
    assert (Hrem : rem s2 + 1 <= rem s).
    { rewrite Erem. pose proof (ex_len _ _ _ _ E1) as L. pose proof (fi_rok _ _ H1) as (_ & _ & O). unfold rem. lia. }
    eapply wp_weaken; [apply (IHargs ii op fl af curObj (argIndex + 1) s2 g2 H2)| |].
    + apply (ge_live _ _ G2). exact Hl.
    + unfold room in *. lia.
    + exact Hrow.
    + lia.
    + intros Hf. eapply has_parent_ext; eauto.
    + intros Hi9' Hfl1. apply HLN.
      destruct (fieldlist_after_bytedata _ _ _ _ _ Hrow Hi9' Hfl1) as (_ & Hb). replace (argIndex + 1 - 1) with argIndex in Hb by lia. exact Hb.
    + intros j Hj1 Hj8 Hbl. destruct (Hsh j) as (j' & Hj'1 & Hj'2 & Hty); [lia|exact Hj8|exact Hbl|].
      exists j'. split; [|split; auto]. destruct (N.eq_dec j' argIndex) as [->|Hne]; [|lia].
      exfalso. fold argTy in Hty. assert (Hs : res_short argTy) by (destruct Hty; [left|right; left]; assumption).
      specialize (Hta Hs). discriminate.
    + intros Hf. lia.
    + intros res s' (g' & F1 & F2 & F3 & F4 & F5 & F6). exists g'. split; auto.
      split; [eapply Ext_trans; eauto|]. split; [lia|]. split; [intros Hr; specialize (F4 Hr); lia|].
      split; [intros Hr; specialize (F5 Hr); lia|].
      rewrite Howe.
      destruct (N.eqb_spec argTy aml_pArgTypeTermList) as [Etl|Etl].
      { exfalso. assert (Hs : res_short argTy) by (right; right; exact Etl). specialize (Hta Hs). discriminate. }
      destruct (N.eqb_spec argTy aml_pArgTypePkgLen) as [Epl|Epl].
      { specialize (Hgain Epl eq_refl). rewrite <- Esc, <- Epk in Hgain. unfold slack in *.
        destruct (oweb af (argIndex + 1)); lia. }
      exact (slack_trans _ _ _ _ _ Hsl2 F6).
  - apply wp_ret. exists g2. split; auto. split; auto. split; [lia|].
    split; [intros Hr; subst res; discriminate|]. split; [intros Hr; specialize (P3 Hr); lia|].
    rewrite Howe. destruct (argTy =? aml_pArgTypeTermList); [exact Hsl2|].
    eapply slack_weaken; [exact Hsl2|]. destruct (argTy =? aml_pArgTypePkgLen); [lia|]. destruct (oweb af (argIndex + 1)); lia.
Qed.

(** ---- parseArg ---- *)
Lemma wp_pushPkgEnd P e s (Q : bool -> pstate -> Prop) :
  Q (snd (setPkgEnd (p_r s) e)) (with_r (with_pkgEndStack s (e :: p_pkgEndStack s)) (fst (setPkgEnd (p_r s) e))) ->
  wp P (pushPkgEnd e) s Q.
Proof. unfold wp, pushPkgEnd, bindM, setPkgEndM. cbn. destruct (setPkgEnd (p_r s) e); auto. Qed.

Ltac kill_ty :=
  intros; subst;
  repeat match goal with
  | H : res_short _ |- _ => unfold res_short in H
  | H : _ \/ _ |- _ => destruct H; subst
  end;
  try match goal with
  | H : ?a = ?b |- _ => is_var a; subst a
  end;
  try match goal with
  | H : ?a = ?b |- _ => discriminate H
  end;
  repeat match goal with
  | H : _ = true |- _ => vm_compute in H; discriminate H
  | H : _ = false |- _ => vm_compute in H; discriminate H
  end.

Lemma step_arg fuel : S_target fuel -> S_arg (S fuel).
Proof.
  intros IHt op fl af curObj argTy s g H Hl Hroom Hnbl Hfl. unfold spec. cbn [parseArg].
  pose proof (fi_rok _ _ H) as Hrok. pose proof (room_lp _ Hroom) as Hlp.
  destruct ((argTy =? aml_pArgTypeByteData) || (argTy =? aml_pArgTypeWordData) || (argTy =? aml_pArgTypeDwordData) ||
            (argTy =? aml_pArgTypeQwordData) || (argTy =? aml_pArgTypeString) || (argTy =? aml_pArgTypeNameString)) eqn:Esimple.
  { eapply wp_weaken; [apply (parseSimpleArg_spec False argTy s g H)|intros []|]. { lia. }
    intros [a res] s' (g' & F1 & F2 & F3 & F4 & F5 & F6). exists g'. split; auto. split; auto.
    pose proof (at_Ext_FI s g s' g' 0 1 F2 F1 F3) as PA. pose proof (ex_off _ _ _ _ F2) as Eoff.
    split; [lia|]. split. { intros Hr. specialize (F5 Hr). pose proof (at_Ext_FI s g s' g' 1 1 F2 F1 F3). split; [lia|exact F5]. }
    split; [intros; lia|].
    split. { destruct a as [obj|]; [destruct F6 as (A & B & C & D); cbn; auto|exact I]. }
    split. { kill_ty. }
    split.
    { intros E. destruct a as [obj|].
      - destruct F6 as (_ & _ & _ & D). destruct (D E) as (po & v & Hpo & Hv). exists obj, po, v. auto.
      - destruct F6 as (_ & D). contradiction. }
    assert (Etl : (argTy =? aml_pArgTypeTermList) = false).
    { destruct (N.eqb_spec argTy aml_pArgTypeTermList) as [E|E]; [|reflexivity]. subst argTy. vm_compute in Esimple. discriminate. }
    rewrite Etl. split.
    - unfold slack. rewrite F4. pose proof (ex_pk _ _ _ _ F2). lia.
    - kill_ty. }
  apply N.eqb_neq in Hnbl. rewrite Hnbl.
  destruct (argTy =? aml_pArgTypePkgLen) eqn:Epl.
  { assert (Etl : (argTy =? aml_pArgTypeTermList) = false).
    { apply N.eqb_eq in Epl. subst argTy. reflexivity. }
    rewrite Etl.
    apply wp_bind, wp_get.
    apply wp_bind. apply wp_pkglen; auto. intros pkgLen ok r1 Hadv Hok Hnok.
    assert (H1 : FI (with_r s r1) g) by (apply FI_adv; auto).
    assert (A1 : at_ s (with_r s r1) 0 0) by (apply at_adv0; [apply at_refl; auto|exact Hadv]).
    destruct ok; cbn [negb].
    2:{ apply wp_ret. exists g. destruct (fin_at s g _ g 0 0 H1 A1 (gext_refl g)) as (F1 & F2 & F3).
        split; auto. split; auto. split; [lia|]. split; [discriminate|]. split; [discriminate|]. split; [exact I|].
        split; [kill_ty|]. split; [kill_ty|]. split; [apply (slack_at _ _ _ _ A1)|discriminate]. }
    destruct (Hok eq_refl) as (Hlt1 & Hpl).
    apply wp_bind, wp_get. rewrite (fi_skip _ _ H1). cbn [negb andb].
    destruct (hasFlag fl aml_pOpFlagDeferParsing).
    - wwrf H1 Hl. intros o2 Hg2 Hlo2 H2.
      apply wp_bind. apply wp_ru.
      match type of H2 with FI ?st _ => set (s2 := st) in * end.
      assert (A2 : at_ s s2 0 0) by (apply at_tset; exact A1).
      set (o3 := w32 (r_offset (p_r s) + pkgLen)).
      destruct (rok_setOffset (p_r s2) o3 (fi_rok _ _ H2)) as (Hrok3 & Hlen3).
      assert (H3 : FI (with_r s2 (setOffset (p_r s2) o3)) g) by (apply FI_with_r; auto).
      assert (A3 : at_ s (with_r s2 (setOffset (p_r s2) o3)) 0 0).
      { eapply at_r; [exact A2|exact Hlen3| |destruct Hrok3 as (_ & _ & O); exact O].
        assert (Eo : o3 = r_offset (p_r s) + pkgLen).
        { unfold o3, w32. apply N.mod_small. destruct Hrok as (_ & Sm & O). unfold small_table, two32 in *. lia. }
        unfold setOffset. cbn [r_offset set_offset_raw].
        assert (El : r_len (p_r s2) = r_len (p_r s)) by (destruct A2 as (L & _); exact L).
        destruct Hrok as (_ & _ & O). rewrite El. destruct (r_len (p_r s) <? o3) eqn:Ec; lia. }
      apply wp_ret. exists g. destruct (fin_at s g _ g 0 0 H3 A3 (gext_refl g)) as (F1 & F2 & F3).
      split; auto. split; auto. split; [lia|]. split; [discriminate|]. split; [intros _; lia|]. split; [exact I|].
      split; [kill_ty|]. split; [kill_ty|]. split; [apply (slack_at _ _ _ _ A3)|discriminate].
    - apply wp_bind. apply wp_pushPkgEnd.
      set (e := w32 (r_offset (p_r s) + pkgLen)).
      set (s2 := with_r (with_pkgEndStack (with_r s r1) (e :: p_pkgEndStack (with_r s r1))) (fst (setPkgEnd (p_r (with_r s r1)) e))).
      assert (H2 : FI s2 g).
      { apply FI_with_r; [apply FI_with_pkgEnd; exact H1|]. apply rok_setPkgEnd. apply (fi_rok _ _ H1). }
      destruct (setPkgEnd_off (p_r (with_r s r1)) e) as (Eo & El).
      destruct A1 as (B1 & B2 & B3 & B4 & B5 & B6).
      assert (E2 : Ext s g s2 g).
      { constructor; [apply gext_refl| | |exists []| |]; unfold s2; pcbn; pcbn_in Eo; pcbn_in El; pcbn_in B1; pcbn_in B2.
        - rewrite El. exact B1.
        - rewrite Eo. lia.
        - reflexivity.
        - cbn [length]. lia.
        - cbn [length]. rewrite Eo. lia. }
      assert (P2 : Phi s2 + 4 <= Phi s).
      { unfold Phi, lp, rem, s2. pcbn. pcbn_in Eo. pcbn_in El. pcbn_in B1. pcbn_in B3. rewrite Eo, El. unfold lp in B4. pcbn_in B4. lia. }
      apply wp_ret. exists g. split; auto. split; auto. split; [lia|].
      split. { intros _. split; [lia|]. unfold s2. pcbn. pcbn_in Eo. rewrite Eo. exact Hlt1. }
      split; [intros _; lia|]. split; [exact I|]. split; [kill_ty|]. split; [kill_ty|].
      split; [unfold slack, s2; pcbn; cbn [length]; lia|]. intros _ _. unfold s2. pcbn. cbn [length]. lia. }
  destruct (argTy =? aml_pArgTypeFieldList) eqn:Efl.
  { apply N.eqb_eq in Efl. destruct (Hfl Efl) as ((par & Hpar) & (co & lo & v & HLN)).
    apply wp_bind. eapply wp_weaken; [apply (parseFieldElements_spec curObj par s g H Hpar Hroom)|intros []|].
    { exists co, lo, v. exact HLN. }
    intros res s' (g' & F1 & F2 & (F3 & F4 & F5 & F6 & F7)). apply wp_ret. exists g'. split; auto. split; auto.
    split; [exact F3|]. split; [intros Hr; contradiction|]. split; [intros Hr; specialize (F4 Hr); lia|]. split; [exact I|].
    subst argTy. split; [kill_ty|]. split; [intros E; discriminate E|]. split; [|intros E; discriminate E].
    change (aml_pArgTypeFieldList =? aml_pArgTypeTermList) with false. unfold slack. rewrite F6, F7. lia. }
  destruct ((argTy =? aml_pArgTypeTermArg) || (argTy =? aml_pArgTypeDataRefObj)) eqn:Eta.
  { assert (Etl : (argTy =? aml_pArgTypeTermList) = false).
    { destruct (N.eqb_spec argTy aml_pArgTypeTermList) as [E|E]; [|reflexivity]. subst argTy. vm_compute in Eta. discriminate. }
    rewrite Etl.
    apply wp_bind, wp_get. rewrite (fi_skip _ _ H). apply wp_ret. exists g. split; auto. split; [apply Ext_refl|].
    split; [lia|]. split; [discriminate|]. split; [intros _; lia|]. split; [exact I|]. split; [reflexivity|].
    split; [kill_ty|]. split; [apply slack_refl|kill_ty]. }
  destruct (argTy =? aml_pArgTypeTermList) eqn:Etl.
  { apply wp_bind. eapply new_step; [exact H|apply (newokb_sound aml_pOpIntScopeBlock eq_refl)|lia|].
    intros p t2 g2 po H2 Hext2 Hfresh2 Hlive2 Hroot2 Hkids2 Hpo _ _ _ Hl2 _.
    set (s2 := with_tree s t2) in *.
    assert (A2 : at_ s s2 0 1) by (eapply at_new'; [apply at_refl; auto|exact Hl2|reflexivity]).
    apply wp_bind, wp_get.
    wwrf H2 Hlive2. intros o3 Hg3 Hlo3 H3.
    match type of H3 with FI ?st _ => set (s3 := st) in * end.
    assert (A3 : at_ s s3 0 1) by (apply at_tset; exact A2).
    destruct (FI_live_get _ _ _ H3 Hlive2) as (o4 & Hg4 & Hlo4).
    apply wp_bind. apply wp_rdf. exists o4. split; [exact Hg4|].
    rewrite (R_index _ _ (fi_R _ _ H3) _ _ Hg4).
    apply wp_bind. apply wp_scopeEnter.
    set (s5 := with_scopeStack s3 (p :: p_scopeStack s3)).
    assert (H5 : FI s5 g2).
    { apply FI_with_scope; [exact H3|]. constructor; [exact Hlive2|apply (fi_scopes _ _ H3)]. }
    apply wp_bind, wp_get. rewrite (fi_skip _ _ H5). cbn [negb].
    destruct (at_Phi _ _ _ _ A3) as (P3 & _).
    destruct A3 as (B1 & B2 & B3 & B4 & B5 & B6).
    apply wp_ret. exists g2. split; [exact H5|]. split.
    { constructor; [exact Hext2|exact B1|unfold s5; pcbn; lia|exists [p]; unfold s5; pcbn; rewrite B5; reflexivity
                   |unfold s5; pcbn; rewrite B6; lia|unfold s5; pcbn; rewrite B6; lia]. }
    assert (EP : Phi s5 = Phi s3) by reflexivity.
    split; [lia|]. split; [discriminate|]. split; [intros _; lia|].
    split; [cbn [fresh_root]; auto|]. split; [reflexivity|]. split; [kill_ty|].
    split; [unfold slack, s5; pcbn; rewrite B5, B6; cbn [length]; lia|kill_ty]. }
  (* a target *)
  eapply wp_weaken; [apply (IHt s g H Hroom)| |].
  - intros Hf. lia.
  - intros [a res] s' (g' & F1 & F2 & F3 & F4 & F5 & F6 & F7). exists g'. split; auto. split; auto.
    split; [exact F3|]. split; [exact F4|]. split; [intros Hr; contradiction|]. split; [exact F5|].
    split; [kill_ty|]. split; [kill_ty|]. split; [exact F7|kill_ty].
Qed.

(** ---- the mutual block ---- *)
Definition block (fuel : nat) : Prop :=
  S_name fuel /\ S_next fuel /\ S_objargs fuel /\ S_args fuel /\ S_arg fuel /\ S_target fuel.

Lemma block_all : forall fuel, block fuel.
Proof.
  induction fuel as [|fuel (Hn & Hx & Ho & Has & Ha & Ht)].
  - unfold block. repeat split; intro; intros; unfold spec;
      cbn [parseNamePathOrMethodCall parseNextObject parseObjectArgs parseArgs parseArg parseTarget];
      apply wp_outOfFuel; change (N.of_nat 0) with 0; lia.
  - split; [apply step_name|]. split; [apply step_next; auto|]. split; [apply step_objargs; auto|].
    split; [apply step_args; auto|]. split; [apply step_arg; auto|apply step_target; auto].
Qed.

Lemma parseNextObject_spec fuel : S_next fuel.
Proof. apply (block_all fuel). Qed.

(** ---- the loops of parseObjectList ---- *)
Lemma inner_spec : forall fuel s g, FI s g -> p_scopeStack s <> [] -> room s ->
  spec (N.of_nat fuel < 8 * rem s + 3) (objectList_inner fuel) s g (fun ok s' _ =>
    Phi s' <= Phi s + 2 /\ (ok = true -> Phi s' <= Phi s) /\ p_scopeStack s' <> [] /\ slack s s' 0).
Proof.
  induction fuel as [|fuel IH]; intros s g H Hst Hroom; unfold spec; cbn [objectList_inner].
  { apply wp_outOfFuel. change (N.of_nat 0) with 0. lia. }
  apply wp_bind, wp_get. destruct (eof (p_r s)).
  { apply wp_ret. exists g. split; auto. split; [apply Ext_refl|]. split; [lia|]. split; [intros _; lia|].
    split; [exact Hst|apply slack_refl]. }
  apply wp_bind. eapply wp_weaken; [apply (parseNextObject_spec fuel s g H Hst Hroom)| |].
  { intros Hf. lia. }
  intros res s1 (g1 & H1 & E1 & P1 & P2 & SL1).
  assert (Hst1 : p_scopeStack s1 <> []).
  { destruct (ex_scopes _ _ _ _ E1) as (e & Es). rewrite Es. intros E. apply app_eq_nil in E. destruct E as (_ & E). contradiction. }
  destruct (pres_eqb res ROk) eqn:Eres.
  - assert (res = ROk) by (destruct res; try discriminate; reflexivity). subst res. destruct (P2 eq_refl) as (P3 & P4).
    assert (Hrem : rem s1 + 1 <= rem s).
    { pose proof (ex_len _ _ _ _ E1) as L. pose proof (fi_rok _ _ H1) as (_ & _ & O). unfold rem. lia. }
    eapply wp_weaken; [apply (IH s1 g1 H1 Hst1)| |].
    + unfold room in *. lia.
    + intros Hf. lia.
    + intros ok s' (g' & F1 & F2 & F3 & F4 & F5 & F6). exists g'. split; auto. split; [eapply Ext_trans; eauto|].
      split; [lia|]. split; [intros Hr; specialize (F4 Hr); lia|]. split; [exact F5|].
      exact (slack_trans _ _ _ _ _ SL1 F6).
  - apply wp_ret. exists g1. split; auto. split; auto. split; [lia|]. split; [discriminate|]. split; [exact Hst1|exact SL1].
Qed.

Lemma wp_scopeExit P s x rest (Q : unit -> pstate -> Prop) :
  p_scopeStack s = x :: rest -> Q tt (with_scopeStack s rest) -> wp P scopeExit s Q.
Proof. intros E H. unfold wp, scopeExit. rewrite E. exact H. Qed.

Lemma popPkgEnd_spec P s g : FI s g ->
  wp P popPkgEnd s (fun _ s' => FI s' g /\ Phi s' = Phi s /\ rem s' = rem s /\ p_scopeStack s' = p_scopeStack s /\
                                p_pkgEndStack s' = tl (p_pkgEndStack s)).
Proof.
  intros H. unfold wp, popPkgEnd.
  assert (Etl : match p_pkgEndStack s with [] => [] | _ :: rest => rest end = tl (p_pkgEndStack s)) by (destruct (p_pkgEndStack s); reflexivity).
  rewrite Etl.
  destruct (tl (p_pkgEndStack s)) as [|top rest'] eqn:E.
  - split; [apply FI_with_pkgEnd; exact H|]. repeat split; reflexivity.
  - destruct (setPkgEnd_off (p_r (with_pkgEndStack s (top :: rest'))) top) as (Eo & El).
    split; [apply FI_with_r; [apply FI_with_pkgEnd; exact H|apply rok_setPkgEnd; apply (fi_rok _ _ H)]|].
    unfold Phi, lp, rem. pcbn. pcbn_in Eo. pcbn_in El. rewrite Eo, El. repeat split; reflexivity.
Qed.

(** the outer loop: the scope stack is never deeper than the pkgEnd stack, so every iteration pops a package end;
    pushes are paid for by consumed bytes *)
Definition list_need (s : pstate) : N := 8 * rem s + N.of_nat (length (p_pkgEndStack s)) + 4.

Lemma list_spec : forall fuel s g, FI s g -> room s ->
  (length (p_scopeStack s) <= length (p_pkgEndStack s))%nat ->
  wp (N.of_nat fuel < list_need s) (parseObjectList fuel) s (fun _ s' => exists g', FI s' g' /\ gext g g').
Proof.
  induction fuel as [|fuel IH]; intros s g H Hroom HJ; cbn [parseObjectList].
  { apply wp_outOfFuel. unfold list_need. change (N.of_nat 0) with 0. lia. }
  apply wp_bind, wp_get. destruct (p_scopeStack s) as [|x rest] eqn:Est.
  { apply wp_ret. exists g. split; [exact H|apply gext_refl]. }
  apply wp_bind. eapply wp_weaken; [apply (inner_spec fuel s g H)| |].
  { rewrite Est. discriminate. } { exact Hroom. } { intros Hf. unfold list_need. lia. }
  intros ok s1 (g1 & H1 & E1 & P1 & P2 & Hst1 & SL1).
  pose proof (ex_g _ _ _ _ E1) as G1.
  destruct ok; cbn [negb]; [|apply wp_ret; exists g1; split; [exact H1|exact G1]].
  specialize (P2 eq_refl).
  apply wp_bind, wp_get. apply wp_bind, wp_get.
  destruct (p_scopeStack s1) as [|y rest1] eqn:Est1; [contradiction|].
  assert (HJ1 : (length (y :: rest1) <= length (p_pkgEndStack s1))%nat).
  { unfold slack in SL1. rewrite Est1, Est in SL1. cbn [length] in *. lia. }
  pose proof (ex_paid _ _ _ _ E1) as Hpaid. pose proof (ex_len _ _ _ _ E1) as Hlen. pose proof (ex_off _ _ _ _ E1) as Hoff.
  pose proof (fi_rok _ _ H1) as (_ & _ & O1).
  assert (Hcont : forall s2, FI s2 g1 -> Phi s2 = Phi s1 -> rem s2 = rem s1 -> p_pkgEndStack s2 = p_pkgEndStack s1 ->
     (length (p_scopeStack s2) + 1 <= length (p_pkgEndStack s1))%nat \/
     (length (p_scopeStack s2) <= length (p_pkgEndStack s1))%nat /\ length (p_scopeStack s2) = length rest1 ->
     wp (N.of_nat (S fuel) < list_need s) (popPkgEnd ;;; parseObjectList fuel) s2 (fun _ s' => exists g', FI s' g' /\ gext g g')).
  { intros s2 H2 EP ER EPk HJ2. apply wp_bind. eapply wp_weaken; [apply (popPkgEnd_spec False s2 g1 H2)|intros []|].
    intros _ s3 (H3 & EP3 & ER3 & ESc3 & EPk3).
    assert (Hpk3 : (length (p_pkgEndStack s3) + 1 = length (p_pkgEndStack s1))%nat).
    { rewrite EPk3, EPk. cbn [length] in HJ1. destruct (p_pkgEndStack s1); cbn [length tl] in *; lia. }
    eapply wp_weaken; [apply (IH s3 g1 H3)| |].
    - unfold room in *. lia.
    - rewrite ESc3. cbn [length] in HJ1. destruct HJ2 as [HJ2|(HJ2 & HJ3)]; lia.
    - unfold list_need. rewrite ER3, ER. unfold rem. intros Hf. lia.
    - intros r s' (g' & F1 & F2). exists g'. split; [exact F1|eapply gext_trans; eauto]. }
  apply wp_bind.
  destruct (Nat.eqb_spec (length (p_pkgEndStack s1)) (length (y :: rest1))) as [Eeq|Ene].
  - eapply wp_scopeExit; [exact Est1|]. apply Hcont; [|reflexivity|reflexivity|reflexivity|].
    + apply FI_with_scope; [exact H1|]. pose proof (fi_scopes _ _ H1) as F. rewrite Est1 in F. inversion F; auto.
    + right. pcbn. cbn [length] in *. split; [lia|reflexivity].
  - apply wp_ret. apply Hcont; [exact H1|reflexivity|reflexivity|reflexivity|].
    left. rewrite Est1. cbn [length] in *. lia.
Qed.

(** ---- the statements for Props/C12.v ---- *)
Definition image_small (data : list N) : Prop :=
  Forall (fun b => b < 256) data /\ N.of_nat (length data) + 0x10000400 <= two32.

(** the first pass as ParseAML runs it: from the initial state of a table, enter the root scope, parseObjectList *)
Definition first_pass (fuel : nat) : M pres := scopeEnter 0 ;;; parseObjectList fuel.

Lemma init_reader_val d h :
  init_reader d h = mkReader d (N.of_nat (length d)) (if N.of_nat (length d) <? h then N.of_nat (length d) else h) (N.of_nat (length d)).
Proof. unfold init_reader, setPkgEnd, setOffset. cbn [r_len r_data r_pkgEnd r_offset fst]. rewrite N.ltb_irrefl. reflexivity. Qed.

Lemma init_FI tree g earlier handle data :
  R tree g -> info_valid tree -> glive g 0 -> image_small data ->
  N.of_nat (length (t_pool tree)) + 4 * N.of_nat (length data) + 4 <= InvalidIndex ->
  let s := with_scopeStack (init_state tree earlier handle data) [0] in
  FI s g /\ room s /\ (length (p_scopeStack s) <= length (p_pkgEndStack s))%nat /\
  list_need s <= 8 * N.of_nat (length data) + 5.
Proof.
  intros HR Hi H0 (Hb & Hl) Hcap. unfold init_state. rewrite init_reader_val.
  set (n := N.of_nat (length data)) in *.
  unfold setPkgEnd. cbn [r_len r_data r_pkgEnd r_offset]. rewrite N.ltb_irrefl. cbn [fst].
  split; [|split; [|split]].
  - constructor; pcbn; auto.
    unfold rok, reader_wf, small_table, set_pkgEnd_raw. cbn [r_len r_data r_pkgEnd r_offset].
    split; [split; [reflexivity|split; [lia|split; [unfold two32 in *; lia|exact Hb]]]|].
    split; [exact Hl|]. destruct (n <? aml_sizeofSDTHeader) eqn:E; [lia|]. apply N.ltb_ge in E. exact E.
  - unfold room, Phi, lp, rem. pcbn. unfold set_pkgEnd_raw. cbn [r_len r_offset]. fold n. lia.
  - pcbn. cbn [length]. lia.
  - unfold list_need, rem. pcbn. unfold set_pkgEnd_raw. cbn [r_len r_offset length]. fold n. lia.
Qed.

(** the first pass returns - no panic, and no exhausted fuel once the fuel is 8 units per byte of the table plus 5 -
    and leaves a pool that satisfies the invariant again *)
Theorem first_pass_never_panics : forall tree g earlier handle data fuel,
  R tree g -> info_valid tree -> glive g 0 -> image_small data ->
  N.of_nat (length (t_pool tree)) + 4 * N.of_nat (length data) + 4 <= InvalidIndex ->
  match first_pass fuel (init_state tree earlier handle data) with
  | Ok (_, s') => exists g', R (p_tree s') g' /\ info_valid (p_tree s')
  | Panic => False
  | OutOfFuel => N.of_nat fuel < 8 * N.of_nat (length data) + 5
  end.
Proof.
  intros tree g earlier handle data fuel HR Hi H0 Him Hcap.
  destruct (init_FI tree g earlier handle data HR Hi H0 Him Hcap) as (HFI & Hroom & HJ & Hneed).
  pose proof (list_spec fuel _ g HFI Hroom HJ) as W. unfold wp in W.
  unfold first_pass, bindM, scopeEnter.
  destruct (parseObjectList fuel _) as [[res s']| |]; auto.
  - destruct W as (g' & F & _). exists g'. split; [apply (fi_R _ _ F)|apply (fi_info _ _ F)].
  - lia.
Qed.

(** one top-level object (and the inner loop of parseObjectList) never panics and never runs out of a fuel
    of 8 units per byte left *)
Theorem first_pass_object_total : forall fuel s g,
  FI s g -> p_scopeStack s <> [] -> room s -> 8 * rem s + 2 <= N.of_nat fuel ->
  exists res s' g', parseNextObject fuel s = Ok (res, s') /\ FI s' g'.
Proof.
  intros fuel s g H Hst Hroom Hf. pose proof (parseNextObject_spec fuel s g H Hst Hroom) as W. unfold spec, wp in W.
  destruct (parseNextObject fuel s) as [[res s']| |]; [|contradiction|lia].
  destruct W as (g' & F & _). eauto.
Qed.

Theorem first_pass_list_total : forall fuel s g,
  FI s g -> p_scopeStack s <> [] -> room s -> 8 * rem s + 3 <= N.of_nat fuel ->
  exists ok s' g', objectList_inner fuel s = Ok (ok, s') /\ FI s' g'.
Proof.
  intros fuel s g H Hst Hroom Hf. pose proof (inner_spec fuel s g H Hst Hroom) as W. unfold spec, wp in W.
  destruct (objectList_inner fuel s) as [[ok s']| |]; [|contradiction|lia].
  destruct W as (g' & F & _). eauto.
Qed.

Corollary first_pass_nopanic : forall tree g earlier handle data fuel,
  R tree g -> info_valid tree -> glive g 0 ->
  Forall (fun b => b < 256) data -> N.of_nat (length data) + 0x10000400 <= two32 ->
  N.of_nat (length (t_pool tree)) + 4 * N.of_nat (length data) + 4 <= InvalidIndex ->
  first_pass fuel (init_state tree earlier handle data) <> Panic.
Proof.
  intros tree g earlier handle data fuel HR Hi H0 Hb Hl Hcap E.
  pose proof (first_pass_never_panics tree g earlier handle data fuel HR Hi H0 (conj Hb Hl) Hcap) as W.
  rewrite E in W. exact W.
Qed.

Corollary first_pass_R : forall tree g earlier handle data fuel res s',
  R tree g -> info_valid tree -> glive g 0 ->
  Forall (fun b => b < 256) data -> N.of_nat (length data) + 0x10000400 <= two32 ->
  N.of_nat (length (t_pool tree)) + 4 * N.of_nat (length data) + 4 <= InvalidIndex ->
  first_pass fuel (init_state tree earlier handle data) = Ok (res, s') ->
  exists g', R (p_tree s') g' /\ info_valid (p_tree s').
Proof.
  intros tree g earlier handle data fuel res s' HR Hi H0 Hb Hl Hcap E.
  pose proof (first_pass_never_panics tree g earlier handle data fuel HR Hi H0 (conj Hb Hl) Hcap) as W.
  rewrite E in W. exact W.
Qed.

(** the first pass terminates: 8 units of fuel per byte of the table plus 5 are enough - in particular the fuel
    ParseAML gives it, [parse_fuel] of the table length plus the pool size *)
Corollary first_pass_terminates : forall tree g earlier handle data fuel,
  R tree g -> info_valid tree -> glive g 0 ->
  Forall (fun b => b < 256) data -> N.of_nat (length data) + 0x10000400 <= two32 ->
  N.of_nat (length (t_pool tree)) + 4 * N.of_nat (length data) + 4 <= InvalidIndex ->
  8 * N.of_nat (length data) + 5 <= N.of_nat fuel ->
  exists res s' g', first_pass fuel (init_state tree earlier handle data) = Ok (res, s') /\ R (p_tree s') g'.
Proof.
  intros tree g earlier handle data fuel HR Hi H0 Hb Hl Hcap Hf.
  pose proof (first_pass_never_panics tree g earlier handle data fuel HR Hi H0 (conj Hb Hl) Hcap) as W.
  destruct (first_pass _ _) as [[res s']| |].
  - destruct W as (g' & F & _). eauto.
  - contradiction.
  - exfalso. lia.
Qed.

Corollary first_pass_terminates_parse_fuel : forall tree g earlier handle data,
  R tree g -> info_valid tree -> glive g 0 ->
  Forall (fun b => b < 256) data -> N.of_nat (length data) + 0x10000400 <= two32 ->
  N.of_nat (length (t_pool tree)) + 4 * N.of_nat (length data) + 4 <= InvalidIndex ->
  exists res s' g', first_pass (parse_fuel (length data + length (t_pool tree))) (init_state tree earlier handle data) = Ok (res, s') /\
                    R (p_tree s') g'.
Proof.
  intros tree g earlier handle data HR Hi H0 Hb Hl Hcap.
  apply (first_pass_terminates tree g earlier handle data _ HR Hi H0 Hb Hl Hcap). unfold parse_fuel. lia.
Qed.

(** with the invariant spelled out *)
Corollary first_pass_fuel : forall fuel s g,
  R (p_tree s) g -> info_valid (p_tree s) ->
  reader_wf (p_r s) -> r_len (p_r s) + 0x10000400 <= two32 -> r_offset (p_r s) <= r_len (p_r s) ->
  p_allBlocks s = false -> Forall (glive g) (p_scopeStack s) -> p_scopeStack s <> [] ->
  N.of_nat (length (t_pool (p_tree s))) + 4 * (r_len (p_r s) - r_offset (p_r s)) + 4 <= InvalidIndex ->
  8 * (r_len (p_r s) - r_offset (p_r s)) + 3 <= N.of_nat fuel ->
  (exists res s' g', parseNextObject fuel s = Ok (res, s') /\ R (p_tree s') g') /\
  (exists ok s' g', objectList_inner fuel s = Ok (ok, s') /\ R (p_tree s') g').
Proof.
  intros fuel s g HR Hi Hw Hsm Ho Hsk Hsc Hne Hcap Hf.
  assert (H : FI s g) by (constructor; auto; split; [exact Hw|split; [exact Hsm|exact Ho]]).
  assert (Hroom : room s) by exact Hcap.
  split.
  - destruct (first_pass_object_total fuel s g H Hne Hroom) as (res & s' & g' & E & F); [unfold rem; lia|].
    exists res, s', g'. split; [exact E|apply (fi_R _ _ F)].
  - destruct (first_pass_list_total fuel s g H Hne Hroom) as (ok & s' & g' & E & F); [unfold rem; lia|].
    exists ok, s', g'. split; [exact E|apply (fi_R _ _ F)].
Qed.

(** the hypotheses are satisfiable: the pool that holds just a root scope *)
Lemma first_pass_hyps_example :
  exists (tree : T) (g : ghost),
    R tree g /\ info_valid tree /\ glive g 0 /\ (length (t_pool tree) <= 1)%nat.
Proof.
  assert (Hnk : newok opScope) by (apply newokb_sound; reflexivity).
  destruct Hnk as (Hnf & Hmaps & i0 & Hi0 & Hinfo).
  destruct (newObject_R (@NewObjectTree value) ghost0 opScope 0 R_empty) as (t' & p & E & HR' & _ & Hp).
  { split; auto. split; auto. intros _. cbn. pose proof Inv_val. lia. }
  destruct (newObject_shape _ _ _ _ _ E) as ((po & Hpo & Hop & Hidx & _) & _ & Hbw & Hl1 & _).
  destruct (new_slot_fresh (@NewObjectTree value) ghost0 opScope 0 R_empty) as (_ & F2 & _).
  cbn [g_free ghost0] in Hp. cbn [NewObjectTree t_pool length] in Hp, Hl1. change (N.of_nat 0) with 0 in Hp. subst p.
  exists t', (astep ghost0 (OpNew opScope 0)). split; [exact HR'|]. split; [|split; [exact F2|exact Hl1]].
  intros i o Hg Hl. destruct (N.eqb_spec i 0) as [->|Hne].
  - assert (o = po) by congruence. subst o. rewrite pOpcodeTableIndex_eq, Hi0 in Hidx. inversion Hidx as [Hii].
    rewrite <- Hii. exact Hinfo.
  - specialize (Hbw i o Hne Hg). unfold TreeSpec.get in Hbw. cbn [NewObjectTree t_pool] in Hbw.
    destruct (N.to_nat i); discriminate.
Qed.
