From Coq Require Import NArith Arith List Bool Lia.
From Coq Require Import ZifyBool ZifyN ZifyNat.
From FF Require Import Lib.Word Gen.Consts_device_acpi_aml Gen.Consts_aml_tree Aml.Stream Aml.Lex Aml.LexProofs
  Aml.Tree Aml.Parser Aml.ParserProofs Aml.TreeSpec Aml.TreeProofs Aml.TreeProofsOps Aml.TreeProofsFind Aml.TreeProofsAnc
  Aml.ParserTotalTree Aml.ParserTotalTree2 Aml.ParserTotalLex Aml.ParserTotalTable Aml.ParserTotalBase Aml.ParserTotalLeaf
  Aml.ParserTotalFrame Aml.ParserTotalLeaf2 Aml.ParserTotalFirst Aml.ParserTotalConn Aml.ParserTotalReloc Aml.ParserTotalDefer.
Import ListNotations.
Local Open Scope N_scope.

Section StepL.
Variable tbls : list (list N).
Notation IV := (Inv tbls).
Notation FD := (FIm true).

(** the loop body shared by termList_go and callArgs_go: one more object, then the rest *)
Lemma loop_step fuel (m : M bool) s g top rest :
  D_next tbls fuel ->
  (forall s1 g1, FD s1 g1 -> IV s1 -> glive g1 0 -> p_scopeStack s1 = top :: rest -> roomD 0 s1 -> TM NoX s1 g1 -> nnp s1 top ->
     wp True m s1 (fun ok s' => exists g', FD s' g' /\ ExtD s1 g1 s' g' /\ Fr NoP (eq top) NoP s1 g1 s' g' /\ Psi s' <= Psi s1 + 1 /\
        (ok = true -> Psi s' <= Psi s1 /\ TM NoX s' g' /\ p_scopeStack s' = p_scopeStack s1))) ->
  FD s g -> IV s -> glive g 0 -> p_scopeStack s = top :: rest -> roomD 0 s -> TM NoX s g -> nnp s top ->
  wp True (mlet res <~ parseNextObject fuel ;; if pres_eqb res ROk then m else ret false) s (fun ok s' => exists g',
    FD s' g' /\ ExtD s g s' g' /\ Fr NoP (eq top) NoP s g s' g' /\ Psi s' <= Psi s + 1 /\
    (ok = true -> Psi s' <= Psi s /\ TM NoX s' g' /\ p_scopeStack s' = p_scopeStack s)).
Proof.
  intros IHn IHm H I0 H0 Est Hroom HTM Hnnp.
  wbi tbls I0. eapply wp_weaken; [apply (IHn s g top rest H I0 H0 Est Hroom HTM Hnnp)| |].
  { auto. }
  intros res s1 (g1 & H1 & X1 & F1 & P1 & Hok1) I1.
  destruct res; cbn [pres_eqb]; try (apply wp_ret; exists g1; repeat (split; [assumption|]); intros E; discriminate).
  destruct (Hok1 eq_refl) as (K1 & K2 & K3).
  eapply wp_weaken; [apply (IHm s1 g1 H1 I1)| |].
  - apply (ge_live _ _ (xd_g _ _ _ _ X1)). exact H0.
  - rewrite K3. exact Est.
  - unfold roomD in *. lia.
  - exact K2.
  - apply (nnp_keep NoP s g s1 top (fr_keep _ _ _ _ _ _ _ F1) (fi_R _ _ H) (scope_topD _ _ _ _ H Est) Hnnp).
  - auto.
  - intros ok s' (g' & H' & X' & F' & P' & Hok'). exists g'. split; [exact H'|].
    split; [eapply ExtD_trans; eauto|]. split.
    { eapply Fr_trans; [exact F1|exact F'|apply (ge_live _ _ (xd_g _ _ _ _ X1))|auto|auto|auto]. }
    split; [lia|]. intros Eok. destruct (Hok' Eok) as (L1 & L2 & L3). split; [lia|]. split; [exact L2|congruence].
Qed.

Lemma step_Dtermlist fuel : D_next tbls fuel -> D_termlist tbls fuel -> D_termlist tbls (S fuel).
Proof.
  intros IHn IHt s g top rest H I0 H0 Est Hroom HTM Hnnp. cbn [termList_go].
  wbi tbls I0. apply wp_get. intros _.
  destruct (eof (p_r s)).
  { apply wp_ret. exists g. split; [exact H|]. split; [apply ExtD_refl|]. split; [apply Fr_refl|]. split; [lia|].
    intros _. split; [lia|]. split; [exact HTM|reflexivity]. }
  apply (loop_step fuel (termList_go fuel) s g top rest IHn); auto.
  intros s1 g1 A B C D E F G. apply (IHt s1 g1 top rest A B C D E F G).
Qed.

Lemma step_Dcallargs fuel : D_next tbls fuel -> D_callargs tbls fuel -> D_callargs tbls (S fuel).
Proof.
  intros IHn IHc cnt s g top rest H I0 H0 Est Hroom HTM Hnnp. cbn [callArgs_go].
  destruct cnt as [|c].
  { apply wp_ret. exists g. split; [exact H|]. split; [apply ExtD_refl|]. split; [apply Fr_refl|]. split; [lia|].
    intros _. split; [lia|]. split; [exact HTM|reflexivity]. }
  apply (loop_step fuel (callArgs_go fuel c) s g top rest IHn); auto.
  intros s1 g1 A B C D E F G. apply (IHc c s1 g1 top rest A B C D E F G).
Qed.
End StepL.
