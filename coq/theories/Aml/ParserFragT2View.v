(** C11 (two-table fragment): the namespace view of the tree [root_tree_t2]. *)
From Coq Require Import NArith ZArith Arith List Bool Lia Permutation.
From Coq Require Import ZifyBool ZifyN ZifyNat.
From FF Require Import Lib.Word Gen.Consts_device_acpi_aml Gen.Consts_aml_tree Aml.Stream Aml.Lex
  Aml.Tree Aml.TreeSpec Aml.TreeProofs Aml.Parser Aml.Grammar
  Aml.ParserTotalBase Aml.ParserFragBase Aml.ParserFragFirst Aml.ParserFragF0 Aml.ParserFragF0Conn Aml.ParserFragF0Top
  Aml.ParserFragRose Aml.ParserFragDev Aml.ParserFragArgs Aml.ParserFragF1 Aml.ParserFragF1First Aml.ParserFragF1Conn Aml.ParserFragF1Top
  Aml.View Aml.ParserFragView Aml.ParserFragF0View Aml.ParserFragF1View
  Aml.ParserFragScope Aml.ParserFragScope3 Aml.ParserFragF3Top Aml.ParserFragF3View Aml.ParserFragT2Top.
Import ListNotations.
Local Open Scope N_scope.

Ltac Zify.zify_post_hook ::= Z.div_mod_to_equations.

(** the view lists the contents of the predefined scopes, then the first table's objects, then the second table's *)
Definition view_t2 (its1 : list item) (ts : list titem) : list (list N) :=
  vmoved ts 1 ++ vmoved ts 2 ++ vmoved ts 3 ++ vmoved ts 4 ++ vmoved ts 5 ++ ventries [] its1 ++ vkeep ts.

Lemma view_t2_perm its1 ts : forallb titem_okb ts = true -> Permutation (view_t2 its1 ts) (sentries [] its1 ++ sentries3 ts).
Proof.
  intros Hok. unfold view_t2.
  eapply Permutation_trans; [|apply Permutation_app; [apply ventries_perm|apply (view3_perm ts Hok)]].
  unfold view3. set (A1 := vmoved ts 1). set (A2 := vmoved ts 2). set (A3 := vmoved ts 3). set (A4 := vmoved ts 4). set (A5 := vmoved ts 5).
  replace (A1 ++ A2 ++ A3 ++ A4 ++ A5 ++ ventries [] its1 ++ vkeep ts) with ((A1 ++ A2 ++ A3 ++ A4 ++ A5) ++ ventries [] its1 ++ vkeep ts) by (rewrite <- !app_assoc; reflexivity).
  eapply Permutation_trans; [apply perm_ins|]. rewrite <- !app_assoc. apply Permutation_refl.
Qed.

Section ViewT2.
Variable t : T.
Variable g : ghost.
Variable pl : list pay.
Hypothesis H : Rep t g pl.
Variable tables : list (list N).

Theorem view_t2_eq its1 ts hdr1 hdr2 : Desc g pl (root_tree_t2 its1 ts) -> forallb item_okb its1 = true -> forallb titem_okb ts = true ->
  tables = [hdr1 ++ enc_items its1; hdr2 ++ enc_titems ts] -> lenN hdr1 = aml_sizeofSDTHeader -> lenN hdr2 = aml_sizeofSDTHeader ->
  view t tables = view_t2 its1 ts.
Proof.
  intros HD Hok1 Hok Htb Hh1 Hh2.
  assert (Hn1 : nth_error tables (N.to_nat 0) = Some (hdr1 ++ enc_items its1)) by (rewrite Htb; reflexivity).
  assert (Hn2 : nth_error tables (N.to_nat 1) = Some (hdr2 ++ enc_titems ts ++ [])) by (rewrite Htb, app_nil_r; reflexivity). unfold view. set (known := [] :: collect_known t (pool_fuel t) 0 []).
  unfold pool_fuel at 1. rewrite walk_S.
  unfold root_tree_t2, root_treeG in HD. cbv zeta in HD. set (b2 := 6 + N.of_nat (iszs its1)) in *.
  destruct (Desc_inv _ _ _ _ _ HD) as (P0 & K0 & HDk). apply Forall_app in HDk. destruct HDk as [HDl HD2].
  apply Forall_app in HD2. destruct HD2 as [HDK HDkeep].
  assert (Hlen : (6 <= length pl <= length (t_pool t) + 2)%nat).
  { rewrite <- (rep_len_pool _ _ _ H). split; [|lia]. cbn [D0' map] in HDl.
    pose proof (Forall_inv (Forall_inv_tail (Forall_inv_tail (Forall_inv_tail (Forall_inv_tail HDl))))) as D5.
    destruct (Desc_inv _ _ _ _ _ D5) as (P5 & _ & _). apply pget_lt in P5. lia. }
  destruct (view_obj t g pl 0 _ H P0 ltac:(discriminate)) as (so & Hso & _ & Hkso).
  rewrite Hso, Hkso, K0, !map_app, !fold_left_app.
  assert (Hleaf : forall d es, 1 <= d <= 5 ->
            walkF t tables (S (length (t_pool t))) known [] (es, []) d = (es ++ vmoved ts d, [])).
  { intros d es Hd.
    assert (Dd : Desc g pl (RN d (dpay d) (moved 2 1 b2 aml_sizeofSDTHeader ts d))).
    { rewrite Forall_forall in HDl. apply HDl. apply in_map_iff. exists d. split; [reflexivity|]. unfold D0'. cbn [In]. lia. }
    destruct (Desc_inv _ _ _ _ _ Dd) as (Pd & Kd & HDm).
    destruct (view_obj t g pl d _ H Pd ltac:(discriminate)) as (co & Hco & Epco & Hkco).
    destruct (dname_num d Hd) as (En & Ez).
    apply (walkF_scope t tables _ known [] es [] d co); [exact Hco|rewrite (pay_op _ _ Epco); reflexivity|rewrite (pay_name _ _ Epco); exact Ez|].
    rewrite walk_S, Hco, Hkco, Kd, (pay_name _ _ Epco). cbn [dpay y_name app]. rewrite En.
    assert (HDm' : Forall (Desc g pl) (moved 2 1 b2 (lenN hdr2) ts d)) by (rewrite Hh2; exact HDm).
    pose proof (moved_fold t g pl H tables 2 1 (length (t_pool t)) known d _ Hn2 ts [] [] _ hdr2 [] eq_refl HDm' Hok ltac:(unfold b2; lia) Hlen) as Em.
    rewrite Hh2 in Em. rewrite Em. reflexivity. }
  cbn [D0' map ridx fold_left].
  rewrite (Hleaf 1 []) by lia. rewrite (Hleaf 2) by lia. rewrite (Hleaf 3) by lia. rewrite (Hleaf 4) by lia. rewrite (Hleaf 5) by lia.
  assert (HDK' : Forall (Desc g pl) (lay2 1 0 6 (lenN hdr1) its1)) by (rewrite Hh1; exact HDK).
  pose proof (vspec_all t g pl H tables its1 1 0 (S (length (t_pool t))) known [] (([] ++ vmoved ts 1) ++ vmoved ts 2 ++ vmoved ts 3 ++ vmoved ts 4 ++ vmoved ts 5) [] 6 (lenN hdr1) _ hdr1 [] Hn1 ltac:(rewrite app_nil_r; reflexivity) eq_refl HDK' Hok1
             (lay2_fuel g pl 1 0 its1 6 (lenN hdr1) (S (length (t_pool t))) HDK' ltac:(lia) ltac:(lia))) as E1.
  rewrite Hh1 in E1. rewrite <- !app_assoc in E1 |- *. cbn [app] in E1 |- *. rewrite E1. clear E1.
  assert (HDkeep' : Forall (Desc g pl) (keep 2 1 b2 (lenN hdr2) ts)) by (rewrite Hh2; exact HDkeep).
  match goal with |- context [fold_left _ (map ridx (keep _ _ _ _ _)) (?es, [])] =>
    pose proof (keep_fold t g pl H tables 2 1 (S (length (t_pool t))) known _ Hn2 ts es [] _ hdr2 [] eq_refl HDkeep' Hok ltac:(unfold b2; lia) ltac:(lia)) as E2 end.
  rewrite Hh2 in E2. rewrite E2. clear E2.
  cbn [app anon map]. rewrite app_nil_r. unfold view_t2. rewrite <- !app_assoc. reflexivity.
Qed.
End ViewT2.
