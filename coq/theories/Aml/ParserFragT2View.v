(** C11 (two-table fragment): the namespace view of the tree [root_tree_t2]. *)
From Coq Require Import NArith ZArith Arith List Bool Lia Permutation.
From Coq Require Import ZifyBool ZifyN ZifyNat.
From FF Require Import Lib.Word Gen.Consts_device_acpi_aml Gen.Consts_aml_tree Aml.Stream Aml.Lex
  Aml.Tree Aml.TreeSpec Aml.TreeProofs Aml.Parser Aml.Grammar
  Aml.ParserTotalBase Aml.ParserFragBase Aml.ParserFragFirst Aml.ParserFragF0 Aml.ParserFragF0Conn Aml.ParserFragF0Top
  Aml.ParserFragRose Aml.ParserFragDev Aml.ParserFragArgs Aml.ParserFragF1 Aml.ParserFragF1First Aml.ParserFragF1Conn Aml.ParserFragF1Top
  Aml.View Aml.ParserFragView Aml.ParserFragF0View Aml.ParserFragF1View
  Aml.ParserFragScope Aml.ParserFragScope3 Aml.ParserFragF3Top Aml.ParserFragF3View Aml.ParserFragT2Top.
Import ListNotations.
Local Open Scope N_scope.

Ltac Zify.zify_post_hook ::= Z.div_mod_to_equations.

(** the view lists the contents of the predefined scopes, then the first table's objects, then the second table's *)
Definition view_t2 (its1 : list item) (ts : list titem) : list (list N) :=
  vmoved ts 1 ++ vmoved ts 2 ++ vmoved ts 3 ++ vmoved ts 4 ++ vmoved ts 5 ++ ventries [] its1 ++ vkeep ts.

Lemma view_t2_perm its1 ts : forallb titem_okb ts = true -> Permutation (view_t2 its1 ts) (sentries [] its1 ++ sentries3 ts).
Proof.
  intros Hok. unfold view_t2.
  eapply Permutation_trans; [|apply Permutation_app; [apply ventries_perm|apply (view3_perm ts Hok)]].
  unfold view3. set (A1 := vmoved ts 1). set (A2 := vmoved ts 2). set (A3 := vmoved ts 3). set (A4 := vmoved ts 4). set (A5 := vmoved ts 5).
  replace (A1 ++ A2 ++ A3 ++ A4 ++ A5 ++ ventries [] its1 ++ vkeep ts) with ((A1 ++ A2 ++ A3 ++ A4 ++ A5) ++ ventries [] its1 ++ vkeep ts) by (rewrite <- !app_assoc; reflexivity).
  eapply Permutation_trans; [apply perm_ins|]. rewrite <- !app_assoc. apply Permutation_refl.
Qed.

Section ViewT2.
Variable t : T.
Variable g : ghost.
Variable pl : list pay.
Hypothesis H : Rep t g pl.
Variable tables : list (list N).

Theorem view_t2_eq its1 ts : Desc g pl (root_tree_t2 its1 ts) -> forallb item_okb its1 = true -> forallb titem_okb ts = true ->
  view t tables = view_t2 its1 ts.
Proof.
  intros HD Hok1 Hok. unfold view. set (known := [] :: collect_known t (pool_fuel t) 0 []).
  unfold pool_fuel at 1. rewrite walk_S.
  unfold root_tree_t2, root_treeG in HD. cbv zeta in HD. set (b2 := 6 + N.of_nat (iszs its1)) in *.
  destruct (Desc_inv _ _ _ _ _ HD) as (P0 & K0 & HDk). apply Forall_app in HDk. destruct HDk as [HDl HD2].
  apply Forall_app in HD2. destruct HD2 as [HDK HDkeep].
  assert (Hlen : (6 <= length pl <= length (t_pool t) + 2)%nat).
  { rewrite <- (rep_len_pool _ _ _ H). split; [|lia]. cbn [D0' map] in HDl.
    pose proof (Forall_inv (Forall_inv_tail (Forall_inv_tail (Forall_inv_tail (Forall_inv_tail HDl))))) as D5.
    destruct (Desc_inv _ _ _ _ _ D5) as (P5 & _ & _). apply pget_lt in P5. lia. }
  destruct (view_obj t g pl 0 _ H P0 ltac:(discriminate)) as (so & Hso & _ & Hkso).
  rewrite Hso, Hkso, K0, !map_app, !fold_left_app.
  assert (Hleaf : forall d es, 1 <= d <= 5 ->
            walkF t tables (S (length (t_pool t))) known [] (es, []) d = (es ++ vmoved ts d, [])).
  { intros d es Hd.
    assert (Dd : Desc g pl (RN d (dpay d) (moved 2 1 b2 aml_sizeofSDTHeader ts d))).
    { rewrite Forall_forall in HDl. apply HDl. apply in_map_iff. exists d. split; [reflexivity|]. unfold D0'. cbn [In]. lia. }
    destruct (Desc_inv _ _ _ _ _ Dd) as (Pd & Kd & HDm).
    destruct (view_obj t g pl d _ H Pd ltac:(discriminate)) as (co & Hco & Epco & Hkco).
    destruct (dname_num d Hd) as (En & Ez).
    apply (walkF_scope t tables _ known [] es [] d co); [exact Hco|rewrite (pay_op _ _ Epco); reflexivity|rewrite (pay_name _ _ Epco); exact Ez|].
    rewrite walk_S, Hco, Hkco, Kd, (pay_name _ _ Epco). cbn [dpay y_name app]. rewrite En.
    rewrite (moved_fold t g pl H tables 2 1 (length (t_pool t)) known d ts [] [] _ _ HDm Hok ltac:(unfold b2; lia) Hlen). reflexivity. }
  cbn [D0' map ridx fold_left].
  rewrite (Hleaf 1 []) by lia. rewrite (Hleaf 2) by lia. rewrite (Hleaf 3) by lia. rewrite (Hleaf 4) by lia. rewrite (Hleaf 5) by lia.
  rewrite (vspec_all t g pl H tables its1 1 0 (S (length (t_pool t))) known [] _ [] _ _ HDK Hok1
             (lay2_fuel g pl 1 0 its1 6 aml_sizeofSDTHeader (S (length (t_pool t))) HDK ltac:(lia) ltac:(lia))).
  rewrite (keep_fold t g pl H tables 2 1 (S (length (t_pool t))) known ts _ [] _ _ HDkeep Hok ltac:(unfold b2; lia) ltac:(lia)).
  cbn [app anon map]. rewrite app_nil_r. unfold view_t2. rewrite <- !app_assoc. reflexivity.
Qed.
End ViewT2.
