(** C11 (fragment proofs): mergeScopeDirectives.

    [merge_allS]: the walk leaves alone every sub-tree none of whose nodes is a Scope directive of the table
    (stated for a set of nodes closed under taking children, so that it can be used while other parts of the pool
    still hold Scope directives).
    [rep_free]: the exact effect of [free].
    [move_all]: moveContents moves the children of the ScopeBlock of a directive below the target scope.
    [merge_scope]: one Scope directive over an existing scope: the contents are moved, the directive, its name path
    and its ScopeBlock are freed, and the walk goes on over the moved objects. *)
From Coq Require Import NArith ZArith Arith List Bool Lia.
From Coq Require Import ZifyBool ZifyN ZifyNat.
From FF Require Import Lib.Word Gen.Consts_device_acpi_aml Gen.Consts_aml_tree Aml.Stream Aml.Lex Aml.LexProofs
  Aml.Tree Aml.TreeSpec Aml.TreeProofs Aml.TreeProofsOps Aml.TreeProofsFind Aml.Parser
  Aml.ParserTotalTree Aml.ParserTotalTree2 Aml.ParserTotalBase
  Aml.ParserFragBase Aml.ParserFragFirst Aml.ParserFragConn Aml.ParserFragWalk Aml.ParserFragRose.
Import ListNotations.
Local Open Scope N_scope.

Ltac Zify.zify_post_hook ::= Z.div_mod_to_equations.

(** ---- the walk over nodes that are not Scope directives ---- *)
Section MergeS.
Variable g : ghost.
Variable pl : list pay.
Variable h : N.
Variable S : N -> Prop.
Hypothesis Sclosed : forall y c, S y -> In c (kids g y) -> S c.
Hypothesis S0 : forall y, S y -> y <> 0.
Hypothesis Hall : forall y a, S y -> pget pl y = Some a -> y_op a <> opFreed -> merge_ok h a.

Definition MWs (f : nat) : Prop := forall x a s, Rep (p_tree s) g pl -> p_handle s = h -> S x ->
  pget pl x = Some a -> y_op a <> opFreed -> fwalk g f x ->
  wp False (mergeScopeDirectives f x) s (fun r s' => r = ROk /\ s' = s).

Definition MLs (f : nat) : Prop := forall p l1 l2 res s, Rep (p_tree s) g pl -> p_handle s = h ->
  kids g p = l1 ++ l2 -> (forall c, In c l2 -> S c) -> floop g f l2 ->
  wp False (mergeScope_loop f (hd InvalidIndex l2) res) s (fun r s' => r = res /\ s' = s).

Lemma mergeS_walk f : MLs f -> MWs (Datatypes.S f).
Proof.
  intros IHl x a s H Hh HSx Ha Hl Hf. rewrite mergeScopeDirectives_S.
  apply wp_bind. eapply wp_objectAt_rep; [exact H|exact Ha|exact Hl|].
  apply wp_bind. eapply wp_rdf_rep; [exact H|exact Ha|exact Hl|]. intros o _ _ Hfirst _. rewrite Hfirst.
  apply wp_bind. pose proof (S0 x HSx) as Hx0. apply N.eqb_neq in Hx0. rewrite Hx0. apply wp_ret.
  apply wp_bind. eapply wp_rdo_rep; [exact H|exact Ha|exact Hl|]. intros oo Hpay _ Hfirst' _.
  destruct (Hall x a HSx Ha Hl) as (op & flags & af & Hrow & Hcond). rewrite (pay_info _ _ Hpay).
  apply wp_bind. eapply wp_info; [exact Hrow|]. cbv beta iota.
  destruct (hasFlag flags aml_pOpFlagExecutable) eqn:Ex; [apply wp_ret; auto|].
  destruct Hcond as [Hc|Hc]; [discriminate|].
  apply wp_bind, wp_get. rewrite (pay_op _ _ Hpay), (pay_th _ _ Hpay), Hh, Hc.
  apply wp_bind. apply wp_ret. cbv iota.
  cbn [fwalk] in Hf. eapply wp_conseq; [apply (IHl x [] (kids g x) ROk s H Hh eq_refl)|].
  - intros c Hc'. eapply Sclosed; eauto.
  - exact Hf.
  - intros r s' HQ. exact HQ.
Qed.

Lemma mergeS_loop f : MWs f -> MLs f -> MLs (Datatypes.S f).
Proof.
  intros IHw IHl p l1 l2 res s H Hh Hk HS Hf. rewrite mergeScope_loop_S.
  destruct l2 as [|c r]; cbn [hd]; [rewrite N.eqb_refl; apply wp_ret; auto|].
  assert (Hin : In c (kids g p)) by (rewrite Hk; apply in_or_app; right; left; reflexivity).
  destruct (rep_kid_pay _ _ _ _ _ H Hin) as (ac & Hac & Hlc).
  rewrite (rep_not_Inv _ _ _ _ _ H Hac).
  apply wp_bind. eapply wp_objectAt_rep; [exact H|exact Hac|exact Hlc|].
  apply wp_bind. eapply (wp_rdf_sib False p l1 c r); [exact H|exact Hk|]. intros o _ _ _ Hnext _. rewrite Hnext.
  apply wp_bind. eapply (wp_rdf_sib False p l1 c r); [exact H|exact Hk|]. intros o' Hidx _ _ _ _. rewrite Hidx.
  cbn [floop] in Hf. destruct Hf as [Hfc Hfr].
  apply wp_bind. eapply wp_conseq; [apply (IHw c ac s H Hh (HS c (or_introl eq_refl)) Hac Hlc Hfc)|]. intros r0 s' (-> & ->).
  cbv iota. apply (IHl p (l1 ++ [c]) r res s H Hh); [rewrite <- app_assoc; exact Hk| |exact Hfr].
  intros c' Hc'. apply HS. right. exact Hc'.
Qed.

(** one step of the loop over a child that is left alone *)
Lemma merge_step f p l1 c r res s (Q : pres -> pstate -> Prop) :
  MWs f -> Rep (p_tree s) g pl -> p_handle s = h -> kids g p = l1 ++ c :: r -> S c -> fwalk g f c ->
  wp False (mergeScope_loop f (hd InvalidIndex r) res) s Q ->
  wp False (mergeScope_loop (Datatypes.S f) c res) s Q.
Proof.
  intros IHw H Hh Hk HS Hfc K. rewrite mergeScope_loop_S.
  assert (Hin : In c (kids g p)) by (rewrite Hk; apply in_or_app; right; left; reflexivity).
  destruct (rep_kid_pay _ _ _ _ _ H Hin) as (ac & Hac & Hlc).
  rewrite (rep_not_Inv _ _ _ _ _ H Hac).
  apply wp_bind. eapply wp_objectAt_rep; [exact H|exact Hac|exact Hlc|].
  apply wp_bind. eapply (wp_rdf_sib False p l1 c r); [exact H|exact Hk|]. intros o _ _ _ Hnext _. rewrite Hnext.
  apply wp_bind. eapply (wp_rdf_sib False p l1 c r); [exact H|exact Hk|]. intros o' Hidx _ _ _ _. rewrite Hidx.
  apply wp_bind. eapply wp_conseq; [apply (IHw c ac s H Hh HS Hac Hlc Hfc)|]. intros r0 s' (-> & ->).
  cbv iota. exact K.
Qed.

Lemma mergeS_all : forall f, MWs f /\ MLs f.
Proof.
  induction f as [|f (IHw & IHl)].
  - split; intro; intros; cbn in *; contradiction.
  - split; [apply mergeS_walk; exact IHl|apply mergeS_loop; assumption].
Qed.
End MergeS.

(** ---- free ---- *)
Lemma list_upd_id {A} (l : list A) n : list_upd l n (fun a => a) = l.
Proof. revert n. induction l as [|x l IH]; intros [|n]; cbn [list_upd]; try reflexivity. rewrite IH. reflexivity. Qed.

Lemma remove1_id' a l : ~ In a l -> remove1 a l = l.
Proof.
  induction l as [|x l IH]; intros H; cbn [remove1]; [reflexivity|].
  destruct (N.eqb_spec x a) as [E|E]; [exfalso; apply H; left; exact E|]. rewrite IH; auto. intros Hi. apply H. right. exact Hi.
Qed.

Lemma rep_free (t : T) g pl x a :
  Rep t g pl -> pget pl x = Some a -> y_op a <> opFreed -> kids g x = [] ->
  exists t' g', free t x = Ok t' /\ Rep t' g' (pupd pl x (ys_opcode opFreed)) /\
    length (g_kids g') = length (g_kids g) /\ g_free g' = x :: g_free g /\
    (forall p, kids g' p = remove1 x (kids g p)).
Proof.
  intros H Ha Hl Hk. pose proof (rep_R _ _ _ H) as HR.
  assert (Hlive : glive g x) by (eapply rep_live; eauto).
  destruct (free_R t g x HR (conj Hlive Hk)) as (t' & E & HR').
  exists t', (astep g (OpFree x)). split; [exact E|].
  destruct (rep_get _ _ _ H _ _ Ha) as (xo & Hxo & Epay).
  assert (Hlxo : o_opcode xo <> opFreed) by (rewrite (pay_op _ _ Epay); exact Hl).
  assert (Hkids : forall p, kids (astep g (OpFree x)) p = remove1 x (kids g p)).
  { intros p. cbn [astep]. rewrite (parent_of_spec _ _ _ _ HR Hxo Hlxo).
    destruct (N.eqb_spec (o_parent xo) InvalidIndex) as [Ep|Ep].
    - change (kids g p = remove1 x (kids g p)). symmetry. apply remove1_id'.
      apply (proj2 (R_groot _ _ HR x xo Hxo Hlxo) Ep).
    - destruct (R_parent_live _ _ HR x xo Hxo Hlxo Ep) as (Hin & _).
      assert (Hplt : o_parent xo < N.of_nat (length (g_kids g))) by (eapply In_kids_lt; eauto).
      change (kids (set_kids g (o_parent xo) (remove1 x (kids g (o_parent xo)))) p = remove1 x (kids g p)).
      rewrite kids_set_kids by exact Hplt. destruct (N.eqb_spec p (o_parent xo)) as [->|Hne]; [reflexivity|].
      symmetry. apply remove1_id'. intros Hi. apply Hne. eapply (R_parent_unique _ _ HR); eauto. }
  assert (Hlen : length (g_kids (astep g (OpFree x))) = length (g_kids g)).
  { cbn [astep]. destruct (parent_of g x); cbn [g_kids]; [apply set_kids_len|reflexivity]. }
  split; [|split; [exact Hlen|split; [reflexivity|exact Hkids]]].
  split; [exact HR'|].
  (* the payloads *)
  unfold free in E.
  apply bind_ok in E. destruct E as (par & _ & E).
  apply bind_ok in E. destruct E as (t1 & Ht1 & E).
  assert (F1 : map pay_of (t_pool t1) = pl).
  { destruct (negb (par =? InvalidIndex)).
    - apply bind_ok in Ht1. destruct Ht1 as (pp & _ & Hd). rewrite (pframe_pay _ _ (detach_pframe _ _ _ _ Hd)). apply (rep_pl _ _ _ H).
    - inversion Ht1; subst. apply (rep_pl _ _ _ H). }
  apply bind_ok in E. destruct E as (first & _ & E).
  apply bind_ok in E. destruct E as (lst & _ & E).
  destruct (negb (first =? InvalidIndex) || negb (lst =? InvalidIndex)); [discriminate|].
  apply bind_ok in E. destruct E as (t2 & Ht2 & E). destruct (wr_inv _ _ _ _ Ht2) as (-> & _).
  apply bind_ok in E. destruct E as (t3 & Ht3 & E). destruct (wr_inv _ _ _ _ Ht3) as (-> & _).
  apply bind_ok in E. destruct E as (oi & _ & E). inversion E; subst t'. clear E.
  cbn [t_pool]. unfold tset. cbn [t_pool]. unfold pupd.
  rewrite (map_list_upd pay_of _ (fun a => a)) by (intros o; reflexivity). rewrite list_upd_id.
  rewrite (map_list_upd pay_of (set_opcode opFreed) (ys_opcode opFreed)) by (intros o; reflexivity).
  rewrite F1. reflexivity.
Qed.

Lemma wp_free_rep P x a s g pl (Q : unit -> pstate -> Prop) :
  Rep (p_tree s) g pl -> pget pl x = Some a -> y_op a <> opFreed -> kids g x = [] ->
  (forall t' g', Rep t' g' (pupd pl x (ys_opcode opFreed)) ->
     length (g_kids g') = length (g_kids g) -> g_free g' = x :: g_free g ->
     (forall p, kids g' p = remove1 x (kids g p)) -> Q tt (with_tree s t')) ->
  wp P (freeM x) s Q.
Proof.
  intros H Ha Hl Hk K. destruct (rep_free _ _ _ _ _ H Ha Hl Hk) as (t' & g' & E & H' & A & B & C).
  unfold freeM. apply wp_tu. exists t'. split; [exact E|]. apply (K t' g'); assumption.
Qed.

(** ---- moveContents ---- *)
Lemma moveContents_go_S fuel' contentsObj targetObj siblingIndex : moveContents_go (S fuel') contentsObj targetObj siblingIndex =
  (if siblingIndex =? InvalidIndex then ret tt else
  mlet argObj <~ objectAt' siblingIndex ;;
  mlet nx <~ rdf argObj o_next ;;
  detachM (Some contentsObj) (Some argObj) ;;;
  appendM (Some targetObj) argObj ;;;
  moveContents_go fuel' contentsObj targetObj nx).
Proof. reflexivity. Qed.

Lemma desc_redirect' g g2 tg a : (forall v c, v <> tg -> In c (kids g2 v) -> In c (kids g v)) ->
  forall x, desc g2 a x -> desc g a x \/ desc g a tg.
Proof.
  intros Hsub x Hd. induction Hd as [|p c Hd IH Hin]; [left; constructor|].
  destruct IH as [IH|IH]; [|right; exact IH].
  destruct (N.eq_dec p tg) as [->|Hne]; [right; exact IH|]. left. eapply desc_step; [exact IH|apply Hsub; assumption].
Qed.

Lemma move_all : forall ms fuel src dst kd s g pl asrc adst (Q : unit -> pstate -> Prop),
  Rep (p_tree s) g pl -> kids g src = ms -> kids g dst = kd -> src <> dst ->
  pget pl src = Some asrc -> y_op asrc <> opFreed -> pget pl dst = Some adst -> y_op adst <> opFreed ->
  (forall m, In m ms -> ~ desc g m dst) -> (length ms < fuel)%nat ->
  (forall t' g', Rep t' g' pl -> length (g_kids g') = length (g_kids g) -> g_free g' = g_free g ->
     (forall y, kids g' y = if y =? dst then kd ++ ms else if y =? src then [] else kids g y) -> Q tt (with_tree s t')) ->
  wp False (moveContents_go fuel src dst (hd InvalidIndex ms)) s Q.
Proof.
  induction ms as [|m ms IH]; intros fuel src dst kd s g pl asrc adst Q H Hks Hkd Hne Hsrc Hlsrc Hdst Hldst Hnd Hf K.
  - destruct fuel as [|fuel]; [cbn in Hf; lia|]. rewrite moveContents_go_S. cbn [hd]. rewrite N.eqb_refl. apply wp_ret.
    assert (E : with_tree s (p_tree s) = s) by (destruct s; reflexivity). rewrite <- E. apply (K (p_tree s) g H eq_refl eq_refl).
    intros y. destruct (N.eqb_spec y dst) as [->|]; [rewrite app_nil_r; exact Hkd|]. destruct (N.eqb_spec y src) as [->|]; [exact Hks|reflexivity].
  - destruct fuel as [|fuel]; [cbn in Hf; lia|]. rewrite moveContents_go_S. cbn [hd].
    pose proof (rep_R _ _ _ H) as HR.
    assert (Hin : In m (kids g src)) by (rewrite Hks; left; reflexivity).
    destruct (rep_kid_pay _ _ _ _ _ H Hin) as (am & Ham & Hlm).
    rewrite (rep_not_Inv _ _ _ _ _ H Ham).
    apply wp_bind. eapply wp_objectAt_rep; [exact H|exact Ham|exact Hlm|].
    apply wp_bind. eapply (wp_rdf_sib False src [] m ms); [exact H|exact Hks|]. intros o _ _ _ Hnext _. rewrite Hnext.
    assert (Hlive_src : glive g src) by (eapply rep_live; eauto).
    assert (Hlive_dst : glive g dst) by (eapply rep_live; eauto).
    assert (Hlive_m : glive g m) by (eapply rep_live; eauto).
    assert (Hslt : src < N.of_nat (length (g_kids g))) by (apply glive_lt; exact Hlive_src).
    assert (Hdlt : dst < N.of_nat (length (g_kids g))) by (apply glive_lt; exact Hlive_dst).
    assert (Hnodup : NoDup (kids g src)).
    { destruct (rep_obj _ _ _ H _ _ Hsrc Hlsrc) as (so & Hso & Epay & _).
      assert (Hlso : o_opcode so <> opFreed) by (rewrite (pay_op _ _ Epay); exact Hlsrc).
      destruct (R_kids _ _ HR _ _ Hso Hlso) as (_ & _ & _ & Hndp). exact Hndp. }
    rewrite Hks in Hnodup. apply NoDup_cons_iff in Hnodup. destruct Hnodup as [Hmnot Hnd'].
    apply wp_bind. eapply wp_detach_rep; [exact H|exact Hin|]. intros t1 H1.
    rewrite Hks in H1. cbn [remove1] in H1. rewrite N.eqb_refl in H1.
    set (g1 := set_kids g src ms) in *.
    assert (Hk1 : forall q, kids g1 q = if q =? src then ms else kids g q) by (intros q; unfold g1; apply kids_set_kids; exact Hslt).
    assert (Hroot1 : groot g1 m).
    { intros q Hq. rewrite Hk1 in Hq. destruct (N.eqb_spec q src) as [E|E]; [contradiction|].
      apply E. eapply (R_parent_unique _ _ HR); eauto. }
    assert (Hsub1 : forall q c, In c (kids g1 q) -> In c (kids g q)).
    { intros q c. rewrite Hk1. destruct (N.eqb_spec q src) as [->|]; [rewrite Hks; intros Hi; right; exact Hi|auto]. }
    assert (Hnd1 : ~ desc g1 m dst).
    { intros Hd. apply (Hnd m (or_introl eq_refl)). eapply desc_mono; [exact Hsub1|exact Hd]. }
    apply wp_bind. eapply (wp_append_rep False dst m _ g1 pl); [exact H1|apply glive_set_kids; exact Hlive_dst|apply glive_set_kids; exact Hlive_m|exact Hroot1|exact Hnd1|].
    intros t2 H2. rewrite Hk1 in H2. apply N.eqb_neq in Hne. rewrite N.eqb_sym in Hne. rewrite Hne, Hkd in H2.
    set (g2 := set_kids g1 dst (kd ++ [m])) in *.
    assert (Hlen1 : length (g_kids g1) = length (g_kids g)) by (unfold g1; apply len_set_kids).
    assert (Hk2 : forall q, kids g2 q = if q =? dst then kd ++ [m] else if q =? src then ms else kids g q).
    { intros q. unfold g2. rewrite kids_set_kids by (rewrite Hlen1; exact Hdlt). rewrite Hk1. reflexivity. }
    apply N.eqb_neq in Hne.
    eapply (IH fuel src dst (kd ++ [m]) _ g2 pl asrc adst Q); [exact H2| | |congruence|exact Hsrc|exact Hlsrc|exact Hdst|exact Hldst| |cbn [length] in Hf; lia|].
    + rewrite Hk2. destruct (N.eqb_spec src dst); [congruence|]. rewrite N.eqb_refl. reflexivity.
    + rewrite Hk2, N.eqb_refl. reflexivity.
    + intros m' Hm' Hd.
      destruct (desc_redirect' g g2 dst m') with (x := dst) as [Hd'|Hd']; [|exact Hd| |].
      * intros v c Hv Hc. rewrite Hk2 in Hc. apply N.eqb_neq in Hv. rewrite Hv in Hc.
        destruct (N.eqb_spec v src) as [->|]; [rewrite Hks; right; exact Hc|exact Hc].
      * apply (Hnd m' (or_intror Hm') Hd').
      * apply (Hnd m' (or_intror Hm') Hd').
    + intros t' g' H' Hl' Hf' Hk'. apply (K t' g' H').
      * rewrite Hl'. unfold g2. rewrite len_set_kids. exact Hlen1.
      * rewrite Hf'. reflexivity.
      * intros y. rewrite Hk', Hk2. destruct (N.eqb_spec y dst) as [->|]; [rewrite <- app_assoc; reflexivity|].
        destruct (N.eqb_spec y src); reflexivity.
Qed.

(** reading the whole object of a child *)
Lemma wp_rdo_kid P p l1 c l2 s g pl (Q : Obj -> pstate -> Prop) :
  Rep (p_tree s) g pl -> kids g p = l1 ++ c :: l2 ->
  (forall o, pget pl c = Some (pay_of o) -> o_parent o = p -> o_first o = hd InvalidIndex (kids g c) ->
             o_last o = last (kids g c) InvalidIndex -> Q o s) ->
  wp P (rdo c) s Q.
Proof.
  intros H Hk K. destruct (rep_sib _ _ _ H _ _ _ _ Hk) as (o & Ho & Hlo & _ & Hpar & _ & _).
  apply wp_rdo. exists o. split; [exact Ho|]. pose proof (rep_get_inv _ _ _ H _ _ Ho) as Hp.
  destruct (R_kids _ _ (rep_R _ _ _ H) _ _ Ho Hlo) as (Hf & Hla & _). apply K; auto.
Qed.

Lemma scope_info : opInfo 9 = Some (aml_pOpScope, 0, 67855). Proof. reflexivity. Qed.

Definition FR : pay -> pay := ys_opcode opFreed.

(** ---- one Scope directive below the root, over an existing ScopeBlock ---- *)
Lemma remove1_notin_id a (l : list N) : ~ In a l -> remove1 a l = l.
Proof. apply remove1_id'. Qed.

Lemma merge_scope f h c p sb d ms kd l1 l2 bytes tbl sl s g pl a0 ac ap asb ad (Q : pres -> pstate -> Prop) :
  Rep (p_tree s) g pl -> p_handle s = h ->
  kids g 0 = l1 ++ c :: l2 -> kids g c = [p; sb] -> kids g p = [] -> kids g sb = ms -> kids g d = kd ->
  pget pl 0 = Some a0 -> y_op a0 <> opFreed ->
  pget pl c = Some ac -> y_op ac = aml_pOpScope -> y_info ac = 9 -> y_th ac = h ->
  pget pl p = Some ap -> y_op ap <> opFreed -> y_val ap = Some (VBytes tbl sl) -> slice_bytes s tbl sl = Ok bytes ->
  pget pl sb = Some asb -> y_op asb <> opFreed ->
  pget pl d = Some ad -> y_op ad = aml_pOpIntScopeBlock -> In d l1 ->
  c <> 0 -> d <> 0 -> p <> 0 -> sb <> 0 -> c <> d -> p <> c -> sb <> c -> p <> sb -> p <> d -> sb <> d ->
  Find (p_tree s) 0 bytes = Ok d ->
  (forall m, In m ms -> ~ desc g m d) ->
  (forall t' g', Rep t' g' (pupd (pupd (pupd pl p FR) sb FR) c FR) ->
     length (g_kids g') = length (g_kids g) -> g_free g' = c :: sb :: p :: g_free g ->
     (forall y, kids g' y = if y =? d then kd ++ ms else if y =? 0 then l1 ++ l2
                            else if (y =? c) || (y =? p) || (y =? sb) then [] else kids g y) ->
     wp False (mergeScope_loop f (hd InvalidIndex ms) ROk)
        (with_counters (with_tree s t') (p_resolvePasses s) (w32 (p_mergedScopes s + 1)) (p_relocatedObjects s)) Q) ->
  wp False (mergeScopeDirectives (S f) c) s Q.
Proof.
  intros H Hh Hk0 Hkc Hkp Hksb Hkd Hp0 Hl0 Hc Hopc Hinfc Hthc Hp Hlp Hvalp Hbytes Hsb Hlsb Hd Hopd Hdin
         N1 N2 N3 N4 N5 N6 N7 N8 N9 N10 HFind Hnd K.
  pose proof (rep_R _ _ _ H) as HR.
  assert (Hlc : y_op ac <> opFreed) by (rewrite Hopc; discriminate).
  assert (Hld : y_op ad <> opFreed) by (rewrite Hopd; discriminate).
  assert (Hin_c0 : In c (kids g 0)) by (rewrite Hk0; apply in_or_app; right; left; reflexivity).
  assert (Hin_pc : In p (kids g c)) by (rewrite Hkc; left; reflexivity).
  assert (Hin_sc : In sb (kids g c)) by (rewrite Hkc; right; left; reflexivity).
  assert (Hnd0 : NoDup (kids g 0)).
  { destruct (rep_obj _ _ _ H _ _ Hp0 Hl0) as (o0 & Ho0 & Ep0 & _).
    assert (Hlo0 : o_opcode o0 <> opFreed) by (rewrite (pay_op _ _ Ep0); exact Hl0).
    destruct (R_kids _ _ HR _ _ Ho0 Hlo0) as (_ & _ & _ & Hn). exact Hn. }
  assert (Hc_l : ~ In c (l1 ++ l2)) by (apply NoDup_mid_notin; rewrite <- Hk0; exact Hnd0).
  assert (Hpu : forall q q' y, In y (kids g q) -> In y (kids g q') -> q = q') by (intros q q' y A B; eapply (R_parent_unique _ _ HR); eauto).
  rewrite mergeScopeDirectives_S.
  apply wp_bind. eapply wp_objectAt_rep; [exact H|exact Hc|exact Hlc|].
  apply wp_bind. eapply wp_rdf_rep; [exact H|exact Hc|exact Hlc|]. intros o _ _ Hfirst _. rewrite Hfirst, Hkc. cbn [hd].
  apply wp_bind. assert (Ec0 : c =? 0 = false) by (apply N.eqb_neq; exact N1). rewrite Ec0. apply wp_ret.
  apply wp_bind. eapply (wp_rdo_kid False 0 l1 c l2); [exact H|exact Hk0|]. intros oo Hpayc Hparc Hfirstc Hlastc.
  rewrite Hc in Hpayc. inversion Hpayc as [Epc]. symmetry in Epc.
  rewrite (pay_info _ _ Epc), Hinfc. apply wp_bind. eapply wp_info; [exact scope_info|]. cbv beta iota.
  change (hasFlag 0 aml_pOpFlagExecutable) with false. cbv iota.
  apply wp_bind, wp_get. rewrite (pay_op _ _ Epc), Hopc, (pay_th _ _ Epc), Hthc, Hh, !N.eqb_refl. cbn [andb].
  rewrite Hfirstc, Hkc. cbn [hd]. rewrite (rep_not_Inv _ _ _ _ _ H Hp).
  apply wp_bind.
  apply wp_bind. eapply wp_objectAt_rep; [exact H|exact Hp|exact Hlp|].
  apply wp_bind. eapply wp_rdo_rep; [exact H|exact Hp|exact Hlp|]. intros nop Hpayp _ _ _. rewrite (pay_val _ _ Hpayp), Hvalp.
  apply wp_bind. eapply wp_bytesOf'; [exact Hbytes|].
  apply wp_bind. eapply wp_tq; [rewrite Hparc; exact HFind|].
  rewrite (rep_not_Inv _ _ _ _ _ H Hd).
  (* scopeOf: the target is a ScopeBlock *)
  apply wp_bind. unfold scopeOf.
  apply wp_bind. eapply wp_objectAt_rep; [exact H|exact Hd|exact Hld|].
  apply wp_bind. eapply wp_rdf_rep; [exact H|exact Hd|exact Hld|]. intros od Hpayd _ _ _. rewrite (pay_op _ _ Hpayd), Hopd.
  change (aml_pOpIntScopeBlock =? aml_pOpIntScopeBlock) with true. cbv iota. apply wp_ret.
  (* the contents *)
  apply wp_bind. eapply wp_rdf_rep; [exact H|exact Hc|exact Hlc|]. intros o2 _ _ _ Hlast2. rewrite Hlast2, Hkc. cbn [last].
  apply wp_bind. eapply wp_objectAt_rep; [exact H|exact Hsb|exact Hlsb|].
  apply wp_bind. eapply wp_rdf_rep; [exact H|exact Hsb|exact Hlsb|]. intros osb _ _ Hfsb _. rewrite Hfsb, Hksb.
  unfold poolFuel. apply wp_bind, wp_get.
  apply wp_bind. eapply (move_all ms _ sb d kd s g pl asb ad); [exact H|exact Hksb|exact Hkd|exact N10|exact Hsb|exact Hlsb|exact Hd|exact Hld|exact Hnd| |].
  { pose proof (kids_length _ _ HR sb) as Hkl. rewrite Hksb in Hkl. lia. }
  intros t1 g1 H1 L1 F1 K1.
  (* free the name path *)
  assert (Hkp1 : kids g1 p = []).
  { rewrite K1. destruct (N.eqb_spec p d); [congruence|]. destruct (N.eqb_spec p sb); [congruence|exact Hkp]. }
  apply wp_bind. eapply (wp_free_rep False p ap _ g1 pl); [exact H1|exact Hp|exact Hlp|exact Hkp1|].
  intros t2 g2 H2 L2 F2 K2.
  (* free the ScopeBlock of the directive *)
  assert (Hsb2 : pget (pupd pl p FR) sb = Some asb).
  { rewrite pget_pupd. destruct (N.eqb_spec sb p); [congruence|exact Hsb]. }
  assert (Hksb2 : kids g2 sb = []).
  { rewrite K2, K1. destruct (N.eqb_spec sb d); [congruence|]. rewrite N.eqb_refl. reflexivity. }
  apply wp_bind. eapply (wp_free_rep False sb asb _ g2 (pupd pl p FR)); [exact H2|exact Hsb2|exact Hlsb|exact Hksb2|].
  intros t3 g3 H3 L3 F3 K3.
  (* free the directive *)
  assert (Hc3 : pget (pupd (pupd pl p FR) sb FR) c = Some ac).
  { rewrite !pget_pupd. destruct (N.eqb_spec c sb); [congruence|]. destruct (N.eqb_spec c p); [congruence|exact Hc]. }
  assert (Hkc3 : kids g3 c = []).
  { rewrite K3, K2, K1. destruct (N.eqb_spec c d); [congruence|]. destruct (N.eqb_spec c sb); [congruence|]. rewrite Hkc.
    cbn [remove1]. rewrite N.eqb_refl. cbn [remove1]. rewrite N.eqb_refl. reflexivity. }
  apply wp_bind. eapply (wp_free_rep False c ac _ g3 (pupd (pupd pl p FR) sb FR)); [exact H3|exact Hc3|exact Hlc|exact Hkc3|].
  intros t4 g4 H4 L4 F4 K4.
  apply wp_bind. unfold wp at 1. scbn. apply wp_ret. cbv iota.
  apply (K t4 g4 H4).
  - congruence.
  - rewrite F4, F3, F2, F1. reflexivity.
  - intros y. rewrite K4, K3, K2, K1.
    assert (Hms_par : forall m, In m ms -> forall q, In m (kids g q) -> q = sb) by (intros m Hm q Hq; apply (Hpu q sb m Hq); rewrite Hksb; exact Hm).
    assert (Hkd_par : forall m, In m kd -> forall q, In m (kids g q) -> q = d) by (intros m Hm q Hq; apply (Hpu q d m Hq); rewrite Hkd; exact Hm).
    assert (Hnot : forall z, In z (kids g c) \/ z = c -> ~ In z (kd ++ ms)).
    { intros z Hz Hi. apply in_app_or in Hi. destruct Hi as [Hi|Hi].
      - destruct Hz as [Hz| ->]; [pose proof (Hkd_par z Hi c Hz); congruence|pose proof (Hkd_par c Hi 0 Hin_c0); congruence].
      - destruct Hz as [Hz| ->]; [pose proof (Hms_par z Hi c Hz); congruence|pose proof (Hms_par c Hi 0 Hin_c0); congruence]. }
    destruct (N.eqb_spec y d) as [->|Hyd].
    + rewrite !remove1_notin_id; [reflexivity|apply Hnot; left; exact Hin_pc| |].
      * rewrite remove1_notin_id by (apply Hnot; left; exact Hin_pc). apply Hnot. left. exact Hin_sc.
      * rewrite !remove1_notin_id; [apply Hnot; right; reflexivity|apply Hnot; left; exact Hin_pc|].
        rewrite remove1_notin_id by (apply Hnot; left; exact Hin_pc). apply Hnot. left. exact Hin_sc.
    + destruct (N.eqb_spec y sb) as [->|Hys].
      * destruct (N.eqb_spec sb 0); [congruence|]. rewrite ?N.eqb_refl, ?orb_true_r. reflexivity.
      * destruct (N.eqb_spec y 0) as [->|Hy0].
        -- rewrite Hk0. rewrite (remove1_notin_id p) by (intros Hi; pose proof (Hpu 0 c p (eq_ind_r (fun l => In p l) Hi Hk0) Hin_pc); congruence).
           rewrite (remove1_notin_id sb) by (intros Hi; pose proof (Hpu 0 c sb (eq_ind_r (fun l => In sb l) Hi Hk0) Hin_sc); congruence).
           apply remove1_split. intros Hi. apply Hc_l. apply in_or_app. left. exact Hi.
        -- destruct (N.eqb_spec y c) as [->|Hyc].
           ++ cbn [orb]. rewrite Hkc. cbn [remove1]. rewrite N.eqb_refl. cbn [remove1]. rewrite N.eqb_refl. reflexivity.
           ++ destruct (N.eqb_spec y p) as [->|Hyp].
              ** cbn [orb]. rewrite Hkp. reflexivity.
              ** cbn [orb].
                 rewrite (remove1_notin_id p) by (intros Hi; pose proof (Hpu y c p Hi Hin_pc); congruence).
                 rewrite (remove1_notin_id sb) by (intros Hi; pose proof (Hpu y c sb Hi Hin_sc); congruence).
                 apply remove1_notin_id. intros Hi. pose proof (Hpu y 0 c Hi Hin_c0). congruence.
Qed.
