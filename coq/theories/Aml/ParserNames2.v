(** C11 (stretch): connectNamedObjArgs on the tree the first pass builds for a flat list of
    [Name(<segment>, <integer constant>)] statements: every Name object gets its name and its constant. *)
From Coq Require Import NArith Arith List Bool Lia.
From Coq Require Import ZifyBool ZifyN ZifyNat.
From FF Require Import Lib.Word Gen.Consts_device_acpi_aml Gen.Consts_aml_tree Aml.Stream Aml.Lex Aml.LexProofs
  Aml.Grammar Aml.View Aml.WfProgram Aml.LexRoundtrip
  Aml.Tree Aml.TreeSpec Aml.TreeProofs Aml.TreeProofsOps Aml.TreeProofsFind Aml.Parser
  Aml.ParserTotalTree Aml.ParserTotalTree2 Aml.ParserTotalLex Aml.ParserTotalTable Aml.ParserTotalBase Aml.ParserTotalLeaf
  Aml.ParserTotalFirst Aml.ParserNames1.
Import ListNotations.
Local Open Scope N_scope.

(** ---- the invariant of the tree passes, without the reader ---- *)
Record TR (s : pstate) (g : ghost) : Prop := mkTR {
  tr_R : R (p_tree s) g;
  tr_info : info_valid (p_tree s)
}.

Lemma TR_live_get s g p : TR s g -> glive g p -> exists o, tget (p_tree s) p = Some o /\ o_opcode o <> opFreed.
Proof. intros H Hl. apply (R_live_glive _ _ (tr_R _ _ H)) in Hl. exact Hl. Qed.

Lemma TR_ObjectAt s g p : TR s g -> glive g p -> ObjectAt (p_tree s) p = Some p.
Proof.
  intros H Hl. destruct (TR_live_get _ _ _ H Hl) as (o & Hg & Ho).
  eapply ObjectAt_live; eauto. apply (R_bound _ _ (tr_R _ _ H)).
Qed.

Lemma TR_pframe s g t' g' : TR s g -> R t' g' -> pframe (p_tree s) t' -> TR (with_tree s t') g'.
Proof. intros [A B] HR Hf. constructor; auto. eapply info_valid_pframe; eauto. Qed.

(** first / last / siblings of an object whose child list is known *)
Lemma TR_links s g x o : TR s g -> tget (p_tree s) x = Some o -> o_opcode o <> opFreed ->
  o_first o = hd InvalidIndex (kids g x) /\ o_last o = last (kids g x) InvalidIndex.
Proof. intros H Hg Hl. destruct (R_kids _ _ (tr_R _ _ H) _ _ Hg Hl) as (A & B & _). auto. Qed.

Lemma TR_sibling s g p l1 c l2 : TR s g -> glive g p -> kids g p = l1 ++ c :: l2 ->
  exists o, tget (p_tree s) c = Some o /\ o_opcode o <> opFreed /\ o_parent o = p /\
            o_prev o = last l1 InvalidIndex /\ o_next o = hd InvalidIndex l2 /\ o_index o = c.
Proof.
  intros H Hl Hk. destruct (TR_live_get _ _ _ H Hl) as (po & Hpo & Hlpo).
  destruct (R_kids _ _ (tr_R _ _ H) _ _ Hpo Hlpo) as (_ & _ & Hch & _). rewrite Hk in Hch.
  destruct (chain_mid _ _ _ _ _ Hch) as (o & Ho & Hlo & Hp & Hpv & Hnx).
  exists o. repeat split; auto. apply (R_index _ _ (tr_R _ _ H) _ _ Ho).
Qed.

(** ---- connectNamedObjArgs on an object without children ---- *)
Lemma CN_leaf P f x s g (Q : pres -> pstate -> Prop) :
  TR s g -> glive g x -> kids g x = [] -> Q ROk s -> wp P (connectNamedObjArgs (2 + f) x) s Q.
Proof.
  intros H Hl Hk HQ. change (2 + f)%nat with (S (S f)). cbn [connectNamedObjArgs].
  apply wp_bind. apply wp_objectAt'; [apply (TR_ObjectAt _ _ _ H Hl)|].
  destruct (TR_live_get _ _ _ H Hl) as (o & Ho & Hlo).
  apply wp_bind. apply wp_rdf. exists o. split; [exact Ho|].
  destruct (TR_links _ _ _ _ H Ho Hlo) as (_ & Hlast). rewrite Hlast, Hk. cbn [last].
  cbn [connectNamed_loop]. rewrite N.eqb_refl. apply wp_ret. exact HQ.
Qed.

Lemma live_not_Inv s g x : TR s g -> glive g x -> (x =? InvalidIndex) = false.
Proof.
  intros H Hl. destruct (TR_live_get _ _ _ H Hl) as (o & Ho & _). apply N.eqb_neq.
  eapply (R_pos_not_Inv _ _ (tr_R _ _ H)); eauto.
Qed.

(** a child without children of its own is stepped over *)
Lemma CNloop_leaf P f obj x l1 l2 s g (Q : pres -> pstate -> Prop) :
  TR s g -> glive g obj -> kids g obj = l1 ++ x :: l2 -> kids g x = [] ->
  wp P (connectNamed_loop (2 + f) obj (last l1 InvalidIndex)) s Q ->
  wp P (connectNamed_loop (3 + f) obj x) s Q.
Proof.
  intros H Hl Hk Hkx K. change (3 + f)%nat with (S (2 + f)). cbn [connectNamed_loop].
  assert (Hin : In x (kids g obj)) by (rewrite Hk; apply in_or_app; right; left; reflexivity).
  destruct ((R_gwf _ _ (tr_R _ _ H)) _ _ Hin) as (_ & Hlx).
  rewrite (live_not_Inv _ _ _ H Hlx).
  apply wp_bind. apply wp_objectAt'; [apply (TR_ObjectAt _ _ _ H Hlx)|].
  destruct (TR_sibling _ _ _ _ _ _ H Hl Hk) as (xo & Hxo & Hlxo & _ & Hprev & _ & Hidx).
  apply wp_bind. apply wp_rdf. exists xo. split; [exact Hxo|]. rewrite Hidx.
  apply wp_bind. apply (CN_leaf P f x s g); auto.
  cbn [pres_eqb negb]. cbv iota.
  apply wp_bind. apply wp_rdo. exists xo. split; [exact Hxo|].
  pose proof (tr_info _ _ H _ _ Hxo Hlxo) as Hinfo.
  destruct (opInfo (o_infoIndex xo)) as [[[op fl] af]|] eqn:Erow; [|contradiction].
  apply wp_bind. eapply wp_info; [exact Erow|].
  apply wp_bind, wp_get.
  destruct (TR_links _ _ _ _ H Hxo Hlxo) as (Hfirst & _). rewrite Hkx in Hfirst. cbn [hd] in Hfirst.
  rewrite Hfirst, N.eqb_refl. rewrite orb_true_r. cbn [orb].
  apply wp_bind. apply wp_rdf. exists xo. split; [exact Hxo|]. rewrite Hprev. exact K.
Qed.
