(** C11 (fragment F3): [parse_encode] for tables whose top-level items are declarations of the fragment F2 or
    Scope directives over one of the predefined scopes.

    The fragment: ONE table; every top-level item is
      - an item of F2 ([Name(SEG, integer constant)], [Device(SEG){...}], [Method(SEG, flags){ declarations }], nested), or
      - [Scope(\SEG){ items of F2 }] or [Scope(SEG){ items of F2 }] where SEG is one of the predefined scopes
        _GPE, _PR_, _SB_, _SI_, _TZ_ (any admissible PkgLength width);
    the encoded table is smaller than 256 MiB.  Productions added to F2: DefScope (PkgLength, NameString = RootChar NameSeg
    | NameSeg, TermList).  Not covered: Scope directives below the top level, Scope over declared objects, Scope(\). *)
From Coq Require Import NArith ZArith Arith List Bool Lia Permutation.
From Coq Require Import ZifyBool ZifyN ZifyNat.
From FF Require Import Lib.Word Gen.Consts_device_acpi_aml Gen.Consts_aml_tree Aml.Stream Aml.Lex Aml.LexProofs
  Aml.Tree Aml.TreeSpec Aml.Parser Aml.Grammar Aml.LexRoundtrip
  Aml.ParserFragBase Aml.ParserFragFirst Aml.ParserFragF0 Aml.ParserFragF0Conn Aml.ParserFragF0Top
  Aml.ParserFragRose Aml.ParserFragF1 Aml.ParserFragF1First Aml.ParserFragF1Conn Aml.ParserFragF1Top
  Aml.View Aml.ParserFragView Aml.ParserFragF0View Aml.ParserFragF0Final Aml.ParserFragSort Aml.ParserFragF1View Aml.WfProgram
  Aml.ParserFragF1Final Aml.ParserFragScope Aml.ParserFragScope3 Aml.ParserFragF3Top Aml.ParserFragF3View.
Import ListNotations.
Local Open Scope N_scope.

Ltac Zify.zify_post_hook ::= Z.div_mod_to_equations.

(** ---- the declared paths only grow ---- *)
Lemma env_mem_app a b p : env_mem (a ++ b) p = env_mem a p || env_mem b p.
Proof. induction a as [|[q k] a IH]; [reflexivity|]. cbn [app env_mem]. rewrite IH, orb_assoc. reflexivity. Qed.

Lemma env_add_mono out q k p : env_mem out p = true -> env_mem (env_add out q k) p = true.
Proof. intros Hm. unfold env_add. destruct (env_mem out q); [exact Hm|]. rewrite env_mem_app, Hm. reflexivity. Qed.

Lemma named_felems_mono sc p : forall elems out, env_mem out p = true -> env_mem (named_felems sc elems out) p = true.
Proof.
  unfold named_felems. induction elems as [|el r IH]; intros out Hm; [exact Hm|]. cbn [fold_left]. apply IH.
  destruct el; try exact Hm. apply env_add_mono. exact Hm.
Qed.

Lemma collect_mono e0 p : forall a sc out, env_mem out p = true -> env_mem (collect e0 sc a out) p = true.
Proof.
  fix IH 1. intros a sc out Hm.
  assert (HB : forall l sc' out', env_mem out' p = true ->
            env_mem ((fix body (l : list ast) (sc : path) (out : env) : env :=
                        match l with [] => out | x :: r => body r sc (collect e0 sc x out) end) l sc' out') p = true).
  { induction l as [|x r IHr]; intros sc' out' Hm'; [exact Hm'|]. apply IHr. apply IH. exact Hm'. }
  destruct a; cbn [collect]; try exact Hm; try (apply named_felems_mono; exact Hm);
    try (destruct (decl_path sc nm); [|exact Hm]; first [apply HB; apply env_add_mono; exact Hm|apply env_add_mono; exact Hm]).
  destruct (lookup e0 sc nm); [|exact Hm]. apply HB. exact Hm.
Qed.

Lemma collect_tables_mono e0 p tables : env_mem e0 p = true -> env_mem (collect_tables e0 tables) p = true.
Proof.
  unfold collect_tables. generalize e0 at 1 3. intros e1. revert e1. 
  induction tables as [|tb r IH]; intros out Hm; [exact Hm|]. cbn [fold_left]. apply IH.
  revert out Hm. induction tb as [|a tb IHt]; intros out Hm; [exact Hm|]. cbn [fold_left]. apply IHt. apply collect_mono. exact Hm.
Qed.

Lemma resolve_go_mono p tables : forall fuel e, env_mem e p = true -> env_mem (resolve_go fuel tables e) p = true.
Proof.
  induction fuel as [|f IH]; intros e Hm; [exact Hm|]. cbn [resolve_go].
  destruct (Nat.eqb (length (collect_tables e tables)) (length e)); [exact Hm|]. apply IH. apply collect_tables_mono. exact Hm.
Qed.

Lemma resolve_env_default tables d : 1 <= d <= 5 -> env_mem (resolve_env tables) [dseg d] = true.
Proof.
  intros Hd. unfold resolve_env. apply resolve_go_mono.
  assert (Hc : d = 1 \/ d = 2 \/ d = 3 \/ d = 4 \/ d = 5) by lia.
  destruct Hc as [ -> | [ -> | [ -> | [ -> | -> ] ] ] ]; reflexivity.
Qed.

Lemma lookup_sc e root seg : env_mem e [seg] = true -> lookup e [] (sc_name root seg) = Some [seg].
Proof.
  intros Hm. unfold lookup, start_scope, sc_name. cbn [n_root n_carets n_segs].
  destruct root; cbn [negb andb app]; [rewrite Hm; reflexivity|].
  change (lenN (@nil N) <? 0) with false. cbv iota. cbn [length Nat.sub firstn app N.eqb search_up]. rewrite Hm. reflexivity.
Qed.

(** ---- the programs of the fragment ---- *)
Definition titem_ast (x : titem) : ast :=
  match x with
  | TItem it => item_ast it
  | TScope k root d body => AScope k (sc_name root (dseg d)) (map item_ast body)
  end.

(** [\SEG] or [SEG] with SEG a predefined scope: (written with a root prefix?, number of the scope) *)
Definition scope_target (nm : namestr) : option (bool * N) :=
  match n_segs nm with
  | [seg] =>
      if (n_carets nm =? 0) && negb (n_multi nm) then
        if seg =? dseg 1 then Some (n_root nm, 1) else if seg =? dseg 2 then Some (n_root nm, 2)
        else if seg =? dseg 3 then Some (n_root nm, 3) else if seg =? dseg 4 then Some (n_root nm, 4)
        else if seg =? dseg 5 then Some (n_root nm, 5) else None
      else None
  | _ => None
  end.

Definition f3_titem (a : ast) : option titem :=
  match a with
  | AScope k nm body =>
      match scope_target nm, f2_items body with
      | Some (root, d), Some b => Some (TScope k root d b)
      | _, _ => None
      end
  | _ => match f2_item a with Some it => Some (TItem it) | None => None end
  end.

Fixpoint f3_titems (l : list ast) : option (list titem) :=
  match l with
  | [] => Some []
  | x :: t => match f3_titem x, f3_titems t with Some i, Some r => Some (i :: r) | _, _ => None end
  end.

Definition in_fragment_F3 (tables : list (list ast)) : bool :=
  match tables with
  | [p] => match f3_titems p with Some _ => lenN (encode_table p) <? 0x10000000 | None => false end
  | _ => false
  end.

Definition tscope_ok (x : titem) : Prop := match x with TItem _ => True | TScope _ _ d _ => 1 <= d <= 5 end.
Definition tshape (x : titem) : bool := match x with TItem it => shape_ok it | TScope _ _ _ body => forallb shape_ok body end.

Lemma scope_target_eq nm root d : scope_target nm = Some (root, d) -> nm = sc_name root (dseg d) /\ 1 <= d <= 5.
Proof.
  unfold scope_target. destruct nm as [r carets multi segs]. cbn [n_segs n_root n_carets n_multi].
  destruct segs as [|s [|s2 segs]]; try discriminate.
  destruct (N.eqb_spec carets 0) as [->|]; cbn [andb]; try discriminate.
  destruct multi; cbn [negb]; try discriminate.
  destruct (N.eqb_spec s (dseg 1)) as [->|_]; [intros E; inversion E; split; [reflexivity|lia]|].
  destruct (N.eqb_spec s (dseg 2)) as [->|_]; [intros E; inversion E; split; [reflexivity|lia]|].
  destruct (N.eqb_spec s (dseg 3)) as [->|_]; [intros E; inversion E; split; [reflexivity|lia]|].
  destruct (N.eqb_spec s (dseg 4)) as [->|_]; [intros E; inversion E; split; [reflexivity|lia]|].
  destruct (N.eqb_spec s (dseg 5)) as [->|_]; [intros E; inversion E; split; [reflexivity|lia]|]. discriminate.
Qed.

Lemma f3_titem_ast a x : f3_titem a = Some x -> a = titem_ast x /\ tscope_ok x /\ tshape x = true.
Proof.
  assert (Hgen : match f2_item a with Some it => Some (TItem it) | None => None end = Some x -> a = titem_ast x /\ tscope_ok x /\ tshape x = true).
  { destruct (f2_item a) as [it|] eqn:Ei; [|discriminate]. intros E; inversion E. destruct (f2_item_ast a it Ei) as (A & B). split; [exact A|split; [exact I|exact B]]. }
  destruct a; try exact Hgen. clear Hgen. cbn [f3_titem].
  destruct (scope_target nm) as [[root d]|] eqn:En; [|discriminate]. destruct (f2_items body) as [b|] eqn:Eb; [|discriminate].
  intros E; inversion E. destruct (scope_target_eq _ _ _ En) as (-> & Hd). cbn [titem_ast tscope_ok tshape].
  destruct (f2_items_ast _ _ Eb) as (-> & Hs). split; [reflexivity|split; [exact Hd|exact Hs]].
Qed.

Lemma f3_titems_ast : forall p ts, f3_titems p = Some ts -> p = map titem_ast ts /\ Forall tscope_ok ts /\ forallb tshape ts = true.
Proof.
  induction p as [|x t IH]; intros ts Hp; cbn [f3_titems] in Hp.
  - inversion Hp. split; [reflexivity|split; [constructor|reflexivity]].
  - destruct (f3_titem x) as [i|] eqn:Ei; [|discriminate]. destruct (f3_titems t) as [r|] eqn:Er; [|discriminate].
    inversion Hp; subst ts. cbn [map forallb]. destruct (f3_titem_ast x i Ei) as (-> & Hi & Hsi). destruct (IH r eq_refl) as (-> & Hr & Hsr).
    rewrite Hsi, Hsr. split; [reflexivity|split; [constructor; assumption|reflexivity]].
Qed.

(** ---- encoding ---- *)
Lemma encode_body body : forallb shape_ok body = true -> flat_map encode (map item_ast body) = enc_items body.
Proof. apply encode_items. Qed.

Lemma encode_titem x : tshape x = true -> encode (titem_ast x) = enc_titem x.
Proof.
  destruct x as [it|k root d body]; intros Hs; [apply encode_item; exact Hs|].
  cbn [titem_ast encode enc_titem]. unfold enc_pkg, sc_body. rewrite (encode_body body Hs). reflexivity.
Qed.

Lemma encode_titems ts : forallb tshape ts = true -> encode_table (map titem_ast ts) = enc_titems ts.
Proof.
  unfold encode_table, enc_titems. induction ts as [|x t IH]; intros Hs; [reflexivity|]. cbn [forallb] in Hs. apply andb_prop in Hs. destruct Hs as [Hx Ht].
  cbn [map flat_map]. rewrite (encode_titem x Hx), (IH Ht). reflexivity.
Qed.

(** ---- well-formedness ---- *)
Lemma wf_titem e ms x : tshape x = true -> tscope_ok x -> wf_ast e ms [] (titem_ast x) = true -> titem_okb x = true.
Proof.
  destruct x as [it|k root d body]; intros Hs Hd Hw; [apply (wf_item e ms it [] Hs Hw)|].
  cbn [tscope_ok] in Hd. cbn [tshape] in Hs. cbn [titem_ast wf_ast] in Hw. cbn [titem_okb].
  apply andb_prop in Hw. destruct Hw as [Hw Hall]. apply andb_prop in Hw. destruct Hw as [_ Hk].
  rewrite sumlen_eq, (encode_body body Hs) in Hk.
  apply andb_true_intro. split; [apply andb_true_intro; split; [apply andb_true_intro; split|]|].
  - apply N.leb_le. lia.
  - apply N.leb_le. lia.
  - unfold k_ok in Hk. unfold pkglen_okb, sc_body. rewrite lenN_app. exact Hk.
  - destruct (lookup e [] (sc_name root (dseg d))) as [sc|]; [|discriminate].
    match type of Hall with ?all _ _ = true => set (ALL := all) in Hall end. clear Hk.
    induction body as [|y t IHt]; [reflexivity|]. cbn [map] in Hall. cbn in Hall. apply andb_prop in Hall. destruct Hall as [Hy Ht].
    cbn [forallb] in Hs. apply andb_prop in Hs. destruct Hs as [Hsy Hst].
    cbn [forallb]. rewrite (wf_item e ms y sc Hsy Hy). apply IHt; assumption.
Qed.

Lemma wf_titems e ms ts : forallb tshape ts = true -> Forall tscope_ok ts -> forallb (wf_ast e ms []) (map titem_ast ts) = true -> forallb titem_okb ts = true.
Proof.
  induction ts as [|x t IH]; intros Hs Hd Hw; [reflexivity|]. cbn [map forallb] in Hs, Hw |- *. apply andb_prop in Hw. destruct Hw as [Hx Ht].
  apply andb_prop in Hs. destruct Hs as [Hsx Hst].
  rewrite (wf_titem e ms x Hsx (Forall_inv Hd) Hx), (IH Hst (Forall_inv_tail Hd) Ht). reflexivity.
Qed.

(** ---- the specification side ---- *)
Lemma entries_titem e x : (forall d, 1 <= d <= 5 -> env_mem e [dseg d] = true) -> tshape x = true -> tscope_ok x ->
  entries e [] (titem_ast x) = sentries3 [x].
Proof.
  intros He Hs Hd. unfold sentries3. cbn [flat_map]. rewrite app_nil_r.
  destruct x as [it|k root d body]; [apply entries_item; exact Hs|].
  cbn [tscope_ok] in Hd. cbn [tshape] in Hs. cbn [titem_ast entries]. rewrite (lookup_sc e root (dseg d) (He d Hd)).
  unfold sentries. generalize [dseg d]. intros sc. induction body as [|y t IHt]; [reflexivity|]. cbn [map flat_map].
  cbn [forallb] in Hs. apply andb_prop in Hs. destruct Hs as [Hsy Hst].
  rewrite (entries_item e y sc Hsy), (IHt Hst). reflexivity.
Qed.

Lemma entries_titems e ts : (forall d, 1 <= d <= 5 -> env_mem e [dseg d] = true) -> forallb tshape ts = true -> Forall tscope_ok ts ->
  flat_map (entries e []) (map titem_ast ts) = sentries3 ts.
Proof.
  intros He. induction ts as [|x t IH]; intros Hs Hd; [reflexivity|]. cbn [map flat_map].
  cbn [forallb] in Hs. apply andb_prop in Hs. destruct Hs as [Hsx Hst].
  rewrite (entries_titem e x He Hsx (Forall_inv Hd)), (IH Hst (Forall_inv_tail Hd)). unfold sentries3. cbn [flat_map]. rewrite app_nil_r. reflexivity.
Qed.

(** the core: any table of top-level items of the right shape *)
Theorem parse_encode_titems ts :
  forallb tshape ts = true -> Forall tscope_ok ts -> wf_program [map titem_ast ts] = true ->
  lenN (encode_table (map titem_ast ts)) < 0x10000000 -> parse_encode_statement [map titem_ast ts].
Proof.
  intros Hs Hd Hwf Hfr.
  unfold wf_program in Hwf. cbn [wf_tables app] in Hwf. apply andb_prop in Hwf. destruct Hwf as [Hwf _].
  pose proof (wf_titems _ _ ts Hs Hd Hwf) as Hok.
  rewrite (encode_titems ts Hs) in Hfr.
  unfold parse_encode_statement, parse_program, load. cbn [map].
  destruct default_rep as (t0 & Et0 & H0). rewrite Et0. cbn [load_tables]. rewrite (encode_titems ts Hs).
  destruct (parse_f3 ts t0 Hok Hfr H0) as (s' & gF & plF & Eparse & HF & DF & Etb).
  rewrite Eparse. cbn [load_tables app]. change (0 =? 0) with true. cbv iota.
  rewrite (view_f3 (p_tree s') gF plF HF [table_image (enc_titems ts)] ts (hdr_of (enc_titems ts)) DF Hok ltac:(rewrite table_image_hdr; reflexivity) eq_refl).
  unfold ns. cbn [flat_map]. rewrite app_nil_r.
  rewrite (entries_titems _ ts (fun d Hd' => resolve_env_default _ d Hd') Hs Hd).
  f_equal. apply sort_perm. apply view3_perm. exact Hok.
Qed.

(** THE THEOREM for the fragment F3 *)
Theorem parse_encode_F3 : forall tables,
  wf_program tables = true -> in_fragment_F3 tables = true -> parse_encode_statement tables.
Proof.
  intros tables Hwf Hfr. unfold in_fragment_F3 in Hfr.
  destruct tables as [|p [|p2 rest]]; try discriminate.
  destruct (f3_titems p) as [ts|] eqn:Ets; [|discriminate]. apply N.ltb_lt in Hfr.
  destruct (f3_titems_ast p ts Ets) as (-> & Hd & Hs).
  apply parse_encode_titems; assumption.
Qed.
