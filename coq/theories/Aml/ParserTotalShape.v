(** C12 (stretch): two typing facts that the passes after the resolve loop need survive the resolve loop:
    [TM2] - every Method has two leading children that are plain objects (no deferred / field-list / named row, not a
    Scope directive or ScopeBlock), the second carrying a number - and [PEND] - every pending deferred object of the
    current table has a parent and is not a name-path-or-call object. *)
From Coq Require Import NArith Arith List Bool Lia.
From Coq Require Import ZifyBool ZifyN ZifyNat.
From FF Require Import Lib.Word Gen.Consts_device_acpi_aml Gen.Consts_aml_tree Aml.Stream Aml.Lex Aml.LexProofs
  Aml.Tree Aml.Parser Aml.ParserProofs Aml.TreeSpec Aml.TreeProofs Aml.TreeProofsOps Aml.TreeProofsFind Aml.TreeProofsAnc
  Aml.ParserTotalTree Aml.ParserTotalTree2 Aml.ParserTotalLex Aml.ParserTotalTable Aml.ParserTotalBase Aml.ParserTotalLeaf
  Aml.ParserTotalFrame Aml.ParserTotalFirst Aml.ParserTotalConn Aml.ParserTotalNonNamed Aml.ParserTotalCalls Aml.ParserTotalReloc
  Aml.ParserTotalMerge Aml.ParserTotalResolve Aml.ParserTotalDefer Aml.ParserTotalDeferW Aml.ParserTotalDeferV.
Import ListNotations.
Local Open Scope N_scope.

Definition plain (o : Obj) : Prop :=
  nodefer o /\
  (forall op fl af, opInfo (o_infoIndex o) = Some (op, fl, af) -> hasFlag fl aml_pOpFlagNamed = false) /\
  o_opcode o <> aml_pOpScope /\ o_opcode o <> aml_pOpIntScopeBlock.

Definition mtyped2 (t : T) (g : ghost) (m : N) : Prop :=
  exists a0 a1 rest a0o a1o v, kids g m = a0 :: a1 :: rest /\
    tget t a0 = Some a0o /\ plain a0o /\
    tget t a1 = Some a1o /\ o_value a1o = Some (VNum v) /\ plain a1o.

Definition TM2 (t : T) (g : ghost) : Prop :=
  forall m mo, tget t m = Some mo -> o_opcode mo = aml_pOpMethod -> mtyped2 t g m.


Definition PEND (s : pstate) (g : ghost) : Prop :=
  forall x o, glive g x -> tget (p_tree s) x = Some o -> isflag s x = true ->
    has_parent g x /\ o_opcode o <> aml_pOpIntNamePathOrMethodCall.

Definition KS (s : pstate) (g : ghost) : Prop := TM2 (p_tree s) g /\ PEND s g.

(** what a payload-preserving change of the tree keeps *)
Definition sameobj (o o' : Obj) : Prop :=
  o_opcode o' = o_opcode o /\ o_infoIndex o' = o_infoIndex o /\ o_tableHandle o' = o_tableHandle o.

Lemma plain_same o o' : sameobj o o' -> plain o -> plain o'.
Proof.
  intros (E1 & E2 & _) (A & B & C & D). split; [|split; [|split]].
  - intros op fl af Hrow. rewrite E2 in Hrow. exact (A op fl af Hrow).
  - intros op fl af Hrow. rewrite E2 in Hrow. exact (B op fl af Hrow).
  - rewrite E1. exact C.
  - rewrite E1. exact D.
Qed.

Lemma isflag_same s s' x o o' : tget (p_tree s) x = Some o -> tget (p_tree s') x = Some o' -> sameobj o o' ->
  p_handle s' = p_handle s -> isflag s' x = isflag s x.
Proof. intros Ho Ho' (_ & E2 & E3) Hh. unfold isflag. rewrite Ho, Ho', E2, E3, Hh. reflexivity. Qed.

Lemma pay_same (o o' : Obj) : pay_eq o o' -> sameobj o o'.
Proof. intros (A & B & C & _). split; auto. Qed.

(** ---- a move of [m] from [c] to the end of [tg], both of them not Methods ---- *)
Lemma remove1_two x a0 a1 rest : x <> a0 -> x <> a1 -> remove1 x (a0 :: a1 :: rest) = a0 :: a1 :: remove1 x rest.
Proof.
  intros H0 H1. cbn [remove1]. destruct (N.eqb_spec a0 x) as [E|_]; [exfalso; apply H0; symmetry; exact E|].
  destruct (N.eqb_spec a1 x) as [E|_]; [exfalso; apply H1; symmetry; exact E|]. reflexivity.
Qed.

Lemma TM2_step (t t2 : T) g g2 :
  TM2 t g ->
  (forall i o2, tget t2 i = Some o2 -> exists o, tget t i = Some o /\ sameobj o o2) ->
  (forall i o, tget t i = Some o -> exists o2, tget t2 i = Some o2 /\ sameobj o o2) ->
  (forall m mo a0 a1 rest a1o, tget t m = Some mo -> o_opcode mo = aml_pOpMethod -> kids g m = a0 :: a1 :: rest ->
     tget t a1 = Some a1o ->
     (exists rest', kids g2 m = a0 :: a1 :: rest') /\ (forall a1o2, tget t2 a1 = Some a1o2 -> o_value a1o2 = o_value a1o)) ->
  TM2 t2 g2.
Proof.
  intros H Hb Hf Hm m mo2 Hg2 Hop2. destruct (Hb m mo2 Hg2) as (mo & Hg & (E1 & _)).
  assert (Hop : o_opcode mo = aml_pOpMethod) by congruence.
  destruct (H m mo Hg Hop) as (a0 & a1 & rest & a0o & a1o & v & K1 & K2 & P0 & K4 & K5 & P1).
  destruct (Hm m mo a0 a1 rest a1o Hg Hop K1 K4) as ((rest' & K1') & Hv).
  destruct (Hf a0 a0o K2) as (a0o2 & K2' & S0). destruct (Hf a1 a1o K4) as (a1o2 & K4' & S1).
  exists a0, a1, rest', a0o2, a1o2, v. split; [exact K1'|]. split; [exact K2'|]. split; [eapply plain_same; eauto|].
  split; [exact K4'|]. split; [rewrite (Hv a1o2 K4'); exact K5|eapply plain_same; eauto].
Qed.

Lemma pframe_back (t t2 : T) : pframe t t2 -> forall i o2, tget t2 i = Some o2 -> exists o, tget t i = Some o /\ sameobj o o2.
Proof. intros Hp i o2 Hg. destruct (pframe_inv _ _ _ _ Hp Hg) as (o & Ho & E). exists o. split; [exact Ho|apply pay_same; exact E]. Qed.
Lemma pframe_fwd (t t2 : T) : pframe t t2 -> forall i o, tget t i = Some o -> exists o2, tget t2 i = Some o2 /\ sameobj o o2.
Proof. intros Hp i o Hg. destruct (proj2 Hp _ _ Hg) as (o2 & Ho2 & E). exists o2. split; [exact Ho2|apply pay_same; exact E]. Qed.

Lemma is_sb_not_method s y o : is_sb s y -> tget (p_tree s) y = Some o -> o_opcode o <> aml_pOpMethod.
Proof. intros (o' & Ho' & E) Ho. assert (o' = o) by congruence. subst. rewrite E. discriminate. Qed.

Lemma KS_counters s g a b c : KS s g -> KS (with_counters s a b c) g.
Proof. intros H. exact H. Qed.

Lemma has_parent_move g g2 c m tg x :
  (forall q, kids g2 q = (if q =? c then remove1 m (kids g c) else kids g q) ++ (if q =? tg then [m] else [])) ->
  has_parent g x -> has_parent g2 x.
Proof.
  intros Hk (p & Hin). destruct (N.eq_dec x m) as [->|Hne].
  - exists tg. rewrite Hk, N.eqb_refl. apply in_or_app. right. left. reflexivity.
  - exists p. rewrite Hk. apply in_or_app. left. destruct (N.eqb_spec p c) as [->|_]; [|exact Hin].
    apply In_remove1_neq; auto.
Qed.

Lemma KS_move s g c m tg (t2 : T) g2 : TI s g -> KS s g -> In m (kids g c) -> is_sb s c -> is_sb s tg ->
  pframe (p_tree s) t2 -> shape_eq g g2 ->
  (forall q, kids g2 q = (if q =? c then remove1 m (kids g c) else kids g q) ++ (if q =? tg then [m] else [])) ->
  KS (with_tree s t2) g2.
Proof.
  intros HT (HTM & HP) Hin Hc Htg Hpf S2 Hk. split.
  - cbn [p_tree with_tree]. eapply TM2_step; [exact HTM|apply pframe_back; exact Hpf|apply pframe_fwd; exact Hpf|].
    intros m' mo a0 a1 rest a1o Hm' Hop Hkm Ha1. split.
    + exists rest. rewrite Hk.
      destruct (N.eqb_spec m' c) as [E|_]; [exfalso; subst m'; exact (is_sb_not_method s c mo Hc Hm' Hop)|].
      destruct (N.eqb_spec m' tg) as [E|_]; [exfalso; subst m'; exact (is_sb_not_method s tg mo Htg Hm' Hop)|]. rewrite app_nil_r. exact Hkm.
    + intros a1o2 Ha12. destruct (proj2 Hpf _ _ Ha1) as (o' & Ho' & E). assert (o' = a1o2) by congruence. subst.
      destruct E as (_ & _ & _ & _ & _ & _ & _ & E8). exact E8.
  - intros x o2 Hl2 Ho2 Hf2. cbn [p_tree with_tree] in Ho2.
    destruct (pframe_inv _ _ _ _ Hpf Ho2) as (o & Ho & E).
    assert (Hl : glive g x) by (apply (shape_eq_glive _ _ _ S2); exact Hl2).
    assert (Hf : isflag s x = true).
    { rewrite <- Hf2. symmetry. apply (isflag_same s (with_tree s t2) x o o2 Ho Ho2 (pay_same _ _ E)). reflexivity. }
    destruct (HP x o Hl Ho Hf) as (Hpar & Hnp). split; [eapply has_parent_move; eauto|]. destruct E as (E1 & _). rewrite E1. exact Hnp.
Qed.

Lemma fframe_back y (t t' : T) : fframe y t t' -> forall i o2, i <> y -> tget t' i = Some o2 -> exists o, tget t i = Some o /\ sameobj o o2.
Proof. intros Hf i o2 Hne Hg. destruct (fframe_inv _ _ _ _ _ Hf Hg) as (o & Ho & _ & E). exists o. split; [exact Ho|apply pay_same; apply E; exact Hne]. Qed.

Lemma KS_free s g y (t' : T) g' : TI s g -> KS s g -> glive g y -> kids g y = [] -> scoped s g y ->
  fframe y (p_tree s) t' -> (forall p, kids g' p = remove1 y (kids g p)) ->
  (forall z, glive g' z <-> glive g z /\ z <> y) -> (forall o', tget t' y = Some o' -> o_opcode o' = opFreed) ->
  KS (with_tree s t') g'.
Proof.
  intros HT (HTM & HP) Hly Hky Hsc Hff Hk Hl' Hfr. pose proof (ti_R _ _ HT) as HR. split.
  - cbn [p_tree with_tree]. intros m mo2 Hg2 Hop2.
    assert (Hmy : m <> y) by (intros ->; rewrite (Hfr _ Hg2) in Hop2; discriminate).
    destruct (fframe_back _ _ _ Hff m mo2 Hmy Hg2) as (mo & Hg & (E1 & _)).
    assert (Hop : o_opcode mo = aml_pOpMethod) by congruence.
    destruct (HTM m mo Hg Hop) as (a0 & a1 & rest & a0o & a1o & v & K1 & K2 & P0 & K4 & K5 & P1).
    assert (Hny : forall a ao, In a (kids g m) -> tget (p_tree s) a = Some ao -> plain ao -> y <> a).
    { intros a ao Hin Ha (_ & _ & Hns & _) ->. destruct Hsc as [(yo & Hyo & Eyo)|(d & dobj & Hind & Hd & Ed)].
      - assert (yo = ao) by congruence. subst. contradiction.
      - assert (d = m) by (eapply (R_parent_unique _ _ HR); eauto). subst d. assert (dobj = mo) by congruence. subst.
        rewrite Hop in Ed. discriminate. }
    assert (H0 : y <> a0) by (apply (Hny a0 a0o); [rewrite K1; left; reflexivity|exact K2|exact P0]).
    assert (H1 : y <> a1) by (apply (Hny a1 a1o); [rewrite K1; right; left; reflexivity|exact K4|exact P1]).
    destruct (proj2 Hff _ _ K2) as (a0o2 & K2' & _ & F0). destruct (proj2 Hff _ _ K4) as (a1o2 & K4' & V1 & F1).
    exists a0, a1, (remove1 y rest), a0o2, a1o2, v. split; [rewrite Hk, K1; apply remove1_two; auto|].
    split; [exact K2'|]. split; [eapply plain_same; [apply pay_same; apply F0; auto|exact P0]|].
    split; [exact K4'|]. split; [rewrite V1; exact K5|eapply plain_same; [apply pay_same; apply F1; auto|exact P1]].
  - intros x o2 Hl2 Ho2 Hf2. cbn [p_tree with_tree] in Ho2. apply Hl' in Hl2. destruct Hl2 as (Hl & Hxy).
    destruct (fframe_back _ _ _ Hff x o2 Hxy Ho2) as (o & Ho & So).
    assert (Hf : isflag s x = true).
    { rewrite <- Hf2. symmetry. apply (isflag_same s (with_tree s t') x o o2 Ho Ho2 So). reflexivity. }
    destruct (HP x o Hl Ho Hf) as ((p & Hin) & Hnp). split.
    + exists p. rewrite Hk. apply In_remove1_neq; auto.
    + destruct So as (E1 & _). rewrite E1. exact Hnp.
Qed.

Lemma KS_reloc s g x xo op fl af par tg (t2 : T) g2 v :
  TI s g -> KS s g -> tget (p_tree s) x = Some xo -> opInfo (o_infoIndex xo) = Some (op, fl, af) ->
  hasFlag fl aml_pOpFlagNamed = true -> o_opcode xo <> aml_pOpIntScopeBlock -> o_tableHandle xo = p_handle s ->
  In x (kids g par) -> is_sb s tg -> glive g tg -> kids g x <> [] ->
  pframe (p_tree s) t2 -> shape_eq g g2 -> roots_iff g g2 ->
  (forall q, kids g2 q = (if q =? par then remove1 x (kids g par) else kids g q) ++ (if q =? tg then [x] else [])) ->
  KS (with_tree s (tset t2 (hd InvalidIndex (kids g x)) (set_value v))) g2.
Proof.
  intros HT (HTM & HP) Hxo Erow Enamed Hnsb Hh Hin Htg Hltg Hkx Hpf S2 R2 Hk.
  pose proof (ti_R _ _ HT) as HR.
  set (n := hd InvalidIndex (kids g x)).
  assert (Hn_in : In n (kids g x)) by (unfold n; destruct (kids g x); [contradiction|left; reflexivity]).
  assert (Hback : forall i o2, tget (tset t2 n (set_value v)) i = Some o2 -> exists o, tget (p_tree s) i = Some o /\ sameobj o o2).
  { intros i o2 Hg. rewrite get_tset in Hg. destruct (N.eqb_spec i n) as [->|Hne].
    - destruct (tget t2 n) as [o'|] eqn:E2; [|discriminate]. cbn [option_map] in Hg. inversion Hg; subst o2.
      destruct (pframe_back _ _ Hpf n o' E2) as (o & Ho & So). exists o. split; [exact Ho|exact So].
    - apply (pframe_back _ _ Hpf i o2 Hg). }
  assert (Hfwd : forall i o, tget (p_tree s) i = Some o -> exists o2, tget (tset t2 n (set_value v)) i = Some o2 /\ sameobj o o2 /\
                                                              (i <> n -> o_value o2 = o_value o)).
  { intros i o Ho. destruct (proj2 Hpf _ _ Ho) as (o' & Ho' & E). rewrite get_tset, Ho'. cbn [option_map].
    destruct (N.eqb_spec i n) as [->|Hne].
    - eexists. split; [reflexivity|]. split; [apply (pay_same _ _ E)|intros F; contradiction].
    - exists o'. split; [reflexivity|]. split; [apply pay_same; exact E|]. intros _. destruct E as (_ & _ & _ & _ & _ & _ & _ & E8). exact E8. }
  split.
  - cbn [p_tree with_tree]. eapply TM2_step; [exact HTM|exact Hback| |].
    + intros i o Ho. destruct (Hfwd i o Ho) as (o2 & Ho2 & So & _). eauto.
    + intros m mo a0 a1 rest a1o Hm Hop Hkm Ha1.
      destruct (HTM m mo Hm Hop) as (b0 & b1 & r & b0o & b1o & w & K1 & K2 & P0 & K4 & K5 & P1).
      rewrite Hkm in K1. injection K1 as <- <- <-.
      assert (Hx0 : x <> a0).
      { intros ->. assert (b0o = xo) by congruence. subst. destruct P0 as (_ & B & _). rewrite (B _ _ _ Erow) in Enamed. discriminate. }
      assert (Hx1 : x <> a1).
      { intros ->. assert (b1o = xo) by congruence. subst. destruct P1 as (_ & B & _). rewrite (B _ _ _ Erow) in Enamed. discriminate. }
      split.
      * rewrite Hk. assert (Emt : (m =? tg) = false) by (apply N.eqb_neq; intros ->; exact (is_sb_not_method s tg mo Htg Hm Hop)).
        rewrite Emt, app_nil_r. destruct (N.eqb_spec m par) as [->|_]; [|exists rest; exact Hkm].
        rewrite Hkm. rewrite remove1_two; auto. eexists. reflexivity.
      * intros a1o2 Ha12. destruct (Hfwd a1 a1o Ha1) as (o2 & Ho2 & _ & Hv). assert (o2 = a1o2) by congruence. subst. apply Hv.
        intros E.
        assert (Exm : x = m).
        { eapply (R_parent_unique _ _ HR); [exact Hn_in|]. rewrite <- E, Hkm. right. left. reflexivity. }
        assert (E' : a1 = a0) by (rewrite E; unfold n; rewrite Exm, Hkm; reflexivity).
        assert (Hlmo : o_opcode mo <> opFreed) by (rewrite Hop; discriminate).
        destruct (R_kids _ _ HR _ _ Hm Hlmo) as (_ & _ & _ & Hnd). rewrite Hkm in Hnd.
        apply NoDup_cons_iff in Hnd. destruct Hnd as (Hni & _). apply Hni. left. exact E'.
  - intros x' o2 Hl2 Ho2 Hf2. cbn [p_tree with_tree] in Ho2.
    destruct (Hback x' o2 Ho2) as (o & Ho & So).
    assert (Hl : glive g x') by (apply (shape_eq_glive _ _ _ S2); exact Hl2).
    assert (Hf : isflag s x' = true).
    { rewrite <- Hf2. symmetry. apply (isflag_same s (with_tree s (tset t2 n (set_value v))) x' o o2 Ho Ho2 So). reflexivity. }
    destruct (HP x' o Hl Ho Hf) as (Hpar & Hnp). split; [eapply has_parent_move; eauto|]. destruct So as (E1 & _). rewrite E1. exact Hnp.
Qed.

(** ---- the CONCRETE typing of Method objects ([TM3]): the first child is a CHILDLESS pOpIntNamePath object with the name-path row, the
    second a pOpBytePrefix object with its row and a number.  It implies [TM2] and the typing [TM NoX] of the deferred pass, and - unlike
    [TM2] - it is an invariant of every pass of ParseAML (the last two passes: [TM3_move], [TM3_upd]). ---- *)
Lemma row_facts_np (o : Obj) : o_infoIndex o = npIdx -> nodefer o /\
  (forall op fl af, opInfo (o_infoIndex o) = Some (op, fl, af) -> hasFlag fl aml_pOpFlagNamed = false).
Proof.
  intros E. split.
  - intros op fl af H. rewrite E in H. vm_compute in H. injection H as _ <- <-. split; [reflexivity|]. intros k Hk.
    assert (Hc : k = 0 \/ k = 1 \/ k = 2 \/ k = 3 \/ k = 4 \/ k = 5 \/ k = 6 \/ k = 7) by lia.
    destruct Hc as [->|[->|[->|[->|[->|[->|[->| ->]]]]]]]; vm_compute; discriminate.
  - intros op fl af H. rewrite E in H. vm_compute in H. injection H as _ <- _. reflexivity.
Qed.
Lemma row_facts_bp (o : Obj) : o_infoIndex o = bpIdx -> nodefer o /\
  (forall op fl af, opInfo (o_infoIndex o) = Some (op, fl, af) -> hasFlag fl aml_pOpFlagNamed = false).
Proof.
  intros E. split.
  - intros op fl af H. rewrite E in H. vm_compute in H. injection H as _ <- <-. split; [reflexivity|]. intros k Hk.
    assert (Hc : k = 0 \/ k = 1 \/ k = 2 \/ k = 3 \/ k = 4 \/ k = 5 \/ k = 6 \/ k = 7) by lia.
    destruct Hc as [->|[->|[->|[->|[->|[->|[->| ->]]]]]]]; vm_compute; discriminate.
  - intros op fl af H. rewrite E in H. vm_compute in H. injection H as _ <- _. reflexivity.
Qed.
Lemma np_plain (o : Obj) : o_opcode o = aml_pOpIntNamePath -> o_infoIndex o = npIdx -> plain o.
Proof. intros Hop E. destruct (row_facts_np o E) as (A & B). split; [exact A|]. split; [exact B|]. rewrite Hop. split; discriminate. Qed.
Lemma bp_plain (o : Obj) : o_opcode o = aml_pOpBytePrefix -> o_infoIndex o = bpIdx -> plain o.
Proof. intros Hop E. destruct (row_facts_bp o E) as (A & B). split; [exact A|]. split; [exact B|]. rewrite Hop. split; discriminate. Qed.

Definition mtyped3 (t : T) (g : ghost) (m : N) : Prop :=
  exists a0 a1 rest a0o a1o v, kids g m = a0 :: a1 :: rest /\
    tget t a0 = Some a0o /\ o_opcode a0o = aml_pOpIntNamePath /\ o_infoIndex a0o = npIdx /\ kids g a0 = [] /\
    tget t a1 = Some a1o /\ o_opcode a1o = aml_pOpBytePrefix /\ o_infoIndex a1o = bpIdx /\ o_value a1o = Some (VNum v).

Definition TM3 (t : T) (g : ghost) : Prop :=
  forall m mo, tget t m = Some mo -> o_opcode mo = aml_pOpMethod -> mtyped3 t g m.

Lemma TM3_TM2 t g : TM3 t g -> TM2 t g.
Proof.
  intros H m mo Hm Hop. destruct (H m mo Hm Hop) as (a0 & a1 & rest & a0o & a1o & v & K1 & K2 & K3 & K4 & _ & K6 & K7 & K8 & K9).
  exists a0, a1, rest, a0o, a1o, v. split; [exact K1|]. split; [exact K2|].
  split; [apply np_plain; assumption|]. split; [exact K6|]. split; [exact K9|]. apply bp_plain; assumption.
Qed.

Lemma TM3_move : Kmove TM3.
Proof.
  intros s g par x target pre post t2 HT HK Hkp Hlt Hne (to & Hto & Htn) Hprev g2 HT2 Hk2p Hk2t Hk2o Hpf m mo2 Hm2 Hop2.
  destruct (pframe_inv _ _ _ _ Hpf Hm2) as (mo & Hm & (E1 & _)).
  assert (Hop : o_opcode mo = aml_pOpMethod) by congruence.
  destruct (HK m mo Hm Hop) as (a0 & a1 & rest & a0o & a1o & v & K1 & K2 & K3 & K4 & K5 & K6 & K7 & K8 & K9).
  assert (Ha0t : a0 <> target) by (intros ->; assert (a0o = to) by congruence; subst; contradiction).
  assert (Ha0p : a0 <> par) by (intros ->; rewrite K5 in Hkp; destruct pre; discriminate).
  destruct (proj2 Hpf _ _ K2) as (a0o2 & K2' & (F1 & F2 & _)).
  destruct (proj2 Hpf _ _ K6) as (a1o2 & K6' & (G1 & G2 & _ & _ & _ & _ & _ & G8)).
  assert (Hkm : exists rest', kids g2 m = a0 :: a1 :: rest').
  { destruct (N.eq_dec m par) as [->|Hmp].
    - rewrite Hk2p. rewrite K1 in Hkp. destruct pre as [|p0 [|p1 pre'']].
      + exfalso. destruct Hprev as [(pre' & E)|(pre' & P & l1 & E & _)]; destruct pre'; discriminate.
      + exfalso. cbn [app] in Hkp. injection Hkp as E0 E1' _. subst p0 x.
        destruct Hprev as [(pre' & E)|(pre' & P & l1 & E & HkP)].
        * destruct pre' as [|q pre']; [injection E as E; apply Ha0t; exact E|destruct pre'; discriminate].
        * destruct pre' as [|q pre']; [injection E as E; subst P; rewrite K5 in HkP; destruct l1; discriminate|destruct pre'; discriminate].
      + cbn [app] in Hkp. injection Hkp as E0 E1' _. subst p0 p1. cbn [app]. eexists. reflexivity.
    - destruct (N.eq_dec m target) as [->|Hmt].
      + rewrite Hk2t, K1. cbn [app]. eexists. reflexivity.
      + rewrite (Hk2o m Hmp Hmt). exists rest. exact K1. }
  destruct Hkm as (rest' & Hkm).
  exists a0, a1, rest', a0o2, a1o2, v. split; [exact Hkm|]. split; [exact K2'|]. split; [congruence|]. split; [congruence|].
  split; [rewrite (Hk2o a0 Ha0p Ha0t); exact K5|]. split; [exact K6'|]. split; [congruence|]. split; [congruence|congruence].
Qed.

Lemma TM3_upd : Kupd TM3.
Proof.
  intros t g p o f HR HK Ho Hop Hnm Hnn m mo2 Hm2 Hop2.
  rewrite get_tset in Hm2. destruct (N.eqb_spec m p) as [->|Hmp].
  { rewrite Ho in Hm2. cbn [option_map] in Hm2. inversion Hm2; subst mo2. contradiction. }
  destruct (HK m mo2 Hm2 Hop2) as (a0 & a1 & rest & a0o & a1o & v & K1 & K2 & K3 & K4 & K5 & K6 & K7 & K8 & K9).
  assert (Ha0 : a0 <> p) by (intros ->; assert (a0o = o) by congruence; subst; rewrite Hop in K3; vm_compute in K3; discriminate).
  assert (Ha1 : a1 <> p) by (intros ->; assert (a1o = o) by congruence; subst; rewrite Hop in K7; vm_compute in K7; discriminate).
  exists a0, a1, rest, a0o, a1o, v. rewrite !get_tset.
  apply N.eqb_neq in Ha0. apply N.eqb_neq in Ha1. rewrite Ha0, Ha1. repeat (split; [assumption|]). assumption.
Qed.

(** the last two passes keep the concrete Method typing *)
Lemma TM3_TM s g : TM3 (p_tree s) g -> TM NoX s g.
Proof.
  intros H m mo Hm Hop _. destruct (H m mo Hm Hop) as (a0 & a1 & rest & a0o & a1o & v & K1 & K2 & K3 & K4 & K5 & K6 & K7 & K8 & K9).
  exists a0, a1, rest, a0o, a1o, v. split; [exact K1|]. split; [exact K2|]. split; [apply (proj1 (row_facts_np a0o K4))|].
  split; [exact K6|]. split; [exact K9|]. split; [apply (proj1 (row_facts_bp a1o K8))|]. unfold mx. auto.
Qed.
Lemma TM_TM3 s g : TM NoX s g -> TM3 (p_tree s) g.
Proof.
  intros H m mo Hm Hop. destruct (H m mo Hm Hop (fun F => F)) as (a0 & a1 & rest & a0o & a1o & v & K1 & K2 & _ & K4 & K5 & _ & (M1 & M2 & M3 & M4 & M5)).
  exists a0, a1, rest, a0o, a1o, v. auto 12.
Qed.

(** ---- TM3 through the resolve loop: the abstract invariant [KS3] = [KS] /\ [TM3] ---- *)
Definition KS3 (s : pstate) (g : ghost) : Prop := KS s g /\ TM3 (p_tree s) g.

Lemma np_not_named (o : Obj) op fl af : o_infoIndex o = npIdx -> opInfo (o_infoIndex o) = Some (op, fl, af) -> hasFlag fl aml_pOpFlagNamed = false.
Proof. intros E H. rewrite E in H. vm_compute in H. injection H as _ <- _. reflexivity. Qed.
Lemma bp_not_named (o : Obj) op fl af : o_infoIndex o = bpIdx -> opInfo (o_infoIndex o) = Some (op, fl, af) -> hasFlag fl aml_pOpFlagNamed = false.
Proof. intros E H. rewrite E in H. vm_compute in H. injection H as _ <- _. reflexivity. Qed.

(** a rearrangement that keeps payloads (but for values outside the flags arguments) and the child lists of Methods and of their name paths *)
Lemma TM3_step (t t2 : T) g g2 :
  TM3 t g ->
  (forall i o2, tget t2 i = Some o2 -> exists o, tget t i = Some o /\ sameobj o o2) ->
  (forall i o, tget t i = Some o -> exists o2, tget t2 i = Some o2 /\ sameobj o o2) ->
  (forall m mo a0 a1 rest a1o, tget t m = Some mo -> o_opcode mo = aml_pOpMethod -> kids g m = a0 :: a1 :: rest -> kids g a0 = [] ->
     tget t a1 = Some a1o ->
     (exists rest', kids g2 m = a0 :: a1 :: rest') /\ kids g2 a0 = [] /\ (forall a1o2, tget t2 a1 = Some a1o2 -> o_value a1o2 = o_value a1o)) ->
  TM3 t2 g2.
Proof.
  intros H Hb Hf Hm m mo2 Hg2 Hop2. destruct (Hb m mo2 Hg2) as (mo & Hg & (E1 & _)).
  assert (Hop : o_opcode mo = aml_pOpMethod) by congruence.
  destruct (H m mo Hg Hop) as (a0 & a1 & rest & a0o & a1o & v & K1 & K2 & K3 & K4 & K5 & K6 & K7 & K8 & K9).
  destruct (Hm m mo a0 a1 rest a1o Hg Hop K1 K5 K6) as ((rest' & K1') & K5' & Hv).
  destruct (Hf a0 a0o K2) as (a0o2 & K2' & (F1 & F2 & _)). destruct (Hf a1 a1o K6) as (a1o2 & K6' & (G1 & G2 & _)).
  exists a0, a1, rest', a0o2, a1o2, v. split; [exact K1'|]. split; [exact K2'|]. split; [congruence|]. split; [congruence|]. split; [exact K5'|].
  split; [exact K6'|]. split; [congruence|]. split; [congruence|]. rewrite (Hv a1o2 K6'). exact K9.
Qed.

Lemma KS3_counters s g a b c : KS3 s g -> KS3 (with_counters s a b c) g.
Proof. intros H. exact H. Qed.

Lemma KS3_move s g c m tg (t2 : T) g2 : TI s g -> KS3 s g -> In m (kids g c) -> is_sb s c -> is_sb s tg ->
  pframe (p_tree s) t2 -> shape_eq g g2 ->
  (forall q, kids g2 q = (if q =? c then remove1 m (kids g c) else kids g q) ++ (if q =? tg then [m] else [])) ->
  KS3 (with_tree s t2) g2.
Proof.
  intros HT (HKS & HTM) Hin Hc Htg Hpf S2 Hk. split; [apply (KS_move s g c m tg t2 g2 HT HKS Hin Hc Htg Hpf S2 Hk)|].
  cbn [p_tree with_tree]. eapply TM3_step; [exact HTM|apply pframe_back; exact Hpf|apply pframe_fwd; exact Hpf|].
  intros m' mo a0 a1 rest a1o Hm' Hop Hkm Hk0 Ha1.
  assert (Hsame : forall q qo, tget (p_tree s) q = Some qo -> o_opcode qo <> aml_pOpIntScopeBlock -> kids g2 q = kids g q).
  { intros q qo Hq Hne. rewrite Hk.
    destruct (N.eqb_spec q c) as [->|_]; [exfalso; destruct Hc as (o' & Ho' & E); assert (o' = qo) by congruence; subst; contradiction|].
    destruct (N.eqb_spec q tg) as [->|_]; [exfalso; destruct Htg as (o' & Ho' & E); assert (o' = qo) by congruence; subst; contradiction|].
    apply app_nil_r. }
  destruct (HTM m' mo Hm' Hop) as (b0 & b1 & r & b0o & b1o & w & K1 & K2 & K3 & _).
  rewrite Hkm in K1. injection K1 as <- <- <-.
  split; [exists rest; rewrite (Hsame m' mo Hm'); [exact Hkm|rewrite Hop; discriminate]|].
  split; [rewrite (Hsame a0 b0o K2); [exact Hk0|rewrite K3; discriminate]|].
  intros a1o2 Ha12. destruct (proj2 Hpf _ _ Ha1) as (o' & Ho' & E). assert (o' = a1o2) by congruence. subst.
  destruct E as (_ & _ & _ & _ & _ & _ & _ & E8). exact E8.
Qed.

Lemma KS3_free s g y (t' : T) g' : TI s g -> KS3 s g -> glive g y -> kids g y = [] -> scoped s g y ->
  fframe y (p_tree s) t' -> (forall p, kids g' p = remove1 y (kids g p)) ->
  (forall z, glive g' z <-> glive g z /\ z <> y) -> (forall o', tget t' y = Some o' -> o_opcode o' = opFreed) ->
  KS3 (with_tree s t') g'.
Proof.
  intros HT (HKS & HTM) Hly Hky Hsc Hff Hk Hl' Hfr. split; [apply (KS_free s g y t' g' HT HKS Hly Hky Hsc Hff Hk Hl' Hfr)|].
  pose proof (ti_R _ _ HT) as HR. cbn [p_tree with_tree]. intros m mo2 Hg2 Hop2.
  assert (Hmy : m <> y) by (intros ->; rewrite (Hfr _ Hg2) in Hop2; discriminate).
  destruct (fframe_back _ _ _ Hff m mo2 Hmy Hg2) as (mo & Hg & (E1 & _)).
  assert (Hop : o_opcode mo = aml_pOpMethod) by congruence.
  destruct (HTM m mo Hg Hop) as (a0 & a1 & rest & a0o & a1o & v & K1 & K2 & K3 & K4 & K5 & K6 & K7 & K8 & K9).
  assert (Hny : forall a ao, In a (kids g m) -> tget (p_tree s) a = Some ao -> o_opcode ao <> aml_pOpScope -> y <> a).
  { intros a ao Hin Ha Hns ->. destruct Hsc as [(yo & Hyo & Eyo)|(d & dobj & Hind & Hd & Ed)].
    - assert (yo = ao) by congruence. subst. contradiction.
    - assert (d = m) by (eapply (R_parent_unique _ _ HR); eauto). subst d. assert (dobj = mo) by congruence. subst.
      rewrite Hop in Ed. discriminate. }
  assert (H0 : y <> a0) by (apply (Hny a0 a0o); [rewrite K1; left; reflexivity|exact K2|rewrite K3; discriminate]).
  assert (H1 : y <> a1) by (apply (Hny a1 a1o); [rewrite K1; right; left; reflexivity|exact K6|rewrite K7; discriminate]).
  destruct (proj2 Hff _ _ K2) as (a0o2 & K2' & _ & F0). destruct (proj2 Hff _ _ K6) as (a1o2 & K6' & V1 & F1).
  destruct (F0 (not_eq_sym H0)) as (A1 & A2 & _). destruct (F1 (not_eq_sym H1)) as (B1 & B2 & _).
  exists a0, a1, (remove1 y rest), a0o2, a1o2, v. split; [rewrite Hk, K1; apply remove1_two; auto|].
  split; [exact K2'|]. split; [congruence|]. split; [congruence|]. split; [rewrite Hk, K5; reflexivity|].
  split; [exact K6'|]. split; [congruence|]. split; [congruence|]. rewrite V1. exact K9.
Qed.

Lemma KS3_reloc s g x xo op fl af par tg (t2 : T) g2 v :
  TI s g -> KS3 s g -> tget (p_tree s) x = Some xo -> opInfo (o_infoIndex xo) = Some (op, fl, af) ->
  hasFlag fl aml_pOpFlagNamed = true -> o_opcode xo <> aml_pOpIntScopeBlock -> o_tableHandle xo = p_handle s ->
  In x (kids g par) -> is_sb s tg -> glive g tg -> kids g x <> [] ->
  pframe (p_tree s) t2 -> shape_eq g g2 -> roots_iff g g2 ->
  (forall q, kids g2 q = (if q =? par then remove1 x (kids g par) else kids g q) ++ (if q =? tg then [x] else [])) ->
  KS3 (with_tree s (tset t2 (hd InvalidIndex (kids g x)) (set_value v))) g2.
Proof.
  intros HT (HKS & HTM) Hxo Erow Enamed Hnsb Hh Hin Htg Hltg Hkx Hpf S2 R2 Hk.
  split; [apply (KS_reloc s g x xo op fl af par tg t2 g2 v HT HKS Hxo Erow Enamed Hnsb Hh Hin Htg Hltg Hkx Hpf S2 R2 Hk)|].
  pose proof (ti_R _ _ HT) as HR.
  set (n := hd InvalidIndex (kids g x)).
  assert (Hn_in : In n (kids g x)) by (unfold n; destruct (kids g x); [contradiction|left; reflexivity]).
  assert (Hback : forall i o2, tget (tset t2 n (set_value v)) i = Some o2 -> exists o, tget (p_tree s) i = Some o /\ sameobj o o2).
  { intros i o2 Hg. rewrite get_tset in Hg. destruct (N.eqb_spec i n) as [->|Hne].
    - destruct (tget t2 n) as [o'|] eqn:E2; [|discriminate]. cbn [option_map] in Hg. inversion Hg; subst o2.
      destruct (pframe_back _ _ Hpf n o' E2) as (o & Ho & So). exists o. split; [exact Ho|exact So].
    - apply (pframe_back _ _ Hpf i o2 Hg). }
  assert (Hfwd : forall i o, tget (p_tree s) i = Some o -> exists o2, tget (tset t2 n (set_value v)) i = Some o2 /\ sameobj o o2 /\
                                                              (i <> n -> o_value o2 = o_value o)).
  { intros i o Ho. destruct (proj2 Hpf _ _ Ho) as (o' & Ho' & E). rewrite get_tset, Ho'. cbn [option_map].
    destruct (N.eqb_spec i n) as [->|Hne].
    - eexists. split; [reflexivity|]. split; [apply (pay_same _ _ E)|intros F; contradiction].
    - exists o'. split; [reflexivity|]. split; [apply pay_same; exact E|]. intros _. destruct E as (_ & _ & _ & _ & _ & _ & _ & E8). exact E8. }
  cbn [p_tree with_tree]. eapply TM3_step; [exact HTM|exact Hback| |].
  - intros i o Ho. destruct (Hfwd i o Ho) as (o2 & Ho2 & So & _). eauto.
  - intros m mo a0 a1 rest a1o Hm Hop Hkm Hk0 Ha1.
    destruct (HTM m mo Hm Hop) as (b0 & b1 & r & b0o & b1o & w & K1 & K2 & K3 & K4 & K5 & K6 & K7 & K8 & K9).
    rewrite Hkm in K1. injection K1 as <- <- <-.
    assert (Hx0 : x <> a0).
    { intros ->. assert (b0o = xo) by congruence. subst. rewrite (np_not_named _ _ _ _ K4 Erow) in Enamed. discriminate. }
    assert (Hx1 : x <> a1).
    { intros ->. assert (b1o = xo) by congruence. subst. rewrite (bp_not_named _ _ _ _ K8 Erow) in Enamed. discriminate. }
    assert (Emt : (m =? tg) = false) by (apply N.eqb_neq; intros ->; exact (is_sb_not_method s tg mo Htg Hm Hop)).
    split; [|split].
    + rewrite Hk, Emt, app_nil_r. destruct (N.eqb_spec m par) as [->|_]; [|exists rest; exact Hkm].
      rewrite Hkm. rewrite remove1_two; auto. eexists. reflexivity.
    + rewrite Hk.
      assert (E0p : (a0 =? par) = false) by (apply N.eqb_neq; intros ->; rewrite Hk0 in Hin; contradiction).
      assert (E0t : (a0 =? tg) = false).
      { apply N.eqb_neq. intros ->. destruct Htg as (o' & Ho' & E). assert (o' = b0o) by congruence. subst. rewrite K3 in E. discriminate. }
      rewrite E0p, E0t, app_nil_r. exact Hk0.
    + intros a1o2 Ha12. destruct (Hfwd a1 a1o Ha1) as (o2 & Ho2 & _ & Hv). assert (o2 = a1o2) by congruence. subst. apply Hv.
      intros E.
      assert (Exm : x = m).
      { eapply (R_parent_unique _ _ HR); [exact Hn_in|]. rewrite <- E, Hkm. right. left. reflexivity. }
      assert (E' : a1 = a0) by (rewrite E; unfold n; rewrite Exm, Hkm; reflexivity).
      assert (Hlmo : o_opcode mo <> opFreed) by (rewrite Hop; discriminate).
      destruct (R_kids _ _ HR _ _ Hm Hlmo) as (_ & _ & _ & Hnd). rewrite Hkm in Hnd.
      apply NoDup_cons_iff in Hnd. destruct Hnd as (Hni & _). apply Hni. left. exact E'.
Qed.

Lemma KS3_loop : forall wf fuel s g, MI KS3 NoX s g ->
  wp True (resolve_loop fuel wf) s (fun _ s' => exists g', MI KS3 NoX s' g').
Proof. exact (resolve_loop_MI KS3 KS3_counters KS3_move KS3_free KS3_reloc). Qed.

