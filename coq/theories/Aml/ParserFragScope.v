(** C11 (fragment F3): Scope directives over the predefined scopes at the top level of the table.
    First pass and connectNamedObjArgs on a Scope block; the trees before ([tlay1], [tlay2]). *)
From Coq Require Import NArith ZArith Arith List Bool Lia.
From Coq Require Import ZifyBool ZifyN ZifyNat.
From FF Require Import Lib.Word Gen.Consts_device_acpi_aml Gen.Consts_aml_tree Aml.Stream Aml.Lex Aml.LexProofs
  Aml.Tree Aml.TreeSpec Aml.TreeProofs Aml.TreeProofsOps Aml.TreeProofsFind Aml.Parser Aml.Grammar Aml.LexRoundtrip
  Aml.ParserTotalTree Aml.ParserTotalBase
  Aml.ParserFragBase Aml.ParserFragFirst Aml.ParserFragF0 Aml.ParserFragF0Shape Aml.ParserFragConn Aml.ParserFragF0Conn Aml.ParserFragWalk
  Aml.ParserFragF0Top Aml.ParserFragRose Aml.ParserFragDev Aml.ParserFragF1 Aml.ParserFragF1First Aml.ParserFragF1Conn.
Import ListNotations.
Local Open Scope N_scope.

Ltac Zify.zify_post_hook ::= Z.div_mod_to_equations.

(** the name of a Scope directive: one segment, with or without the root prefix *)
Definition sc_name (root : bool) (seg : N) : namestr := mkName root 0 false [seg].
Definition sc_len (root : bool) : N := if root then 5 else 4.

Lemma enc_sc_name root seg : enc_name (sc_name root seg) = (if root then [0x5c] else []) ++ seg_bytes seg.
Proof.
  cbv [enc_name sc_name n_root n_carets n_segs n_multi]. change (lenN [seg]) with 1.
  change (N.to_nat 0) with 0%nat. change (2 <? 1) with false. change (1 =? 2) with false.
  cbn [repeat app orb flat_map]. rewrite app_nil_r. destruct root; reflexivity.
Qed.

Lemma lenN_sc_name root seg : lenN (enc_name (sc_name root seg)) = sc_len root.
Proof. rewrite enc_sc_name. destruct root; reflexivity. Qed.

Lemma wf_sc_name root seg : lead_okb (seg_lead seg) = true -> wf_name (sc_name root seg).
Proof.
  intros H. split; [cbn; lia|]. cbn [n_segs sc_name n_multi]. right. unfold lead_char. unfold lead_okb in H.
  apply orb_prop in H. destruct H as [H|H]; [left; apply andb_prop in H; destruct H; lia|right; lia].
Qed.

Lemma slice_sc_name root seg : name_slice_len (sc_name root seg) = sc_len root.
Proof. unfold name_slice_len. cbn [n_segs sc_name]. apply lenN_sc_name. Qed.

Lemma scope_facts : valid_opcode aml_pOpScope /\ aml_pOpScope <> aml_pOpNoop /\ aml_pOpScope <> opFreed /\
  is_prefix_op aml_pOpScope = false /\ opcodeTableIndex aml_pOpScope true = Some 9 /\
  opInfo 9 = Some (aml_pOpScope, 0, 67855) /\ hasFlag 0 aml_pOpFlagDeferParsing = false.
Proof.
  repeat split; try discriminate; try reflexivity. exists 9. split; [reflexivity|discriminate].
Qed.

Definition scp_pays (s : pstate) (off k : N) (root : bool) : list pay :=
  [mkPay aml_pOpScope 9 (p_handle s) name_zero off 0 None;
   path_pay s (off + 1 + k) (sc_len root);
   mkPay aml_pOpIntScopeBlock 113 (p_handle s) name_zero (off + 1 + k + sc_len root) 0 None].

(** the header of a Scope directive *)
Lemma next_scope f root s g pl pre k v seg rest post sc scs a :
  Rep (p_tree s) g pl -> g_free g = [] -> N.of_nat (length pl) + 2 < InvalidIndex ->
  at_token (p_r s) pre (enc_op aml_pOpScope ++ enc_pkglen k v ++ enc_name (sc_name root seg) ++ rest) post ->
  pkglen_admissible k v -> sc_len root + k <= v -> lenN pre + 1 + v <= r_len (p_r s) ->
  lead_okb (seg_lead seg) = true ->
  p_scopeStack s = sc :: scs -> pget pl sc = Some a -> y_op a <> opFreed -> p_allBlocks s = false ->
  wp False (parseNextObject (S (S (S (S (S (S f))))))) s (fun res s' => res = ROk /\ exists t',
    s' = after_block s (lenN pre + 1 + k + sc_len root) (lenN pre + 1 + v) t' /\
    Rep t' (g_block g sc) (pl ++ scp_pays s (lenN pre) k root)).
Proof.
  intros H Hfree Hroom Hat Hadm Hv4 Hend Hlead Est Hsc Hlsc Hab.
  destruct scope_facts as (Hvalid & Hnoop & Hnf & Hnp & Hidx & Hinfo & Hdefer).
  pose proof (rep_len_g _ _ _ H) as Hlg. pose proof (rep_len_pool _ _ _ H) as Hlp.
  assert (Hsclt : sc < N.of_nat (length pl)) by (eapply pget_lt; eauto).
  pose proof (lenN_sc_name root seg) as Hnl. set (nl := sc_len root) in *.
  assert (Hnl1 : 1 <= nl) by (unfold nl, sc_len; destruct root; lia).
  eapply (next_head _ aml_pOpScope 9 s g pl pre _ post sc scs a);
    [exact H|exact Hfree|lia|exact Hat|exact Hvalid|exact Hnoop|exact Hnf|exact Hidx|exact Est|exact Hsc|exact Hlsc|].
  intros t1 H1. change (lenN (enc_op aml_pOpScope)) with 1.
  set (a1 := mkPay aml_pOpScope 9 (p_handle s) name_zero (lenN pre) 0 None) in *.
  set (pl1 := pl ++ [a1]) in *.
  assert (Hl1 : length pl1 = S (length pl)) by (unfold pl1; rewrite app_length; cbn [length]; lia).
  assert (Hn : pget pl1 (N.of_nat (length pl)) = Some a1) by apply pget_app_last.
  eapply (objargs_other _ _ a1 (aml_pOpScope, 0, 67855) _ _ pl1); [exact H1|exact Hn|exact Hnf|exact Hnp|exact Hinfo|].
  rewrite parseArgs_S. change (argCount 67855) with 3. cbv zeta. change (3 =? 0) with false. change (3 <=? 0) with false. cbv iota.
  change (argType 67855 0) with aml_pArgTypePkgLen.
  pose proof (at_adv (p_r s) pre (enc_op aml_pOpScope) _ post Hat) as Hat1. change (lenN (enc_op aml_pOpScope)) with 1 in Hat1.
  apply wp_bind.
  eapply (arg_pkglen _ aml_pOpScope 0 67855 _ _ (pre ++ enc_op aml_pOpScope) k v (enc_name (sc_name root seg) ++ rest) post); [exact Hat1|exact Hadm| |exact Hab|exact Hdefer|].
  { rewrite lenN_app. change (lenN (enc_op aml_pOpScope)) with 1. exact Hend. }
  cbv beta iota. apply wp_bind. apply wp_ret. change (pres_eqb ROk ROk) with true. cbv iota. change (w8 (0 + 1)) with 1.
  rewrite lenN_app. change (lenN (enc_op aml_pOpScope)) with 1. set (e := lenN pre + 1 + v).
  rewrite parseArgs_S. change (argCount 67855) with 3. cbv zeta. change (3 =? 0) with false. change (3 <=? 1) with false. cbv iota.
  change (argType 67855 1) with aml_pArgTypeNameString. rewrite parseArg_NameString.
  destruct (at_token_facts _ _ _ _ Hat) as (Ooff & Eend & Wb & Wc).
  assert (Hlk : lenN (enc_pkglen k v) = k).
  { destruct Hadm as [(-> & _)|[(-> & _)|[(-> & _)|(-> & _)]]]; reflexivity. }
  pose proof (at_adv _ (pre ++ enc_op aml_pOpScope) (enc_pkglen k v) (enc_name (sc_name root seg) ++ rest) post Hat1) as A.
  rewrite Hlk, lenN_app in A. change (lenN (enc_op aml_pOpScope)) with 1 in A.
  set (pre2 := (pre ++ enc_op aml_pOpScope) ++ enc_pkglen k v) in *.
  assert (Hlpre2 : lenN pre2 = lenN pre + 1 + k).
  { unfold pre2. rewrite !lenN_app, Hlk. change (lenN (enc_op aml_pOpScope)) with 1. reflexivity. }
  assert (Hat2 : at_token (set_pkgEnd_raw (set_offset_raw (p_r s) (lenN pre + 1 + k)) e) pre2 (enc_name (sc_name root seg) ++ []) (rest ++ post)).
  { rewrite app_nil_r. destruct A as [D O E W]. constructor.
    - cbn [r_data set_pkgEnd_raw set_offset_raw] in D |- *. rewrite D, <- !app_assoc. reflexivity.
    - exact O.
    - cbn [r_pkgEnd set_pkgEnd_raw]. rewrite Hlpre2, Hnl. unfold e. lia.
    - destruct W as (W1 & W2 & W3 & W4). unfold reader_wf. cbn. repeat split; auto; unfold e; lia. }
  apply wp_bind.
  eapply (simpleArg_name (sc_name root seg) _ _ pl1 _ [] (rest ++ post)); [exact H1|apply free_g_head|lia|exact Hat2|apply wf_sc_name; exact Hlead|rewrite slice_sc_name; exact Hnl1|].
  intros t2 H2. cbv beta iota.
  rewrite ?slice_sc_name, ?Hnl, ?Hlpre2 in H2. rewrite ?slice_sc_name, ?Hnl, ?Hlpre2. fold nl in H2 |- *.
  assert (Hlg1 : length (g_kids (gnew (g_head g sc))) = S (S (length pl))) by (rewrite len_gnew, len_g_head; lia).
  assert (Hkn : kids (g_head g sc) (N.of_nat (length pl)) = []).
  { rewrite kids_g_head by lia. destruct (N.eqb_spec (N.of_nat (length pl)) sc); [lia|]. apply kids_oob. lia. }
  apply wp_bind. eapply wp_append_rep; [exact H2| | | | |].
  { split; [rewrite Hlg1; lia|cbn; tauto]. }
  { split; [rewrite Hlg1; lia|cbn; tauto]. }
  { replace (N.of_nat (length pl1)) with (N.of_nat (length (g_kids (g_head g sc)))) by (rewrite len_g_head; lia).
    eapply groot_fresh. apply (rep_R _ _ _ H1). }
  { intros Hd. apply desc_leaf in Hd; [lia|]. rewrite kids_gnew. apply kids_oob. rewrite len_g_head. lia. }
  intros t3 H3. rewrite kids_gnew, Hkn in H3. cbn [app] in H3.
  change (pres_eqb ROk ROk) with true. cbv iota. change (w8 (1 + 1)) with 2.
  rewrite parseArgs_S. change (argCount 67855) with 3. cbv zeta. change (3 =? 0) with false. change (3 <=? 2) with false. cbv iota.
  change (argType 67855 2) with aml_pArgTypeTermList.
  set (g3 := set_kids (gnew (g_head g sc)) (N.of_nat (length pl)) [N.of_nat (length pl1)]) in *.
  set (pl2 := pl1 ++ [path_pay _ (lenN pre + 1 + k) nl]) in *.
  assert (Hl2 : length pl2 = S (S (length pl))) by (unfold pl2; rewrite app_length; cbn [length]; lia).
  apply wp_bind.
  eapply (arg_termlist _ _ _ _ g3 pl2); [exact H3|reflexivity|lia|exact Hab|].
  intros t4 H4. cbv beta iota.
  assert (Hlg3 : length (g_kids (gnew g3)) = S (S (S (length pl)))) by (unfold g3; rewrite len_gnew, len_set_kids, Hlg1; reflexivity).
  assert (Hkn3 : kids (gnew g3) (N.of_nat (length pl)) = [N.of_nat (length pl1)]).
  { rewrite kids_gnew. unfold g3. rewrite kids_set_kids by (rewrite Hlg1; lia). rewrite N.eqb_refl. reflexivity. }
  apply wp_bind. eapply wp_append_rep; [exact H4| | | | |].
  { split; [rewrite Hlg3; lia|cbn; tauto]. }
  { split; [rewrite Hlg3; lia|cbn; tauto]. }
  { replace (N.of_nat (length pl2)) with (N.of_nat (length (g_kids g3))) by (unfold g3; rewrite len_set_kids, Hlg1; lia).
    eapply groot_fresh. apply (rep_R _ _ _ H3). }
  { intros Hd. apply desc_leaf in Hd; [lia|]. rewrite kids_gnew. apply kids_oob. unfold g3. rewrite len_set_kids, Hlg1. lia. }
  intros t5 H5. rewrite Hkn3 in H5. cbn [app] in H5.
  change (pres_eqb RShort ROk) with false. cbv iota. apply wp_ret.
  split; [reflexivity|]. exists t5. split.
  - unfold after_block. rewrite <- Hlp. replace (N.of_nat (length pl) + 2) with (N.of_nat (length pl2)) by lia. reflexivity.
  - unfold g_block. cbv zeta. rewrite Hlg.
    assert (E1 : N.of_nat (length pl1) = N.of_nat (length pl) + 1) by lia.
    assert (E2 : N.of_nat (length pl2) = N.of_nat (length pl) + 2) by lia.
    unfold g3 in H5. rewrite E1, E2 in H5.
    unfold scp_pays. fold nl. unfold pl2, pl1 in H5. rewrite <- !app_assoc in H5. cbn [app] in H5. exact H5.
Qed.

(** ---- top-level items ---- *)
Inductive titem : Type :=
| TItem (it : item)
| TScope (k : N) (root : bool) (d : N) (body : list item).

Definition dsegs : list N :=
  [0; seg4 95 71 80 69; seg4 95 80 82 95; seg4 95 83 66 95; seg4 95 83 73 95; seg4 95 84 90 95].
Definition dseg (d : N) : N := nth (N.to_nat d) dsegs 0.

Definition sc_body (root : bool) (d : N) (body : list item) : list N := enc_name (sc_name root (dseg d)) ++ enc_items body.

Definition enc_titem (x : titem) : list N :=
  match x with
  | TItem it => enc_item it
  | TScope k root d body => enc_op OP_SCOPE ++ enc_pkglen k (k + lenN (sc_body root d body)) ++ sc_body root d body
  end.
Definition enc_titems (l : list titem) : list N := flat_map enc_titem l.

Definition tsz (x : titem) : nat := match x with TItem it => isz it | TScope _ _ _ body => (3 + iszs body)%nat end.
Definition tszs (l : list titem) : nat := fold_right (fun x n => (tsz x + n)%nat) O l.
Definition tcnt (x : titem) : nat := match x with TItem it => icnt it | TScope _ _ _ body => (2 + icnts body)%nat end.
Definition tcnts (l : list titem) : nat := fold_right (fun x n => (tcnt x + n)%nat) O l.

Definition titem_okb (x : titem) : bool :=
  match x with
  | TItem it => item_okb it
  | TScope k root d body => (1 <=? d) && (d <=? 5) && pkglen_okb k (k + lenN (sc_body root d body)) && forallb item_okb body
  end.

Lemma dseg_lead d : 1 <= d <= 5 -> lead_okb (seg_lead (dseg d)) = true.
Proof.
  intros Hd. assert (Hc : d = 1 \/ d = 2 \/ d = 3 \/ d = 4 \/ d = 5) by lia.
  destruct Hc as [ -> | [ -> | [ -> | [ -> | -> ] ] ] ]; reflexivity.
Qed.

Section TLay.
Variable h tbl : N.

Definition scp_pay (off : N) : pay := mkPay aml_pOpScope 9 h name_zero off 0 None.
Definition pthn_pay (off nl : N) : pay := mkPay aml_pOpIntNamePath 118 h name_zero off 0 (Some (VBytes tbl (mkSlice (Some off) nl))).

Definition tlay1_item (b off : N) (x : titem) : list rose :=
  match x with
  | TItem it => lay1_item h tbl b off it
  | TScope k root d body =>
      [RN b (scp_pay off) [RN (b + 1) (pthn_pay (off + 1 + k) (sc_len root)) [];
                           RN (b + 2) (sb_pay h (off + 1 + k + sc_len root)) (lay1 h tbl (b + 3) (off + 1 + k + sc_len root) body)]]
  end.
Fixpoint tlay1 (b off : N) (l : list titem) : list rose :=
  match l with [] => [] | x :: t => tlay1_item b off x ++ tlay1 (b + N.of_nat (tsz x)) (off + lenN (enc_titem x)) t end.

Definition tlay2_item (b off : N) (x : titem) : list rose :=
  match x with
  | TItem it => lay2_item h tbl b off it
  | TScope k root d body =>
      [RN b (scp_pay off) [RN (b + 1) (pthn_pay (off + 1 + k) (sc_len root)) [];
                           RN (b + 2) (sb_pay h (off + 1 + k + sc_len root)) (lay2 h tbl (b + 3) (off + 1 + k + sc_len root) body)]]
  end.
Fixpoint tlay2 (b off : N) (l : list titem) : list rose :=
  match l with [] => [] | x :: t => tlay2_item b off x ++ tlay2 (b + N.of_nat (tsz x)) (off + lenN (enc_titem x)) t end.
End TLay.

Lemma lay1_single h tbl b off it : lay1 h tbl b off [it] = lay1_item h tbl b off it.
Proof. cbn [lay1]. apply app_nil_r. Qed.
Lemma lay2_single h tbl b off it : lay2 h tbl b off [it] = lay2_item h tbl b off it.
Proof. cbn [lay2]. apply app_nil_r. Qed.

Lemma tlay1_nodes h tbl : forall l b off x, In x (rnodesl (tlay1 h tbl b off l)) -> b <= x < b + N.of_nat (tszs l).
Proof.
  induction l as [|y t IH]; intros b off x Hx; [contradiction|].
  cbn [tlay1] in Hx. rewrite rnodesl_app in Hx. cbn [tszs fold_right]. fold (tszs t). apply in_app_or in Hx. destruct Hx as [Hx|Hx].
  - destruct y as [it|k root d body]; cbn [tlay1_item tsz] in *.
    + rewrite <- lay1_single in Hx. apply lay1_nodes in Hx. cbn [iszs fold_right] in Hx. lia.
    + unfold rnodesl in Hx. cbn [flat_map] in Hx. rewrite app_nil_r, rnodes_eq in Hx.
      destruct Hx as [<-|Hx]; [lia|]. unfold rnodesl in Hx. cbn [flat_map] in Hx. rewrite !rnodes_eq in Hx. cbn [rnodesl flat_map app] in Hx.
      destruct Hx as [<-|[<-|Hx]]; [lia|lia|]. rewrite app_nil_r in Hx. apply lay1_nodes in Hx. lia.
  - apply IH in Hx. lia.
Qed.

Lemma tlay2_nodes h tbl : forall l b off x, In x (rnodesl (tlay2 h tbl b off l)) -> b <= x < b + N.of_nat (tszs l).
Proof.
  induction l as [|y t IH]; intros b off x Hx; [contradiction|].
  cbn [tlay2] in Hx. rewrite rnodesl_app in Hx. cbn [tszs fold_right]. fold (tszs t). apply in_app_or in Hx. destruct Hx as [Hx|Hx].
  - destruct y as [it|k root d body]; cbn [tlay2_item tsz] in *.
    + rewrite <- lay2_single in Hx. apply lay2_nodes in Hx. cbn [iszs fold_right] in Hx. lia.
    + unfold rnodesl in Hx. cbn [flat_map] in Hx. rewrite app_nil_r, rnodes_eq in Hx.
      destruct Hx as [<-|Hx]; [lia|]. unfold rnodesl in Hx. cbn [flat_map] in Hx. rewrite !rnodes_eq in Hx. cbn [rnodesl flat_map app] in Hx.
      destruct Hx as [<-|[<-|Hx]]; [lia|lia|]. rewrite app_nil_r in Hx. apply lay2_nodes in Hx. lia.
  - apply IH in Hx. lia.
Qed.

Lemma tlay1_rsizes h tbl : forall l b off, rsizes (tlay1 h tbl b off l) = tszs l.
Proof.
  induction l as [|y t IH]; intros b off; [reflexivity|]. cbn [tlay1 tszs fold_right]. fold (tszs t). rewrite rsizes_app, IH. f_equal.
  destruct y as [it|k root d body]; cbn [tlay1_item tsz].
  - rewrite <- lay1_single, lay1_rsizes. cbn [iszs fold_right]. lia.
  - cbn [rsizes fold_right]. rewrite !rsize_eq. cbn [rsizes fold_right]. rewrite !rsize_eq.
    fold (rsizes (lay1 h tbl (b + 3) (off + 1 + k + sc_len root) body)). rewrite lay1_rsizes. cbn [rsizes fold_right]. lia.
Qed.

(** the block of a Scope directive after the first pass *)
Lemma post1_scope g pl sc g2 pl2 h tbl k root d body off :
  sc < N.of_nat (length pl) -> length (g_kids g) = length pl ->
  Post1 (g_block g sc) (pl ++ [scp_pay h off; pthn_pay h tbl (off + 1 + k) (sc_len root); sb_pay h (off + 1 + k + sc_len root)]) g2 pl2
        (N.of_nat (length pl) + 2) (lay1 h tbl (N.of_nat (length pl) + 3) (off + 1 + k + sc_len root) body) ->
  Post1 g pl g2 pl2 sc (tlay1_item h tbl (N.of_nat (length pl)) off (TScope k root d body)).
Proof.
  intros Hsc Hlg [A1 A2 A3 A4 A5 A6]. set (b := N.of_nat (length pl)) in *. set (nl := sc_len root) in *.
  set (pl1 := pl ++ [scp_pay h off; pthn_pay h tbl (off + 1 + k) nl; sb_pay h (off + 1 + k + nl)]) in *.
  assert (Hl1 : N.of_nat (length pl1) = b + 3) by (unfold pl1, b; rewrite app_length; cbn [length]; lia).
  assert (HK : forall i, kids (g_block g sc) i = if i =? b then [b + 1; b + 2] else if i =? sc then kids g sc ++ [b] else kids g i).
  { intros i. rewrite kids_g_block by (rewrite Hlg; exact Hsc). cbv zeta. rewrite Hlg. reflexivity. }
  assert (Hoob : forall i, b <= i -> kids g i = []) by (intros i Hi; apply kids_oob; rewrite Hlg; exact Hi).
  assert (Hp : forall c, c < 3 -> pget pl2 (b + c) = pget [scp_pay h off; pthn_pay h tbl (off + 1 + k) nl; sb_pay h (off + 1 + k + nl)] c).
  { intros c Hc. rewrite A6 by lia. unfold pl1, b. apply pget_app_new. }
  cbn [tlay1_item]. fold b nl. constructor.
  - exact A1.
  - rewrite A2. unfold pl1. rewrite app_length. cbn [length rsizes fold_right]. rewrite !rsize_eq. cbn [rsizes fold_right]. rewrite !rsize_eq.
    cbn [rsizes fold_right]. fold (rsizes (lay1 h tbl (b + 3) (off + 1 + k + nl) body)). lia.
  - rewrite A5 by lia. rewrite HK. destruct (N.eqb_spec sc b); [lia|]. rewrite N.eqb_refl. reflexivity.
  - constructor; [|constructor]. constructor.
    + rewrite <- (N.add_0_r b). rewrite (Hp 0) by lia. reflexivity.
    + rewrite A5 by lia. rewrite HK, N.eqb_refl. reflexivity.
    + constructor; [|constructor; [|constructor]].
      * constructor; [rewrite (Hp 1) by lia; reflexivity| |constructor].
        rewrite A5 by lia. rewrite HK. destruct (N.eqb_spec (b + 1) b); [lia|]. destruct (N.eqb_spec (b + 1) sc); [lia|]. apply Hoob. lia.
      * constructor; [rewrite (Hp 2) by lia; reflexivity| |exact A4].
        rewrite A3. rewrite HK. destruct (N.eqb_spec (b + 2) b); [lia|]. destruct (N.eqb_spec (b + 2) sc); [lia|]. rewrite (Hoob (b + 2)) by lia. reflexivity.
  - intros x Hx Hne. rewrite A5 by lia. rewrite HK. destruct (N.eqb_spec x b); [lia|]. apply N.eqb_neq in Hne. rewrite Hne. reflexivity.
  - intros x Hx. rewrite A6 by lia. unfold pl1. apply pget_app_old. exact Hx.
Qed.

(** ---- the first pass over the top-level items ---- *)
Lemma tszs_cons x t : tszs (x :: t) = (tsz x + tszs t)%nat. Proof. reflexivity. Qed.
Lemma tcnts_cons x t : tcnts (x :: t) = (tcnt x + tcnts t)%nat. Proof. reflexivity. Qed.
Lemma enc_titems_cons x t : enc_titems (x :: t) = enc_titem x ++ enc_titems t. Proof. reflexivity. Qed.
Lemma tlay1_cons h tbl b off x t : tlay1 h tbl b off (x :: t) = tlay1_item h tbl b off x ++ tlay1 h tbl (b + N.of_nat (tsz x)) (off + lenN (enc_titem x)) t.
Proof. reflexivity. Qed.
Lemma tlay2_cons h tbl b off x t : tlay2 h tbl b off (x :: t) = tlay2_item h tbl b off x ++ tlay2 h tbl (b + N.of_nat (tsz x)) (off + lenN (enc_titem x)) t.
Proof. reflexivity. Qed.

Section TItemsSpec.
Variable h : N.
Variable data : list N.
Variable len se : N.
Variable tbls : list (list N).
Let tbl := N.of_nat (length tbls) - 1.
Hypothesis Hlen : len = lenN data.
Hypothesis Hsmall : len < two32.
Hypothesis Hbytes : Forall (fun b => b < 256) data.

Definition TISpec (ts : list titem) : Prop :=
  forall fo fi off e t sc ss es g pl pre post a R (Q : pres -> pstate -> Prop),
  Rep t g pl -> g_free g = [] -> N.of_nat (length pl) + N.of_nat (tszs ts) < InvalidIndex ->
  data = pre ++ enc_titems ts ++ post -> off = lenN pre -> lenN pre + lenN (enc_titems ts) <= e -> e <= len ->
  forallb titem_okb ts = true -> length ss = length es ->
  pget pl sc = Some a -> y_op a <> opFreed ->
  (8 <= R)%nat -> (tcnts ts + R <= fi)%nat -> (tcnts ts + R + 1 <= fo)%nat ->
  (forall t' g' pl' fo' fi', Rep t' g' pl' -> Post1 g pl g' pl' sc (tlay1 h tbl (N.of_nat (length pl)) off ts) ->
      (R <= fi')%nat -> (R + 1 <= fo')%nat ->
      wp False (list_cont fo' fi') (st1 h data len se tbls (off + lenN (enc_titems ts)) e t' (sc :: ss) (e :: es)) Q) ->
  wp False (list_cont fo fi) (st1 h data len se tbls off e t (sc :: ss) (e :: es)) Q.

Lemma tispec_nil : TISpec [].
Proof.
  intros fo fi off e t sc ss es g pl pre post a R Q H Hfree Hroom Hd Ho He Hel Hok Hbal Hsc Hlsc HR Hfi Hfo K.
  specialize (K t g pl fo fi H (Post1_nil g pl sc Hfree)). cbn [enc_titems flat_map] in K. change (lenN (@nil N)) with 0 in K.
  rewrite N.add_0_r in K. apply K; cbn [tcnts fold_right] in *; lia.
Qed.

Lemma tispec_item it rest : TISpec rest -> TISpec (TItem it :: rest).
Proof.
  intros IH fo fi off e t sc ss es g pl pre post a R Q H Hfree Hroom Hd Ho He Hel Hok Hbal Hsc Hlsc HR Hfi Hfo K.
  cbn [forallb titem_okb] in Hok. apply andb_prop in Hok. destruct Hok as [Hit Hok].
  rewrite tszs_cons in Hroom. rewrite tcnts_cons in Hfi, Hfo. cbn [tsz tcnt] in *.
  rewrite enc_titems_cons in Hd, He. cbn [enc_titem] in Hd, He. rewrite lenN_app in He.
  assert (Hsclt : sc < N.of_nat (length pl)) by (eapply pget_lt; eauto).
  eapply (ispec_all h data len se tbls Hlen Hsmall Hbytes [it] fo fi off e t sc ss es g pl pre (enc_titems rest ++ post) a (tcnts rest + R)%nat Q);
    [exact H|exact Hfree|cbn [iszs fold_right]; lia| |exact Ho| |exact Hel|cbn [forallb]; rewrite Hit; reflexivity|exact Hbal|exact Hsc|exact Hlsc|lia|cbn [icnts fold_right]; lia|cbn [icnts fold_right]; lia|].
  { rewrite Hd. cbn [enc_items flat_map]. rewrite app_nil_r, <- app_assoc. reflexivity. }
  { cbn [enc_items flat_map]. rewrite app_nil_r. lia. }
  intros t1 g1 pl1 fo1 fi1 H1 P1 Hfi1 Hfo1. cbn [enc_items flat_map] in *. rewrite app_nil_r in *.
  assert (Hl1 : length pl1 = (length pl + isz it)%nat).
  { rewrite (p1_len _ _ _ _ _ _ P1), lay1_rsizes. cbn [iszs fold_right]. lia. }
  eapply (IH fo1 fi1 (off + lenN (enc_item it)) e t1 sc ss es g1 pl1 (pre ++ enc_item it) post a R Q);
    [exact H1|apply (p1_free _ _ _ _ _ _ P1)|rewrite Hl1; lia| | | |exact Hel|exact Hok|exact Hbal| |exact Hlsc|exact HR|lia|lia|].
  { rewrite Hd, <- !app_assoc. reflexivity. }
  { rewrite lenN_app, Ho. reflexivity. }
  { rewrite lenN_app. lia. }
  { rewrite (p1_old_p _ _ _ _ _ _ P1) by exact Hsclt. exact Hsc. }
  intros t2 g2 pl2 fo2 fi2 H2 P2 Hfi2 Hfo2.
  specialize (K t2 g2 pl2 fo2 fi2 H2). rewrite tlay1_cons in K. cbn [tlay1_item tsz enc_titem] in K.
  replace (N.of_nat (length pl) + N.of_nat (isz it)) with (N.of_nat (length pl1)) in K by (rewrite Hl1; lia).
  rewrite enc_titems_cons, lenN_app in K. cbn [enc_titem] in K. rewrite N.add_assoc in K.
  apply K; [|exact Hfi2|exact Hfo2].
  eapply Post1_app; [exact Hsclt| | |exact P2].
  - intros x Hx. rewrite <- lay1_single in Hx. apply lay1_nodes in Hx. cbn [iszs fold_right] in Hx. rewrite Hl1. lia.
  - rewrite <- lay1_single. exact P1.
Qed.

Lemma tispec_scope k root d body rest : TISpec rest -> TISpec (TScope k root d body :: rest).
Proof.
  intros IH fo fi off e t sc ss es g pl pre post a R Q H Hfree Hroom Hd Ho He Hel Hok Hbal Hsc Hlsc HR Hfi Hfo K.
  cbn [forallb titem_okb] in Hok. apply andb_prop in Hok. destruct Hok as [Hd_ok Hok].
  apply andb_prop in Hd_ok. destruct Hd_ok as [Hx Hbody_ok]. apply andb_prop in Hx. destruct Hx as [Hx Hpk].
  apply andb_prop in Hx. destruct Hx as [Hd1 Hd5]. apply N.leb_le in Hd1. apply N.leb_le in Hd5. apply pkglen_okb_adm in Hpk.
  pose proof (dseg_lead d (conj Hd1 Hd5)) as Hlead.
  rewrite tszs_cons in Hroom. rewrite tcnts_cons in Hfi, Hfo. cbn [tsz tcnt] in *.
  rewrite enc_titems_cons in Hd, He. cbn [enc_titem] in Hd, He. subst off.
  set (nl := sc_len root) in *. set (seg := dseg d) in *.
  unfold sc_body in *. fold seg in Hd, He, Hpk |- *.
  set (v := k + lenN (enc_name (sc_name root seg) ++ enc_items body)) in *.
  assert (Hv : v = k + nl + lenN (enc_items body)) by (unfold v; rewrite lenN_app, lenN_sc_name; unfold nl; lia).
  pose proof (lenN_enc_pkglen k v Hpk) as Hlk.
  pose proof (rep_len_g _ _ _ H) as Hlg. pose proof (rep_len_pool _ _ _ H) as Hlp.
  assert (Hsclt : sc < N.of_nat (length pl)) by (eapply pget_lt; eauto).
  assert (Hnl : 4 <= nl <= 5) by (unfold nl, sc_len; destruct root; lia).
  assert (Ef : exists f', fi = S (S (S (S (S (S (S f'))))))) by (exists (fi - 7)%nat; lia). destruct Ef as (f' & ->).
  set (s0 := st1 h data len se tbls (lenN pre) e t (sc :: ss) (e :: es)).
  assert (HlenI : lenN (enc_op OP_SCOPE ++ enc_pkglen k v ++ enc_name (sc_name root seg) ++ enc_items body) = 1 + v).
  { rewrite !lenN_app, Hlk, lenN_sc_name. change (lenN (enc_op OP_SCOPE)) with 1. fold nl. lia. }
  rewrite lenN_app, HlenI in He.
  assert (Hat0 : at_token (p_r s0) pre (enc_op aml_pOpScope ++ enc_pkglen k v ++ enc_name (sc_name root seg) ++ (enc_items body ++ enc_titems rest)) post).
  { apply mk_at; [ |reflexivity| |exact Hel|exact Hlen|exact Hsmall|exact Hbytes].
    - rewrite Hd. change aml_pOpScope with OP_SCOPE. rewrite <- !app_assoc. reflexivity.
    - rewrite !lenN_app, Hlk, lenN_sc_name. change (lenN (enc_op aml_pOpScope)) with 1. fold nl. lia. }
  apply wp_list_cont_S. unfold eofM, rq. apply wp_bind, wp_get.
  assert (Hne : eof (p_r s0) = false).
  { change (enc_op aml_pOpScope) with [0x10] in Hat0. cbn [app] in Hat0. apply (at_not_eof _ _ _ _ _ Hat0). }
  rewrite Hne.
  apply wp_bind. eapply wp_conseq.
  { eapply (next_scope _ root s0 g pl pre k v seg _ post sc ss a);
      [exact H|exact Hfree|lia|exact Hat0|exact Hpk|fold nl; lia| |exact Hlead|reflexivity|exact Hsc|exact Hlsc|reflexivity].
    cbn [s0 st1 p_r r_len]. lia. }
  intros res s1 (-> & t1 & -> & H1). change (pres_eqb ROk ROk) with true. cbv iota. fold nl in H1 |- *.
  set (b := N.of_nat (length pl)) in *.
  set (off1 := lenN pre + 1 + k + nl). set (e1 := lenN pre + 1 + v).
  set (pl1 := pl ++ scp_pays s0 (lenN pre) k root) in *.
  assert (Hpl1 : pl1 = pl ++ [scp_pay h (lenN pre); pthn_pay h tbl (lenN pre + 1 + k) nl; sb_pay h (lenN pre + 1 + k + nl)]) by reflexivity.
  assert (Hl1 : length pl1 = S (S (S (length pl)))) by (rewrite Hpl1, app_length; cbn [length]; lia).
  set (s1 := st1 h data len se tbls off1 e1 t1 (b + 2 :: sc :: ss) (e1 :: e :: es)).
  assert (Es1 : after_block s0 off1 e1 t1 = s1).
  { unfold after_block, s1, s0, st1. scbn. unfold set_pkgEnd_raw, set_offset_raw. cbn [r_data r_len r_offset r_pkgEnd p_r p_tree]. rewrite <- Hlp. reflexivity. }
  rewrite Es1.
  set (pre1 := pre ++ enc_op OP_SCOPE ++ enc_pkglen k v ++ enc_name (sc_name root seg)).
  assert (Hlp1 : lenN pre1 = off1).
  { unfold pre1, off1. rewrite !lenN_app, Hlk, lenN_sc_name. change (lenN (enc_op OP_SCOPE)) with 1. fold nl. lia. }
  assert (Hsb1 : pget pl1 (b + 2) = Some (sb_pay h (lenN pre + 1 + k + nl))).
  { rewrite Hpl1. unfold b. rewrite pget_app_new. reflexivity. }
  eapply (ispec_all h data len se tbls Hlen Hsmall Hbytes body fo _ off1 e1 t1 (b + 2) (sc :: ss) (e :: es) _ pl1 pre1 (enc_titems rest ++ post) _ (tcnts rest + R + 1)%nat Q);
    [exact H1|reflexivity|rewrite Hl1; lia| |symmetry; exact Hlp1| | |exact Hbody_ok|cbn [length]; rewrite Hbal; reflexivity|exact Hsb1|discriminate|lia|lia|lia|].
  { unfold pre1. rewrite Hd. rewrite <- !app_assoc. reflexivity. }
  { rewrite Hlp1. unfold off1, e1. lia. }
  { unfold e1. lia. }
  intros t2 g2 pl2 fo2 fi2 H2 P2 Hfi2 Hfo2.
  destruct fi2 as [|fi2']; [lia|]. apply wp_list_cont_S. unfold eofM, rq. apply wp_bind, wp_get.
  assert (Eeof : eof (p_r (st1 h data len se tbls (off1 + lenN (enc_items body)) e1 t2 (b + 2 :: sc :: ss) (e1 :: e :: es))) = true).
  { unfold eof. cbn [st1 p_r r_pkgEnd r_offset]. apply N.leb_le. unfold e1, off1. lia. }
  rewrite Eeof.
  destruct fo2 as [|fo2']; [lia|].
  apply wp_list_end; [exact Hbal|exact Hel|].
  set (pre2 := pre1 ++ enc_items body).
  assert (Hlp2 : lenN pre2 = off1 + lenN (enc_items body)) by (unfold pre2; rewrite lenN_app, Hlp1; reflexivity).
  assert (Hl2 : length pl2 = (length pl + 3 + iszs body)%nat).
  { rewrite (p1_len _ _ _ _ _ _ P2), Hl1, lay1_rsizes. lia. }
  assert (P02 : Post1 g pl g2 pl2 sc (tlay1_item h tbl b (lenN pre) (TScope k root d body))).
  { apply post1_scope; [exact Hsclt|exact Hlg|]. fold nl. rewrite <- Hpl1. fold b.
    replace (b + 3) with (N.of_nat (length pl1)) by lia. exact P2. }
  assert (Hsc2 : pget pl2 sc = Some a).
  { rewrite (p1_old_p _ _ _ _ _ _ P02) by exact Hsclt. exact Hsc. }
  eapply (IH fo2' _ (off1 + lenN (enc_items body)) e t2 sc ss es g2 pl2 pre2 post a R Q);
    [exact H2|apply (p1_free _ _ _ _ _ _ P2)|rewrite Hl2; lia| |symmetry; exact Hlp2| |exact Hel|exact Hok|exact Hbal|exact Hsc2|exact Hlsc|exact HR|lia|lia|].
  { unfold pre2, pre1. rewrite Hd. rewrite <- !app_assoc. reflexivity. }
  { rewrite Hlp2. unfold off1. lia. }
  intros t3 g3 pl3 fo3 fi3 H3 P3 Hfi3 Hfo3.
  specialize (K t3 g3 pl3 fo3 fi3 H3).
  rewrite tlay1_cons in K. cbn [tsz] in K. fold b in K.
  replace (b + N.of_nat (3 + iszs body)) with (N.of_nat (length pl2)) in K by (rewrite Hl2; unfold b; lia).
  rewrite enc_titems_cons, lenN_app in K. cbn [enc_titem] in K. unfold sc_body in K. fold seg in K. fold v in K. rewrite HlenI in K.
  replace (lenN pre + (1 + v)) with (off1 + lenN (enc_items body)) in K by (unfold off1; lia).
  replace (lenN pre + (1 + v + lenN (enc_titems rest))) with (off1 + lenN (enc_items body) + lenN (enc_titems rest)) in K by (unfold off1; lia).
  apply K; [|exact Hfi3|exact Hfo3].
  eapply Post1_app; [exact Hsclt| |exact P02|exact P3].
  intros x Hx. change (tlay1_item h tbl b (lenN pre) (TScope k root d body)) with (tlay1 h tbl b (lenN pre) [TScope k root d body] ++ []) in Hx.
  rewrite app_nil_r in Hx. apply tlay1_nodes in Hx. cbn [tszs fold_right tsz] in Hx. rewrite Hl2. unfold b in *. lia.
Qed.

Theorem tispec_all : forall ts, TISpec ts.
Proof.
  induction ts as [|[it|k root d body] rest IH].
  - apply tispec_nil.
  - apply tispec_item. exact IH.
  - apply tispec_scope. exact IH.
Qed.
End TItemsSpec.
