(** Flat interface of the C11 correspondence driver (checks/C11.py, harness zz_verif_c11_test.go).
      case = features ntables (len bytes...)* nexpected (len nums...)* ntables (count ast...)*
      observation = [encode ast = bytes; wf_program ast] ++ flat (ns ast) ++ [class] ++ canonical dump of the model parse
                    ++ flat (sorted namespace view of the model's tree, Aml/View.v)
    The harness prints 1, the expected listing it was given (computed by the generator's Python
    transcription of [ns]), the class and the dump of the real tree: agreement therefore checks the Python
    encoder against [encode], the Python [ns] against the Coq [ns], and the real parser against the model. *)
From Coq Require Import NArith List Bool.
From FF Require Import Lib.Word Gen.Consts_device_acpi_aml Aml.Stream Aml.Lex Aml.Tree Aml.Parser Aml.Grammar Aml.View Aml.WfProgram.
Import ListNotations.
Local Open Scope N_scope.

Fixpoint dec_payloads (cnt : nat) (l : list N) : list (list N) * list N :=
  match cnt with
  | O => ([], l)
  | S c => match l with
           | [] => ([], [])
           | n :: rest =>
               let '(ps, r) := dec_payloads c (skipn (N.to_nat n) rest) in
               (firstn (N.to_nat n) rest :: ps, r)
           end
  end.

Fixpoint skip_entries (cnt : nat) (l : list N) : list N :=
  match cnt with
  | O => l
  | S c => match l with [] => [] | n :: rest => skip_entries c (skipn (N.to_nat n) rest) end
  end.

Fixpoint list_eqb (a b : list N) : bool :=
  match a, b with
  | [], [] => true
  | x :: a', y :: b' => (x =? y) && list_eqb a' b'
  | _, _ => false
  end.

Fixpoint tables_match (asts : list (list ast)) (payloads : list (list N)) : bool :=
  match asts, payloads with
  | [], [] => true
  | t :: ta, p :: pa => list_eqb (encode_table t) p && tables_match ta pa
  | _, _ => false
  end.

Definition run_case (l : list N) : list N :=
  match l with
  | _features :: nt :: rest =>
      let '(payloads, r1) := dec_payloads (N.to_nat nt) rest in
      match r1 with
      | nexp :: r2 =>
          let r3 := skip_entries (N.to_nat nexp) r2 in
          match r3 with
          | nta :: r4 =>
              match dec_tables_ast (length r4) (N.to_nat nta) r4 with
              | Some asts =>
                  let '(class, t, imgs) := load payloads in
                  [if tables_match asts payloads then 1 else 0; if wf_program asts then 1 else 0] ++ flat_entries (ns asts) ++ [class]
                  ++ (if class =? 0 then dump_tree t ++ flat_entries (sort (view t imgs)) else [])
              | None => [0xbadbad]
              end
          | [] => [0xbadbad]
          end
      | [] => [0xbadbad]
      end
  | _ => []
  end.
