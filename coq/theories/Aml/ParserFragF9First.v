(** [F9 copy] This file is ParserFragF1First.v re-done over the item type of ParserFragF9.v (one more constructor, [IStmt]: statements
    with constant operands); the item type of F1 .. F8 is shared by those fragments and is left untouched.  New material is marked F9. *)
(** C11 (fragment F1): the first pass on Name declarations and nested Device blocks builds [lay1]. *)
From Coq Require Import NArith ZArith Arith List Bool Lia.
From Coq Require Import ZifyBool ZifyN ZifyNat.
From FF Require Import Lib.Word Gen.Consts_device_acpi_aml Gen.Consts_aml_tree Aml.Stream Aml.Lex Aml.LexProofs
  Aml.Tree Aml.TreeSpec Aml.TreeProofs Aml.TreeProofsOps Aml.Parser Aml.Grammar Aml.LexRoundtrip
  Aml.ParserTotalTree Aml.ParserTotalBase
  Aml.ParserFragBase Aml.ParserFragFirst Aml.ParserFragF0 Aml.ParserFragF0Shape Aml.ParserFragF0Conn Aml.ParserFragWalk
  Aml.ParserFragRose Aml.ParserFragDev Aml.ParserFragArgs Aml.ParserFragF9.
Import ListNotations.
Local Open Scope N_scope.

Ltac Zify.zify_post_hook ::= Z.div_mod_to_equations.

(** ---- sizes and nodes of the trees ---- *)
Lemma rsizes_app a b : rsizes (a ++ b) = (rsizes a + rsizes b)%nat.
Proof. induction a as [|x t IH]; [reflexivity|]. cbn [app rsizes fold_right]. fold (rsizes (t ++ b)). fold (rsizes t). rewrite IH. lia. Qed.

Lemma rnodesl_app a b : rnodesl (a ++ b) = rnodesl a ++ rnodesl b.
Proof. unfold rnodesl. apply flat_map_app. Qed.

Lemma lay1_cons h tbl b off x t : lay1 h tbl b off (x :: t) = lay1_item h tbl b off x ++ lay1 h tbl (b + N.of_nat (isz x)) (off + lenN (enc_item x)) t.
Proof. reflexivity. Qed.

Lemma iszs_cons x t : iszs (x :: t) = (isz x + iszs t)%nat. Proof. reflexivity. Qed.
Lemma icnts_cons x t : icnts (x :: t) = (icnt x + icnts t)%nat. Proof. reflexivity. Qed.
Lemma enc_items_cons x t : enc_items (x :: t) = enc_item x ++ enc_items t. Proof. reflexivity. Qed.

Lemma rsizes_cons x t : rsizes (x :: t) = (rsize x + rsizes t)%nat.
Proof. reflexivity. Qed.

Lemma pel_trees_cons h tbl b off x t : pel_trees h tbl b off (x :: t) = pel_tree h tbl b off x :: pel_trees h tbl (b + N.of_nat (pel_sz x)) (off + lenN (enc_pel x)) t.
Proof. reflexivity. Qed.
Lemma pels_sz_cons x t : pels_sz (x :: t) = (pel_sz x + pels_sz t)%nat. Proof. reflexivity. Qed.
Lemma pels_cnt_cons x t : pels_cnt (x :: t) = (pel_cnt x + pels_cnt t)%nat. Proof. reflexivity. Qed.
Lemma enc_pels_cons x t : enc_pels (x :: t) = enc_pel x ++ enc_pels t. Proof. reflexivity. Qed.

Lemma pel_trees_rsizes h tbl : forall l b off, rsizes (pel_trees h tbl b off l) = pels_sz l.
Proof.
  induction l as [|a rest IH|k n es rest IHe IH] using pels_ind; intros b off; [reflexivity| |].
  - rewrite pel_trees_cons, rsizes_cons, IH, pels_sz_cons. cbn [pel_tree]. rewrite rsize_eq. reflexivity.
  - rewrite pel_trees_cons, rsizes_cons, IH, pels_sz_cons, pel_tree_sub, pel_sz_sub. rewrite rsize_eq, rsizes_cons, rsizes_cons, !rsize_eq, IHe.
    cbn [rsizes fold_right]. lia.
Qed.

Lemma pel_tree_rsize h tbl b off e : rsize (pel_tree h tbl b off e) = pel_sz e.
Proof. pose proof (pel_trees_rsizes h tbl [e] b off) as E. cbn [pel_trees rsizes fold_right pels_sz] in E. lia. Qed.

Lemma pel_trees_nodes h tbl : forall l b off x, In x (rnodesl (pel_trees h tbl b off l)) <-> b <= x < b + N.of_nat (pels_sz l).
Proof.
  induction l as [|a rest IH|k n es rest IHe IH] using pels_ind; intros b off x; [cbn; lia| |].
  - rewrite pel_trees_cons, pels_sz_cons. unfold rnodesl. cbn [flat_map]. fold (rnodesl (pel_trees h tbl (b + N.of_nat (pel_sz (PLeaf a))) (off + lenN (enc_pel (PLeaf a))) rest)).
    rewrite in_app_iff, IH. cbn [pel_tree pel_sz]. rewrite rnodes_eq. cbn [rnodesl flat_map In]. lia.
  - rewrite pel_trees_cons, pels_sz_cons. unfold rnodesl. cbn [flat_map]. fold (rnodesl (pel_trees h tbl (b + N.of_nat (pel_sz (PSub k n es))) (off + lenN (enc_pel (PSub k n es))) rest)).
    rewrite in_app_iff, IH, pel_tree_sub, pel_sz_sub. rewrite rnodes_eq. unfold rnodesl at 1. cbn [flat_map]. rewrite !rnodes_eq. cbn [rnodesl flat_map app In]. rewrite !app_nil_r.
    fold (rnodesl (pel_trees h tbl (b + 3) (off + 1 + k + 1) es)). rewrite IHe. lia.
Qed.

Lemma pel_tree_nodes h tbl b off e x : In x (rnodes (pel_tree h tbl b off e)) <-> b <= x < b + N.of_nat (pel_sz e).
Proof.
  pose proof (pel_trees_nodes h tbl [e] b off x) as E. cbn [pel_trees pels_sz fold_right] in E. unfold rnodesl in E. cbn [flat_map] in E. rewrite app_nil_r in E.
  rewrite E. lia.
Qed.

Lemma pkg_tree_rsize h tbl b off k n elems : rsize (pkg_tree h tbl b off k n elems) = (3 + pels_sz elems)%nat.
Proof. unfold pkg_tree. rewrite pel_tree_rsize, pel_sz_sub. reflexivity. Qed.

Lemma pkg_tree_nodes h tbl b off k n elems x : In x (rnodes (pkg_tree h tbl b off k n elems)) <-> b <= x < b + 3 + N.of_nat (pels_sz elems).
Proof. unfold pkg_tree. rewrite pel_tree_nodes, pel_sz_sub. lia. Qed.

Lemma lay1_rsizes h tbl : forall l b off, rsizes (lay1 h tbl b off l) = iszs l.
Proof.
  induction l as [|d rest IH|bk k seg fa body rest IHb IH|lk seg fa ta rest IH|seg k n elems rest IH|sk ta rest IH] using items_ind; intros b off; [reflexivity| | | | |].
  - rewrite lay1_cons, rsizes_app, IH, iszs_cons. reflexivity.
  - rewrite lay1_cons, rsizes_app, IH, iszs_cons, lay1_blk, isz_blk. cbn [rsizes fold_right]. rewrite !rsize_eq.
    rewrite rsizes_app, leaf_row_rsizes, len_hd_pays. cbn [rsizes fold_right]. rewrite rsize_eq, IHb. lia.
  - rewrite lay1_cons, rsizes_app, IH, iszs_cons, isz_leaf. cbn [lay1_item rsizes fold_right]. rewrite rsize_eq.
    fold (rsizes (leaf_row (b + 2 + nlf lk fa) (cst_pays h tbl (ta_off lk off fa) ta))). rewrite !leaf_row_rsizes, len_lhd_pays, len_cst_pays. lia.
  - rewrite lay1_cons, rsizes_app, IH, iszs_cons, isz_pkg. cbn [lay1_item]. rewrite rsizes_cons, rsizes_cons, pkg_tree_rsize, rsize_eq, rsizes_cons, rsize_eq. cbn [rsizes fold_right]. lia.
  - rewrite lay1_cons, rsizes_app, IH, iszs_cons, isz_stmt. cbn [lay1_item]. rewrite rsizes_cons, rsize_eq, leaf_row_rsizes, len_cst_pays. cbn [rsizes fold_right]. lia.
Qed.

Lemma lay1_nodes h tbl : forall l b off x, In x (rnodesl (lay1 h tbl b off l)) -> b <= x < b + N.of_nat (iszs l).
Proof.
  induction l as [|d rest IH|bk k seg fa body rest IHb IH|lk seg fa ta rest IH|seg k n elems rest IH|sk ta rest IH] using items_ind; intros b off x Hx; [contradiction| | | | |].
  5:{ rewrite lay1_cons, rnodesl_app in Hx. rewrite iszs_cons, isz_stmt. apply in_app_or in Hx. destruct Hx as [Hx|Hx].
      - cbn [lay1_item] in Hx. unfold rnodesl in Hx. cbn [flat_map] in Hx. rewrite rnodes_eq in Hx. cbn [rnodesl flat_map app In] in Hx.
        fold (rnodesl (leaf_row (b + 1) (cst_pays h tbl (off + slo sk) ta))) in Hx.
        destruct Hx as [<-|Hx]; [lia|]. apply leaf_row_nodes in Hx. rewrite len_cst_pays in Hx. lia.
      - apply IH in Hx. rewrite isz_stmt in Hx. lia. }
  - rewrite lay1_cons, rnodesl_app in Hx. rewrite iszs_cons. apply in_app_or in Hx. destruct Hx as [Hx|Hx].
    + cbn [lay1_item rnodesl flat_map rnodes app In] in Hx. cbn [isz]. lia.
    + apply IH in Hx. cbn [isz] in *. lia.
  - rewrite lay1_cons, rnodesl_app in Hx. rewrite iszs_cons, isz_blk. apply in_app_or in Hx. destruct Hx as [Hx|Hx].
    + rewrite lay1_blk in Hx. unfold rnodesl in Hx. cbn [flat_map] in Hx. rewrite app_nil_r, rnodes_eq in Hx.
      destruct Hx as [<-|Hx]; [lia|]. rewrite rnodesl_app in Hx. apply in_app_or in Hx. destruct Hx as [Hx|Hx].
      * apply leaf_row_nodes in Hx. rewrite len_hd_pays in Hx. lia.
      * unfold rnodesl in Hx. cbn [flat_map] in Hx. rewrite app_nil_r, rnodes_eq in Hx. unfold nfx in Hx.
        destruct Hx as [<-|Hx]; [lia|]. apply IHb in Hx. lia.
    + apply IH in Hx. rewrite isz_blk in Hx. lia.
  - rewrite lay1_cons, rnodesl_app in Hx. rewrite iszs_cons, isz_leaf. apply in_app_or in Hx. destruct Hx as [Hx|Hx].
    + cbn [lay1_item] in Hx. unfold rnodesl in Hx. cbn [flat_map] in Hx. rewrite rnodes_eq in Hx. cbn [app In] in Hx.
      fold (rnodesl (leaf_row (b + 2 + nlf lk fa) (cst_pays h tbl (ta_off lk off fa) ta))) in Hx. unfold nlf in Hx.
      destruct Hx as [<-|Hx]; [lia|]. apply in_app_or in Hx. destruct Hx as [Hx|Hx]; apply leaf_row_nodes in Hx; rewrite ?len_lhd_pays, ?len_cst_pays in Hx; lia.
    + apply IH in Hx. rewrite isz_leaf in Hx. lia.
  - rewrite lay1_cons, rnodesl_app in Hx. rewrite iszs_cons, isz_pkg. apply in_app_or in Hx. destruct Hx as [Hx|Hx].
    + cbn [lay1_item] in Hx. unfold rnodesl in Hx. cbn [flat_map] in Hx. rewrite app_nil_r in Hx. apply in_app_or in Hx.
      destruct Hx as [Hx|Hx]; [rewrite rnodes_eq in Hx; cbn [rnodesl flat_map rnodes app In] in Hx; lia|apply pkg_tree_nodes in Hx; lia].
    + apply IH in Hx. rewrite isz_pkg in Hx. lia.
Qed.

(** ---- what the first pass does to the forest and the payloads ---- *)
Record Post1 (g : ghost) (pl : list pay) (g' : ghost) (pl' : list pay) (sc : N) (trees : list rose) : Prop := mkPost1 {
  p1_free : g_free g' = [];
  p1_len : length pl' = (length pl + rsizes trees)%nat;
  p1_sc : kids g' sc = kids g sc ++ map ridx trees;
  p1_desc : Forall (Desc g' pl') trees;
  p1_old_k : forall x, x < N.of_nat (length pl) -> x <> sc -> kids g' x = kids g x;
  p1_old_p : forall x, x < N.of_nat (length pl) -> pget pl' x = pget pl x
}.

Lemma Post1_nil g pl sc : g_free g = [] -> Post1 g pl g pl sc [].
Proof. intros Hf. constructor; [exact Hf|cbn [rsizes fold_right]; lia|cbn [map]; rewrite app_nil_r; reflexivity|constructor|auto|auto]. Qed.

Lemma Post1_app g pl g1 pl1 g2 pl2 sc tr1 tr2 :
  sc < N.of_nat (length pl) ->
  (forall x, In x (rnodesl tr1) -> N.of_nat (length pl) <= x < N.of_nat (length pl1)) ->
  Post1 g pl g1 pl1 sc tr1 -> Post1 g1 pl1 g2 pl2 sc tr2 -> Post1 g pl g2 pl2 sc (tr1 ++ tr2).
Proof.
  intros Hsc Hn [A1 A2 A3 A4 A5 A6] [B1 B2 B3 B4 B5 B6]. constructor.
  - exact B1.
  - rewrite B2, A2, rsizes_app. lia.
  - rewrite B3, A3, map_app, app_assoc. reflexivity.
  - apply Forall_app. split; [|exact B4]. apply (Desc_frame_l g1 pl1); [exact A4|].
    intros x Hx. destruct (Hn x Hx) as (Hlo & Hhi). split; [apply B5; lia|apply B6; lia].
  - intros x Hx Hne. rewrite B5 by lia. apply A5; assumption.
  - intros x Hx. rewrite B6 by lia. apply A6; assumption.
Qed.

(** ---- the two loops of parseObjectList as one computation ---- *)
Definition list_end (fo : nat) : M pres :=
  mlet n1 <~ get (fun s => length (p_pkgEndStack s)) ;;
  mlet n2 <~ get (fun s => length (p_scopeStack s)) ;;
  (if Nat.eqb n1 n2 then scopeExit else ret tt) ;;;
  popPkgEnd ;;;
  parseObjectList fo.

Definition list_cont (fo fi : nat) : M pres :=
  mlet ok <~ objectList_inner fi ;; if negb ok then ret RFailed else list_end fo.

Lemma wp_list_cont_S fo fi s (Q : pres -> pstate -> Prop) :
  wp False (mlet e <~ eofM ;; if e then list_end fo else
            mlet res <~ parseNextObject fi ;; if pres_eqb res ROk then list_cont fo fi else ret RFailed) s Q ->
  wp False (list_cont fo (S fi)) s Q.
Proof.
  unfold wp, list_cont. rewrite objectList_inner_S. unfold bindM, eofM, rq, get.
  destruct (eof (p_r s)); [cbn [negb]; auto|].
  destruct (parseNextObject fi s) as [[res s1]| |]; auto.
  destruct (pres_eqb res ROk); auto.
Qed.

Lemma wp_parseObjectList_cont f s (Q : pres -> pstate -> Prop) :
  p_scopeStack s <> [] -> wp False (list_cont f f) s Q -> wp False (parseObjectList (S f)) s Q.
Proof.
  intros Hne K. unfold wp in *. rewrite parseObjectList_S. unfold bindM at 1. unfold get at 1.
  destruct (p_scopeStack s) as [|x l]; [congruence|]. exact K.
Qed.

(** the end of a block: both stacks are popped and the outer loop goes on *)
Lemma wp_list_end fo data len off e1 e t sb sc ss es se h tbls (Q : pres -> pstate -> Prop) :
  length ss = length es -> e <= len ->
  wp False (list_cont fo fo) (mkP (mkReader data len off e) t (sc :: ss) (e :: es) se 0 0 0 false h tbls) Q ->
  wp False (list_end (S fo)) (mkP (mkReader data len off e1) t (sb :: sc :: ss) (e1 :: e :: es) se 0 0 0 false h tbls) Q.
Proof.
  intros Hlen He K. unfold list_end.
  apply wp_bind, wp_get. apply wp_bind, wp_get. scbn. cbn [length]. rewrite Hlen, Nat.eqb_refl.
  apply wp_bind. unfold wp at 1, scopeExit. scbn.
  apply wp_bind. unfold wp at 1, popPkgEnd. scbn. cbv zeta iota beta. unfold setPkgEnd. cbn [r_len fst].
  assert (E : len <? e = false) by (apply N.ltb_ge; exact He). rewrite E. cbn [fst].
  apply wp_parseObjectList_cont; [scbn; discriminate|]. exact K.
Qed.

(** reader facts for a token in the middle of the table *)
Lemma mk_at data len off e pre tok post :
  data = pre ++ tok ++ post -> off = lenN pre -> lenN pre + lenN tok <= e -> e <= len -> len = lenN data -> len < two32 ->
  Forall (fun b => b < 256) data ->
  at_token (mkReader data len off e) pre tok post.
Proof.
  intros Hd Ho He Hl Hn Hs Hb. constructor; cbn [r_data r_offset r_pkgEnd]; auto.
  unfold reader_wf. cbn [r_len r_data r_pkgEnd]. repeat split; auto.
Qed.


Lemma forallb_item_cons x t : forallb item_okb (x :: t) = true -> item_okb x = true /\ forallb item_okb t = true.
Proof. cbn [forallb]. intros H. apply andb_prop in H. exact H. Qed.

(** ---- the trees of one item ---- *)
Lemma post1_name g pl sc h tbl off d :
  sc < N.of_nat (length pl) -> length (g_kids g) = length pl ->
  Post1 g pl (g_head (g_name g sc) sc)
        (pl ++ [nam_pay h off name_zero; pth_pay h tbl (off + 1); cst_pay h (off + 5) d]) sc
        (lay1_item h tbl (N.of_nat (length pl)) off (IName d)).
Proof.
  intros Hsc Hlg. set (b := N.of_nat (length pl)).
  assert (HK : forall i, kids (g_head (g_name g sc) sc) i =
                         if i =? sc then kids g sc ++ [b; b + 2] else if i =? b then [b + 1] else kids g i).
  { intros i. rewrite kids_step by (rewrite Hlg; exact Hsc). cbv zeta. rewrite Hlg. reflexivity. }
  assert (Hoob : forall i, b <= i -> kids g i = []) by (intros i Hi; apply kids_oob; rewrite Hlg; exact Hi).
  set (pl2 := pl ++ [nam_pay h off name_zero; pth_pay h tbl (off + 1); cst_pay h (off + 5) d]).
  assert (Hp : forall c, c < 3 -> pget pl2 (b + c) = pget [nam_pay h off name_zero; pth_pay h tbl (off + 1); cst_pay h (off + 5) d] c).
  { intros c Hc. unfold pl2, b. apply pget_app_new. }
  constructor.
  - reflexivity.
  - unfold pl2. rewrite app_length. cbn [lay1_item rsizes fold_right]. rewrite !rsize_eq. cbn [rsizes fold_right length]. rewrite !rsize_eq. cbn [rsizes fold_right]. lia.
  - rewrite HK, N.eqb_refl. reflexivity.
  - cbn [lay1_item]. fold b. constructor; [|constructor; [|constructor]].
    + constructor.
      * rewrite <- (N.add_0_r b). rewrite (Hp 0) by lia. reflexivity.
      * rewrite HK. destruct (N.eqb_spec b sc); [lia|]. rewrite N.eqb_refl. reflexivity.
      * constructor; [|constructor]. constructor; [rewrite (Hp 1) by lia; reflexivity| |constructor].
        rewrite HK. destruct (N.eqb_spec (b + 1) sc); [lia|]. destruct (N.eqb_spec (b + 1) b); [lia|]. apply Hoob. lia.
    + constructor; [rewrite (Hp 2) by lia; reflexivity| |constructor].
      rewrite HK. destruct (N.eqb_spec (b + 2) sc); [lia|]. destruct (N.eqb_spec (b + 2) b); [lia|]. apply Hoob. lia.
  - intros x Hx Hne. rewrite HK. apply N.eqb_neq in Hne. rewrite Hne. destruct (N.eqb_spec x b); [lia|reflexivity].
  - intros x Hx. unfold pl2. apply pget_app_old. exact Hx.
Qed.

Lemma nth_error_S {A} (x : A) l n : nth_error (x :: l) (S n) = nth_error l n.
Proof. reflexivity. Qed.

Lemma map_fst_combine {A B} (l1 : list A) (l2 : list B) : length l1 = length l2 -> map fst (combine l1 l2) = l1.
Proof. revert l2. induction l1 as [|x t IH]; intros [|y r] Hl; cbn in *; try reflexivity; try discriminate. rewrite IH by lia. reflexivity. Qed.

Lemma post1_blk g pl sc g2 pl2 h tbl bk k seg fa body off :
  sc < N.of_nat (length pl) -> length (g_kids g) = length pl ->
  Post1 (g_args (g_head g sc) (N.of_nat (length pl)) (2 + length (bfx bk fa)))
        (pl ++ blk_pay h bk off name_zero :: hd_pays h tbl bk off k fa ++ [sb_pay h (sb_off bk off k fa)]) g2 pl2
        (N.of_nat (length pl) + 2 + nfx bk fa) (lay1 h tbl (N.of_nat (length pl) + 3 + nfx bk fa) (sb_off bk off k fa) body) ->
  Post1 g pl g2 pl2 sc (lay1_item h tbl (N.of_nat (length pl)) off (IBlk bk k seg fa body)).
Proof.
  intros Hsc Hlg [A1 A2 A3 A4 A5 A6]. set (b := N.of_nat (length pl)) in *.
  set (nf := length (bfx bk fa)) in *. assert (Hm : nfx bk fa = N.of_nat nf) by reflexivity. rewrite Hm in *.
  set (news := blk_pay h bk off name_zero :: hd_pays h tbl bk off k fa ++ [sb_pay h (sb_off bk off k fa)]) in *.
  set (pl1 := pl ++ news) in *.
  assert (Hlh : length (hd_pays h tbl bk off k fa) = S nf) by apply len_hd_pays.
  assert (Hln : length news = (3 + nf)%nat) by (unfold news; cbn [length]; rewrite app_length, Hlh; cbn [length]; lia).
  assert (Hl1 : N.of_nat (length pl1) = b + 3 + N.of_nat nf) by (unfold pl1, b; rewrite app_length, Hln; lia).
  assert (Hoob : forall i, b <= i -> kids g i = []) by (intros i Hi; apply kids_oob; rewrite Hlg; exact Hi).
  assert (HK : forall i, kids (g_args (g_head g sc) b (2 + nf)) i =
             if i =? b then seqN (b + 1) (2 + nf) else if i =? sc then kids g sc ++ [b] else kids g i).
  { intros i. rewrite kids_g_args by (rewrite len_g_head, Hlg; unfold b; lia). rewrite len_g_head, !kids_g_head by (rewrite Hlg; exact Hsc). rewrite Hlg.
    destruct (N.eqb_spec i b) as [->|Hib].
    - destruct (N.eqb_spec b sc); [lia|]. rewrite (Hoob b) by lia. cbn [app]. f_equal. unfold b. lia.
    - reflexivity. }
  assert (Hp : forall c, c < 3 + N.of_nat nf -> pget pl2 (b + c) = pget news c).
  { intros c Hc. rewrite A6 by lia. unfold pl1, b. apply pget_app_new. }
  rewrite lay1_blk. fold b. rewrite Hm. constructor.
  - exact A1.
  - rewrite A2. unfold pl1. rewrite app_length, Hln. cbn [rsizes fold_right]. rewrite !rsize_eq, rsizes_app, leaf_row_rsizes, Hlh.
    cbn [rsizes fold_right]. rewrite rsize_eq. lia.
  - rewrite A5 by lia. rewrite HK. destruct (N.eqb_spec sc b); [lia|]. rewrite N.eqb_refl. reflexivity.
  - constructor; [|constructor]. constructor.
    + rewrite <- (N.add_0_r b). rewrite (Hp 0) by lia. reflexivity.
    + rewrite A5 by lia. rewrite HK, N.eqb_refl. rewrite map_app, leaf_row_idx, Hlh. cbn [map ridx].
      change (2 + nf)%nat with (S (S nf)). rewrite (seqN_snoc (b + 1) (S nf)). f_equal. f_equal. lia.
    + apply Forall_app. split.
      * apply leaf_row_desc. intros i p Hi.
        assert (Hilt : (i < S nf)%nat) by (rewrite <- Hlh; apply nth_error_Some; congruence).
        split.
        -- replace (b + 1 + N.of_nat i) with (b + N.of_nat (S i)) by lia. rewrite Hp by lia. unfold pget. rewrite Nat2N.id.
           unfold news. cbn [nth_error]. rewrite nth_error_app1 by (rewrite Hlh; lia). exact Hi.
        -- rewrite A5 by lia. rewrite HK. destruct (N.eqb_spec (b + 1 + N.of_nat i) b); [lia|]. destruct (N.eqb_spec (b + 1 + N.of_nat i) sc); [lia|]. apply Hoob. lia.
      * constructor; [|constructor]. constructor; [| |exact A4].
        -- replace (b + 2 + N.of_nat nf) with (b + N.of_nat (S (S nf))) by lia. rewrite Hp by lia. unfold pget. rewrite Nat2N.id.
           unfold news. rewrite nth_error_S, nth_error_app2 by (rewrite Hlh; lia). rewrite Hlh, Nat.sub_diag. reflexivity.
        -- rewrite A3. rewrite HK. destruct (N.eqb_spec (b + 2 + N.of_nat nf) b); [lia|]. destruct (N.eqb_spec (b + 2 + N.of_nat nf) sc); [lia|].
           rewrite (Hoob (b + 2 + N.of_nat nf)) by lia. reflexivity.
  - intros x Hx Hne. rewrite A5 by lia. rewrite HK. destruct (N.eqb_spec x b); [lia|]. apply N.eqb_neq in Hne. rewrite Hne. reflexivity.
  - intros x Hx. rewrite A6 by lia. unfold pl1. apply pget_app_old. exact Hx.
Qed.

Lemma post1_leaf g pl sc h tbl lk seg fa ta off :
  sc < N.of_nat (length pl) -> length (g_kids g) = length pl ->
  Post1 g pl (g_args (g_args (g_head g sc) (N.of_nat (length pl)) (1 + length (lfx lk fa))) sc (length ta))
        (pl ++ (lf_pay h lk off name_zero :: lhd_pays h tbl lk off fa) ++ cst_pays h tbl (ta_off lk off fa) ta) sc
        (lay1_item h tbl (N.of_nat (length pl)) off (ILeaf lk seg fa ta)).
Proof.
  intros Hsc Hlg. set (b := N.of_nat (length pl)) in *.
  set (nf := length (lfx lk fa)) in *. set (nt := length ta).
  set (G1 := g_args (g_head g sc) b (1 + nf)).
  set (hdp := lhd_pays h tbl lk off fa). set (cs := cst_pays h tbl (ta_off lk off fa) ta).
  assert (Hlh : length hdp = S nf) by apply len_lhd_pays.
  assert (Hlc : length cs = nt) by apply len_cst_pays.
  set (news := (lf_pay h lk off name_zero :: hdp) ++ cs).
  assert (Hln : length news = (2 + nf + nt)%nat) by (unfold news; rewrite app_length; cbn [length]; rewrite Hlh, Hlc; lia).
  assert (HlG1 : length (g_kids G1) = (length pl + 2 + nf)%nat) by (unfold G1; rewrite len_g_args, len_g_head, Hlg; lia).
  assert (Hoob : forall i, b <= i -> kids g i = []) by (intros i Hi; apply kids_oob; rewrite Hlg; exact Hi).
  assert (HK1 : forall i, kids G1 i = if i =? b then seqN (b + 1) (1 + nf) else if i =? sc then kids g sc ++ [b] else kids g i).
  { intros i. unfold G1. rewrite kids_g_args by (rewrite len_g_head, Hlg; unfold b; lia). rewrite len_g_head, !kids_g_head by (rewrite Hlg; exact Hsc). rewrite Hlg.
    destruct (N.eqb_spec i b) as [->|Hib]; [|reflexivity].
    destruct (N.eqb_spec b sc); [lia|]. rewrite (Hoob b) by lia. cbn [app]. f_equal. unfold b. lia. }
  assert (HK : forall i, kids (g_args G1 sc nt) i =
             if i =? sc then kids g sc ++ b :: seqN (b + 2 + N.of_nat nf) nt else if i =? b then seqN (b + 1) (1 + nf) else kids g i).
  { intros i. rewrite kids_g_args by (rewrite HlG1; lia). rewrite !HK1, HlG1.
    destruct (N.eqb_spec i sc) as [->|Hisc].
    - destruct (N.eqb_spec sc b); [lia|]. rewrite N.eqb_refl, <- app_assoc. cbn [app]. f_equal. f_equal. f_equal. unfold b. lia.
    - destruct (N.eqb_spec i b); reflexivity. }
  assert (Hp : forall c, pget (pl ++ news) (b + c) = pget news c) by (intros c; unfold b; apply pget_app_new).
  fold G1 hdp cs nt. change ((lf_pay h lk off name_zero :: hdp) ++ cs) with news.
  cbn [lay1_item]. fold b hdp cs. unfold nlf. fold nf. constructor.
  - apply free_g_args. apply free_g_args. reflexivity.
  - rewrite app_length, Hln. cbn [rsizes fold_right]. rewrite rsize_eq. fold (rsizes (leaf_row (b + 2 + N.of_nat nf) cs)). rewrite !leaf_row_rsizes, Hlh, Hlc. lia.
  - rewrite HK, N.eqb_refl. cbn [map ridx]. rewrite leaf_row_idx, Hlc. reflexivity.
  - constructor.
    + constructor.
      * rewrite <- (N.add_0_r b). rewrite Hp. reflexivity.
      * rewrite HK. destruct (N.eqb_spec b sc); [lia|]. rewrite N.eqb_refl, leaf_row_idx, Hlh. reflexivity.
      * apply leaf_row_desc. intros i p Hi. assert (Hilt : (i < S nf)%nat) by (rewrite <- Hlh; apply nth_error_Some; congruence).
        split.
        -- replace (b + 1 + N.of_nat i) with (b + N.of_nat (S i)) by lia. rewrite Hp. unfold pget. rewrite Nat2N.id.
           unfold news. cbn [app]. rewrite nth_error_S, nth_error_app1 by (rewrite Hlh; lia). exact Hi.
        -- rewrite HK. destruct (N.eqb_spec (b + 1 + N.of_nat i) sc); [lia|]. destruct (N.eqb_spec (b + 1 + N.of_nat i) b); [lia|]. apply Hoob. lia.
    + apply leaf_row_desc. intros i p Hi. assert (Hilt : (i < nt)%nat) by (rewrite <- Hlc; apply nth_error_Some; congruence).
      split.
      * replace (b + 2 + N.of_nat nf + N.of_nat i) with (b + N.of_nat (S (S nf + i))) by lia. rewrite Hp. unfold pget. rewrite Nat2N.id.
        unfold news. cbn [app]. rewrite nth_error_S, nth_error_app2 by (rewrite Hlh; lia). rewrite Hlh. replace (S nf + i - S nf)%nat with i by lia. exact Hi.
      * rewrite HK. destruct (N.eqb_spec (b + 2 + N.of_nat nf + N.of_nat i) sc); [lia|]. destruct (N.eqb_spec (b + 2 + N.of_nat nf + N.of_nat i) b); [lia|]. apply Hoob. lia.
  - intros x Hx Hne. rewrite HK. apply N.eqb_neq in Hne. rewrite Hne. destruct (N.eqb_spec x b); [lia|reflexivity].
  - intros x Hx. apply pget_app_old. exact Hx.
Qed.

(** a single new childless object of the scope *)
Lemma post1_single g pl sc p : sc < N.of_nat (length pl) -> length (g_kids g) = length pl ->
  Post1 g pl (g_head g sc) (pl ++ [p]) sc [RN (N.of_nat (length pl)) p []].
Proof.
  intros Hsc Hlg. set (b := N.of_nat (length pl)).
  assert (Hoob : forall i, b <= i -> kids g i = []) by (intros i Hi; apply kids_oob; rewrite Hlg; exact Hi).
  assert (HK : forall i, kids (g_head g sc) i = if i =? sc then kids g sc ++ [b] else kids g i).
  { intros i. rewrite kids_g_head by (rewrite Hlg; exact Hsc). rewrite Hlg. reflexivity. }
  constructor.
  - reflexivity.
  - rewrite app_length. cbn [length rsizes fold_right]. rewrite rsize_eq. cbn [rsizes fold_right]. lia.
  - rewrite HK, N.eqb_refl. reflexivity.
  - constructor; [|constructor]. constructor; [apply pget_app_last| |constructor].
    rewrite HK. destruct (N.eqb_spec b sc); [lia|]. apply Hoob. lia.
  - intros x Hx Hne. rewrite HK. apply N.eqb_neq in Hne. rewrite Hne. reflexivity.
  - intros x Hx. apply pget_app_old. exact Hx.
Qed.

(** a Name object with its name path; the value follows as an object of its own *)
Lemma post1_nameonly g pl sc h tbl off : sc < N.of_nat (length pl) -> length (g_kids g) = length pl ->
  Post1 g pl (g_name g sc) (pl ++ [nam_pay h off name_zero; pth_pay h tbl (off + 1)]) sc
        [RN (N.of_nat (length pl)) (nam_pay h off name_zero) [RN (N.of_nat (length pl) + 1) (pth_pay h tbl (off + 1)) []]].
Proof.
  intros Hsc Hlg. set (b := N.of_nat (length pl)).
  assert (Hoob : forall i, b <= i -> kids g i = []) by (intros i Hi; apply kids_oob; rewrite Hlg; exact Hi).
  assert (HK : forall i, kids (g_name g sc) i = if i =? b then [b + 1] else if i =? sc then kids g sc ++ [b] else kids g i).
  { intros i. rewrite kids_g_name by (rewrite Hlg; exact Hsc). rewrite Hlg. reflexivity. }
  set (news := [nam_pay h off name_zero; pth_pay h tbl (off + 1)]).
  assert (Hp : forall c, c < 2 -> pget (pl ++ news) (b + c) = pget news c) by (intros c Hc; unfold b; apply pget_app_new).
  constructor.
  - reflexivity.
  - rewrite app_length. unfold news. cbn [length rsizes fold_right]. rewrite !rsize_eq. cbn [rsizes fold_right]. rewrite rsize_eq. cbn [rsizes fold_right]. lia.
  - rewrite HK. destruct (N.eqb_spec sc b); [lia|]. rewrite N.eqb_refl. reflexivity.
  - constructor; [|constructor]. constructor.
    + rewrite <- (N.add_0_r b). rewrite (Hp 0) by lia. reflexivity.
    + rewrite HK, N.eqb_refl. reflexivity.
    + constructor; [|constructor]. constructor; [rewrite (Hp 1) by lia; reflexivity| |constructor].
      rewrite HK. destruct (N.eqb_spec (b + 1) b); [lia|]. destruct (N.eqb_spec (b + 1) sc); [lia|]. apply Hoob. lia.
  - intros x Hx Hne. rewrite HK. destruct (N.eqb_spec x b); [lia|]. apply N.eqb_neq in Hne. rewrite Hne. reflexivity.
  - intros x Hx. apply pget_app_old. exact Hx.
Qed.

(** a package: the element count and a ScopeBlock with the elements below it *)
Lemma post1_sub g pl sc g2 pl2 h tbl k n es off :
  sc < N.of_nat (length pl) -> length (g_kids g) = length pl ->
  Post1 (g_args (g_head g sc) (N.of_nat (length pl)) 2)
        (pl ++ [pkg_pay h off; num_pay h W1 (off + 1 + k) n; sb_pay h (off + 1 + k + 1)]) g2 pl2
        (N.of_nat (length pl) + 2) (pel_trees h tbl (N.of_nat (length pl) + 3) (off + 1 + k + 1) es) ->
  Post1 g pl g2 pl2 sc [pel_tree h tbl (N.of_nat (length pl)) off (PSub k n es)].
Proof.
  intros Hsc Hlg [A1 A2 A3 A4 A5 A6]. set (b := N.of_nat (length pl)) in *.
  set (news := [pkg_pay h off; num_pay h W1 (off + 1 + k) n; sb_pay h (off + 1 + k + 1)]) in *.
  set (pl1 := pl ++ news) in *.
  assert (Hl1 : N.of_nat (length pl1) = b + 3) by (unfold pl1, b, news; rewrite app_length; cbn [length]; lia).
  assert (Hoob : forall i, b <= i -> kids g i = []) by (intros i Hi; apply kids_oob; rewrite Hlg; exact Hi).
  assert (HK : forall i, kids (g_args (g_head g sc) b 2) i =
             if i =? b then seqN (b + 1) 2 else if i =? sc then kids g sc ++ [b] else kids g i).
  { intros i. rewrite kids_g_args by (rewrite len_g_head, Hlg; unfold b; lia). rewrite len_g_head, !kids_g_head by (rewrite Hlg; exact Hsc). rewrite Hlg.
    destruct (N.eqb_spec i b) as [->|Hib].
    - destruct (N.eqb_spec b sc); [lia|]. rewrite (Hoob b) by lia. cbn [app]. f_equal. unfold b. lia.
    - reflexivity. }
  assert (Hp : forall c, c < 3 -> pget pl2 (b + c) = pget news c).
  { intros c Hc. rewrite A6 by lia. unfold pl1, b. apply pget_app_new. }
  rewrite pel_tree_sub. constructor.
  - exact A1.
  - rewrite A2. unfold pl1. rewrite app_length. unfold news. cbn [length rsizes fold_right]. rewrite !rsize_eq. cbn [rsizes fold_right]. rewrite !rsize_eq. cbn [rsizes fold_right].
    fold (rsizes (pel_trees h tbl (b + 3) (off + 1 + k + 1) es)). lia.
  - rewrite A5 by lia. rewrite HK. destruct (N.eqb_spec sc b); [lia|]. rewrite N.eqb_refl. reflexivity.
  - constructor; [|constructor]. constructor.
    + rewrite <- (N.add_0_r b). rewrite (Hp 0) by lia. reflexivity.
    + rewrite A5 by lia. rewrite HK, N.eqb_refl. cbn [map ridx seqN]. f_equal. f_equal. lia.
    + constructor; [|constructor; [|constructor]].
      * constructor; [rewrite (Hp 1) by lia; reflexivity| |constructor].
        rewrite A5 by lia. rewrite HK. destruct (N.eqb_spec (b + 1) b); [lia|]. destruct (N.eqb_spec (b + 1) sc); [lia|]. apply Hoob. lia.
      * constructor; [rewrite (Hp 2) by lia; reflexivity| |exact A4].
        rewrite A3. rewrite HK. destruct (N.eqb_spec (b + 2) b); [lia|]. destruct (N.eqb_spec (b + 2) sc); [lia|]. rewrite (Hoob (b + 2)) by lia. reflexivity.
  - intros x Hx Hne. rewrite A5 by lia. rewrite HK. destruct (N.eqb_spec x b); [lia|]. apply N.eqb_neq in Hne. rewrite Hne. reflexivity.
  - intros x Hx. rewrite A6 by lia. unfold pl1. apply pget_app_old. exact Hx.
Qed.

Lemma lenN_enc_pkglen k v : pkglen_admissible k v -> lenN (enc_pkglen k v) = k.
Proof. intros [(-> & _)|[(-> & _)|[(-> & _)|(-> & _)]]]; reflexivity. Qed.

Lemma enc_op_nonempty op : exists x l, enc_op op = x :: l.
Proof. unfold enc_op. destruct (op <=? 255); eauto. Qed.


(** ---- a statement operator (F9): one parseNextObject, no argument is parsed in the first pass ---- *)
Lemma parseArg_TermArg f inf cur s : p_allBlocks s = false ->
  parseArg (S f) inf cur aml_pArgTypeTermArg s = Ok ((None, RShort), s).
Proof.
  destruct inf as [[a b] c]. intros E.
  change (parseArg (S f) (a, b, c) cur aml_pArgTypeTermArg) with
    (mlet allBlocks <~ get p_allBlocks ;; if allBlocks then parseStrictTermArg f cur else ret (None, RShort)).
  unfold bindM, get. rewrite E. reflexivity.
Qed.

Lemma sk_facts sk : valid_opcode (sk_op sk) /\ sk_op sk <> aml_pOpNoop /\ sk_op sk <> opFreed /\ is_prefix_op (sk_op sk) = false /\
  opcodeTableIndex (sk_op sk) true = Some (sk_info sk) /\ opInfo (sk_info sk) = Some (sk_op sk, 16, sk_af sk).
Proof.
  destruct sk; (split; [split; [cbv; discriminate|eexists; split; [reflexivity|discriminate]]|]);
    (split; [discriminate|]); (split; [discriminate|]); repeat split; reflexivity.
Qed.

Lemma next_stmt f sk s g pl pre rest post sc scs a :
  Rep (p_tree s) g pl -> g_free g = [] -> N.of_nat (length pl) < InvalidIndex ->
  at_token (p_r s) pre (enc_op (sk_op sk) ++ rest) post ->
  p_scopeStack s = sc :: scs -> pget pl sc = Some a -> y_op a <> opFreed -> p_allBlocks s = false ->
  wp False (parseNextObject (S (S (S (S f))))) s (fun res s' => res = ROk /\ exists t',
    s' = with_tree (with_r s (set_offset_raw (p_r s) (lenN pre + lenN (enc_op (sk_op sk))))) t' /\
    Rep t' (g_head g sc) (pl ++ [mkPay (sk_op sk) (sk_info sk) (p_handle s) name_zero (lenN pre) 0 None])).
Proof.
  intros H Hfree Hroom Hat Est Hsc Hlsc Hab.
  destruct (sk_facts sk) as (Hvalid & Hnoop & Hnf & Hnp & Hidx & Hinfo).
  eapply (next_head _ (sk_op sk) (sk_info sk) s g pl pre rest post sc scs a);
    [exact H|exact Hfree|exact Hroom|exact Hat|exact Hvalid|exact Hnoop|exact Hnf|exact Hidx|exact Est|exact Hsc|exact Hlsc|].
  intros t1 H1.
  set (s1 := with_tree (with_r s (set_offset_raw (p_r s) (lenN pre + lenN (enc_op (sk_op sk))))) t1).
  set (a1 := mkPay (sk_op sk) (sk_info sk) (p_handle s) name_zero (lenN pre) 0 None) in *.
  assert (Hn : pget (pl ++ [a1]) (N.of_nat (length pl)) = Some a1) by apply pget_app_last.
  eapply (objargs_other _ _ a1 (sk_op sk, 16, sk_af sk) s1 _ _); [exact H1|exact Hn|exact Hnf|exact Hnp|exact Hinfo|].
  assert (Hab1 : p_allBlocks s1 = false) by exact Hab.
  destruct sk; cbn [sk_af].
  1-9: (cbn [parseArgs];
        match goal with |- context [argCount ?x =? 0] => let c := eval vm_compute in (argCount x) in change (argCount x) with c end;
        match goal with |- context [argType ?x 0] => change (argType x 0) with aml_pArgTypeTermArg end;
        cbv iota; match goal with |- context [?c =? 0] => change (c =? 0) with false end;
        match goal with |- context [?c <=? 0] => change (c <=? 0) with false end; cbv iota;
        apply wp_bind; eapply wp_of_run; [apply parseArg_TermArg; exact Hab1|]; cbv beta iota;
        apply wp_bind; apply wp_ret; change (pres_eqb RShort ROk) with false; cbv iota; apply wp_ret;
        split; [reflexivity|]; exists t1; split; [reflexivity|exact H1]).
  all: (cbn [parseArgs]; change (argCount 0) with 0; change (0 =? 0) with true; cbv iota; apply wp_ret;
        split; [reflexivity|]; exists t1; split; [reflexivity|exact H1]).
Qed.

(** a row of new childless objects of the scope *)
Lemma post1_row g pl sc ps : sc < N.of_nat (length pl) -> length (g_kids g) = length pl -> g_free g = [] ->
  Post1 g pl (g_args g sc (length ps)) (pl ++ ps) sc (leaf_row (N.of_nat (length pl)) ps).
Proof.
  intros Hsc Hlg Hfree. set (b := N.of_nat (length pl)).
  assert (Hoob : forall i, b <= i -> kids g i = []) by (intros i Hi; apply kids_oob; rewrite Hlg; exact Hi).
  assert (HK : forall i, kids (g_args g sc (length ps)) i = if i =? sc then kids g sc ++ seqN b (length ps) else kids g i).
  { intros i. rewrite kids_g_args by (rewrite Hlg; exact Hsc). rewrite Hlg. reflexivity. }
  constructor.
  - apply free_g_args. exact Hfree.
  - rewrite app_length, leaf_row_rsizes. reflexivity.
  - rewrite HK, N.eqb_refl, leaf_row_idx. reflexivity.
  - apply leaf_row_desc. intros i p Hi. assert (Hilt : (i < length ps)%nat) by (apply nth_error_Some; congruence). split.
    + unfold b. rewrite pget_app_new. unfold pget. rewrite Nat2N.id. exact Hi.
    + rewrite HK. destruct (N.eqb_spec (b + N.of_nat i) sc); [lia|]. apply Hoob. lia.
  - intros x Hx Hne. rewrite HK. apply N.eqb_neq in Hne. rewrite Hne. reflexivity.
  - intros x Hx. apply pget_app_old. exact Hx.
Qed.


Section ItemsSpec.
Variable h : N.
Variable data : list N.
Variable len se : N.
Variable tbls : list (list N).
Let tbl := N.of_nat (length tbls) - 1.
Hypothesis Hlen : len = lenN data.
Hypothesis Hsmall : len < two32.
Hypothesis Hbytes : Forall (fun b => b < 256) data.

Definition st1 (off e : N) (t : T) (ss ps : list N) : pstate := mkP (mkReader data len off e) t ss ps se 0 0 0 false h tbls.

Definition ISpec (its : list item) : Prop :=
  forall fo fi off e t sc ss es g pl pre post a R (Q : pres -> pstate -> Prop),
  Rep t g pl -> g_free g = [] -> N.of_nat (length pl) + N.of_nat (iszs its) < InvalidIndex ->
  data = pre ++ enc_items its ++ post -> off = lenN pre -> lenN pre + lenN (enc_items its) <= e -> e <= len ->
  forallb item_okb its = true -> length ss = length es ->
  pget pl sc = Some a -> y_op a <> opFreed ->
  (8 <= R)%nat -> (icnts its + R <= fi)%nat -> (icnts its + R + 1 <= fo)%nat ->
  (forall t' g' pl' fo' fi', Rep t' g' pl' -> Post1 g pl g' pl' sc (lay1 h tbl (N.of_nat (length pl)) off its) ->
      (R <= fi')%nat -> (R + 1 <= fo')%nat ->
      wp False (list_cont fo' fi') (st1 (off + lenN (enc_items its)) e t' (sc :: ss) (e :: es)) Q) ->
  wp False (list_cont fo fi) (st1 off e t (sc :: ss) (e :: es)) Q.

Lemma ispec_nil : ISpec [].
Proof.
  intros fo fi off e t sc ss es g pl pre post a R Q H Hfree Hroom Hd Ho He Hel Hok Hbal Hsc Hlsc HR Hfi Hfo K.
  specialize (K t g pl fo fi H (Post1_nil g pl sc Hfree)). cbn [enc_items flat_map] in K. change (lenN (@nil N)) with 0 in K.
  rewrite N.add_0_r in K. apply K; cbn [icnts fold_right] in *; lia.
Qed.

Lemma ispec_name d rest : ISpec rest -> ISpec (IName d :: rest).
Proof.
  intros IH fo fi off e t sc ss es g pl pre post a R Q H Hfree Hroom Hd Ho He Hel Hok Hbal Hsc Hlsc HR Hfi Hfo K.
  apply forallb_item_cons in Hok. destruct Hok as [Hd_ok Hok]. cbn [item_okb] in Hd_ok.
  apply andb_prop in Hd_ok. destruct Hd_ok as [Hdok _]. pose proof Hdok as Hdok'. unfold decl_okb in Hdok'.
  apply andb_prop in Hdok'. destruct Hdok' as [Hx Hv]. apply andb_prop in Hx. destruct Hx as [Hlead Hc]. apply N.ltb_lt in Hv.
  rewrite iszs_cons in Hroom. rewrite icnts_cons in Hfi, Hfo. cbn [isz icnt] in *.
  rewrite enc_items_cons in Hd, He. cbn [enc_item] in Hd, He. subst off.
  pose proof (rep_len_g _ _ _ H) as Hlg.
  assert (Hsclt : sc < N.of_nat (length pl)) by (eapply pget_lt; eauto).
  assert (Ef : exists f', fi = S (S (S (S (S (S (S f'))))))) by (exists (fi - 7)%nat; lia). destruct Ef as (f' & ->).
  set (s0 := st1 (lenN pre) e t (sc :: ss) (e :: es)).
  assert (Hat0 : at_token (p_r s0) pre (OP_NAME :: seg_bytes (d_seg d) ++ enc_const d ++ enc_items rest) post).
  { apply mk_at; [ |reflexivity| |exact Hel|exact Hlen|exact Hsmall|exact Hbytes].
    - rewrite Hd. unfold enc_decl. cbn [app]. rewrite <- !app_assoc. reflexivity.
    - rewrite lenN_app in He. unfold enc_decl in He. rewrite lenN_cons, !lenN_app in *. lia. }
  (* the Name object *)
  apply wp_list_cont_S. unfold eofM, rq. apply wp_bind, wp_get. rewrite (at_not_eof _ _ _ _ _ Hat0).
  apply wp_bind. eapply wp_conseq.
  { eapply (next_name _ s0 g pl pre (d_seg d) _ post sc ss a); [exact H|exact Hfree|lia|exact Hat0|exact Hlead|reflexivity|exact Hsc|exact Hlsc|reflexivity]. }
  intros res s1 (-> & t1 & -> & H1). change (pres_eqb ROk ROk) with true. cbv iota.
  set (pl1 := pl ++ [mkPay aml_pOpName 3 (p_handle s0) name_zero (lenN pre) 0 None; path_pay s0 (lenN pre + 1) 4]) in *.
  assert (Hl1 : length pl1 = S (S (length pl))) by (unfold pl1; rewrite app_length; cbn [length]; lia).
  assert (Hsc1 : pget pl1 sc = Some a) by (unfold pl1; rewrite pget_app_old by exact Hsclt; exact Hsc).
  set (pre1 := pre ++ OP_NAME :: seg_bytes (d_seg d)).
  assert (Hlp1 : lenN pre1 = lenN pre + 5).
  { unfold pre1. rewrite lenN_app, lenN_cons. change (lenN (seg_bytes (d_seg d))) with 4. lia. }
  set (s1 := st1 (lenN pre + 5) e t1 (sc :: ss) (e :: es)).
  change (with_tree (with_r s0 (set_offset_raw (p_r s0) (lenN pre + 5))) t1) with s1.
  assert (Hat1 : at_token (p_r s1) pre1 (enc_op (d_op d) ++ Grammar.le_bytes (const_bytes (d_op d)) (d_v d) ++ enc_items rest) post).
  { pose proof (at_adv (p_r s0) pre (OP_NAME :: seg_bytes (d_seg d)) (enc_const d ++ enc_items rest) post Hat0) as A.
    rewrite lenN_cons in A. change (lenN (seg_bytes (d_seg d))) with 4 in A. replace (lenN pre + (1 + 4)) with (lenN pre + 5) in A by lia.
    unfold enc_const in A. rewrite <- app_assoc in A. exact A. }
  (* the constant *)
  apply wp_list_cont_S. unfold eofM, rq. apply wp_bind, wp_get.
  assert (Hne : eof (p_r s1) = false).
  { destruct (enc_op_nonempty (d_op d)) as (x & l & Eop). rewrite Eop in Hat1. cbn [app] in Hat1. apply (at_not_eof _ _ _ _ _ Hat1). }
  rewrite Hne.
  apply wp_bind. eapply wp_conseq.
  { eapply (next_const _ s1 _ pl1 pre1 (d_op d) (d_v d) (enc_items rest) post sc ss a);
      [exact H1|apply free_g_name|lia|exact Hat1|exact Hc|exact Hv|reflexivity|exact Hsc1|exact Hlsc]. }
  intros res s2 (-> & t2 & -> & H2). change (pres_eqb ROk ROk) with true. cbv iota.
  set (pl2 := pl1 ++ [const_pay s1 (lenN pre1) (d_op d) (d_v d)]) in *.
  set (pre2 := pre1 ++ enc_const d).
  assert (Hlp2 : lenN pre2 = lenN pre + lenN (enc_decl d)).
  { unfold pre2. rewrite lenN_app, Hlp1, lenN_enc_decl. lia. }
  set (s2 := st1 (lenN pre2) e t2 (sc :: ss) (e :: es)).
  assert (Eoff : lenN pre1 + lenN (enc_op (d_op d)) + N.of_nat (const_bytes (d_op d)) = lenN pre2).
  { rewrite Hlp2, Hlp1, lenN_enc_decl, lenN_enc_const. lia. }
  rewrite Eoff. change (with_tree (with_r s1 (set_offset_raw (p_r s1) (lenN pre2))) t2) with s2.
  (* the rest *)
  assert (Hpl2 : pl2 = pl ++ [nam_pay h (lenN pre) name_zero; pth_pay h tbl (lenN pre + 1); cst_pay h (lenN pre + 5) d]).
  { unfold pl2, pl1. rewrite <- List.app_assoc. cbn [app]. rewrite Hlp1. reflexivity. }
  assert (Hl2 : length pl2 = S (S (S (length pl)))) by (rewrite Hpl2, app_length; cbn [length]; lia).
  eapply (IH fo _ (lenN pre2) e t2 sc ss es _ pl2 pre2 post a R Q); [exact H2|reflexivity|rewrite Hl2; lia| |reflexivity| |exact Hel|exact Hok|exact Hbal| |exact Hlsc|exact HR|lia|lia|].
  { unfold pre2, pre1. rewrite Hd. unfold enc_decl. cbn [app]. rewrite <- ?app_assoc. cbn [app]. rewrite <- ?app_assoc. reflexivity. }
  { rewrite Hlp2. rewrite lenN_app in He. lia. }
  { unfold pl2. rewrite pget_app_old by lia. exact Hsc1. }
  intros t3 g3 pl3 fo3 fi3 H3 P3 Hfi3 Hfo3.
  assert (P01 : Post1 g pl (g_head (g_name g sc) sc) pl2 sc (lay1_item h tbl (N.of_nat (length pl)) (lenN pre) (IName d))).
  { rewrite Hpl2. apply post1_name; [exact Hsclt|exact Hlg]. }
  specialize (K t3 g3 pl3 fo3 fi3 H3).
  rewrite lay1_cons in K. cbn [isz] in K.
  replace (N.of_nat (length pl) + N.of_nat 3) with (N.of_nat (length pl2)) in K by lia.
  replace (lenN pre + lenN (enc_item (IName d))) with (lenN pre2) in K by (rewrite Hlp2; reflexivity).
  rewrite enc_items_cons, lenN_app in K. cbn [enc_item] in K.
  replace (lenN pre + (lenN (enc_decl d) + lenN (enc_items rest))) with (lenN pre2 + lenN (enc_items rest)) in K by lia.
  apply K; [|exact Hfi3|exact Hfo3].
  eapply Post1_app; [exact Hsclt| |exact P01|exact P3].
  intros x Hx. change (lay1_item h tbl (N.of_nat (length pl)) (lenN pre) (IName d)) with (lay1 h tbl (N.of_nat (length pl)) (lenN pre) [IName d] ++ []) in Hx.
  rewrite app_nil_r in Hx. apply lay1_nodes in Hx. cbn [iszs fold_right isz] in Hx. lia.
Qed.

Lemma ispec_blk bk k seg fa body rest : ISpec body -> ISpec rest -> ISpec (IBlk bk k seg fa body :: rest).
Proof.
  intros IHb IH fo fi off e t sc ss es g pl pre post a R Q H Hfree Hroom Hd Ho He Hel Hok Hbal Hsc Hlsc HR Hfi Hfo K.
  apply forallb_item_cons in Hok. destruct Hok as [Hd_ok Hok]. cbn [item_okb] in Hd_ok.
  apply andb_prop in Hd_ok. destruct Hd_ok as [Hx Hbody_ok]. apply andb_prop in Hx. destruct Hx as [Hx Hpk].
  apply andb_prop in Hx. destruct Hx as [Hx Hfx]. apply andb_prop in Hx. destruct Hx as [Hx Hlfa]. apply Nat.eqb_eq in Hlfa.
  apply andb_prop in Hx. destruct Hx as [Hlead _]. apply pkglen_okb_adm in Hpk.
  set (l := bfx bk fa) in *. set (nf := length l) in *. set (lo := blo bk) in *.
  assert (Hws : map fst l = bk_ws bk) by (unfold l, bfx; apply map_fst_combine; lia).
  rewrite iszs_cons, isz_blk in Hroom. rewrite icnts_cons, icnt_blk in Hfi, Hfo. fold l nf in Hroom, Hfi, Hfo.
  rewrite enc_items_cons, enc_blk in Hd, He. fold l in Hd, He. subst off.
  set (v := k + lenN (seg_bytes seg ++ enc_fx l ++ enc_items body)) in *.
  assert (Hv : v = k + 4 + lenN (enc_fx l) + lenN (enc_items body)) by (unfold v; rewrite !lenN_app; change (lenN (seg_bytes seg)) with 4; lia).
  pose proof (lenN_enc_pkglen k v Hpk) as Hlk.
  pose proof (rep_len_g _ _ _ H) as Hlg. pose proof (rep_len_pool _ _ _ H) as Hlp.
  assert (Hsclt : sc < N.of_nat (length pl)) by (eapply pget_lt; eauto).
  assert (Ef : exists f', fi = S (S (S (S (S (S (nf + S (S f')))))))) by (exists (fi - nf - 8)%nat; lia). destruct Ef as (f' & ->).
  set (s0 := st1 (lenN pre) e t (sc :: ss) (e :: es)).
  assert (HlenI : lenN (enc_op (bk_op bk) ++ enc_pkglen k v ++ seg_bytes seg ++ enc_fx l ++ enc_items body) = lo + v).
  { rewrite !lenN_app, Hlk. change (lenN (enc_op (bk_op bk))) with lo. change (lenN (seg_bytes seg)) with 4. lia. }
  rewrite lenN_app, HlenI in He.
  assert (Hat0 : at_token (p_r s0) pre (enc_op (bk_op bk) ++ enc_pkglen k v ++ seg_bytes seg ++ enc_fx l ++ (enc_items body ++ enc_items rest)) post).
  { apply mk_at; [ |reflexivity| |exact Hel|exact Hlen|exact Hsmall|exact Hbytes].
    - rewrite Hd. rewrite <- !app_assoc. reflexivity.
    - rewrite !lenN_app, Hlk. change (lenN (enc_op (bk_op bk))) with lo. change (lenN (seg_bytes seg)) with 4. lia. }
  (* the header *)
  apply wp_list_cont_S. unfold eofM, rq. apply wp_bind, wp_get.
  assert (Hne : eof (p_r s0) = false).
  { destruct (enc_op_nonempty (bk_op bk)) as (x0 & l0 & Eop). rewrite Eop in Hat0. cbn [app] in Hat0. apply (at_not_eof _ _ _ _ _ Hat0). }
  rewrite Hne.
  apply wp_bind. eapply wp_conseq.
  { eapply (next_blk f' bk s0 g pl pre k v seg l _ post sc ss a);
      [exact H|exact Hfree|lia|exact Hat0|exact Hws|exact Hfx|exact Hpk|lia| |exact Hlead|reflexivity|exact Hsc|exact Hlsc|reflexivity].
    change (lenN (enc_op (bk_op bk))) with lo. cbn [s0 st1 p_r r_len]. lia. }
  cbv zeta. change (lenN (enc_op (bk_op bk))) with lo. fold nf.
  intros res s1 (-> & t1 & -> & H1). change (pres_eqb ROk ROk) with true. cbv iota.
  set (b := N.of_nat (length pl)) in *.
  set (off1 := lenN pre + lo + k + 4 + lenN (enc_fx l)). set (e1 := lenN pre + lo + v).
  set (pl1 := pl ++ blk_pays' s0 bk (lenN pre) k l) in *.
  assert (Hpl1 : pl1 = pl ++ blk_pay h bk (lenN pre) name_zero :: hd_pays h tbl bk (lenN pre) k fa ++ [sb_pay h (sb_off bk (lenN pre) k fa)]) by reflexivity.
  assert (Hl1 : length pl1 = (3 + nf + length pl)%nat).
  { rewrite Hpl1, app_length. cbn [length]. rewrite app_length, len_hd_pays. cbn [length]. fold l nf. lia. }
  set (s1 := st1 off1 e1 t1 (b + 2 + N.of_nat nf :: sc :: ss) (e1 :: e :: es)).
  assert (Es1 : after_blk s0 (2 + N.of_nat nf) off1 e1 t1 = s1).
  { unfold after_blk, s1, s0, st1. scbn. unfold set_pkgEnd_raw, set_offset_raw. cbn [r_data r_len r_offset r_pkgEnd p_r p_tree]. rewrite <- Hlp.
    fold b. replace (b + (2 + N.of_nat nf)) with (b + 2 + N.of_nat nf) by lia. reflexivity. }
  rewrite Es1.
  (* the body *)
  set (pre1 := pre ++ enc_op (bk_op bk) ++ enc_pkglen k v ++ seg_bytes seg ++ enc_fx l).
  assert (Hlp1 : lenN pre1 = off1).
  { unfold pre1, off1. rewrite !lenN_app, Hlk. change (lenN (enc_op (bk_op bk))) with lo. change (lenN (seg_bytes seg)) with 4. lia. }
  assert (Hsb1 : pget pl1 (b + 2 + N.of_nat nf) = Some (sb_pay h off1)).
  { rewrite Hpl1. unfold b. replace (N.of_nat (length pl) + 2 + N.of_nat nf) with (N.of_nat (length pl) + N.of_nat (S (S nf))) by lia.
    rewrite pget_app_new. unfold pget. rewrite Nat2N.id. rewrite nth_error_S, nth_error_app2 by (rewrite len_hd_pays; fold l nf; lia).
    rewrite len_hd_pays. fold l nf. rewrite Nat.sub_diag. reflexivity. }
  eapply (IHb fo _ off1 e1 t1 (b + 2 + N.of_nat nf) (sc :: ss) (e :: es) _ pl1 pre1 (enc_items rest ++ post) _ (icnts rest + R + 1)%nat Q);
    [exact H1|apply free_g_args; reflexivity|rewrite Hl1; lia| |symmetry; exact Hlp1| | |exact Hbody_ok|cbn [length]; rewrite Hbal; reflexivity|exact Hsb1|discriminate|lia|lia|lia|].
  { unfold pre1. rewrite Hd. rewrite <- !app_assoc. reflexivity. }
  { rewrite Hlp1. unfold off1, e1. lia. }
  { unfold e1. lia. }
  intros t2 g2 pl2 fo2 fi2 H2 P2 Hfi2 Hfo2.
  (* the end of the block *)
  destruct fi2 as [|fi2']; [lia|]. apply wp_list_cont_S. unfold eofM, rq. apply wp_bind, wp_get.
  assert (Eeof : eof (p_r (st1 (off1 + lenN (enc_items body)) e1 t2 (b + 2 + N.of_nat nf :: sc :: ss) (e1 :: e :: es))) = true).
  { unfold eof. cbn [st1 p_r r_pkgEnd r_offset]. apply N.leb_le. unfold e1, off1. lia. }
  rewrite Eeof.
  destruct fo2 as [|fo2']; [lia|].
  apply wp_list_end; [exact Hbal|exact Hel|].
  (* the rest *)
  set (pre2 := pre1 ++ enc_items body).
  assert (Hlp2 : lenN pre2 = off1 + lenN (enc_items body)) by (unfold pre2; rewrite lenN_app, Hlp1; reflexivity).
  assert (Hl2 : length pl2 = (length pl + 3 + nf + iszs body)%nat).
  { rewrite (p1_len _ _ _ _ _ _ P2), Hl1, lay1_rsizes. lia. }
  assert (P02 : Post1 g pl g2 pl2 sc (lay1_item h tbl b (lenN pre) (IBlk bk k seg fa body))).
  { apply post1_blk; [exact Hsclt|exact Hlg|]. rewrite <- Hpl1. fold b l nf. unfold nfx. fold l nf.
    replace (b + 3 + N.of_nat nf) with (N.of_nat (length pl1)) by lia. exact P2. }
  assert (Hsc2 : pget pl2 sc = Some a).
  { rewrite (p1_old_p _ _ _ _ _ _ P02) by exact Hsclt. exact Hsc. }
  eapply (IH fo2' _ (off1 + lenN (enc_items body)) e t2 sc ss es g2 pl2 pre2 post a R Q);
    [exact H2|apply (p1_free _ _ _ _ _ _ P2)|rewrite Hl2; lia| |symmetry; exact Hlp2| |exact Hel|exact Hok|exact Hbal|exact Hsc2|exact Hlsc|exact HR|lia|lia|].
  { unfold pre2, pre1. rewrite Hd. rewrite <- !app_assoc. reflexivity. }
  { rewrite Hlp2. unfold off1. lia. }
  intros t3 g3 pl3 fo3 fi3 H3 P3 Hfi3 Hfo3.
  specialize (K t3 g3 pl3 fo3 fi3 H3).
  rewrite lay1_cons, isz_blk in K. fold b l nf in K.
  replace (b + N.of_nat (3 + nf + iszs body)) with (N.of_nat (length pl2)) in K by (rewrite Hl2; unfold b; lia).
  rewrite enc_items_cons, lenN_app, enc_blk in K. fold l v in K. rewrite HlenI in K.
  replace (lenN pre + (lo + v)) with (off1 + lenN (enc_items body)) in K by (unfold off1; lia).
  replace (lenN pre + (lo + v + lenN (enc_items rest))) with (off1 + lenN (enc_items body) + lenN (enc_items rest)) in K by (unfold off1; lia).
  apply K; [|exact Hfi3|exact Hfo3].
  eapply Post1_app; [exact Hsclt| |exact P02|exact P3].
  intros x Hx. change (lay1_item h tbl b (lenN pre) (IBlk bk k seg fa body)) with (lay1 h tbl b (lenN pre) [IBlk bk k seg fa body] ++ []) in Hx.
  rewrite app_nil_r in Hx. apply lay1_nodes in Hx. cbn [iszs fold_right] in Hx. rewrite isz_blk in Hx. fold l nf in Hx. rewrite Hl2. unfold b in *. lia.
Qed.

(** the constant arguments that follow a leaf object are objects of the enclosing scope *)
Lemma cst_loop : forall ta fo fi off e t sc ss es g pl pre post a (Q : pres -> pstate -> Prop),
  Rep t g pl -> g_free g = [] -> N.of_nat (length pl) + N.of_nat (length ta) < InvalidIndex ->
  data = pre ++ enc_ta ta ++ post -> off = lenN pre -> lenN pre + lenN (enc_ta ta) <= e -> e <= len ->
  forallb targ_okb ta = true -> pget pl sc = Some a -> y_op a <> opFreed ->
  (forall t', Rep t' (g_args g sc (length ta)) (pl ++ cst_pays h tbl off ta) ->
      wp False (list_cont fo (S (S (S fi)))) (st1 (off + lenN (enc_ta ta)) e t' (sc :: ss) (e :: es)) Q) ->
  wp False (list_cont fo (length ta + S (S (S fi)))) (st1 off e t (sc :: ss) (e :: es)) Q.
Proof.
  induction ta as [|d r IH]; intros fo fi off e t sc ss es g pl pre post a Q H Hfree Hroom Hd Ho He Hel Hok Hsc Hlsc K.
  - cbn [length Nat.add]. specialize (K t). cbn [length g_args cst_pays enc_ta flat_map] in K. rewrite app_nil_r in K.
    change (lenN (@nil N)) with 0 in K. rewrite N.add_0_r in K. apply K. exact H.
  - cbn [forallb] in Hok. apply andb_prop in Hok. destruct Hok as [Hdok Hok].
    cbn [length] in *. unfold enc_ta in Hd, He. cbn [flat_map] in Hd, He. fold (enc_ta r) in Hd, He. subst off.
    assert (Hsclt : sc < N.of_nat (length pl)) by (eapply pget_lt; eauto).
    set (s0 := st1 (lenN pre) e t (sc :: ss) (e :: es)).
    replace (S (length r) + S (S (S fi)))%nat with (S (S (S (S (length r + fi))))) by lia.
    apply wp_list_cont_S. unfold eofM, rq. apply wp_bind, wp_get.
    assert (Hcont : forall t1 (pl1 : list pay) pre1, lenN pre1 = lenN pre + lenN (enc_targ d) -> data = pre1 ++ enc_ta r ++ post ->
              pl1 = pl ++ [targ_pay h tbl (lenN pre) d] -> Rep t1 (g_head g sc) pl1 ->
              wp False (list_cont fo (S (S (S (length r + fi))))) (st1 (lenN pre1) e t1 (sc :: ss) (e :: es)) Q).
    { intros t1 pl1 pre1 Hlp1 Hd1 Epl1 H1.
      replace (S (S (S (length r + fi)))) with (length r + S (S (S fi)))%nat by lia.
      eapply (IH fo fi (lenN pre1) e t1 sc ss es _ pl1 pre1 post a Q);
        [exact H1|reflexivity|rewrite Epl1, app_length; cbn [length]; lia|exact Hd1|reflexivity| |exact Hel|exact Hok| |exact Hlsc|].
      { rewrite Hlp1. rewrite lenN_app in He. lia. }
      { rewrite Epl1. rewrite pget_app_old by exact Hsclt. exact Hsc. }
      intros t2 H2. specialize (K t2). cbn [g_args cst_pays] in K. unfold enc_ta in K. cbn [flat_map] in K. fold (enc_ta r) in K.
      rewrite lenN_app, N.add_assoc, <- Hlp1 in K. apply K.
      rewrite <- g_args_shift. rewrite Epl1 in H2. rewrite <- app_assoc in H2. cbn [app] in H2. exact H2. }
    destruct d as [d|b]; cbn [targ_okb enc_targ] in *.
    + unfold cst_okb in Hdok. apply andb_prop in Hdok. destruct Hdok as [Hc Hv]. apply N.ltb_lt in Hv.
      assert (Hat : at_token (p_r s0) pre (enc_op (d_op d) ++ Grammar.le_bytes (const_bytes (d_op d)) (d_v d) ++ enc_ta r) post).
      { apply mk_at; [ |reflexivity| |exact Hel|exact Hlen|exact Hsmall|exact Hbytes].
        - rewrite Hd. unfold enc_const. rewrite <- !app_assoc. reflexivity.
        - rewrite lenN_app in He. unfold enc_const in He. rewrite !lenN_app in *. lia. }
      assert (Hne : eof (p_r s0) = false).
      { destruct (enc_op_nonempty (d_op d)) as (x & l & Eop). rewrite Eop in Hat. cbn [app] in Hat. apply (at_not_eof _ _ _ _ _ Hat). }
      rewrite Hne.
      apply wp_bind. eapply wp_conseq.
      { eapply (next_const _ s0 g pl pre (d_op d) (d_v d) (enc_ta r) post sc ss a);
          [exact H|exact Hfree|lia|exact Hat|exact Hc|exact Hv|reflexivity|exact Hsc|exact Hlsc]. }
      intros res s1 (-> & t1 & -> & H1). change (pres_eqb ROk ROk) with true. cbv iota.
      set (pre1 := pre ++ enc_const d).
      assert (Hlp1 : lenN pre1 = lenN pre + lenN (enc_const d)) by (unfold pre1; apply lenN_app).
      assert (Eoff : lenN pre + lenN (enc_op (d_op d)) + N.of_nat (const_bytes (d_op d)) = lenN pre1) by (rewrite Hlp1, lenN_enc_const; lia).
      rewrite Eoff. change (with_tree (with_r s0 (set_offset_raw (p_r s0) (lenN pre1))) t1) with (st1 (lenN pre1) e t1 (sc :: ss) (e :: es)).
      apply (Hcont t1 (pl ++ [targ_pay h tbl (lenN pre) (TInt d)]) pre1 Hlp1); [unfold pre1; rewrite Hd, <- !app_assoc; reflexivity|reflexivity|exact H1].
    + assert (Hasc : Forall ascii_char b).
      { unfold str_okb in Hdok. rewrite forallb_forall in Hdok. apply Forall_forall. intros c Hc. specialize (Hdok c Hc).
        apply andb_prop in Hdok. destruct Hdok as [A B]. apply N.leb_le in A. apply N.leb_le in B. unfold ascii_char. lia. }
      assert (Hat : at_token (p_r s0) pre (aml_pOpStringPrefix :: (b ++ [0]) ++ enc_ta r) post).
      { apply mk_at; [ |reflexivity| |exact Hel|exact Hlen|exact Hsmall|exact Hbytes].
        - rewrite Hd. cbn [app]. rewrite <- !app_assoc. reflexivity.
        - exact He. }
      rewrite (at_not_eof _ _ _ _ _ Hat).
      apply wp_bind. eapply wp_conseq.
      { eapply (next_string _ s0 g pl pre b (enc_ta r) post sc ss a); [exact H|exact Hfree|lia|exact Hat|exact Hasc|reflexivity|exact Hsc|exact Hlsc]. }
      intros res s1 (-> & t1 & -> & H1). change (pres_eqb ROk ROk) with true. cbv iota.
      set (pre1 := pre ++ OP_STRING :: b ++ [0]).
      assert (Hlp1 : lenN pre1 = lenN pre + lenN (OP_STRING :: b ++ [0])) by (unfold pre1; apply lenN_app).
      assert (Eoff : lenN pre + 1 + lenN b + 1 = lenN pre1) by (rewrite Hlp1, lenN_cons, lenN_app; change (lenN [0]) with 1; lia).
      rewrite Eoff. change (with_tree (with_r s0 (set_offset_raw (p_r s0) (lenN pre1))) t1) with (st1 (lenN pre1) e t1 (sc :: ss) (e :: es)).
      apply (Hcont t1 (pl ++ [targ_pay h tbl (lenN pre) (TStr b)]) pre1 Hlp1); [unfold pre1; rewrite Hd, <- !app_assoc; reflexivity|reflexivity|exact H1].
Qed.

Lemma ispec_leaf lk seg fa ta rest : ISpec rest -> ISpec (ILeaf lk seg fa ta :: rest).
Proof.
  intros IH fo fi off e t sc ss es g pl pre post a R Q H Hfree Hroom Hd Ho He Hel Hok Hbal Hsc Hlsc HR Hfi Hfo K.
  apply forallb_item_cons in Hok. destruct Hok as [Hd_ok Hok]. cbn [item_okb] in Hd_ok.
  apply andb_prop in Hd_ok. destruct Hd_ok as [Hx Hta]. apply andb_prop in Hx. destruct Hx as [Hx Hlta]. apply Nat.eqb_eq in Hlta.
  apply andb_prop in Hx. destruct Hx as [Hx Hfx]. apply andb_prop in Hx. destruct Hx as [Hx Hlfa]. apply Nat.eqb_eq in Hlfa.
  apply andb_prop in Hx. destruct Hx as [Hlead _].
  set (l := lfx lk fa) in *. set (nf := length l) in *. set (lo := llo lk) in *. set (nt := length ta) in *.
  assert (Hws : map fst l = lk_ws lk) by (unfold l, lfx; apply map_fst_combine; lia).
  rewrite iszs_cons, isz_leaf in Hroom. rewrite icnts_cons, icnt_leaf in Hfi, Hfo. fold l nf nt in Hroom, Hfi, Hfo.
  rewrite enc_items_cons, enc_leaf in Hd, He. fold l in Hd, He. subst off.
  pose proof (rep_len_g _ _ _ H) as Hlg. pose proof (rep_len_pool _ _ _ H) as Hlp.
  assert (Hsclt : sc < N.of_nat (length pl)) by (eapply pget_lt; eauto).
  assert (Ef : exists f', fi = S (S (S (S (S (nf + S (S (nt + f')))))))) by (exists (fi - nf - nt - 7)%nat; lia). destruct Ef as (f' & ->).
  set (s0 := st1 (lenN pre) e t (sc :: ss) (e :: es)).
  assert (HlenI : lenN (enc_op (lk_op lk) ++ seg_bytes seg ++ enc_fx l ++ enc_ta ta) = lo + 4 + lenN (enc_fx l) + lenN (enc_ta ta)).
  { rewrite !lenN_app. change (lenN (enc_op (lk_op lk))) with lo. change (lenN (seg_bytes seg)) with 4. lia. }
  rewrite lenN_app, HlenI in He.
  assert (Hat0 : at_token (p_r s0) pre (enc_op (lk_op lk) ++ seg_bytes seg ++ enc_fx l ++ (enc_ta ta ++ enc_items rest)) post).
  { apply mk_at; [ |reflexivity| |exact Hel|exact Hlen|exact Hsmall|exact Hbytes].
    - rewrite Hd. rewrite <- !app_assoc. reflexivity.
    - rewrite !lenN_app. change (lenN (enc_op (lk_op lk))) with lo. change (lenN (seg_bytes seg)) with 4. lia. }
  (* the header *)
  apply wp_list_cont_S. unfold eofM, rq. apply wp_bind, wp_get.
  assert (Hne : eof (p_r s0) = false).
  { destruct (enc_op_nonempty (lk_op lk)) as (x0 & l0 & Eop). rewrite Eop in Hat0. cbn [app] in Hat0. apply (at_not_eof _ _ _ _ _ Hat0). }
  rewrite Hne.
  apply wp_bind. eapply wp_conseq.
  { eapply (next_leaf (nt + f') lk s0 g pl pre seg l _ post sc ss a);
      [exact H|exact Hfree|lia|exact Hat0|exact Hws|exact Hfx|exact Hlead|reflexivity|exact Hsc|exact Hlsc|reflexivity]. }
  cbv zeta. change (lenN (enc_op (lk_op lk))) with lo. fold nf.
  intros res s1 (-> & t1 & -> & H1). change (pres_eqb ROk ROk) with true. cbv iota.
  set (b := N.of_nat (length pl)) in *.
  set (off1 := lenN pre + lo + 4 + lenN (enc_fx l)).
  set (pl1 := pl ++ leaf_pays' s0 lk (lenN pre) l) in *.
  assert (Hpl1 : pl1 = pl ++ lf_pay h lk (lenN pre) name_zero :: lhd_pays h tbl lk (lenN pre) fa) by reflexivity.
  assert (Hl1 : length pl1 = (2 + nf + length pl)%nat).
  { rewrite Hpl1, app_length. cbn [length]. rewrite len_lhd_pays. fold l nf. lia. }
  change (with_tree (with_r s0 (set_offset_raw (p_r s0) off1)) t1) with (st1 off1 e t1 (sc :: ss) (e :: es)).
  (* the constant arguments *)
  set (pre1 := pre ++ enc_op (lk_op lk) ++ seg_bytes seg ++ enc_fx l).
  assert (Hlp1 : lenN pre1 = off1).
  { unfold pre1, off1. rewrite !lenN_app. change (lenN (enc_op (lk_op lk))) with lo. change (lenN (seg_bytes seg)) with 4. lia. }
  assert (Hsc1 : pget pl1 sc = Some a) by (rewrite Hpl1, pget_app_old by exact Hsclt; exact Hsc).
  replace (S (S (S (S (nf + S (S (nt + f'))))))) with (nt + S (S (S (S (S (S (nf + f')))))))%nat by lia.
  eapply (cst_loop ta fo _ off1 e t1 sc ss es _ pl1 pre1 (enc_items rest ++ post) a Q);
    [exact H1|apply free_g_args; reflexivity|rewrite Hl1; fold nt; lia| |symmetry; exact Hlp1| |exact Hel|exact Hta|exact Hsc1|exact Hlsc|].
  { unfold pre1. rewrite Hd, <- !app_assoc. reflexivity. }
  { rewrite Hlp1. unfold off1. lia. }
  intros t2 H2.
  (* the rest *)
  set (pl2 := pl1 ++ cst_pays h tbl off1 ta) in *.
  assert (Hpl2 : pl2 = pl ++ (lf_pay h lk (lenN pre) name_zero :: lhd_pays h tbl lk (lenN pre) fa) ++ cst_pays h tbl (ta_off lk (lenN pre) fa) ta).
  { unfold pl2. rewrite Hpl1, <- app_assoc. reflexivity. }
  assert (Hl2 : length pl2 = (length pl + 2 + nf + nt)%nat) by (unfold pl2; rewrite app_length, Hl1, len_cst_pays; fold nt; lia).
  set (pre2 := pre1 ++ enc_ta ta).
  assert (Hlp2 : lenN pre2 = off1 + lenN (enc_ta ta)) by (unfold pre2; rewrite lenN_app, Hlp1; reflexivity).
  assert (P01 : Post1 g pl (g_args (g_args (g_head g sc) b (1 + nf)) sc nt) pl2 sc (lay1_item h tbl b (lenN pre) (ILeaf lk seg fa ta))).
  { rewrite Hpl2. apply post1_leaf; [exact Hsclt|exact Hlg]. }
  assert (Hsc2 : pget pl2 sc = Some a) by (rewrite (p1_old_p _ _ _ _ _ _ P01) by exact Hsclt; exact Hsc).
  eapply (IH fo _ (off1 + lenN (enc_ta ta)) e t2 sc ss es _ pl2 pre2 post a R Q);
    [exact H2|apply free_g_args; apply free_g_args; reflexivity|rewrite Hl2; lia| |symmetry; exact Hlp2| |exact Hel|exact Hok|exact Hbal|exact Hsc2|exact Hlsc|exact HR|lia|lia|].
  { unfold pre2, pre1. rewrite Hd. rewrite <- !app_assoc. reflexivity. }
  { rewrite Hlp2. unfold off1. lia. }
  intros t3 g3 pl3 fo3 fi3 H3 P3 Hfi3 Hfo3.
  specialize (K t3 g3 pl3 fo3 fi3 H3).
  rewrite lay1_cons, isz_leaf in K. fold b l nf nt in K.
  replace (b + N.of_nat (2 + nf + nt)) with (N.of_nat (length pl2)) in K by (rewrite Hl2; unfold b; lia).
  rewrite enc_items_cons, lenN_app, enc_leaf in K. fold l in K. rewrite HlenI in K.
  replace (lenN pre + (lo + 4 + lenN (enc_fx l) + lenN (enc_ta ta))) with (off1 + lenN (enc_ta ta)) in K by (unfold off1; lia).
  replace (lenN pre + (lo + 4 + lenN (enc_fx l) + lenN (enc_ta ta) + lenN (enc_items rest))) with (off1 + lenN (enc_ta ta) + lenN (enc_items rest)) in K by (unfold off1; lia).
  apply K; [|exact Hfi3|exact Hfo3].
  eapply Post1_app; [exact Hsclt| |exact P01|exact P3].
  intros x Hx. assert (Hx' : In x (rnodesl (lay1 h tbl b (lenN pre) [ILeaf lk seg fa ta]))) by (cbn [lay1]; rewrite app_nil_r; exact Hx).
  clear Hx. rename Hx' into Hx. apply lay1_nodes in Hx. cbn [iszs fold_right] in Hx. rewrite isz_leaf in Hx. fold l nf nt in Hx. rewrite Hl2. unfold b in *. lia.
Qed.

Lemma ispec_stmt sk ta rest : ISpec rest -> ISpec (IStmt sk ta :: rest).
Proof.
  intros IH fo fi off e t sc ss es g pl pre post a R Q H Hfree Hroom Hd Ho He Hel Hok Hbal Hsc Hlsc HR Hfi Hfo K.
  apply forallb_item_cons in Hok. destruct Hok as [Hd_ok Hok]. cbn [item_okb] in Hd_ok.
  apply andb_prop in Hd_ok. destruct Hd_ok as [Hlta Hta]. apply Nat.eqb_eq in Hlta.
  set (lo := slo sk) in *. set (nt := length ta) in *.
  rewrite iszs_cons, isz_stmt in Hroom. rewrite icnts_cons, icnt_stmt in Hfi, Hfo. fold nt in Hroom, Hfi, Hfo.
  rewrite enc_items_cons, enc_stmt in Hd, He. subst off.
  pose proof (rep_len_g _ _ _ H) as Hlg. pose proof (rep_len_pool _ _ _ H) as Hlp.
  assert (Hsclt : sc < N.of_nat (length pl)) by (eapply pget_lt; eauto).
  assert (Ef : exists f', fi = S (S (S (S (S (nt + f')))))) by (exists (fi - nt - 5)%nat; lia). destruct Ef as (f' & ->).
  set (s0 := st1 (lenN pre) e t (sc :: ss) (e :: es)).
  assert (HlenI : lenN (enc_op (sk_op sk) ++ enc_ta ta) = lo + lenN (enc_ta ta)).
  { rewrite !lenN_app. reflexivity. }
  rewrite lenN_app, HlenI in He.
  assert (Hat0 : at_token (p_r s0) pre (enc_op (sk_op sk) ++ (enc_ta ta ++ enc_items rest)) post).
  { apply mk_at; [ |reflexivity| |exact Hel|exact Hlen|exact Hsmall|exact Hbytes].
    - rewrite Hd. rewrite <- !app_assoc. reflexivity.
    - rewrite !lenN_app. change (lenN (enc_op (sk_op sk))) with lo. lia. }
  (* the operator *)
  apply wp_list_cont_S. unfold eofM, rq. apply wp_bind, wp_get.
  assert (Hne : eof (p_r s0) = false).
  { destruct (enc_op_nonempty (sk_op sk)) as (x0 & l0 & Eop). rewrite Eop in Hat0. cbn [app] in Hat0. apply (at_not_eof _ _ _ _ _ Hat0). }
  rewrite Hne.
  apply wp_bind. eapply wp_conseq.
  { eapply (next_stmt (nt + f') sk s0 g pl pre _ post sc ss a);
      [exact H|exact Hfree|lia|exact Hat0|reflexivity|exact Hsc|exact Hlsc|reflexivity]. }
  change (lenN (enc_op (sk_op sk))) with lo.
  intros res s1 (-> & t1 & -> & H1). change (pres_eqb ROk ROk) with true. cbv iota.
  set (b := N.of_nat (length pl)) in *.
  set (off1 := lenN pre + lo).
  change (p_handle s0) with h in H1.
  set (pl1 := pl ++ [st_pay h sk (lenN pre)]) in *.
  assert (Hl1 : length pl1 = (1 + length pl)%nat) by (unfold pl1; rewrite app_length; cbn [length]; lia).
  change (with_tree (with_r s0 (set_offset_raw (p_r s0) off1)) t1) with (st1 off1 e t1 (sc :: ss) (e :: es)).
  (* the operands *)
  set (pre1 := pre ++ enc_op (sk_op sk)).
  assert (Hlp1 : lenN pre1 = off1) by (unfold pre1, off1; rewrite lenN_app; reflexivity).
  assert (Hsc1 : pget pl1 sc = Some a) by (unfold pl1; rewrite pget_app_old by exact Hsclt; exact Hsc).
  replace (S (S (S (S (nt + f'))))) with (nt + S (S (S (S f'))))%nat by lia.
  eapply (cst_loop ta fo _ off1 e t1 sc ss es _ pl1 pre1 (enc_items rest ++ post) a Q);
    [exact H1|reflexivity|rewrite Hl1; fold nt; lia| |symmetry; exact Hlp1| |exact Hel|exact Hta|exact Hsc1|exact Hlsc|].
  { unfold pre1. rewrite Hd, <- !app_assoc. reflexivity. }
  { rewrite Hlp1. unfold off1. lia. }
  intros t2 H2.
  (* the rest *)
  set (pl2 := pl1 ++ cst_pays h tbl off1 ta) in *.
  assert (Hl2 : length pl2 = (length pl + 1 + nt)%nat) by (unfold pl2; rewrite app_length, Hl1, len_cst_pays; fold nt; lia).
  set (pre2 := pre1 ++ enc_ta ta).
  assert (Hlp2 : lenN pre2 = off1 + lenN (enc_ta ta)) by (unfold pre2; rewrite lenN_app, Hlp1; reflexivity).
  assert (P01 : Post1 g pl (g_args (g_head g sc) sc nt) pl2 sc (lay1_item h tbl b (lenN pre) (IStmt sk ta))).
  { cbn [lay1_item]. change (RN b (st_pay h sk (lenN pre)) [] :: leaf_row (b + 1) (cst_pays h tbl (lenN pre + slo sk) ta))
      with ([RN b (st_pay h sk (lenN pre)) []] ++ leaf_row (b + 1) (cst_pays h tbl (lenN pre + slo sk) ta)).
    eapply (Post1_app g pl (g_head g sc) pl1); [exact Hsclt| |apply post1_single; [exact Hsclt|exact Hlg]|].
    - intros x Hx. cbn [rnodesl flat_map rnodes app In] in Hx. rewrite Hl1. unfold b in *. lia.
    - replace (b + 1) with (N.of_nat (length pl1)) by (rewrite Hl1; unfold b; lia).
      unfold nt. rewrite <- (len_cst_pays h tbl (lenN pre + slo sk) ta). unfold pl2. fold lo off1.
      apply post1_row; [rewrite Hl1; lia|rewrite len_g_head, Hl1, Hlg; reflexivity|reflexivity]. }
  assert (Hsc2 : pget pl2 sc = Some a) by (rewrite (p1_old_p _ _ _ _ _ _ P01) by exact Hsclt; exact Hsc).
  eapply (IH fo _ (off1 + lenN (enc_ta ta)) e t2 sc ss es _ pl2 pre2 post a R Q);
    [exact H2|apply free_g_args; reflexivity|rewrite Hl2; lia| |symmetry; exact Hlp2| |exact Hel|exact Hok|exact Hbal|exact Hsc2|exact Hlsc|exact HR|lia|lia|].
  { unfold pre2, pre1. rewrite Hd. rewrite <- !app_assoc. reflexivity. }
  { rewrite Hlp2. unfold off1. lia. }
  intros t3 g3 pl3 fo3 fi3 H3 P3 Hfi3 Hfo3.
  specialize (K t3 g3 pl3 fo3 fi3 H3).
  rewrite lay1_cons, isz_stmt in K. fold b nt in K.
  replace (b + N.of_nat (1 + nt)) with (N.of_nat (length pl2)) in K by (rewrite Hl2; unfold b; lia).
  rewrite enc_items_cons, lenN_app, enc_stmt in K. rewrite HlenI in K.
  replace (lenN pre + (lo + lenN (enc_ta ta))) with (off1 + lenN (enc_ta ta)) in K by (unfold off1; lia).
  replace (lenN pre + (lo + lenN (enc_ta ta) + lenN (enc_items rest))) with (off1 + lenN (enc_ta ta) + lenN (enc_items rest)) in K by (unfold off1; lia).
  apply K; [|exact Hfi3|exact Hfo3].
  eapply Post1_app; [exact Hsclt| |exact P01|exact P3].
  intros x Hx. assert (Hx' : In x (rnodesl (lay1 h tbl b (lenN pre) [IStmt sk ta]))) by (cbn [lay1]; rewrite app_nil_r; exact Hx).
  clear Hx. rename Hx' into Hx. apply lay1_nodes in Hx. cbn [iszs fold_right] in Hx. rewrite isz_stmt in Hx. fold nt in Hx. rewrite Hl2. unfold b in *. lia.
Qed.

Ltac lnorm := repeat (first [rewrite <- app_assoc | progress cbn [app]]).

(** ---- the elements of a package: constants and packages, parsed by the same loop ---- *)
Definition ESpec (els : list pel) : Prop :=
  forall fo fi off e t sc ss es g pl pre post a R (Q : pres -> pstate -> Prop),
  Rep t g pl -> g_free g = [] -> N.of_nat (length pl) + N.of_nat (pels_sz els) < InvalidIndex ->
  data = pre ++ enc_pels els ++ post -> off = lenN pre -> lenN pre + lenN (enc_pels els) <= e -> e <= len ->
  forallb pel_okb els = true -> length ss = length es ->
  pget pl sc = Some a -> y_op a <> opFreed ->
  (8 <= R)%nat -> (pels_cnt els + R <= fi)%nat -> (pels_cnt els + R + 1 <= fo)%nat ->
  (forall t' g' pl' fo' fi', Rep t' g' pl' -> Post1 g pl g' pl' sc (pel_trees h tbl (N.of_nat (length pl)) off els) ->
      (R <= fi')%nat -> (R + 1 <= fo')%nat ->
      wp False (list_cont fo' fi') (st1 (off + lenN (enc_pels els)) e t' (sc :: ss) (e :: es)) Q) ->
  wp False (list_cont fo fi) (st1 off e t (sc :: ss) (e :: es)) Q.

Lemma espec_nil : ESpec [].
Proof.
  intros fo fi off e t sc ss es g pl pre post a R Q H Hfree Hroom Hd Ho He Hel Hok Hbal Hsc Hlsc HR Hfi Hfo K.
  specialize (K t g pl fo fi H (Post1_nil g pl sc Hfree)). cbn [enc_pels flat_map] in K. change (lenN (@nil N)) with 0 in K.
  rewrite N.add_0_r in K. apply K; cbn [pels_cnt fold_right] in *; lia.
Qed.

Lemma espec_leaf d rest : ESpec rest -> ESpec (PLeaf d :: rest).
Proof.
  intros IH fo fi off e t sc ss es g pl pre post a R Q H Hfree Hroom Hd Ho He Hel Hok Hbal Hsc Hlsc HR Hfi Hfo K.
  cbn [forallb] in Hok. apply andb_prop in Hok. destruct Hok as [Hdok Hok]. cbn [pel_okb] in Hdok.
  rewrite pels_sz_cons in Hroom. cbn [pel_sz] in Hroom. rewrite pels_cnt_cons in Hfi, Hfo. cbn [pel_cnt] in Hfi, Hfo.
  rewrite enc_pels_cons in Hd, He. cbn [enc_pel] in Hd, He. subst off.
  pose proof (rep_len_g _ _ _ H) as Hlg.
  assert (Hsclt : sc < N.of_nat (length pl)) by (eapply pget_lt; eauto).
  set (b := N.of_nat (length pl)) in *.
  set (s0 := st1 (lenN pre) e t (sc :: ss) (e :: es)).
  assert (Ef : exists f', fi = S (S (S (S f')))) by (exists (fi - 4)%nat; lia). destruct Ef as (f' & ->).
  apply wp_list_cont_S. unfold eofM, rq. apply wp_bind, wp_get.
  assert (Hcont : forall t1 pre1, lenN pre1 = lenN pre + lenN (enc_targ d) -> data = pre1 ++ enc_pels rest ++ post ->
            Rep t1 (g_head g sc) (pl ++ [targ_pay h tbl (lenN pre) d]) ->
            wp False (list_cont fo (S (S (S f')))) (st1 (lenN pre1) e t1 (sc :: ss) (e :: es)) Q).
  { intros t1 pre1 Hlp1 Hd1 H1.
    set (pl1 := pl ++ [targ_pay h tbl (lenN pre) d]) in *.
    assert (Hl1 : length pl1 = S (length pl)) by (unfold pl1; rewrite app_length; cbn [length]; lia).
    assert (P01 : Post1 g pl (g_head g sc) pl1 sc [RN b (targ_pay h tbl (lenN pre) d) []]) by (apply post1_single; assumption).
    eapply (IH fo _ (lenN pre1) e t1 sc ss es _ pl1 pre1 post a R Q);
      [exact H1|reflexivity|rewrite Hl1; lia|exact Hd1|reflexivity| |exact Hel|exact Hok|exact Hbal| |exact Hlsc|exact HR|lia|lia|].
    { rewrite Hlp1. rewrite lenN_app in He. lia. }
    { unfold pl1. rewrite pget_app_old by exact Hsclt. exact Hsc. }
    intros t2 g2 pl2 fo2 fi2 H2 P2 Hfi2 Hfo2. specialize (K t2 g2 pl2 fo2 fi2 H2).
    rewrite pel_trees_cons in K. cbn [pel_tree pel_sz enc_pel] in K. fold b in K.
    replace (b + N.of_nat 1) with (N.of_nat (length pl1)) in K by (rewrite Hl1; unfold b; lia).
    rewrite enc_pels_cons, lenN_app in K. cbn [enc_pel] in K. rewrite N.add_assoc, <- Hlp1 in K.
    apply K; [|exact Hfi2|exact Hfo2].
    change (RN b (targ_pay h tbl (lenN pre) d) [] :: pel_trees h tbl (N.of_nat (length pl1)) (lenN pre1) rest)
      with ([RN b (targ_pay h tbl (lenN pre) d) []] ++ pel_trees h tbl (N.of_nat (length pl1)) (lenN pre1) rest).
    eapply Post1_app; [exact Hsclt| |exact P01|exact P2].
    intros x Hx. unfold rnodesl in Hx. cbn [flat_map] in Hx. rewrite rnodes_eq in Hx. cbn [rnodesl flat_map app In] in Hx. rewrite Hl1. unfold b in *. lia. }
  destruct d as [d|bs]; cbn [targ_okb enc_targ] in *.
  + unfold cst_okb in Hdok. apply andb_prop in Hdok. destruct Hdok as [Hc Hv]. apply N.ltb_lt in Hv.
    assert (Hat : at_token (p_r s0) pre (enc_op (d_op d) ++ Grammar.le_bytes (const_bytes (d_op d)) (d_v d) ++ enc_pels rest) post).
    { apply mk_at; [ |reflexivity| |exact Hel|exact Hlen|exact Hsmall|exact Hbytes].
      - rewrite Hd. unfold enc_const. rewrite <- !app_assoc. reflexivity.
      - rewrite lenN_app in He. unfold enc_const in He. rewrite !lenN_app in *. lia. }
    assert (Hne : eof (p_r s0) = false).
    { destruct (enc_op_nonempty (d_op d)) as (x & l & Eop). rewrite Eop in Hat. cbn [app] in Hat. apply (at_not_eof _ _ _ _ _ Hat). }
    rewrite Hne.
    apply wp_bind. eapply wp_conseq.
    { eapply (next_const _ s0 g pl pre (d_op d) (d_v d) (enc_pels rest) post sc ss a);
        [exact H|exact Hfree|lia|exact Hat|exact Hc|exact Hv|reflexivity|exact Hsc|exact Hlsc]. }
    intros res s1 (-> & t1 & -> & H1). change (pres_eqb ROk ROk) with true. cbv iota.
    set (pre1 := pre ++ enc_const d).
    assert (Hlp1 : lenN pre1 = lenN pre + lenN (enc_const d)) by (unfold pre1; apply lenN_app).
    assert (Eoff : lenN pre + lenN (enc_op (d_op d)) + N.of_nat (const_bytes (d_op d)) = lenN pre1) by (rewrite Hlp1, lenN_enc_const; lia).
    rewrite Eoff. change (with_tree (with_r s0 (set_offset_raw (p_r s0) (lenN pre1))) t1) with (st1 (lenN pre1) e t1 (sc :: ss) (e :: es)).
    apply (Hcont t1 pre1 Hlp1); [unfold pre1; rewrite Hd, <- !app_assoc; reflexivity|exact H1].
  + assert (Hasc : Forall ascii_char bs).
    { unfold str_okb in Hdok. rewrite forallb_forall in Hdok. apply Forall_forall. intros c Hc. specialize (Hdok c Hc).
      apply andb_prop in Hdok. destruct Hdok as [A B]. apply N.leb_le in A. apply N.leb_le in B. unfold ascii_char. lia. }
    assert (Hat : at_token (p_r s0) pre (aml_pOpStringPrefix :: (bs ++ [0]) ++ enc_pels rest) post).
    { apply mk_at; [ |reflexivity| |exact Hel|exact Hlen|exact Hsmall|exact Hbytes].
      - rewrite Hd. cbn [app]. rewrite <- !app_assoc. reflexivity.
      - exact He. }
    rewrite (at_not_eof _ _ _ _ _ Hat).
    apply wp_bind. eapply wp_conseq.
    { eapply (next_string _ s0 g pl pre bs (enc_pels rest) post sc ss a); [exact H|exact Hfree|lia|exact Hat|exact Hasc|reflexivity|exact Hsc|exact Hlsc]. }
    intros res s1 (-> & t1 & -> & H1). change (pres_eqb ROk ROk) with true. cbv iota.
    set (pre1 := pre ++ OP_STRING :: bs ++ [0]).
    assert (Hlp1 : lenN pre1 = lenN pre + lenN (OP_STRING :: bs ++ [0])) by (unfold pre1; apply lenN_app).
    assert (Eoff : lenN pre + 1 + lenN bs + 1 = lenN pre1) by (rewrite Hlp1, lenN_cons, lenN_app; change (lenN [0]) with 1; lia).
    rewrite Eoff. change (with_tree (with_r s0 (set_offset_raw (p_r s0) (lenN pre1))) t1) with (st1 (lenN pre1) e t1 (sc :: ss) (e :: es)).
    apply (Hcont t1 pre1 Hlp1); [unfold pre1; rewrite Hd, <- !app_assoc; reflexivity|exact H1].
Qed.

Lemma espec_sub k n els rest : ESpec els -> ESpec rest -> ESpec (PSub k n els :: rest).
Proof.
  intros IHb IH fo fi off e t sc ss es g pl pre post a R Q H Hfree Hroom Hd Ho He Hel Hok Hbal Hsc Hlsc HR Hfi Hfo K.
  cbn [forallb] in Hok. apply andb_prop in Hok. destruct Hok as [Hd_ok Hok]. rewrite pel_okb_sub in Hd_ok.
  apply andb_prop in Hd_ok. destruct Hd_ok as [Hx Hel_ok]. apply andb_prop in Hx. destruct Hx as [Hn Hpk]. apply pkglen_okb_adm in Hpk. apply N.ltb_lt in Hn.
  rewrite pels_sz_cons, pel_sz_sub in Hroom. rewrite pels_cnt_cons, pel_cnt_sub in Hfi, Hfo.
  rewrite enc_pels_cons, enc_pel_sub in Hd, He. subst off.
  set (v := k + lenN ([n] ++ enc_pels els)) in *.
  assert (Hv : v = k + 1 + lenN (enc_pels els)) by (unfold v; rewrite lenN_app; change (lenN [n]) with 1; lia).
  pose proof (lenN_enc_pkglen k v Hpk) as Hlk.
  pose proof (rep_len_g _ _ _ H) as Hlg. pose proof (rep_len_pool _ _ _ H) as Hlp.
  assert (Hsclt : sc < N.of_nat (length pl)) by (eapply pget_lt; eauto).
  assert (Ef : exists f', fi = S (S (S (S (S (S (S (S f')))))))) by (exists (fi - 8)%nat; lia). destruct Ef as (f' & ->).
  set (b := N.of_nat (length pl)) in *.
  set (s0 := st1 (lenN pre) e t (sc :: ss) (e :: es)).
  assert (HlenI : lenN ([OP_PACKAGE] ++ enc_pkglen k v ++ [n] ++ enc_pels els) = 1 + v).
  { rewrite !lenN_app, Hlk. change (lenN [OP_PACKAGE]) with 1. change (lenN [n]) with 1. lia. }
  rewrite lenN_app, HlenI in He.
  assert (Hat0 : at_token (p_r s0) pre (enc_op aml_pOpPackage ++ enc_pkglen k v ++ enc_fx [(W1, n)] ++ (enc_pels els ++ enc_pels rest)) post).
  { apply mk_at; [ |reflexivity| |exact Hel|exact Hlen|exact Hsmall|exact Hbytes].
    - rewrite Hd. cbn [enc_fx fw_enc]. change (enc_op aml_pOpPackage) with [OP_PACKAGE]. lnorm. reflexivity.
    - cbn [enc_fx fw_enc]. change (enc_op aml_pOpPackage) with [OP_PACKAGE]. rewrite !lenN_app, Hlk. change (lenN [OP_PACKAGE]) with 1. change (lenN [n]) with 1. change (lenN (@nil N)) with 0. lia. }
  (* the header of the package *)
  apply wp_list_cont_S. unfold eofM, rq. apply wp_bind, wp_get.
  assert (Hne : eof (p_r s0) = false) by (change (enc_op aml_pOpPackage) with [0x12] in Hat0; cbn [app] in Hat0; apply (at_not_eof _ _ _ _ _ Hat0)).
  rewrite Hne.
  apply wp_bind. eapply wp_conseq.
  { eapply (next_pkg f' s0 g pl pre k v n _ post sc ss a);
      [exact H|exact Hfree|lia|exact Hat0|exact Hn|exact Hpk|lia| |reflexivity|exact Hsc|exact Hlsc|reflexivity].
    cbn [s0 st1 p_r r_len]. lia. }
  intros res s1 (-> & t1 & -> & H1). change (pres_eqb ROk ROk) with true. cbv iota.
  set (off1 := lenN pre + 1 + k + 1). set (e1 := lenN pre + 1 + v).
  set (pl1 := pl ++ pkg_pays' s0 (lenN pre) k n) in *.
  assert (Hpl1 : pl1 = pl ++ [pkg_pay h (lenN pre); num_pay h W1 (lenN pre + 1 + k) n; sb_pay h (lenN pre + 1 + k + 1)]) by reflexivity.
  assert (Hl1 : length pl1 = (3 + length pl)%nat) by (unfold pl1; rewrite app_length; cbn [pkg_pays' length]; lia).
  set (s1 := st1 off1 e1 t1 (b + 2 :: sc :: ss) (e1 :: e :: es)).
  assert (Es1 : after_blk s0 2 off1 e1 t1 = s1).
  { unfold after_blk, s1, s0, st1. scbn. unfold set_pkgEnd_raw, set_offset_raw. cbn [r_data r_len r_offset r_pkgEnd p_r p_tree]. rewrite <- Hlp. reflexivity. }
  rewrite Es1.
  (* the elements *)
  set (pre1 := pre ++ [OP_PACKAGE] ++ enc_pkglen k v ++ [n]).
  assert (Hlp1 : lenN pre1 = off1).
  { unfold pre1, off1. rewrite !lenN_app, Hlk. change (lenN [OP_PACKAGE]) with 1. change (lenN [n]) with 1. lia. }
  assert (Hsb1 : pget pl1 (b + 2) = Some (sb_pay h off1)).
  { rewrite Hpl1. unfold b. rewrite pget_app_new. reflexivity. }
  eapply (IHb fo _ off1 e1 t1 (b + 2) (sc :: ss) (e :: es) _ pl1 pre1 (enc_pels rest ++ post) _ (pels_cnt rest + R + 1)%nat Q);
    [exact H1|apply free_g_args; reflexivity|rewrite Hl1; lia| |symmetry; exact Hlp1| | |exact Hel_ok|cbn [length]; rewrite Hbal; reflexivity|exact Hsb1|discriminate|lia|lia|lia|].
  { unfold pre1. rewrite Hd. lnorm. reflexivity. }
  { rewrite Hlp1. unfold off1, e1. lia. }
  { unfold e1. lia. }
  intros t2 g2 pl2 fo2 fi2 H2 P2 Hfi2 Hfo2.
  (* the end of the package *)
  destruct fi2 as [|fi2']; [lia|]. apply wp_list_cont_S. unfold eofM, rq. apply wp_bind, wp_get.
  assert (Eeof : eof (p_r (st1 (off1 + lenN (enc_pels els)) e1 t2 (b + 2 :: sc :: ss) (e1 :: e :: es))) = true).
  { unfold eof. cbn [st1 p_r r_pkgEnd r_offset]. apply N.leb_le. unfold e1, off1. lia. }
  rewrite Eeof.
  destruct fo2 as [|fo2']; [lia|].
  apply wp_list_end; [exact Hbal|exact Hel|].
  (* the rest *)
  set (pre2 := pre1 ++ enc_pels els).
  assert (Hlp2 : lenN pre2 = off1 + lenN (enc_pels els)) by (unfold pre2; rewrite lenN_app, Hlp1; reflexivity).
  assert (Hl2 : length pl2 = (length pl + 3 + pels_sz els)%nat).
  { rewrite (p1_len _ _ _ _ _ _ P2), Hl1, pel_trees_rsizes. lia. }
  assert (P02 : Post1 g pl g2 pl2 sc [pel_tree h tbl b (lenN pre) (PSub k n els)]).
  { apply post1_sub; [exact Hsclt|exact Hlg|]. rewrite <- Hpl1. fold b.
    replace (b + 3) with (N.of_nat (length pl1)) by (rewrite Hl1; unfold b; lia). exact P2. }
  assert (Hsc2 : pget pl2 sc = Some a).
  { rewrite (p1_old_p _ _ _ _ _ _ P02) by exact Hsclt. exact Hsc. }
  eapply (IH fo2' _ (off1 + lenN (enc_pels els)) e t2 sc ss es g2 pl2 pre2 post a R Q);
    [exact H2|apply (p1_free _ _ _ _ _ _ P2)|rewrite Hl2; lia| |symmetry; exact Hlp2| |exact Hel|exact Hok|exact Hbal|exact Hsc2|exact Hlsc|exact HR|lia|lia|].
  { unfold pre2, pre1. rewrite Hd. lnorm. reflexivity. }
  { rewrite Hlp2. unfold off1. lia. }
  intros t3 g3 pl3 fo3 fi3 H3 P3 Hfi3 Hfo3.
  specialize (K t3 g3 pl3 fo3 fi3 H3).
  rewrite pel_trees_cons, pel_sz_sub in K. fold b in K.
  replace (b + N.of_nat (3 + pels_sz els)) with (N.of_nat (length pl2)) in K by (rewrite Hl2; unfold b; lia).
  rewrite enc_pels_cons, lenN_app, enc_pel_sub in K. fold v in K. rewrite HlenI in K.
  replace (lenN pre + (1 + v)) with (off1 + lenN (enc_pels els)) in K by (unfold off1; lia).
  replace (lenN pre + (1 + v + lenN (enc_pels rest))) with (off1 + lenN (enc_pels els) + lenN (enc_pels rest)) in K by (unfold off1; lia).
  apply K; [|exact Hfi3|exact Hfo3].
  change (pel_tree h tbl b (lenN pre) (PSub k n els) :: pel_trees h tbl (N.of_nat (length pl2)) (off1 + lenN (enc_pels els)) rest)
    with ([pel_tree h tbl b (lenN pre) (PSub k n els)] ++ pel_trees h tbl (N.of_nat (length pl2)) (off1 + lenN (enc_pels els)) rest).
  eapply Post1_app; [exact Hsclt| |exact P02|exact P3].
  intros x Hx. unfold rnodesl in Hx. cbn [flat_map] in Hx. rewrite app_nil_r in Hx. apply pel_tree_nodes in Hx. rewrite pel_sz_sub in Hx. rewrite Hl2. unfold b in *. lia.
Qed.

Theorem espec_all : forall els, ESpec els.
Proof.
  induction els as [|a rest IH|k n es rest IHe IH] using pels_ind.
  - apply espec_nil.
  - apply espec_leaf; assumption.
  - apply espec_sub; assumption.
Qed.

(** Name(SEG, Package ...): the Name object, then the package as the next object of the same scope *)
Lemma ispec_pkg seg k n elems rest : ISpec rest -> ISpec (IPkg seg k n elems :: rest).
Proof.
  intros IH fo fi off e t sc ss es g pl pre post a R Q H Hfree Hroom Hd Ho He Hel Hok Hbal Hsc Hlsc HR Hfi Hfo K.
  apply forallb_item_cons in Hok. destruct Hok as [Hd_ok Hok]. cbn [item_okb] in Hd_ok.
  apply andb_prop in Hd_ok. destruct Hd_ok as [Hx Hel_ok]. apply andb_prop in Hx. destruct Hx as [Hx Hpk].
  apply andb_prop in Hx. destruct Hx as [Hx Hn]. apply andb_prop in Hx. destruct Hx as [Hlead _].
  assert (Hsub : forallb pel_okb [PSub k n elems] = true).
  { cbn [forallb]. rewrite pel_okb_sub, Hn, Hpk, Hel_ok. reflexivity. }
  rewrite iszs_cons, isz_pkg in Hroom. rewrite icnts_cons in Hfi, Hfo. cbn [icnt] in Hfi, Hfo.
  rewrite enc_items_cons, enc_pkg_item in Hd, He. subst off.
  set (PK := [OP_PACKAGE] ++ enc_pkglen k (k + lenN ([n] ++ enc_pels elems)) ++ [n] ++ enc_pels elems) in *.
  assert (EPK : enc_pels [PSub k n elems] = PK) by (cbn [enc_pels flat_map]; rewrite enc_pel_sub, app_nil_r; reflexivity).
  pose proof (rep_len_g _ _ _ H) as Hlg. pose proof (rep_len_pool _ _ _ H) as Hlp.
  assert (Hsclt : sc < N.of_nat (length pl)) by (eapply pget_lt; eauto).
  assert (Ef : exists f', fi = S (S (S (S (S (S f')))))) by (exists (fi - 6)%nat; lia). destruct Ef as (f' & ->).
  set (b := N.of_nat (length pl)) in *.
  set (s0 := st1 (lenN pre) e t (sc :: ss) (e :: es)).
  assert (HlenI : lenN (OP_NAME :: seg_bytes seg ++ PK) = 5 + lenN PK).
  { rewrite lenN_cons, lenN_app. change (lenN (seg_bytes seg)) with 4. lia. }
  rewrite lenN_app, HlenI in He.
  assert (Hat0 : at_token (p_r s0) pre (OP_NAME :: seg_bytes seg ++ PK ++ enc_items rest) post).
  { apply mk_at; [ |reflexivity| |exact Hel|exact Hlen|exact Hsmall|exact Hbytes].
    - rewrite Hd. lnorm. reflexivity.
    - rewrite lenN_cons, !lenN_app. change (lenN (seg_bytes seg)) with 4. lia. }
  (* the Name object *)
  apply wp_list_cont_S. unfold eofM, rq. apply wp_bind, wp_get. rewrite (at_not_eof _ _ _ _ _ Hat0).
  apply wp_bind. eapply wp_conseq.
  { eapply (next_name _ s0 g pl pre seg _ post sc ss a); [exact H|exact Hfree|lia|exact Hat0|exact Hlead|reflexivity|exact Hsc|exact Hlsc|reflexivity]. }
  intros res s1 (-> & t1 & -> & H1). change (pres_eqb ROk ROk) with true. cbv iota.
  set (pl1 := pl ++ [mkPay aml_pOpName 3 (p_handle s0) name_zero (lenN pre) 0 None; path_pay s0 (lenN pre + 1) 4]) in *.
  assert (Hpl1 : pl1 = pl ++ [nam_pay h (lenN pre) name_zero; pth_pay h tbl (lenN pre + 1)]) by reflexivity.
  assert (Hl1 : length pl1 = S (S (length pl))) by (unfold pl1; rewrite app_length; cbn [length]; lia).
  assert (Hsc1 : pget pl1 sc = Some a) by (unfold pl1; rewrite pget_app_old by exact Hsclt; exact Hsc).
  set (pre1 := pre ++ OP_NAME :: seg_bytes seg).
  assert (Hlp1 : lenN pre1 = lenN pre + 5).
  { unfold pre1. rewrite lenN_app, lenN_cons. change (lenN (seg_bytes seg)) with 4. lia. }
  change (with_tree (with_r s0 (set_offset_raw (p_r s0) (lenN pre + 5))) t1) with (st1 (lenN pre + 5) e t1 (sc :: ss) (e :: es)).
  assert (P01 : Post1 g pl (g_name g sc) pl1 sc [RN b (nam_pay h (lenN pre) name_zero) [RN (b + 1) (pth_pay h tbl (lenN pre + 1)) []]]).
  { rewrite Hpl1. apply post1_nameonly; assumption. }
  (* the package, an object of the same scope *)
  eapply (espec_all [PSub k n elems] fo _ (lenN pre + 5) e t1 sc ss es _ pl1 pre1 (enc_items rest ++ post) a (icnts rest + R + 2)%nat Q);
    [exact H1|apply free_g_name|rewrite Hl1; cbn [pels_sz fold_right]; rewrite pel_sz_sub; lia| |symmetry; exact Hlp1| |exact Hel|exact Hsub|exact Hbal|exact Hsc1|exact Hlsc|lia| | |].
  { rewrite EPK. unfold pre1. rewrite Hd. lnorm. reflexivity. }
  { rewrite EPK, Hlp1. lia. }
  { cbn [pels_cnt fold_right]. rewrite pel_cnt_sub. fold (pels_cnt elems). lia. }
  { cbn [pels_cnt fold_right]. rewrite pel_cnt_sub. fold (pels_cnt elems). lia. }
  intros t2 g2 pl2 fo2 fi2 H2 P2 Hfi2 Hfo2. rewrite EPK in *.
  assert (Hl2 : length pl2 = (length pl + 5 + pels_sz elems)%nat).
  { rewrite (p1_len _ _ _ _ _ _ P2), Hl1, pel_trees_rsizes. cbn [pels_sz fold_right]. rewrite pel_sz_sub. fold (pels_sz elems). lia. }
  assert (P02 : Post1 g pl g2 pl2 sc (lay1_item h tbl b (lenN pre) (IPkg seg k n elems))).
  { cbn [lay1_item]. unfold pkg_tree.
    change [RN b (nam_pay h (lenN pre) name_zero) [RN (b + 1) (pth_pay h tbl (lenN pre + 1)) []]; pel_tree h tbl (b + 2) (lenN pre + 5) (PSub k n elems)]
      with ([RN b (nam_pay h (lenN pre) name_zero) [RN (b + 1) (pth_pay h tbl (lenN pre + 1)) []]] ++ [pel_tree h tbl (b + 2) (lenN pre + 5) (PSub k n elems)]).
    eapply Post1_app; [exact Hsclt| |exact P01|].
    - intros x Hx. unfold rnodesl in Hx. cbn [flat_map] in Hx. rewrite !rnodes_eq in Hx. cbn [rnodesl flat_map app In] in Hx. rewrite !rnodes_eq in Hx. cbn [rnodesl flat_map app In] in Hx. rewrite Hl1. unfold b in *. lia.
    - cbn [pel_trees] in P2. replace (N.of_nat (length pl1)) with (b + 2) in P2 by (rewrite Hl1; unfold b; lia). exact P2. }
  assert (Hsc2 : pget pl2 sc = Some a) by (rewrite (p1_old_p _ _ _ _ _ _ P02) by exact Hsclt; exact Hsc).
  set (pre2 := pre1 ++ PK).
  assert (Hlp2 : lenN pre2 = lenN pre + 5 + lenN PK) by (unfold pre2; rewrite lenN_app, Hlp1; reflexivity).
  eapply (IH fo2 fi2 (lenN pre + 5 + lenN PK) e t2 sc ss es g2 pl2 pre2 post a R Q);
    [exact H2|apply (p1_free _ _ _ _ _ _ P2)|rewrite Hl2; lia| |symmetry; exact Hlp2| |exact Hel|exact Hok|exact Hbal|exact Hsc2|exact Hlsc|exact HR|lia|lia|].
  { unfold pre2, pre1. rewrite Hd. lnorm. reflexivity. }
  { rewrite Hlp2. lia. }
  intros t4 g4 pl4 fo4 fi4 H4 P4 Hfi4 Hfo4.
  specialize (K t4 g4 pl4 fo4 fi4 H4).
  rewrite lay1_cons, isz_pkg in K. fold b in K.
  replace (b + N.of_nat (5 + pels_sz elems)) with (N.of_nat (length pl2)) in K by (rewrite Hl2; unfold b; lia).
  rewrite enc_items_cons, lenN_app, enc_pkg_item in K. fold PK in K. rewrite HlenI in K.
  replace (lenN pre + (5 + lenN PK)) with (lenN pre + 5 + lenN PK) in K by lia.
  replace (lenN pre + (5 + lenN PK + lenN (enc_items rest))) with (lenN pre + 5 + lenN PK + lenN (enc_items rest)) in K by lia.
  apply K; [|exact Hfi4|exact Hfo4].
  eapply Post1_app; [exact Hsclt| |exact P02|exact P4].
  intros x Hx. assert (Hx' : In x (rnodesl (lay1 h tbl b (lenN pre) [IPkg seg k n elems]))) by (cbn [lay1]; rewrite app_nil_r; exact Hx).
  clear Hx. rename Hx' into Hx. apply lay1_nodes in Hx. cbn [iszs fold_right] in Hx. rewrite isz_pkg in Hx. rewrite Hl2. unfold b in *. lia.
Qed.

Theorem ispec_all : forall its, ISpec its.
Proof.
  induction its as [|d rest IH|bk k seg fa body rest IHb IH|lk seg fa ta rest IH|seg k n elems rest IH|sk ta rest IH] using items_ind.
  - apply ispec_nil.
  - apply ispec_name. exact IH.
  - apply ispec_blk; assumption.
  - apply ispec_leaf; assumption.
  - apply ispec_pkg; assumption.
  - apply ispec_stmt; assumption.
Qed.
End ItemsSpec.

(** ---- the whole first pass ---- *)
Theorem first_f1 its fuel tree g pl h hdr a0 :
  let data := hdr ++ enc_items its in
  lenN hdr = aml_sizeofSDTHeader -> Forall (fun b => b < 256) data -> lenN data < two32 ->
  Rep tree g pl -> g_free g = [] -> N.of_nat (length pl) + N.of_nat (iszs its) < InvalidIndex ->
  pget pl 0 = Some a0 -> y_op a0 <> opFreed -> forallb item_okb its = true -> (icnts its + 12 <= fuel)%nat ->
  wp False (first_pass fuel) (init_state tree [] h data) (fun res s' => res = ROk /\ exists t1 g1 pl1,
    s' = after_first t1 [] h data /\ Rep t1 g1 pl1 /\
    Post1 g pl g1 pl1 0 (lay1 h 0 (N.of_nat (length pl)) aml_sizeofSDTHeader its)).
Proof.
  intros data Hhdr Hbytes Hsmall H Hfree Hroom H0 Hl0 Hok Hfuel.
  assert (Hlen : lenN data = aml_sizeofSDTHeader + lenN (enc_items its)) by (unfold data; rewrite lenN_app, Hhdr; reflexivity).
  rewrite init_state_eq by lia.
  destruct fuel as [|f1]; [lia|].
  unfold first_pass. apply wp_bind. apply wp_scopeEnter. scbn.
  apply wp_parseObjectList_cont; [scbn; discriminate|].
  change (mkP (mkReader data (lenN data) aml_sizeofSDTHeader (lenN data)) tree [0] [lenN data] (lenN data) 0 0 0 false h ([] ++ [data]))
    with (st1 h data (lenN data) (lenN data) [data] aml_sizeofSDTHeader (lenN data) tree [0] [lenN data]).
  eapply (ispec_all h data (lenN data) (lenN data) [data] eq_refl Hsmall Hbytes its f1 f1 aml_sizeofSDTHeader (lenN data) tree 0 [] [] g pl hdr [] a0 9%nat);
    [exact H|exact Hfree|exact Hroom|unfold data; rewrite app_nil_r; reflexivity|symmetry; exact Hhdr|rewrite Hhdr, Hlen; lia|lia|exact Hok|reflexivity|exact H0|exact Hl0|lia|lia|lia|].
  intros t1 g1 pl1 fo fi H1 P1 Hfi Hfo.
  destruct fi as [|fi']; [lia|]. apply wp_list_cont_S. unfold eofM, rq. apply wp_bind, wp_get.
  assert (Eeof : eof (p_r (st1 h data (lenN data) (lenN data) [data] (aml_sizeofSDTHeader + lenN (enc_items its)) (lenN data) t1 [0] [lenN data])) = true).
  { unfold eof. cbn [st1 p_r r_pkgEnd r_offset]. apply N.leb_le. lia. }
  rewrite Eeof. unfold list_end.
  apply wp_bind, wp_get. apply wp_bind, wp_get. scbn. cbn [length Nat.eqb].
  apply wp_bind. unfold wp at 1, scopeExit. scbn.
  apply wp_bind. unfold wp at 1, popPkgEnd. scbn. cbv zeta iota beta.
  destruct fo as [|fo']; [lia|]. rewrite parseObjectList_S. apply wp_bind, wp_get. scbn. apply wp_ret.
  split; [reflexivity|]. exists t1, g1, pl1. split; [|split; [exact H1|exact P1]].
  unfold after_first, st1. rewrite <- Hlen. reflexivity.
Qed.
