(** C12 (stretch): resolveMethodCalls never panics and keeps C13's tree relation, provided every
    pOpIntNamePathOrMethodCall object carries a []byte value (what parseNamePathOrMethodCall stores). *)
From Coq Require Import NArith Arith List Bool Lia.
From Coq Require Import ZifyBool ZifyN ZifyNat.
From FF Require Import Lib.Word Gen.Consts_device_acpi_aml Gen.Consts_aml_tree Aml.Stream Aml.Lex Aml.LexProofs
  Aml.Tree Aml.Parser Aml.ParserProofs Aml.TreeSpec Aml.TreeProofs Aml.TreeProofsOps Aml.TreeProofsFind
  Aml.ParserTotalTree Aml.ParserTotalTree2 Aml.ParserTotalLex Aml.ParserTotalTable Aml.ParserTotalBase Aml.ParserTotalLeaf
  Aml.ParserTotalConn Aml.ParserTotalNonNamed.
Import ListNotations.
Local Open Scope N_scope.

(** the value of a name-path-or-method-call object is the []byte of the path *)
Definition typed (t : T) : Prop :=
  forall i o, tget t i = Some o -> o_opcode o <> opFreed -> o_opcode o = aml_pOpIntNamePathOrMethodCall ->
    exists tbl sl, o_value o = Some (VBytes tbl sl).

Lemma typed_pframe (t t' : T) : typed t -> pframe t t' -> typed t'.
Proof.
  intros Ht Hp i o' Hg Hl Hop. destruct (pframe_inv _ _ _ _ Hp Hg) as (o & Ho & E1 & _ & _ & _ & _ & _ & _ & E8).
  rewrite E8. apply (Ht i o Ho); congruence.
Qed.

Lemma typed_tset (t : T) p f : typed t ->
  (forall o, tget t p = Some o -> o_opcode (f o) <> aml_pOpIntNamePathOrMethodCall) -> typed (tset t p f).
Proof.
  intros Ht Hf i o' Hg Hl Hop. rewrite get_tset in Hg. destruct (N.eqb_spec i p) as [->|Hne].
  - destruct (tget t p) as [o|] eqn:E; cbn [option_map] in Hg; [|discriminate]. inversion Hg; subst o'.
    exfalso. apply (Hf o eq_refl). exact Hop.
  - apply (Ht i o' Hg Hl Hop).
Qed.

Lemma TI_tset s g p f :
  TI s g ->
  (forall o, tget (p_tree s) p = Some o -> lk_eq o (f o)) ->
  (forall o, tget (p_tree s) p = Some o -> o_opcode o <> opFreed -> opInfo (o_infoIndex (f o)) <> None) ->
  (forall o, value_ok (p_tables s) (o_value o) -> value_ok (p_tables s) (o_value (f o))) ->
  TI (with_tree s (tset (p_tree s) p f)) g.
Proof.
  intros [A B C] Hlk Hinf Hval. constructor; pcbn.
  - apply R_tset_lk; auto.
  - apply info_valid_tset; auto. intros o Ho. destruct (Hlk o Ho) as (E & _). exact E.
  - unfold pool_ok, tset. cbn [t_pool]. apply list_upd_Forall; auto.
Qed.

(** the three kinds of write of resolveMethodCalls on the live object [p] *)
Lemma wp_set_opcode P p c s g (Q : unit -> pstate -> Prop) :
  TI s g -> glive g p -> newok c ->
  (TI (with_tree s (tset (p_tree s) p (set_opcode c))) g -> Q tt (with_tree s (tset (p_tree s) p (set_opcode c)))) ->
  wp P (wrf p (set_opcode c)) s Q.
Proof.
  intros H Hl (Hnf & _) K. destruct (TI_live_get _ _ _ H Hl) as (o & Ho & Hlo).
  apply wp_wrf; [eauto|]. apply K. apply TI_tset; auto.
  - intros o' Ho'. assert (o' = o) by congruence. subst o'. unfold lk_eq. cbn [o_opcode o_index o_parent o_prev o_next o_first o_last set_opcode].
    repeat split; auto; intros; contradiction.
  - intros o' Ho' Hlo'. cbn [o_infoIndex set_opcode]. apply (ti_info _ _ H _ _ Ho' Hlo').
Qed.

Lemma wp_set_info P p idx s g (Q : unit -> pstate -> Prop) :
  TI s g -> glive g p -> opInfo idx <> None ->
  (TI (with_tree s (tset (p_tree s) p (set_infoIndex idx))) g -> Q tt (with_tree s (tset (p_tree s) p (set_infoIndex idx)))) ->
  wp P (wrf p (set_infoIndex idx)) s Q.
Proof.
  intros H Hl Hidx K. destruct (TI_live_get _ _ _ H Hl) as (o & Ho & Hlo).
  apply wp_wrf; [eauto|]. apply K. apply TI_tset; auto.
  intros o' Ho'. unfold lk_eq. cbn [o_opcode o_index o_parent o_prev o_next o_first o_last set_infoIndex]. repeat split; auto.
Qed.

Lemma wp_set_vidx P p i s g (Q : unit -> pstate -> Prop) :
  TI s g -> glive g p ->
  (TI (with_tree s (tset (p_tree s) p (set_value (Some (VIdx i))))) g -> Q tt (with_tree s (tset (p_tree s) p (set_value (Some (VIdx i)))))) ->
  wp P (wrf p (set_value (Some (VIdx i)))) s Q.
Proof.
  intros H Hl K. destruct (TI_live_get _ _ _ H Hl) as (o & Ho & Hlo).
  apply wp_wrf; [eauto|]. apply K. apply TI_tset; auto.
  - intros o' Ho'. unfold lk_eq. cbn [o_opcode o_index o_parent o_prev o_next o_first o_last set_value]. repeat split; auto.
  - intros o' Ho' Hlo'. cbn [o_infoIndex set_value]. apply (ti_info _ _ H _ _ Ho' Hlo').
  - intros o' _. exact I.
Qed.

Lemma list_upd_twice {A} (l : list A) n f h : list_upd (list_upd l n f) n h = list_upd l n (fun o => h (f o)).
Proof. revert n. induction l as [|a l IH]; intros n; destruct n; cbn [list_upd]; try reflexivity. rewrite IH. reflexivity. Qed.
Lemma tset_twice (t : T) p f h : tset (tset t p f) p h = tset t p (fun o => h (f o)).
Proof. unfold tset. cbn [t_pool t_free]. rewrite list_upd_twice. reflexivity. Qed.

(** ---- the walk ---- *)
Definition Kupd (K : T -> ghost -> Prop) : Prop := forall (t : T) g p o (f : Obj -> Obj),
  R t g -> K t g -> tget t p = Some o -> o_opcode o = aml_pOpIntNamePathOrMethodCall -> o_opcode (f o) <> aml_pOpMethod ->
  o_opcode (f o) <> aml_pOpIntNamePathOrMethodCall -> K (tset t p f) g.

Section Inv.
(** an invariant [K] of the pass: it survives the moves of attachSiblingsAsArgs (as in ParserTotalNonNamed) and the rewriting of a
    name-path-or-method-call object into something that is not a Method *)
Variable K : T -> ghost -> Prop.
Hypothesis K_move : Kmove K.
Hypothesis K_upd : Kupd K.

Definition rpost (g : ghost) (P : N) (GP : option N) (m1 : list N) (s' : pstate) (g' : ghost) (m2' : list N) : Prop :=
  TI s' g' /\ reloc g g' (desc g (top P GP)) /\ ctx g' P GP m1 m2' /\ (forall r, groot g r -> groot g' r) /\ typed (p_tree s') /\ K (p_tree s') g'.

Definition rwpost (g : ghost) (x : N) (GP : option N) (m1 m2 : list N) (s' : pstate) : Prop :=
  exists g' m2', rpost g x GP m1 s' g' m2' /\ (length m2' <= length m2)%nat /\
    (forall q, ~ desc g x q -> q <> top x GP -> kids g' q = kids g q).

Definition rlpost (g : ghost) (obj : N) (GP : option N) (m1 m2 l : list N) (s' : pstate) : Prop :=
  exists g' m2', rpost g obj GP m1 s' g' m2' /\ (length m2' <= length m2)%nat /\
    (forall q, (forall c, In c l -> ~ desc g c q) -> q <> obj -> q <> top obj GP -> kids g' q = kids g q).

Definition RC_spec (fuel : nat) : Prop := forall x s g GP m1 m2,
  TI s g -> typed (p_tree s) -> glive g 0 -> glive g x -> ctx g x GP m1 m2 -> K (p_tree s) g ->
  wp (PO2 g x m2 fuel) (resolveMethodCalls fuel x) s (fun r s' => rwpost g x GP m1 m2 s').

Definition RCloop_spec (fuel : nat) : Prop := forall obj argIndex s g GP m1 m2 l r,
  TI s g -> typed (p_tree s) -> glive g 0 -> glive g obj -> ctx g obj GP m1 m2 -> K (p_tree s) g ->
  kids g obj = l ++ r -> argIndex = last l InvalidIndex ->
  wp (PL2 g l r m2 fuel) (resolveCalls_loop fuel obj argIndex) s (fun r0 s' => rlpost g obj GP m1 m2 l s').

Lemma step_RC fuel : RCloop_spec fuel -> RC_spec (S fuel).
Proof.
  intros IHl x s g GP m1 m2 H Hty H0 Hl Hctx HK. cbn [resolveMethodCalls].
  pose proof (ti_R _ _ H) as HR.
  apply wp_bind. apply wp_objectAt'; [apply (TI_ObjectAt _ _ _ H Hl)|].
  destruct (TI_live_get _ _ _ H Hl) as (o & Ho & Hlo).
  apply wp_bind. apply wp_rdf. exists o. split; [exact Ho|].
  destruct (R_kids _ _ HR _ _ Ho Hlo) as (_ & Hlast & _). rewrite Hlast.
  eapply wp_weaken; [apply (IHl x _ s g GP m1 m2 (kids g x) [] H Hty H0 Hl Hctx HK (eq_sym (app_nil_r _)) eq_refl)| |].
  - intros HP n Hn. inversion Hn as [x' n' Hs]; subst. specialize (HP n' Hs). cbn [length] in HP. lia.
  - intros r s' (g' & m2' & A & B & C). exists g', m2'. split; [exact A|]. split; [exact B|].
    intros q Hq Hqt. apply C; [|intros ->; apply Hq; constructor|exact Hqt].
    intros c Hc Hd. apply Hq. eapply desc_trans2; [eapply desc_step; [constructor|exact Hc]|exact Hd].
Qed.

Lemma nk_calls : newok aml_pOpIntNamePath /\ newok aml_pOpIntMethodCall /\ newok aml_pOpIntResolvedNamePath /\
  aml_pOpIntNamePath <> aml_pOpIntNamePathOrMethodCall /\ aml_pOpIntMethodCall <> aml_pOpIntNamePathOrMethodCall /\
  aml_pOpIntResolvedNamePath <> aml_pOpIntNamePathOrMethodCall.
Proof. repeat split; try (apply newokb_sound; reflexivity); try discriminate; apply (proj1 (newokb_sound _ eq_refl)). Qed.

Lemma step_RCloop fuel : RC_spec fuel -> RCloop_spec fuel -> RCloop_spec (S fuel).
Proof.
  intros IHc IHl obj argIndex s g GP m1 m2 l r H Hty H0 Hl Hctx HK Hkl Harg. cbn [resolveCalls_loop].
  set (S0 := desc g (top obj GP)).
  assert (HS0top : S0 (top obj GP)) by constructor.
  assert (HS0obj : S0 obj) by (eapply desc_top; eauto).
  destruct (N.eqb_spec argIndex InvalidIndex) as [Ei|Ei].
  { apply wp_ret. exists g, m2. split; [split; auto; split; [apply reloc_refl|]; auto|]. split; [lia|]. intros q _ _ _. reflexivity. }
  assert (Hne : l <> []) by (intros ->; cbn in Harg; contradiction).
  destruct (last_split l InvalidIndex Hne) as (l' & El). rewrite <- Harg in El. subst l. rewrite <- app_assoc in Hkl. cbn [app] in Hkl.
  assert (Hin : In argIndex (kids g obj)) by (rewrite Hkl; apply in_or_app; right; left; reflexivity).
  pose proof (ti_R _ _ H) as HR. pose proof (R_gwf _ _ HR) as Hwf. destruct (Hwf _ _ Hin) as (_ & Hla).
  apply wp_bind. apply wp_objectAt'; [apply (TI_ObjectAt _ _ _ H Hla)|].
  destruct (TI_live_get _ _ _ H Hla) as (ao0 & Hao0 & Hlao0).
  apply wp_bind. apply wp_rdf. exists ao0. split; [exact Hao0|]. rewrite (R_index _ _ HR _ _ Hao0).
  assert (Hsplit : forall m, szl g (l' ++ [argIndex]) m -> exists a n, szl g l' a /\ sz g argIndex n /\ m = (a + n)%nat).
  { intros m Hm. destruct (szl_app g l' [argIndex] m Hm) as (a & b & A & B & E). exists a, b. split; [exact A|]. split; [apply szl_one; exact B|exact E]. }
  assert (Hin' : forall c, In c l' -> In c (kids g obj)) by (intros c Hc; rewrite Hkl; apply in_or_app; left; exact Hc).
  assert (Hnd : NoDup (l' ++ argIndex :: r)).
  { destruct (TI_live_get _ _ _ H Hl) as (oo & Hoo & Hloo). destruct (R_kids _ _ HR _ _ Hoo Hloo) as (_ & _ & _ & Hn). rewrite Hkl in Hn. exact Hn. }
  assert (Hca : forall c, In c l' -> c <> argIndex).
  { intros c Hc ->. apply NoDup_remove_2 in Hnd. apply Hnd. apply in_or_app. left. exact Hc. }
  (* the subtree of the argument *)
  apply wp_bind. eapply wp_weaken; [apply (IHc argIndex s g (Some obj) l' r H Hty H0 Hla Hkl HK)| |].
  { intros HP m Hm. destruct (Hsplit m Hm) as (a & n & A & B & ->). specialize (HP n B). lia. }
  intros res s1 (g1 & r1 & (H1 & Rl1 & Hk1 & Hroots1 & Hty1 & HK1) & Hlen1 & HF1). cbn [top ctx] in Rl1, Hk1, HF1.
  assert (Rl1' : reloc g g1 S0).
  { eapply reloc_lift; [|exact Rl1]. intros y Hy. eapply desc_in_closed; [apply closed_desc|exact HS0obj|exact Hy]. }
  assert (Hctx1 : ctx g1 obj GP m1 m2) by (apply (ctx_inside s g g1 obj GP m1 m2 H Hctx Rl1 Hroots1)).
  assert (Hl1 : glive g1 obj) by (apply (reloc_glive _ _ _ obj Rl1); exact Hl).
  assert (H01 : glive g1 0) by (apply (reloc_glive _ _ _ 0 Rl1); exact H0).
  pose proof (ti_R _ _ H1) as HR1.
  assert (Hsame1 : forall c y, In c l' -> desc g c y -> kids g1 y = kids g y).
  { intros c y Hc Hd. apply HF1.
    - intros Hd'. apply (Hca c Hc). apply (siblings_disjoint2 (p_tree s) g obj c argIndex y HR (Hin' c Hc) Hin Hd Hd').
    - intros ->. apply (child_not_desc _ _ HR obj c (Hin' c Hc) Hd). }
  assert (HFq1 : forall q, (forall c, In c (l' ++ [argIndex]) -> ~ desc g c q) -> q <> obj -> q <> top obj GP -> kids g1 q = kids g q).
  { intros q Hq Hqo _. apply HF1; [apply Hq; apply in_or_app; right; left; reflexivity|exact Hqo]. }
  destruct (negb (pres_eqb res ROk)).
  { apply wp_ret. exists g1, m2. split; [split; auto|]. split; [lia|]. exact HFq1. }
  (* what a rearrangement at [obj] / [argIndex] / the parent of [obj] adds *)
  assert (Hin1' : forall c, In c l' -> In c (kids g1 obj)) by (intros c Hc; rewrite Hk1; apply in_or_app; left; exact Hc).
  assert (Hin1a : In argIndex (kids g1 obj)) by (rewrite Hk1; apply in_or_app; right; left; reflexivity).
  assert (Hcomp : forall g2, others g1 g2 obj argIndex GP ->
            (forall c y, In c l' -> desc g c y -> kids g2 y = kids g y) /\
            (forall q, (forall c, In c (l' ++ [argIndex]) -> ~ desc g c q) -> q <> obj -> q <> top obj GP -> kids g2 q = kids g q)).
  { intros g2 HF2.
    assert (Hnottop : forall c y, In c l' -> desc g1 c y -> y <> top obj GP).
    { intros c y Hc Hd ->. destruct GP as [gp|]; cbn [top ctx] in *.
      - assert (Hin_o : In obj (kids g1 gp)) by (rewrite Hctx1; apply in_or_app; right; left; reflexivity).
        apply (child_not_desc _ _ HR1 gp obj Hin_o). eapply desc_trans2; [eapply desc_step; [constructor|exact (Hin1' c Hc)]|exact Hd].
      - apply (child_not_desc _ _ HR1 obj c (Hin1' c Hc) Hd). }
    assert (Hsame2 : forall c y, In c l' -> desc g1 c y -> kids g2 y = kids g1 y).
    { intros c y Hc Hd. apply HF2.
      - intros ->. apply (child_not_desc _ _ HR1 obj c (Hin1' c Hc) Hd).
      - intros ->. apply (Hca c Hc). apply (siblings_disjoint2 (p_tree s1) g1 obj c argIndex argIndex HR1 (Hin1' c Hc) Hin1a Hd). constructor.
      - apply (Hnottop c y Hc Hd). }
    split.
    - intros c y Hc Hd. rewrite (Hsame2 c y Hc); [apply (Hsame1 c y Hc Hd)|].
      apply (desc_same_fwd g g1 c y); [intros z Hz; apply (Hsame1 c z Hc Hz)|exact Hd].
    - intros q Hq Hqo Hqt. rewrite HF2; [apply HFq1; auto|exact Hqo| |exact Hqt].
      intros ->. apply (Hq argIndex); [apply in_or_app; right; left; reflexivity|constructor]. }
  (* the continuation: the previous argument *)
  assert (Hcont : forall s2 g2 r2 m2b, TI s2 g2 -> typed (p_tree s2) -> reloc g g2 S0 -> kids g2 obj = l' ++ argIndex :: r2 ->
     ctx g2 obj GP m1 m2b -> (forall r, groot g r -> groot g2 r) -> K (p_tree s2) g2 ->
     (length r2 <= length r)%nat -> (length m2b <= length m2)%nat ->
     (forall c y, In c l' -> desc g c y -> kids g2 y = kids g y) ->
     (forall q, (forall c, In c (l' ++ [argIndex]) -> ~ desc g c q) -> q <> obj -> q <> top obj GP -> kids g2 q = kids g q) ->
     wp (PL2 g (l' ++ [argIndex]) r m2 (Datatypes.S fuel)) (mlet prev <~ rdf argIndex o_prev ;; resolveCalls_loop fuel obj prev) s2
        (fun r0 s' => rlpost g obj GP m1 m2 (l' ++ [argIndex]) s')).
  { intros s2 g2 r2 m2b H2 Hty2 Rl2 Hk2 Hctx2 Hroots2 HK2 Hlr Hlm Hs12 HFq2. pose proof (ti_R _ _ H2) as HR2.
    assert (Hlo2 : glive g2 obj) by (apply (reloc_glive _ _ _ obj Rl2); exact Hl).
    destruct (sibling_links _ _ HR2 obj l' argIndex r2 Hlo2 Hk2) as (ao2 & Hao2 & _ & _ & Hprev & _).
    apply wp_bind. apply wp_rdf. exists ao2. split; [exact Hao2|]. rewrite Hprev.
    assert (H02 : glive g2 0) by (apply (reloc_glive _ _ _ 0 Rl2); exact H0).
    eapply wp_weaken; [apply (IHl obj (last l' InvalidIndex) s2 g2 GP m1 m2b l' (argIndex :: r2) H2 Hty2 H02 Hlo2 Hctx2 HK2 Hk2 eq_refl)| |].
    - intros HP m Hm. destruct (Hsplit m Hm) as (a & n & A & B & ->).
      specialize (HP a (proj2 (sz_same g g2) l' a A Hs12)). pose proof (sz_pos _ _ _ B). cbn [length] in HP. lia.
    - intros r' s' (g' & m2' & (F1 & F2 & F3 & F4 & F5 & F6) & Flen & FF). exists g', m2'.
      split; [split; [exact F1|]; split; [eapply reloc_chain; [apply closed_desc|exact HS0top|exact Rl2|exact F2]|]|].
      + split; [exact F3|]. split; [intros r0' Hr0; apply F4; apply Hroots2; exact Hr0|]. split; [exact F5|exact F6].
      + split; [lia|]. intros q Hq Hqo Hqt. rewrite FF; [apply HFq2; auto| |exact Hqo|exact Hqt].
        intros c Hc Hd. apply (Hq c); [apply in_or_app; left; exact Hc|].
        apply (desc_same g g2 c q (fun y Hy => Hs12 c y Hc Hy) Hd). }
  assert (Hla1 : glive g1 argIndex) by (apply (reloc_glive _ _ _ argIndex Rl1); exact Hla).
  destruct (sibling_links _ _ HR1 obj l' argIndex r1 Hl1 Hk1) as (ao & Hao & Hlao & Hapar & _ & _ & _).
  apply wp_bind. apply wp_rdo. exists ao. split; [exact Hao|].
  apply wp_bind, wp_get.
  destruct (negb (o_opcode ao =? aml_pOpIntNamePathOrMethodCall) || negb (o_tableHandle ao =? p_handle s1)) eqn:Ecall.
  { (* not a call candidate of this table: connectNonNamedObjArg *)
    apply wp_bind. eapply wp_weaken; [apply (arg_spec K K_move fuel obj argIndex s1 g1 l' r1 GP m1 m2 H1 Hl1 Hk1 Hctx1 HK1)| |].
    { intros HP m Hm. destruct (Hsplit m Hm) as (a & n & A & B & ->). pose proof (sz_pos _ _ _ B). lia. }
    intros r0 s2 (g2 & r2 & m2b & (H2 & Rl2 & Hctx2 & Hroots2 & Hpf2 & HK2) & Hk2 & Hlen2 & Hlenm2 & HF2).
    assert (Rl2' : reloc g g2 S0) by (eapply reloc_chain; [apply closed_desc|exact HS0top|exact Rl1'|exact Rl2]).
    assert (Hty2 : typed (p_tree s2)) by (eapply typed_pframe; eauto).
    destruct (Hcomp g2 HF2) as (Hs12 & HFq2).
    destruct (pres_eqb r0 RFailed).
    { apply wp_ret. exists g2, m2b. split; [split; [exact H2|]; split; [exact Rl2'|]; split; [exact Hctx2|];
        split; [intros r' Hr'; apply Hroots2; apply Hroots1; exact Hr'|]; split; [exact Hty2|exact HK2]|].
      split; [exact Hlenm2|exact HFq2]. }
    apply (Hcont s2 g2 r2 m2b); auto; lia. }
  (* a name path that may be a method call *)
  apply orb_false_elim in Ecall. destruct Ecall as (Eop & _). apply negb_false_iff in Eop. apply N.eqb_eq in Eop.
  destruct (Hty1 _ _ Hao Hlao Eop) as (tbl & sl & Hval). rewrite Hval.
  assert (Hsl : slice_ok (p_tables s1) tbl sl).
  { pose proof (pool_ok_get _ _ _ _ (ti_pool _ _ H1) Hao) as Hv. rewrite Hval in Hv. exact Hv. }
  destruct (slice_bytes_ok s1 tbl sl Hsl) as (expr & Eb & _).
  apply wp_bind. eapply wp_bytesOf; [exact Eb|].
  assert (Hlive_obj : live (p_tree s1) obj) by (apply (R_live_glive _ _ HR1); exact Hl1).
  assert (Hlive_0 : live (p_tree s1) 0) by (apply (R_live_glive _ _ HR1); exact H01).
  rewrite Hapar.
  pose proof (Find_spec _ _ HR1 obj expr Hlive_obj Hlive_0) as Efind.
  apply wp_bind. eapply wp_tq; [exact Efind|].
  pose proof (Find_result_live _ _ HR1 obj expr _ Hlive_obj Hlive_0 Efind) as Hres.
  set (target := enc_result (resolve g1 (name_at (p_tree s1)) obj expr)) in *.
  destruct nk_calls as (NK1 & NK2 & NK3 & NE1 & NE2 & NE3).
  assert (Hstay : forall s2, TI s2 g1 -> typed (p_tree s2) -> K (p_tree s2) g1 ->
     wp (PL2 g (l' ++ [argIndex]) r m2 (Datatypes.S fuel)) (mlet prev <~ rdf argIndex o_prev ;; resolveCalls_loop fuel obj prev) s2
        (fun r0 s' => rlpost g obj GP m1 m2 (l' ++ [argIndex]) s')).
  { intros s2 H2 Hty2 HK2. apply (Hcont s2 g1 r1 m2); auto. }
  destruct (N.eqb_spec target InvalidIndex) as [Et|Et].
  { (* not found: a plain name path *)
    apply wp_bind. eapply (wp_set_opcode _ argIndex _ s1 g1); [exact H1|exact Hla1|exact NK1|]. intros H2.
    destruct (nk_info _ NK1) as (idx & Hidx & Hinf).
    apply wp_bind. eapply wp_tableIndex; [exact Hidx|].
    apply wp_bind. eapply (wp_set_info _ argIndex idx _ g1); [exact H2|exact Hla1|exact Hinf|]. intros H3.
    apply Hstay; [exact H3| |].
    - apply typed_tset; [apply typed_tset; [exact Hty1|intros o _; exact NE1]|].
      intros o Ho. cbn [o_opcode set_infoIndex]. pcbn_in Ho. rewrite get_tset, N.eqb_refl, Hao in Ho. cbn [option_map] in Ho.
      inversion Ho. cbn [o_opcode set_opcode]. exact NE1.
    - pcbn. rewrite tset_twice. apply (K_upd _ g1 argIndex ao _ HR1 HK1 Hao Eop); cbn [o_opcode set_infoIndex set_opcode]; [vm_compute; discriminate|exact NE1]. }
  destruct Hres as [?|Hlive_t]; [contradiction|].
  assert (Hlt1 : glive g1 target) by (apply (R_live_glive _ _ HR1); exact Hlive_t).
  apply wp_bind. apply wp_objectAt'; [apply (TI_ObjectAt _ _ _ H1 Hlt1)|].
  destruct (TI_live_get _ _ _ H1 Hlt1) as (ro & Hro & Hlro).
  apply wp_bind. apply wp_rdo. exists ro. split; [exact Hro|].
  destruct (o_opcode ro =? aml_pOpMethod).
  - (* a method call *)
    apply wp_bind. eapply (wp_set_opcode _ argIndex _ s1 g1); [exact H1|exact Hla1|exact NK2|]. intros H2.
    destruct (nk_info _ NK2) as (idx & Hidx & Hinf).
    apply wp_bind. eapply wp_tableIndex; [exact Hidx|].
    apply wp_bind. eapply (wp_set_info _ argIndex idx _ g1); [exact H2|exact Hla1|exact Hinf|]. intros H3.
    apply wp_bind. eapply (wp_set_vidx _ argIndex _ _ g1); [exact H3|exact Hla1|]. intros H4.
    match type of H4 with TI ?st _ => set (s4 := st) in * end.
    assert (Hty4 : typed (p_tree s4)).
    { unfold s4. pcbn. apply typed_tset; [apply typed_tset; [apply typed_tset; [exact Hty1|intros o _; exact NE2]|]|].
      - intros o Ho. cbn [o_opcode set_infoIndex]. rewrite get_tset, N.eqb_refl, Hao in Ho. cbn [option_map] in Ho. inversion Ho. exact NE2.
      - intros o Ho. cbn [o_opcode set_value]. rewrite !get_tset, !N.eqb_refl, Hao in Ho. cbn [option_map] in Ho. inversion Ho. exact NE2. }
    assert (HK4 : K (p_tree s4) g1).
    { unfold s4. pcbn. rewrite !tset_twice. apply (K_upd _ g1 argIndex ao _ HR1 HK1 Hao Eop); cbn [o_opcode set_infoIndex set_opcode set_value]; [vm_compute; discriminate|exact NE2]. }
    assert (Hend4 : forall (PP : Prop) (rr : pres), wp PP (ret rr) s4 (fun r0 s' => rlpost g obj GP m1 m2 (l' ++ [argIndex]) s')).
    { intros PP rr. apply wp_ret. exists g1, m2. split; [split; auto|]. split; [lia|exact HFq1]. }
    pose proof (ti_R _ _ H4) as HR4.
    assert (Hlive_t4 : live (p_tree s4) target) by (apply (R_live_glive _ _ HR4); exact Hlt1).
    apply wp_bind. eapply wp_tq; [apply (ArgAt_spec _ _ HR4 target 1 Hlive_t4)|].
    destruct (nth_error (kids g1 target) (N.to_nat 1)) as [fo|] eqn:Efo.
    2:{ apply Hend4. }
    assert (Hlfo : glive g1 fo) by (apply ((R_gwf _ _ HR4) target fo); eapply nth_error_In; eauto).
    destruct (TI_live_get _ _ _ H4 Hlfo) as (fobj & Hfobj & _).
    apply wp_bind. apply wp_rdo. exists fobj. split; [exact Hfobj|].
    destruct (o_value fobj) as [[argCnt|? ?|?|?]|]; try (apply Hend4; fail).
    apply wp_bind. unfold attachSiblingsAsArgs.
    destruct (sibling_links _ _ HR4 obj l' argIndex r1 Hl1 Hk1) as (ao4 & Hao4 & _ & _ & _ & Hnx4 & _).
    apply wp_bind. apply wp_rdf. exists ao4. split; [exact Hao4|]. rewrite Hnx4.
    eapply wp_weaken; [apply (attach2_spec K K_move fuel obj argIndex (hd InvalidIndex r1) _ s4 g1 l' r1 GP m1 m2 H4 Hl1 Hk1 Hctx1)| |].
    + destruct r1 as [|y r1']; cbn [sib_ok hd]; [left|]; reflexivity.
    + exact HK4.
    + exists ao4. split; [exact Hao4|]. unfold s4 in Hao4. pcbn_in Hao4. rewrite !get_tset, !N.eqb_refl, Hao in Hao4. cbn [option_map] in Hao4.
      inversion Hao4. cbn [o_infoIndex set_value set_infoIndex]. intros E. rewrite E in Hidx. vm_compute in Hidx. discriminate.
    + intros HP m Hm. destruct (Hsplit m Hm) as (a & n & A & B & ->). pose proof (sz_pos _ _ _ B). lia.
    + intros r0 s5 (g5 & r5 & m2b & H5 & Rl5 & Hk5 & Hctx5 & Hroots5 & Hpf5 & HK5 & Hlen5 & Hlenm5 & HF5).
      assert (Rl5' : reloc g g5 S0) by (eapply reloc_chain; [apply closed_desc|exact HS0top|exact Rl1'|exact Rl5]).
      assert (Hty5 : typed (p_tree s5)) by (eapply typed_pframe; eauto).
      destruct (Hcomp g5 HF5) as (Hs15 & HFq5).
      destruct (negb (pres_eqb r0 ROk)).
      { apply wp_ret. exists g5, m2b. split; [split; [exact H5|]; split; [exact Rl5'|]; split; [exact Hctx5|];
          split; [intros r' Hr'; apply Hroots5; apply Hroots1; exact Hr'|]; split; [exact Hty5|exact HK5]|].
        split; [exact Hlenm5|exact HFq5]. }
      apply (Hcont s5 g5 r5 m2b); auto; try lia.
  - (* a reference to another object *)
    apply wp_bind. eapply (wp_set_opcode _ argIndex _ s1 g1); [exact H1|exact Hla1|exact NK3|]. intros H2.
    destruct (nk_info _ NK3) as (idx & Hidx & Hinf).
    apply wp_bind. eapply wp_tableIndex; [exact Hidx|].
    apply wp_bind. eapply (wp_set_info _ argIndex idx _ g1); [exact H2|exact Hla1|exact Hinf|]. intros H3.
    apply wp_bind. eapply (wp_set_vidx _ argIndex _ _ g1); [exact H3|exact Hla1|]. intros H4.
    apply Hstay; [exact H4| |].
    + pcbn. apply typed_tset; [apply typed_tset; [apply typed_tset; [exact Hty1|intros o _; exact NE3]|]|].
      * intros o Ho. cbn [o_opcode set_infoIndex]. rewrite get_tset, N.eqb_refl, Hao in Ho. cbn [option_map] in Ho. inversion Ho. exact NE3.
      * intros o Ho. cbn [o_opcode set_value]. rewrite !get_tset, !N.eqb_refl, Hao in Ho. cbn [option_map] in Ho. inversion Ho. exact NE3.
    + pcbn. rewrite !tset_twice. apply (K_upd _ g1 argIndex ao _ HR1 HK1 Hao Eop); cbn [o_opcode set_infoIndex set_opcode set_value]; [vm_compute; discriminate|exact NE3].
Qed.

Lemma calls_all : forall fuel, RC_spec fuel /\ RCloop_spec fuel.
Proof.
  induction fuel as [|fuel (IHc & IHl)].
  - split; intro; intros; cbn [resolveMethodCalls resolveCalls_loop]; apply wp_outOfFuel.
    + intros n Hn. pose proof (sz_pos _ _ _ Hn). lia.
    + intros m Hm. lia.
  - split; [apply step_RC; exact IHl|apply step_RCloop; assumption].
Qed.
End Inv.

Lemma KT_upd : Kupd KT.
Proof. unfold Kupd. intros. exact I. Qed.

Theorem resolveMethodCalls_never_panics : forall fuel s g,
  R (p_tree s) g -> info_valid (p_tree s) -> pool_ok (p_tables s) (p_tree s) -> typed (p_tree s) ->
  glive g 0 -> groot g 0 ->
  match resolveMethodCalls fuel 0 s with
  | Ok (_, s') => exists g', R (p_tree s') g' /\ info_valid (p_tree s') /\ pool_ok (p_tables s') (p_tree s') /\ typed (p_tree s')
  | Panic => False
  | OutOfFuel => True
  end.
Proof.
  intros fuel s g HR Hi Hp Hty H0 Hroot.
  pose proof (proj1 (calls_all KT KT_move KT_upd fuel) 0 s g None [] [] (mkTI _ _ HR Hi Hp) Hty H0 H0 (conj Hroot eq_refl) I) as W. unfold wp in W.
  destruct (resolveMethodCalls fuel 0 s) as [[r s']| |]; auto.
  destruct W as (g' & m2' & ([A B C] & _ & _ & _ & D & _) & _). eauto.
Qed.

(** the hypotheses are satisfiable: a state whose pool holds just a root scope *)
Lemma last_passes_hyps_example :
  exists (s : pstate) (g : ghost),
    R (p_tree s) g /\ info_valid (p_tree s) /\ pool_ok (p_tables s) (p_tree s) /\ typed (p_tree s) /\ glive g 0 /\ groot g 0.
Proof.
  assert (Hnk : newok opScope) by (apply newokb_sound; reflexivity).
  destruct Hnk as (Hnf & Hmaps & i0 & Hi0 & Hinfo).
  destruct (newObject_R (@NewObjectTree value) ghost0 opScope 0 R_empty) as (t' & p & E & HR' & _ & Hp).
  { split; auto. split; auto. intros _. cbn. pose proof Inv_val. lia. }
  destruct (newObject_shape _ _ _ _ _ E) as ((po & Hpo & Hop & Hidx & _ & Hval) & _ & Hbw & Hl1 & _).
  destruct (new_slot_fresh (@NewObjectTree value) ghost0 opScope 0 R_empty) as (_ & F2 & _ & F4).
  cbn [g_free ghost0] in Hp. cbn [NewObjectTree t_pool length] in Hp, Hl1. change (N.of_nat 0) with 0 in Hp. subst p.
  assert (Hall : forall i o, tget t' i = Some o -> i = 0 /\ o = po).
  { intros i o Hg. destruct (N.eqb_spec i 0) as [->|Hne]; [split; congruence|].
    specialize (Hbw i o Hne Hg). unfold TreeSpec.get in Hbw. cbn [NewObjectTree t_pool] in Hbw. destruct (N.to_nat i); discriminate. }
  exists (mkP (init_reader [] 0) t' [] [] 0 0 0 0 false 1 []), (astep ghost0 (OpNew opScope 0)).
  cbn [p_tree p_tables].
  split; [exact HR'|]. split; [|split; [|split; [|split; [exact F2|exact F4]]]].
  - intros i o Hg Hl. destruct (Hall i o Hg) as (-> & ->). rewrite pOpcodeTableIndex_eq, Hi0 in Hidx. inversion Hidx as [Hii].
    rewrite <- Hii. exact Hinfo.
  - unfold pool_ok. rewrite Forall_forall. intros o Hin. destruct (In_nth_error _ _ Hin) as (n & Hn).
    assert (Hg : tget t' (N.of_nat n) = Some o) by (unfold TreeSpec.get; rewrite Nat2N.id; exact Hn).
    destruct (Hall _ _ Hg) as (_ & ->). rewrite Hval. exact I.
  - intros i o Hg Hl Hop'. destruct (Hall i o Hg) as (_ & ->). rewrite Hop in Hop'. discriminate Hop'.
Qed.
