(** C11 (fragment proofs): describing a part of the pool by a tree of (slot, payload) nodes.

    [Desc g pl r]: the forest [g] and the payload list [pl] contain the tree [r]: every node has the given
    payload and its child list is the list of the roots of the sub-trees.  Frame lemma, lookup of a node, and the
    fuel the tree walks need in terms of the size of the tree. *)
From Coq Require Import NArith ZArith Arith List Bool Lia.
From Coq Require Import ZifyBool ZifyN ZifyNat.
From FF Require Import Lib.Word Gen.Consts_device_acpi_aml Gen.Consts_aml_tree Aml.Stream Aml.Lex
  Aml.Tree Aml.TreeSpec Aml.TreeProofs Aml.Parser
  Aml.ParserTotalBase Aml.ParserFragBase Aml.ParserFragWalk.
Import ListNotations.
Local Open Scope N_scope.

Ltac Zify.zify_post_hook ::= Z.div_mod_to_equations.

Inductive rose : Type := RN (i : N) (a : pay) (ks : list rose).

Definition ridx (r : rose) : N := match r with RN i _ _ => i end.
Definition rpay (r : rose) : pay := match r with RN _ a _ => a end.
Definition rkids (r : rose) : list rose := match r with RN _ _ ks => ks end.

Fixpoint rsize (r : rose) : nat :=
  match r with RN _ _ ks => S ((fix go (l : list rose) : nat := match l with [] => O | x :: t => (rsize x + go t)%nat end) ks) end.
Definition rsizes (l : list rose) : nat := fold_right (fun x n => (rsize x + n)%nat) O l.

Lemma rsize_eq i a ks : rsize (RN i a ks) = S (rsizes ks).
Proof. reflexivity. Qed.

Lemma rsize_pos r : (1 <= rsize r)%nat.
Proof. destruct r. rewrite rsize_eq. lia. Qed.

Fixpoint rnodes (r : rose) : list N :=
  match r with RN i _ ks => i :: (fix go (l : list rose) : list N := match l with [] => [] | x :: t => rnodes x ++ go t end) ks end.
Definition rnodesl (l : list rose) : list N := flat_map rnodes l.

Lemma rnodes_eq i a ks : rnodes (RN i a ks) = i :: rnodesl ks.
Proof. reflexivity. Qed.

(** induction over trees *)
Lemma rose_ind2 (P : rose -> Prop) :
  (forall i a ks, Forall P ks -> P (RN i a ks)) -> forall r, P r.
Proof.
  intros Hn. fix IH 1. intros [i a ks]. apply Hn.
  induction ks as [|x t IHt]; constructor; [apply IH|exact IHt].
Qed.

Section Desc.
Variable g : ghost.
Variable pl : list pay.

Inductive Desc : rose -> Prop :=
| Desc_node i a ks : pget pl i = Some a -> kids g i = map ridx ks -> Forall Desc ks -> Desc (RN i a ks).

Lemma Desc_inv i a ks : Desc (RN i a ks) -> pget pl i = Some a /\ kids g i = map ridx ks /\ Forall Desc ks.
Proof. intros H. inversion H; subst. auto. Qed.

(** every node of a described tree is the root of a described sub-tree *)
Lemma Desc_lookup : forall r, Desc r -> forall x, In x (rnodes r) -> exists a ks, Desc (RN x a ks).
Proof.
  induction r as [i a ks IH] using rose_ind2. intros Hd x Hx. destruct (Desc_inv _ _ _ Hd) as (Hp & Hk & Hks).
  rewrite rnodes_eq in Hx. destruct Hx as [<-|Hx]; [exists a, ks; exact Hd|].
  unfold rnodesl in Hx. apply in_flat_map in Hx. destruct Hx as (c & Hc & Hxc).
  rewrite Forall_forall in IH, Hks. apply (IH c Hc (Hks c Hc) x Hxc).
Qed.
End Desc.

(** frame: a description survives changes outside its nodes *)
Lemma Desc_frame g pl g' pl' : forall r, Desc g pl r ->
  (forall x, In x (rnodes r) -> kids g' x = kids g x /\ pget pl' x = pget pl x) -> Desc g' pl' r.
Proof.
  induction r as [i a ks IH] using rose_ind2. intros Hd Hf. destruct (Desc_inv _ _ _ _ _ Hd) as (Hp & Hk & Hks).
  destruct (Hf i) as (E1 & E2); [rewrite rnodes_eq; left; reflexivity|].
  constructor; [rewrite E2; exact Hp|rewrite E1; exact Hk|].
  rewrite Forall_forall in IH, Hks |- *. intros c Hc. apply (IH c Hc (Hks c Hc)).
  intros x Hx. apply Hf. rewrite rnodes_eq. right. unfold rnodesl. apply in_flat_map. exists c. auto.
Qed.

Lemma Desc_frame_l g pl g' pl' (l : list rose) : Forall (Desc g pl) l ->
  (forall x, In x (rnodesl l) -> kids g' x = kids g x /\ pget pl' x = pget pl x) -> Forall (Desc g' pl') l.
Proof.
  intros Hl Hf. rewrite Forall_forall in Hl |- *. intros c Hc. apply (Desc_frame g pl); [apply Hl; exact Hc|].
  intros x Hx. apply Hf. unfold rnodesl. apply in_flat_map. exists c. auto.
Qed.

(** ---- fuel of the walks in terms of the size ---- *)
Lemma fwalk_size g pl : forall r, Desc g pl r -> forall f, (3 * rsize r <= f)%nat -> fwalk g f (ridx r).
Proof.
  induction r as [i a ks IH] using rose_ind2. intros Hd f Hf. destruct (Desc_inv _ _ _ _ _ Hd) as (_ & Hk & Hks).
  rewrite rsize_eq in Hf. destruct f as [|f1]; [lia|]. cbn [fwalk ridx]. rewrite Hk.
  assert (HL : forall l f1, Forall (fun r => Desc g pl r -> forall f, (3 * rsize r <= f)%nat -> fwalk g f (ridx r)) l ->
             Forall (Desc g pl) l -> (3 * rsizes l + 1 <= f1)%nat -> floop g f1 (map ridx l)).
  { clear. induction l as [|c r IHl]; intros f2 HI HD Hf2; (destruct f2 as [|f3]; [lia|]); cbn [floop map]; [exact I|].
    inversion HI; subst. inversion HD; subst. cbn [rsizes fold_right length] in Hf2. fold (rsizes r) in Hf2.
    pose proof (rsize_pos c).
    split; [apply H1; [assumption|lia]|apply IHl; [assumption|assumption|lia]]. }
  apply HL; [exact IH|exact Hks|]. lia.
Qed.

Lemma rsizes_rev l : rsizes (rev l) = rsizes l.
Proof.
  induction l as [|x t IH]; [reflexivity|]. cbn [rev]. unfold rsizes in *. rewrite fold_right_app. cbn [fold_right].
  rewrite <- IH. clear. generalize (rsize x). induction (rev t) as [|y l IHl]; intros n; cbn [fold_right]; [lia|]. rewrite IHl. lia.
Qed.

Lemma fwalkb_size g pl : forall r, Desc g pl r -> forall f, (3 * rsize r <= f)%nat -> fwalkb g f (ridx r).
Proof.
  induction r as [i a ks IH] using rose_ind2. intros Hd f Hf. destruct (Desc_inv _ _ _ _ _ Hd) as (_ & Hk & Hks).
  rewrite rsize_eq in Hf. destruct f as [|f1]; [lia|]. cbn [fwalkb ridx]. rewrite Hk, <- map_rev.
  assert (HL : forall l f1, Forall (fun r => Desc g pl r -> forall f, (3 * rsize r <= f)%nat -> fwalkb g f (ridx r)) l ->
             Forall (Desc g pl) l -> (3 * rsizes l + 1 <= f1)%nat -> floopb g f1 (map ridx l)).
  { clear. induction l as [|c r IHl]; intros f2 HI HD Hf2; (destruct f2 as [|f3]; [lia|]); cbn [floopb map]; [exact I|].
    inversion HI; subst. inversion HD; subst. cbn [rsizes fold_right length] in Hf2. fold (rsizes r) in Hf2.
    pose proof (rsize_pos c).
    split; [apply H1; [assumption|lia]|apply IHl; [assumption|assumption|lia]]. }
  apply HL; [apply Forall_rev; exact IH|apply Forall_rev; exact Hks|].
  rewrite rsizes_rev. lia.
Qed.

(** a property of all nodes *)
Fixpoint rall (P : N -> pay -> list N -> Prop) (r : rose) : Prop :=
  match r with RN i a ks => P i a (map ridx ks) /\ (fix go (l : list rose) : Prop := match l with [] => True | x :: t => rall P x /\ go t end) ks end.
Definition ralll (P : N -> pay -> list N -> Prop) (l : list rose) : Prop := Forall (rall P) l.

Lemma rall_eq P i a ks : rall P (RN i a ks) <-> P i a (map ridx ks) /\ ralll P ks.
Proof.
  cbn [rall]. unfold ralll.
  assert (E : (fix go (l : list rose) : Prop := match l with [] => True | x :: t => rall P x /\ go t end) ks <-> Forall (rall P) ks).
  { clear. induction ks as [|x t IH].
    - split; intros _; [constructor|exact I].
    - split; intros H.
      + destruct H as [H1 H2]. constructor; [exact H1|apply IH; exact H2].
      + inversion H; subst. split; [assumption|]. apply IH. assumption. }
  rewrite E. reflexivity.
Qed.

Lemma rall_lookup g pl P : forall r, Desc g pl r -> rall P r -> forall x, In x (rnodes r) ->
  exists a, pget pl x = Some a /\ P x a (kids g x).
Proof.
  induction r as [i a ks IH] using rose_ind2. intros Hd Ha x Hx. destruct (Desc_inv _ _ _ _ _ Hd) as (Hp & Hk & Hks).
  apply rall_eq in Ha. destruct Ha as (Hpi & Hal).
  rewrite rnodes_eq in Hx. destruct Hx as [<-|Hx]; [exists a; split; [exact Hp|rewrite Hk; exact Hpi]|].
  unfold rnodesl in Hx. apply in_flat_map in Hx. destruct Hx as (c & Hc & Hxc).
  unfold ralll in Hal. rewrite Forall_forall in IH, Hks, Hal. apply (IH c Hc (Hks c Hc) (Hal c Hc) x Hxc).
Qed.

(** a property of all sub-trees *)
Inductive rallr (P : rose -> Prop) : rose -> Prop :=
| rallr_node i a ks : P (RN i a ks) -> Forall (rallr P) ks -> rallr P (RN i a ks).

Lemma rallr_inv P i a ks : rallr P (RN i a ks) -> P (RN i a ks) /\ Forall (rallr P) ks.
Proof. intros H. inversion H; subst. auto. Qed.

Lemma rallr_lookup g pl P : forall r, Desc g pl r -> rallr P r -> forall x, In x (rnodes r) ->
  exists a ks, Desc g pl (RN x a ks) /\ P (RN x a ks).
Proof.
  induction r as [i a ks IH] using rose_ind2. intros Hd Ha x Hx. destruct (Desc_inv _ _ _ _ _ Hd) as (Hp & Hk & Hks).
  apply rallr_inv in Ha. destruct Ha as (Hpi & Hal).
  rewrite rnodes_eq in Hx. destruct Hx as [<-|Hx]; [exists a, ks; auto|].
  unfold rnodesl in Hx. apply in_flat_map in Hx. destruct Hx as (c & Hc & Hxc).
  rewrite Forall_forall in IH, Hks, Hal. apply (IH c Hc (Hks c Hc) (Hal c Hc) x Hxc).
Qed.
