(** Find of obj_tree.go: the hand-written model (Aml/Tree.v: [Find], [find_carets], [find_upward], [find_sibling]) equals the
    Go -> Gallina translation (Gen/Trans_aml_tree.v).  Continuation of Aml/TreeTransF.v (findRelative), same method: the
    regenerated term is compared by [reflexivity] ([Find_unfold]) with a structured copy of itself ([fd_sib], [fd_up],
    [fd_caret], [fd_main]; the byte loop is [fr_byte] of TreeTransF.v with the identity as index function); the sibling loop
    is [find_sibling] ([fsib_loop]), the upward loop [find_upward] ([up_loop]), the '^' loop [find_carets] with the invariant
    "the model's remaining list is [skipn startIndex expr]" ([caret_loop]); the switch of Find is the model's case analysis. *)
From Coq Require Import NArith PeanoNat List Bool Lia ZArith.
From Coq Require Import ZifyBool ZifyN ZifyNat.
From FF Require Import Lib.Word Lib.GoOps Lib.GoPool Gen.Consts_aml_tree Gen.Trans_aml_tree Aml.Stream Aml.Tree Aml.TreeTrans Aml.TreeTransF.
Import ListNotations.
Local Open Scope N_scope.
Local Open Scope bool_scope.
Ltac Zify.zify_post_hook ::= Z.div_mod_to_equations.

Section G.
Context {V : Type}.
Notation Obj := (Object V).
Notation Tree := (ObjectTree V).
Local Notation go_aml_ObjectTree := (@FF.Gen.Trans_aml_tree.go_aml_ObjectTree V).

Definition fd_sib (fuel : nat) (v_expr : list N)
  : (go_aml_ObjectTree * bool * N) -> gres (gctl (go_aml_ObjectTree * bool * N) (go_aml_ObjectTree * N)) :=
  (fun st : (go_aml_ObjectTree * bool * N)%type => let '(v_tree, v_cont_checkNextSibling, v_nextIndex) := st in
  if (negb (v_nextIndex =? tree_InvalidIndex))
  then (match go_aml_ObjectTree_ObjectAt v_tree v_nextIndex with GPanic => GPanic | GFuel => GFuel | GOk (v_tree, t13) =>
  let v_obj := t13 in
  let v_cont_checkNextSibling := false in
  let v_byteIndex := (gw 64 (0)%N) in
  match gloop (R := (go_aml_ObjectTree * N)%type) fuel (fr_byte v_expr (fun b => b) v_obj) (v_tree, v_byteIndex, v_cont_checkNextSibling) with
  | GPanic => GPanic | GFuel => GFuel
  | GOk (inr r) => (GOk (GRet r))
  | GOk (inl st) => let '(v_tree, v_byteIndex, v_cont_checkNextSibling) := st in
  if v_cont_checkNextSibling
  then (match go_aml_ObjectTree_ObjectAt v_tree v_nextIndex with GPanic => GPanic | GFuel => GFuel | GOk (v_tree, t17) =>
  match gderef (f_ObjectTree_objPool v_tree) t17 with None => GPanic | Some t18 =>
  let v_nextIndex := (f_Object_nextSiblingIndex t18) in
  (GOk (GNext (v_tree, v_cont_checkNextSibling, v_nextIndex))) end end)
  else (match gderef (f_ObjectTree_objPool v_tree) v_obj with None => GPanic | Some t19 =>
  (GOk (GRet (v_tree, (f_Object_index t19)))) end)
  end end)
  else ((GOk (GBreak (v_tree, v_cont_checkNextSibling, v_nextIndex))))).

Definition fd_up (fuel : nat) (v_expr : list N)
  : (go_aml_ObjectTree * N) -> gres (gctl (go_aml_ObjectTree * N) (go_aml_ObjectTree * N)) :=
  (fun st : (go_aml_ObjectTree * N)%type => let '(v_tree, v_nextScopeIndex) := st in
  if (negb (v_nextScopeIndex =? tree_InvalidIndex))
  then (match go_aml_ObjectTree_ObjectAt v_tree v_nextScopeIndex with GPanic => GPanic | GFuel => GFuel | GOk (v_tree, t11) =>
  let v_scopeObj := t11 in
  let v_cont_checkNextSibling := false in
  match gderef (f_ObjectTree_objPool v_tree) v_scopeObj with None => GPanic | Some t12 =>
  let v_nextIndex := (f_Object_firstArgIndex t12) in
  match gloop (R := (go_aml_ObjectTree * N)%type) fuel (fd_sib fuel v_expr) (v_tree, v_cont_checkNextSibling, v_nextIndex) with
  | GPanic => GPanic | GFuel => GFuel
  | GOk (inr r) => (GOk (GRet r))
  | GOk (inl st) => let '(v_tree, v_cont_checkNextSibling, v_nextIndex) := st in
  match go_aml_ObjectTree_ObjectAt v_tree v_nextScopeIndex with GPanic => GPanic | GFuel => GFuel | GOk (v_tree, t20) =>
  match gderef (f_ObjectTree_objPool v_tree) t20 with None => GPanic | Some t21 =>
  let v_nextScopeIndex := (f_Object_parentIndex t21) in
  (GOk (GNext (v_tree, v_nextScopeIndex))) end end
  end end end)
  else ((GOk (GBreak (v_tree, v_nextScopeIndex))))).

Definition fd_caret (fuel : nat) (v_expr : list N) (v_exprLen : N)
  : (go_aml_ObjectTree * N * N) -> gres (gctl (go_aml_ObjectTree * N * N) (go_aml_ObjectTree * N)) :=
  (fun st : (go_aml_ObjectTree * N * N)%type => let '(v_tree, v_scopeIndex, v_startIndex) := st in
  if (gslt 64 v_startIndex v_exprLen)
  then (match gidxs 64 v_expr v_startIndex with None => GPanic | Some t5 =>
  let v_sw1 := t5 in
  if (v_sw1 =? (94)%N)
  then (match go_aml_ObjectTree_ObjectAt v_tree v_scopeIndex with GPanic => GPanic | GFuel => GFuel | GOk (v_tree, t6) =>
  match gderef (f_ObjectTree_objPool v_tree) t6 with None => GPanic | Some t7 =>
  let v_scopeIndex := (f_Object_parentIndex t7) in
  if (v_scopeIndex =? tree_InvalidIndex)
  then ((GOk (GRet (v_tree, tree_InvalidIndex))))
  else (let v_startIndex := (gw 64 (v_startIndex + 1)) in
  (GOk (GNext (v_tree, v_scopeIndex, v_startIndex)))) end end)
  else (match gslices 64 v_expr v_startIndex (glen v_expr) with None => GPanic | Some t8 =>
  match go_aml_ObjectTree_findRelative fuel v_tree v_scopeIndex t8 with GPanic => GPanic | GFuel => GFuel | GOk (v_tree, t9) =>
  (GOk (GRet (v_tree, t9))) end end) end)
  else ((GOk (GBreak (v_tree, v_scopeIndex, v_startIndex))))).

Definition fd_main (fuel : nat) (v_tree : go_aml_ObjectTree) (v_scopeIndex : N) (v_expr : list N) : gres (go_aml_ObjectTree * N) :=
  let v_exprLen := (glen v_expr) in
  if ((v_exprLen =? (0)%N) || (v_scopeIndex =? tree_InvalidIndex))
  then ((GOk (v_tree, tree_InvalidIndex)))
  else (match gidx v_expr (0)%N with None => GPanic | Some t1 =>
  if (t1 =? (92)%N)
  then (if (v_exprLen =? (1)%N)
  then ((GOk (v_tree, (gw 32 (0)%N))))
  else (match gslice v_expr (1)%N (glen v_expr) with None => GPanic | Some t2 =>
  match go_aml_ObjectTree_findRelative fuel v_tree (0)%N t2 with GPanic => GPanic | GFuel => GFuel | GOk (v_tree, t3) =>
  (GOk (v_tree, t3)) end end))
  else (match gidx v_expr (0)%N with None => GPanic | Some t4 =>
  if (t4 =? (94)%N)
  then (let v_startIndex := (gw 64 (0)%N) in
  match gloop (R := (go_aml_ObjectTree * N)%type) fuel (fd_caret fuel v_expr v_exprLen) (v_tree, v_scopeIndex, v_startIndex) with
  | GPanic => GPanic | GFuel => GFuel
  | GOk (inr r) => (GOk r)
  | GOk (inl st) => let '(v_tree, v_scopeIndex, v_startIndex) := st in
  (GOk (v_tree, v_scopeIndex))
  end)
  else (if (gslt 64 tree_amlNameLen v_exprLen)
  then (match go_aml_ObjectTree_findRelative fuel v_tree v_scopeIndex v_expr with GPanic => GPanic | GFuel => GFuel | GOk (v_tree, t10) =>
  (GOk (v_tree, t10)) end)
  else (if (v_exprLen =? tree_amlNameLen)
  then (let v_nextScopeIndex := v_scopeIndex in
  match gloop (R := (go_aml_ObjectTree * N)%type) fuel (fd_up fuel v_expr) (v_tree, v_nextScopeIndex) with
  | GPanic => GPanic | GFuel => GFuel
  | GOk (inr r) => (GOk r)
  | GOk (inl st) => let '(v_tree, v_nextScopeIndex) := st in
  (GOk (v_tree, tree_InvalidIndex))
  end)
  else ((GOk (v_tree, tree_InvalidIndex))))) end) end).

Lemma Find_unfold : forall fuel g scope expr,
  go_aml_ObjectTree_Find fuel g scope expr = fd_main fuel g scope expr.
Proof. reflexivity. Qed.

(** ---- the sibling loop of Find (returns obj.index on a match) against [find_sibling] ---- *)
Definition fsib_expected (t : Tree) (ccs' : bool) (r : outcome (option N))
  : gres ((go_aml_ObjectTree * bool * N) + (go_aml_ObjectTree * N)) :=
  match r with
  | Ok None => GOk (inl (tr_tree t, ccs', tree_InvalidIndex))
  | Ok (Some c) => match deref t c with Ok o => GOk (inr (tr_tree t, o_index o)) | _ => GPanic end
  | Panic => GPanic
  | OutOfFuel => GFuel
  end.

Lemma fsib_loop : forall (t : Tree) expr b0 b1 b2 b3 fuel,
  (5 <= fuel)%nat -> expr = [b0; b1; b2; b3] ->
  forall f ccs next,
  exists ccs', gloop f (fd_sib fuel expr) (tr_tree t, ccs, next) =
               fsib_expected t ccs' (find_sibling f t next (b0, b1, b2, b3)).
Proof.
  intros t expr b0 b1 b2 b3 fuel Hf ->.
  induction f as [|f IH]; intros ccs next; [exists false; reflexivity|].
  cbn [find_sibling]. rewrite gloop_S. unfold fd_sib at 1. unfold InvalidIndex.
  destruct (next =? tree_InvalidIndex) eqn:E; cbn [negb].
  - apply N.eqb_eq in E. subst next. exists ccs; reflexivity.
  - rewrite ObjectAt_is_translation. unfold ObjectAt_deref.
    destruct (ObjectAt t next) as [p|] eqn:OA; cbn [bind].
    + destruct (ObjectAt_some _ _ _ OA) as [-> [o D]]. rewrite D. cbn [bind].
      cbv zeta. change (gw 64 0) with 0.
      destruct (byte_loop t [b0; b1; b2; b3] (fun b => b) next o b0 b1 b2 b3 fuel D) as [bi BL];
        try reflexivity; trivial.
      rewrite BL. cbv iota beta.
      destruct (name_eqb (b0, b1, b2, b3) (o_name o)); cbn [negb].
      * exists false. rewrite gderef_tr, D. cbn [fsib_expected]. rewrite D. reflexivity.
      * rewrite ObjectAt_is_translation, OA, gderef_tr, D.
        change (f_Object_nextSiblingIndex (tr_obj o)) with (o_next o).
        apply IH.
    + cbv zeta. change (gw 64 0) with 0. exists false.
      rewrite (byte_loop_nil (tr_tree t) [b0; b1; b2; b3] (fun b => b) b0 fuel); trivial; try reflexivity. lia.
Qed.

(** ---- the model with the fuels as parameters ---- *)
Fixpoint find_upward_f (fs : nat) (fuel : nat) (t : Tree) (nextScopeIndex : N) (nm : Name) : outcome N :=
  match fuel with
  | O => OutOfFuel
  | S fuel =>
      if nextScopeIndex =? InvalidIndex then Ok InvalidIndex
      else
        do scopeObj <- ObjectAt_deref t nextScopeIndex;
        do first <- rd t scopeObj o_first;
        do r <- find_sibling fs t first nm;
        match r with
        | Some c => rd t c o_index
        | None => do par <- rd t scopeObj o_parent; find_upward_f fs fuel t par nm
        end
  end.

Lemma find_upward_f_chain : forall (t : Tree) fuel s nm,
  find_upward_f (chain_fuel t) fuel t s nm = find_upward fuel t s nm.
Proof.
  intros t. induction fuel as [|fuel IH]; intros s nm; [reflexivity|]. cbn [find_upward_f find_upward].
  destruct (s =? InvalidIndex); [reflexivity|].
  destruct (ObjectAt_deref t s); cbn [bind]; try reflexivity.
  destruct (rd t a o_first); cbn [bind]; try reflexivity.
  destruct (find_sibling (chain_fuel t) t a0 nm) as [[c|]| |]; cbn [bind]; try reflexivity.
  destruct (rd t a o_parent); cbn [bind]; try reflexivity. apply IH.
Qed.

Definition fd_up_post (x : gres ((go_aml_ObjectTree * N) + (go_aml_ObjectTree * N))) : gres (go_aml_ObjectTree * N) :=
  match x with
  | GPanic => GPanic | GFuel => GFuel
  | GOk (inr r) => GOk r
  | GOk (inl st) => let '(g, _) := st in GOk (g, tree_InvalidIndex)
  end.

Lemma up_loop : forall (t : Tree) expr b0 b1 b2 b3 fuel,
  (5 <= fuel)%nat -> expr = [b0; b1; b2; b3] ->
  forall f s,
  fd_up_post (gloop f (fd_up fuel expr) (tr_tree t, s)) =
  lift (fun r => (tr_tree t, r)) (find_upward_f fuel f t s (b0, b1, b2, b3)).
Proof.
  intros t expr b0 b1 b2 b3 fuel Hf He.
  induction f as [|f IH]; intros s; [reflexivity|].
  cbn [find_upward_f]. rewrite gloop_S. unfold fd_up at 1. unfold InvalidIndex.
  destruct (s =? tree_InvalidIndex) eqn:E; cbn [negb]; [reflexivity|].
  rewrite ObjectAt_is_translation. unfold ObjectAt_deref, rd.
  destruct (ObjectAt t s) as [p|] eqn:OA; cbn [bind lift]; [|reflexivity].
  destruct (ObjectAt_some _ _ _ OA) as [-> [o D]]. cbv zeta. rewrite gderef_tr, D. cbn [bind].
  change (f_Object_firstArgIndex (tr_obj o)) with (o_first o).
  destruct (fsib_loop t expr b0 b1 b2 b3 fuel Hf He fuel false (o_first o)) as [ccs' SL]. rewrite SL.
  destruct (find_sibling fuel t (o_first o) (b0, b1, b2, b3)) as [[c|]| |]; cbn [fsib_expected bind lift]; try reflexivity.
  - destruct (deref t c) as [oc| |] eqn:Dc; [reflexivity | reflexivity | exfalso; exact (deref_not_fuel _ _ Dc)].
  - cbv iota beta. rewrite ObjectAt_is_translation, OA, gderef_tr, D.
    change (f_Object_parentIndex (tr_obj o)) with (o_parent o). apply IH.
Qed.

(** ---- the '^' loop of Find against [find_carets] ---- *)
Fixpoint find_carets_f (f : nat) (t : Tree) (scopeIndex : N) (expr : list N) : outcome N :=
  match expr with
  | [] => Ok scopeIndex
  | b :: rest =>
      if b =? 0x5e then
        do s <- ObjectAt_deref t scopeIndex;
        do par <- rd t s o_parent;
        if par =? InvalidIndex then Ok InvalidIndex else find_carets_f f t par rest
      else findRelative_go_f f false t scopeIndex expr
  end.

Lemma find_carets_f_chain : forall (t : Tree) l s, find_carets_f (chain_fuel t) t s l = find_carets t s l.
Proof.
  intros t. induction l as [|b r IH]; intros s; [reflexivity|]. cbn [find_carets_f find_carets].
  destruct (b =? 94).
  - destruct (ObjectAt_deref t s); cbn [bind]; try reflexivity.
    destruct (rd t a o_parent); cbn [bind]; try reflexivity.
    destruct (a0 =? InvalidIndex); [reflexivity|apply IH].
  - unfold findRelative. apply (findRelative_go_f_chain t (length (b :: r))). apply le_n.
Qed.

Definition fd_caret_post (x : gres ((go_aml_ObjectTree * N * N) + (go_aml_ObjectTree * N))) : gres (go_aml_ObjectTree * N) :=
  match x with
  | GPanic => GPanic | GFuel => GFuel
  | GOk (inr r) => GOk r
  | GOk (inl st) => let '(g, s, _) := st in GOk (g, s)
  end.

Lemma gslices_suffix : forall (expr : list N) k, N.of_nat (length expr) < 2 ^ 62 -> (k <= length expr)%nat ->
  gslices 64 expr (N.of_nat k) (glen expr) = Some (skipn k expr).
Proof.
  intros expr k Hs Hk. unfold gslices, gisneg, gslice, glen. change (2 ^ (64 - 1)) with (2 ^ 63).
  change (2 ^ 62) with 4611686018427387904 in *. change (2 ^ 63) with 9223372036854775808.
  replace (9223372036854775808 <=? N.of_nat k) with false by (symmetry; apply N.leb_gt; lia).
  replace (9223372036854775808 <=? N.of_nat (length expr)) with false by (symmetry; apply N.leb_gt; lia).
  cbn [orb].
  replace (N.of_nat k <=? N.of_nat (length expr)) with true by (symmetry; apply N.leb_le; lia).
  rewrite N.leb_refl. cbn [andb]. rewrite Nat2N.id. f_equal.
  apply firstn_all2. rewrite skipn_length. lia.
Qed.

Section Expr3.
Variable expr : list N.
Hypothesis expr_small : N.of_nat (length expr) < 2 ^ 62.
Variable t : Tree.
Variable fuel : nat.
Hypothesis fuel_big : (length expr + 5 < fuel)%nat.

Lemma findRelative_suffix : forall k scope, (k <= length expr)%nat ->
  go_aml_ObjectTree_findRelative fuel (tr_tree t) scope (skipn k expr) =
  lift (fun r => (tr_tree t, r)) (findRelative_go_f fuel false t scope (skipn k expr)).
Proof.
  intros k scope Hk. pose proof (skipn_length k expr) as SL.
  apply findRelative_fuelled.
  - change (2 ^ 62) with 4611686018427387904 in *. lia.
  - lia.
Qed.

Lemma caret_loop : forall n l k scope fo,
  (length l <= n)%nat -> l = skipn k expr -> (k <= length expr)%nat -> (n < fo)%nat ->
  fd_caret_post (gloop fo (fd_caret fuel expr (glen expr)) (tr_tree t, scope, N.of_nat k)) =
  lift (fun r => (tr_tree t, r)) (find_carets_f fuel t scope l).
Proof.
  induction n as [|n IH]; intros l k scope fo Hl El Hk Hfo; (destruct fo as [|fo]; [lia|]);
    rewrite gloop_S; unfold fd_caret at 1; unfold glen at 1;
    rewrite gslt_small by (apply (of_nat_small expr expr_small); lia).
  - destruct l; [|cbn in Hl; lia]. symmetry in El. apply skipn_nil_len in El.
    replace (N.of_nat k <? N.of_nat (length expr)) with false by (symmetry; apply N.ltb_ge; lia).
    reflexivity.
  - destruct l as [|b r].
    { symmetry in El. apply skipn_nil_len in El.
      replace (N.of_nat k <? N.of_nat (length expr)) with false by (symmetry; apply N.ltb_ge; lia).
      reflexivity. }
    symmetry in El. destruct (skipn_cons_nth _ _ _ _ El) as [Nb Lk].
    replace (N.of_nat k <? N.of_nat (length expr)) with true by (symmetry; apply N.ltb_lt; lia).
    rewrite gidxs_small by (apply (of_nat_small expr expr_small); lia). rewrite Nat2N.id, Nb.
    cbv zeta. cbn [find_carets_f].
    destruct (b =? 94).
    + rewrite ObjectAt_is_translation. unfold ObjectAt_deref, rd.
      destruct (ObjectAt t scope) as [p|] eqn:OA; cbn [bind lift]; [|reflexivity].
      destruct (ObjectAt_some _ _ _ OA) as [-> [o D]]. rewrite gderef_tr, D. cbn [bind].
      change (f_Object_parentIndex (tr_obj o)) with (o_parent o). unfold InvalidIndex.
      destruct (o_parent o =? tree_InvalidIndex); [reflexivity|].
      assert (W : gw 64 (N.of_nat k + 1) = N.of_nat (k + 1)).
      { rewrite gw64_small; [lia|]. change (2 ^ 62) with 4611686018427387904 in *. change (2 ^ 64) with 18446744073709551616. lia. }
      rewrite W. apply IH; cbn [length] in *; try lia.
      rewrite skipn_add, El. reflexivity.
    + rewrite gslices_suffix by (trivial; lia). rewrite El.
      rewrite <- El at 1. rewrite (findRelative_suffix k scope) by lia. rewrite El.
      destruct (findRelative_go_f fuel false t scope (b :: r)); reflexivity.
Qed.
End Expr3.

(** ---- Find ---- *)
Definition Find_f (f : nat) (t : Tree) (scopeIndex : N) (expr : list N) : outcome N :=
  match expr with
  | [] => Ok InvalidIndex
  | b0 :: rest =>
      if scopeIndex =? InvalidIndex then Ok InvalidIndex
      else if b0 =? 0x5c then
        match rest with [] => Ok 0 | _ => findRelative_go_f f false t 0 rest end
      else if b0 =? 0x5e then find_carets_f f t scopeIndex expr
      else if tree_amlNameLen <? N.of_nat (length expr) then findRelative_go_f f false t scopeIndex expr
      else match expr with
           | [b0; b1; b2; b3] => find_upward_f f f t scopeIndex (b0, b1, b2, b3)
           | _ => Ok InvalidIndex
           end
  end.

Lemma Find_f_chain : forall (t : Tree) s l, Find_f (chain_fuel t) t s l = Find t s l.
Proof.
  intros t s l. unfold Find_f, Find. destruct l as [|b0 rest]; [reflexivity|].
  destruct (s =? InvalidIndex); [reflexivity|].
  destruct (b0 =? 92).
  - destruct rest; [reflexivity|]. unfold findRelative. apply (findRelative_go_f_chain t _ _ _ _ (le_n _)).
  - destruct (b0 =? 94); [apply find_carets_f_chain|].
    destruct (tree_amlNameLen <? N.of_nat (length (b0 :: rest))).
    + unfold findRelative. apply (findRelative_go_f_chain t _ _ _ _ (le_n _)).
    + destruct rest as [|b1 [|b2 [|b3 [|b4 r]]]]; try reflexivity. apply find_upward_f_chain.
Qed.

Theorem Find_fuelled : forall (t : Tree) (scope : N) (expr : list N) (fuel : nat),
  N.of_nat (length expr) < 2 ^ 62 -> (length expr + 5 < fuel)%nat ->
  go_aml_ObjectTree_Find fuel (tr_tree t) scope expr = lift (fun r => (tr_tree t, r)) (Find_f fuel t scope expr).
Proof.
  intros t scope expr fuel Hs Hf. rewrite Find_unfold. unfold fd_main, Find_f. cbv zeta. unfold glen at 1 2 3 4 5.
  destruct expr as [|b0 rest] eqn:Ee; [reflexivity|]. rewrite <- Ee in *.
  assert (H0 : nth_error expr 0 = Some b0) by (rewrite Ee; reflexivity).
  replace (N.of_nat (length expr) =? 0) with false by (symmetry; apply N.eqb_neq; rewrite Ee; cbn [length]; lia).
  cbn [orb]. unfold InvalidIndex.
  destruct (scope =? tree_InvalidIndex); [reflexivity|].
  unfold gidx. change (N.to_nat 0) with 0%nat. rewrite !H0.
  destruct (b0 =? 92).
  - (* absolute *)
    destruct rest as [|b1 rest'].
    + rewrite Ee. reflexivity.
    + replace (N.of_nat (length expr) =? 1) with false by (symmetry; apply N.eqb_neq; rewrite Ee; cbn [length]; lia).
      assert (SL : gslice expr 1 (N.of_nat (length expr)) = Some (skipn 1 expr)).
      { pose proof (gslices_suffix expr 1 Hs) as G. unfold gslices, gisneg, glen in G. change (2 ^ (64 - 1)) with (2 ^ 63) in G.
        change (2 ^ 62) with 4611686018427387904 in *. change (2 ^ 63) with 9223372036854775808 in G.
        replace (9223372036854775808 <=? N.of_nat 1) with false in G by reflexivity.
        replace (9223372036854775808 <=? N.of_nat (length expr)) with false in G by (symmetry; apply N.leb_gt; lia).
        apply G. rewrite Ee. cbn [length]. lia. }
      rewrite SL. rewrite (findRelative_suffix expr Hs t fuel Hf 1 0) by (rewrite Ee; cbn [length]; lia).
      rewrite Ee. cbn [skipn]. destruct (findRelative_go_f fuel false t 0 (b1 :: rest')); reflexivity.
  - destruct (b0 =? 94).
    + (* ^ *)
      change (gw 64 0) with (N.of_nat 0).
      exact (caret_loop expr Hs t fuel Hf (length expr) expr 0%nat scope fuel (le_n _) eq_refl (Nat.le_0_l _) ltac:(lia)).
    + rewrite gslt_small; [ | rewrite amlNameLen_4; reflexivity | change (2 ^ 62) with 4611686018427387904 in *; change (2 ^ 63) with 9223372036854775808; lia].
      destruct (tree_amlNameLen <? N.of_nat (length expr)) eqn:Lt.
      * pose proof (findRelative_suffix expr Hs t fuel Hf 0 scope (Nat.le_0_l _)) as FR. cbn [skipn] in FR.
        rewrite FR. destruct (findRelative_go_f fuel false t scope expr); reflexivity.
      * rewrite amlNameLen_4.
        destruct rest as [|b1 [|b2 [|b3 [|b4 r]]]]; rewrite Ee at 1; cbn [length]; try reflexivity.
        -- replace (N.of_nat 4 =? 4) with true by reflexivity.
           exact (up_loop t expr b0 b1 b2 b3 fuel ltac:(lia) Ee fuel scope).
        -- exfalso. apply N.ltb_ge in Lt. rewrite Ee in Lt. cbn [length] in Lt. rewrite amlNameLen_4 in Lt. lia.
Qed.

(** ---- more fuel does not change an answer ---- *)
Lemma find_upward_f_mono : forall (t : Tree) nm fs fs', (fs <= fs')%nat -> forall fu fu' s,
  (fu <= fu')%nat -> find_upward_f fs fu t s nm <> OutOfFuel ->
  find_upward_f fs' fu' t s nm = find_upward_f fs fu t s nm.
Proof.
  intros t nm fs fs' Hs. induction fu as [|fu IH]; intros fu' s Hle Hne; [cbn in Hne; congruence|].
  destruct fu' as [|fu']; [lia|]. cbn [find_upward_f] in *.
  destruct (s =? InvalidIndex); [reflexivity|].
  destruct (ObjectAt_deref t s); cbn [bind] in *; try reflexivity.
  destruct (rd t a o_first); cbn [bind] in *; try reflexivity.
  destruct (find_sibling fs t a0 nm) as [[c|]| |] eqn:FS; cbn [bind] in *; try congruence;
    rewrite (find_sibling_mono t nm fs fs' a0 Hs) by (rewrite FS; discriminate); rewrite FS; cbn [bind]; try reflexivity.
  destruct (rd t a o_parent); cbn [bind] in *; try reflexivity. apply IH; [lia|assumption].
Qed.

Lemma find_carets_f_mono : forall (t : Tree) f f', (f <= f')%nat -> forall l s,
  find_carets_f f t s l <> OutOfFuel -> find_carets_f f' t s l = find_carets_f f t s l.
Proof.
  intros t f f' Hle. induction l as [|b r IH]; intros s Hne; [reflexivity|]. cbn [find_carets_f] in *.
  destruct (b =? 94).
  - destruct (ObjectAt_deref t s); cbn [bind] in *; try reflexivity.
    destruct (rd t a o_parent); cbn [bind] in *; try reflexivity.
    destruct (a0 =? InvalidIndex); [reflexivity|]. apply IH. assumption.
  - apply (findRelative_go_f_mono t f f' Hle (length (b :: r))); [apply le_n|assumption].
Qed.

Lemma Find_f_mono : forall (t : Tree) f f', (f <= f')%nat -> forall l s,
  Find_f f t s l <> OutOfFuel -> Find_f f' t s l = Find_f f t s l.
Proof.
  intros t f f' Hle l s Hne. unfold Find_f in *. destruct l as [|b0 rest]; [reflexivity|].
  destruct (s =? InvalidIndex); [reflexivity|].
  destruct (b0 =? 92).
  - destruct rest; [reflexivity|]. apply (findRelative_go_f_mono t f f' Hle _ _ _ _ (le_n _)). assumption.
  - destruct (b0 =? 94); [apply find_carets_f_mono; assumption|].
    destruct (tree_amlNameLen <? N.of_nat (length (b0 :: rest))).
    + apply (findRelative_go_f_mono t f f' Hle _ _ _ _ (le_n _)). assumption.
    + destruct rest as [|b1 [|b2 [|b3 [|b4 r]]]]; try reflexivity. apply find_upward_f_mono; assumption.
Qed.

(** Find: the translation equals the model, for every fuel above the model's own [chain_fuel t] and the length of the
    expression, whenever the model's walks end (they do on every tree whose sibling / parent chains are acyclic) *)
Theorem Find_is_translation : forall (t : Tree) (scope : N) (expr : list N) (fuel : nat),
  N.of_nat (length expr) < 2 ^ 62 -> (length expr + 5 < fuel)%nat -> (chain_fuel t <= fuel)%nat ->
  Find t scope expr <> OutOfFuel ->
  go_aml_ObjectTree_Find fuel (tr_tree t) scope expr = lift (fun r => (tr_tree t, r)) (Find t scope expr).
Proof.
  intros t scope expr fuel Hs Hf Hc Hne. rewrite (Find_fuelled t scope expr fuel Hs Hf).
  rewrite <- Find_f_chain in *. now rewrite (Find_f_mono t (chain_fuel t) fuel Hc expr scope Hne).
Qed.
End G.
