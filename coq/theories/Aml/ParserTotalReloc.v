(** C12 (stretch): relocateNamedObjects never panics and keeps C13's tree relation.  A named object of the table
    whose name path has more than one segment is moved below the scope its path prefix resolves to - unless that scope
    lies inside the object itself (the check of commit 648a1d7), which is exactly what makes the re-attachment legal. *)
From Coq Require Import NArith Arith List Bool Lia.
From Coq Require Import ZifyBool ZifyN ZifyNat.
From FF Require Import Lib.Word Gen.Consts_device_acpi_aml Gen.Consts_aml_tree Aml.Stream Aml.Lex Aml.LexProofs
  Aml.Tree Aml.Parser Aml.ParserProofs Aml.TreeSpec Aml.TreeProofs Aml.TreeProofsOps Aml.TreeProofsFind Aml.TreeProofsAnc
  Aml.ParserTotalTree Aml.ParserTotalTree2 Aml.ParserTotalLex Aml.ParserTotalTable Aml.ParserTotalBase Aml.ParserTotalLeaf
  Aml.ParserTotalConn Aml.ParserTotalNonNamed Aml.ParserTotalCalls.
Import ListNotations.
Local Open Scope N_scope.

(** ---- preliminaries ---- *)
Lemma info_valid_ok (t : T) : info_valid t -> info_ok t.
Proof.
  intros H i o Hg Hl. specialize (H i o Hg Hl). unfold opInfo in H.
  destruct (nth_error aml_opcodeTable (N.to_nat (o_infoIndex o))) eqn:E; [|contradiction].
  assert (Hlt : (N.to_nat (o_infoIndex o) < length aml_opcodeTable)%nat) by (apply nth_error_Some; congruence).
  exact Hlt.
Qed.

Lemma closest_from_live (t : T) g (HR : R t g) : forall fuel a r, live t a -> closest_from t g fuel a = Some r -> live t r.
Proof.
  induction fuel as [|fuel IH]; intros a r Hl H; cbn [closest_from] in H; [discriminate|].
  destruct (opcode_at t a =? opScope); [discriminate|].
  destruct (named_at t a); [inversion H; subst; exact Hl|].
  destruct (parent_of g a) as [p|] eqn:Ep; [|discriminate].
  apply (IH p r); [apply (parent_of_live t g HR a p Hl Ep)|exact H].
Qed.

Lemma closest_ref_live (t : T) g (HR : R t g) p r : live t p -> closest_ref t g p = Some r -> live t r.
Proof.
  intros Hl H. unfold closest_ref in H. destruct (parent_of g p) as [a|] eqn:Ep; [|discriminate].
  apply (closest_from_live t g HR (length (g_kids g)) a r); [apply (parent_of_live t g HR p a Hl Ep)|exact H].
Qed.

(** the parent of a live object, from the forest *)
Lemma parent_link s g x o : TI s g -> tget (p_tree s) x = Some o -> o_opcode o <> opFreed ->
  (o_parent o = InvalidIndex /\ groot g x) \/ (o_parent o <> InvalidIndex /\ In x (kids g (o_parent o)) /\ glive g (o_parent o)).
Proof.
  intros H Hg Hl. pose proof (ti_R _ _ H) as HR.
  destruct (N.eqb_spec (o_parent o) InvalidIndex) as [E|E].
  - left. split; auto. apply (R_groot _ _ HR x o Hg Hl). exact E.
  - right. split; auto. destruct (R_parent_live _ _ HR x o Hg Hl E) as (Hin & po & Hpo & Hlpo). split; auto.
    apply (R_live_glive _ _ HR). exists po. auto.
Qed.

(** ---- insideSelf: the ancestors of [a] up to the root do not include [obj] ---- *)
Lemma insideSelf_spec fuel : forall a obj s g, TI s g -> glive g a ->
  wp True (insideSelf_go fuel (Some a) obj) s (fun b s' => s' = s /\ (b = false -> ~ desc g obj a)).
Proof.
  induction fuel as [|fuel IH]; intros a obj s g H Hl; cbn [insideSelf_go].
  { apply wp_outOfFuel. exact I. }
  pose proof (ti_R _ _ H) as HR.
  destruct (N.eqb_spec a obj) as [E|E].
  { apply wp_ret. split; auto. discriminate. }
  destruct (TI_live_get _ _ _ H Hl) as (ao & Hao & Hlao).
  apply wp_bind. apply wp_rdf. exists ao. split; [exact Hao|].
  apply wp_bind, wp_get.
  assert (Hnotroot : forall p, In a (kids g p) -> ~ desc g obj p -> ~ desc g obj a).
  { intros p Hin Hnd Hd. destruct Hd as [|q c Hd Hin']; [contradiction|].
    assert (q = p) by (eapply (R_parent_unique _ _ HR); eauto). subst q. contradiction. }
  destruct (parent_link _ _ _ _ H Hao Hlao) as [(Ep & Hroot)|(Ep & Hin & Hlp)].
  - rewrite Ep. assert (Hn : ObjectAt (p_tree s) InvalidIndex = None).
    { destruct (ObjectAt (p_tree s) InvalidIndex) as [q|] eqn:Eo; [|reflexivity].
      destruct (ObjectAt_some _ _ _ Eo) as (_ & o' & Ho' & _). exfalso. eapply (R_pos_not_Inv _ _ HR); eauto. }
    rewrite Hn. destruct fuel as [|fuel]; cbn [insideSelf_go]; [apply wp_outOfFuel; exact I|].
    apply wp_ret. split; auto. intros _ Hd. destruct Hd as [|q c Hd Hin]; [contradiction|]. apply (Hroot q). exact Hin.
  - rewrite (TI_ObjectAt _ _ _ H Hlp).
    eapply wp_weaken; [apply (IH (o_parent ao) obj s g H Hlp)|auto|].
    intros b s' (-> & Hb). split; auto. intros Eb. apply (Hnotroot _ Hin). apply Hb. exact Eb.
Qed.

(** ---- scopeOf: the result is a live object ---- *)
Lemma nestedScope_spec fuel : forall idx s g, TI s g -> (idx = InvalidIndex \/ glive g idx) ->
  wp True (nestedScope_go fuel idx) s (fun r s' => s' = s /\ forall y, r = Some y -> glive g y).
Proof.
  induction fuel as [|fuel IH]; intros idx s g H Hidx; cbn [nestedScope_go].
  { apply wp_outOfFuel. exact I. }
  pose proof (ti_R _ _ H) as HR.
  destruct (N.eqb_spec idx InvalidIndex) as [E|E].
  { apply wp_ret. split; auto. discriminate. }
  destruct Hidx as [?|Hl]; [contradiction|].
  apply wp_bind. apply wp_objectAt'; [apply (TI_ObjectAt _ _ _ H Hl)|].
  destruct (TI_live_get _ _ _ H Hl) as (o & Ho & Hlo).
  apply wp_bind. apply wp_rdf. exists o. split; [exact Ho|].
  destruct (o_opcode o =? aml_pOpIntScopeBlock).
  { apply wp_ret. split; auto. intros y Ey. inversion Ey; subst. exact Hl. }
  apply wp_bind. apply wp_rdf. exists o. split; [exact Ho|].
  apply IH; auto.
  destruct (links_live _ _ HR idx o Ho Hlo (o_next o)) as [En|Hn]; [cbn; auto|left; exact En|right].
  apply (R_live_glive _ _ HR). exact Hn.
Qed.

Lemma scopeOf_spec target s g : TI s g -> glive g target ->
  wp True (scopeOf target) s (fun r s' => s' = s /\ forall y, r = Some y -> glive g y).
Proof.
  intros H Hl. unfold scopeOf. pose proof (ti_R _ _ H) as HR.
  apply wp_bind. apply wp_objectAt'; [apply (TI_ObjectAt _ _ _ H Hl)|].
  destruct (TI_live_get _ _ _ H Hl) as (o & Ho & Hlo).
  apply wp_bind. apply wp_rdf. exists o. split; [exact Ho|].
  destruct (o_opcode o =? aml_pOpIntScopeBlock).
  { apply wp_ret. split; auto. intros y Ey. inversion Ey; subst. exact Hl. }
  apply wp_bind. apply wp_rdf. exists o. split; [exact Ho|].
  apply wp_bind, wp_get.
  apply nestedScope_spec; auto.
  destruct (links_live _ _ HR target o Ho Hlo (o_first o)) as [En|Hn]; [cbn; auto 6|left; exact En|right].
  apply (R_live_glive _ _ HR). exact Hn.
Qed.

(** ---- scopeOf: the result is the target or one of its children, and it is a ScopeBlock ---- *)
Definition is_sb (s : pstate) (y : N) : Prop := exists o, tget (p_tree s) y = Some o /\ o_opcode o = aml_pOpIntScopeBlock.

Lemma nestedScope_spec2 fuel : forall idx p s g, TI s g -> (idx = InvalidIndex \/ In idx (kids g p)) ->
  wp True (nestedScope_go fuel idx) s (fun r s' => s' = s /\ forall y, r = Some y -> In y (kids g p) /\ is_sb s y).
Proof.
  induction fuel as [|fuel IH]; intros idx p s g H Hidx; cbn [nestedScope_go].
  { apply wp_outOfFuel. exact I. }
  pose proof (ti_R _ _ H) as HR.
  destruct (N.eqb_spec idx InvalidIndex) as [E|E].
  { apply wp_ret. split; auto. discriminate. }
  destruct Hidx as [?|Hin]; [contradiction|].
  destruct ((R_gwf _ _ HR) _ _ Hin) as (Hlp & Hl).
  apply wp_bind. apply wp_objectAt'; [apply (TI_ObjectAt _ _ _ H Hl)|].
  destruct (in_split _ _ Hin) as (l1 & l2 & Ek).
  destruct (sibling_links _ _ HR _ l1 idx l2 Hlp Ek) as (o & Ho & Hlo & _ & _ & En & _).
  apply wp_bind. apply wp_rdf. exists o. split; [exact Ho|].
  destruct (N.eqb_spec (o_opcode o) aml_pOpIntScopeBlock) as [Eop|Eop].
  { apply wp_ret. split; auto. intros y Ey. inversion Ey; subst. split; [exact Hin|]. exists o. auto. }
  apply wp_bind. apply wp_rdf. exists o. split; [exact Ho|].
  apply IH; auto. rewrite En. destruct l2 as [|z l2]; [left; reflexivity|right]. cbn [hd].
  rewrite Ek. apply in_or_app. right. right. left. reflexivity.
Qed.

Lemma scopeOf_spec2 target s g : TI s g -> glive g target ->
  wp True (scopeOf target) s (fun r s' => s' = s /\ forall y, r = Some y -> (y = target \/ In y (kids g target)) /\ is_sb s y).
Proof.
  intros H Hl. unfold scopeOf. pose proof (ti_R _ _ H) as HR.
  apply wp_bind. apply wp_objectAt'; [apply (TI_ObjectAt _ _ _ H Hl)|].
  destruct (TI_live_get _ _ _ H Hl) as (o & Ho & Hlo).
  apply wp_bind. apply wp_rdf. exists o. split; [exact Ho|].
  destruct (N.eqb_spec (o_opcode o) aml_pOpIntScopeBlock) as [Eop|Eop].
  { apply wp_ret. split; auto. intros y Ey. inversion Ey; subst. split; [left; reflexivity|]. exists o. auto. }
  apply wp_bind. apply wp_rdf. exists o. split; [exact Ho|].
  apply wp_bind, wp_get.
  eapply wp_weaken; [apply (nestedScope_spec2 _ (o_first o) target s g H)|auto|].
  - destruct (R_kids _ _ HR _ _ Ho Hlo) as (Hf & _). rewrite Hf.
    destruct (kids g target) as [|c l]; [left; reflexivity|right; left; reflexivity].
  - intros r s' (-> & Hr). split; auto. intros y Ey. destruct (Hr y Ey). split; auto.
Qed.

(** ---- moving an object anywhere ---- *)
Definition shape_eq (g g' : ghost) : Prop := length (g_kids g') = length (g_kids g) /\ g_free g' = g_free g.
Definition roots_iff (g g' : ghost) : Prop := forall y, glive g y -> (groot g' y <-> groot g y).

Lemma shape_eq_glive g g' y : shape_eq g g' -> (glive g y <-> glive g' y).
Proof. intros (A & B). unfold glive. rewrite A, B. tauto. Qed.

Lemma shape_eq_refl g : shape_eq g g. Proof. split; reflexivity. Qed.
Lemma shape_eq_trans a b c : shape_eq a b -> shape_eq b c -> shape_eq a c.
Proof. intros (A1 & A2) (B1 & B2). split; congruence. Qed.
Lemma roots_iff_refl g : roots_iff g g. Proof. intros y _. tauto. Qed.
Lemma roots_iff_trans a b c : shape_eq a b -> roots_iff a b -> roots_iff b c -> roots_iff a c.
Proof. intros S H1 H2 y Hy. rewrite (H2 y); [apply H1; exact Hy|]. apply (shape_eq_glive _ _ _ S). exact Hy. Qed.

Lemma In_remove1_neq (x y : N) l : y <> x -> (In y (remove1 x l) <-> In y l).
Proof.
  intros Hne. induction l as [|z l IH]; cbn [remove1]; [tauto|].
  destruct (N.eqb_spec z x) as [->|Hzx]; cbn [In]; [split; [auto|intros [E|H]; [congruence|auto]]|rewrite IH; tauto].
Qed.

Lemma move_gen {RT} P par x target (m : M RT) s g (Q : RT -> pstate -> Prop) :
  TI s g -> In x (kids g par) -> glive g target -> ~ desc g x target ->
  (forall t2 g2, TI (with_tree s t2) g2 -> shape_eq g g2 -> roots_iff g g2 -> kids g2 x = kids g x ->
                 (forall S : N -> Prop, S x -> evolve S g g2) -> pframe (p_tree s) t2 ->
                 (forall q, kids g2 q = (if q =? par then remove1 x (kids g par) else kids g q) ++ (if q =? target then [x] else [])) ->
                 wp P m (with_tree s t2) Q) ->
  wp P (detachM (Some par) (Some x) ;;; appendM (Some target) x ;;; m) s Q.
Proof.
  intros H Hin Hlt Hnd K. pose proof (ti_R _ _ H) as HR.
  pose proof (R_gwf _ _ HR) as Hwf. destruct (Hwf _ _ Hin) as (Hlp & Hlx).
  destruct (detach_full (p_tree s) g par x HR Hin) as (t1 & E1 & HR1 & Hpf1).
  apply wp_bind. apply wp_detachM. exists t1. split; [exact E1|].
  set (g1 := astep g (OpDetach par x)) in *.
  assert (H1 : TI (with_tree s t1) g1) by (eapply TI_pframe; eauto).
  assert (Hplt : par < N.of_nat (length (g_kids g))) by (apply glive_lt; exact Hlp).
  assert (Hk1 : forall q, kids g1 q = if q =? par then remove1 x (kids g par) else kids g q).
  { intros q. unfold g1. cbn [astep]. rewrite kids_set_kids by exact Hplt. destruct (q =? par) eqn:E; [apply N.eqb_eq in E; subst|]; reflexivity. }
  destruct (TI_live_get _ _ _ H Hlp) as (po & Hpo & Hlpo).
  destruct (R_kids _ _ HR _ _ Hpo Hlpo) as (_ & _ & _ & Hnd0).
  assert (Hsub1 : forall p c, In c (kids g1 p) -> In c (kids g p)).
  { intros p c. rewrite Hk1. destruct (p =? par) eqn:Eq; auto. apply N.eqb_eq in Eq. subst p. apply remove1_In. }
  assert (Hshape1 : forall y, glive g y -> glive g1 y) by (intros y Hy; unfold g1; cbn [astep]; apply glive_set_kids; exact Hy).
  assert (Hroot1 : groot g1 x).
  { intros q Hq. rewrite Hk1 in Hq. destruct (q =? par) eqn:Eq.
    - revert Hq. apply remove1_notin. exact Hnd0.
    - apply N.eqb_neq in Eq. apply Eq. eapply (R_parent_unique _ _ HR); eauto. }
  assert (Hnd1 : ~ desc g1 x target) by (intros Hd; apply Hnd; eapply desc_mono; eauto).
  destruct (append_full2 (p_tree (with_tree s t1)) g1 target x HR1 (Hshape1 _ Hlt) (Hshape1 _ Hlx) Hroot1 Hnd1) as (t2 & E2 & HR2 & Hpf2).
  apply wp_bind. apply wp_appendM. exists t2. split; [exact E2|].
  set (g2 := astep g1 (OpAppend target x)) in *.
  assert (H2 : TI (with_tree (with_tree s t1) t2) g2) by (eapply TI_pframe; eauto).
  assert (Htlt : target < N.of_nat (length (g_kids g1))) by (apply glive_lt; apply Hshape1; exact Hlt).
  assert (Hk2 : forall q, kids g2 q = if q =? target then kids g1 target ++ [x] else kids g1 q).
  { intros q. unfold g2. cbn [astep]. rewrite kids_set_kids by exact Htlt. destruct (q =? target) eqn:E; [apply N.eqb_eq in E; subst|]; reflexivity. }
  assert (Hxt : x <> target) by (intros E; apply Hnd; rewrite E; constructor).
  assert (Hxp : x <> par) by (eapply (R_child_neq_parent _ _ HR); eauto).
  apply (K t2 g2); auto.
  - split; unfold g2, g1; cbn [astep]; rewrite ?set_kids_len, ?set_kids_free; reflexivity.
  - intros y Hy. destruct (N.eq_dec y x) as [->|Hyx].
    + split; intros Hr; exfalso.
      * apply (Hr target). rewrite Hk2, N.eqb_refl. apply in_or_app. right. left. reflexivity.
      * apply (Hr par). exact Hin.
    + assert (Hmem : forall q, In y (kids g2 q) <-> In y (kids g q)).
      { intros q. rewrite Hk2. assert (A : In y (kids g1 q) <-> In y (kids g q)).
        { rewrite Hk1. destruct (q =? par) eqn:E; [apply N.eqb_eq in E; subst; apply In_remove1_neq; exact Hyx|tauto]. }
        destruct (q =? target) eqn:E; [apply N.eqb_eq in E; subst|exact A].
        rewrite in_app_iff. cbn [In]. rewrite A. intuition congruence. }
      unfold groot. split; intros Hr q Hq; apply (Hr q); apply Hmem; exact Hq.
  - rewrite Hk2. apply N.eqb_neq in Hxt. rewrite Hxt, Hk1. apply N.eqb_neq in Hxp. rewrite Hxp. reflexivity.
  - intros S HSx. constructor.
    + unfold g2, g1. cbn [astep]. rewrite !set_kids_len. reflexivity.
    + intros y (A & B). split; [|exact B]. unfold g2, g1 in A. cbn [astep] in A. rewrite !set_kids_len in A. exact A.
    + intros y Hy _. unfold g2. cbn [astep]. apply glive_set_kids. apply Hshape1. exact Hy.
    + intros q. exists (kids g1 q), (if q =? target then [x] else []). rewrite Hk2. split; [|split].
      * destruct (q =? target) eqn:E; [apply N.eqb_eq in E; subst q; reflexivity|rewrite app_nil_r; reflexivity].
      * rewrite Hk1. destruct (q =? par) eqn:E; [apply N.eqb_eq in E; subst q; apply sublist_remove1|apply sublist_refl].
      * destruct (q =? target); constructor; auto.
  - eapply pframe_trans; [exact Hpf1|exact Hpf2].
  - intros q. rewrite Hk2, <- Hk1. destruct (q =? target) eqn:E; [apply N.eqb_eq in E; subst q; reflexivity|rewrite app_nil_r; reflexivity].
Qed.

(** ---- relocateNamedObjects ---- *)
Definition okroot (s : pstate) (g : ghost) (x : N) : Prop :=
  groot g x -> exists o, tget (p_tree s) x = Some o /\ o_opcode o = aml_pOpIntScopeBlock.

(** [J] is any further invariant that the caller wants to carry through the pass: it has to survive a change of the
    counters and one relocation (the named object [x] moves from [par] to the ScopeBlock [tg], the value of its first
    child is rewritten) *)
Section Reloc.
Variable J : pstate -> ghost -> Prop.
Hypothesis J_counters : forall s g a b c, J s g -> J (with_counters s a b c) g.
Hypothesis J_reloc : forall s g x xo op fl af par tg (t2 : T) g2 v,
  TI s g -> J s g -> tget (p_tree s) x = Some xo -> opInfo (o_infoIndex xo) = Some (op, fl, af) ->
  hasFlag fl aml_pOpFlagNamed = true -> o_opcode xo <> aml_pOpIntScopeBlock -> o_tableHandle xo = p_handle s ->
  In x (kids g par) -> is_sb s tg -> glive g tg -> kids g x <> [] ->
  pframe (p_tree s) t2 -> shape_eq g g2 -> roots_iff g g2 ->
  (forall q, kids g2 q = (if q =? par then remove1 x (kids g par) else kids g q) ++ (if q =? tg then [x] else [])) ->
  J (with_tree s (tset t2 (hd InvalidIndex (kids g x)) (set_value v))) g2.

Definition rlpost (g : ghost) (s' : pstate) (g' : ghost) : Prop := TI s' g' /\ shape_eq g g' /\ roots_iff g g' /\ J s' g'.

Definition RL_spec (fuel : nat) : Prop := forall x s g, TI s g -> J s g -> glive g 0 -> glive g x -> okroot s g x ->
  wp True (relocateNamedObjects fuel x) s (fun r s' => exists g', rlpost g s' g').

Definition RLloop_spec (fuel : nat) : Prop := forall sib res s g, TI s g -> J s g -> glive g 0 ->
  (sib = InvalidIndex \/ (glive g sib /\ ~ groot g sib)) ->
  wp True (relocate_loop fuel sib res) s (fun r s' => exists g', rlpost g s' g').

Lemma Find_invalid (t : T) e : Find t InvalidIndex e = Ok InvalidIndex.
Proof. unfold Find. destruct e; [reflexivity|]. rewrite N.eqb_refl. reflexivity. Qed.

Lemma TI_counters s g a b c : TI s g -> TI (with_counters s a b c) g.
Proof. intros [A B C]. constructor; auto. Qed.

Lemma rlpost_trans g g1 s' g' : shape_eq g g1 -> roots_iff g g1 -> rlpost g1 s' g' -> rlpost g s' g'.
Proof.
  intros S1 R1 (F1 & F2 & F3 & F4). split; auto. split; [eapply shape_eq_trans; eauto|]. split; [eapply roots_iff_trans; eauto|exact F4].
Qed.

Lemma step_RLloop fuel : RL_spec fuel -> RLloop_spec fuel -> RLloop_spec (S fuel).
Proof.
  intros IHc IHl sib res s g H HJ H0 Hsib. cbn [relocate_loop].
  destruct (N.eqb_spec sib InvalidIndex) as [Ei|Ei].
  { apply wp_ret. exists g. split; auto. split; [apply shape_eq_refl|]. split; [apply roots_iff_refl|exact HJ]. }
  destruct Hsib as [?|(Hl & Hnr)]; [contradiction|].
  pose proof (ti_R _ _ H) as HR.
  apply wp_bind. apply wp_objectAt'; [apply (TI_ObjectAt _ _ _ H Hl)|].
  destruct (TI_live_get _ _ _ H Hl) as (o & Ho & Hlo).
  apply wp_bind. apply wp_rdf. exists o. split; [exact Ho|].
  apply wp_bind. apply wp_rdf. exists o. split; [exact Ho|]. rewrite (R_index _ _ HR _ _ Ho).
  (* the next sibling is a live child of the same parent *)
  assert (Hnx : o_next o = InvalidIndex \/ (glive g (o_next o) /\ ~ groot g (o_next o))).
  { destruct (parent_link _ _ _ _ H Ho Hlo) as [(_ & Hr)|(Ep & Hin & Hlp)]; [contradiction|].
    destruct (in_split _ _ Hin) as (l1 & l2 & Ek).
    destruct (sibling_links _ _ HR _ l1 sib l2 Hlp Ek) as (o' & Ho' & _ & _ & _ & En & _).
    assert (o' = o) by congruence. subst o'. rewrite En.
    destruct l2 as [|y l2']; [left; reflexivity|right]. cbn [hd].
    assert (Hy : In y (kids g (o_parent o))) by (rewrite Ek; apply in_or_app; right; right; left; reflexivity).
    split; [apply ((R_gwf _ _ HR) _ _ Hy)|]. intros Hr. apply (Hr _ Hy). }
  apply wp_bind. eapply wp_weaken; [apply (IHc sib s g H HJ H0 Hl)|auto|].
  { intros Hr. contradiction. }
  intros r s1 (g1 & H1 & S1 & R1 & J1).
  assert (H01 : glive g1 0) by (apply (shape_eq_glive _ _ _ S1); exact H0).
  assert (Hnx1 : o_next o = InvalidIndex \/ (glive g1 (o_next o) /\ ~ groot g1 (o_next o))).
  { destruct Hnx as [E|(A & B)]; [left; exact E|right]. split; [apply (shape_eq_glive _ _ _ S1); exact A|].
    intros Hr. apply B. apply (R1 _ A). exact Hr. }
  destruct r.
  - apply wp_ret. exists g1. split; auto.
  - eapply wp_weaken; [apply (IHl (o_next o) res s1 g1 H1 J1 H01 Hnx1)|auto|].
    intros r' s' (g' & F). exists g'. eapply rlpost_trans; eauto.
  - eapply wp_weaken; [apply (IHl (o_next o) res s1 g1 H1 J1 H01 Hnx1)|auto|].
    intros r' s' (g' & F). exists g'. eapply rlpost_trans; eauto.
  - eapply wp_weaken; [apply (IHl (o_next o) RExtra s1 g1 H1 J1 H01 Hnx1)|auto|].
    intros r' s' (g' & F). exists g'. eapply rlpost_trans; eauto.
Qed.

Lemma wp_counters P (f : pstate -> pstate) s (Q : unit -> pstate -> Prop) :
  Q tt (f s) -> wp P (fun s0 => Ok (tt, f s0)) s Q.
Proof. intros H. exact H. Qed.

Lemma slice_tail_ok tbls tbl p len : 4 < len ->
  slice_ok tbls tbl (mkSlice (Some p) len) ->
  value_ok tbls (Some (bytesValue tbl (mkSlice (Some (p + (len - aml_amlNameLen))) aml_amlNameLen))).
Proof.
  intros Hlen (d & Hd & Hin). unfold bytesValue. cbn [s_ptr value_ok]. exists d. split; auto.
  destruct Hin as [Hz|(q & Hq & Hle)]; cbn [s_len s_ptr] in *; [lia|]. inversion Hq; subst q.
  right. exists (p + (len - aml_amlNameLen)). split; auto. cbn [s_len]. unfold aml_amlNameLen. lia.
Qed.

Lemma step_RL fuel : RLloop_spec fuel -> RL_spec (S fuel).
Proof.
  intros IHl x s g H HJ H0 Hl Hok. cbn [relocateNamedObjects].
  pose proof (ti_R _ _ H) as HR.
  apply wp_bind. apply wp_objectAt'; [apply (TI_ObjectAt _ _ _ H Hl)|].
  destruct (TI_live_get _ _ _ H Hl) as (oo & Hoo & Hloo).
  apply wp_bind. apply wp_rdo. exists oo. split; [exact Hoo|].
  pose proof (ti_info _ _ H _ _ Hoo Hloo) as Hinfo.
  destruct (opInfo (o_infoIndex oo)) as [[[op fl] af]|] eqn:Erow; [|contradiction].
  apply wp_bind. eapply wp_info; [exact Erow|].
  (* the counter reset does not touch the tree *)
  assert (Hcnt : forall (Q : unit -> pstate -> Prop),
     (forall s1, TI s1 g -> J s1 g -> p_tree s1 = p_tree s -> p_tables s1 = p_tables s -> Q tt s1) ->
     wp True (if x =? 0 then fun s0 => Ok (tt, with_counters s0 (p_resolvePasses s0) (p_mergedScopes s0) 0) else ret tt) s Q).
  { intros Q K. destruct (x =? 0); [apply wp_counters|apply wp_ret]; apply K; auto. apply TI_counters. exact H. }
  apply wp_bind. apply Hcnt. intros s1 H1 HJ1 Et1 Etb1.
  assert (Hoo1 : tget (p_tree s1) x = Some oo) by (rewrite Et1; exact Hoo).
  destruct (hasFlag fl aml_pOpFlagExecutable).
  { apply wp_ret. exists g. split; auto. split; [apply shape_eq_refl|]. split; [apply roots_iff_refl|exact HJ1]. }
  apply wp_bind, wp_get.
  (* the loop over the children *)
  assert (Hloop : forall s2 g2, TI s2 g2 -> J s2 g2 -> shape_eq g g2 -> roots_iff g g2 -> kids g2 x = kids g x ->
     wp True (mlet first <~ rdf x o_first ;; relocate_loop fuel first ROk) s2 (fun r s' => exists g', rlpost g s' g')).
  { intros s2 g2 H2 J2 S2 R2 Hk2. pose proof (ti_R _ _ H2) as HR2.
    assert (Hl2 : glive g2 x) by (apply (shape_eq_glive _ _ _ S2); exact Hl).
    destruct (TI_live_get _ _ _ H2 Hl2) as (o2 & Ho2 & Hlo2).
    apply wp_bind. apply wp_rdf. exists o2. split; [exact Ho2|].
    destruct (R_kids _ _ HR2 _ _ Ho2 Hlo2) as (Hf2 & _). rewrite Hf2.
    eapply wp_weaken; [apply (IHl (hd InvalidIndex (kids g2 x)) ROk s2 g2 H2 J2)|auto|].
    - apply (shape_eq_glive _ _ _ S2). exact H0.
    - destruct (kids g2 x) as [|c l] eqn:Ek; [left; reflexivity|right]. cbn [hd].
      assert (Hc : In c (kids g2 x)) by (rewrite Ek; left; reflexivity).
      split; [apply ((R_gwf _ _ HR2) _ _ Hc)|]. intros Hr. apply (Hr _ Hc).
    - intros r s' (g' & F). exists g'. eapply rlpost_trans; eauto. }
  assert (Hskip : wp True (mlet first <~ rdf x o_first ;; relocate_loop fuel first ROk) s1 (fun r s' => exists g', rlpost g s' g'))
    by (apply (Hloop s1 g H1 HJ1 (shape_eq_refl g) (roots_iff_refl g) eq_refl)).
  assert (Hfail : forall (r : pres), wp True (ret r) s1 (fun r s' => exists g', rlpost g s' g')).
  { intros r. apply wp_ret. exists g. split; auto. split; [apply shape_eq_refl|]. split; [apply roots_iff_refl|exact HJ1]. }
  apply wp_bind.
  destruct (hasFlag fl aml_pOpFlagNamed && negb (o_first oo =? InvalidIndex) && (o_tableHandle oo =? p_handle s1) &&
            negb (o_opcode oo =? aml_pOpIntScopeBlock)) eqn:Econd.
  2:{ apply wp_ret. exact Hskip. }
  apply andb_prop in Econd. destruct Econd as (Econd & Enotsb). apply andb_prop in Econd. destruct Econd as (Econd & Ehandle).
  apply andb_prop in Econd. destruct Econd as (Enamed & Efirst). apply N.eqb_eq in Ehandle.
  apply negb_true_iff in Enotsb. apply N.eqb_neq in Enotsb. apply negb_true_iff in Efirst. apply N.eqb_neq in Efirst.
  pose proof (ti_R _ _ H1) as HR1.
  destruct (R_kids _ _ HR1 _ _ Hoo1 Hloo) as (Hfirst & _).
  destruct (hd_nonempty _ _ _ (eq_sym Hfirst) Efirst) as (krest & Ek).
  assert (Hin_n : In (o_first oo) (kids g x)) by (rewrite Ek; left; reflexivity).
  destruct ((R_gwf _ _ HR1) _ _ Hin_n) as (_ & Hln).
  apply wp_bind. apply wp_objectAt'; [apply (TI_ObjectAt _ _ _ H1 Hln)|].
  destruct (TI_live_get _ _ _ H1 Hln) as (no & Hno & Hlno).
  apply wp_bind. apply wp_rdo. exists no. split; [exact Hno|].
  destruct (valueBytes no) as [[tbl sl]|] eqn:Ev.
  2:{ apply wp_ret. apply Hfail. }
  destruct (aml_amlNameLen <? s_len sl) eqn:Elen.
  2:{ apply wp_ret. exact Hskip. }
  apply N.ltb_lt in Elen.
  assert (Hvno : o_value no = Some (VBytes tbl sl)).
  { unfold valueBytes in Ev. destruct (o_value no) as [[n|tb sl0|i|f]|]; try discriminate. inversion Ev; subst. reflexivity. }
  assert (Hsl : slice_ok (p_tables s1) tbl sl).
  { pose proof (pool_ok_get _ _ _ _ (ti_pool _ _ H1) Hno) as Hv. rewrite Hvno in Hv. exact Hv. }
  destruct (slice_bytes_ok s1 tbl sl Hsl) as (bytes & Eb & _).
  apply wp_bind. eapply wp_bytesOf; [exact Eb|].
  assert (Hlive_x : live (p_tree s1) x) by (apply (R_live_glive _ _ HR1); exact Hl).
  assert (Hlive_0 : live (p_tree s1) 0) by (apply (R_live_glive _ _ HR1); exact H0).
  apply wp_bind. eapply wp_tq; [apply (ClosestNamedAncestor_spec _ _ HR1 (info_valid_ok _ (ti_info _ _ H1)) x Hlive_x)|].
  set (expr := firstn (N.to_nat (s_len sl - aml_amlNameLen)) bytes).
  assert (Hfind : exists target, Find (p_tree s1) (enc_result (closest_ref (p_tree s1) g x)) expr = Ok target /\
                                 (target = InvalidIndex \/ glive g target)).
  { destruct (closest_ref (p_tree s1) g x) as [a|] eqn:Ea; cbn [enc_result].
    - pose proof (closest_ref_live _ _ HR1 x a Hlive_x Ea) as Hla.
      pose proof (Find_spec _ _ HR1 a expr Hla Hlive_0) as Ef. eexists. split; [exact Ef|].
      destruct (Find_result_live _ _ HR1 a expr _ Hla Hlive_0 Ef) as [E|E]; [left; exact E|right].
      apply (R_live_glive _ _ HR1). exact E.
    - exists InvalidIndex. split; [apply Find_invalid|left; reflexivity]. }
  destruct Hfind as (target & Efind & Htarget).
  apply wp_bind. eapply wp_tq; [exact Efind|].
  destruct (N.eqb_spec target InvalidIndex) as [Et|Et].
  { apply wp_bind, wp_get. destruct (aml_maxResolvePasses <? p_resolvePasses s1); apply wp_ret; apply Hfail. }
  destruct Htarget as [?|Hlt]; [contradiction|].
  apply wp_bind. eapply wp_weaken; [apply (scopeOf_spec2 target s1 g H1 Hlt)|auto|].
  intros tgt s1' (-> & Htgt).
  destruct tgt as [targetObj|]; [|apply wp_ret; apply Hfail].
  destruct (Htgt targetObj eq_refl) as (Htg_where & Htg_sb). clear Htgt.
  assert (Htgt : glive g targetObj).
  { destruct Htg_where as [->|Hin0]; [exact Hlt|]. apply ((R_gwf _ _ HR1) _ _ Hin0). }
  apply wp_bind, wp_get.
  apply wp_bind. eapply wp_weaken; [apply (insideSelf_spec _ targetObj x s1 g H1 Htgt)|auto|].
  intros inside s1' (-> & Hinside).
  destruct inside; [apply wp_ret; apply Hfail|].
  specialize (Hinside eq_refl).
  (* the object has a parent: a root would be a ScopeBlock *)
  apply wp_bind. apply wp_rdf. exists oo. split; [exact Hoo1|].
  destruct (parent_link _ _ _ _ H1 Hoo1 Hloo) as [(_ & Hr)|(Ep & Hin & Hlp)].
  { exfalso. destruct (Hok Hr) as (o' & Ho' & Hop'). assert (o' = oo) by congruence. subst o'. contradiction. }
  apply wp_bind, wp_get. rewrite (TI_ObjectAt _ _ _ H1 Hlp).
  eapply (move_gen True (o_parent oo) x targetObj _ s1 g); [exact H1|exact Hin|exact Htgt|exact Hinside|].
  intros t2 g2 H2 S2 R2 Hk2 _ Hpf2 Hkf2.
  pose proof (ti_R _ _ H2) as HR2.
  assert (Hl2 : glive g2 x) by (apply (shape_eq_glive _ _ _ S2); exact Hl).
  destruct (TI_live_get _ _ _ H2 Hl2) as (o2 & Ho2 & Hlo2).
  apply wp_bind. apply wp_rdf. exists o2. split; [exact Ho2|].
  destruct (R_kids _ _ HR2 _ _ Ho2 Hlo2) as (Hf2 & _). rewrite Hf2, Hk2, Ek. cbn [hd].
  assert (Hln2 : glive g2 (o_first oo)) by (apply (shape_eq_glive _ _ _ S2); exact Hln).
  apply wp_bind. apply wp_objectAt'; [apply (TI_ObjectAt _ _ _ H2 Hln2)|].
  destruct (TI_live_get _ _ _ H2 Hln2) as (no2 & Hno2 & _).
  apply wp_bind. apply wp_wrf; [eauto|].
  match goal with |- wp _ _ ?st _ => set (s3 := st) end.
  assert (H3 : TI s3 g2).
  { unfold s3. apply TI_tset; auto.
    - intros o _. unfold lk_eq. cbn [o_opcode o_index o_parent o_prev o_next o_first o_last set_value]. repeat split; auto.
    - intros o Ho Hlo. cbn [o_infoIndex set_value]. apply (ti_info _ _ H2 _ _ Ho Hlo).
    - intros o _. cbn [o_value set_value]. pcbn.
      destruct Hsl as (d & Hd & Hins). destruct Hins as [Hz|(p & Hp & Hle)]; [unfold aml_amlNameLen in Elen; lia|].
      rewrite Hp. replace (p_tables (with_tree s1 t2)) with (p_tables s1) by reflexivity.
      apply (slice_tail_ok _ tbl p (s_len sl)); [unfold aml_amlNameLen in Elen; lia|].
      exists d. split; auto. right. exists p. destruct sl as [ptr len]. cbn [s_ptr s_len] in *. subst ptr. auto. }
  assert (J3 : J s3 g2).
  { unfold s3. assert (Ekx : kids g x <> []) by (rewrite Ek; discriminate).
    pose proof (J_reloc s1 g x oo op fl af (o_parent oo) targetObj t2 g2
      (Some (bytesValue tbl (mkSlice (match s_ptr sl with Some p => Some (p + (s_len sl - aml_amlNameLen)) | None => None end) aml_amlNameLen)))
      H1 HJ1 Hoo1 Erow Enamed Enotsb Ehandle Hin Htg_sb Htgt Ekx Hpf2 S2 R2 Hkf2) as JJ.
    rewrite Ek in JJ. cbn [hd] in JJ. exact JJ. }
  apply wp_bind. apply wp_counters. apply wp_ret.
  apply (Hloop _ g2); auto. apply TI_counters. exact H3.
Qed.

Lemma reloc_all : forall fuel, RL_spec fuel /\ RLloop_spec fuel.
Proof.
  induction fuel as [|fuel (IHc & IHl)].
  - split; intro; intros; cbn [relocateNamedObjects relocate_loop]; apply wp_outOfFuel; exact I.
  - split; [apply step_RL; exact IHl|apply step_RLloop; assumption].
Qed.
End Reloc.

(** relocateNamedObjects from the root scope: never panics, keeps the invariants *)
Theorem relocateNamedObjects_never_panics : forall fuel s g,
  R (p_tree s) g -> info_valid (p_tree s) -> pool_ok (p_tables s) (p_tree s) -> glive g 0 ->
  (exists o, tget (p_tree s) 0 = Some o /\ o_opcode o = aml_pOpIntScopeBlock) ->
  match relocateNamedObjects fuel 0 s with
  | Ok (_, s') => exists g', R (p_tree s') g' /\ info_valid (p_tree s') /\ pool_ok (p_tables s') (p_tree s') /\ glive g' 0
  | Panic => False
  | OutOfFuel => True
  end.
Proof.
  intros fuel s g HR Hi Hp H0 Hroot.
  pose proof (proj1 (reloc_all (fun _ _ => True) (fun _ _ _ _ _ _ => I) ltac:(intros; exact I) fuel) 0 s g (mkTI _ _ HR Hi Hp) I H0 H0 (fun _ => Hroot)) as W. unfold wp in W.
  destruct (relocateNamedObjects fuel 0 s) as [[r s']| |]; auto.
  destruct W as (g' & [A B C] & S' & _). exists g'. split; auto. split; auto. split; auto.
  apply (shape_eq_glive _ _ _ S'). exact H0.
Qed.

(** the hypotheses are satisfiable: a state whose pool holds just the root ScopeBlock *)
Lemma reloc_hyps_example :
  exists (s : pstate) (g : ghost),
    R (p_tree s) g /\ info_valid (p_tree s) /\ pool_ok (p_tables s) (p_tree s) /\ glive g 0 /\
    (exists o, tget (p_tree s) 0 = Some o /\ o_opcode o = aml_pOpIntScopeBlock).
Proof.
  assert (Hnk : newok opScopeBlock) by (apply newokb_sound; reflexivity).
  destruct Hnk as (Hnf & Hmaps & i0 & Hi0 & Hinfo).
  destruct (newObject_R (@NewObjectTree value) ghost0 opScopeBlock 0 R_empty) as (t' & p & E & HR' & _ & Hp).
  { split; auto. split; auto. intros _. cbn. pose proof Inv_val. lia. }
  destruct (newObject_shape _ _ _ _ _ E) as ((po & Hpo & Hop & Hidx & _ & Hval) & _ & Hbw & Hl1 & _).
  destruct (new_slot_fresh (@NewObjectTree value) ghost0 opScopeBlock 0 R_empty) as (_ & F2 & _ & F4).
  cbn [g_free ghost0] in Hp. cbn [NewObjectTree t_pool length] in Hp, Hl1. change (N.of_nat 0) with 0 in Hp. subst p.
  assert (Hall : forall i o, tget t' i = Some o -> i = 0 /\ o = po).
  { intros i o Hg. destruct (N.eqb_spec i 0) as [->|Hne]; [split; congruence|].
    specialize (Hbw i o Hne Hg). unfold TreeSpec.get in Hbw. cbn [NewObjectTree t_pool] in Hbw. destruct (N.to_nat i); discriminate. }
  exists (mkP (init_reader [] 0) t' [] [] 0 0 0 0 false 1 []), (astep ghost0 (OpNew opScopeBlock 0)).
  cbn [p_tree p_tables].
  split; [exact HR'|]. split; [|split; [|split; [exact F2|]]].
  - intros i o Hg Hl. destruct (Hall i o Hg) as (-> & ->). rewrite pOpcodeTableIndex_eq, Hi0 in Hidx. inversion Hidx as [Hii].
    rewrite <- Hii. exact Hinfo.
  - unfold pool_ok. rewrite Forall_forall. intros o Hin. destruct (In_nth_error _ _ Hin) as (n & Hn).
    assert (Hg : tget t' (N.of_nat n) = Some o) by (unfold TreeSpec.get; rewrite Nat2N.id; exact Hn).
    destruct (Hall _ _ Hg) as (_ & ->). rewrite Hval. exact I.
  - exists po. split; [exact Hpo|exact Hop].
Qed.
