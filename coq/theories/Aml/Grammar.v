(** Layer 5 of the AML development: the grammar side of C11.   Definitions only.

    - [ast]: the supported subset of AML (DefScope, Device, Method, Name, OpRegion, Field / IndexField /
      BankField with every field-element kind, Mutex, Event, Processor, PowerRes, ThermalZone,
      constants, strings, buffers, packages, If / Else / While, fixed-arity operators, name
      references, method calls with nested args).  Every package carries the width [k] of its
      PkgLength encoding, every name string its form (root / carets / multi-name prefix).
    - [encode : ast -> list N]: the byte encoding (the generator's Python encoder is re-checked
      against it on every case).
    - the SPECIFICATION [ns : list (list ast) -> list (list N)]: the namespace ACPI's scoping rules
      assign to a sequence of tables, computed directly on the AST: each named object at its absolute
      path with its kind and rendered arguments.  It shares nothing with the parser model
      (Aml/Parser.v): no reader, no object pool, no passes.
    - [dec_ast]: decoder of the flat case format. *)
From Coq Require Import NArith List Bool.
From FF Require Import Lib.Word.
Import ListNotations.
Local Open Scope N_scope.

Record namestr : Type := mkName { n_root : bool; n_carets : N; n_multi : bool; n_segs : list N }.

Inductive felem : Type :=
| FNamed (seg k width : N)
| FReserved (k width : N)
| FAccess (ty attr : N)
| FExtAccess (ty attr len : N)
| FConnName (nm : namestr)
| FConnBuf (k szop : N) (bytes : list N).

Inductive ast : Type :=
| AConst (op v : N)                       (* Zero / One / Ones / Byte- / Word- / DWord- / QWordPrefix *)
| AData (n v : N)                         (* fixed ByteData / WordData / DWordData argument *)
| AStr (b : list N)
| ABuffer (k : N) (size : ast) (bytes : list N)
| APackage (k n : N) (elems : list ast)
| AOp (op : N) (args : list ast)          (* fixed-arity opcode (Local / Arg / Store / Add / Return / ...) *)
| ANull                                   (* NullName in a target position *)
| ARef (nm : namestr)
| ACall (nm : namestr) (args : list ast)
| AIf (k : N) (pred : ast) (body : list ast)
| AElse (k : N) (body : list ast)
| AWhile (k : N) (pred : ast) (body : list ast)
| AScope (k : N) (nm : namestr) (body : list ast)
| ADevice (k : N) (nm : namestr) (body : list ast)
| AThermal (k : N) (nm : namestr) (body : list ast)
| AProcessor (k : N) (nm : namestr) (id addr len : N) (body : list ast)
| APowerRes (k : N) (nm : namestr) (level order : N) (body : list ast)
| AMethod (k : N) (nm : namestr) (flags : N) (body : list ast)
| AName (nm : namestr) (v : ast)
| AOpRegion (nm : namestr) (space : N) (off len : ast)
| AField (k : N) (region : namestr) (flags : N) (elems : list felem)
| AIndexField (k : N) (idx data : namestr) (flags : N) (elems : list felem)
| ABankField (k : N) (region bank : namestr) (bankval : ast) (flags : N) (elems : list felem)
| AMutex (nm : namestr) (sync : N)
| AEvent (nm : namestr).

(** ---- opcodes used by the grammar (values as in parser_opcode_table.go; the check compares them
    with the generated constants in Props/C11_examples.v) ---- *)
Definition OP_BYTE := 0x0a. Definition OP_WORD := 0x0b. Definition OP_DWORD := 0x0c. Definition OP_QWORD := 0x0e.
Definition OP_STRING := 0x0d. Definition OP_SCOPE := 0x10. Definition OP_BUFFER := 0x11. Definition OP_PACKAGE := 0x12.
Definition OP_METHOD := 0x14. Definition OP_NAME := 0x08. Definition OP_IF := 0xa0. Definition OP_ELSE := 0xa1.
Definition OP_WHILE := 0xa2. Definition OP_NOOP := 0xa3.
Definition OP_MUTEX := 0x100. Definition OP_EVENT := 0x101. Definition OP_OPREGION := 0x17f. Definition OP_FIELD := 0x180.
Definition OP_DEVICE := 0x181. Definition OP_PROCESSOR := 0x182. Definition OP_POWERRES := 0x183. Definition OP_THERMAL := 0x184.
Definition OP_INDEXFIELD := 0x185. Definition OP_BANKFIELD := 0x186.
Definition OP_SCOPEBLOCK := 0x1f6. Definition OP_BYTELIST := 0x1f7. Definition OP_CONNECTION := 0x1f8. Definition OP_NAMEDFIELD := 0x1f9.
Definition TOK_NAMEREF := 0x300. Definition TOK_CALL := 0x301.

(** ---- encode ---- *)
Definition seg_bytes (v : N) : list N :=
  [N.land (N.shiftr v 24) 0xff; N.land (N.shiftr v 16) 0xff; N.land (N.shiftr v 8) 0xff; N.land v 0xff].

Fixpoint le_bytes (cnt : nat) (v : N) : list N :=
  match cnt with O => [] | S c => N.land v 0xff :: le_bytes c (N.shiftr v 8) end.

(** PkgLength value [v] in [k] bytes *)
Definition enc_pkglen (k v : N) : list N :=
  if k =? 1 then [v]
  else N.lor (N.shiftl (k - 1) 6) (N.land v 0xf) :: le_bytes (N.to_nat (k - 1)) (N.shiftr v 4).

Definition enc_op (op : N) : list N := if op <=? 0xff then [op] else [0x5b; op - 0xff].

Definition lenN {A} (l : list A) : N := N.of_nat (length l).

Definition enc_pkg (op k : N) (body : list N) : list N := enc_op op ++ enc_pkglen k (k + lenN body) ++ body.

Definition enc_name (n : namestr) : list N :=
  (if n_root n then [0x5c] else []) ++ repeat 0x5e (N.to_nat (n_carets n)) ++
  match n_segs n with
  | [] => [0x00]
  | segs =>
      (if n_multi n || (2 <? lenN segs) then [0x2f; lenN segs]
       else if lenN segs =? 2 then [0x2e] else []) ++ flat_map seg_bytes segs
  end.

Definition const_bytes (op : N) : nat :=
  if op =? OP_BYTE then 1 else if op =? OP_WORD then 2 else if op =? OP_DWORD then 4 else if op =? OP_QWORD then 8 else 0.

Definition enc_felem (e : felem) : list N :=
  match e with
  | FNamed seg k w => seg_bytes seg ++ enc_pkglen k w
  | FReserved k w => 0x00 :: enc_pkglen k w
  | FAccess ty attr => [0x01; ty; attr]
  | FExtAccess ty attr len => [0x03; ty; attr; len]
  | FConnName nm => 0x02 :: enc_name nm
  | FConnBuf k szop bytes =>
      let body := szop :: le_bytes (const_bytes szop) (lenN bytes) ++ bytes in
      [0x02; OP_BUFFER] ++ enc_pkglen k (k + lenN body) ++ body
  end.

Fixpoint encode (a : ast) : list N :=
  match a with
  | AConst op v => enc_op op ++ le_bytes (const_bytes op) v
  | AData n v => le_bytes (N.to_nat n) v
  | AStr b => OP_STRING :: b ++ [0]
  | ABuffer k size bytes => enc_pkg OP_BUFFER k (encode size ++ bytes)
  | APackage k n elems => enc_pkg OP_PACKAGE k (n :: flat_map encode elems)
  | AOp op args => enc_op op ++ flat_map encode args
  | ANull => [0x00]
  | ARef nm => enc_name nm
  | ACall nm args => enc_name nm ++ flat_map encode args
  | AIf k pred body => enc_pkg OP_IF k (encode pred ++ flat_map encode body)
  | AElse k body => enc_pkg OP_ELSE k (flat_map encode body)
  | AWhile k pred body => enc_pkg OP_WHILE k (encode pred ++ flat_map encode body)
  | AScope k nm body => enc_pkg OP_SCOPE k (enc_name nm ++ flat_map encode body)
  | ADevice k nm body => enc_pkg OP_DEVICE k (enc_name nm ++ flat_map encode body)
  | AThermal k nm body => enc_pkg OP_THERMAL k (enc_name nm ++ flat_map encode body)
  | AProcessor k nm id addr len body => enc_pkg OP_PROCESSOR k (enc_name nm ++ [id] ++ le_bytes 4 addr ++ [len] ++ flat_map encode body)
  | APowerRes k nm level order body => enc_pkg OP_POWERRES k (enc_name nm ++ [level] ++ le_bytes 2 order ++ flat_map encode body)
  | AMethod k nm flags body => enc_pkg OP_METHOD k (enc_name nm ++ [flags] ++ flat_map encode body)
  | AName nm v => OP_NAME :: enc_name nm ++ encode v
  | AOpRegion nm space off len => enc_op OP_OPREGION ++ enc_name nm ++ [space] ++ encode off ++ encode len
  | AField k region flags elems => enc_pkg OP_FIELD k (enc_name region ++ [flags] ++ flat_map enc_felem elems)
  | AIndexField k idx data flags elems => enc_pkg OP_INDEXFIELD k (enc_name idx ++ enc_name data ++ [flags] ++ flat_map enc_felem elems)
  | ABankField k region bank bankval flags elems =>
      enc_pkg OP_BANKFIELD k (enc_name region ++ enc_name bank ++ encode bankval ++ [flags] ++ flat_map enc_felem elems)
  | AMutex nm sync => enc_op OP_MUTEX ++ enc_name nm ++ [sync]
  | AEvent nm => enc_op OP_EVENT ++ enc_name nm
  end.

Definition encode_table (t : list ast) : list N := flat_map encode t.

(** ---- the specification ---- *)
Definition path : Type := list N.

Fixpoint path_eqb (a b : path) : bool :=
  match a, b with
  | [], [] => true
  | x :: a', y :: b' => (x =? y) && path_eqb a' b'
  | _, _ => false
  end.

Definition env : Type := list (path * N).       (* declared absolute paths with their kind *)

Fixpoint env_mem (e : env) (p : path) : bool :=
  match e with [] => false | (q, _) :: r => path_eqb p q || env_mem r p end.

Definition env_add (e : env) (p : path) (kind : N) : env := if env_mem e p then e else e ++ [(p, kind)].

Definition seg4 (a b c d : N) : N := ((a * 256 + b) * 256 + c) * 256 + d.
Definition default_scopes : env :=
  [([], OP_SCOPEBLOCK); ([seg4 0x5f 0x47 0x50 0x45], OP_SCOPEBLOCK); ([seg4 0x5f 0x50 0x52 0x5f], OP_SCOPEBLOCK);
   ([seg4 0x5f 0x53 0x42 0x5f], OP_SCOPEBLOCK); ([seg4 0x5f 0x53 0x49 0x5f], OP_SCOPEBLOCK); ([seg4 0x5f 0x54 0x5a 0x5f], OP_SCOPEBLOCK)].

(** the scope a name starts from: the root for [\], [carets] levels up otherwise ([None] above the root) *)
Definition start_scope (scope : path) (n : namestr) : option path :=
  if n_root n then Some []
  else if lenN scope <? n_carets n then None
  else Some (firstn (length scope - N.to_nat (n_carets n)) scope).

(** absolute path of a declaration: purely syntactic *)
Definition decl_path (scope : path) (n : namestr) : option path :=
  match start_scope scope n, n_segs n with
  | Some st, _ :: _ => Some (st ++ n_segs n)
  | _, _ => None
  end.

(** upward search for a single segment: scope, then each enclosing scope *)
Fixpoint search_up (fuel : nat) (e : env) (scope : path) (s : N) : option path :=
  if env_mem e (scope ++ [s]) then Some (scope ++ [s])
  else match fuel with
       | O => None
       | S f => match scope with
                | [] => None
                | _ => search_up f e (removelast scope) s
                end
       end.

(** ACPI reference rules *)
Definition lookup (e : env) (scope : path) (n : namestr) : option path :=
  match start_scope scope n with
  | None => None
  | Some st =>
      match n_segs n with
      | [s] => if negb (n_root n) && (n_carets n =? 0) then search_up (length scope) e scope s
               else let p := st ++ [s] in if env_mem e p then Some p else None
      | segs => let p := st ++ segs in if env_mem e p then Some p else None
      end
  end.

Definition named_felems (scope : path) (elems : list felem) (e : env) : env :=
  fold_left (fun acc el => match el with FNamed s _ _ => env_add acc (scope ++ [s]) OP_NAMEDFIELD | _ => acc end) elems e.

(** one pass: add the path of every declaration whose scope is resolved in [e0] *)
Fixpoint collect (e0 : env) (scope : path) (a : ast) (out : env) : env :=
  let body := fix body (l : list ast) (sc : path) (out : env) : env :=
                match l with [] => out | x :: r => body r sc (collect e0 sc x out) end in
  let decl (nm : namestr) (kind : N) (b : list ast) (out : env) : env :=
      match decl_path scope nm with
      | Some p => body b p (env_add out p kind)
      | None => out
      end in
  match a with
  | AScope _ nm b => match lookup e0 scope nm with Some p => body b p out | None => out end
  | ADevice _ nm b => decl nm OP_DEVICE b out
  | AThermal _ nm b => decl nm OP_THERMAL b out
  | AProcessor _ nm _ _ _ b => decl nm OP_PROCESSOR b out
  | APowerRes _ nm _ _ b => decl nm OP_POWERRES b out
  | AMethod _ nm _ b => decl nm OP_METHOD b out
  | AName nm _ => decl nm OP_NAME [] out
  | AOpRegion nm _ _ _ => decl nm OP_OPREGION [] out
  | AMutex nm _ => decl nm OP_MUTEX [] out
  | AEvent nm => decl nm OP_EVENT [] out
  | AField _ _ _ elems | AIndexField _ _ _ _ elems | ABankField _ _ _ _ _ elems => named_felems scope elems out
  | _ => out
  end.

Definition collect_tables (e0 : env) (tables : list (list ast)) : env :=
  fold_left (fun out t => fold_left (fun o a => collect e0 [] a o) t out) tables e0.

Fixpoint count_scopes (a : ast) : nat :=
  let cl := fix cl (l : list ast) : nat := match l with [] => O | x :: r => (count_scopes x + cl r)%nat end in
  match a with
  | AScope _ _ b => S (cl b)
  | ADevice _ _ b | AThermal _ _ b | AProcessor _ _ _ _ _ b | APowerRes _ _ _ _ b | AMethod _ _ _ b => cl b
  | _ => O
  end.

(** iterate [collect_tables] until nothing new is resolved: every round resolves at least one more Scope
    directive or is the last, so (number of Scope directives + 2) rounds suffice *)
Fixpoint resolve_go (fuel : nat) (tables : list (list ast)) (e : env) : env :=
  match fuel with
  | O => e
  | S f => let e' := collect_tables e tables in
           if Nat.eqb (length e') (length e) then e else resolve_go f tables e'
  end.

Definition resolve_env (tables : list (list ast)) : env :=
  resolve_go (2 + fold_left (fun n t => fold_left (fun m a => (m + count_scopes a)%nat) t n) tables O) tables default_scopes.

(** ---- rendering ---- *)
Definition tok_path (p : path) : list N := lenN p :: p.
Definition tok_const (op v : N) : list N := [op; 1; v; 0].
Definition tok_bytes (op : N) (b : list N) : list N := [op; 2; lenN b] ++ b ++ [0].

Definition r_name (e : env) (scope : path) (n : namestr) : list N :=
  match lookup e scope n with
  | Some p => [TOK_NAMEREF; 1] ++ tok_path p
  | None =>
      let raw := match n_segs n with [] => removelast (enc_name n) | _ => enc_name n end in
      [TOK_NAMEREF; 0; lenN raw] ++ raw
  end.

Definition is_null (a : ast) : bool := match a with ANull => true | _ => false end.
Definition is_noop (a : ast) : bool := match a with AOp op _ => op =? OP_NOOP | _ => false end.

Definition data_op (n : N) : N := if n =? 1 then OP_BYTE else if n =? 2 then OP_WORD else if n =? 4 then OP_DWORD else OP_QWORD.

Fixpoint r_expr (e : env) (scope : path) (a : ast) : list N :=
  match a with
  | AConst op v => match const_bytes op with O => [op; 0; 0] | _ => tok_const op v end
  | AData n v => tok_const (data_op n) v
  | AStr b => tok_bytes OP_STRING b
  | ABuffer _ size bytes => [OP_BUFFER; 0; 2] ++ r_expr e scope size ++ tok_bytes OP_BYTELIST bytes
  | APackage _ n elems => [OP_PACKAGE; 0; 1 + lenN elems] ++ tok_const OP_BYTE n ++ flat_map (r_expr e scope) elems
  | AOp op args =>
      [op; 0; lenN (filter (fun x => negb (is_null x)) args)] ++ flat_map (fun x => if is_null x then [] else r_expr e scope x) args
  | ARef nm => r_name e scope nm
  | ACall nm args =>
      [TOK_CALL] ++ (match lookup e scope nm with Some p => tok_path p | None => [0xffffffff] end) ++ [lenN args]
      ++ flat_map (r_expr e scope) args
  | _ => [0xdead]                                 (* not an expression *)
  end.

Definition is_decl (a : ast) : bool :=
  match a with
  | AScope _ _ _ | ADevice _ _ _ | AThermal _ _ _ | AProcessor _ _ _ _ _ _ | APowerRes _ _ _ _ _ | AMethod _ _ _ _
  | AName _ _ | AOpRegion _ _ _ _ | AMutex _ _ | AEvent _ => true
  | _ => false
  end.
Definition is_fieldcontainer (a : ast) : bool :=
  match a with AField _ _ _ _ | AIndexField _ _ _ _ _ | ABankField _ _ _ _ _ _ => true | _ => false end.

(** statements: the block extent of If / Else / While is not part of the view (flattened) *)
Fixpoint r_stmt (e : env) (scope : path) (a : ast) : list N :=
  let seq := fix seq (l : list ast) : list N :=
               match l with
               | [] => []
               | x :: r => (if is_decl x || is_fieldcontainer x then [] else r_stmt e scope x) ++ seq r
               end in
  if is_noop a then [] else
  match a with
  | AIf _ pred body => [OP_IF] ++ r_stmt e scope pred ++ seq body
  | AElse _ body => [OP_ELSE] ++ seq body
  | AWhile _ pred body => [OP_WHILE] ++ r_stmt e scope pred ++ seq body
  | _ => r_expr e scope a
  end.

Definition r_seq (e : env) (scope : path) (l : list ast) : list N :=
  flat_map (fun x => if is_decl x || is_fieldcontainer x then [] else r_stmt e scope x) l.

Definition r_conns (e : env) (scope : path) (elems : list felem) : list N :=
  flat_map (fun el => match el with
                      | FConnName nm => [OP_CONNECTION; 0; 1] ++ r_name e scope nm
                      | FConnBuf _ _ bytes => [OP_CONNECTION; 0; 1] ++ tok_bytes OP_BYTELIST bytes
                      | _ => [] end) elems.
Definition n_conns (elems : list felem) : N :=
  lenN (filter (fun el => match el with FConnName _ | FConnBuf _ _ _ => true | _ => false end) elems).

(** field units: (offset, access type / attrib / length, lock, update, ordinal of the connection) *)
Fixpoint field_units (scope : path) (kind : N) (elems : list felem) (off accType accAttr accLen lock upd conn : N) : list (list N) :=
  match elems with
  | [] => []
  | FNamed s _ w :: r =>
      ([1] ++ tok_path (scope ++ [s]) ++ [OP_NAMEDFIELD; kind; off; w; accLen; accType; accAttr; lock; upd; conn])
      :: field_units scope kind r (w32 (off + w)) accType accAttr accLen lock upd conn
  | FReserved _ w :: r => field_units scope kind r (w32 (off + w)) accType accAttr accLen lock upd conn
  | FAccess ty attr :: r => field_units scope kind r off ty attr accLen lock upd conn
  | FExtAccess ty attr len :: r => field_units scope kind r off ty attr len lock upd conn
  | (FConnName _ | FConnBuf _ _ _) :: r => field_units scope kind r off accType accAttr accLen lock upd (conn + 1)
  end.

Definition units_of (scope : path) (kind flags : N) (elems : list felem) : list (list N) :=
  field_units scope kind elems 0 (N.land flags 0xf) 0 0 (N.land (N.shiftr flags 4) 1) (N.land (N.shiftr flags 5) 3) 0.

(** the entries of one statement list item *)
Fixpoint entries (e : env) (scope : path) (a : ast) : list (list N) :=
  let body := fix body (l : list ast) (sc : path) : list (list N) :=
                match l with [] => [] | x :: r => entries e sc x ++ body r sc end in
  let decls := fix decls (l : list ast) (sc : path) : list (list N) :=
                match l with
                | [] => []
                | x :: r => (if is_decl x || is_fieldcontainer x then entries e sc x else []) ++ decls r sc
                end in
  let bad := [[3] ++ tok_path scope] in
  let decl (nm : namestr) (kind : N) (args : path -> list N) (sub : path -> list (list N)) : list (list N) :=
      match decl_path scope nm with
      | Some p => ([1] ++ tok_path p ++ [kind] ++ args p) :: sub p
      | None => bad
      end in
  match a with
  | AScope _ nm b => match lookup e scope nm with Some p => body b p | None => bad end
  | ADevice _ nm b => decl nm OP_DEVICE (fun _ => []) (body b)
  | AThermal _ nm b => decl nm OP_THERMAL (fun _ => []) (body b)
  | AProcessor _ nm id addr len b => decl nm OP_PROCESSOR (fun _ => tok_const OP_BYTE id ++ tok_const OP_DWORD addr ++ tok_const OP_BYTE len) (body b)
  | APowerRes _ nm level order b => decl nm OP_POWERRES (fun _ => tok_const OP_BYTE level ++ tok_const OP_WORD order) (body b)
  | AMethod _ nm flags b => decl nm OP_METHOD (fun p => tok_const OP_BYTE flags ++ r_seq e p b) (decls b)
  | AName nm v => decl nm OP_NAME (fun _ => r_expr e scope v) (fun _ => [])
  | AOpRegion nm space off len => decl nm OP_OPREGION (fun _ => tok_const OP_BYTE space ++ r_expr e scope off ++ r_expr e scope len) (fun _ => [])
  | AMutex nm sync => decl nm OP_MUTEX (fun _ => tok_const OP_BYTE sync) (fun _ => [])
  | AEvent nm => decl nm OP_EVENT (fun _ => []) (fun _ => [])
  | AField _ region flags elems =>
      ([2] ++ tok_path scope ++ [OP_FIELD; 0; 2 + n_conns elems] ++ r_name e scope region ++ tok_const OP_BYTE flags ++ r_conns e scope elems)
      :: units_of scope OP_FIELD flags elems
  | AIndexField _ idx data flags elems =>
      ([2] ++ tok_path scope ++ [OP_INDEXFIELD; 0; 3 + n_conns elems] ++ r_name e scope idx ++ r_name e scope data ++ tok_const OP_BYTE flags ++ r_conns e scope elems)
      :: units_of scope OP_INDEXFIELD flags elems
  | ABankField _ region bank bankval flags elems =>
      ([2] ++ tok_path scope ++ [OP_BANKFIELD; 0; 4 + n_conns elems] ++ r_name e scope region ++ r_name e scope bank ++ r_expr e scope bankval
         ++ tok_const OP_BYTE flags ++ r_conns e scope elems)
      :: units_of scope OP_BANKFIELD flags elems
  | _ => if is_noop a then [] else [[2] ++ tok_path scope ++ r_stmt e scope a]
  end.

(** lexicographic order on lists of numbers, insertion sort *)
Fixpoint lexlt (a b : list N) : bool :=
  match a, b with
  | [], [] => false
  | [], _ :: _ => true
  | _ :: _, [] => false
  | x :: a', y :: b' => if x <? y then true else if y <? x then false else lexlt a' b'
  end.
Fixpoint insert (x : list N) (l : list (list N)) : list (list N) :=
  match l with
  | [] => [x]
  | y :: r => if lexlt y x then y :: insert x r else x :: l
  end.
Definition sort (l : list (list N)) : list (list N) := fold_left (fun acc x => insert x acc) l [].

(** THE SPECIFICATION: the namespace of a sequence of tables *)
Definition ns (tables : list (list ast)) : list (list N) :=
  let e := resolve_env tables in
  sort (flat_map (fun t => flat_map (entries e []) t) tables).

Definition flat_entries (es : list (list N)) : list N :=
  lenN es :: flat_map (fun en => lenN en :: en) es.

(** ---- decoder of the flat case format (checks/amlgen.py ser) ---- *)
Definition take (n : N) (l : list N) : list N * list N := (firstn (N.to_nat n) l, skipn (N.to_nat n) l).

Definition dec_name (l : list N) : option (namestr * list N) :=
  match l with
  | root :: carets :: multi :: n :: rest =>
      let '(segs, rest') := take n rest in
      Some (mkName (negb (root =? 0)) carets (negb (multi =? 0)) segs, rest')
  | _ => None
  end.

Definition dec_bytes (l : list N) : option (list N * list N) :=
  match l with n :: rest => Some (take n rest) | [] => None end.

Definition dec_felem (l : list N) : option (felem * list N) :=
  match l with
  | 0 :: s :: k :: w :: r => Some (FNamed s k w, r)
  | 1 :: k :: w :: r => Some (FReserved k w, r)
  | 2 :: ty :: attr :: r => Some (FAccess ty attr, r)
  | 3 :: ty :: attr :: len :: r => Some (FExtAccess ty attr len, r)
  | 4 :: r => match dec_name r with Some (nm, r') => Some (FConnName nm, r') | None => None end
  | 5 :: k :: szop :: r => match dec_bytes r with Some (b, r') => Some (FConnBuf k szop b, r') | None => None end
  | _ => None
  end.

Fixpoint dec_felems (cnt : nat) (l : list N) : option (list felem * list N) :=
  match cnt with
  | O => Some ([], l)
  | S c => match dec_felem l with
           | Some (e, r) => match dec_felems c r with Some (es, r') => Some (e :: es, r') | None => None end
           | None => None
           end
  end.

Definition dec_felem_list (l : list N) : option (list felem * list N) :=
  match l with n :: r => dec_felems (N.to_nat n) r | [] => None end.

Definition obind {A B} (o : option A) (f : A -> option B) : option B := match o with Some a => f a | None => None end.

Fixpoint dec_ast (fuel : nat) (l : list N) : option (ast * list N) :=
  match fuel with O => None | S fuel =>
  let dec_list := fix dec_list (cnt : nat) (l : list N) : option (list ast * list N) :=
        match cnt with
        | O => Some ([], l)
        | S c => obind (dec_ast fuel l) (fun '(a, r) => obind (dec_list c r) (fun '(as_, r') => Some (a :: as_, r')))
        end in
  let dlist (l : list N) : option (list ast * list N) := match l with n :: r => dec_list (N.to_nat n) r | [] => None end in
  match l with
  | 0 :: op :: v :: r => Some (AConst op v, r)
  | 24 :: n :: v :: r => Some (AData n v, r)
  | 1 :: r => obind (dec_bytes r) (fun '(b, r') => Some (AStr b, r'))
  | 2 :: k :: r => obind (dec_ast fuel r) (fun '(sz, r1) => obind (dec_bytes r1) (fun '(b, r2) => Some (ABuffer k sz b, r2)))
  | 3 :: k :: n :: r => obind (dlist r) (fun '(es, r') => Some (APackage k n es, r'))
  | 4 :: op :: r => obind (dlist r) (fun '(es, r') => Some (AOp op es, r'))
  | 5 :: r => Some (ANull, r)
  | 6 :: r => obind (dec_name r) (fun '(nm, r') => Some (ARef nm, r'))
  | 7 :: r => obind (dec_name r) (fun '(nm, r1) => obind (dlist r1) (fun '(es, r2) => Some (ACall nm es, r2)))
  | 8 :: k :: r => obind (dec_ast fuel r) (fun '(p, r1) => obind (dlist r1) (fun '(b, r2) => Some (AIf k p b, r2)))
  | 9 :: k :: r => obind (dlist r) (fun '(b, r') => Some (AElse k b, r'))
  | 10 :: k :: r => obind (dec_ast fuel r) (fun '(p, r1) => obind (dlist r1) (fun '(b, r2) => Some (AWhile k p b, r2)))
  | 11 :: k :: r => obind (dec_name r) (fun '(nm, r1) => obind (dlist r1) (fun '(b, r2) => Some (AScope k nm b, r2)))
  | 12 :: k :: r => obind (dec_name r) (fun '(nm, r1) => obind (dlist r1) (fun '(b, r2) => Some (ADevice k nm b, r2)))
  | 13 :: k :: r => obind (dec_name r) (fun '(nm, r1) => obind (dlist r1) (fun '(b, r2) => Some (AThermal k nm b, r2)))
  | 14 :: k :: r => obind (dec_name r) (fun '(nm, r1) =>
        match r1 with id :: addr :: len :: r2 => obind (dlist r2) (fun '(b, r3) => Some (AProcessor k nm id addr len b, r3)) | _ => None end)
  | 15 :: k :: r => obind (dec_name r) (fun '(nm, r1) =>
        match r1 with level :: order :: r2 => obind (dlist r2) (fun '(b, r3) => Some (APowerRes k nm level order b, r3)) | _ => None end)
  | 16 :: k :: r => obind (dec_name r) (fun '(nm, r1) =>
        match r1 with flags :: r2 => obind (dlist r2) (fun '(b, r3) => Some (AMethod k nm flags b, r3)) | _ => None end)
  | 17 :: r => obind (dec_name r) (fun '(nm, r1) => obind (dec_ast fuel r1) (fun '(v, r2) => Some (AName nm v, r2)))
  | 18 :: r => obind (dec_name r) (fun '(nm, r1) =>
        match r1 with space :: r2 => obind (dec_ast fuel r2) (fun '(off, r3) => obind (dec_ast fuel r3) (fun '(len, r4) => Some (AOpRegion nm space off len, r4))) | _ => None end)
  | 19 :: k :: r => obind (dec_name r) (fun '(rg, r1) =>
        match r1 with flags :: r2 => obind (dec_felem_list r2) (fun '(es, r3) => Some (AField k rg flags es, r3)) | _ => None end)
  | 20 :: k :: r => obind (dec_name r) (fun '(idx, r1) => obind (dec_name r1) (fun '(dat, r2) =>
        match r2 with flags :: r3 => obind (dec_felem_list r3) (fun '(es, r4) => Some (AIndexField k idx dat flags es, r4)) | _ => None end))
  | 21 :: k :: r => obind (dec_name r) (fun '(rg, r1) => obind (dec_name r1) (fun '(bk, r2) => obind (dec_ast fuel r2) (fun '(bv, r3) =>
        match r3 with flags :: r4 => obind (dec_felem_list r4) (fun '(es, r5) => Some (ABankField k rg bk bv flags es, r5)) | _ => None end)))
  | 22 :: r => obind (dec_name r) (fun '(nm, r1) => match r1 with sync :: r2 => Some (AMutex nm sync, r2) | _ => None end)
  | 23 :: r => obind (dec_name r) (fun '(nm, r1) => Some (AEvent nm, r1))
  | _ => None
  end end.

Fixpoint dec_asts (fuel : nat) (cnt : nat) (l : list N) : option (list ast * list N) :=
  match cnt with
  | O => Some ([], l)
  | S c => obind (dec_ast fuel l) (fun '(a, r) => obind (dec_asts fuel c r) (fun '(as_, r') => Some (a :: as_, r')))
  end.

(** tables = count, then per table: count + items *)
Fixpoint dec_tables_ast (fuel : nat) (cnt : nat) (l : list N) : option (list (list ast)) :=
  match cnt with
  | O => Some []
  | S c => match l with
           | n :: r => obind (dec_asts fuel (N.to_nat n) r) (fun '(t, r') => obind (dec_tables_ast fuel c r') (fun ts => Some (t :: ts)))
           | [] => None
           end
  end.
