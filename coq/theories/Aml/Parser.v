(** Layer 4 of the AML model: kernel/device/acpi/aml/parser.go — the whole of ParseAML.
    Definitions only.

    All passes are modelled: init/resetState, the first pass (parseObjectList, parseNextObject,
    parseObjectArgs, parseArgs, parseArg, parseNamePathOrMethodCall, parseStrictTermArg,
    parseSimpleArg, parseTarget, parseFieldElements, parseByteList, the scope and pkgEnd stacks),
    connectNamedObjArgs, the mergeScopeDirectives / relocateNamedObjects loop, parseDeferredBlocks,
    resolveMethodCalls, connectNonNamedObjArgs and attachSiblingsAsArgs.

    Conventions: a Go [*Object] is a pool position (Aml/Tree.v), nil is [None]; every nil
    dereference, failed type assertion, out-of-range index and explicit panic of the Go code is
    [Panic]; recursion and loops take fuel ([OutOfFuel] when it runs out).  Diagnostics written
    with kfmt.Fprintf to the error writer are not modelled.  Fields are read through the pool at
    the same program points as in the Go code, so aliasing and re-parenting behave as in Go. *)
From Coq Require Import NArith List Bool.
From FF Require Import Lib.Word Gen.Consts_device_acpi_aml Aml.Stream Aml.Lex Aml.Tree.
Import ListNotations.
Local Open Scope N_scope.

(** ---- values stored in Object.value (interface{}) ---- *)
Record fieldElement : Type := mkFE {
  fe_offset : N; fe_width : N; fe_accessLength : N; fe_accessType : N; fe_accessAttrib : N;
  fe_lockType : N; fe_updateType : N; fe_connectionIndex : N; fe_fieldIndex : N
}.

Inductive value : Type :=
| VNum (n : N)                    (* uint64 *)
| VBytes (tbl : N) (s : slice)    (* []byte aliasing table number [tbl] (0-based) *)
| VIdx (i : N)                    (* uint32 *)
| VField (f : fieldElement).      (* *fieldElement *)

Notation T := (ObjectTree value).
Notation Obj := (Object value).

(** parseResult *)
Inductive pres : Type := RFailed | ROk | RShort | RExtra.
Definition pres_eqb (a b : pres) : bool :=
  match a, b with RFailed, RFailed | ROk, ROk | RShort, RShort | RExtra, RExtra => true | _, _ => false end.
Definition pres_of_bool (b : bool) : pres := if b then ROk else RFailed.

(** ---- parser state ---- *)
Record pstate : Type := mkP {
  p_r : reader;
  p_tree : T;
  p_scopeStack : list N;      (* head = top of the stack *)
  p_pkgEndStack : list N;     (* head = top of the stack *)
  p_streamEnd : N;
  p_resolvePasses : N;
  p_mergedScopes : N;
  p_relocatedObjects : N;
  p_allBlocks : bool;         (* mode == parseModeAllBlocks *)
  p_handle : N;               (* tableHandle *)
  p_tables : list (list N)    (* images of the tables loaded so far; the current one is last *)
}.

Definition M (A : Type) : Type := pstate -> outcome (A * pstate).
Definition ret {A} (a : A) : M A := fun s => Ok (a, s).
Definition bindM {A B} (m : M A) (f : A -> M B) : M B :=
  fun s => match m s with Ok (a, s') => f a s' | Panic => Panic | OutOfFuel => OutOfFuel end.
Definition panic {A} : M A := fun _ => Panic.
Definition outOfFuel {A} : M A := fun _ => OutOfFuel.

Notation "'mlet' x <~ e ;; k" := (bindM e (fun x => k)) (at level 200, x name, e at level 99, k at level 200, right associativity).
Notation "'mlet' ' p <~ e ;; k" := (bindM e (fun x => match x with p => k end)) (at level 200, p pattern, e at level 99, k at level 200, right associativity).
Notation "e ;;; k" := (bindM e (fun _ => k)) (at level 100, k at level 200, right associativity).

Definition with_r (s : pstate) (r : reader) : pstate :=
  mkP r (p_tree s) (p_scopeStack s) (p_pkgEndStack s) (p_streamEnd s) (p_resolvePasses s) (p_mergedScopes s) (p_relocatedObjects s) (p_allBlocks s) (p_handle s) (p_tables s).
Definition with_tree (s : pstate) (t : T) : pstate :=
  mkP (p_r s) t (p_scopeStack s) (p_pkgEndStack s) (p_streamEnd s) (p_resolvePasses s) (p_mergedScopes s) (p_relocatedObjects s) (p_allBlocks s) (p_handle s) (p_tables s).
Definition with_scopeStack (s : pstate) (l : list N) : pstate :=
  mkP (p_r s) (p_tree s) l (p_pkgEndStack s) (p_streamEnd s) (p_resolvePasses s) (p_mergedScopes s) (p_relocatedObjects s) (p_allBlocks s) (p_handle s) (p_tables s).
Definition with_pkgEndStack (s : pstate) (l : list N) : pstate :=
  mkP (p_r s) (p_tree s) (p_scopeStack s) l (p_streamEnd s) (p_resolvePasses s) (p_mergedScopes s) (p_relocatedObjects s) (p_allBlocks s) (p_handle s) (p_tables s).
Definition with_counters (s : pstate) (passes merged relocated : N) : pstate :=
  mkP (p_r s) (p_tree s) (p_scopeStack s) (p_pkgEndStack s) (p_streamEnd s) passes merged relocated (p_allBlocks s) (p_handle s) (p_tables s).
Definition with_allBlocks (s : pstate) (b : bool) : pstate :=
  mkP (p_r s) (p_tree s) (p_scopeStack s) (p_pkgEndStack s) (p_streamEnd s) (p_resolvePasses s) (p_mergedScopes s) (p_relocatedObjects s) b (p_handle s) (p_tables s).

Definition get {A} (f : pstate -> A) : M A := fun s => Ok (f s, s).
Definition lift {A} (o : outcome A) : M A := fun s => match o with Ok a => Ok (a, s) | Panic => Panic | OutOfFuel => OutOfFuel end.

(** tree access *)
Definition tq {A} (f : T -> outcome A) : M A := fun s => lift (f (p_tree s)) s.
Definition tu (f : T -> outcome T) : M unit :=
  fun s => match f (p_tree s) with Ok t => Ok (tt, with_tree s t) | Panic => Panic | OutOfFuel => OutOfFuel end.
Definition rdf (p : N) (f : Obj -> N) : M N := tq (fun t => rd t p f).
Definition rdo (p : N) : M Obj := tq (fun t => deref t p).
Definition wrf (p : N) (f : Obj -> Obj) : M unit := tu (fun t => wr t p f).
Definition objectAt (index : N) : M (option N) := get (fun s => ObjectAt (p_tree s) index).
(** dereference of a possibly-nil pointer *)
Definition need (o : option N) : M N := match o with Some p => ret p | None => panic end.
Definition objectAt' (index : N) : M N := mlet o <~ objectAt index ;; need o.

Definition newObj (opcode : N) : M N :=
  fun s => match newObject (p_tree s) opcode (p_handle s) with
           | Ok (t, p) => Ok (p, with_tree s t) | Panic => Panic | OutOfFuel => OutOfFuel end.
Definition appendM (obj : option N) (arg : N) : M unit := mlet o <~ need obj ;; tu (fun t => append t o arg).
Definition detachM (obj : option N) (arg : option N) : M unit :=
  (* detach(obj, arg) reads obj.firstArgIndex first, then arg.index *)
  mlet o <~ need obj ;; mlet a <~ need arg ;; tu (fun t => detach t o a).
Definition freeM (obj : N) : M unit := tu (fun t => free t obj).

(** pOpcodeTable[infoIndex] : (op, flags, argFlags) *)
Definition info (infoIndex : N) : M (N * N * N) :=
  match opInfo infoIndex with Some i => ret i | None => panic end.
Definition tableIndex (op : N) (internal : bool) : M N :=
  match opcodeTableIndex op internal with Some i => ret i | None => panic end.
Definition hasFlag (flags f : N) : bool := negb (N.land flags f =? 0).

(** reader access *)
Definition rq {A} (f : reader -> A) : M A := get (fun s => f (p_r s)).
Definition ru (f : reader -> reader) : M unit := fun s => Ok (tt, with_r s (f (p_r s))).
Definition lex {A} (f : reader -> outcome (A * bool * reader)) : M (A * bool) :=
  fun s => match f (p_r s) with Ok (a, ok, r) => Ok ((a, ok), with_r s r) | Panic => Panic | OutOfFuel => OutOfFuel end.
Definition readByteM : M (option N) :=
  fun s => match readByte (p_r s) with Ok (b, r) => Ok (b, with_r s r) | Panic => Panic | OutOfFuel => OutOfFuel end.
Definition eofM : M bool := rq eof.
Definition offsetM : M N := rq r_offset.
Definition setPkgEndM (e : N) : M bool :=
  fun s => let '(r, ok) := setPkgEnd (p_r s) e in Ok (ok, with_r s r).
Definition setOffsetM (o : N) : M unit := ru (fun r => setOffset r o).

(** the index (0-based) of the table being parsed *)
Definition curTable : M N := get (fun s => N.of_nat (length (p_tables s)) - 1).

(** storing a []byte into the interface: a slice header with a nil data pointer is stored as the
    nil slice (runtime.convTslice), whatever its length *)
Definition bytesValue (tbl : N) (s : slice) : value :=
  match s_ptr s with Some _ => VBytes tbl s | None => VBytes tbl nil_slice end.

(** the bytes of a []byte value; reading outside the table is a stray read *)
Fixpoint take_bytes (d : list N) (start : nat) (len : nat) : option (list N) :=
  match len with
  | O => Some []
  | S len' => match nth_error d start with
              | Some b => match take_bytes d (S start) len' with Some l => Some (b :: l) | None => None end
              | None => None
              end
  end.
Definition slice_bytes (s : pstate) (tbl : N) (sl : slice) : outcome (list N) :=
  if s_len sl =? 0 then Ok [] else
  match s_ptr sl, nth_error (p_tables s) (N.to_nat tbl) with
  | Some p, Some d => match take_bytes d (N.to_nat p) (N.to_nat (s_len sl)) with Some l => Ok l | None => Panic end
  | _, _ => Panic
  end.
Definition bytesOf (tbl : N) (sl : slice) : M (list N) := fun s => lift (slice_bytes s tbl sl) s.

(** ---- stacks ---- *)
Definition scopeCurrent : M (option N) :=
  mlet st <~ get p_scopeStack ;;
  match st with
  | [] => panic                                   (* p.scopeStack[len-1] with an empty stack *)
  | top :: _ => objectAt top
  end.
Definition scopeEnter (index : N) : M unit := fun s => Ok (tt, with_scopeStack s (index :: p_scopeStack s)).
Definition scopeExit : M unit :=
  fun s => match p_scopeStack s with [] => Panic | _ :: rest => Ok (tt, with_scopeStack s rest) end.

Definition pushPkgEnd (e : N) : M bool :=
  (fun s => Ok (tt, with_pkgEndStack s (e :: p_pkgEndStack s))) ;;; setPkgEndM e.
Definition popPkgEnd : M unit :=
  fun s =>
    let st := match p_pkgEndStack s with [] => [] | _ :: rest => rest end in
    let s1 := with_pkgEndStack s st in
    match st with
    | [] => Ok (tt, s1)
    | top :: _ => Ok (tt, with_r s1 (fst (setPkgEnd (p_r s1) top)))
    end.

(** ---- small loops ---- *)
Definition name_set (nm : Name) (i : nat) (b : N) : Name :=
  let '(a0, a1, a2, a3) := nm in
  match i with O => (b, a1, a2, a3) | 1%nat => (a0, b, a2, a3) | 2%nat => (a0, a1, b, a3) | _ => (a0, a1, a2, b) end.

(** first argument index whose type is TermArg or DataRefObj (argCount if none) *)
Fixpoint termArgIndex_go (cnt : nat) (i : N) (argFlags argCnt : N) : N :=
  match cnt with
  | O => i
  | S c => if argCnt <=? i then i
           else let ty := argType argFlags i in
                if (ty =? aml_pArgTypeTermArg) || (ty =? aml_pArgTypeDataRefObj) then i
                else termArgIndex_go c (i + 1) argFlags argCnt
  end.
Definition termArgIndex (argFlags : N) : N := termArgIndex_go 8 0 argFlags (argCount argFlags).

(** ---- parseByteList (with the bounds check of commit 984f446) ---- *)
Definition parseByteList (obj : N) (dataLen : N) : M pres :=
  mlet r <~ get p_r ;;
  let offset := r_offset r in
  if (r_pkgEnd r <? offset) || (w32 (r_pkgEnd r + two32 - offset) <? dataLen) then ret RFailed else
  wrf obj (set_opcode aml_pOpIntByteList) ;;;
  mlet idx <~ tableIndex aml_pOpIntByteList true ;;
  wrf obj (fun o => mkObject (o_opcode o) idx (o_tableHandle o) (o_name o) (o_index o) (o_parent o) (o_prev o) (o_next o) (o_first o) (o_last o) (o_amlOffset o) (o_pkgEnd o) (o_value o)) ;;;
  mlet ptr <~ lift (dataPtr r) ;;
  mlet tbl <~ curTable ;;
  wrf obj (set_value (Some (bytesValue tbl (mkSlice ptr dataLen)))) ;;;
  setOffsetM (w32 (offset + dataLen)) ;;;
  ret ROk.

Definition set_infoIndex (v : N) (o : Obj) : Obj :=
  mkObject (o_opcode o) v (o_tableHandle o) (o_name o) (o_index o) (o_parent o) (o_prev o) (o_next o) (o_first o) (o_last o) (o_amlOffset o) (o_pkgEnd o) (o_value o).

(** ---- parseSimpleArg ---- *)
Definition parseSimpleArg (argTy : N) : M (option N * pres) :=
  mlet obj <~ newObj 0 ;;
  mlet off <~ offsetM ;;
  wrf obj (set_amlOffset off) ;;;
  mlet tbl <~ curTable ;;
  let num (op bytes : N) : M (option N * pres) :=
    wrf obj (set_opcode op) ;;;
    mlet '(v, ok) <~ lex (parseNumConstant bytes) ;;
    wrf obj (set_value (Some (VNum v))) ;;;
    mlet idx <~ tableIndex op true ;;
    wrf obj (set_infoIndex idx) ;;;
    ret (Some obj, pres_of_bool ok) in
  let str (op : N) (f : reader -> outcome (slice * bool * reader)) : M (option N * pres) :=
    wrf obj (set_opcode op) ;;;
    mlet '(v, ok) <~ lex f ;;
    wrf obj (set_value (Some (bytesValue tbl v))) ;;;
    mlet idx <~ tableIndex op true ;;
    wrf obj (set_infoIndex idx) ;;;
    ret (Some obj, pres_of_bool ok) in
  if argTy =? aml_pArgTypeByteData then num aml_pOpBytePrefix 1
  else if argTy =? aml_pArgTypeWordData then num aml_pOpWordPrefix 2
  else if argTy =? aml_pArgTypeDwordData then num aml_pOpDwordPrefix 4
  else if argTy =? aml_pArgTypeQwordData then num aml_pOpQwordPrefix 8
  else if argTy =? aml_pArgTypeString then str aml_pOpStringPrefix parseString
  else if argTy =? aml_pArgTypeNameString then str aml_pOpIntNamePath parseNameString
  else ret (None, RFailed).

(** ---- parseFieldElements ---- *)
Record fstate : Type := mkF {
  f_nextFieldOffset : N; f_accessLength : N; f_accessType : N; f_accessAttrib : N;
  f_lockType : N; f_updateType : N; f_appendAfter : N; f_connectionIndex : N
}.

(** one byte constant for AccessField / ExtAccessField; [None] = parseResultFailed *)
Definition fieldByte : M (option N) :=
  mlet '(v, ok) <~ lex (parseNumConstant 1) ;;
  ret (if ok then Some (N.land v 0xff) else None).

Fixpoint readName_go (cnt : nat) (i : nat) (field : N) : M bool :=
  match cnt with
  | O => ret true
  | S c =>
      mlet b <~ readByteM ;;
      mlet nm <~ tq (fun t => do o <- deref t field; Ok (o_name o)) ;;
      match b with
      | None => wrf field (set_name (name_set nm i 0)) ;;; ret false
      | Some b => wrf field (set_name (name_set nm i b)) ;;; readName_go c (S i) field
      end
  end.

Fixpoint fieldElements_go (fuel : nat) (curObj : N) (f : fstate) : M pres :=
  match fuel with
  | O => outOfFuel
  | S fuel =>
    mlet e <~ eofM ;;
    if e then ret RShort else
    mlet nx <~ readByteM ;;
    let next := match nx with Some b => b | None => 0 end in
    if next =? 0 then
      mlet '(pkgLen, ok) <~ lex parsePkgLength ;;
      if negb ok then ret RFailed else
      fieldElements_go fuel curObj (mkF (w32 (f_nextFieldOffset f + pkgLen)) (f_accessLength f) (f_accessType f) (f_accessAttrib f) (f_lockType f) (f_updateType f) (f_appendAfter f) (f_connectionIndex f))
    else if next =? 1 then
      mlet a <~ fieldByte ;;
      match a with None => ret RFailed | Some accessType =>
      mlet b <~ fieldByte ;;
      match b with None => ret RFailed | Some accessAttrib =>
      fieldElements_go fuel curObj (mkF (f_nextFieldOffset f) (f_accessLength f) accessType accessAttrib (f_lockType f) (f_updateType f) (f_appendAfter f) (f_connectionIndex f))
      end end
    else if next =? 3 then
      mlet a <~ fieldByte ;;
      match a with None => ret RFailed | Some accessType =>
      mlet b <~ fieldByte ;;
      match b with None => ret RFailed | Some accessAttrib =>
      mlet c <~ fieldByte ;;
      match c with None => ret RFailed | Some accessLength =>
      fieldElements_go fuel curObj (mkF (f_nextFieldOffset f) accessLength accessType accessAttrib (f_lockType f) (f_updateType f) (f_appendAfter f) (f_connectionIndex f))
      end end end
    else if next =? 2 then
      mlet nx2 <~ readByteM ;;
      match nx2 with
      | None => ret RFailed
      | Some next2 =>
        mlet connection <~ newObj aml_pOpIntConnection ;;
        mlet connectionIndex <~ rdf connection o_index ;;
        appendM (Some curObj) connection ;;;
        let f' := mkF (f_nextFieldOffset f) (f_accessLength f) (f_accessType f) (f_accessAttrib f) (f_lockType f) (f_updateType f) (f_appendAfter f) connectionIndex in
        if next2 =? w8 aml_pOpBuffer then
          mlet origPkgEnd <~ rq r_pkgEnd ;;
          mlet origOffset <~ offsetM ;;
          mlet '(pkgLen, ok) <~ lex parsePkgLength ;;
          if negb ok then ret RFailed else
          mlet dl <~ (if 0 <? pkgLen then
                   mlet ok2 <~ setPkgEndM (w32 (origOffset + pkgLen)) ;;
                   if negb ok2 then ret None else
                   mlet '(nextOp, ok3) <~ lex nextOpcode ;;
                   if negb ok3 then ret None else
                   if nextOp =? aml_pOpBytePrefix then mlet '(v, ok4) <~ lex (parseNumConstant 1) ;; ret (if ok4 then Some v else None)
                   else if nextOp =? aml_pOpWordPrefix then mlet '(v, ok4) <~ lex (parseNumConstant 2) ;; ret (if ok4 then Some v else None)
                   else if nextOp =? aml_pOpDwordPrefix then mlet '(v, ok4) <~ lex (parseNumConstant 4) ;; ret (if ok4 then Some v else None)
                   else ret (Some 0)
                 else ret (Some 0)) ;;
          match dl with
          | None => ret RFailed
          | Some dataLen =>
            mlet connArg <~ newObj aml_pOpIntByteList ;;
            wrf connArg (set_amlOffset origOffset) ;;;
            mlet res <~ parseByteList connArg (w32 dataLen) ;;
            if negb (pres_eqb res ROk) then ret RFailed else
            setPkgEndM origPkgEnd ;;;
            setOffsetM (w32 (origOffset + pkgLen)) ;;;
            appendM (Some connection) connArg ;;;
            fieldElements_go fuel curObj f'
          end
        else
          ru (fun r => fst (unreadByte r)) ;;;
          mlet connArg <~ newObj aml_pOpIntNamePath ;;
          mlet off <~ offsetM ;;
          wrf connArg (set_amlOffset off) ;;;
          mlet tbl <~ curTable ;;
          mlet '(v, ok) <~ lex parseNameString ;;
          wrf connArg (set_value (Some (bytesValue tbl v))) ;;;
          if negb ok then ret RFailed else
          appendM (Some connection) connArg ;;;
          fieldElements_go fuel curObj f'
      end
    else
      ru (fun r => fst (unreadByte r)) ;;;
      mlet field <~ newObj aml_pOpIntNamedField ;;
      mlet off <~ offsetM ;;
      wrf field (set_amlOffset off) ;;;
      mlet okn <~ readName_go (N.to_nat aml_amlNameLen) 0 field ;;
      if negb okn then ret RFailed else
      mlet '(pkgLen, ok) <~ lex parsePkgLength ;;
      if negb ok then ret RFailed else
      mlet curIndex <~ rdf curObj o_index ;;
      wrf field (set_value (Some (VField (mkFE (f_nextFieldOffset f) pkgLen (f_accessLength f) (f_accessType f) (f_accessAttrib f) (f_lockType f) (f_updateType f) (f_connectionIndex f) curIndex)))) ;;;
      mlet parentIndex <~ rdf curObj o_parent ;;
      mlet parent <~ objectAt' parentIndex ;;
      tu (fun t => appendAfter t parent field (f_appendAfter f)) ;;;
      fieldElements_go fuel curObj (mkF (w32 (f_nextFieldOffset f + pkgLen)) (f_accessLength f) (f_accessType f) (f_accessAttrib f) (f_lockType f) (f_updateType f) field (f_connectionIndex f))
  end.

Definition streamFuel : M nat := get (fun s => S (S (length (r_data (p_r s))))).

Definition parseFieldElements (curObj : N) : M pres :=
  mlet lastIdx <~ rdf curObj o_last ;;
  mlet last <~ objectAt' lastIdx ;;
  mlet lo <~ rdo last ;;
  match o_value lo with
  | Some (VNum v) =>
      let initialFlags := w8 v in
      mlet fuel <~ streamFuel ;;
      fieldElements_go fuel curObj
        (mkF 0 0 (N.land initialFlags 0xf) 0 (N.land (N.shiftr initialFlags 4) 1) (N.land (N.shiftr initialFlags 5) 3) curObj InvalidIndex)
  | _ => panic                          (* .value.(uint64) *)
  end.

(** ---- the mutually recursive first-pass / deferred-pass functions ---- *)

(** value of the ByteData flags arg of a method: [ArgAt(target, 1).value.(uint64) & 0x7] *)
Definition methodArgCountPanic (target : N) : M N :=
  mlet a <~ tq (fun t => ArgAt t (Some target) 1) ;;
  mlet p <~ need a ;;
  mlet o <~ rdo p ;;
  match o_value o with Some (VNum v) => ret (N.land v 7) | _ => panic end.

Fixpoint parseNextObject (fuel : nat) : M pres :=
  match fuel with O => outOfFuel | S fuel =>
  mlet curOffset <~ offsetM ;;
  mlet '(nextOp, ok) <~ lex nextOpcode ;;
  if nextOp =? aml_pOpNoop then ret ROk else
  if negb ok then parseNamePathOrMethodCall fuel else
  mlet curObj <~ newObj nextOp ;;
  wrf curObj (set_amlOffset curOffset) ;;;
  mlet sc <~ scopeCurrent ;;
  appendM sc curObj ;;;
  parseObjectArgs fuel curObj
  end

with parseObjectArgs (fuel : nat) (curObj : N) : M pres :=
  match fuel with O => outOfFuel | S fuel =>
  mlet op <~ rdf curObj o_opcode ;;
  mlet tbl <~ curTable ;;
  mlet res <~ (if op =? aml_pOpBytePrefix then mlet '(v, ok) <~ lex (parseNumConstant 1) ;; wrf curObj (set_value (Some (VNum v))) ;;; ret (pres_of_bool ok)
          else if op =? aml_pOpWordPrefix then mlet '(v, ok) <~ lex (parseNumConstant 2) ;; wrf curObj (set_value (Some (VNum v))) ;;; ret (pres_of_bool ok)
          else if op =? aml_pOpDwordPrefix then mlet '(v, ok) <~ lex (parseNumConstant 4) ;; wrf curObj (set_value (Some (VNum v))) ;;; ret (pres_of_bool ok)
          else if op =? aml_pOpQwordPrefix then mlet '(v, ok) <~ lex (parseNumConstant 8) ;; wrf curObj (set_value (Some (VNum v))) ;;; ret (pres_of_bool ok)
          else if op =? aml_pOpStringPrefix then mlet '(v, ok) <~ lex parseString ;; wrf curObj (set_value (Some (bytesValue tbl v))) ;;; ret (pres_of_bool ok)
          else mlet ii <~ rdf curObj o_infoIndex ;; mlet inf <~ info ii ;; parseArgs fuel inf curObj 0) ;;
  ret (match res with RShort => ROk | r => r end)
  end

with parseArgs (fuel : nat) (inf : N * N * N) (curObj : N) (argIndex : N) : M pres :=
  match fuel with O => outOfFuel | S fuel =>
  let '(_, _, argFlags) := inf in
  let cnt := argCount argFlags in
  if cnt =? 0 then ret ROk else
  if cnt <=? argIndex then ret ROk else
  mlet '(argObj, res) <~ parseArg fuel inf curObj (argType argFlags argIndex) ;;
  (match argObj with Some a => appendM (Some curObj) a | None => ret tt end) ;;;
  if pres_eqb res ROk then parseArgs fuel inf curObj (w8 (argIndex + 1)) else ret res
  end

with parseArg (fuel : nat) (inf : N * N * N) (curObj : N) (argTy : N) : M (option N * pres) :=
  match fuel with O => outOfFuel | S fuel =>
  let '(_, flags, _) := inf in
  if (argTy =? aml_pArgTypeByteData) || (argTy =? aml_pArgTypeWordData) || (argTy =? aml_pArgTypeDwordData) ||
     (argTy =? aml_pArgTypeQwordData) || (argTy =? aml_pArgTypeString) || (argTy =? aml_pArgTypeNameString)
  then parseSimpleArg argTy
  else if argTy =? aml_pArgTypeByteList then
    mlet argObj <~ newObj aml_pOpIntByteList ;;
    mlet r <~ get p_r ;;
    mlet res <~ parseByteList argObj (w32 (r_pkgEnd r + two32 - r_offset r)) ;;
    if pres_eqb res ROk then ret (Some argObj, ROk) else ret (None, RFailed)
  else if argTy =? aml_pArgTypePkgLen then
    mlet origOffset <~ offsetM ;;
    mlet '(pkgLen, ok) <~ lex parsePkgLength ;;
    if negb ok then ret (None, RFailed) else
    mlet allBlocks <~ get p_allBlocks ;;
    if negb allBlocks && hasFlag flags aml_pOpFlagDeferParsing then
      wrf curObj (set_pkgEnd (w32 (origOffset + pkgLen))) ;;;
      setOffsetM (w32 (origOffset + pkgLen)) ;;;
      ret (None, RShort)
    else
      mlet ok2 <~ pushPkgEnd (w32 (origOffset + pkgLen)) ;;
      ret (None, pres_of_bool ok2)
  else if argTy =? aml_pArgTypeFieldList then
    mlet res <~ parseFieldElements curObj ;; ret (None, res)
  else if (argTy =? aml_pArgTypeTermArg) || (argTy =? aml_pArgTypeDataRefObj) then
    mlet allBlocks <~ get p_allBlocks ;;
    if allBlocks then parseStrictTermArg fuel curObj else ret (None, RShort)
  else if argTy =? aml_pArgTypeTermList then
    mlet scope <~ newObj aml_pOpIntScopeBlock ;;
    mlet off <~ offsetM ;;
    wrf scope (set_amlOffset off) ;;;
    mlet scopeIndex <~ rdf scope o_index ;;
    scopeEnter scopeIndex ;;;
    mlet allBlocks <~ get p_allBlocks ;;
    if negb allBlocks then ret (Some scope, RShort) else
    appendM (Some curObj) scope ;;;
    mlet ok <~ termList_go fuel ;;
    if negb ok then ret (None, RFailed) else
    scopeExit ;;;
    detachM (Some curObj) (Some scope) ;;;
    ret (Some scope, ROk)
  else parseTarget fuel
  end

(** [for !p.r.EOF() { if p.parseNextObject() != parseResultOk { fail } }] *)
with termList_go (fuel : nat) : M bool :=
  match fuel with O => outOfFuel | S fuel =>
  mlet e <~ eofM ;;
  if e then ret true else
  mlet res <~ parseNextObject fuel ;;
  if pres_eqb res ROk then termList_go fuel else ret false
  end

with parseNamePathOrMethodCall (fuel : nat) : M pres :=
  match fuel with O => outOfFuel | S fuel =>
  mlet curOffset <~ offsetM ;;
  mlet tbl <~ curTable ;;
  mlet '(pathExpr, ok) <~ lex parseNameString ;;
  if negb ok then ret RFailed else
  mlet allBlocks <~ get p_allBlocks ;;
  if negb allBlocks then
    mlet curObj <~ newObj aml_pOpIntNamePathOrMethodCall ;;
    wrf curObj (set_amlOffset curOffset) ;;;
    wrf curObj (set_value (Some (bytesValue tbl pathExpr))) ;;;
    mlet sc <~ scopeCurrent ;;
    appendM sc curObj ;;;
    ret ROk
  else
    mlet sc <~ scopeCurrent ;;
    mlet anc <~ tq (fun t => ClosestNamedAncestor t sc) ;;
    mlet expr <~ bytesOf tbl pathExpr ;;
    mlet targetIndex <~ tq (fun t => Find t anc expr) ;;
    if targetIndex =? InvalidIndex then ret RFailed else
    mlet target <~ objectAt targetIndex ;;
    mlet curObj <~ newObj aml_pOpIntResolvedNamePath ;;
    wrf curObj (set_amlOffset curOffset) ;;;
    wrf curObj (set_value (Some (VIdx targetIndex))) ;;;
    mlet sc2 <~ scopeCurrent ;;
    appendM sc2 curObj ;;;
    mlet tg <~ need target ;;
    mlet top <~ rdf tg o_opcode ;;
    if negb (top =? aml_pOpMethod) then ret ROk else
    wrf curObj (set_opcode aml_pOpIntMethodCall) ;;;
    mlet idx <~ tableIndex aml_pOpIntMethodCall true ;;
    wrf curObj (set_infoIndex idx) ;;;
    mlet ci <~ rdf curObj o_index ;;
    scopeEnter ci ;;;
    mlet argCnt <~ methodArgCountPanic tg ;;
    mlet ok2 <~ callArgs_go fuel (N.to_nat argCnt) ;;
    scopeExit ;;;
    ret (pres_of_bool ok2)
  end

with callArgs_go (fuel : nat) (cnt : nat) : M bool :=
  match fuel with O => outOfFuel | S fuel =>
  match cnt with
  | O => ret true
  | S c => mlet res <~ parseNextObject fuel ;;
           if pres_eqb res ROk then callArgs_go fuel c else ret false
  end end

with parseStrictTermArg (fuel : nat) (curObj : N) : M (option N * pres) :=
  match fuel with O => outOfFuel | S fuel =>
  mlet curOffset <~ offsetM ;;
  mlet '(nextOp, ok) <~ lex peekNextOpcode ;;
  if negb ok then
    mlet ci <~ rdf curObj o_index ;;
    scopeEnter ci ;;;
    mlet res <~ parseNamePathOrMethodCall fuel ;;
    scopeExit ;;;
    mlet termObj <~ (if pres_eqb res ROk then
                  mlet li <~ rdf curObj o_last ;;
                  mlet t <~ objectAt li ;;
                  detachM (Some curObj) t ;;;
                  ret t
                else ret None) ;;
    mlet e <~ eofM ;;
    (if e then popPkgEnd else ret tt) ;;;
    ret (termObj, res)
  else
    if negb (isType2 nextOp) && negb (isDataObject nextOp) && negb (isArg nextOp) then ret (None, RFailed) else
    lex nextOpcode ;;;
    mlet termObj <~ newObj nextOp ;;
    wrf termObj (set_amlOffset curOffset) ;;;
    (* commit 22b55e5: attached to curObj while its args are parsed *)
    appendM (Some curObj) termObj ;;;
    mlet res <~ parseObjectArgs fuel termObj ;;
    detachM (Some curObj) (Some termObj) ;;;
    mlet e <~ eofM ;;
    (if e then popPkgEnd else ret tt) ;;;
    ret (Some termObj, res)
  end

with parseTarget (fuel : nat) : M (option N * pres) :=
  match fuel with O => outOfFuel | S fuel =>
  mlet origOffset <~ offsetM ;;
  mlet '(nextOp, ok) <~ lex nextOpcode ;;
  if ok then
    if nextOp =? aml_pOpZero then ret (None, ROk)
    else if isArg nextOp || (nextOp =? aml_pOpRefOf) || (nextOp =? aml_pOpDerefOf) || (nextOp =? aml_pOpIndex) || (nextOp =? aml_pOpDebug) then
      mlet obj <~ newObj nextOp ;;
      wrf obj (set_amlOffset origOffset) ;;;
      mlet res <~ parseObjectArgs fuel obj ;;
      ret (Some obj, res)
    else ret (None, RFailed)
  else
    setOffsetM origOffset ;;;
    mlet curObj <~ newObj aml_pOpIntNamePath ;;
    wrf curObj (set_amlOffset origOffset) ;;;
    mlet tbl <~ curTable ;;
    mlet '(v, ok2) <~ lex parseNameString ;;
    wrf curObj (set_value (Some (bytesValue tbl v))) ;;;
    ret (Some curObj, pres_of_bool ok2)
  end.

(** parseObjectList *)
Fixpoint objectList_inner (fuel : nat) : M bool :=
  match fuel with O => outOfFuel | S fuel' =>
  mlet e <~ eofM ;;
  if e then ret true else
  mlet res <~ parseNextObject fuel' ;;
  if pres_eqb res ROk then objectList_inner fuel' else ret false
  end.

Fixpoint parseObjectList (fuel : nat) : M pres :=
  match fuel with O => outOfFuel | S fuel' =>
  mlet st <~ get p_scopeStack ;;
  match st with
  | [] => ret ROk
  | _ =>
    mlet ok <~ objectList_inner fuel' ;;
    if negb ok then ret RFailed else
    mlet n1 <~ get (fun s => length (p_pkgEndStack s)) ;;
    mlet n2 <~ get (fun s => length (p_scopeStack s)) ;;
    (if Nat.eqb n1 n2 then scopeExit else ret tt) ;;;
    popPkgEnd ;;;
    parseObjectList fuel'
  end end.

(** ---- attachSiblingsAsArgs (with the detach of commit 69d8870) ---- *)
Fixpoint attachSiblings_go (fuel : nat) (parentObj targetObj : N) (siblingIndex : N) (numArgs : N) (useParent : bool) : M pres :=
  match fuel with O => outOfFuel | S fuel =>
  if numArgs =? 0 then ret ROk else
  mlet siblingIndex <~ (if (siblingIndex =? InvalidIndex) && useParent then rdf parentObj o_next else ret siblingIndex) ;;
  if siblingIndex =? InvalidIndex then ret RFailed else
  mlet sib <~ objectAt siblingIndex ;;
  mlet sibp <~ need sib ;;
  mlet nextIdx <~ rdf sibp o_next ;;
  mlet parIdx <~ rdf sibp o_parent ;;
  mlet par <~ objectAt parIdx ;;
  detachM par (Some sibp) ;;;
  appendM (Some targetObj) sibp ;;;
  attachSiblings_go fuel parentObj targetObj nextIdx (numArgs - 1) useParent
  end.

Definition attachSiblingsAsArgs (fuel : nat) (parentObj targetObj : N) (numArgs : N) (useParent : bool) : M pres :=
  mlet first <~ rdf targetObj o_next ;;
  attachSiblings_go fuel parentObj targetObj first numArgs useParent.

(** a value that must be a []byte; [None] = the comma-ok assertion failed *)
Definition valueBytes (o : Obj) : option (N * slice) :=
  match o_value o with Some (VBytes tbl s) => Some (tbl, s) | _ => None end.

(** copy the last amlNameLen bytes of the namepath into obj.name *)
Definition setNameFrom (obj : N) (bytes : list N) : M unit :=
  match rev bytes with
  | b3 :: b2 :: b1 :: b0 :: _ => wrf obj (set_name (b0, b1, b2, b3))
  | _ => panic
  end.

(** ---- connectNamedObjArgs ---- *)
Fixpoint connectNamedObjArgs (fuel : nat) (objIndex : N) : M pres :=
  match fuel with O => outOfFuel | S fuel' =>
  mlet obj <~ objectAt' objIndex ;;
  mlet argIndex <~ rdf obj o_last ;;
  connectNamed_loop fuel' obj argIndex
  end
with connectNamed_loop (fuel : nat) (obj : N) (argIndex : N) : M pres :=
  match fuel with O => outOfFuel | S fuel' =>
  if argIndex =? InvalidIndex then ret ROk else
  mlet argObj <~ objectAt' argIndex ;;
  mlet ai <~ rdf argObj o_index ;;
  mlet res <~ connectNamedObjArgs fuel' ai ;;
  if negb (pres_eqb res ROk) then ret RFailed else
  let continue := mlet prev <~ rdf argObj o_prev ;; connectNamed_loop fuel' obj prev in
  mlet ao <~ rdo argObj ;;
  mlet '(_, flags, argFlags) <~ info (o_infoIndex ao) ;;
  mlet h <~ get p_handle ;;
  if negb (hasFlag flags aml_pOpFlagNamed) || negb (o_tableHandle ao =? h) || (o_first ao =? InvalidIndex) || (o_opcode ao =? aml_pOpIntScopeBlock)
  then continue else
  mlet nameObj <~ objectAt' (o_first ao) ;;
  mlet no <~ rdo nameObj ;;
  match valueBytes no with
  | None => ret RFailed
  | Some (tbl, sl) =>
    if s_len sl <? aml_amlNameLen then ret RFailed else
    mlet bytes <~ bytesOf tbl sl ;;
    setNameFrom argObj bytes ;;;
    let argCnt := argCount argFlags in
    let tai := termArgIndex argFlags in
    mlet na <~ tq (fun t => NumArgs t (Some argObj)) ;;
    if (na =? argCnt) || (argCnt <=? tai) then continue else
    mlet r <~ attachSiblingsAsArgs fuel' obj argObj (w8 (argCnt + 0x100 - tai)) false ;;
    if negb (pres_eqb r ROk) then ret RFailed else continue
  end
  end.

(** find the nested ScopeBlock of a non-ScopeBlock target: [None] = no such child *)
Fixpoint nestedScope_go (fuel : nat) (targetIndex : N) : M (option N) :=
  match fuel with O => outOfFuel | S fuel' =>
  if targetIndex =? InvalidIndex then ret None else
  mlet nextObj <~ objectAt' targetIndex ;;
  mlet op <~ rdf nextObj o_opcode ;;
  if op =? aml_pOpIntScopeBlock then ret (Some nextObj) else
  mlet nx <~ rdf nextObj o_next ;;
  nestedScope_go fuel' nx
  end.

Definition poolFuel : M nat := get (fun s => S (S (length (t_pool (p_tree s))))).

(** the scope to attach to: the target itself if it is a ScopeBlock, else its nested ScopeBlock *)
Definition scopeOf (targetIndex : N) : M (option N) :=
  mlet targetObj <~ objectAt' targetIndex ;;
  mlet op <~ rdf targetObj o_opcode ;;
  if op =? aml_pOpIntScopeBlock then ret (Some targetObj) else
  mlet first <~ rdf targetObj o_first ;;
  mlet fuel <~ poolFuel ;;
  nestedScope_go fuel first.

(** move the children of contentsObj to targetObj *)
Fixpoint moveContents_go (fuel : nat) (contentsObj targetObj : N) (siblingIndex : N) : M unit :=
  match fuel with O => outOfFuel | S fuel' =>
  if siblingIndex =? InvalidIndex then ret tt else
  mlet argObj <~ objectAt' siblingIndex ;;
  mlet nx <~ rdf argObj o_next ;;
  detachM (Some contentsObj) (Some argObj) ;;;
  appendM (Some targetObj) argObj ;;;
  moveContents_go fuel' contentsObj targetObj nx
  end.

(** ---- mergeScopeDirectives ---- *)
Fixpoint mergeScopeDirectives (fuel : nat) (objIndex : N) : M pres :=
  match fuel with O => outOfFuel | S fuel' =>
  mlet obj <~ objectAt' objIndex ;;
  mlet firstArgIndex0 <~ rdf obj o_first ;;
  (if objIndex =? 0 then fun s => Ok (tt, with_counters s (p_resolvePasses s) 0 (p_relocatedObjects s)) else ret tt) ;;;
  mlet oo <~ rdo obj ;;
  mlet '(_, flags, _) <~ info (o_infoIndex oo) ;;
  if hasFlag flags aml_pOpFlagExecutable then ret ROk else
  mlet h <~ get p_handle ;;
  mlet r <~ (if (o_opcode oo =? aml_pOpScope) && (o_tableHandle oo =? h) then
          if o_first oo =? InvalidIndex then ret (inl RFailed) else
          mlet nameObj <~ objectAt' (o_first oo) ;;
          mlet no <~ rdo nameObj ;;
          match o_value no with
          | Some (VBytes tbl sl) =>
            mlet targetName <~ bytesOf tbl sl ;;
            mlet targetIndex <~ tq (fun t => Find t (o_parent oo) targetName) ;;
            if targetIndex =? InvalidIndex then
              mlet passes <~ get p_resolvePasses ;;
              mlet reloc <~ get p_relocatedObjects ;;
              if (1 <? passes) && (reloc =? 0) then ret (inl RFailed) else ret (inl RExtra)
            else
              mlet tgt <~ scopeOf targetIndex ;;
              match tgt with
              | None => ret (inl RFailed)
              | Some targetObj =>
                mlet lastIdx <~ rdf obj o_last ;;
                mlet contentsObj <~ objectAt' lastIdx ;;
                mlet firstArgIndex <~ rdf contentsObj o_first ;;
                mlet pf <~ poolFuel ;;
                moveContents_go pf contentsObj targetObj firstArgIndex ;;;
                freeM nameObj ;;;
                freeM contentsObj ;;;
                freeM obj ;;;
                (fun s => Ok (tt, with_counters s (p_resolvePasses s) (w32 (p_mergedScopes s + 1)) (p_relocatedObjects s))) ;;;
                ret (inr firstArgIndex)
              end
          | _ => panic                       (* nameObj.value.([]byte) *)
          end
        else ret (inr firstArgIndex0)) ;;
  match r with
  | inl res => ret res
  | inr firstArgIndex => mergeScope_loop fuel' firstArgIndex ROk
  end
  end
with mergeScope_loop (fuel : nat) (siblingIndex : N) (res : pres) : M pres :=
  match fuel with O => outOfFuel | S fuel' =>
  if siblingIndex =? InvalidIndex then ret res else
  mlet argObj <~ objectAt' siblingIndex ;;
  mlet nx <~ rdf argObj o_next ;;
  mlet ai <~ rdf argObj o_index ;;
  mlet r <~ mergeScopeDirectives fuel' ai ;;
  match r with
  | RFailed => ret RFailed
  | RExtra => mergeScope_loop fuel' nx RExtra
  | _ => mergeScope_loop fuel' nx res
  end
  end.

(** is [obj] the target or one of its ancestors?  (commit 648a1d7)
    [for ancestor := targetObj; ancestor != nil; ancestor = ObjectAt(ancestor.parentIndex)] *)
Fixpoint insideSelf_go (fuel : nat) (ancestor : option N) (obj : N) : M bool :=
  match fuel with O => outOfFuel | S fuel' =>
  match ancestor with
  | None => ret false
  | Some a =>
      if a =? obj then ret true else
      mlet par <~ rdf a o_parent ;;
      mlet nxt <~ objectAt par ;;
      insideSelf_go fuel' nxt obj
  end end.

(** ---- relocateNamedObjects ---- *)
Fixpoint relocateNamedObjects (fuel : nat) (objIndex : N) : M pres :=
  match fuel with O => outOfFuel | S fuel' =>
  mlet obj <~ objectAt' objIndex ;;
  mlet oo <~ rdo obj ;;
  mlet '(_, flags, _) <~ info (o_infoIndex oo) ;;
  (if objIndex =? 0 then fun s => Ok (tt, with_counters s (p_resolvePasses s) (p_mergedScopes s) 0) else ret tt) ;;;
  if hasFlag flags aml_pOpFlagExecutable then ret ROk else
  mlet h <~ get p_handle ;;
  mlet r <~ (if hasFlag flags aml_pOpFlagNamed && negb (o_first oo =? InvalidIndex) && (o_tableHandle oo =? h) && negb (o_opcode oo =? aml_pOpIntScopeBlock) then
          mlet nameObj <~ objectAt' (o_first oo) ;;
          mlet no <~ rdo nameObj ;;
          match valueBytes no with
          | None => ret (Some RFailed)
          | Some (tbl, sl) =>
            if aml_amlNameLen <? s_len sl then
              let nameIndex := s_len sl - aml_amlNameLen in
              mlet bytes <~ bytesOf tbl sl ;;
              mlet anc <~ tq (fun t => ClosestNamedAncestor t (Some obj)) ;;
              mlet targetIndex <~ tq (fun t => Find t anc (firstn (N.to_nat nameIndex) bytes)) ;;
              if targetIndex =? InvalidIndex then
                mlet passes <~ get p_resolvePasses ;;
                if aml_maxResolvePasses <? passes then ret (Some RFailed) else ret (Some RExtra)
              else
                mlet tgt <~ scopeOf targetIndex ;;
                match tgt with
                | None => ret (Some RFailed)
                | Some targetObj =>
                  mlet pf <~ poolFuel ;;
                  mlet inside <~ insideSelf_go pf (Some targetObj) obj ;;
                  if inside then ret (Some RFailed) else
                  mlet parIdx <~ rdf obj o_parent ;;
                  mlet par <~ objectAt parIdx ;;
                  detachM par (Some obj) ;;;
                  appendM (Some targetObj) obj ;;;
                  mlet fi <~ rdf obj o_first ;;
                  mlet nameObj2 <~ objectAt' fi ;;
                  wrf nameObj2 (set_value (Some (bytesValue tbl (mkSlice (match s_ptr sl with Some p => Some (p + nameIndex) | None => None end) aml_amlNameLen)))) ;;;
                  (fun s => Ok (tt, with_counters s (p_resolvePasses s) (p_mergedScopes s) (w32 (p_relocatedObjects s + 1)))) ;;;
                  ret None
                end
            else ret None
          end
        else ret None) ;;
  match r with
  | Some res => ret res
  | None =>
      mlet first <~ rdf obj o_first ;;
      relocate_loop fuel' first ROk
  end
  end
with relocate_loop (fuel : nat) (siblingIndex : N) (res : pres) : M pres :=
  match fuel with O => outOfFuel | S fuel' =>
  if siblingIndex =? InvalidIndex then ret res else
  mlet argObj <~ objectAt' siblingIndex ;;
  mlet nx <~ rdf argObj o_next ;;
  mlet ai <~ rdf argObj o_index ;;
  mlet r <~ relocateNamedObjects fuel' ai ;;
  match r with
  | RFailed => ret RFailed
  | RExtra => relocate_loop fuel' nx RExtra
  | _ => relocate_loop fuel' nx res
  end
  end.

(** pop the whole pkgEnd stack *)
Fixpoint popAll_go (fuel : nat) : M unit :=
  match fuel with O => outOfFuel | S fuel' =>
  mlet st <~ get p_pkgEndStack ;;
  match st with [] => ret tt | _ => popPkgEnd ;;; popAll_go fuel' end
  end.

(** ---- parseDeferredBlocks ---- *)
Fixpoint parseDeferredBlocks (fuel : nat) (parseFuel : nat) (objIndex : N) : M pres :=
  match fuel with O => outOfFuel | S fuel' =>
  mlet obj <~ objectAt' objIndex ;;
  mlet oo <~ rdo obj ;;
  mlet '(_, flags, _) <~ info (o_infoIndex oo) ;;
  mlet h <~ get p_handle ;;
  if hasFlag flags aml_pOpFlagDeferParsing && (o_tableHandle oo =? h) then
    (fun s => Ok (tt, with_allBlocks s true)) ;;;
    mlet se <~ get p_streamEnd ;;
    setPkgEndM se ;;;
    setOffsetM (w32 (o_amlOffset oo + 1)) ;;;
    (if 0xff <? o_opcode oo then readByteM ;;; ret tt else ret tt) ;;;
    mlet res <~ parseObjectArgs parseFuel obj ;;
    if negb (pres_eqb res ROk) then ret RFailed else
    mlet n <~ get (fun s => S (length (p_pkgEndStack s))) ;;
    popAll_go n ;;;
    ret ROk
  else
    deferred_loop fuel' parseFuel (o_first oo)
  end
with deferred_loop (fuel : nat) (parseFuel : nat) (argIndex : N) : M pres :=
  match fuel with O => outOfFuel | S fuel' =>
  if argIndex =? InvalidIndex then ret ROk else
  mlet res <~ parseDeferredBlocks fuel' parseFuel argIndex ;;
  if negb (pres_eqb res ROk) then ret RFailed else
  mlet a <~ objectAt' argIndex ;;
  mlet nx <~ rdf a o_next ;;
  deferred_loop fuel' parseFuel nx
  end.

(** ---- connectNonNamedObjArg / connectNonNamedObjArgs (split by commit ef83487) ---- *)
Definition connectNonNamedObjArg (fuel : nat) (obj argObj : N) : M pres :=
  mlet ao <~ rdo argObj ;;
  mlet '(_, flags, argFlags) <~ info (o_infoIndex ao) ;;
  mlet h <~ get p_handle ;;
  if hasFlag flags aml_pOpFlagNamed || negb (o_tableHandle ao =? h) then ret ROk else
  let argCnt := argCount argFlags in
  let tai := termArgIndex argFlags in
  mlet na <~ tq (fun t => NumArgs t (Some argObj)) ;;
  if (argCnt <=? tai) || (tai <? na) then ret ROk else
  attachSiblingsAsArgs fuel obj argObj (w8 (argCnt + 0x100 - tai)) true.

Fixpoint connectNonNamedObjArgs (fuel : nat) (objIndex : N) : M pres :=
  match fuel with O => outOfFuel | S fuel' =>
  mlet obj <~ objectAt' objIndex ;;
  mlet argIndex <~ rdf obj o_last ;;
  connectNonNamed_loop fuel' obj argIndex
  end
with connectNonNamed_loop (fuel : nat) (obj : N) (argIndex : N) : M pres :=
  match fuel with O => outOfFuel | S fuel' =>
  if argIndex =? InvalidIndex then ret ROk else
  mlet argObj <~ objectAt' argIndex ;;
  mlet ai <~ rdf argObj o_index ;;
  mlet res <~ connectNonNamedObjArgs fuel' ai ;;
  if negb (pres_eqb res ROk) then ret RFailed else
  mlet r <~ connectNonNamedObjArg fuel' obj argObj ;;
  if pres_eqb r RFailed then ret RFailed else
  mlet prev <~ rdf argObj o_prev ;; connectNonNamed_loop fuel' obj prev
  end.

(** ---- resolveMethodCalls ---- *)
Fixpoint resolveMethodCalls (fuel : nat) (objIndex : N) : M pres :=
  match fuel with O => outOfFuel | S fuel' =>
  mlet obj <~ objectAt' objIndex ;;
  mlet argIndex <~ rdf obj o_last ;;
  resolveCalls_loop fuel' obj argIndex
  end
with resolveCalls_loop (fuel : nat) (obj : N) (argIndex : N) : M pres :=
  match fuel with O => outOfFuel | S fuel' =>
  if argIndex =? InvalidIndex then ret ROk else
  mlet argObj <~ objectAt' argIndex ;;
  mlet ai <~ rdf argObj o_index ;;
  mlet res <~ resolveMethodCalls fuel' ai ;;
  if negb (pres_eqb res ROk) then ret RFailed else
  let continue := mlet prev <~ rdf argObj o_prev ;; resolveCalls_loop fuel' obj prev in
  mlet ao <~ rdo argObj ;;
  mlet h <~ get p_handle ;;
  if negb (o_opcode ao =? aml_pOpIntNamePathOrMethodCall) || negb (o_tableHandle ao =? h) then
    (mlet r <~ connectNonNamedObjArg fuel' obj argObj ;;
     if pres_eqb r RFailed then ret RFailed else continue)
  else
  match o_value ao with
  | Some (VBytes tbl sl) =>
    mlet expr <~ bytesOf tbl sl ;;
    mlet targetIndex <~ tq (fun t => Find t (o_parent ao) expr) ;;
    if targetIndex =? InvalidIndex then
      wrf argObj (set_opcode aml_pOpIntNamePath) ;;;
      mlet idx <~ tableIndex aml_pOpIntNamePath true ;;
      wrf argObj (set_infoIndex idx) ;;;
      continue
    else
      mlet resolvedObj <~ objectAt' targetIndex ;;
      mlet ro <~ rdo resolvedObj ;;
      if o_opcode ro =? aml_pOpMethod then
        wrf argObj (set_opcode aml_pOpIntMethodCall) ;;;
        mlet idx <~ tableIndex aml_pOpIntMethodCall true ;;
        wrf argObj (set_infoIndex idx) ;;;
        wrf argObj (set_value (Some (VIdx (o_index ro)))) ;;;
        mlet flagsObj <~ tq (fun t => ArgAt t (Some resolvedObj) 1) ;;
        match flagsObj with
        | None => ret RFailed
        | Some fo =>
          mlet fobj <~ rdo fo ;;
          match o_value fobj with
          | Some (VNum argCnt) =>
            mlet r <~ attachSiblingsAsArgs fuel' obj argObj (N.land argCnt 7) true ;;
            if negb (pres_eqb r ROk) then ret RFailed else continue
          | _ => ret RFailed
          end
        end
      else
        wrf argObj (set_opcode aml_pOpIntResolvedNamePath) ;;;
        mlet idx <~ tableIndex aml_pOpIntResolvedNamePath true ;;
        wrf argObj (set_infoIndex idx) ;;;
        wrf argObj (set_value (Some (VIdx (o_index ro)))) ;;;
        continue
  | _ => panic                          (* argObj.value.([]byte) *)
  end
  end.

(** ---- ParseAML ---- *)
Fixpoint resolve_loop (fuel : nat) (walkFuel : nat) : M pres :=
  match fuel with O => outOfFuel | S fuel' =>
  mlet mergeRes <~ mergeScopeDirectives walkFuel 0 ;;
  if pres_eqb mergeRes RFailed then ret RFailed else
  mlet relocateRes <~ relocateNamedObjects walkFuel 0 ;;
  if pres_eqb relocateRes RFailed then ret RFailed else
  if pres_eqb mergeRes ROk && pres_eqb relocateRes ROk then ret ROk else
  (fun s => Ok (tt, with_counters s (w32 (p_resolvePasses s + 1)) (p_mergedScopes s) (p_relocatedObjects s))) ;;;
  resolve_loop fuel' walkFuel
  end.

(** fuel: linear in the size of the input (see Props/C12.v).  The passes after the first one walk the WHOLE tree,
    also the objects of the tables loaded earlier, so the bound has to count those too: [parseAML] uses
    [parse_fuel (length of the table + number of pool slots)] - the pool holds at most 4 objects per byte of input. *)
Definition parse_fuel (len : nat) : nat := 64 + 8 * len.

(** init + the passes; [true] = nil error, [false] = errParsingAML *)
Definition parseAML_body (fuel : nat) : M bool :=
  scopeEnter 0 ;;;
  mlet r1 <~ parseObjectList fuel ;;
  if pres_eqb r1 RFailed then ret false else
  mlet r2 <~ connectNamedObjArgs fuel 0 ;;
  if negb (pres_eqb r2 ROk) then ret false else
  (fun s => Ok (tt, with_counters s 1 (p_mergedScopes s) (p_relocatedObjects s))) ;;;
  mlet r3 <~ resolve_loop fuel fuel ;;
  if negb (pres_eqb r3 ROk) then ret false else
  mlet r4 <~ parseDeferredBlocks fuel fuel 0 ;;
  if negb (pres_eqb r4 ROk) then ret false else
  mlet r5 <~ resolveMethodCalls fuel 0 ;;
  if negb (pres_eqb r5 ROk) then ret false else
  mlet r6 <~ connectNonNamedObjArgs fuel 0 ;;
  if negb (pres_eqb r6 ROk) then ret false else
  ret true.

(** p.init(tableHandle, tableName, header): a parser that has loaded [earlier] tables starts on [data] *)
Definition init_state (tree : T) (earlier : list (list N)) (handle : N) (data : list N) : pstate :=
  let r := init_reader data aml_sizeofSDTHeader in
  let n := r_len r in
  let s := mkP r tree [] [] n 0 0 0 false handle (earlier ++ [data]) in
  (* _ = p.pushPkgEnd(header.Length) *)
  with_r (with_pkgEndStack s [n]) (fst (setPkgEnd r n)).

Definition parseAML (tree : T) (earlier : list (list N)) (handle : N) (data : list N) : outcome (bool * pstate) :=
  parseAML_body (parse_fuel (length data + length (t_pool tree))) (init_state tree earlier handle data).

(** the table image the harness builds: SDT header (signature DSDT, length, revision 2) + payload *)
Fixpoint le_bytes (cnt : nat) (v : N) : list N :=
  match cnt with O => [] | S c => N.land v 0xff :: le_bytes c (N.shiftr v 8) end.
Definition table_image (payload : list N) : list N :=
  let n := aml_sizeofSDTHeader + N.of_nat (length payload) in
  [0x44; 0x53; 0x44; 0x54] ++ le_bytes 4 n ++ [2] ++ repeat 0 (N.to_nat aml_sizeofSDTHeader - 9) ++ payload.

(** load the payloads one after the other (handles 1, 2, ...) into a tree with the default scopes
    (handle 0); stop at the first failure.   class: 0 ok, 1 parse error, 2 panic, 3 out of fuel *)
Fixpoint load_tables (tree : T) (earlier : list (list N)) (handle : N) (payloads : list (list N)) : N * T * list (list N) :=
  match payloads with
  | [] => (0, tree, earlier)
  | p :: rest =>
      let data := table_image p in
      match parseAML tree earlier handle data with
      | Ok (true, s) => load_tables (p_tree s) (earlier ++ [data]) (handle + 1) rest
      | Ok (false, s) => (1, p_tree s, earlier ++ [data])
      | Panic => (2, tree, earlier)
      | OutOfFuel => (3, tree, earlier)
      end
  end.

Definition load (payloads : list (list N)) : N * T * list (list N) :=
  match CreateDefaultScopes (@NewObjectTree value) 0 with
  | Ok t => load_tables t [] 1 payloads
  | Panic => (2, NewObjectTree, [])
  | OutOfFuel => (3, NewObjectTree, [])
  end.

(** ---- canonical dump (the observation of the harnesses; see zz_verif_amlcommon_test.go) ---- *)

(** DFS preorder of the objects reachable from slot 0 via first/next links *)
Fixpoint preorder_go (fuel : nat) (t : T) (stack : list N) (acc : list N) : list N :=
  match fuel with O => rev acc | S fuel' =>
  match stack with
  | [] => rev acc
  | idx :: rest =>
      if idx =? InvalidIndex then preorder_go fuel' t rest acc else
      match nth_error (t_pool t) (N.to_nat idx) with
      | None => rev acc
      | Some o => preorder_go fuel' t (o_first o :: o_next o :: rest) (idx :: acc)
      end
  end end.
Definition preorder (t : T) : list N := preorder_go (2 * S (length (t_pool t)) + 2) t [0] [].

Fixpoint index_of (x : N) (l : list N) (i : N) : N :=
  match l with [] => 0xffffffff | y :: r => if x =? y then i else index_of x r (i + 1) end.

Fixpoint count_kids (fuel : nat) (t : T) (idx : N) (n : N) : N :=
  match fuel with O => n | S fuel' =>
  if idx =? InvalidIndex then n else
  match nth_error (t_pool t) (N.to_nat idx) with None => n | Some o => count_kids fuel' t (o_next o) (n + 1) end
  end.

Definition name_num (nm : Name) : N := let '(a, b, c, d) := nm in ((a * 256 + b) * 256 + c) * 256 + d.

Definition dump_value (order : list N) (v : option value) : list N :=
  match v with
  | None => [0]
  | Some (VNum n) => [1; n]
  | Some (VBytes _ s) =>
      if s_len s =? 0 then [2; 0] else
      match s_ptr s with Some p => [3; p; s_len s] | None => [2; s_len s] end
  | Some (VIdx i) => [4; index_of i order 0]
  | Some (VField f) => [5; fe_offset f; fe_width f; fe_accessLength f; fe_accessType f; fe_accessAttrib f; fe_lockType f; fe_updateType f;
                        index_of (fe_connectionIndex f) order 0; index_of (fe_fieldIndex f) order 0]
  end.

Definition dump_tree (t : T) : list N :=
  let order := preorder t in
  flat_map (fun idx =>
    match nth_error (t_pool t) (N.to_nat idx) with
    | None => []
    | Some o => [o_opcode o; name_num (o_name o); o_tableHandle o; o_amlOffset o; count_kids (S (length (t_pool t))) t (o_first o) 0]
                ++ dump_value order (o_value o)
    end) order.
