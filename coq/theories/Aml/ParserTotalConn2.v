(** C12 (stretch): connectNamedObjArgs once more, carrying an abstract invariant [J] that survives the two things the
    pass does: writing the name of a named object, and moving the sibling that follows a named object to the end of
    that object's child list. *)
From Coq Require Import NArith Arith List Bool Lia.
From Coq Require Import ZifyBool ZifyN ZifyNat.
From FF Require Import Lib.Word Gen.Consts_device_acpi_aml Gen.Consts_aml_tree Aml.Stream Aml.Lex Aml.LexProofs
  Aml.Tree Aml.Parser Aml.ParserProofs Aml.TreeSpec Aml.TreeProofs Aml.TreeProofsOps Aml.TreeProofsFind
  Aml.ParserTotalTree Aml.ParserTotalTree2 Aml.ParserTotalLex Aml.ParserTotalTable Aml.ParserTotalBase Aml.ParserTotalLeaf
  Aml.ParserTotalConn Aml.ParserTotalReloc.
Import ListNotations.
Local Open Scope N_scope.

(** a named object of the table being parsed that already has children (its name path at least) *)
Definition tgt_ok (s : pstate) (g : ghost) (a : N) : Prop :=
  exists ao op fl af, tget (p_tree s) a = Some ao /\ opInfo (o_infoIndex ao) = Some (op, fl, af) /\
    hasFlag fl aml_pOpFlagNamed = true /\ o_tableHandle ao = p_handle s /\ o_opcode ao <> aml_pOpIntScopeBlock /\
    kids g a <> [].

Lemma reloc_of_move g g2 par x target (S : N -> Prop) :
  shape_eq g g2 -> S par -> S target -> S x -> In x (kids g par) ->
  (forall q, kids g2 q = (if q =? par then remove1 x (kids g par) else kids g q) ++ (if q =? target then [x] else [])) ->
  reloc g g2 S.
Proof.
  intros (L & F) Hp Ht Hx Hin Hk. constructor; auto.
  - intros y Hy. rewrite Hk. destruct (N.eqb_spec y par) as [->|_]; [contradiction|].
    destruct (N.eqb_spec y target) as [->|_]; [contradiction|]. apply app_nil_r.
  - intros y c Hc. rewrite Hk in Hc. apply in_app_or in Hc. destruct Hc as [Hc|Hc].
    + destruct (N.eqb_spec y par) as [->|_]; [left; eapply remove1_In; eauto|left; exact Hc].
    + destruct (N.eqb_spec y target) as [->|_]; [|contradiction]. destruct Hc as [<-|[]]. right. split; assumption.
Qed.

Section Conn2.
Variable J : pstate -> ghost -> Prop.
Hypothesis J_setname : forall s g a nm, TI s g -> J s g -> tgt_ok s g a ->
  J (with_tree s (tset (p_tree s) a (set_name nm))) g.
Hypothesis J_attach : forall s g parent target sib l1 l2 (t2 : T) g2, TI s g -> J s g ->
  kids g parent = l1 ++ target :: sib :: l2 -> tgt_ok s g target ->
  pframe (p_tree s) t2 -> shape_eq g g2 -> roots_iff g g2 ->
  (forall q, kids g2 q = (if q =? parent then remove1 sib (kids g parent) else kids g q) ++ (if q =? target then [sib] else [])) ->
  J (with_tree s t2) g2.

Lemma attach_spec2 : forall fuel parent target sib n s g l1 l2,
  TI s g -> J s g -> kids g parent = l1 ++ target :: l2 -> sib = hd InvalidIndex l2 -> tgt_ok s g target ->
  wp (fuel <= length l2)%nat (attachSiblings_go fuel parent target sib n false) s (fun r s' =>
    exists g' l2', TI s' g' /\ J s' g' /\ reloc g g' (desc g parent) /\ kids g' parent = l1 ++ target :: l2' /\
      (length l2' <= length l2)%nat /\ (forall q, q <> parent -> q <> target -> kids g' q = kids g q)).
Proof.
  induction fuel as [|fuel IH]; intros parent target sib n s g l1 l2 H HJ Hk Hs Htg; cbn [attachSiblings_go].
  { apply wp_outOfFuel. lia. }
  pose proof (ti_R _ _ H) as HR.
  destruct (n =? 0).
  { apply wp_ret. exists g, l2. split; auto. split; auto. split; [apply reloc_refl|]. split; [exact Hk|]. split; [lia|auto]. }
  rewrite andb_false_r. apply wp_bind. apply wp_ret.
  destruct (N.eqb_spec sib InvalidIndex) as [Es|Es].
  { apply wp_ret. exists g, l2. split; auto. split; auto. split; [apply reloc_refl|]. split; [exact Hk|]. split; [lia|auto]. }
  destruct (hd_nonempty _ _ _ (eq_sym Hs) Es) as (l2' & El2). subst l2.
  assert (Hin_t : In target (kids g parent)) by (rewrite Hk; apply in_or_app; right; left; reflexivity).
  assert (Hin_s : In sib (kids g parent)) by (rewrite Hk; apply in_or_app; right; right; left; reflexivity).
  destruct (R_In_kids _ _ HR _ _ Hin_s) as ((po & Hpo & Hlpo) & so & Hso & Hlso & Hspar).
  destruct (R_kids _ _ HR _ _ Hpo Hlpo) as (_ & _ & Hch & Hnd).
  rewrite Hk in Hch, Hnd.
  assert (Hnode : node (p_tree s) sib parent (last (l1 ++ [target]) InvalidIndex) (hd InvalidIndex l2')).
  { apply (chain_mid (p_tree s) parent (l1 ++ [target]) sib l2'). rewrite <- app_assoc. exact Hch. }
  destruct Hnode as (so' & Hso' & _ & _ & _ & Hnext). assert (so' = so) by congruence. subst so'.
  pose proof (R_gwf _ _ HR) as Hwf. destruct (Hwf _ _ Hin_s) as (Hlp & Hls). destruct (Hwf _ _ Hin_t) as (_ & Hlt).
  apply wp_bind, wp_get. rewrite (TI_ObjectAt _ _ _ H Hls). apply wp_bind. cbn [need]. apply wp_ret.
  apply wp_bind. apply wp_rdf. exists so. split; [exact Hso|]. rewrite Hnext.
  apply wp_bind. apply wp_rdf. exists so. split; [exact Hso|]. rewrite Hspar.
  apply wp_bind, wp_get. rewrite (TI_ObjectAt _ _ _ H Hlp).
  assert (Hnotin : ~ In sib (l1 ++ target :: l2')).
  { replace (l1 ++ target :: sib :: l2') with ((l1 ++ [target]) ++ sib :: l2') in Hnd by (rewrite <- app_assoc; reflexivity).
    apply NoDup_remove_2 in Hnd. rewrite <- app_assoc in Hnd. exact Hnd. }
  assert (Hndst : ~ desc g sib target).
  { intros Hd. pose proof (sibling_not_desc _ _ HR parent sib target Hin_s Hin_t Hd) as E. subst target.
    apply Hnotin. apply in_or_app. right. left. reflexivity. }
  apply (move_gen _ parent sib target _ s g); [exact H|exact Hin_s|exact Hlt|exact Hndst|].
  intros t2 g2 H2 S2 R2 _ _ Hpf2 Hk2.
  assert (HJ2 : J (with_tree s t2) g2) by (eapply (J_attach s g parent target sib l1 l2'); eauto).
  assert (Hne_tp : target <> parent) by (eapply (R_child_neq_parent _ _ HR); eauto).
  assert (Hkp2 : kids g2 parent = l1 ++ target :: l2').
  { rewrite Hk2, N.eqb_refl. apply N.eqb_neq in Hne_tp. rewrite N.eqb_sym, Hne_tp, app_nil_r, Hk.
    replace (l1 ++ target :: sib :: l2') with ((l1 ++ [target]) ++ sib :: l2') by (rewrite <- app_assoc; reflexivity).
    rewrite remove1_split; [rewrite <- app_assoc; reflexivity|].
    intros Hi. apply Hnotin. apply in_app_or in Hi. apply in_or_app.
    destruct Hi as [Hi|[<-|[]]]; [left; exact Hi|right; left; reflexivity]. }
  assert (Htg2 : tgt_ok (with_tree s t2) g2 target).
  { destruct Htg as (ao & op & fl & af & Hao & Erow & En & Eh & Eo & Ek).
    destruct (proj2 Hpf2 _ _ Hao) as (ao2 & Hao2 & (E1 & E2 & E3 & _)).
    exists ao2, op, fl, af. split; [exact Hao2|]. rewrite E2, E3, E1. repeat (split; [assumption|]).
    rewrite Hk2, N.eqb_refl. intros F. apply app_eq_nil in F. destruct F as (_ & F). discriminate. }
  assert (HSp : desc g parent parent) by constructor.
  assert (HSt : desc g parent target) by (apply (desc_step g parent parent target HSp Hin_t)).
  assert (HSs : desc g parent sib) by (apply (desc_step g parent parent sib HSp Hin_s)).
  assert (Hrl : reloc g g2 (desc g parent)) by (apply (reloc_of_move g g2 parent sib target _ S2 HSp HSt HSs Hin_s Hk2)).
  eapply wp_weaken; [apply (IH parent target (hd InvalidIndex l2') (n - 1) _ g2 l1 l2' H2 HJ2 Hkp2 eq_refl Htg2)|cbn [length]; lia|].
  intros r s' (g' & l2'' & F1 & F0 & F2 & F3 & F4 & F5). exists g', l2''. split; auto. split; auto.
  split; [eapply reloc_chain; [apply closed_desc|exact HSp|exact Hrl|exact F2]|]. split; [exact F3|]. split; [cbn [length]; lia|].
  intros q Hq1 Hq2. rewrite (F5 q Hq1 Hq2), Hk2. apply N.eqb_neq in Hq1. apply N.eqb_neq in Hq2. rewrite Hq1, Hq2. apply app_nil_r.
Qed.

Definition cpost (g : ghost) (x : N) (r : pres) (s' : pstate) : Prop := exists g', TI s' g' /\ J s' g' /\ reloc g g' (desc g x).

(** the walk from [x] with the measure: it runs out of fuel only if the fuel is below twice the size of the subtree *)
Definition CN_specF (fuel : nat) : Prop := forall x s g, TI s g -> J s g -> glive g x ->
  wp (PO g x fuel) (connectNamedObjArgs fuel x) s (cpost g x).

Definition loop_specF (fuel : nat) : Prop := forall obj argIndex s g l r, TI s g -> J s g -> glive g obj ->
  kids g obj = l ++ r -> argIndex = last l InvalidIndex ->
  wp (PL g l r fuel) (connectNamed_loop fuel obj argIndex) s (cpost g obj).

Lemma step_CNF fuel : loop_specF fuel -> CN_specF (S fuel).
Proof.
  intros IHl x s g H HJ Hl. cbn [connectNamedObjArgs].
  pose proof (ti_R _ _ H) as HR.
  apply wp_bind. apply wp_objectAt'; [apply (TI_ObjectAt _ _ _ H Hl)|].
  destruct (TI_live_get _ _ _ H Hl) as (o & Ho & Hlo).
  apply wp_bind. apply wp_rdf. exists o. split; [exact Ho|].
  destruct (R_kids _ _ HR _ _ Ho Hlo) as (_ & Hlast & _). rewrite Hlast.
  eapply wp_weaken; [apply (IHl x _ s g (kids g x) [] H HJ Hl (eq_sym (app_nil_r _)) eq_refl)| |auto].
  intros HP n Hn. inversion Hn as [x' n' Hs]; subst. specialize (HP n' Hs). cbn [length] in HP. lia.
Qed.

Lemma last_split (l : list N) d : l <> [] -> exists l', l = l' ++ [last l d].
Proof. intros H. exists (removelast l). apply app_removelast_last. exact H. Qed.

Lemma step_loopF fuel : CN_specF fuel -> loop_specF fuel -> loop_specF (S fuel).
Proof.
  intros IHc IHl obj argIndex s g l r H HJ Hl Hkl Harg. cbn [connectNamed_loop].
  destruct (N.eqb_spec argIndex InvalidIndex) as [Ei|Ei].
  { apply wp_ret. exists g. split; auto. split; auto. apply reloc_refl. }
  assert (Hne : l <> []) by (intros ->; cbn in Harg; contradiction).
  destruct (last_split l InvalidIndex Hne) as (l' & El). rewrite <- Harg in El. subst l. rewrite <- app_assoc in Hkl. cbn [app] in Hkl.
  assert (Hin : In argIndex (kids g obj)) by (rewrite Hkl; apply in_or_app; right; left; reflexivity).
  pose proof (ti_R _ _ H) as HR. pose proof (R_gwf _ _ HR) as Hwf. destruct (Hwf _ _ Hin) as (_ & Hla).
  apply wp_bind. apply wp_objectAt'; [apply (TI_ObjectAt _ _ _ H Hla)|].
  destruct (TI_live_get _ _ _ H Hla) as (ao0 & Hao0 & Hlao0).
  apply wp_bind. apply wp_rdf. exists ao0. split; [exact Hao0|]. rewrite (R_index _ _ HR _ _ Hao0).
  (* what the measure of the whole gives for the parts *)
  assert (Hsplit : forall m, szl g (l' ++ [argIndex]) m -> exists a n, szl g l' a /\ sz g argIndex n /\ m = (a + n)%nat).
  { intros m Hm. destruct (szl_app g l' [argIndex] m Hm) as (a & b & A & B & E). exists a, b. split; [exact A|]. split; [apply szl_one; exact B|exact E]. }
  apply wp_bind. eapply wp_weaken; [apply (IHc argIndex s g H HJ Hla)| |].
  { intros HP m Hm. destruct (Hsplit m Hm) as (a & n & A & B & ->). specialize (HP n B). lia. }
  intros res s1 (g1 & H1 & HJ1 & Rl1).
  set (S := desc g obj).
  assert (HSo : S obj) by constructor.
  assert (HSa : S argIndex) by (apply (desc_step g obj obj argIndex HSo Hin)).
  assert (Rl1' : reloc g g1 S).
  { eapply reloc_lift; [|exact Rl1]. intros y Hy. eapply desc_in_closed; [apply closed_desc|exact HSa|exact Hy]. }
  assert (Hk1 : kids g1 obj = l' ++ argIndex :: r).
  { rewrite <- Hkl. apply (rl_out _ _ _ Rl1). apply (child_not_desc _ _ HR). exact Hin. }
  assert (Hl1 : glive g1 obj) by (apply (reloc_glive _ _ _ obj Rl1); exact Hl).
  assert (Hla1 : glive g1 argIndex) by (apply (reloc_glive _ _ _ argIndex Rl1); exact Hla).
  (* the subtrees of the children before [argIndex] are untouched by the walk below [argIndex] *)
  assert (Hin' : forall c, In c l' -> In c (kids g obj)) by (intros c Hc; rewrite Hkl; apply in_or_app; left; exact Hc).
  assert (Hnd : NoDup (l' ++ argIndex :: r)).
  { destruct (TI_live_get _ _ _ H Hl) as (oo & Hoo & Hloo). destruct (R_kids _ _ HR _ _ Hoo Hloo) as (_ & _ & _ & Hn). rewrite Hkl in Hn. exact Hn. }
  assert (Hca : forall c, In c l' -> c <> argIndex).
  { intros c Hc ->. apply NoDup_remove_2 in Hnd. apply Hnd. apply in_or_app. left. exact Hc. }
  assert (Hsame1 : forall c y, In c l' -> desc g c y -> kids g1 y = kids g y).
  { intros c y Hc Hd. apply (rl_out _ _ _ Rl1). intros Hd'. apply (Hca c Hc).
    apply (siblings_disjoint2 (p_tree s) g obj c argIndex y HR (Hin' c Hc) Hin Hd Hd'). }
  assert (Htr1 : forall a, szl g l' a -> szl g1 l' a) by (intros a Ha; apply (proj2 (sz_same g g1) l' a Ha Hsame1)).
  destruct (negb (pres_eqb res ROk)).
  { apply wp_ret. exists g1. split; auto. }
  assert (Hcont : forall s2 g2 r2, TI s2 g2 -> J s2 g2 -> reloc g g2 S -> kids g2 obj = l' ++ argIndex :: r2 ->
     (length r2 <= length r)%nat -> (forall a, szl g l' a -> szl g2 l' a) ->
     wp (PL g (l' ++ [argIndex]) r (Datatypes.S fuel)) (mlet prev <~ rdf argIndex o_prev ;; connectNamed_loop fuel obj prev) s2 (cpost g obj)).
  { intros s2 g2 r2 H2 HJ2 Rl2 Hk2 Hlen2 Htr2. pose proof (ti_R _ _ H2) as HR2.
    assert (Hlo2 : glive g2 obj) by (apply (reloc_glive _ _ _ obj Rl2); exact Hl).
    destruct (sibling_links _ _ HR2 obj l' argIndex r2 Hlo2 Hk2) as (ao2 & Hao2 & _ & _ & Hprev & _).
    apply wp_bind. apply wp_rdf. exists ao2. split; [exact Hao2|]. rewrite Hprev.
    eapply wp_weaken; [apply (IHl obj (last l' InvalidIndex) s2 g2 l' (argIndex :: r2) H2 HJ2 Hlo2 Hk2 eq_refl)| |].
    - intros HP m Hm. destruct (Hsplit m Hm) as (a & n & A & B & ->). specialize (HP a (Htr2 a A)). pose proof (sz_pos _ _ _ B). cbn [length] in HP. lia.
    - intros r0 s' (g' & F1 & F0 & F2). exists g'. split; auto. split; auto.
      eapply reloc_chain; [apply closed_desc|exact HSo|exact Rl2|exact F2]. }
  pose proof (ti_R _ _ H1) as HR1.
  destruct (TI_live_get _ _ _ H1 Hla1) as (ao & Hao & Hlao).
  apply wp_bind. apply wp_rdo. exists ao. split; [exact Hao|].
  pose proof (ti_info _ _ H1 _ _ Hao Hlao) as Hinfo.
  destruct (opInfo (o_infoIndex ao)) as [[[op flags] argFlags]|] eqn:Erow; [|contradiction].
  apply wp_bind. eapply wp_info; [exact Erow|].
  apply wp_bind, wp_get.
  destruct (negb (hasFlag flags aml_pOpFlagNamed) || negb (o_tableHandle ao =? p_handle s1) || (o_first ao =? InvalidIndex) ||
            (o_opcode ao =? aml_pOpIntScopeBlock)) eqn:Ec.
  { apply (Hcont s1 g1 r H1 HJ1 Rl1' Hk1 (Nat.le_refl _) Htr1). }
  apply orb_false_elim in Ec. destruct Ec as (Ec & Esb). apply orb_false_elim in Ec. destruct Ec as (Ec & Efirst).
  apply orb_false_elim in Ec. destruct Ec as (Enamed & Ehandle).
  apply negb_false_iff in Enamed. apply negb_false_iff in Ehandle. apply N.eqb_eq in Ehandle. apply N.eqb_neq in Esb.
  apply N.eqb_neq in Efirst.
  destruct (R_kids _ _ HR1 _ _ Hao Hlao) as (Hfirst & _).
  destruct (hd_nonempty _ _ _ (eq_sym Hfirst) Efirst) as (krest & Ek).
  assert (Htg1 : tgt_ok s1 g1 argIndex).
  { exists ao, op, flags, argFlags. repeat (split; [assumption|]). rewrite Ek. discriminate. }
  assert (Hin_n : In (o_first ao) (kids g1 argIndex)) by (rewrite Ek; left; reflexivity).
  destruct ((R_gwf _ _ HR1) _ _ Hin_n) as (_ & Hln).
  apply wp_bind. apply wp_objectAt'; [apply (TI_ObjectAt _ _ _ H1 Hln)|].
  destruct (TI_live_get _ _ _ H1 Hln) as (no & Hno & Hlno).
  apply wp_bind. apply wp_rdo. exists no. split; [exact Hno|].
  destruct (valueBytes no) as [[tbl sl]|] eqn:Ev.
  2:{ apply wp_ret. exists g1. split; auto. }
  destruct (s_len sl <? aml_amlNameLen) eqn:Elen.
  { apply wp_ret. exists g1. split; auto. }
  apply N.ltb_ge in Elen.
  assert (Hsl : slice_ok (p_tables s1) tbl sl).
  { pose proof (pool_ok_get _ _ _ _ (ti_pool _ _ H1) Hno) as Hv. unfold valueBytes in Ev.
    destruct (o_value no) as [[n|tb sl0|i|f]|]; try discriminate. inversion Ev; subst. exact Hv. }
  destruct (slice_bytes_ok s1 tbl sl Hsl) as (bytes & Eb & Hblen).
  apply wp_bind. eapply wp_bytesOf; [exact Eb|].
  destruct (rev_four bytes) as (b3 & b2 & b1 & b0 & rb & Erev).
  { rewrite Hblen. unfold aml_amlNameLen in Elen. lia. }
  apply wp_bind. unfold setNameFrom. rewrite Erev.
  apply wp_wrf; [eauto|].
  set (s2 := with_tree s1 (tset (p_tree s1) argIndex (set_name (b0, b1, b2, b3)))).
  assert (H2 : TI s2 g1) by (apply TI_set_name; exact H1).
  assert (HJ2 : J s2 g1) by (apply J_setname; auto).
  pose proof (ti_R _ _ H2) as HR2.
  assert (Hlive2 : live (p_tree s2) argIndex) by (apply (R_live_glive _ _ HR2); exact Hla1).
  apply wp_bind. eapply wp_tq; [apply (NumArgs_spec _ _ HR2 argIndex Hlive2)|].
  destruct ((N.of_nat (length (kids g1 argIndex)) =? argCount argFlags) || (argCount argFlags <=? termArgIndex argFlags)).
  { apply (Hcont s2 g1 r H2 HJ2 Rl1' Hk1 (Nat.le_refl _) Htr1). }
  (* attachSiblingsAsArgs *)
  apply wp_bind. unfold attachSiblingsAsArgs.
  destruct (TI_live_get _ _ _ H2 Hl1) as (oo & Hoo & Hloo).
  destruct (R_kids _ _ HR2 _ _ Hoo Hloo) as (_ & _ & Hch & _). rewrite Hk1 in Hch.
  destruct (chain_mid _ _ _ _ _ Hch) as (ao2 & Hao2 & _ & _ & _ & Hnext).
  apply wp_bind. apply wp_rdf. exists ao2. split; [exact Hao2|]. rewrite Hnext.
  assert (Htg2 : tgt_ok s2 g1 argIndex).
  { exists (set_name (b0, b1, b2, b3) ao), op, flags, argFlags. unfold s2. cbn [p_tree with_tree p_handle].
    rewrite get_tset, N.eqb_refl, Hao. cbn [option_map]. split; [reflexivity|]. cbn [set_name o_infoIndex o_tableHandle o_opcode].
    repeat (split; [assumption|]). rewrite Ek. discriminate. }
  eapply wp_weaken; [apply (attach_spec2 fuel obj argIndex (hd InvalidIndex r) _ s2 g1 l' r H2 HJ2 Hk1 eq_refl Htg2)| |].
  { intros HP m Hm. destruct (Hsplit m Hm) as (a & n & A & B & ->). pose proof (sz_pos _ _ _ B). lia. }
  intros r0 s3 (g3 & r3 & H3 & HJ3 & Rl3 & Ek3 & Hlen3 & Hoth3).
  assert (Rl3' : reloc g g3 S).
  { eapply reloc_chain; [apply closed_desc|exact HSo|exact Rl1'|]. eapply reloc_lift; [|exact Rl3].
    intros y Hy. exact Hy. }
  destruct (negb (pres_eqb r0 ROk)).
  { apply wp_ret. exists g3. split; auto. }
  apply (Hcont s3 g3 r3 H3 HJ3 Rl3' Ek3 Hlen3).
  intros a Ha. apply (proj2 (sz_same g1 g3) l' a (Htr1 a Ha)).
  intros c y Hc Hd. apply Hoth3.
  - (* y is below a child of obj: it is not obj *)
    intros ->. apply (child_not_desc _ _ HR1 obj c); [rewrite Hk1; apply in_or_app; left; exact Hc|exact Hd].
  - intros ->. apply (Hca c Hc).
    apply (siblings_disjoint2 (p_tree s1) g1 obj c argIndex argIndex HR1); [rewrite Hk1; apply in_or_app; left; exact Hc|
      rewrite Hk1; apply in_or_app; right; left; reflexivity|exact Hd|apply desc_refl].
Qed.

Lemma conn_allF : forall fuel, CN_specF fuel /\ loop_specF fuel.
Proof.
  induction fuel as [|fuel (IHc & IHl)].
  - split; intro; intros; cbn [connectNamedObjArgs connectNamed_loop]; apply wp_outOfFuel.
    + intros n Hn. pose proof (sz_pos _ _ _ Hn). lia.
    + intros m Hm. lia.
  - split; [apply step_CNF; exact IHl|apply step_loopF; assumption].
Qed.

(** the walk without the measure (fuel exhaustion allowed) *)
Definition CN_spec2 (fuel : nat) : Prop := forall x s g, TI s g -> J s g -> glive g x ->
  wp True (connectNamedObjArgs fuel x) s (fun r s' => exists g', TI s' g' /\ J s' g' /\ reloc g g' (desc g x)).

Lemma conn_all2 : forall fuel, CN_spec2 fuel /\ True.
Proof.
  intros fuel. split; [|exact I]. intros x s g H HJ Hl.
  eapply wp_weaken; [apply (proj1 (conn_allF fuel) x s g H HJ Hl)|auto|]. intros r s' Hp. exact Hp.
Qed.
End Conn2.
