(** C11 (fragment F9): resolveMethodCalls on the tree that connectNamedObjArgs left - the pass where a statement gets its
    operands (connectNonNamedObjArg: the next [argCount] siblings become the arguments of the operator).  Exact
    description: [lay2] -> [lay5]; everything that is not a statement is left alone. *)
From Coq Require Import NArith ZArith Arith List Bool Lia.
From Coq Require Import ZifyBool ZifyN ZifyNat.
From FF Require Import Lib.Word Gen.Consts_device_acpi_aml Gen.Consts_aml_tree Aml.Stream Aml.Lex Aml.LexProofs
  Aml.Tree Aml.TreeSpec Aml.TreeProofs Aml.TreeProofsOps Aml.TreeProofsFind Aml.Parser Aml.Grammar Aml.LexRoundtrip
  Aml.ParserTotalTree Aml.ParserTotalBase
  Aml.ParserFragBase Aml.ParserFragFirst Aml.ParserFragF0 Aml.ParserFragF0Shape Aml.ParserFragConn Aml.ParserFragF0Conn Aml.ParserFragWalk
  Aml.ParserFragF0Top Aml.ParserFragRose Aml.ParserFragDev Aml.ParserFragArgs Aml.ParserFragF9 Aml.ParserFragF9First Aml.ParserFragF9Conn Aml.ParserFragF9Top.
Import ListNotations.
Local Open Scope N_scope.

Ltac Zify.zify_post_hook ::= Z.div_mod_to_equations.

(** ---- moving a run of siblings below the target, for either value of useParent ---- *)
Lemma attach_go_up : forall cs up f obj tg l1 l2 ao atg s g pl (Q : pres -> pstate -> Prop),
  Rep (p_tree s) g pl -> kids g obj = l1 ++ tg :: cs ++ l2 ->
  (forall c, In c cs -> ~ desc g c tg /\ exists ac, pget pl c = Some ac /\ y_op ac <> opFreed) ->
  pget pl obj = Some ao -> y_op ao <> opFreed -> pget pl tg = Some atg -> y_op atg <> opFreed ->
  (forall t' g', Rep t' g' pl -> length (g_kids g') = length (g_kids g) ->
     (forall y, kids g' y = if y =? tg then kids g tg ++ cs else if y =? obj then l1 ++ tg :: l2 else kids g y) ->
     Q ROk (with_tree s t')) ->
  wp False (attachSiblings_go (length cs + S f) obj tg (hd InvalidIndex (cs ++ l2)) (N.of_nat (length cs)) up) s Q.
Proof.
  induction cs as [|c cs IH]; intros up f obj tg l1 l2 ao atg s g pl Q H Hk Hcs Hao Hlo Hatg Hltg K.
  - cbn [length Nat.add]. rewrite attachSiblings_go_S. change (N.of_nat 0 =? 0) with true. cbv iota. apply wp_ret.
    assert (E : with_tree s (p_tree s) = s) by (destruct s; reflexivity). rewrite <- E. apply (K (p_tree s) g H eq_refl).
    intros y. rewrite app_nil_r. cbn [app] in Hk. destruct (N.eqb_spec y tg) as [->|]; [reflexivity|]. destruct (N.eqb_spec y obj) as [->|]; [exact Hk|reflexivity].
  - pose proof (rep_R _ _ _ H) as HR. cbn [length app hd] in *.
    destruct (Hcs c (or_introl eq_refl)) as (Hndc & ac & Hac & Hlc).
    change (S (length cs) + S f)%nat with (S (length cs + S f)). rewrite attachSiblings_go_S.
    assert (En : N.of_nat (S (length cs)) =? 0 = false) by (apply N.eqb_neq; lia). rewrite En. rewrite (rep_not_Inv _ _ _ _ _ H Hac). cbn [andb].
    apply wp_bind. apply wp_ret. rewrite (rep_not_Inv _ _ _ _ _ H Hac).
    apply wp_bind. unfold objectAt. apply wp_get. rewrite (rep_ObjectAt _ _ _ H _ _ Hac Hlc).
    apply wp_bind. apply wp_need.
    assert (Hk2 : kids g obj = (l1 ++ [tg]) ++ c :: (cs ++ l2)) by (rewrite <- app_assoc; exact Hk).
    apply wp_bind. eapply (wp_rdf_sib False obj (l1 ++ [tg]) c (cs ++ l2)); [exact H|exact Hk2|]. intros o1 _ _ _ Hnext _. rewrite Hnext.
    apply wp_bind. eapply (wp_rdf_sib False obj (l1 ++ [tg]) c (cs ++ l2)); [exact H|exact Hk2|]. intros o2 _ Hpar _ _ _. rewrite Hpar.
    apply wp_bind. unfold objectAt. apply wp_get. rewrite (rep_ObjectAt _ _ _ H _ _ Hao Hlo).
    assert (Hin_c : In c (kids g obj)) by (rewrite Hk2; apply in_or_app; right; left; reflexivity).
    assert (Hin_t : In tg (kids g obj)) by (rewrite Hk; apply in_or_app; right; left; reflexivity).
    assert (Hlive_o : glive g obj) by (eapply rep_live; eauto).
    assert (Hlive_t : glive g tg) by (eapply rep_live; eauto).
    assert (Hlive_c : glive g c) by (eapply rep_live; eauto).
    assert (Hnd : NoDup (kids g obj)).
    { destruct (rep_obj _ _ _ H _ _ Hao Hlo) as (oo & Hoo & Epay & _).
      assert (Hloo : o_opcode oo <> opFreed) by (rewrite (pay_op _ _ Epay); exact Hlo).
      destruct (R_kids _ _ HR _ _ Hoo Hloo) as (_ & _ & _ & Hnd). exact Hnd. }
    assert (Hnotin : ~ In c ((l1 ++ [tg]) ++ cs ++ l2)) by (apply NoDup_mid_notin; rewrite <- Hk2; exact Hnd).
    assert (Hrem : remove1 c (kids g obj) = l1 ++ tg :: cs ++ l2).
    { rewrite Hk2, remove1_split; [rewrite <- app_assoc; reflexivity|]. intros Hi. apply Hnotin. apply in_or_app. left. exact Hi. }
    apply wp_bind. eapply wp_detach_rep; [exact H|exact Hin_c|]. intros t1 H1. rewrite Hrem in H1.
    set (g1 := set_kids g obj (l1 ++ tg :: cs ++ l2)) in *.
    assert (Holt : obj < N.of_nat (length (g_kids g))) by (apply glive_lt; exact Hlive_o).
    assert (Htlt : tg < N.of_nat (length (g_kids g))) by (apply glive_lt; exact Hlive_t).
    assert (Hne_to : tg <> obj) by (eapply (R_child_neq_parent _ _ HR); eauto).
    assert (Hne_co : c <> obj) by (eapply (R_child_neq_parent _ _ HR); eauto).
    assert (Hne_ct : c <> tg).
    { intros E. apply Hnotin. rewrite E. apply in_or_app. left. apply in_or_app. right. left. reflexivity. }
    assert (Hk1 : forall q, kids g1 q = if q =? obj then l1 ++ tg :: cs ++ l2 else kids g q).
    { intros q. unfold g1. apply kids_set_kids. exact Holt. }
    assert (Hroot1 : groot g1 c).
    { intros q Hq. rewrite Hk1 in Hq. destruct (N.eqb_spec q obj) as [E|Hne].
      - apply Hnotin. rewrite <- app_assoc. exact Hq.
      - apply Hne. eapply (R_parent_unique _ _ HR); eauto. }
    assert (Hsub1 : forall v c', v <> tg -> In c' (kids g1 v) -> In c' (kids g v)).
    { intros v c' _ Hc'. rewrite Hk1 in Hc'. destruct (N.eqb_spec v obj) as [->|_]; [|exact Hc'].
      rewrite Hk. apply in_app_or in Hc'. apply in_or_app. destruct Hc' as [Hc'|Hc']; [left; exact Hc'|right].
      destruct Hc' as [<-|Hc']; [left; reflexivity|right; right; exact Hc']. }
    assert (Hnd1 : ~ desc g1 c tg).
    { intros Hd. destruct (desc_redirect2 g g1 tg c Hsub1 tg Hd) as [A|A]; exact (Hndc A). }
    apply wp_bind. eapply (wp_append_rep False tg c _ g1 pl); [exact H1|apply glive_set_kids; exact Hlive_t|apply glive_set_kids; exact Hlive_c|exact Hroot1|exact Hnd1|].
    intros t2 H2. rewrite Hk1 in H2. assert (Eto : tg =? obj = false) by (apply N.eqb_neq; exact Hne_to). rewrite Eto in H2.
    set (g2 := set_kids g1 tg (kids g tg ++ [c])) in *.
    assert (Hk2' : forall q, kids g2 q = if q =? tg then kids g tg ++ [c] else if q =? obj then l1 ++ tg :: cs ++ l2 else kids g q).
    { intros q. unfold g2. rewrite kids_set_kids by (unfold g1; rewrite len_set_kids; exact Htlt). rewrite Hk1. reflexivity. }
    replace (N.of_nat (S (length cs)) - 1) with (N.of_nat (length cs)) by lia.
    assert (Eot : obj =? tg = false) by (apply N.eqb_neq; congruence).
    eapply (IH up f obj tg l1 l2 ao atg _ g2 pl Q); [exact H2| | |exact Hao|exact Hlo|exact Hatg|exact Hltg|].
    + rewrite Hk2', Eot, N.eqb_refl. reflexivity.
    + intros c' Hc'. destruct (Hcs c' (or_intror Hc')) as (Hndc' & Hp'). split; [|exact Hp'].
      intros Hd. assert (Hsub2 : forall v c0, v <> tg -> In c0 (kids g2 v) -> In c0 (kids g v)).
      { intros v c0 Hv Hc0. rewrite Hk2' in Hc0. apply N.eqb_neq in Hv. rewrite Hv in Hc0. apply N.eqb_neq in Hv.
        apply (Hsub1 v c0 Hv). rewrite Hk1. exact Hc0. }
      destruct (desc_redirect2 g g2 tg c' Hsub2 tg Hd) as [A|A]; exact (Hndc' A).
    + intros t' g' H' Hlen' Hk'. apply (K t' g' H').
      * rewrite Hlen'. unfold g2, g1. rewrite !len_set_kids. reflexivity.
      * intros y. rewrite Hk', !Hk2', N.eqb_refl. destruct (N.eqb_spec y tg); [rewrite <- app_assoc; reflexivity|].
        destruct (N.eqb_spec y obj); reflexivity.
Qed.


(** ---- one step of the loop over a child whose own turn is a no-op (after the walk of its subtree) ---- *)
Lemma calls_step g pl h f p l1 c l2 a s (Q : pres -> pstate -> Prop) :
  Rep (p_tree s) g pl -> kids g p = l1 ++ c :: l2 -> pget pl c = Some a -> y_op a <> opFreed ->
  wp False (resolveMethodCalls f c) s (fun r s1 => r = ROk /\ exists g1,
     Rep (p_tree s1) g1 pl /\ p_handle s1 = h /\ kids g1 p = l1 ++ c :: l2 /\ calls_ok g1 h c a /\
     wp False (resolveCalls_loop f p (last l1 InvalidIndex)) s1 Q) ->
  wp False (resolveCalls_loop (S f) p c) s Q.
Proof.
  intros H Hk Hac Hlc K. rewrite resolveCalls_loop_S. rewrite (rep_not_Inv _ _ _ _ _ H Hac).
  apply wp_bind. eapply wp_objectAt_rep; [exact H|exact Hac|exact Hlc|].
  apply wp_bind. eapply (wp_rdf_sib False p l1 c l2); [exact H|exact Hk|]. intros o' Hidx _ _ _ _. rewrite Hidx.
  apply wp_bind. eapply wp_conseq; [exact K|]. intros r0 s1 (-> & g1 & H1 & Hh & Hk1 & (Hc1 & Hc2) & K1).
  change (negb (pres_eqb ROk ROk)) with false. cbv iota zeta.
  apply wp_bind. eapply wp_rdo_rep; [exact H1|exact Hac|exact Hlc|]. intros ao Hpay _ _ _.
  apply wp_bind, wp_get. rewrite (pay_op _ _ Hpay), (pay_th _ _ Hpay), Hh, Hc1.
  apply wp_bind. eapply (nonnamed_arg g1 pl h); [exact H1|exact Hh|exact Hac|exact Hlc|exact Hc2|].
  change (pres_eqb ROk RFailed) with false. cbv iota.
  apply wp_bind. eapply (wp_rdf_sib False p l1 c l2); [exact H1|exact Hk1|]. intros o _ _ Hprev _ _. rewrite Hprev. exact K1.
Qed.

Lemma calls_leaf_walk g pl f d a s : Rep (p_tree s) g pl -> pget pl d = Some a -> y_op a <> opFreed -> kids g d = [] ->
  wp False (resolveMethodCalls (S (S f)) d) s (fun r s' => r = ROk /\ s' = s).
Proof.
  intros H Ha Hl Hk. rewrite resolveMethodCalls_S.
  apply wp_bind. eapply wp_objectAt_rep; [exact H|exact Ha|exact Hl|].
  apply wp_bind. eapply wp_rdf_rep; [exact H|exact Ha|exact Hl|]. intros o _ _ _ Hlast. rewrite Hlast, Hk. cbn [last].
  rewrite resolveCalls_loop_S, N.eqb_refl. apply wp_ret. auto.
Qed.

(** a run of childless children is stepped over *)
Lemma calls_leaves_mid h : forall D1 f obj L D2 s g pl (Q : pres -> pstate -> Prop),
  Rep (p_tree s) g pl -> p_handle s = h -> kids g obj = L ++ D1 ++ D2 ->
  (forall d, In d D1 -> kids g d = [] /\ exists a, pget pl d = Some a /\ y_op a <> opFreed /\ calls_ok g h d a) ->
  wp False (resolveCalls_loop (S (S f)) obj (last L InvalidIndex)) s Q ->
  wp False (resolveCalls_loop (length D1 + S (S f)) obj (last (L ++ D1) InvalidIndex)) s Q.
Proof.
  induction D1 as [|x D1 IH] using rev_ind; intros f obj L D2 s g pl Q H Hh Hk Hall K.
  - cbn [length Nat.add]. rewrite app_nil_r. exact K.
  - rewrite app_length. cbn [length]. replace (length D1 + 1 + S (S f))%nat with (S (S (S (length D1 + f))))%nat by lia.
    rewrite app_assoc, last_app_one. destruct (Hall x) as (Hkx & a & Ha & Hl & Hc); [apply in_or_app; right; left; reflexivity|].
    assert (Hk' : kids g obj = (L ++ D1) ++ x :: D2) by (rewrite Hk, <- !app_assoc; reflexivity).
    eapply (calls_step g pl h _ obj (L ++ D1) x D2 a s); [exact H|exact Hk'|exact Ha|exact Hl|].
    eapply wp_conseq; [apply (calls_leaf_walk g pl _ x a s H Ha Hl Hkx)|]. intros r s' (-> & ->).
    split; [reflexivity|]. exists g. split; [exact H|]. split; [exact Hh|]. split; [exact Hk'|]. split; [exact Hc|].
    replace (S (S (length D1 + f)))%nat with (length D1 + S (S f))%nat by lia.
    eapply (IH f obj L (x :: D2)); [exact H|exact Hh|rewrite Hk, <- !app_assoc; reflexivity| |exact K].
    intros d Hd. apply Hall. apply in_or_app. left. exact Hd.
Qed.

Lemma calls_leaves h D1 f obj D2 s g pl (Q : pres -> pstate -> Prop) :
  Rep (p_tree s) g pl -> p_handle s = h -> kids g obj = D1 ++ D2 ->
  (forall d, In d D1 -> kids g d = [] /\ exists a, pget pl d = Some a /\ y_op a <> opFreed /\ calls_ok g h d a) ->
  wp False (resolveCalls_loop (S (S f)) obj InvalidIndex) s Q ->
  wp False (resolveCalls_loop (length D1 + S (S f)) obj (last D1 InvalidIndex)) s Q.
Proof. intros H Hh Hk Hall K. apply (calls_leaves_mid h D1 f obj [] D2 s g pl Q H Hh Hk Hall K). Qed.

Lemma loop_fuel_eq F F' p a s (Q : pres -> pstate -> Prop) :
  F = F' -> wp False (resolveCalls_loop F' p a) s Q -> wp False (resolveCalls_loop F p a) s Q.
Proof. intros ->. auto. Qed.

(** ---- the walk over a subtree all of whose objects are left alone ---- *)
Section CallsS.
Variable g : ghost.
Variable pl : list pay.
Variable h : N.
Variable SS : N -> Prop.
Hypothesis Sclosed : forall y c, SS y -> In c (kids g y) -> SS c.
Hypothesis Hall : forall y a, SS y -> pget pl y = Some a -> y_op a <> opFreed -> calls_ok g h y a.

Definition KWs (f : nat) : Prop := forall x a s, Rep (p_tree s) g pl -> p_handle s = h -> SS x ->
  pget pl x = Some a -> y_op a <> opFreed -> fwalkb g f x ->
  wp False (resolveMethodCalls f x) s (fun r s' => r = ROk /\ s' = s).

Definition KLs (f : nat) : Prop := forall p lr l2 s, Rep (p_tree s) g pl -> p_handle s = h ->
  kids g p = rev lr ++ l2 -> (forall c, In c lr -> SS c) -> floopb g f lr ->
  wp False (resolveCalls_loop f p (hd InvalidIndex lr)) s (fun r s' => r = ROk /\ s' = s).

Lemma callsS_walk f : KLs f -> KWs (S f).
Proof.
  intros IHl x a s H Hh HSx Ha Hl Hf. rewrite resolveMethodCalls_S.
  apply wp_bind. eapply wp_objectAt_rep; [exact H|exact Ha|exact Hl|].
  apply wp_bind. eapply wp_rdf_rep; [exact H|exact Ha|exact Hl|]. intros o _ _ _ Hlast. rewrite Hlast.
  cbn [fwalkb] in Hf. rewrite <- (rev_involutive (kids g x)) at 1. rewrite last_rev_hd.
  apply (IHl x (rev (kids g x)) [] s H Hh); [rewrite rev_involutive, app_nil_r; reflexivity| |exact Hf].
  intros c Hc. apply in_rev in Hc. eapply Sclosed; eauto.
Qed.

Lemma callsS_loop f : KWs f -> KLs f -> KLs (S f).
Proof.
  intros IHw IHl p lr l2 s H Hh Hk HS Hf.
  destruct lr as [|c r]; cbn [hd]; [rewrite resolveCalls_loop_S, N.eqb_refl; apply wp_ret; auto|].
  cbn [rev] in Hk. rewrite <- app_assoc in Hk. cbn [app] in Hk.
  assert (Hin : In c (kids g p)) by (rewrite Hk; apply in_or_app; right; left; reflexivity).
  destruct (rep_kid_pay _ _ _ _ _ H Hin) as (ac & Hac & Hlc).
  cbn [floopb] in Hf. destruct Hf as [Hfc Hfr].
  eapply (calls_step g pl h f p (rev r) c l2 ac s); [exact H|exact Hk|exact Hac|exact Hlc|].
  eapply wp_conseq; [apply (IHw c ac s H Hh (HS c (or_introl eq_refl)) Hac Hlc Hfc)|].
  intros r0 s' (-> & ->). split; [reflexivity|]. exists g. split; [exact H|]. split; [exact Hh|]. split; [exact Hk|].
  split; [apply Hall; [apply HS; left; reflexivity|exact Hac|exact Hlc]|].
  rewrite last_rev_hd. apply (IHl p r (c :: l2) s H Hh); [exact Hk| |exact Hfr]. intros c' Hc'. apply HS. right. exact Hc'.
Qed.

Lemma callsS_all : forall f, KWs f /\ KLs f.
Proof.
  induction f as [|f (IHw & IHl)].
  - split; intro; intros; cbn in *; contradiction.
  - split; [apply callsS_walk; exact IHl|apply callsS_loop; assumption].
Qed.
End CallsS.

Lemma lay5_nodes h tbl : forall l b off x, In x (rnodesl (lay5 h tbl b off l)) -> b <= x < b + N.of_nat (iszs l).
Proof.
  induction l as [|d rest IH|bk k seg fa body rest IHb IH|lk seg fa ta rest IH|seg k n elems rest IH|sk ta rest IH] using items_ind; intros b off x Hx; [contradiction| | | | |].
  5:{ rewrite lay5_cons, rnodesl_app in Hx. rewrite iszs_cons, isz_stmt. apply in_app_or in Hx. destruct Hx as [Hx|Hx].
      - cbn [lay5_item] in Hx. unfold rnodesl in Hx. cbn [flat_map] in Hx. rewrite app_nil_r, rnodes_eq in Hx.
        destruct Hx as [<-|Hx]; [lia|]. apply leaf_row_nodes in Hx. rewrite len_cst_pays in Hx. lia.
      - apply IH in Hx. rewrite isz_stmt in Hx. lia. }
  - rewrite lay5_cons, rnodesl_app in Hx. rewrite iszs_cons. apply in_app_or in Hx. destruct Hx as [Hx|Hx].
    + cbn [lay5_item rnodesl flat_map rnodes app In] in Hx. cbn [isz]. lia.
    + apply IH in Hx. cbn [isz] in *. lia.
  - rewrite lay5_cons, rnodesl_app in Hx. rewrite iszs_cons, isz_blk. apply in_app_or in Hx. destruct Hx as [Hx|Hx].
    + rewrite lay5_blk in Hx. unfold rnodesl in Hx. cbn [flat_map] in Hx. rewrite app_nil_r, rnodes_eq in Hx.
      destruct Hx as [<-|Hx]; [lia|]. rewrite rnodesl_app in Hx. apply in_app_or in Hx. destruct Hx as [Hx|Hx].
      * apply leaf_row_nodes in Hx. rewrite len_hd_pays in Hx. lia.
      * unfold rnodesl in Hx. cbn [flat_map] in Hx. rewrite app_nil_r, rnodes_eq in Hx. unfold nfx in Hx.
        destruct Hx as [<-|Hx]; [lia|]. apply IHb in Hx. lia.
    + apply IH in Hx. rewrite isz_blk in Hx. lia.
  - rewrite lay5_cons, rnodesl_app in Hx. rewrite iszs_cons, isz_leaf. apply in_app_or in Hx. destruct Hx as [Hx|Hx].
    + cbn [lay5_item] in Hx. unfold rnodesl in Hx. cbn [flat_map] in Hx. rewrite app_nil_r, rnodes_eq in Hx.
      destruct Hx as [<-|Hx]; [lia|]. apply leaf_row_nodes in Hx. rewrite app_length, len_lhd_pays, len_cst_pays in Hx. lia.
    + apply IH in Hx. rewrite isz_leaf in Hx. lia.
  - rewrite lay5_cons, rnodesl_app in Hx. rewrite iszs_cons, isz_pkg. apply in_app_or in Hx. destruct Hx as [Hx|Hx].
    + cbn [lay5_item] in Hx. unfold rnodesl in Hx. cbn [flat_map] in Hx. rewrite app_nil_r, rnodes_eq in Hx.
      destruct Hx as [<-|Hx]; [lia|]. unfold rnodesl in Hx. cbn [flat_map] in Hx. rewrite app_nil_r in Hx. apply in_app_or in Hx.
      destruct Hx as [Hx|Hx]; [rewrite rnodes_eq in Hx; cbn [rnodesl flat_map In] in Hx; lia|apply pkg_tree_nodes in Hx; lia].
    + apply IH in Hx. rewrite isz_pkg in Hx. lia.
Qed.

(** ---- the exact pass over the items ---- *)
Fixpoint rlen (l : list item) : nat :=
  match l with [] => O | IStmt _ ta :: t => S (length ta + rlen t) | _ :: t => S (rlen t) end.
Fixpoint rfuel_item (it : item) : nat :=
  match it with
  | IBlk bk _ _ fa body => (8 + length (bfx bk fa) + fold_right (fun x n => (rfuel_item x + n)%nat) O body)%nat
  | IStmt _ ta => (2 * length ta + 2)%nat
  | _ => (3 * isz it + 2)%nat
  end.
Definition rfuel (l : list item) : nat := fold_right (fun x n => (rfuel_item x + n)%nat) O l.
Lemma rfuel_cons x t : rfuel (x :: t) = (rfuel_item x + rfuel t)%nat. Proof. reflexivity. Qed.
Lemma rfuel_blk bk k seg fa body : rfuel_item (IBlk bk k seg fa body) = (8 + length (bfx bk fa) + rfuel body)%nat. Proof. reflexivity. Qed.
Definition inertb (it : item) : bool := match it with IName _ | ILeaf _ _ _ _ | IPkg _ _ _ _ => true | _ => false end.
Lemma rfuel_inert it : inertb it = true -> rfuel_item it = (3 * isz it + 2)%nat.
Proof. destruct it; try discriminate; reflexivity. Qed.
Lemma rlen_inert it rest : inertb it = true -> rlen (it :: rest) = S (rlen rest).
Proof. destruct it; try discriminate; reflexivity. Qed.
Lemma rlen_le_rfuel l : (rlen l <= rfuel l)%nat.
Proof.
  induction l as [|[d|bk k seg fa body|lk seg fa ta|seg k n elems|sk ta] t IH]; [cbn; lia| | | | |]; rewrite rfuel_cons; cbn [rlen];
    [cbn [rfuel_item]|rewrite rfuel_blk|cbn [rfuel_item]|cbn [rfuel_item]|cbn [rfuel_item]]; lia.
Qed.

Lemma sk_w8 sk : w8 (argCount (sk_af sk) + 0x100 - termArgIndex (sk_af sk)) = N.of_nat (sk_n sk).
Proof. destruct sk; reflexivity. Qed.
Lemma sk_live h sk off : y_op (st_pay h sk off) <> opFreed.
Proof. destruct sk; discriminate. Qed.
Lemma sk_notcall h sk off : (y_op (st_pay h sk off) =? aml_pOpIntNamePathOrMethodCall) = false.
Proof. destruct sk; reflexivity. Qed.

Lemma leaf_row_Forall_nth (P : rose -> Prop) : forall ps b, Forall P (leaf_row b ps) ->
  forall i p, nth_error ps i = Some p -> P (RN (b + N.of_nat i) p []).
Proof.
  induction ps as [|q r IH]; intros b HF i p Hi; [destruct i; discriminate|]. cbn [leaf_row] in HF.
  destruct i as [|i].
  - inversion Hi; subst q. rewrite N.add_0_r. exact (Forall_inv HF).
  - replace (b + N.of_nat (S i)) with (b + 1 + N.of_nat i) by lia. apply (IH (b + 1) (Forall_inv_tail HF) i p Hi).
Qed.

Section CallSpec.
Variable h tbl : N.

Definition RSpec (its : list item) : Prop :=
  forall x pre post b off s g pl f ax R (Q : pres -> pstate -> Prop),
  Rep (p_tree s) g pl ->
  kids g x = pre ++ map ridx (lay2 h tbl b off its) ++ post ->
  Forall (Desc g pl) (lay2 h tbl b off its) ->
  pget pl x = Some ax -> y_op ax <> opFreed -> (x < b \/ b + N.of_nat (iszs its) <= x) ->
  p_handle s = h -> forallb item_okb its = true ->
  (2 <= R)%nat -> (rfuel its + R <= f)%nat ->
  (forall t' g', Rep t' g' pl -> Post2 g pl g' pl x b (iszs its) pre post (lay5 h tbl b off its) ->
     wp False (resolveCalls_loop (f - rlen its) x (last pre InvalidIndex)) (with_tree s t') Q) ->
  wp False (resolveCalls_loop f x (last (pre ++ map ridx (lay2 h tbl b off its)) InvalidIndex)) s Q.

Lemma rspec_nil : RSpec [].
Proof.
  intros x pre post b off s g pl f ax R Q H Hk HD Hx Hlx Hrange Hh Hok HR Hf K.
  cbn [lay2 map rlen] in *. rewrite app_nil_r. rewrite Nat.sub_0_r in K.
  specialize (K (p_tree s) g H). assert (E : with_tree s (p_tree s) = s) by (destruct s; reflexivity). rewrite E in K.
  apply K. constructor; auto.
Qed.

Lemma inert_single b off it : inertb it = true ->
  exists r, lay2_item h tbl b off it = [r] /\ lay5_item h tbl b off it = [r] /\ ridx r = b.
Proof. destruct it; try discriminate; intros _; eexists; (split; [reflexivity|split; reflexivity]). Qed.

Lemma rspec_inert it rest : inertb it = true -> RSpec rest -> RSpec (it :: rest).
Proof.
  intros Hin IH x pre post b off s g pl f ax R Q H Hk HD Hx Hlx Hrange Hh Hok HR Hf K.
  apply forallb_item_cons in Hok. destruct Hok as [Hit Hok].
  destruct (inert_single b off it Hin) as (r & E2 & E5 & Hri).
  assert (Hrs : rsize r = isz it).
  { pose proof (lay2_rsizes h tbl [it] b off) as E. cbn [lay2] in E. rewrite app_nil_r, E2 in E. cbn [rsizes fold_right iszs] in E. lia. }
  assert (Hrn : forall y, In y (rnodes r) -> b <= y < b + N.of_nat (isz it)).
  { intros y Hy. assert (Hy' : In y (rnodesl (lay2 h tbl b off [it]))) by (cbn [lay2]; rewrite app_nil_r, E2; cbn [rnodesl flat_map]; rewrite app_nil_r; exact Hy).
    apply lay2_nodes in Hy'. cbn [iszs fold_right] in Hy'. lia. }
  assert (Hok5 : rallr f9_ok5E r).
  { pose proof (lay5_ok5 h tbl [it] b off) as E. cbn [lay5 forallb] in E. rewrite app_nil_r, E5, Hit in E. exact (Forall_inv (E eq_refl)). }
  rewrite lay2_cons in Hk, HD |- *. rewrite E2 in Hk, HD |- *. rewrite iszs_cons in Hrange. rewrite rfuel_cons, (rfuel_inert it Hin) in Hf.
  cbn [map app] in Hk |- *. rewrite Hri in Hk |- *.
  set (B' := b + N.of_nat (isz it)) in *. set (off' := off + lenN (enc_item it)) in *.
  pose proof (Forall_inv HD) as Dr. pose proof (Forall_inv_tail HD) as HDrest. clear HD.
  replace (pre ++ b :: map ridx (lay2 h tbl B' off' rest)) with ((pre ++ [b]) ++ map ridx (lay2 h tbl B' off' rest)) by (rewrite <- app_assoc; reflexivity).
  eapply (IH x (pre ++ [b]) post B' off' s g pl f ax (R + (3 * isz it + 2))%nat Q);
    [exact H|rewrite Hk, <- !app_assoc; reflexivity|exact HDrest|exact Hx|exact Hlx|unfold B'; lia|exact Hh|exact Hok|lia|lia|].
  intros t1 g1 H1 [Q1 Q2 Q3 _].
  assert (Dr1 : Desc g1 pl r).
  { apply (Desc_frame g pl); [exact Dr|]. intros y Hy. apply Hrn in Hy. split; [apply Q3; unfold B'; lia|reflexivity]. }
  destruct r as [i a ks]. cbn [ridx] in Hri. subst i.
  destruct (Desc_inv _ _ _ _ _ Dr1) as (Prb & _ & _).
  set (l2 := map ridx (lay5 h tbl B' off' rest) ++ post) in *.
  assert (Hk1 : kids g1 x = pre ++ b :: l2) by (rewrite Q1, <- !app_assoc; reflexivity).
  assert (Hinb : In b (kids g1 x)) by (rewrite Hk1; apply in_or_app; right; left; reflexivity).
  destruct (rep_kid_pay _ _ _ _ _ H1 Hinb) as (a' & Pa' & Hlb). assert (a' = a) by congruence. subst a'.
  assert (Hcond : forall y ay, In y (rnodes (RN b a ks)) -> pget pl y = Some ay -> y_op ay <> opFreed -> calls_ok g1 h y ay).
  { intros y ay Hy Py Hly. apply (f5_conds t1 g1 pl (RN b a ks) h H1 Dr1 Hok5 y ay Hy Py Hly). }
  rewrite last_app_one.
  assert (EF : exists f1, (f - rlen rest = S f1)%nat /\ (3 * isz it + 1 <= f1)%nat).
  { pose proof (rlen_le_rfuel rest). exists (f - rlen rest - 1)%nat. lia. }
  destruct EF as (f1 & EF & Hf1). rewrite EF.
  eapply (calls_step g1 pl h f1 x pre b l2 a (with_tree s t1)); [exact H1|exact Hk1|exact Prb|exact Hlb|].
  eapply wp_conseq.
  { apply (proj1 (callsS_all g1 pl h (fun y => In y (rnodes (RN b a ks)))
             (fun y c Hy Hc => Desc_kids_in g1 pl _ Dr1 y c Hy Hc) Hcond f1) b a (with_tree s t1) H1 Hh).
    - rewrite rnodes_eq. left. reflexivity.
    - exact Prb.
    - exact Hlb.
    - apply (fwalkb_size g1 pl (RN b a ks) Dr1). lia. }
  intros r0 s' (-> & ->). split; [reflexivity|]. exists g1. split; [exact H1|]. split; [exact Hh|]. split; [exact Hk1|].
  split; [apply Hcond; [rewrite rnodes_eq; left; reflexivity|exact Prb|exact Hlb]|].
  replace f1 with (f - rlen (it :: rest))%nat by (rewrite (rlen_inert it rest Hin); lia).
  apply (K t1 g1 H1).
  rewrite lay5_cons, E5. fold B' off'. constructor.
  - cbn [app map ridx]. rewrite Hk1. unfold l2. reflexivity.
  - constructor; [exact Dr1|exact Q2].
  - intros y Hy Hyx. rewrite iszs_cons in Hy. apply Q3; [unfold B'; lia|exact Hyx].
  - reflexivity.
Qed.

(** a statement: the operands that follow become its arguments *)
Lemma rspec_stmt sk ta rest : RSpec rest -> RSpec (IStmt sk ta :: rest).
Proof.
  intros IH x pre post b off s g pl f ax R Q H Hk HD Hx Hlx Hrange Hh Hok HR Hf K.
  apply forallb_item_cons in Hok. destruct Hok as [Hd_ok Hok]. pose proof Hd_ok as Hit. cbn [item_okb] in Hd_ok.
  apply andb_prop in Hd_ok. destruct Hd_ok as [Hn Hta]. apply Nat.eqb_eq in Hn.
  rewrite lay2_cons in Hk, HD |- *. rewrite iszs_cons, isz_stmt in Hrange. rewrite rfuel_cons in Hf. cbn [rfuel_item] in Hf.
  set (nt := length ta) in *.
  cbn [lay2_item] in Hk, HD |- *.
  set (cs := cst_pays h tbl (off + slo sk) ta) in *.
  assert (Hlc : length cs = nt) by apply len_cst_pays.
  set (B' := b + N.of_nat (isz (IStmt sk ta))) in *.
  assert (HB' : B' = b + 1 + N.of_nat nt) by (unfold B'; rewrite isz_stmt; fold nt; lia).
  set (off' := off + lenN (enc_item (IStmt sk ta))) in *.
  cbn [app map ridx] in Hk |- *. rewrite map_app, leaf_row_idx, Hlc in Hk |- *.
  set (ops := seqN (b + 1) nt) in *.
  pose proof (Forall_inv HD) as DS. pose proof (Forall_inv_tail HD) as HD'. clear HD.
  apply Forall_app in HD'. destruct HD' as [HDrow HDrest].
  destruct (Desc_inv _ _ _ _ _ DS) as (PS & KS & _). cbn [map] in KS.
  pose proof (leaf_row_desc_inv _ _ _ _ HDrow) as Hrow.
  replace (pre ++ b :: ops ++ map ridx (lay2 h tbl B' off' rest)) with ((pre ++ b :: ops) ++ map ridx (lay2 h tbl B' off' rest))
    by (rewrite <- app_assoc; reflexivity).
  eapply (IH x (pre ++ b :: ops) post B' off' s g pl f ax (R + (2 * nt + 2))%nat Q);
    [exact H|rewrite Hk, <- !app_assoc; reflexivity|exact HDrest|exact Hx|exact Hlx|lia|exact Hh|exact Hok|lia|lia|].
  intros t1 g1 H1 [Q1 Q2 Q3 _].
  set (l2 := map ridx (lay5 h tbl B' off' rest) ++ post) in *.
  assert (Hk1 : kids g1 x = pre ++ b :: ops ++ l2) by (rewrite Q1, <- !app_assoc; reflexivity).
  assert (KS1 : kids g1 b = []) by (rewrite Q3 by lia; exact KS).
  assert (Hops : forall d, In d ops -> exists i p, d = b + 1 + N.of_nat i /\ nth_error cs i = Some p /\ pget pl d = Some p /\ kids g1 d = []).
  { intros d Hd. apply seqN_in in Hd.
    assert (Ei : exists i, d = b + 1 + N.of_nat i /\ (i < nt)%nat) by (exists (N.to_nat (d - (b + 1))); lia). destruct Ei as (i & -> & Hi).
    destruct (nth_error cs i) as [p|] eqn:Ep; [|apply nth_error_None in Ep; lia].
    destruct (Hrow i p Ep) as (A & B0). exists i, p. split; [reflexivity|]. split; [exact Ep|]. split; [exact A|]. rewrite Q3 by lia. exact B0. }
  assert (Hrowok : Forall (rallr f9_ok5E) (leaf_row (b + 1) cs)).
  { apply (cst_row_okP f9_ok5E h tbl); [|exact Hta]. intros r Hr. exists h, tbl. left. exact Hr. }
  assert (Hopc : forall d, In d ops -> kids g1 d = [] /\ exists a, pget pl d = Some a /\ y_op a <> opFreed /\ calls_ok g1 h d a).
  { intros d Hd. destruct (Hops d Hd) as (i & p & -> & Ep & Pp & Kp). split; [exact Kp|]. exists p. split; [exact Pp|].
    destruct (cst_rows h tbl ta (off + slo sk) Hta p (nth_error_In _ _ Ep)) as (rw & _ & Hlp). split; [exact Hlp|].
    pose proof (leaf_row_Forall_nth _ cs (b + 1) Hrowok i p Ep) as Ok1.
    assert (D1 : Desc g1 pl (RN (b + 1 + N.of_nat i) p [])) by (constructor; [exact Pp|exact Kp|constructor]).
    apply (f5_conds t1 g1 pl _ h H1 D1 Ok1 _ p); [rewrite rnodes_eq; left; reflexivity|exact Pp|exact Hlp]. }
  pose proof (rlen_le_rfuel rest) as Hrl.
  assert (Px1 : pget pl x = Some ax) by exact Hx.
  destruct (Nat.eq_dec nt 0) as [Ent|Ent].
  - (* no operand: nothing to do *)
    assert (Eops : ops = []) by (unfold ops; rewrite Ent; reflexivity). rewrite Eops in *. cbn [app] in Hk1 |- *.
    rewrite last_app_one.
    assert (EF : exists f1, (f - rlen rest = S (S (S f1)))%nat) by (exists (f - rlen rest - 3)%nat; lia).
    destruct EF as (f1 & EF). rewrite EF.
    assert (D1 : Desc g1 pl (RN b (st_pay h sk off) [])) by (constructor; [exact PS|exact KS1|constructor]).
    assert (Ok1 : rallr f9_ok5E (RN b (st_pay h sk off) [])).
    { constructor; [|constructor]. exists h, tbl. right. exists sk, off. split; [reflexivity|]. cbn [rkids length]. rewrite <- Hn. symmetry. exact Ent. }
    eapply (calls_step g1 pl h _ x pre b l2 (st_pay h sk off) (with_tree s t1)); [exact H1|exact Hk1|exact PS|apply sk_live|].
    eapply wp_conseq; [apply (calls_leaf_walk g1 pl f1 b _ (with_tree s t1) H1 PS (sk_live h sk off) KS1)|].
    intros r0 s' (-> & ->). split; [reflexivity|]. exists g1. split; [exact H1|]. split; [exact Hh|]. split; [exact Hk1|].
    split; [apply (f5_conds t1 g1 pl _ h H1 D1 Ok1 b _); [rewrite rnodes_eq; left; reflexivity|exact PS|apply sk_live]|].
    replace (S (S f1)) with (f - rlen (IStmt sk ta :: rest))%nat by (cbn [rlen]; fold nt; rewrite Ent; lia).
    apply (K t1 g1 H1).
    rewrite lay5_cons. cbn [lay5_item]. fold cs B' off'.
    assert (Ecs : cs = []) by (apply length_zero_iff_nil; rewrite Hlc; exact Ent). rewrite Ecs. cbn [leaf_row]. constructor.
    + cbn [app map ridx]. rewrite Hk1. unfold l2. reflexivity.
    + constructor; [exact D1|exact Q2].
    + intros y Hy Hyx. rewrite iszs_cons, isz_stmt in Hy. fold nt in Hy. rewrite Ent in Hy. apply Q3; [lia|exact Hyx].
    + reflexivity.
  - (* the operands are stepped over, then attached *)
    assert (Hnt : (1 <= nt)%nat) by lia.
    assert (EF : exists f0, (f - rlen rest = nt + S (S (nt + f0)))%nat) by (exists (f - rlen rest - 2 * nt - 2)%nat; lia).
    destruct EF as (f0 & EF). rewrite EF.
    replace (pre ++ b :: ops) with ((pre ++ [b]) ++ ops) by (rewrite <- app_assoc; reflexivity).
    replace nt with (length ops) at 1 by (unfold ops; apply seqN_len).
    eapply (calls_leaves_mid h ops (nt + f0) x (pre ++ [b]) l2 (with_tree s t1) g1 pl Q);
      [exact H1|exact Hh|rewrite Hk1, <- !app_assoc; reflexivity|exact Hopc|].
    rewrite last_app_one.
    (* the operator *)
    rewrite resolveCalls_loop_S. rewrite (rep_not_Inv _ _ _ _ _ H1 PS).
    apply wp_bind. eapply wp_objectAt_rep; [exact H1|exact PS|apply sk_live|].
    apply wp_bind. eapply (wp_rdf_sib False x pre b (ops ++ l2)); [exact H1|exact Hk1|]. intros o' Hidx _ _ _ _. rewrite Hidx.
    apply wp_bind. eapply wp_conseq.
    { assert (E2 : exists f2, (nt + f0 = S f2)%nat) by (exists (nt + f0 - 1)%nat; lia). destruct E2 as (f2 & E2).
      replace (S (nt + f0)) with (S (S f2)) by lia. apply (calls_leaf_walk g1 pl f2 b _ (with_tree s t1) H1 PS (sk_live h sk off) KS1). }
    intros r0 s' (-> & ->). change (negb (pres_eqb ROk ROk)) with false. cbv iota zeta.
    apply wp_bind. eapply wp_rdo_rep; [exact H1|exact PS|apply sk_live|]. intros ao Hpay _ _ _.
    apply wp_bind, wp_get. rewrite (pay_op _ _ Hpay), sk_notcall. cbn [negb orb].
    (* connectNonNamedObjArg *)
    apply wp_bind. unfold connectNonNamedObjArg.
    apply wp_bind. eapply wp_rdo_rep; [exact H1|exact PS|apply sk_live|]. intros ao2 Hpay2 _ _ _.
    destruct (sk_row sk) as (Hr & _ & Hac & Htai).
    rewrite (pay_info _ _ Hpay2). apply wp_bind. eapply wp_info; [exact Hr|]. cbv beta iota.
    apply wp_bind, wp_get. rewrite (pay_th _ _ Hpay2). cbn [st_pay y_th]. scbn. rewrite Hh, N.eqb_refl.
    change (hasFlag 16 aml_pOpFlagNamed || negb true) with false. cbv iota.
    assert (Hlive_b : live t1 b) by (apply (R_live_glive _ _ (rep_R _ _ _ H1)); eapply rep_live; [exact H1|exact PS|apply sk_live]).
    apply wp_bind. eapply wp_tq; [apply (NumArgs_spec _ _ (rep_R _ _ _ H1) b Hlive_b)|].
    rewrite KS1, Hac, Htai. cbn [length]. rewrite <- Hn. fold nt.
    assert (Ec : (N.of_nat nt <=? 0) || (0 <? N.of_nat 0) = false) by (apply orb_false_iff; split; [apply N.leb_gt; lia|reflexivity]). rewrite Ec. cbv iota.
    assert (Hw : w8 (N.of_nat nt + 256 - 0) = N.of_nat nt) by (rewrite Hn; destruct sk; reflexivity). rewrite Hw.
    unfold attachSiblingsAsArgs.
    apply wp_bind. eapply (wp_rdf_sib False x pre b (ops ++ l2)); [exact H1|exact Hk1|]. intros o3 _ _ _ Hnext _. rewrite Hnext.
    replace (N.of_nat nt) with (N.of_nat (length ops)) by (unfold ops; rewrite seqN_len; reflexivity).
    replace (S (nt + f0)) with (length ops + S f0)%nat by (unfold ops; rewrite seqN_len; lia).
    eapply (attach_go_up ops true f0 x b pre l2 ax (st_pay h sk off) (with_tree s t1) g1 pl);
      [exact H1|exact Hk1| |exact Px1|exact Hlx|exact PS|apply sk_live|].
    { intros c Hc. destruct (Hopc c Hc) as (Kc & a & Pa & Hla & _). split; [|exists a; auto].
      intros Hd. apply desc_leaf in Hd; [|exact Kc]. apply seqN_in in Hc. lia. }
    intros t2 g2 H2 Hlen2 Hk2.
    change (pres_eqb ROk RFailed) with false. cbv iota.
    assert (Hxb : (x =? b) = false) by (apply N.eqb_neq; lia).
    assert (Kx2 : kids g2 x = pre ++ b :: l2) by (rewrite Hk2, Hxb, N.eqb_refl; reflexivity).
    apply wp_bind. eapply (wp_rdf_sib False x pre b l2); [exact H2|exact Kx2|]. intros o4 _ _ Hprev _ _. rewrite Hprev.
    replace (length ops + S f0)%nat with (f - rlen (IStmt sk ta :: rest))%nat by (cbn [rlen]; fold nt; unfold ops; rewrite seqN_len; lia).
    apply (K t2 g2 H2).
    rewrite lay5_cons. cbn [lay5_item]. fold cs B' off'. constructor.
    + cbn [app map ridx]. rewrite Kx2. unfold l2. reflexivity.
    + constructor.
      * constructor; [exact PS|rewrite Hk2, N.eqb_refl, KS1, leaf_row_idx, Hlc; reflexivity|].
        apply leaf_row_desc. intros i p Hi. assert (Hilt : (i < nt)%nat) by (rewrite <- Hlc; apply nth_error_Some; congruence).
        destruct (Hrow i p Hi) as (A & B0). split; [exact A|].
        rewrite Hk2. destruct (N.eqb_spec (b + 1 + N.of_nat i) b); [lia|]. destruct (N.eqb_spec (b + 1 + N.of_nat i) x); [lia|]. rewrite Q3 by lia. exact B0.
      * apply (Desc_frame_l g1 pl); [exact Q2|]. intros y Hy. apply lay5_nodes in Hy. split; [|reflexivity].
        rewrite Hk2. destruct (N.eqb_spec y b); [lia|]. destruct (N.eqb_spec y x); [lia|reflexivity].
    + intros y Hy Hyx. rewrite iszs_cons, isz_stmt in Hy. fold nt in Hy. rewrite Hk2.
      destruct (N.eqb_spec y b); [lia|]. apply N.eqb_neq in Hyx. rewrite Hyx. apply Q3; [lia|apply N.eqb_neq; exact Hyx].
    + reflexivity.
Qed.

(** a block: the walk descends into its ScopeBlock; the block object itself is left alone *)
Lemma rspec_blk bk k seg fa body rest : RSpec body -> RSpec rest -> RSpec (IBlk bk k seg fa body :: rest).
Proof.
  intros IHb IH x pre post b off s g pl f ax R Q H Hk HD Hx Hlx Hrange Hh Hok HR Hf K.
  apply forallb_item_cons in Hok. destruct Hok as [Hit Hok].
  assert (Hbody_ok : forallb item_okb body = true) by (cbn [item_okb] in Hit; apply andb_prop in Hit; exact (proj2 Hit)).
  rewrite lay2_cons in Hk, HD |- *. rewrite iszs_cons, isz_blk in Hrange. rewrite rfuel_cons, rfuel_blk in Hf.
  rewrite lay2_blk in Hk, HD |- *. rewrite map_app in Hk |- *. cbn [map ridx] in Hk |- *.
  rewrite isz_blk in Hk, HD |- *.
  set (l := bfx bk fa) in *. set (nf := length l) in *.
  assert (Hm : nfx bk fa = N.of_nat nf) by reflexivity. rewrite Hm in *.
  set (hdp := hd_pays h tbl bk off k fa) in *.
  assert (Hlh : length hdp = S nf) by apply len_hd_pays.
  set (off1 := sb_off bk off k fa) in *.
  set (sbi := b + 2 + N.of_nat nf) in *.
  set (B' := b + N.of_nat (3 + nf + iszs body)) in *.
  set (off' := off + lenN (enc_item (IBlk bk k seg fa body))) in *.
  set (bp := blk_pay h bk off (seg_nm seg)) in *.
  assert (Hlb : y_op bp <> opFreed) by (destruct bk; discriminate).
  apply Forall_app in HD. destruct HD as [HDit HDrest].
  pose proof (Forall_inv HDit) as DD. clear HDit.
  destruct (Desc_inv _ _ _ _ _ DD) as (PD & KD & HD2). rewrite map_app, leaf_row_idx, Hlh in KD. cbn [map ridx] in KD.
  apply Forall_app in HD2. destruct HD2 as [HDrow HDsb]. pose proof (Forall_inv HDsb) as DS. clear HDsb.
  destruct (Desc_inv _ _ _ _ _ DS) as (PS & KS & HDbody).
  pose proof (leaf_row_desc_inv _ _ _ _ HDrow) as Hrow.
  replace (pre ++ [b] ++ map ridx (lay2 h tbl B' off' rest)) with ((pre ++ [b]) ++ map ridx (lay2 h tbl B' off' rest)) by (rewrite <- app_assoc; reflexivity).
  eapply (IH x (pre ++ [b]) post B' off' s g pl f ax (R + 8 + nf + rfuel body)%nat Q);
    [exact H|rewrite Hk, <- !app_assoc; reflexivity|exact HDrest|exact Hx|exact Hlx|unfold B'; lia|exact Hh|exact Hok|lia|lia|].
  intros t1 g1 H1 [Q1 Q2 Q3 _].
  assert (Hout1 : forall y, b <= y < b + N.of_nat (3 + nf + iszs body) -> (y < B' \/ B' + N.of_nat (iszs rest) <= y) /\ y <> x) by (intros y Hy; unfold B'; lia).
  assert (KD1 : kids g1 b = seqN (b + 1) (S nf) ++ [sbi]) by (rewrite Q3 by (apply Hout1; lia); exact KD).
  assert (KS1 : kids g1 sbi = map ridx (lay2 h tbl (b + 3 + N.of_nat nf) off1 body)) by (rewrite Q3 by (apply Hout1; unfold sbi; lia); exact KS).
  assert (Hrow1 : forall i p, nth_error hdp i = Some p -> pget pl (b + 1 + N.of_nat i) = Some p /\ kids g1 (b + 1 + N.of_nat i) = []).
  { intros i p Hi. assert (Hilt : (i < S nf)%nat) by (rewrite <- Hlh; apply nth_error_Some; congruence).
    destruct (Hrow i p Hi) as (A & B0). split; [exact A|rewrite Q3 by (apply Hout1; lia); exact B0]. }
  assert (HDbody1 : Forall (Desc g1 pl) (lay2 h tbl (b + 3 + N.of_nat nf) off1 body)).
  { apply (Desc_frame_l g pl); [exact HDbody|]. intros y Hy. apply lay2_nodes in Hy. split; [apply Q3; apply Hout1; lia|reflexivity]. }
  set (l2 := map ridx (lay5 h tbl B' off' rest) ++ post) in *.
  assert (Hk1 : kids g1 x = pre ++ b :: l2) by (rewrite Q1, <- !app_assoc; reflexivity).
  rewrite last_app_one.
  pose proof (rlen_le_rfuel rest) as Hrl. pose proof (rlen_le_rfuel body) as Hrlb.
  assert (EF : exists f4, (f - rlen rest = S (S (S (S f4))))%nat /\ (rfuel body + nf + 6 <= f4)%nat).
  { exists (f - rlen rest - 4)%nat. lia. }
  destruct EF as (f4 & EF & Hf4). rewrite EF.
  (* the loop of the enclosing scope reaches the block object *)
  eapply (calls_step g1 pl h _ x pre b l2 bp (with_tree s t1)); [exact H1|exact Hk1|exact PD|exact Hlb|].
  rewrite resolveMethodCalls_S.
  apply wp_bind. eapply wp_objectAt_rep; [exact H1|exact PD|exact Hlb|].
  apply wp_bind. eapply wp_rdf_rep; [exact H1|exact PD|exact Hlb|]. intros od _ _ _ Hlast. rewrite Hlast, KD1, last_app_one.
  (* its ScopeBlock *)
  eapply (calls_step g1 pl h _ b (seqN (b + 1) (S nf)) sbi [] (sb_pay h off1) (with_tree s t1)); [exact H1|exact KD1|exact PS|discriminate|].
  rewrite resolveMethodCalls_S.
  apply wp_bind. eapply wp_objectAt_rep; [exact H1|exact PS|discriminate|].
  apply wp_bind. eapply wp_rdf_rep; [exact H1|exact PS|discriminate|]. intros os _ _ _ Hlasts. rewrite Hlasts, KS1.
  change (map ridx (lay2 h tbl (b + 3 + N.of_nat nf) off1 body)) with ([] ++ map ridx (lay2 h tbl (b + 3 + N.of_nat nf) off1 body)).
  eapply (IHb sbi [] [] (b + 3 + N.of_nat nf) off1 (with_tree s t1) g1 pl f4 (sb_pay h off1) 2%nat);
    [exact H1|rewrite KS1, app_nil_r; reflexivity|exact HDbody1|exact PS|discriminate|unfold sbi; lia|exact Hh|exact Hbody_ok|lia|lia|].
  intros t2 g2 H2 [U1 U2 U3 _]. cbn [last app] in U1 |- *. rewrite app_nil_r in U1.
  assert (EF3 : exists f3, (f4 - rlen body = S f3)%nat) by (exists (f4 - rlen body - 1)%nat; lia).
  destruct EF3 as (f3 & EF3). rewrite EF3. rewrite resolveCalls_loop_S, N.eqb_refl. apply wp_ret.
  (* the final shape of the block *)
  assert (Hin2 : forall y, b <= y < b + 2 + N.of_nat nf \/ y = x -> kids g2 y = kids g1 y).
  { intros y Hy. apply U3; unfold sbi; lia. }
  assert (KD2 : kids g2 b = seqN (b + 1) (S nf) ++ [sbi]) by (rewrite (Hin2 b ltac:(lia)); exact KD1).
  assert (Kx2 : kids g2 x = pre ++ b :: l2) by (rewrite (Hin2 x ltac:(lia)); exact Hk1).
  assert (Hrow2 : forall i p, nth_error hdp i = Some p -> pget pl (b + 1 + N.of_nat i) = Some p /\ kids g2 (b + 1 + N.of_nat i) = []).
  { intros i p Hi. assert (Hilt : (i < S nf)%nat) by (rewrite <- Hlh; apply nth_error_Some; congruence).
    destruct (Hrow1 i p Hi) as (A & B0). rewrite (Hin2 (b + 1 + N.of_nat i) ltac:(lia)). auto. }
  set (TB := RN b bp (leaf_row (b + 1) hdp ++ [RN sbi (sb_pay h off1) (lay5 h tbl (b + 3 + N.of_nat nf) off1 body)])).
  assert (DD2 : Desc g2 pl TB).
  { unfold TB. constructor; [exact PD|rewrite KD2, map_app, leaf_row_idx, Hlh; reflexivity|].
    apply Forall_app. split; [apply leaf_row_desc; exact Hrow2|]. constructor; [|constructor].
    constructor; [exact PS|exact U1|exact U2]. }
  assert (Ok2 : rallr f9_ok5E TB).
  { pose proof (lay5_ok5 h tbl [IBlk bk k seg fa body] b off) as E. cbn [lay5 forallb] in E. rewrite app_nil_r, lay5_blk, Hit in E.
    exact (Forall_inv (E eq_refl)). }
  assert (Hcond : forall y ay, In y (rnodes TB) -> pget pl y = Some ay -> y_op ay <> opFreed -> calls_ok g2 h y ay).
  { intros y ay Hy Py Hly. apply (f5_conds t2 g2 pl TB h H2 DD2 Ok2 y ay Hy Py Hly). }
  assert (Hinb : In b (rnodes TB)) by (unfold TB; rewrite rnodes_eq; left; reflexivity).
  assert (Hink : forall c, In c (kids g2 b) -> In c (rnodes TB)) by (intros c Hc; apply (Desc_kids_in g2 pl TB DD2 b c Hinb Hc)).
  split; [reflexivity|]. exists g2. split; [exact H2|]. split; [exact Hh|]. split; [exact KD2|].
  split; [apply Hcond; [apply Hink; rewrite KD2; apply in_or_app; right; left; reflexivity|exact PS|discriminate]|].
  (* the name path and the fixed arguments are stepped over *)
  eapply (loop_fuel_eq _ (length (seqN (b + 1) (S nf)) + S (S (f4 - nf - 2)))%nat); [rewrite seqN_len; lia|].
  eapply (calls_leaves h (seqN (b + 1) (S nf)) (f4 - nf - 2) b [sbi] _ g2 pl); [exact H2|exact Hh|exact KD2| |].
  { intros d Hd. pose proof Hd as Hd'. apply seqN_in in Hd.
    assert (Ei : exists i, d = b + 1 + N.of_nat i /\ (i < S nf)%nat) by (exists (N.to_nat (d - (b + 1))); lia).
    destruct Ei as (i & -> & Hi). destruct (nth_error hdp i) as [p|] eqn:Ep; [|apply nth_error_None in Ep; lia].
    destruct (Hrow2 i p Ep) as (A & B0). destruct (hd_rows h tbl bk off k fa p (nth_error_In _ _ Ep)) as (row & Hr & Hlp).
    split; [exact B0|]. exists p. split; [exact A|]. split; [exact Hlp|].
    apply Hcond; [apply Hink; rewrite KD2; apply in_or_app; left; exact Hd'|exact A|exact Hlp]. }
  rewrite resolveCalls_loop_S, N.eqb_refl. apply wp_ret.
  (* back in the loop of the enclosing scope *)
  split; [reflexivity|]. exists g2. split; [exact H2|]. split; [exact Hh|]. split; [exact Kx2|].
  split; [apply Hcond; [exact Hinb|exact PD|exact Hlb]|].
  replace (S (S (S f4))) with (f - rlen (IBlk bk k seg fa body :: rest))%nat by (cbn [rlen]; lia).
  apply (K t2 g2 H2).
  rewrite lay5_cons, lay5_blk, isz_blk. fold l nf. rewrite Hm. fold hdp off1 sbi B' off' bp TB. constructor.
  - cbn [app map ridx]. rewrite Kx2. unfold l2. reflexivity.
  - constructor; [exact DD2|]. apply (Desc_frame_l g1 pl); [exact Q2|]. intros y Hy. apply lay5_nodes in Hy. unfold B' in Hy.
    split; [apply U3; unfold sbi; lia|reflexivity].
  - intros y Hy Hyx. rewrite iszs_cons, isz_blk in Hy. fold l nf in Hy. rewrite U3 by (unfold sbi; lia). apply Q3; [unfold B'; lia|exact Hyx].
  - reflexivity.
Qed.

Theorem rspec_all : forall its, RSpec its.
Proof.
  induction its as [|d rest IH|bk k seg fa body rest IHb IH|lk seg fa ta rest IH|seg k n elems rest IH|sk ta rest IH] using items_ind.
  - apply rspec_nil.
  - apply rspec_inert; [reflexivity|exact IH].
  - apply rspec_blk; assumption.
  - apply rspec_inert; [reflexivity|exact IH].
  - apply rspec_inert; [reflexivity|exact IH].
  - apply rspec_stmt; exact IH.
Qed.
End CallSpec.
