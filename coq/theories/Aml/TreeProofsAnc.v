(** C13 proofs, part 4: ClosestNamedAncestor walks the parent chain of the forest and, when every
    live object carries an opcode-table index inside the table, never panics. *)
From Coq Require Import NArith ZArith List Bool Lia.
From Coq Require Import ZifyBool ZifyN ZifyNat.
From FF Require Import Lib.Word Gen.Consts_aml_tree Aml.Stream Aml.Tree Aml.TreeSpec Aml.TreeProofs
                       Aml.TreeProofsOps Aml.TreeProofsFind.
Import ListNotations.
Local Open Scope N_scope.

(** every live object's infoIndex is an index of pOpcodeTable (true for objects created with an
    opcode that has a table entry) *)
Definition info_ok {V} (t : ObjectTree V) : Prop :=
  forall i o, get t i = Some o -> o_opcode o <> opFreed ->
    (N.to_nat (o_infoIndex o) < length tree_opcodeTableFlags)%nat.

Definition opcode_at {V} (t : ObjectTree V) (i : N) : N :=
  match get t i with Some o => o_opcode o | None => 0 end.

Definition named_at {V} (t : ObjectTree V) (i : N) : bool :=
  match get t i with
  | Some o => negb (N.land (nth (N.to_nat (o_infoIndex o)) tree_opcodeTableFlags 0) tree_pOpFlagNamed =? 0)
  | None => false
  end.

(** reference: starting at ancestor [a], the first ancestor that is named, unless a Scope
    directive is met first *)
Fixpoint closest_from {V} (t : ObjectTree V) (g : ghost) (fuel : nat) (a : N) : option N :=
  match fuel with
  | O => None
  | S fuel =>
      if opcode_at t a =? opScope then None
      else if named_at t a then Some a
      else match parent_of g a with Some p => closest_from t g fuel p | None => None end
  end.

Definition closest_ref {V} (t : ObjectTree V) (g : ghost) (p : N) : option N :=
  match parent_of g p with Some a => closest_from t g (length (g_kids g)) a | None => None end.

Section Anc.
Context {V : Type} (t : ObjectTree V) (g : ghost) (HR : R t g) (Hinfo : info_ok t).

Lemma closest_go_spec : forall k a, Depth t a k ->
  forall fi fs, (k + 2 <= fi)%nat -> (k + 1 <= fs)%nat ->
  closest_go fi t a = Ok (enc_result (closest_from t g fs a)).
Proof.
  intros k a Hd.
  induction Hd as [a ao Hg Hl Hp | a ao k Hg Hl Hp Hd IH]; intros fi fs Hfi Hfs;
    (destruct fi as [|fi]; [lia|]); (destruct fs as [|fs]; [lia|]); cbn [closest_go closest_from];
    assert (Hav : a <> InvalidIndex) by (eapply (R_pos_not_Inv t g HR); eauto);
    apply N.eqb_neq in Hav; rewrite Hav;
    (erewrite ObjectAt_deref_live; [| apply (R_bound _ _ HR) | exact Hg | exact Hl]); cbn [bind];
    rewrite deref_get, Hg; cbn [bind];
    unfold opcode_at, named_at; rewrite Hg;
    (destruct (o_opcode ao =? opScope); [reflexivity|]);
    pose proof (Hinfo _ _ Hg Hl) as Hi;
    (destruct (nth_error tree_opcodeTableFlags (N.to_nat (o_infoIndex ao))) as [fl|] eqn:Ef;
       [|apply nth_error_None in Ef; lia]);
    rewrite (nth_error_nth _ _ 0 Ef);
    (destruct (negb (N.land fl tree_pOpFlagNamed =? 0)); [reflexivity|]);
    rewrite (parent_of_spec t g a ao HR Hg Hl).
  - rewrite Hp, N.eqb_refl. destruct fi as [|fi]; [lia|]. cbn [closest_go]. rewrite N.eqb_refl. reflexivity.
  - apply N.eqb_neq in Hp. rewrite Hp. apply IH; lia.
Qed.

Theorem ClosestNamedAncestor_spec p : live t p ->
  ClosestNamedAncestor t (Some p) = Ok (enc_result (closest_ref t g p)).
Proof.
  intros (po & Hg & Hl). unfold ClosestNamedAncestor, closest_ref. rewrite (rd_ok _ _ _ _ Hg). cbn [bind].
  rewrite (parent_of_spec t g p po HR Hg Hl).
  destruct (N.eqb_spec (o_parent po) InvalidIndex) as [E|E].
  - rewrite E. unfold chain_fuel. cbn [closest_go]. rewrite N.eqb_refl. reflexivity.
  - destruct (R_parent_live t g HR _ _ Hg Hl E) as (_ & ao & Ha & Hal).
    destruct (R_acyc _ _ HR _ _ Ha Hal) as (k & Hd).
    pose proof (Depth_bound t _ _ Hd) as Hk.
    apply closest_go_spec with (k := k); auto.
    + unfold chain_fuel. lia.
    + rewrite (R_len _ _ HR). lia.
Qed.

End Anc.
