From Coq Require Import NArith Arith List Bool Lia.
From Coq Require Import ZifyBool ZifyN ZifyNat.
From FF Require Import Lib.Word Gen.Consts_device_acpi_aml Gen.Consts_aml_tree Aml.Stream Aml.Lex Aml.LexProofs
  Aml.Tree Aml.Parser Aml.ParserProofs Aml.TreeSpec Aml.TreeProofs Aml.TreeProofsOps Aml.TreeProofsFind Aml.TreeProofsAnc
  Aml.ParserTotalTree Aml.ParserTotalTree2 Aml.ParserTotalLex Aml.ParserTotalTable Aml.ParserTotalBase Aml.ParserTotalLeaf
  Aml.ParserTotalFrame Aml.ParserTotalLeaf2 Aml.ParserTotalFirst Aml.ParserTotalConn Aml.ParserTotalReloc Aml.ParserTotalDefer.
Import ListNotations.
Local Open Scope N_scope.

Section StepX.
Variable tbls : list (list N).
Notation IV := (Inv tbls).
Notation FD := (FIm true).

Ltac wwrfI I H Hl :=
  wbi tbls I; eapply (wrf_step _ _ _ _ _ _ H Hl);
  [ let o := fresh "o" in let Ho := fresh "Ho" in intros o Ho; lk_tac
  | let o := fresh "o" in let Ho := fresh "Ho" in let Hi := fresh "Hi" in intros o Ho Hi; info_tac
  | ].

Lemma glive_append g o a x : glive (astep g (OpAppend o a)) x <-> glive g x.
Proof. cbn [astep]. unfold glive. rewrite set_kids_len, set_kids_free. tauto. Qed.

Lemma step_Dnext fuel : D_objargs tbls fuel -> D_name tbls fuel -> D_next tbls (S fuel).
Proof.
  intros IHo IHn s g top rest H I0 H0 Est Hroom HTM Hnnp. cbn [parseNextObject].
  pose proof (fi_rok _ _ H) as Hrok. pose proof (roomD_lp _ _ Hroom) as Hlp.
  pose proof (fi_R _ _ H) as HR. pose proof (R_gwf _ _ HR) as Hwf.
  pose proof (scope_topD _ _ _ _ H Est) as Htop.
  wbi tbls I0. apply wp_get. intros _.
  wbi tbls I0. apply wp_nextop; auto. intros nextOp ok r1 Hadv Hok Hnok I1.
  set (s1 := with_r s r1) in *.
  assert (H1 : FD s1 g) by (apply FI_adv; auto).
  assert (F1 : Fr NoP (eq top) NoP s g s1 g) by (eapply Fr_tree_eq; [apply Fr_refl|reflexivity]).
  destruct ok.
  - destruct (Hok eq_refl) as (Hlt & Hop & idx & Hidx & Hbad). clear Hok Hnok.
    assert (A1 : at_ s s1 1 0).
    { eapply at_r; [apply at_refl; auto|destruct Hadv as ((_ & E & _) & _); exact E|lia|destruct Hadv as (_ & _ & L); exact L]. }
    pose proof (at_Psi _ _ _ _ A1) as P1.
    destruct (nextOp =? aml_pOpNoop).
    { apply wp_ret. exists g. split; [exact H1|]. split; [eapply at_ExtD; [exact A1|apply gext_refl]|]. split; [exact F1|].
      split; [lia|]. intros _. split; [lia|]. split; [eapply TM_tree_eq; [exact HTM|reflexivity]|reflexivity]. }
    cbn [negb].
    destruct (valid_op _ _ Hop Hidx Hbad) as (Hnk & Hidx').
    wbi tbls I1. eapply new_step2; [exact H1|exact Hnk| |].
    { unfold lp in *. unfold s1. pcbn. lia. }
    intros p t2 g2 po H2 Hext2 Hfresh2 Hlive2 Hroot2 Hkids2 Hpo Hpop Hpval Hpidx Hl2 Hfw2 Hks2 Hlv2 I2.
    set (s2 := with_tree s1 t2) in *.
    assert (F2 : Fr NoP (eq top) NoP s g s2 g2) by (apply (Fr_new NoP (eq top) NoP s g s1 g t2 g2 p F1 (fun x Hx => Hx) Hfresh2 Hfw2 Hks2)).
    assert (A2 : at_ s s2 1 1) by (eapply at_new'; [exact A1|exact Hl2|reflexivity]).
    wwrfI I2 H2 Hlive2. intros o3 Hg3 Hlo3 H3 I3.
    match type of H3 with FIm true ?st _ => set (s3 := st) in * end.
    assert (F3 : Fr NoP (eq top) NoP s g s3 g2) by (apply Fr_tset_fresh; [exact F2|exact Hfresh2]).
    assert (A3 : at_ s s3 1 1) by (apply at_tset; exact A2).
    assert (Est3 : p_scopeStack s3 = top :: rest) by exact Est.
    assert (Htop2 : glive g2 top) by (apply (ge_live _ _ Hext2); exact Htop).
    wbi tbls I3. eapply wp_scopeCurrent; [exact Est3|]. intros _.
    rewrite (FI_ObjectAt _ _ _ H3 Htop2).
    wbi tbls I3. eapply (append_step _ top p s3 g2 g); [exact H3|exact Hwf|exact Hext2|exact Htop|exact Hfresh2|exact Hlive2|exact Hroot2|].
    intros t4 H4 Hext4 Hpf4 Hk4 Hk4' I4.
    set (g4 := astep g2 (OpAppend top p)) in *. set (s4 := with_tree s3 t4) in *.
    assert (F4 : Fr NoP (eq top) NoP s g s4 g4).
    { apply (Fr_append NoP (eq top) NoP s g s3 g2 t4 g4 top p F3 Hpf4 Hk4 Hk4'). intros _. left. reflexivity. }
    assert (A4 : at_ s s4 1 1) by (apply at_pframe; [exact A3|exact Hpf4]).
    pose proof (at_Psi _ _ _ _ A4) as P4.
    assert (Hktop4 : kids g4 top = kids g top ++ [p]) by (rewrite Hk4, Hks2; reflexivity).
    assert (Hlive4 : glive g4 p) by (apply glive_append; exact Hlive2).
    assert (Hptop : p <> top) by (intros E; apply Hfresh2; rewrite E; exact Htop).
    assert (Hkp4 : kids g4 p = []) by (rewrite (Hk4' p Hptop); exact Hkids2).
    (* the object at [p] *)
    assert (Hp4 : exists po4, tget (p_tree s4) p = Some po4 /\ o_opcode po4 = nextOp /\ o_infoIndex po4 = o_infoIndex po).
    { assert (Hp3 : tget (p_tree s3) p = Some (set_amlOffset (r_offset (p_r s)) po)).
      { unfold s3, s2. pcbn. rewrite get_tset, N.eqb_refl. assert (Hy : tget t2 p = Some po) by exact Hpo. rewrite Hy. reflexivity. }
      destruct (proj2 Hpf4 _ _ Hp3) as (po4 & Hpo4 & E4 & E4' & _). exists po4. split; [exact Hpo4|].
      cbn [o_opcode o_infoIndex set_amlOffset] in E4, E4'. split; congruence. }
    destruct Hp4 as (po4 & Hpo4 & Eop4 & Eii4).
    assert (HTM4 : TM (eq p) s4 g4).
    { eapply (TM_frame2 NoX (eq p) NoP (eq top) NoP s g s4 g4 Hwf HR HTM F4); try (intros; contradiction); try apply Eok_NoP; [intros i <-; exact Hnnp|].
      intros m mo Hm Hmop Hnl. left.
      assert (Hl4m : glive g4 m) by (apply (R_live_glive _ _ (fi_R _ _ H4)); exists mo; split; [exact Hm|rewrite Hmop; discriminate]).
      apply glive_append in Hl4m. destruct (Hlv2 m Hl4m) as [F|F]; [contradiction|symmetry; exact F]. }
    assert (H04 : glive g4 0) by (apply glive_append; apply (ge_live _ _ Hext2); exact H0).
    eapply wp_weaken; [apply (IHo p s4 g4 H4 I4 H04 Hlive4)| |].
    + unfold roomD in *. lia.
    + exact HTM4.
    + intros co Hco Hcop. right. assert (co = po4) by congruence. subst co. split; [|exact Hkp4].
      rewrite Eii4. rewrite Eop4 in Hcop. rewrite Hcop in Hpidx. destruct method_row as (Em & _). rewrite Em in Hpidx. inversion Hpidx. reflexivity.
    + intros _. exists top. rewrite Hktop4. apply in_or_app. right. left. reflexivity.
    + apply (nota1_appended s g s4 g4 top p Hwf HR (fi_R _ _ H4) HTM (fr_keep _ _ _ _ _ _ _ F4) Htop Hfresh2 Hktop4).
    + auto.
    + intros res s' (g' & G1 & G2 & G3 & G4 & G5 & G6 & G7). exists g'. split; [exact G1|].
      split; [eapply ExtD_trans; [eapply at_ExtD; [exact A4|exact Hext4]|exact G2]|].
      split.
      { (* the parent of the new object is the scope: its list has only grown *)
        assert (G3' : Fr (eq p) (eq p) (eq top) s4 g4 s' g').
        { apply (Fr_weaken (eq p) (eq p) (eq p) (eq p) (fun y => hasfl s4 p /\ In p (kids g4 y)) (eq top) s4 g4 s' g'); [auto|auto| |exact G3].
          intros y Hy (_ & Hin).
          eapply (R_parent_unique _ _ (fi_R _ _ H4)); [|exact Hin]. rewrite Hktop4. apply in_or_app. right. left. reflexivity. }
        assert (F' : Fr NoP (eq top) (eq top) s g s' g').
        { eapply Fr_trans; [apply (Fr_weaken NoP NoP (eq top) (eq top) NoP (eq top) s g s4 g4); [auto|auto|intros y _ []|exact F4]|exact G3'| | | |].
          - intros y Hy. apply glive_append. apply (ge_live _ _ Hext2). exact Hy.
          - intros i Hi E. subst i. contradiction.
          - intros y Hy E. subst y. contradiction.
          - auto. }
        apply (Fr_unE NoP (eq top) (eq top) s g s' g' F').
        - intros y. destruct (N.eq_dec top y) as [E|E]; [left; exact E|right; exact E].
        - intros y Hy E. subst y. split; [reflexivity|].
          destruct (G4 top (kids g top) [] ) as (new & Hnew & _); [rewrite Hktop4; reflexivity|].
          exists (p :: new). rewrite Hnew, app_nil_r. reflexivity. }
      split; [lia|]. intros Hr. destruct (G7 Hr) as (K1 & K2 & K3). split; [lia|]. split; [exact K2|].
      rewrite K3. destruct A4 as (_ & _ & _ & _ & A5 & _). exact A5.
  - destruct (Hnok eq_refl) as (Ho1 & Hop). clear Hok Hnok. subst nextOp.
    change (0xffff =? aml_pOpNoop) with false. cbn [negb].
    assert (A1 : at_ s s1 0 0) by (apply at_adv0; [apply at_refl; auto|exact Hadv]).
    pose proof (at_Psi _ _ _ _ A1) as P1.
    assert (Est1 : p_scopeStack s1 = top :: rest) by exact Est.
    eapply wp_weaken; [apply (IHn s1 g top rest H1 I1 H0 Est1)| |].
    + unfold roomD in *. lia.
    + eapply TM_tree_eq; [exact HTM|reflexivity].
    + exact Hnnp.
    + auto.
    + intros res s' (g' & G1 & G2 & G3 & G4 & _ & G5). exists g'. split; [exact G1|].
      split; [eapply ExtD_trans; [eapply at_ExtD; [exact A1|apply gext_refl]|exact G2]|].
      split; [eapply Fr_trans; [exact F1|exact G3|auto|auto|auto|auto]|].
      split; [lia|]. intros Hr. destruct (G5 Hr) as (K1 & K2 & K3 & _). split; [lia|]. split; [exact K2|exact K3].
Qed.
End StepX.
