(** [F9 copy] This file is ParserFragF1Final.v re-done over the item type of ParserFragF9.v (one more constructor, [IStmt]: statements
    with constant operands); the item type of F1 .. F8 is shared by those fragments and is left untouched.  New material is marked F9. *)
(** C11 (fragments F1 and F2): [parse_encode] for Name declarations, (nested) Device blocks and Method declarations.

    F2 = F1 + [Method(SEG, flags){ items }]: a Method with a single-segment name whose body holds declarations of the
    fragment only (Name / Device / Method, possibly none); productions: DefMethod (PkgLength, NameString = NameSeg,
    MethodFlags, TermList of DefName / DefDevice / DefMethod).  F1 is the Method-free sub-fragment:

    The fragment: ONE table whose items are [Name(SEG, integer constant)] (as in F0) or
    [Device(SEG){ items }] with a single-segment name (no root / parent prefix, not written as a MultiNamePath),
    nested to any depth, any PkgLength width admissible for the block; the encoded table is smaller than 256 MiB.
    Productions inside the fragment: DefName, DefDevice (PkgLength in 1-4 bytes, NameString = NameSeg, TermList of
    DefName / DefDevice), DataRefObject = ConstObj | ByteConst | WordConst | DWordConst | QWordConst. *)
From Coq Require Import NArith ZArith Arith List Bool Lia Permutation.
From Coq Require Import ZifyBool ZifyN ZifyNat.
From FF Require Import Lib.Word Gen.Consts_device_acpi_aml Gen.Consts_aml_tree Aml.Stream Aml.Lex Aml.LexProofs
  Aml.Tree Aml.TreeSpec Aml.Parser Aml.Grammar Aml.LexRoundtrip
  Aml.ParserFragBase Aml.ParserFragFirst Aml.ParserFragF0 Aml.ParserFragF0Conn Aml.ParserFragF0Top
  Aml.ParserFragRose Aml.ParserFragDev Aml.ParserFragArgs Aml.ParserFragF9 Aml.ParserFragF9First Aml.ParserFragF9Conn Aml.ParserFragF9Top Aml.ParserFragF9Calls Aml.ParserFragF9Parse
  Aml.View Aml.ParserFragView Aml.ParserFragF0View Aml.ParserFragF0Final Aml.ParserFragSort Aml.ParserFragF9View Aml.WfProgram.
Import ListNotations.
Local Open Scope N_scope.

Ltac Zify.zify_post_hook ::= Z.div_mod_to_equations.

Definition blk_ast (bk : bkind) (k : N) (nm : namestr) (fa : list N) (b : list ast) : ast :=
  match bk with
  | BDev => ADevice k nm b
  | BTZ => AThermal k nm b
  | BProc => AProcessor k nm (nth 0 fa 0) (nth 1 fa 0) (nth 2 fa 0) b
  | BPwr => APowerRes k nm (nth 0 fa 0) (nth 1 fa 0) b
  | BMeth => AMethod k nm (nth 0 fa 0) b
  end.

Definition cst_ast (d : decl) : ast := AConst (d_op d) (d_v d).
Definition targ_ast (a : targ) : ast := match a with TInt d => cst_ast d | TStr b => AStr b end.
Definition leaf_ast (lk : lkind) (nm : namestr) (fa : list N) (ta : list targ) : ast :=
  match lk with
  | LMutex => AMutex nm (nth 0 fa 0)
  | LEvent => AEvent nm
  | LOpReg => AOpRegion nm (nth 0 fa 0) (targ_ast (nth 0 ta (TInt (mkDecl 0 0 0)))) (targ_ast (nth 1 ta (TInt (mkDecl 0 0 0))))
  | LName => AName nm (targ_ast (nth 0 ta (TInt (mkDecl 0 0 0))))
  end.

Fixpoint pel_ast (x : pel) : ast :=
  match x with PLeaf a => targ_ast a | PSub k n es => APackage k n (map pel_ast es) end.

Fixpoint item_ast (it : item) : ast :=
  match it with
  | IName d => decl_ast d
  | IBlk bk k seg fa body => blk_ast bk k (seg_name seg) fa (map item_ast body)
  | ILeaf lk seg fa ta => leaf_ast lk (seg_name seg) fa ta
  | IPkg seg k n elems => AName (seg_name seg) (APackage k n (map pel_ast elems))
  | IStmt sk ta => AOp (sk_op sk) (map targ_ast ta)
  end.

(** the right number of fixed arguments everywhere *)
Fixpoint shape_ok (it : item) : bool :=
  match it with
  | IName _ => true
  | IBlk bk _ _ fa body => Nat.eqb (length fa) (length (bk_ws bk)) && forallb shape_ok body
  | ILeaf lk _ fa ta => Nat.eqb (length fa) (length (lk_ws lk)) && Nat.eqb (length ta) (lk_nt lk)
  | IPkg _ _ _ _ => true
  | IStmt _ _ => true
  end.

Definition nostmt (it : item) : bool := match it with IStmt _ _ => false | _ => true end.

Definition simple_name (nm : namestr) : option N :=
  match n_segs nm with
  | [seg] => if negb (n_root nm) && (n_carets nm =? 0) && negb (n_multi nm) then Some seg else None
  | _ => None
  end.

Lemma simple_name_eq nm seg : simple_name nm = Some seg -> nm = seg_name seg.
Proof.
  unfold simple_name. destruct nm as [root carets multi segs]. cbn [n_segs n_root n_carets n_multi].
  destruct segs as [|s [|s2 segs]]; try discriminate.
  destruct root; cbn [negb andb]; try discriminate.
  destruct (N.eqb_spec carets 0) as [->|]; cbn [andb]; try discriminate.
  destruct multi; cbn [negb]; try discriminate.
  intros E; inversion E. reflexivity.
Qed.

(** ---- encoding ---- *)
Lemma encode_targs elems : flat_map encode (map targ_ast elems) = enc_ta elems.
Proof. unfold enc_ta. induction elems as [|a r IH]; [reflexivity|]. cbn [map flat_map]. rewrite IH. destruct a; reflexivity. Qed.

Lemma encode_pels : forall els, flat_map encode (map pel_ast els) = enc_pels els.
Proof.
  induction els as [|a r IH|k n es r IHe IH] using pels_ind; [reflexivity| |]; cbn [map flat_map]; rewrite IH, enc_pels_cons; f_equal.
  - cbn [pel_ast enc_pel]. destruct a; reflexivity.
  - cbn [pel_ast encode]. unfold enc_pkg. rewrite IHe, enc_pel_sub. reflexivity.
Qed.

Lemma encode_item : forall it, shape_ok it = true -> encode (item_ast it) = enc_item it.
Proof.
  fix IH 1. intros [d|bk k seg fa body|lk seg fa ta|seg k n elems|sk ta] Hs.
  5:{ cbn [item_ast encode]. rewrite encode_targs, enc_stmt. reflexivity. }
  - apply encode_decl.
  - cbn [shape_ok] in Hs. apply andb_prop in Hs. destruct Hs as [Hl Hb]. apply Nat.eqb_eq in Hl.
    assert (HL : flat_map encode (map item_ast body) = enc_items body).
    { clear Hl. induction body as [|x t IHt]; [reflexivity|]. cbn [forallb] in Hb. apply andb_prop in Hb. destruct Hb as [Hx Ht].
      cbn [map flat_map]. rewrite (IH x Hx), (IHt Ht). reflexivity. }
    rewrite enc_blk. cbn [item_ast].
    destruct bk; cbn [bk_ws length] in Hl; (destruct fa as [|a0 [|a1 [|a2 [|a3 fa]]]]; try discriminate Hl);
      cbn [blk_ast encode nth]; unfold enc_pkg; rewrite enc_seg_name, HL; cbn [bfx bk_ws combine enc_fx fw_enc bk_op app];
      rewrite <- ?app_assoc; reflexivity.
  - cbn [shape_ok] in Hs. apply andb_prop in Hs. destruct Hs as [Hl Ht]. apply Nat.eqb_eq in Hl. apply Nat.eqb_eq in Ht.
    rewrite enc_leaf. cbn [item_ast].
    destruct lk; cbn [lk_ws lk_nt length] in Hl, Ht; (destruct fa as [|a0 [|a1 fa]]; try discriminate Hl); (destruct ta as [|c0 [|c1 [|c2 ta]]]; try discriminate Ht);
      repeat match goal with c : targ |- _ => destruct c end;
      cbn [leaf_ast targ_ast cst_ast encode nth]; rewrite enc_seg_name; cbn [lfx lk_ws combine enc_fx fw_enc lk_op enc_ta enc_targ flat_map app]; unfold enc_const;
      rewrite ?app_nil_r, <- ?app_assoc; cbn [app]; rewrite <- ?app_assoc; reflexivity.
  - cbn [item_ast encode]. unfold enc_pkg. rewrite enc_seg_name, encode_pels, enc_pkg_item. reflexivity.
Qed.

Lemma encode_items its : forallb shape_ok its = true -> encode_table (map item_ast its) = enc_items its.
Proof.
  unfold encode_table, enc_items. induction its as [|x t IH]; intros Hs; [reflexivity|]. cbn [forallb] in Hs. apply andb_prop in Hs. destruct Hs as [Hx Ht].
  cbn [map flat_map]. rewrite (encode_item x Hx), (IH Ht). reflexivity.
Qed.

(** ---- well-formedness ---- *)
Lemma sumlen_eq : forall l, (fix sumlen (l : list ast) : N := match l with [] => 0 | x :: r => lenN (encode x) + sumlen r end) l = lenN (flat_map encode l).
Proof. induction l as [|x t IH]; [reflexivity|]. cbn [flat_map]. rewrite lenN_app, IH. reflexivity. Qed.

Lemma pkglen_of_k k A B : k_ok k A = true -> B = A -> pkglen_okb k (k + B) = true.
Proof. intros Hk ->. exact Hk. Qed.

Lemma seg_ok_parts seg : name_ok (seg_name seg) = true -> lead_okb (seg_lead seg) = true /\ (seg <? 0x100000000) = true.
Proof.
  intros Hn. unfold name_ok in Hn. cbn [seg_name n_segs forallb] in Hn. apply andb_prop in Hn. destruct Hn as [_ Hn].
  apply andb_prop in Hn. destruct Hn as [Hseg _].
  unfold seg_ok, seg_bytes in Hseg. repeat (apply andb_prop in Hseg; destruct Hseg as [Hseg ?]). split; assumption.
Qed.

Lemma wf_pels e ms scope : forall els,
  (fix allexpr (l : list ast) : bool := match l with [] => true | x :: r => is_expr x && wf_ast e ms scope x && allexpr r end) (map pel_ast els) = true ->
  forallb pel_okb els = true.
Proof.
  induction els as [|a r IH|k n es r IHe IH] using pels_ind; intros Ha; [reflexivity| |];
    cbn [map] in Ha; apply andb_prop in Ha; destruct Ha as [Ha Hr]; apply andb_prop in Ha; destruct Ha as [_ Ha];
    cbn [forallb]; rewrite (IH Hr), andb_true_r.
  - cbn [pel_ast pel_okb] in *. destruct a as [d|b]; cbn [targ_ast cst_ast wf_ast targ_okb] in *; [|exact Ha].
    unfold cst_okb. apply andb_prop in Ha. destruct Ha as [Hc Hv]. rewrite N.shiftl_1_l in Hv. rewrite Hv, andb_true_r. exact Hc.
  - cbn [pel_ast wf_ast] in Ha. apply andb_prop in Ha. destruct Ha as [Ha Hkk]. apply andb_prop in Ha. destruct Ha as [Hn Hall].
    rewrite sumlen_eq, encode_pels in Hkk. rewrite pel_okb_sub, Hn, (IHe Hall), andb_true_r, andb_true_l.
    eapply pkglen_of_k; [exact Hkk|]. rewrite lenN_app. reflexivity.
Qed.

Lemma wf_targs e ms scope : forall ta,
  (fix allexpr (l : list ast) : bool := match l with [] => true | x :: r => is_expr x && wf_ast e ms scope x && allexpr r end) (map targ_ast ta) = true ->
  forallb targ_okb ta = true.
Proof.
  induction ta as [|a r IH]; intros Ha; [reflexivity|].
  cbn [map] in Ha. apply andb_prop in Ha. destruct Ha as [Ha Hr]. apply andb_prop in Ha. destruct Ha as [_ Ha].
  cbn [forallb]. rewrite (IH Hr), andb_true_r.
  destruct a as [d|b]; cbn [targ_ast cst_ast wf_ast targ_okb] in *; [|exact Ha].
  unfold cst_okb. apply andb_prop in Ha. destruct Ha as [Hc Hv]. rewrite N.shiftl_1_l in Hv. rewrite Hv, andb_true_r. exact Hc.
Qed.

(** the operands of a statement ([wf_ast] goes through them position by position: none of them is the null target) *)
Lemma wf_sargs e ms scope : forall ta tys,
  (fix allargs (tys : list N) (l : list ast) : bool :=
     match l with
     | [] => true
     | x :: r => (if is_null x then is_target_ty (hd 0 tys) else is_expr x && wf_ast e ms scope x) && allargs (tl tys) r
     end) tys (map targ_ast ta) = true ->
  forallb targ_okb ta = true.
Proof.
  induction ta as [|a r IH]; intros tys Ha; [reflexivity|].
  cbn [map] in Ha. apply andb_prop in Ha. destruct Ha as [Ha Hr].
  cbn [forallb]. rewrite (IH _ Hr), andb_true_r.
  destruct a as [d|b]; cbn [targ_ast cst_ast is_null is_expr wf_ast targ_okb andb] in *; [|exact Ha].
  unfold cst_okb. apply andb_prop in Ha. destruct Ha as [Hc Hv]. rewrite N.shiftl_1_l in Hv. rewrite Hv, andb_true_r. exact Hc.
Qed.

Lemma wf_item e ms : forall it scope, shape_ok it = true -> wf_ast e ms scope (item_ast it) = true -> item_okb it = true.
Proof.
  fix IH 1. intros [d|bk k seg fa body|lk seg fa ta|seg k n elems|sk ta] scope Hs Hw.
  5:{ cbn [item_ast wf_ast] in Hw. cbn [item_okb]. apply andb_prop in Hw. destruct Hw as [Har Hall]. apply andb_prop in Har. destruct Har as [Har _].
      assert (Ear : op_arity (sk_op sk) = Some (N.of_nat (sk_n sk))) by (destruct sk; reflexivity). rewrite Ear in Har.
      apply N.eqb_eq in Har. unfold lenN in Har. rewrite map_length in Har.
      apply andb_true_intro. split; [apply Nat.eqb_eq; lia|]. apply (wf_sargs e ms scope ta (op_argtypes (sk_op sk))). exact Hall. }
  - cbn [item_ast item_okb]. unfold decl_ast in Hw. cbn [wf_ast] in Hw.
    apply andb_prop in Hw. destruct Hw as [Hw _]. apply andb_prop in Hw. destruct Hw as [Hw Hc].
    apply andb_prop in Hw. destruct Hw as [Hn _].
    unfold name_ok in Hn. cbn [n_segs forallb] in Hn. apply andb_prop in Hn. destruct Hn as [_ Hn].
    apply andb_prop in Hn. destruct Hn as [Hseg _].
    unfold seg_ok, seg_bytes in Hseg. repeat (apply andb_prop in Hseg; destruct Hseg as [Hseg ?]).
    apply andb_prop in Hc. destruct Hc as [Hc Hv].
    apply andb_true_intro. split; [|assumption].
    unfold decl_okb. apply andb_true_intro. split; [apply andb_true_intro; split|]; [assumption|exact Hc|rewrite N.shiftl_1_l in Hv; exact Hv].
  - cbn [shape_ok] in Hs. apply andb_prop in Hs. destruct Hs as [Hl Hb]. pose proof Hl as Hl'. apply Nat.eqb_eq in Hl.
    assert (HL : flat_map encode (map item_ast body) = enc_items body).
    { clear -Hb. induction body as [|x t IHt]; [reflexivity|]. cbn [forallb] in Hb. apply andb_prop in Hb. destruct Hb as [Hx Ht].
      cbn [map flat_map]. rewrite (encode_item x Hx), (IHt Ht). reflexivity. }
    assert (HB : forall sc, (fix all (l : list ast) (sc : path) : bool := match l with [] => true | x :: r => wf_ast e ms sc x && all r sc end) (map item_ast body) sc = true ->
                 forallb item_okb body = true).
    { clear -IH Hb. intros sc. induction body as [|x t IHt]; intros Hall; [reflexivity|]. cbn [forallb] in Hb. apply andb_prop in Hb. destruct Hb as [Hx Ht].
      cbn [map] in Hall. apply andb_prop in Hall. destruct Hall as [Hwx Hwt]. cbn [forallb]. rewrite (IH x sc Hx Hwx). apply IHt; assumption. }
    cbn [item_okb]. rewrite Hl'. cbn [item_ast] in Hw.
    assert (Hdp : decl_path scope (seg_name seg) = Some (scope ++ [seg])).
    { unfold decl_path, start_scope. cbn [seg_name n_root n_carets n_segs]. destruct (lenN scope <? 0) eqn:E0; [apply N.ltb_lt in E0; lia|].
      change (N.to_nat 0) with 0%nat. rewrite Nat.sub_0_r, firstn_all. reflexivity. }
    destruct bk; cbn [bk_ws length] in Hl; (destruct fa as [|a0 [|a1 [|a2 [|a3 fa]]]]; try discriminate Hl);
      cbn [blk_ast wf_ast nth] in Hw; rewrite Hdp, sumlen_eq, HL, enc_seg_name in Hw;
      remember (name_ok (seg_name seg)) as NOK eqn:ENOK;
      repeat (apply andb_prop in Hw; destruct Hw as [Hw ?]); subst NOK;
      destruct (seg_ok_parts seg Hw) as (Hlead & Hseg);
      rewrite Hlead, Hseg; cbn [andb bfx bk_ws combine fx_okb forallb enc_fx fw_enc app];
      repeat (apply andb_true_intro; split); try assumption; try (eapply HB; eassumption);
      try (eapply pkglen_of_k; [eassumption|]; unfold enc_items, lenN; repeat (rewrite ?app_length, ?len_le_bytes; cbn [length]); lia).
  - cbn [shape_ok] in Hs. apply andb_prop in Hs. destruct Hs as [Hl Ht]. pose proof Hl as Hl'. pose proof Ht as Ht'. apply Nat.eqb_eq in Hl. apply Nat.eqb_eq in Ht.
    cbn [item_okb]. rewrite Hl', Ht'. cbn [item_ast] in Hw.
    destruct lk; cbn [lk_ws lk_nt length] in Hl, Ht; (destruct fa as [|a0 [|a1 fa]]; try discriminate Hl); (destruct ta as [|c0 [|c1 [|c2 ta]]]; try discriminate Ht);
      repeat match goal with c : targ |- _ => destruct c end;
      cbn [leaf_ast targ_ast cst_ast wf_ast nth is_expr] in Hw;
      remember (name_ok (seg_name seg)) as NOK eqn:ENOK;
      repeat (apply andb_prop in Hw; destruct Hw as [Hw ?]); subst NOK;
      destruct (seg_ok_parts seg Hw) as (Hlead & Hseg);
      rewrite Hlead, Hseg; cbn [andb lfx lk_ws combine fx_okb forallb targ_okb]; unfold cst_okb;
      repeat (apply andb_true_intro; split); try assumption; try reflexivity;
      try (match goal with Hv : (_ <? N.shiftl 1 _) = true |- _ => rewrite N.shiftl_1_l in Hv; exact Hv end);
      try (match goal with Hc : is_const_op (d_op ?c) && _ = true |- is_constb (d_op ?c) = true => apply andb_prop in Hc; exact (proj1 Hc) end);
      try (match goal with Hc : is_const_op (d_op ?c) && _ = true |- (d_v ?c <? _) = true => apply andb_prop in Hc; destruct Hc as [_ Hc]; rewrite N.shiftl_1_l in Hc; exact Hc end).
  - cbn [item_ast wf_ast is_expr] in Hw. cbn [item_okb].
    remember (name_ok (seg_name seg)) as NOK eqn:ENOK.
    repeat (apply andb_prop in Hw; destruct Hw as [Hw ?]); subst NOK.
    destruct (seg_ok_parts seg Hw) as (Hlead & Hseg). rewrite Hlead, Hseg. cbn [andb].
    match goal with H0 : (n <? 256) && _ && _ = true |- _ => apply andb_prop in H0; destruct H0 as [H0 Hkk]; apply andb_prop in H0; destruct H0 as [Hn Hall] end.
    rewrite sumlen_eq, encode_pels in Hkk.
    repeat (apply andb_true_intro; split); try assumption.
    + eapply pkglen_of_k; [exact Hkk|]. rewrite lenN_app. reflexivity.
    + apply (wf_pels e ms scope). exact Hall.
Qed.

Lemma wf_items e ms its : forallb shape_ok its = true -> forallb (wf_ast e ms []) (map item_ast its) = true -> forallb item_okb its = true.
Proof.
  induction its as [|x t IH]; intros Hs Hw; [reflexivity|]. cbn [map forallb] in Hs, Hw |- *. apply andb_prop in Hw. destruct Hw as [Hx Ht].
  apply andb_prop in Hs. destruct Hs as [Hsx Hst].
  rewrite (wf_item e ms x [] Hsx Hx), (IH Hst Ht). reflexivity.
Qed.

(** ---- the specification side ---- *)
Lemma item_is_decl it : is_decl (item_ast it) = nostmt it /\ is_fieldcontainer (item_ast it) = false.
Proof. destruct it as [d|bk k seg fa body|lk seg fa ta|seg k n elems|sk ta]; [split; reflexivity|destruct bk; split; reflexivity|destruct lk; split; reflexivity|split; reflexivity|split; reflexivity]. Qed.

Lemma r_targ e scope a : r_expr e scope (targ_ast a) = targ_tokens a.
Proof.
  destruct a as [d|b]; [|reflexivity]. unfold targ_ast, targ_tokens, cst_ast, cst_tokens. cbn [r_expr]. unfold const_tokens, const_val, tok_const. destruct (const_bytes (d_op d)); reflexivity.
Qed.

Lemma r_stmt_item e scope sk ta : r_stmt e scope (AOp (sk_op sk) (map targ_ast ta)) = stmt_tokens sk ta.
Proof.
  assert (En : (sk_op sk =? OP_NOOP) = false) by (destruct sk; reflexivity).
  cbn [r_stmt is_noop]. rewrite En. cbn [r_expr]. unfold stmt_tokens.
  assert (Ef : filter (fun x => negb (is_null x)) (map targ_ast ta) = map targ_ast ta).
  { clear. induction ta as [|a r IH]; [reflexivity|]. cbn [map filter]. destruct a; cbn [targ_ast cst_ast is_null negb]; rewrite IH; reflexivity. }
  rewrite Ef. unfold lenN. rewrite map_length. cbn [app]. f_equal. f_equal. f_equal.
  clear. induction ta as [|a r IH]; [reflexivity|]. cbn [map flat_map]. rewrite IH. f_equal. rewrite <- (r_targ e scope a). destruct a; reflexivity.
Qed.

Lemma r_seq_items e sc : forall body, r_seq e sc (map item_ast body) = concat (vstmts body).
Proof.
  unfold r_seq, vstmts. induction body as [|x t IHt]; [reflexivity|]. cbn [map flat_map]. rewrite IHt.
  destruct (item_is_decl x) as (E1 & E2). rewrite E1, E2.
  destruct x as [d|bk k seg fa body|lk seg fa ta|seg k n elems|sk ta]; cbn [nostmt orb stmt_of app concat]; try reflexivity.
  cbn [item_ast]. rewrite r_stmt_item. reflexivity.
Qed.

Lemma vstmts_nostmt body : forallb nostmt body = true -> vstmts body = [].
Proof.
  unfold vstmts. induction body as [|x t IH]; intros Hn; [reflexivity|]. cbn [forallb] in Hn. apply andb_prop in Hn. destruct Hn as [Hx Ht].
  cbn [flat_map]. rewrite (IH Ht). destruct x; try discriminate; reflexivity.
Qed.

Lemma sentry_nostmt it p : nostmt it = true -> sentry true p it = sentry false p it.
Proof. destruct it; try discriminate; reflexivity. Qed.

Lemma entries_item e : forall it scope, shape_ok it = true -> entries e scope (item_ast it) = sentry false scope it.
Proof.
  fix IH 1. intros [d|bk k seg fa body|lk seg fa ta|seg k n elems|sk ta] scope Hs.
  5:{ assert (En : (sk_op sk =? OP_NOOP) = false) by (destruct sk; reflexivity).
      cbn [item_ast entries is_noop sentry]. rewrite En, r_stmt_item. reflexivity. }
  - cbn [item_ast sentry]. unfold decl_ast, name_entry. cbn [entries]. unfold decl_path, start_scope. cbn [n_root n_carets n_segs].
    destruct (lenN scope <? 0) eqn:E0; [apply N.ltb_lt in E0; lia|]. change (N.to_nat 0) with 0%nat. rewrite Nat.sub_0_r, firstn_all.
    cbn [r_expr]. unfold const_tokens, const_val, tok_const. destruct (const_bytes (d_op d)); reflexivity.
  - cbn [shape_ok] in Hs. apply andb_prop in Hs. destruct Hs as [Hl Hb]. apply Nat.eqb_eq in Hl.
    assert (Hdp : decl_path scope (seg_name seg) = Some (scope ++ [seg])).
    { unfold decl_path, start_scope. cbn [seg_name n_root n_carets n_segs]. destruct (lenN scope <? 0) eqn:E0; [apply N.ltb_lt in E0; lia|].
      change (N.to_nat 0) with 0%nat. rewrite Nat.sub_0_r, firstn_all. reflexivity. }
    assert (HBody : forall sc,
                      (fix body (l : list ast) (sc : path) : list (list N) := match l with [] => [] | x :: r => entries e sc x ++ body r sc end) (map item_ast body) sc =
                               flat_map (sentry false sc) body).
    { clear -IH Hb. intros sc. induction body as [|x t IHt]; [reflexivity|]. cbn [forallb] in Hb.
      apply andb_prop in Hb. destruct Hb as [Hx Ht].
      cbn [map flat_map]. rewrite (IH x sc Hx), (IHt Ht). reflexivity. }
    assert (HDecls : forall sc, (fix decls (l : list ast) (sc : path) : list (list N) :=
                       match l with [] => [] | x :: r => (if is_decl x || is_fieldcontainer x then entries e sc x else []) ++ decls r sc end) (map item_ast body) sc =
                               flat_map (sentry true sc) body).
    { clear -IH Hb. intros sc. induction body as [|x t IHt]; [reflexivity|]. cbn [forallb] in Hb.
      apply andb_prop in Hb. destruct Hb as [Hx Ht].
      cbn [map flat_map]. destruct (item_is_decl x) as (E1 & E2). rewrite E1, E2, (IHt Ht). cbn [orb].
      destruct (nostmt x) eqn:En; [rewrite (IH x sc Hx), (sentry_nostmt x sc En); reflexivity|]. destruct x; try discriminate En. reflexivity. }
    cbn [item_ast sentry]. fold (vstmts body).
    destruct bk; cbn [bk_ws length] in Hl; (destruct fa as [|a0 [|a1 [|a2 [|a3 fa]]]]; try discriminate Hl);
      cbn [blk_ast entries nth]; rewrite Hdp; rewrite ?HBody, ?HDecls, ?r_seq_items; unfold blk_entry;
      cbn [bfx bk_ws combine flat_map fw_op bk_op app];
      repeat match goal with |- context [?a =? aml_pOpMethod] => let c := eval vm_compute in (a =? aml_pOpMethod) in change (a =? aml_pOpMethod) with c end; cbv iota;
      rewrite ?app_nil_r, <- ?app_assoc; reflexivity.
  - cbn [shape_ok] in Hs. apply andb_prop in Hs. destruct Hs as [Hl Ht]. apply Nat.eqb_eq in Hl. apply Nat.eqb_eq in Ht.
    assert (Hdp : decl_path scope (seg_name seg) = Some (scope ++ [seg])).
    { unfold decl_path, start_scope. cbn [seg_name n_root n_carets n_segs]. destruct (lenN scope <? 0) eqn:E0; [apply N.ltb_lt in E0; lia|].
      change (N.to_nat 0) with 0%nat. rewrite Nat.sub_0_r, firstn_all. reflexivity. }
    assert (Hcst : forall a, r_expr e scope (targ_ast a) = targ_tokens a) by (intros a; apply r_targ).
    cbn [item_ast sentry].
    destruct lk; cbn [lk_ws lk_nt length] in Hl, Ht; (destruct fa as [|a0 [|a1 fa]]; try discriminate Hl); (destruct ta as [|c0 [|c1 [|c2 ta]]]; try discriminate Ht);
      cbn [leaf_ast entries nth]; rewrite Hdp; rewrite ?Hcst; unfold leaf_entry; cbn [lfx lk_ws combine flat_map fw_op lk_op app];
      rewrite ?app_nil_r, <- ?app_assoc; reflexivity.
  - assert (Hdp : decl_path scope (seg_name seg) = Some (scope ++ [seg])).
    { unfold decl_path, start_scope. cbn [seg_name n_root n_carets n_segs]. destruct (lenN scope <? 0) eqn:E0; [apply N.ltb_lt in E0; lia|].
      change (N.to_nat 0) with 0%nat. rewrite Nat.sub_0_r, firstn_all. reflexivity. }
    assert (Hcst : forall els, flat_map (r_expr e scope) (map pel_ast els) = flat_map pel_tokens els).
    { clear. induction els as [|a r IHr|k n es r IHe IHr] using pels_ind; [reflexivity| |]; cbn [map flat_map]; rewrite IHr; f_equal.
      - cbn [pel_ast pel_tokens]. apply r_targ.
      - cbn [pel_ast pel_tokens r_expr]. rewrite IHe. unfold lenN. rewrite map_length. reflexivity. }
    cbn [item_ast sentry entries]. rewrite Hdp. cbn [r_expr]. rewrite Hcst. unfold pkg_entry, lenN. rewrite map_length. reflexivity.
Qed.

Lemma entries_items e its : forallb shape_ok its = true -> flat_map (entries e []) (map item_ast its) = sentries false [] its.
Proof.
  unfold sentries. induction its as [|x t IH]; intros Hs; [reflexivity|]. cbn [forallb] in Hs.
  apply andb_prop in Hs. destruct Hs as [Hx Ht].
  cbn [map flat_map]. rewrite (entries_item e x [] Hx), (IH Ht). reflexivity.
Qed.

Lemma root_len5 g pl its : Desc g pl (root_tree5 its) -> (6 + iszs its <= length pl)%nat.
Proof.
  intros HD. assert (Hin : In (5 + N.of_nat (iszs its)) (rnodes (root_tree5 its))) by (apply root_tree5_nodes; lia).
  destruct (Desc_lookup g pl _ HD _ Hin) as (a & ks & Dy). destruct (Desc_inv _ _ _ _ _ Dy) as (Py & _ & _).
  apply pget_lt in Py. lia.
Qed.

(** the end-to-end statement over items *)
Theorem parse_encode_items9 its :
  forallb shape_ok its = true ->
  wf_program [map item_ast its] = true -> lenN (encode_table (map item_ast its)) < 0x10000000 ->
  parse_encode_statement [map item_ast its].
Proof.
  intros Hshape Hwf Hfr.
  unfold wf_program in Hwf. cbn [wf_tables app] in Hwf. apply andb_prop in Hwf. destruct Hwf as [Hwf _].
  pose proof (wf_items _ _ its Hshape Hwf) as Hok.
  rewrite (encode_items its Hshape) in Hfr.
  unfold parse_encode_statement, parse_program, load. cbn [map].
  destruct default_rep as (t0 & Et0 & H0). rewrite Et0. cbn [load_tables]. rewrite (encode_items its Hshape).
  destruct (parse_f9x its t0 Hok Hfr H0) as (s' & gF & plF & Eparse & HF & DF & Etb & _).
  rewrite Eparse. cbn [load_tables app]. change (0 =? 0) with true. cbv iota.
  rewrite (view_f9 (p_tree s') gF plF HF [table_image (enc_items its)] its (hdr_of (enc_items its)) DF Hok (root_len5 _ _ _ DF) ltac:(rewrite table_image_hdr; reflexivity) eq_refl).
  unfold ns. cbn [flat_map]. rewrite app_nil_r, (entries_items _ its Hshape).
  f_equal. apply sort_perm. apply ventries_perm.
Qed.

(** ---- the fragment F9 as a predicate on programs ---- *)
Definition sk_of_op (op : N) : option skind :=
  if op =? 0xa4 then Some SRet else if op =? 0x121 then Some SSleep else if op =? 0x120 then Some SStall else if op =? 0x92 then Some SLNot
  else if op =? 0x90 then Some SLAnd else if op =? 0x91 then Some SLOr else if op =? 0x93 then Some SLEq else if op =? 0x94 then Some SLGt
  else if op =? 0x95 then Some SLLt else if op =? 0xa5 then Some SBreak else if op =? 0x9f then Some SCont else if op =? 0xcc then Some SBrkPt else None.
Lemma sk_of_op_eq op sk : sk_of_op op = Some sk -> op = sk_op sk.
Proof.
  unfold sk_of_op. repeat (match goal with |- (if ?c then _ else _) = _ -> _ => destruct c eqn:?E end);
    intros H; inversion H; subst; match goal with E : (_ =? _) = true |- _ => apply N.eqb_eq in E; exact E end.
Qed.
Definition targ_of (a : ast) : option targ :=
  match a with AConst op v => Some (TInt (mkDecl 0 op v)) | AStr b => Some (TStr b) | _ => None end.
Fixpoint targs_of (l : list ast) : option (list targ) :=
  match l with
  | [] => Some []
  | x :: t => match targ_of x, targs_of t with Some i, Some r => Some (i :: r) | _, _ => None end
  end.
Lemma targs_of_ast : forall l ta, targs_of l = Some ta -> l = map targ_ast ta.
Proof.
  induction l as [|x t IH]; intros ta H; cbn [targs_of] in H.
  - inversion H. reflexivity.
  - destruct (targ_of x) as [i|] eqn:Ei; [|discriminate]. destruct (targs_of t) as [r|] eqn:Er; [|discriminate].
    inversion H; subst ta. cbn [map]. rewrite <- (IH r eq_refl). f_equal. destruct x; try discriminate; inversion Ei; reflexivity.
Qed.

Fixpoint pel_of (a : ast) : option pel :=
  match a with
  | AConst op v => Some (PLeaf (TInt (mkDecl 0 op v)))
  | AStr b => Some (PLeaf (TStr b))
  | APackage k n es =>
      match (fix go (l : list ast) : option (list pel) :=
               match l with
               | [] => Some []
               | x :: t => match pel_of x, go t with Some i, Some r => Some (i :: r) | _, _ => None end
               end) es with
      | Some l => Some (PSub k n l)
      | None => None
      end
  | _ => None
  end.
Fixpoint pels_of (l : list ast) : option (list pel) :=
  match l with
  | [] => Some []
  | x :: t => match pel_of x, pels_of t with Some i, Some r => Some (i :: r) | _, _ => None end
  end.

Lemma pel_of_ast : forall a x, pel_of a = Some x -> a = pel_ast x.
Proof.
  fix IH 1. intros a x.
  assert (HL : forall l r, (fix go (l : list ast) : option (list pel) :=
                              match l with
                              | [] => Some []
                              | x :: t => match pel_of x, go t with Some i, Some r => Some (i :: r) | _, _ => None end
                              end) l = Some r -> l = map pel_ast r).
  { induction l as [|y t IHt]; intros r Hr.
    - inversion Hr. reflexivity.
    - destruct (pel_of y) as [i|] eqn:Ei; [|discriminate].
      match type of Hr with match ?G with _ => _ end = _ => destruct G as [r'|] eqn:Er; [|discriminate] end.
      inversion Hr; subst r. cbn [map]. rewrite <- (IH y i Ei), <- (IHt r' eq_refl). reflexivity. }
  destruct a; try discriminate; cbn [pel_of].
  - intros E; inversion E. reflexivity.
  - intros E; inversion E. reflexivity.
  - match goal with |- match ?G with _ => _ end = _ -> _ => destruct G as [l|] eqn:El; [|discriminate] end.
    intros E; inversion E. cbn [pel_ast]. rewrite <- (HL _ _ El). reflexivity.
Qed.

Lemma pels_of_ast : forall l r, pels_of l = Some r -> l = map pel_ast r.
Proof.
  induction l as [|x t IH]; intros r H; cbn [pels_of] in H.
  - inversion H. reflexivity.
  - destruct (pel_of x) as [i|] eqn:Ei; [|discriminate]. destruct (pels_of t) as [r'|] eqn:Er; [|discriminate].
    inversion H; subst r. cbn [map]. rewrite <- (IH r' eq_refl), <- (pel_of_ast x i Ei). reflexivity.
Qed.

Fixpoint f9_item (a : ast) : option item :=
  let go := fix go (l : list ast) : option (list item) :=
              match l with
              | [] => Some []
              | x :: t => match f9_item x, go t with Some i, Some r => Some (i :: r) | _, _ => None end
              end in
  let blk (bk : bkind) (k : N) (nm : namestr) (fa : list N) (body : list ast) : option item :=
      match simple_name nm, go body with
      | Some seg, Some b => Some (IBlk bk k seg fa b)
      | _, _ => None
      end in
  match a with
  | AName nm (AConst op v) => match simple_name nm with Some seg => Some (IName (mkDecl seg op v)) | None => None end
  | AName nm (AStr b) => match simple_name nm with Some seg => Some (ILeaf LName seg [] [TStr b]) | None => None end
  | AName nm (APackage k n elems) =>
      match simple_name nm, pels_of elems with Some seg, Some l => Some (IPkg seg k n l) | _, _ => None end
  | ADevice k nm body => blk BDev k nm [] body
  | AThermal k nm body => blk BTZ k nm [] body
  | AProcessor k nm id addr len body => blk BProc k nm [id; addr; len] body
  | APowerRes k nm level order body => blk BPwr k nm [level; order] body
  | AMethod k nm fl body => blk BMeth k nm [fl] body
  | AMutex nm sync => match simple_name nm with Some seg => Some (ILeaf LMutex seg [sync] []) | None => None end
  | AEvent nm => match simple_name nm with Some seg => Some (ILeaf LEvent seg [] []) | None => None end
  | AOp op args => match sk_of_op op, targs_of args with Some sk, Some ta => Some (IStmt sk ta) | _, _ => None end
  | AOpRegion nm space (AConst op1 v1) (AConst op2 v2) =>
      match simple_name nm with Some seg => Some (ILeaf LOpReg seg [space] [TInt (mkDecl 0 op1 v1); TInt (mkDecl 0 op2 v2)]) | None => None end
  | _ => None
  end.

Fixpoint f9_items (l : list ast) : option (list item) :=
  match l with
  | [] => Some []
  | x :: t => match f9_item x, f9_items t with Some i, Some r => Some (i :: r) | _, _ => None end
  end.

Lemma f9_item_ast : forall a it, f9_item a = Some it -> a = item_ast it /\ shape_ok it = true.
Proof.
  fix IH 1. intros a it.
  assert (HL : forall l b, (fix go (l : list ast) : option (list item) :=
                              match l with
                              | [] => Some []
                              | x :: t => match f9_item x, go t with Some i, Some r => Some (i :: r) | _, _ => None end
                              end) l = Some b -> l = map item_ast b /\ forallb shape_ok b = true).
  { induction l as [|x t IHt]; intros b Hb.
    - inversion Hb. split; reflexivity.
    - destruct (f9_item x) as [i|] eqn:Ei; [|discriminate].
      match type of Hb with match ?G with _ => _ end = _ => destruct G as [r|] eqn:Er; [|discriminate] end.
      inversion Hb; subst b. cbn [map forallb]. destruct (IH x i Ei) as (-> & Hi). destruct (IHt r eq_refl) as (-> & Hr).
      rewrite Hi, Hr. split; reflexivity. }
  destruct a as [ | | | | | op args | | | | | | | | k nm body | k nm body | k nm id addr len body | k nm level order body | k nm fl body | nm v | nm space off len | | | | nm sync | nm ]; try discriminate;
    cbn [f9_item];
    try (destruct (simple_name nm) as [seg|] eqn:En; [|discriminate]; apply simple_name_eq in En; subst nm;
         match goal with |- match ?G with _ => _ end = _ -> _ => destruct G as [b|] eqn:Eb; [|discriminate] end;
         intros E; inversion E; subst it; destruct (HL body b Eb) as (-> & Hb); split; [reflexivity|];
         cbn [shape_ok bk_ws length Nat.eqb andb]; exact Hb).
  - destruct (sk_of_op op) as [sk|] eqn:Es; [|discriminate]. destruct (targs_of args) as [ta|] eqn:Et; [|discriminate].
    apply sk_of_op_eq in Es. apply targs_of_ast in Et. subst op args. intros E; inversion E. split; reflexivity.
  - destruct v; try discriminate; (destruct (simple_name nm) as [seg|] eqn:En; [|discriminate]); apply simple_name_eq in En; subst nm;
      try (destruct (pels_of elems) as [ta|] eqn:Eta; [apply pels_of_ast in Eta; subst elems|discriminate]);
      intros E; inversion E; split; reflexivity.
  - destruct off; try discriminate. destruct len; try discriminate. destruct (simple_name nm) as [seg|] eqn:En; [|discriminate]. apply simple_name_eq in En. subst nm.
    intros E; inversion E. split; reflexivity.
  - destruct (simple_name nm) as [seg|] eqn:En; [|discriminate]. apply simple_name_eq in En. subst nm.
    intros E; inversion E. split; reflexivity.
  - destruct (simple_name nm) as [seg|] eqn:En; [|discriminate]. apply simple_name_eq in En. subst nm.
    intros E; inversion E. split; reflexivity.
Qed.

Lemma f9_items_ast : forall p its, f9_items p = Some its -> p = map item_ast its /\ forallb shape_ok its = true.
Proof.
  induction p as [|x t IH]; intros its Hp; cbn [f9_items] in Hp.
  - inversion Hp. split; reflexivity.
  - destruct (f9_item x) as [i|] eqn:Ei; [|discriminate]. destruct (f9_items t) as [r|] eqn:Er; [|discriminate].
    inversion Hp; subst its. cbn [map forallb]. destruct (f9_item_ast x i Ei) as (-> & Hi). destruct (IH r eq_refl) as (-> & Hr).
    rewrite Hi, Hr. split; reflexivity.
Qed.


Definition in_fragment_F9 (tables : list (list ast)) : bool :=
  match tables with
  | [p] => match f9_items p with
           | Some _ => lenN (encode_table p) <? 0x10000000
           | None => false
           end
  | _ => false
  end.

(** THE THEOREM for the fragment F9 *)
Theorem parse_encode_F9 : forall tables,
  wf_program tables = true -> in_fragment_F9 tables = true -> parse_encode_statement tables.
Proof.
  intros tables Hwf Hfr. unfold in_fragment_F9 in Hfr.
  destruct tables as [|p [|p2 rest]]; try discriminate.
  destruct (f9_items p) as [its|] eqn:Eits; [|discriminate].
  apply N.ltb_lt in Hfr.
  destruct (f9_items_ast p its Eits) as (-> & Hshape).
  apply parse_encode_items9; assumption.
Qed.
